(* Proofs about Model/CellRecord.v *)
From Coq Require Import ZArith NArith List Bool Lia.
From NP Require Import Model.PyBase Model.CellRecord.
Import ListNotations.
Open Scope N_scope.
Ltac Zify.zify_post_hook ::= Z.to_euclidean_division_equations.

(* ---------- generic walk ---------- *)
Fixpoint agree (Ls : list lent) (flags : N) (vs : vals) : Prop :=
  match Ls, vs with
  | [], [] => True
  | f :: Ls', v :: vs' => N.testbit flags (lbit f) = is_some v /\ agree Ls' flags vs'
  | _, _ => False
  end.

Lemma firstn_app_exact {A} (p r : list A) n : length p = n -> firstn n (p ++ r) = p.
Proof. intros <-. rewrite firstn_app, firstn_all, Nat.sub_diag. cbn. apply app_nil_r. Qed.
Lemma skipn_app_exact {A} (p r : list A) n : length p = n -> skipn n (p ++ r) = r.
Proof. intros <-. rewrite skipn_app, skipn_all, Nat.sub_diag. reflexivity. Qed.

Theorem walk_spec : forall Ls flags vs rest,
  agree Ls flags vs -> fits Ls vs ->
  walk Ls flags (emit vs ++ rest) = Ok (mask Ls vs, rest).
Proof.
  induction Ls as [|f Ls IH]; intros flags vs rest Ha Hf.
  - destruct vs; [reflexivity|destruct Ha].
  - destruct vs as [|v vs]; [destruct Ha|]. destruct Ha as [Hb Ha].
    cbn [walk mask]. rewrite Hb. destruct v as [p|]; cbn [is_some emit].
    + destruct Hf as [Hlen Hf]. rewrite <- app_assoc.
      destruct (lread f) eqn:Hr.
      * assert (Hle : Nat.leb (lwidth f) (length (p ++ emit vs ++ rest)) = true).
        { apply Nat.leb_le. rewrite app_length. lia. }
        rewrite Hle, (skipn_app_exact p _ _ Hlen), (firstn_app_exact p _ _ Hlen).
        now rewrite (IH flags vs rest Ha Hf).
      * rewrite (skipn_app_exact p _ _ Hlen). now rewrite (IH flags vs rest Ha Hf).
    + rewrite (IH flags vs rest Ha Hf). now destruct (lread f).
Qed.

Fixpoint ascending (lo : option N) (Ls : list lent) : Prop :=
  match Ls with
  | [] => True
  | f :: Ls' => (match lo with Some b => b < lbit f | None => True end) /\ ascending (Some (lbit f)) Ls'
  end.

Lemma flags_bits_above Ls : forall vs lo b, ascending (Some lo) Ls -> b <= lo -> N.testbit (flags_of Ls vs) b = false.
Proof.
  induction Ls as [|f Ls IH]; intros vs lo b Ha Hb; cbn [flags_of].
  - destruct vs; reflexivity.
  - destruct Ha as [Hlt Ha]. destruct vs as [|[p|] vs]; try reflexivity.
    + rewrite N.lor_spec, N.pow2_bits_eqb. rewrite (IH vs (lbit f) b Ha) by lia.
      rewrite orb_false_r. apply N.eqb_neq. lia.
    + apply (IH vs (lbit f) b Ha). lia.
Qed.

Lemma agree_flags : forall Ls lo vs hi,
  ascending lo Ls -> length vs = length Ls ->
  (forall b, N.testbit hi b = true -> match lo with Some l => b <= l | None => False end) ->
  agree Ls (N.lor hi (flags_of Ls vs)) vs.
Proof.
  induction Ls as [|f Ls IH]; intros lo vs hi Ha Hlen Hhi.
  - destruct vs; [exact I|discriminate].
  - destruct vs as [|v vs]; [discriminate|]. destruct Ha as [Hlo Ha]. cbn [agree flags_of].
    destruct v as [p|]; cbn [is_some].
    + split.
      * rewrite !N.lor_spec, N.pow2_bits_eqb, N.eqb_refl. now rewrite orb_true_r.
      * rewrite N.lor_assoc. apply (IH (Some (lbit f))); [assumption|cbn in Hlen; lia|].
        intros b Hbit. rewrite N.lor_spec, N.pow2_bits_eqb in Hbit. apply orb_prop in Hbit as [Hbit|Hbit].
        -- specialize (Hhi b Hbit). destruct lo; [lia|tauto].
        -- apply N.eqb_eq in Hbit. lia.
    + split.
      * rewrite N.lor_spec. rewrite (flags_bits_above Ls vs (lbit f) (lbit f) Ha) by lia. rewrite orb_false_r.
        destruct (N.testbit hi (lbit f)) eqn:E; [|reflexivity]. specialize (Hhi _ E). destruct lo; [lia|tauto].
      * apply (IH (Some (lbit f))); [assumption|cbn in Hlen; lia|].
        intros b Hbit. specialize (Hhi b Hbit). destruct lo; [lia|tauto].
Qed.

Lemma agree_firstn : forall n Ls flags vs, agree Ls flags vs -> agree (firstn n Ls) flags (firstn n vs).
Proof.
  induction n as [|n IH]; intros Ls flags vs Ha; [exact I|].
  destruct Ls as [|f Ls], vs as [|v vs]; try (destruct Ha; fail); [exact I|].
  destruct Ha as [H1 H2]. cbn [firstn agree]. split; [assumption|now apply IH].
Qed.

Lemma fits_firstn : forall n Ls vs, fits Ls vs -> fits (firstn n Ls) (firstn n vs).
Proof.
  induction n as [|n IH]; intros Ls vs Hf; [exact I|].
  destruct Ls as [|f Ls], vs as [|v vs]; try (destruct Hf; fail); [exact I|].
  cbn [firstn fits]. destruct v as [p|]; cbn [fits] in Hf |- *.
  - destruct Hf as [H1 H2]. split; [assumption|now apply IH].
  - now apply IH.
Qed.

Lemma fits_length : forall Ls vs, fits Ls vs -> length vs = length Ls.
Proof.
  induction Ls as [|f Ls IH]; intros [|v vs] Hf; try (destruct Hf; fail); [reflexivity|].
  cbn [length]. f_equal. apply IH. destruct v; cbn [fits] in Hf; tauto.
Qed.

Lemma emit_app a b : emit (a ++ b) = emit a ++ emit b.
Proof. induction a as [|[p|] a IH]; cbn [app emit]; [reflexivity| |assumption]. now rewrite IH, app_assoc. Qed.

(* ---------- little-endian ---------- *)
Lemma le_bytes_length k n : length (le_bytes k n) = k.
Proof. revert n; induction k; intros; cbn; [reflexivity|now rewrite IHk]. Qed.

Lemma le_val_bytes k : forall n, n < 256 ^ N.of_nat k -> le_val (le_bytes k n) = n.
Proof.
  induction k as [|k IH]; intros n Hn.
  - cbn in *. lia.
  - cbn [le_bytes le_val]. rewrite Nat2N.inj_succ, N.pow_succ_r' in Hn.
    rewrite IH by (apply N.div_lt_upper_bound; lia). lia.
Qed.

Lemma le_bytes_bytes k : forall n, Forall (fun x => x < 256) (le_bytes k n).
Proof. induction k; intros; cbn; constructor; [lia|apply IHk]. Qed.

Lemma unpack_pack_i32 z : i32_ok z = true -> unpack_i32 (pack_i32 z) = z.
Proof.
  unfold i32_ok, unpack_i32, pack_i32. intros H. apply andb_prop in H as [H1 H2].
  apply Z.leb_le in H1, H2.
  rewrite le_val_bytes by (change (256 ^ N.of_nat 4) with 4294967296; lia).
  destruct (Z.ltb_spec (Z.of_N (Z.to_N (z mod 4294967296))) 2147483648); lia.
Qed.

(* ---------- ascending layout ---------- *)
Lemma doc_layout_ascending : ascending None doc_layout.
Proof. cbn. repeat split; lia. Qed.

Lemma lor_lt_pow2 a b k : a < 2 ^ k -> b < 2 ^ k -> N.lor a b < 2 ^ k.
Proof.
  intros Ha Hb. assert (Hp : 2 ^ k <> 0) by (apply N.pow_nonzero; lia).
  apply N.div_small_iff; [assumption|].
  rewrite <- N.shiftr_div_pow2, N.shiftr_lor, !N.shiftr_div_pow2.
  rewrite (N.div_small a), (N.div_small b) by assumption. reflexivity.
Qed.

Lemma flags_of_bound k : forall Ls vs, Forall (fun f => lbit f < k) Ls -> flags_of Ls vs < 2 ^ k.
Proof.
  assert (Hp : 0 < 2 ^ k) by (apply N.neq_0_lt_0, N.pow_nonzero; lia).
  induction Ls as [|f Ls IH]; intros vs HL; cbn [flags_of].
  - destruct vs; exact Hp.
  - pose proof (Forall_inv HL) as Hf. pose proof (Forall_inv_tail HL) as HLs. cbn beta in Hf.
    destruct vs as [|[p|] vs]; [exact Hp| |now apply IH].
    apply lor_lt_pow2; [apply N.pow_lt_mono_r; lia|now apply IH].
Qed.

Lemma doc_flags_small vs : flags_of doc_layout vs < 256 ^ N.of_nat 4.
Proof.
  change (256 ^ N.of_nat 4) with (2 ^ 32).
  apply flags_of_bound. unfold doc_layout. repeat constructor; cbn; lia.
Qed.

(* ---------- decoding a record built from the documented layout ---------- *)
Definition view (t extras : N) (flags : N) (vs : vals) : decoded :=
  {| d_type := t; d_extras := extras; d_flags := unpack_i32 (le_bytes 4 flags);
     d_vals := mask decode_layout (firstn 19 vs) |}.

Definition payload_ok (t : N) (vs : vals) : bool :=
  negb (((t =? 5) && negb (is_some (nth 2 vs None))) || (((t =? 6) || (t =? 7)) && negb (is_some (nth 1 vs None)))).

Lemma nth_mask_read : forall Ls vs i, (exists f, nth_error Ls i = Some f /\ lread f = true) ->
  nth i (mask Ls vs) None = nth i vs None.
Proof.
  induction Ls as [|f Ls IH]; intros vs i [g [Hn Hr]].
  - destruct i; discriminate.
  - destruct vs as [|v vs]; [destruct i; reflexivity|].
    destruct i as [|i]; cbn in *.
    + inversion Hn; subst. now rewrite Hr.
    + apply IH. eauto.
Qed.

Theorem decode_ref_encode t extras vs :
  fits doc_layout vs -> known_type t = true -> extras < 256 -> payload_ok t vs = true ->
  decode (ref_encode t extras vs) = Ok (view t extras (flags_of doc_layout vs) vs).
Proof.
  intros Hf Hk He Hp.
  pose proof (fits_length _ _ Hf) as Hlen.
  unfold ref_encode, decode. cbn [app].
  change (negb (5 =? 5)) with false. cbv iota.
  assert (Hl12 : Nat.ltb (length (5 :: t :: 0 :: 0 :: 0 :: 0 :: extras :: 0 :: le_bytes 4 (flags_of doc_layout vs) ++ emit vs)) 12 = false).
  { apply Nat.ltb_ge. cbn [length]. rewrite app_length, le_bytes_length. lia. }
  rewrite Hl12.
  set (fl := flags_of doc_layout vs).
  assert (Hs812 : slice (5 :: t :: 0 :: 0 :: 0 :: 0 :: extras :: 0 :: le_bytes 4 fl ++ emit vs) 8 12 = le_bytes 4 fl).
  { unfold slice. cbn [skipn Nat.sub]. apply firstn_app_exact, le_bytes_length. }
  assert (Hs68 : slice (5 :: t :: 0 :: 0 :: 0 :: 0 :: extras :: 0 :: le_bytes 4 fl ++ emit vs) 6 8 = [extras; 0]).
  { reflexivity. }
  assert (Hsk : skipn 12 (5 :: t :: 0 :: 0 :: 0 :: 0 :: extras :: 0 :: le_bytes 4 fl ++ emit vs) = emit vs).
  { cbn [skipn]. apply (skipn_app_exact (le_bytes 4 fl) (emit vs) 4), le_bytes_length. }
  rewrite Hs812, Hs68, Hsk.
  rewrite le_val_bytes by apply doc_flags_small.
  rewrite <- (firstn_skipn 19 vs) at 1. rewrite emit_app.
  assert (Hag : agree decode_layout fl (firstn 19 vs)).
  { unfold decode_layout. apply agree_firstn. unfold fl.
    rewrite <- (N.lor_0_l (flags_of doc_layout vs)).
    apply (agree_flags doc_layout None vs 0 doc_layout_ascending Hlen).
    intros b Hb. rewrite N.bits_0 in Hb. discriminate. }
  assert (Hft : fits decode_layout (firstn 19 vs)) by (unfold decode_layout; now apply fits_firstn).
  rewrite (walk_spec decode_layout fl (firstn 19 vs) _ Hag Hft).
  cbn [nth]. rewrite Hk. cbn [negb].
  assert (Hlv : le_val [extras; 0] = extras) by (cbn [le_val]; lia).
  rewrite Hlv.
  (* payload presence as seen through the mask *)
  assert (N2 : nth 2 (mask decode_layout (firstn 19 vs)) None = nth 2 vs None).
  { rewrite nth_mask_read by (eexists; split; reflexivity).
    destruct vs as [|v0 [|v1 [|v2 vs']]]; reflexivity. }
  assert (N1 : nth 1 (mask decode_layout (firstn 19 vs)) None = nth 1 vs None).
  { rewrite nth_mask_read by (eexists; split; reflexivity).
    destruct vs as [|v0 [|v1 vs']]; reflexivity. }
  rewrite N2, N1. unfold payload_ok in Hp. apply negb_true_iff in Hp. rewrite Hp.
  reflexivity.
Qed.

(* ---------- the implementation's encoder is the reference encoder on its own fields ---------- *)
Definition stepL (st : N * list N) (e : N * option (list N)) : N * list N :=
  match snd e with Some p => (N.lor (fst st) (2 ^ fst e), snd st ++ p) | None => st end.
Fixpoint flagsL (l : list (N * option (list N))) : N :=
  match l with [] => 0 | (b, Some _) :: r => N.lor (2 ^ b) (flagsL r) | (_, None) :: r => flagsL r end.
Fixpoint emitL (l : list (N * option (list N))) : list N :=
  match l with [] => [] | (_, Some p) :: r => p ++ emitL r | (_, None) :: r => emitL r end.

Lemma fold_stepL l : forall f s, fold_left stepL l (f, s) = (N.lor f (flagsL l), s ++ emitL l).
Proof.
  induction l as [|[b [p|]] l IH]; intros f s; cbn [fold_left flagsL emitL].
  - now rewrite N.lor_0_r, app_nil_r.
  - unfold stepL at 2. cbn [fst snd]. rewrite IH. now rewrite N.lor_assoc, app_assoc.
  - unfold stepL at 2. cbn [fst snd]. apply IH.
Qed.

Lemma enc_step_stepL b o st : enc_step b o st = stepL st (b, opt_i32 o).
Proof. destruct o; reflexivity. Qed.

Definition tail_steps (c : cell) : list (N * option (list N)) :=
  [ (4, opt_i32 (c_rich c)); (5, opt_i32 (c_cell_style c)); (6, opt_i32 (c_text_style c));
    (9, opt_i32 (c_formula c)); (10, opt_i32 (c_control c)); (12, opt_i32 (c_suggest c));
    (13, opt_i32 (c_num_fmt c)); (14, opt_i32 (c_cur_fmt c)); (15, opt_i32 (c_date_fmt c));
    (16, opt_i32 (c_dur_fmt c)); (17, opt_i32 (c_text_fmt c)); (18, opt_i32 (c_bool_fmt c)) ].

Definition tail_vals (c : cell) : vals :=
  [ opt_i32 (c_rich c); opt_i32 (c_cell_style c); opt_i32 (c_text_style c); None; None;
    opt_i32 (c_formula c); opt_i32 (c_control c); None; opt_i32 (c_suggest c);
    opt_i32 (c_num_fmt c); opt_i32 (c_cur_fmt c); opt_i32 (c_date_fmt c);
    opt_i32 (c_dur_fmt c); opt_i32 (c_text_fmt c); opt_i32 (c_bool_fmt c); None; None ].

Lemma tail_flags c : flags_of (skipn 4 doc_layout) (tail_vals c) = flagsL (tail_steps c).
Proof.
  unfold tail_vals, tail_steps, doc_layout. cbn [skipn flags_of flagsL lbit L].
  destruct (opt_i32 (c_rich c)), (opt_i32 (c_cell_style c)), (opt_i32 (c_text_style c)); reflexivity.
Qed.

Lemma tail_emit c : emit (tail_vals c) = emitL (tail_steps c).
Proof. reflexivity. Qed.

Lemma cell_vals_split c : cell_vals c = [slot_val c 0; slot_val c 1; slot_val c 2; slot_val c 3] ++ tail_vals c.
Proof. reflexivity. Qed.

Lemma flags_of_app : forall L1 L2 v1 v2, length v1 = length L1 ->
  flags_of (L1 ++ L2) (v1 ++ v2) = N.lor (flags_of L1 v1) (flags_of L2 v2).
Proof.
  induction L1 as [|f L1 IH]; intros L2 [|v v1] v2 Hlen; try discriminate; cbn [app flags_of].
  - now rewrite N.lor_0_l.
  - destruct v; rewrite IH by (cbn in Hlen; lia); [now rewrite N.lor_assoc|reflexivity].
Qed.

Theorem encode_is_ref_encode c :
  encode c = ref_encode (kind_type (c_kind c)) (extras6 c) (cell_vals c).
Proof.
  unfold encode, ref_encode. rewrite !enc_step_stepL.
  set (f0 := match kind_slot (c_kind c) with Some (b, _) => 2 ^ b | None => 0 end).
  set (v0 := match kind_slot (c_kind c) with Some _ => c_payload c | None => [] end).
  change (stepL (stepL (stepL (stepL (stepL (stepL (stepL (stepL (stepL (stepL (stepL (stepL
            (f0, v0)
            (4, opt_i32 (c_rich c))) (5, opt_i32 (c_cell_style c))) (6, opt_i32 (c_text_style c)))
            (9, opt_i32 (c_formula c))) (10, opt_i32 (c_control c))) (12, opt_i32 (c_suggest c)))
            (13, opt_i32 (c_num_fmt c))) (14, opt_i32 (c_cur_fmt c))) (15, opt_i32 (c_date_fmt c)))
            (16, opt_i32 (c_dur_fmt c))) (17, opt_i32 (c_text_fmt c))) (18, opt_i32 (c_bool_fmt c)))
    with (fold_left stepL (tail_steps c) (f0, v0)).
  rewrite fold_stepL. cbn [fst snd].
  rewrite cell_vals_split, emit_app, <- tail_emit.
  change doc_layout with (firstn 4 doc_layout ++ skipn 4 doc_layout).
  rewrite flags_of_app by reflexivity. rewrite tail_flags.
  assert (Hf : f0 = flags_of (firstn 4 doc_layout) [slot_val c 0; slot_val c 1; slot_val c 2; slot_val c 3]).
  { unfold f0, slot_val. destruct (c_kind c); reflexivity. }
  assert (Hv : v0 = emit [slot_val c 0; slot_val c 1; slot_val c 2; slot_val c 3]).
  { unfold v0, slot_val. destruct (c_kind c); cbn [kind_slot N.eqb Pos.eqb emit]; rewrite ?app_nil_r; reflexivity. }
  now rewrite <- Hf, <- Hv.
Qed.

(* ---------- record round trip ---------- *)
Lemma fits_cons f Ls o vs :
  match o with Some p => length p = lwidth f | None => True end -> fits Ls vs -> fits (f :: Ls) (o :: vs).
Proof. destruct o; cbn [fits]; tauto. Qed.

Lemma opt_fits o : match opt_i32 o with Some p => length p = 4%nat | None => True end.
Proof. destruct o; cbn [opt_i32 option_map]; [apply le_bytes_length|exact I]. Qed.

Lemma slot_fits c b w : wf_cell c = true ->
  (forall b' w', kind_slot (c_kind c) = Some (b', w') -> b = b' -> w = w') ->
  match slot_val c b with Some p => length p = w | None => True end.
Proof.
  unfold wf_cell, slot_val. intros H Hw. repeat (apply andb_prop in H as [H _]). apply Nat.eqb_eq in H.
  destruct (kind_slot (c_kind c)) as [[b' w']|]; [|exact I].
  destruct (N.eqb_spec b b'); [|exact I]. rewrite H. symmetry. now apply (Hw b' w').
Qed.

Lemma wf_fits c : wf_cell c = true -> fits doc_layout (cell_vals c).
Proof.
  intros H. unfold cell_vals, doc_layout.
  repeat (apply fits_cons; [first [exact I | apply opt_fits | idtac]|]); try exact I.
  all: apply slot_fits; [assumption|]; intros b' w' Hk Hb; subst b';
       destruct (c_kind c); cbn in Hk; inversion Hk; reflexivity.
Qed.

Lemma bitif_lt b v k : v < 2 ^ k -> bitif b v < 2 ^ k.
Proof. intros. destruct b; cbn [bitif]; [assumption|]. apply N.neq_0_lt_0, N.pow_nonzero. lia. Qed.

Lemma extras6_byte c : extras6 c < 256.
Proof.
  unfold extras6. change 256 with (2 ^ 8).
  repeat apply lor_lt_pow2; apply bitif_lt; cbn; lia.
Qed.

Lemma kind_known k : known_type (kind_type k) = true.
Proof. destruct k; reflexivity. Qed.

Lemma kind_payload_ok c : wf_cell c = true -> payload_ok (kind_type (c_kind c)) (cell_vals c) = true.
Proof.
  intros _. unfold payload_ok, cell_vals, slot_val. cbn [nth].
  destruct (c_kind c); reflexivity.
Qed.

Lemma mask_cell_vals c : mask decode_layout (firstn 19 (cell_vals c)) = firstn 19 (cell_vals c).
Proof. reflexivity. Qed.

Theorem record_roundtrip_lemma c : wf_cell c = true ->
  decode (encode c) =
  Ok {| d_type := kind_type (c_kind c); d_extras := extras6 c;
        d_flags := unpack_i32 (le_bytes 4 (flags_of doc_layout (cell_vals c)));
        d_vals := firstn 19 (cell_vals c) |}.
Proof.
  intros Hwf. rewrite encode_is_ref_encode.
  rewrite decode_ref_encode; [reflexivity|now apply wf_fits|apply kind_known|apply extras6_byte|now apply kind_payload_ok].
Qed.

(* field by field: what the decoder reports for each attribute is what the cell carried *)
Definition get_id (d : decoded) (i : nat) : option Z := option_map unpack_i32 (nth i (d_vals d) None).

Lemma get_id_opt o : opt_ok o = true -> option_map unpack_i32 (opt_i32 o) = o.
Proof. destruct o as [z|]; cbn [opt_ok opt_i32 option_map]; intros H; [now rewrite unpack_pack_i32|reflexivity]. Qed.

Theorem record_fields_lemma c d : wf_cell c = true -> decode (encode c) = Ok d ->
  d_type d = kind_type (c_kind c) /\
  (forall b w, kind_slot (c_kind c) = Some (b, w) -> nth (N.to_nat b) (d_vals d) None = Some (c_payload c)) /\
  get_id d 4 = c_rich c /\ get_id d 5 = c_cell_style c /\ get_id d 6 = c_text_style c /\
  get_id d 9 = c_formula c /\ get_id d 10 = c_control c /\ get_id d 12 = c_suggest c /\
  get_id d 13 = c_num_fmt c /\ get_id d 14 = c_cur_fmt c /\ get_id d 15 = c_date_fmt c /\
  get_id d 16 = c_dur_fmt c /\ get_id d 17 = c_text_fmt c /\ get_id d 18 = c_bool_fmt c /\
  nth 7 (d_vals d) None = None /\ nth 8 (d_vals d) None = None /\ nth 11 (d_vals d) None = None.
Proof.
  intros Hwf Hd. pose proof (record_roundtrip_lemma c Hwf) as HR. rewrite HR in Hd.
  assert (Hty : d_type d = kind_type (c_kind c)) by (apply (f_equal (fun r => match r with Ok x => d_type x | Err _ => 0 end)) in Hd; symmetry; exact Hd).
  assert (Hv : d_vals d = firstn 19 (cell_vals c)) by (apply (f_equal (fun r => match r with Ok x => d_vals x | Err _ => nil end)) in Hd; symmetry; exact Hd).
  clear Hd. unfold get_id. rewrite Hv. clear Hv.
  pose proof Hwf as H. unfold wf_cell in H.
  repeat match type of H with (_ && _ = true) => let H2 := fresh "Ho" in apply andb_prop in H as [H H2] end.
  split; [exact Hty|]. split.
  { intros b w Hk. unfold cell_vals, slot_val. rewrite Hk.
    destruct (c_kind c); cbn [kind_slot] in Hk; inversion Hk; subst; reflexivity. }
  unfold cell_vals. cbn [firstn nth].
  rewrite !get_id_opt by assumption. repeat split; reflexivity.
Qed.

(* ---------- length and alignment ---------- *)
Lemma emit_aligned : forall Ls vs, Forall (fun f => Nat.modulo (lwidth f) 4 = 0%nat) Ls -> fits Ls vs ->
  Nat.modulo (length (emit vs)) 4 = 0%nat.
Proof.
  induction Ls as [|f Ls IH]; intros [|v vs] HL Hf; try (destruct Hf; fail); [reflexivity|].
  pose proof (Forall_inv HL) as Hw. pose proof (Forall_inv_tail HL) as HLs. cbn beta in Hw.
  destruct v as [p|]; cbn [fits emit] in *.
  - destruct Hf as [Hlen Hf]. rewrite app_length, Hlen.
    specialize (IH vs HLs Hf).
    rewrite Nat.add_mod by lia. rewrite Hw, IH. reflexivity.
  - now apply IH.
Qed.

Theorem length_and_alignment_lemma c : wf_cell c = true ->
  length (encode c) = (12 + length (emit (cell_vals c)))%nat /\ Nat.modulo (length (encode c)) 4 = 0%nat.
Proof.
  intros Hwf. rewrite encode_is_ref_encode. unfold ref_encode.
  cbn [app length]. rewrite app_length, le_bytes_length.
  split; [lia|].
  pose proof (emit_aligned doc_layout (cell_vals c)) as H.
  assert (HL : Forall (fun f => Nat.modulo (lwidth f) 4 = 0%nat) doc_layout).
  { unfold doc_layout. repeat constructor. }
  specialize (H HL (wf_fits c Hwf)).
  replace (S (S (S (S (S (S (S (S (4 + length (emit (cell_vals c))))))))))) with (length (emit (cell_vals c)) + 3 * 4)%nat by lia.
  rewrite Nat.mod_add by lia. exact H.
Qed.
