(* Proofs about the archive segment layer of Model/IWA.v (C05 instance):
   header length bookkeeping, segment / stream / file round trips. *)
From Coq Require Import NArith List Bool Lia ZArith.
From NP Require Import Model.PyBase Model.Varint Model.Wire Model.IWA
  Proofs.VarintP Proofs.WireP Proofs.IWAP.
Import ListNotations.
Open Scope N_scope.
Ltac Zify.zify_post_hook ::= Z.to_euclidean_division_equations.

(* ---------- field access lemmas ---------- *)
Lemma is_info_some : forall f sb, is_info f = Some sb -> f = (2, WLen sb).
Proof.
  intros [k [n|b|b|b]] sb H; cbn [is_info] in H; try discriminate.
  destruct (N.eqb_spec k 2); [|discriminate]. injection H as <-. now subst.
Qed.

Lemma len_fields2_cons : forall f m,
  len_fields 2 (f :: m) = match is_info f with Some sb => sb :: len_fields 2 m | None => len_fields 2 m end.
Proof.
  intros [k [n|b|b|b]] m; unfold len_fields; cbn [flat_map is_info]; try reflexivity.
  destruct (k =? 2); reflexivity.
Qed.

Definition lv_step (k : N) (acc : option N) (f : wfield) : option N :=
  match f with (k', WVarint n) => if k' =? k then Some n else acc | _ => acc end.

Lemma last_varint_fold : forall k m, last_varint k m = fold_left (lv_step k) m None.
Proof. reflexivity. Qed.

Lemma fold_set_f3 : forall l sub acc,
  fold_left (lv_step 3) (map (set_f3_field l) sub) acc = if has_varint 3 sub then Some l else acc.
Proof.
  intros l. induction sub as [|[k v] sub IH]; intros acc; [reflexivity|].
  cbn [map fold_left has_varint existsb]. rewrite IH.
  destruct v as [n|b|b|b]; cbn [set_f3_field lv_step]; try reflexivity.
  destruct (N.eqb_spec k 3) as [->|Hk].
  - cbn [lv_step N.eqb Pos.eqb orb]. now destruct (has_varint 3 sub).
  - cbn [lv_step orb]. destruct (N.eqb_spec k 3); [contradiction|]. reflexivity.
Qed.

Lemma last_varint_set_f3 : forall l sub, last_varint 3 (set_f3 l sub) = Some l.
Proof.
  intros l sub. rewrite last_varint_fold. unfold set_f3. destruct (has_varint 3 sub) eqn:E.
  - now rewrite fold_set_f3, E.
  - rewrite fold_left_app. reflexivity.
Qed.

Lemma wf_set_f3 : forall l sub, l < 18446744073709551616 -> wf_msg sub -> wf_msg (set_f3 l sub).
Proof.
  intros l sub Hl Hwf. unfold set_f3. destruct (has_varint 3 sub).
  - unfold wf_msg. rewrite Forall_map. eapply Forall_impl; [|exact Hwf].
    intros [k v] [Hk Hv]. destruct v as [n|b|b|b]; cbn [set_f3_field]; try (split; assumption).
    destruct (N.eqb_spec k 3) as [->|]; [|split; assumption].
    split; [cbn; lia|exact Hl].
  - apply Forall_app. split; [exact Hwf|]. constructor; [|constructor]. split; [cbn; lia|exact Hl].
Qed.

(* ---------- one message_infos entry ---------- *)
Definition sub_ok (sb : bytes) : Prop := exists sub, parse_wire sb = Some sub /\ wf_msg sub.
(* every message_infos entry of the header is itself a well-formed message *)
Definition header_ok (h : wmsg) : Prop := Forall sub_ok (len_fields 2 h).

Lemma u32_small : forall l, l < 4294967296 -> u32 l = l.
Proof. intros. unfold u32. now apply N.mod_small. Qed.

Lemma set_len_bytes_spec : forall l sb, sub_ok sb -> l < 4294967296 ->
  mi_length (minfo_of_bytes (set_len_bytes l sb)) = l /\ parses (set_len_bytes l sb) = true /\
  sub_ok (set_len_bytes l sb).
Proof.
  intros l sb [sub [Hp Hwf]] Hl. unfold set_len_bytes. rewrite Hp.
  destruct (N.eqb_spec (mi_length (minfo_of_sub sub)) l) as [He|He].
  - unfold minfo_of_bytes, parses. rewrite Hp. repeat split; [exact He|]. exists sub. now split.
  - assert (Hwf' : wf_msg (set_f3 l sub)) by (apply wf_set_f3; [lia|exact Hwf]).
    unfold minfo_of_bytes, parses. rewrite (wire_roundtrip_lemma _ Hwf').
    repeat split.
    + unfold minfo_of_sub. cbn [mi_length]. rewrite last_varint_set_f3. cbn [dflt]. now apply u32_small.
    + exists (set_f3 l sub). split; [now apply wire_roundtrip_lemma|exact Hwf'].
Qed.

Lemma set_len_bytes_idem : forall l sb, sub_ok sb -> l < 4294967296 ->
  set_len_bytes l (set_len_bytes l sb) = set_len_bytes l sb.
Proof.
  intros l sb Hs Hl. destruct (set_len_bytes_spec l sb Hs Hl) as [Hlen [_ [sub' [Hp' _]]]].
  unfold set_len_bytes at 1. rewrite Hp'.
  unfold minfo_of_bytes in Hlen. rewrite Hp' in Hlen. rewrite Hlen. now rewrite N.eqb_refl.
Qed.

(* ---------- set_lengths on the header ---------- *)
Lemma set_lengths_cons : forall f r ls,
  set_lengths (f :: r) ls =
  match is_info f, ls with
  | Some sb, l :: ls' => (2, WLen (set_len_bytes l sb)) :: set_lengths r ls'
  | Some _, [] => f :: r
  | None, _ => f :: set_lengths r ls
  end.
Proof. reflexivity. Qed.

Lemma len_fields_set_lengths : forall h ls, length (len_fields 2 h) = length ls ->
  len_fields 2 (set_lengths h ls) = map (fun p => set_len_bytes (fst p) (snd p)) (combine ls (len_fields 2 h)).
Proof.
  induction h as [|f h IH]; intros ls Hlen.
  - cbn. now destruct ls.
  - rewrite set_lengths_cons. rewrite len_fields2_cons in Hlen |- *.
    destruct (is_info f) as [sb|] eqn:E.
    + destruct ls as [|l ls]; [discriminate|]. cbn [length] in Hlen. injection Hlen as Hlen.
      rewrite len_fields2_cons. cbn [is_info N.eqb Pos.eqb combine map fst snd].
      f_equal. now apply IH.
    + rewrite len_fields2_cons, E. now apply IH.
Qed.

Lemma infos_set_lengths : forall h ls, header_ok h -> length (len_fields 2 h) = length ls ->
  Forall (fun l => l < 4294967296) ls ->
  map mi_length (hv_infos (wire_view (set_lengths h ls))) = ls /\
  forallb parses (len_fields 2 (set_lengths h ls)) = true /\
  header_ok (set_lengths h ls).
Proof.
  intros h ls Hok Hlen Hls. unfold header_ok, wire_view. cbn [hv_infos].
  rewrite len_fields_set_lengths by assumption.
  unfold header_ok in Hok. revert ls Hlen Hls. induction Hok as [|sb lf Hsb Hlf IH]; intros ls Hlen Hls.
  - destruct ls; [|discriminate]. repeat split; constructor.
  - destruct ls as [|l ls]; [discriminate|]. cbn [length] in Hlen. injection Hlen as Hlen.
    cbn [combine map fst snd forallb].
    destruct (set_len_bytes_spec l sb Hsb (Forall_inv Hls)) as [H1 [H2 H3]].
    destruct (IH ls Hlen (Forall_inv_tail Hls)) as [I1 [I2 I3]].
    rewrite H1, H2, I2. rewrite map_map in I1 |- *. repeat split.
    + f_equal. exact I1.
    + constructor; assumption.
Qed.

Lemma set_lengths_idem : forall h ls, header_ok h -> length (len_fields 2 h) = length ls ->
  Forall (fun l => l < 4294967296) ls ->
  set_lengths (set_lengths h ls) ls = set_lengths h ls.
Proof.
  induction h as [|f h IH]; intros ls Hok Hlen Hls; [reflexivity|].
  unfold header_ok in Hok. rewrite len_fields2_cons in Hok, Hlen. rewrite set_lengths_cons.
  destruct (is_info f) as [sb|] eqn:E.
  - destruct ls as [|l ls]; [discriminate|]. cbn [length] in Hlen. injection Hlen as Hlen.
    rewrite set_lengths_cons. cbn [is_info N.eqb Pos.eqb].
    rewrite set_len_bytes_idem by (first [exact (Forall_inv Hok)|exact (Forall_inv Hls)]).
    f_equal. apply IH; [exact (Forall_inv_tail Hok)|exact Hlen|exact (Forall_inv_tail Hls)].
  - rewrite set_lengths_cons, E. f_equal. now apply IH.
Qed.

Lemma has_varint_set_lengths : forall k h ls, has_varint k (set_lengths h ls) = has_varint k h.
Proof.
  intros k. induction h as [|f h IH]; intros ls; [reflexivity|].
  rewrite set_lengths_cons. destruct (is_info f) as [sb|] eqn:E.
  - apply is_info_some in E. subst f. destruct ls as [|l ls]; [reflexivity|].
    cbn [has_varint existsb]. f_equal. apply IH.
  - cbn [has_varint existsb]. f_equal. apply IH.
Qed.

Lemma last_varint_set_lengths_gen : forall k h ls acc,
  fold_left (lv_step k) (set_lengths h ls) acc = fold_left (lv_step k) h acc.
Proof.
  intros k. induction h as [|f h IH]; intros ls acc; [reflexivity|].
  rewrite set_lengths_cons. destruct (is_info f) as [sb|] eqn:E.
  - apply is_info_some in E. subst f. destruct ls as [|l ls]; [reflexivity|].
    cbn [fold_left lv_step]. apply IH.
  - cbn [fold_left]. apply IH.
Qed.

Lemma view_set_lengths : forall h ls, length (len_fields 2 h) = length ls ->
  hv_empty (wire_view (set_lengths h ls)) = hv_empty (wire_view h) /\
  hv_merge (wire_view (set_lengths h ls)) = hv_merge (wire_view h) /\
  hv_ident (wire_view (set_lengths h ls)) = hv_ident (wire_view h).
Proof.
  intros h ls Hlen. unfold wire_view. cbn [hv_empty hv_merge hv_ident].
  rewrite !has_varint_set_lengths. rewrite !last_varint_fold, !last_varint_set_lengths_gen.
  repeat split. f_equal. f_equal. f_equal.
  rewrite len_fields_set_lengths by assumption.
  destruct ls, (len_fields 2 h); try discriminate; reflexivity.
Qed.

Lemma segment_to_buffer_nonempty : forall seg, segment_to_buffer seg <> [].
Proof.
  intros seg. unfold segment_to_buffer.
  pose proof (encode_varint_nonempty (lenN (ser_wire (set_lengths (fst seg) (map lenN (snd seg)))))) as H.
  destruct (encode_varint _); [congruence|discriminate].
Qed.

Definition stream_of (segs : list (wmsg * list bytes)) : bytes := concat (map segment_to_buffer segs).

Lemma stream_of_app : forall a b, stream_of (a ++ b) = stream_of a ++ stream_of b.
Proof. intros. unfold stream_of. now rewrite map_app, concat_app. Qed.

Lemma stream_length : forall segs, (length segs <= length (stream_of segs))%nat.
Proof.
  induction segs as [|seg segs IH]; [cbn; lia|].
  unfold stream_of. cbn [map concat]. fold (stream_of segs). rewrite app_length.
  pose proof (segment_to_buffer_nonempty seg) as Hne. destruct (segment_to_buffer seg); [congruence|cbn [length]; lia].
Qed.

Lemma stream_nil_iff : forall segs, stream_of segs = [] <-> segs = [].
Proof.
  intros segs. split; [|now intros ->].
  destruct segs as [|s segs]; [reflexivity|]. intros H. pose proof (stream_length (s :: segs)) as Hl.
  rewrite H in Hl. cbn in Hl. lia.
Qed.

Lemma framed_nil_iff : forall ps, concat (map framed ps) = [] <-> ps = [].
Proof. intros [|p ps]; split; intros H; try reflexivity; discriminate. Qed.

(* ---------- reading the messages back ---------- *)
Section Seg.
  Variable known_type : N -> bool.

  (* every class lookup of the segment loop succeeds: types registered, patch bases in range *)
  Definition classes_resolve (v : hview) : Prop :=
    Forall (fun mi => forall have, exists t, klass_of known_type (hv_infos v) (hv_merge v) have mi = Ok t) (hv_infos v).

  Lemma seg_loop_S : forall mi rest all merge payload n acc,
    seg_loop known_type opaque_payload (mi :: rest) all merge payload n acc =
    (do t <- klass_of known_type all merge (negb (is_nil acc)) mi ;
     do o <- match opaque_payload t (takeN (mi_length mi) (dropN n payload)) with
             | Ok o => Ok o | Err OutOfFuel => Err OutOfFuel | Err _ => Err ValueError end ;
     seg_loop known_type opaque_payload rest all merge payload (n + mi_length mi) (o :: acc)).
  Proof. reflexivity. Qed.

  Lemma seg_loop_reads : forall infos ps all merge pre post acc,
    map mi_length infos = map lenN ps ->
    Forall (fun mi => forall have, exists t, klass_of known_type all merge have mi = Ok t) infos ->
    seg_loop known_type opaque_payload infos all merge (pre ++ concat ps ++ post) (lenN pre) acc =
    Ok (rev acc ++ ps, lenN pre + lenN (concat ps)).
  Proof.
    induction infos as [|mi infos IH]; intros ps all merge pre post acc Hlen Hk.
    - destruct ps; [|discriminate]. cbn [seg_loop concat]. rewrite app_nil_r, lenN_nil, N.add_0_r. reflexivity.
    - destruct ps as [|p ps]; [discriminate|]. cbn [map] in Hlen. injection Hlen as Hmi Hlen.
      rewrite seg_loop_S. destruct (Forall_inv Hk (negb (is_nil acc))) as [t Ht]. rewrite Ht. cbn [bind].
      unfold opaque_payload at 1. cbn [concat].
      rewrite dropN_app_exact. rewrite Hmi. rewrite <- !app_assoc. rewrite takeN_app_exact. cbn [bind].
      replace (pre ++ p ++ concat ps ++ post) with ((pre ++ p) ++ concat ps ++ post) by now rewrite <- app_assoc.
      replace (lenN pre + lenN p) with (lenN (pre ++ p)) by apply lenN_app.
      rewrite IH; [|exact Hlen|exact (Forall_inv_tail Hk)].
      f_equal. f_equal.
      + cbn [rev]. now rewrite <- app_assoc.
      + rewrite !lenN_app. lia.
  Qed.

  (* ---------- IWAArchiveSegment: from_buffer inverts to_buffer ---------- *)
  Definition norm_seg (seg : wmsg * list bytes) : wmsg * list bytes :=
    (set_lengths (fst seg) (map lenN (snd seg)), snd seg).

  Definition seg_ok (seg : wmsg * list bytes) : Prop :=
    header_ok (fst seg) /\
    length (len_fields 2 (fst seg)) = length (snd seg) /\
    Forall (fun p => lenN p < 4294967296) (snd seg) /\
    wf_msg (fst (norm_seg seg)) /\
    lenN (ser_wire (fst (norm_seg seg))) < 4294967296 /\
    hv_empty (wire_view (fst seg)) = false /\
    classes_resolve (wire_view (fst (norm_seg seg))).

  Lemma segment_roundtrip_lemma : forall seg r, seg_ok seg ->
    c05_segment_from_buffer known_type (segment_to_buffer seg ++ r) = Ok (norm_seg seg, r) /\
    map mi_length (hv_infos (wire_view (fst (norm_seg seg)))) = map lenN (snd seg).
  Proof.
    intros [h ps] r (Hok & Hlen & Hps & Hwf & Hsz & Hne & Hcl). cbn [fst snd norm_seg] in *.
    assert (Hls : Forall (fun l => l < 4294967296) (map lenN ps)) by now rewrite Forall_map.
    assert (Hlen' : length (len_fields 2 h) = length (map lenN ps)) by now rewrite map_length.
    destruct (infos_set_lengths h (map lenN ps) Hok Hlen' Hls) as [Hinfos [Hparse _]].
    split; [|exact Hinfos].
    set (h' := set_lengths h (map lenN ps)) in *.
    unfold c05_segment_from_buffer, segment_from_buffer, get_archive_info_and_remainder, segment_to_buffer.
    cbn [fst snd]. fold h'. rewrite <- !app_assoc.
    rewrite varint32_roundtrip by exact Hsz. cbn [bind].
    rewrite takeN_app_exact, dropN_app_exact.
    unfold wire_dec_header. rewrite (wire_roundtrip_lemma _ Hwf), Hparse. cbn [bind].
    destruct (view_set_lengths h (map lenN ps) Hlen') as [He _]. fold h' in He. rewrite He, Hne.
    pose proof (seg_loop_reads (hv_infos (wire_view h')) ps (hv_infos (wire_view h')) (hv_merge (wire_view h')) [] r []
                  Hinfos Hcl) as Hloop.
    cbn [app] in Hloop. rewrite lenN_nil in Hloop. rewrite Hloop. cbn [bind rev app].
    rewrite N.add_0_l, dropN_app_exact. reflexivity.
  Qed.

  (* ---------- the `while data:` loop over a whole stream ---------- *)
  Lemma segments_f_S : forall f x d,
    segments_f wire_dec_header wire_view known_type opaque_payload (S f) (x :: d) =
    (do '(seg, rest) <- c05_segment_from_buffer known_type (x :: d) ;
     do tl <- segments_f wire_dec_header wire_view known_type opaque_payload f rest ;
     Ok (seg :: tl)).
  Proof. reflexivity. Qed.

  Lemma segments_f_roundtrip : forall segs fuel, Forall seg_ok segs -> (length segs <= fuel)%nat ->
    segments_f wire_dec_header wire_view known_type opaque_payload fuel (stream_of segs) = Ok (map norm_seg segs).
  Proof.
    induction segs as [|seg segs IH]; intros fuel H Hf.
    - destruct fuel; reflexivity.
    - destruct fuel as [|fuel]; [cbn in Hf; lia|].
      unfold stream_of. cbn [map concat]. fold (stream_of segs).
      pose proof (segment_to_buffer_nonempty seg) as Hne.
      destruct (segment_to_buffer seg) as [|x sb] eqn:E; [congruence|].
      cbn [app]. rewrite segments_f_S.
      change (x :: sb ++ stream_of segs) with ((x :: sb) ++ stream_of segs). rewrite <- E.
      destruct (segment_roundtrip_lemma seg (stream_of segs) (Forall_inv H)) as [Hr _]. rewrite Hr. cbn [bind].
      rewrite IH; [reflexivity|exact (Forall_inv_tail H)|cbn in Hf; lia].
  Qed.

  Lemma segments_roundtrip_lemma : forall segs, Forall seg_ok segs ->
    c05_segments known_type (stream_of segs) = Ok (map norm_seg segs).
  Proof.
    intros segs H. unfold c05_segments, segments. apply segments_f_roundtrip; [exact H|apply stream_length].
  Qed.

  (* ---------- whole files ---------- *)
  Variable uncompress : bytes -> option bytes.
  Variable compress : bytes -> bytes.
  Hypothesis snappy_roundtrip : forall x, uncompress (compress x) = Some x.
  Hypothesis snappy_bound : forall x, lenN x <= 65536 -> lenN (compress x) < 16777216.

  Definition all_payloads (chunks : list (list (wmsg * list bytes))) : list bytes :=
    concat (map (fun c => chunk_payloads compress (stream_of c)) chunks).

  Lemma file_to_buffer_ok : forall chunks,
    file_to_buffer compress chunks = Ok (concat (map framed (all_payloads chunks))).
  Proof.
    induction chunks as [|c chunks IH]; [reflexivity|].
    cbn [file_to_buffer]. unfold chunk_to_buffer. fold (stream_of c).
    rewrite (to_chunks_ok uncompress compress snappy_roundtrip snappy_bound). cbn [bind]. rewrite IH. cbn [bind].
    unfold all_payloads. cbn [map concat]. now rewrite map_app, concat_app.
  Qed.

  Lemma all_payloads_small : forall chunks, Forall (fun p => lenN p < 16777216) (all_payloads chunks).
  Proof.
    induction chunks as [|c chunks IH]; [constructor|].
    unfold all_payloads. cbn [map concat]. apply Forall_app. split; [|exact IH].
    apply (chunk_payloads_small uncompress compress snappy_roundtrip snappy_bound).
  Qed.

  Lemma all_payloads_sel : forall chunks,
    concat (map (sel uncompress) (all_payloads chunks)) = stream_of (concat chunks).
  Proof.
    induction chunks as [|c chunks IH]; [reflexivity|].
    unfold all_payloads. cbn [map concat]. rewrite map_app, concat_app. fold (all_payloads chunks). rewrite IH.
    rewrite stream_of_app. f_equal. unfold chunk_payloads. rewrite map_map.
    rewrite (map_ext _ (fun x => x)) by (intros; apply (sel_compress uncompress compress snappy_roundtrip snappy_bound)).
    rewrite map_id. apply split_chunks_concat. lia.
  Qed.

  (* what a decoded file looks like: one chunk holding every segment, or no chunk at all *)
  Definition normalise (chunks : list (list (wmsg * list bytes))) : list (list (wmsg * list bytes)) :=
    match concat chunks with [] => [] | segs => [map norm_seg segs] end.

  Lemma chunk_payloads_nil_iff : forall d, chunk_payloads compress d = [] <-> d = [].
  Proof.
    intros [|x d]; split; intros H; try reflexivity; try discriminate.
  Qed.

  Lemma all_payloads_nil_iff : forall chunks, all_payloads chunks = [] <-> concat chunks = [].
  Proof.
    induction chunks as [|c chunks IH]; [split; reflexivity|].
    unfold all_payloads. cbn [map concat]. fold (all_payloads chunks). split; intros H.
    - apply app_eq_nil in H as [H1 H2]. apply chunk_payloads_nil_iff, stream_nil_iff in H1. subst c.
      cbn [app]. now apply IH.
    - apply app_eq_nil in H as [-> H2]. cbn [stream_of map concat app]. now apply IH.
  Qed.

  Lemma file_roundtrip_lemma : forall chunks named, Forall seg_ok (concat chunks) ->
    exists file, file_to_buffer compress chunks = Ok file /\
                 c05_file_from_buffer uncompress known_type file named = Ok (normalise chunks).
  Proof.
    intros chunks named H. eexists. split; [apply file_to_buffer_ok|].
    unfold c05_file_from_buffer, file_from_buffer, normalise.
    destruct (concat chunks) as [|s segs] eqn:E.
    - assert (Hp : all_payloads chunks = []) by now apply all_payloads_nil_iff. now rewrite Hp.
    - destruct (concat (map framed (all_payloads chunks))) as [|x fb] eqn:Ef.
      { apply framed_nil_iff, all_payloads_nil_iff in Ef. congruence. }
      rewrite <- Ef. unfold chunk_from_buffer.
      rewrite (decompress_all_frames uncompress) by apply all_payloads_small. cbn [bind].
      rewrite all_payloads_sel, E.
      pose proof (segments_roundtrip_lemma (s :: segs) H) as Hs. unfold c05_segments in Hs. rewrite Hs.
      reflexivity.
  Qed.
End Seg.
