(* Proofs about Model/Styles.v (C15). *)
From Coq Require Import ZArith NArith List Bool Lia.
From NP Require Import Gen.GenStyles Model.PyBase Model.Styles.
Import ListNotations.
Open Scope N_scope.

Lemma str_eqb_eq : forall a b, str_eqb a b = true <-> a = b.
Proof.
  induction a as [|x a IH]; intros [|y b]; simpl; split; intros H; try reflexivity; try discriminate.
  - apply andb_true_iff in H. destruct H as (H1 & H2). apply N.eqb_eq in H1. apply IH in H2. subst. reflexivity.
  - inversion H; subst. rewrite N.eqb_refl. simpl. apply IH. reflexivity.
Qed.

Lemma mem_str_in : forall a l, mem_str a l = true <-> In a l.
Proof.
  intros a l. unfold mem_str. rewrite existsb_exists. split.
  - intros (x & Hx & E). apply str_eqb_eq in E. subst. exact Hx.
  - intros H. exists a. split; [exact H|apply str_eqb_eq; reflexivity].
Qed.

(* assigning attribute [name] raises the text (cell) flag iff the name is in _text_attrs (_cell_attrs);
   flags are never lowered by an assignment *)
Theorem style_dirty_flags_lemma : forall name f,
  (f_text (setattr name f) = true <-> f_text f = true \/ In name text_attrs) /\
  (f_cell (setattr name f) = true <-> f_cell f = true \/ In name cell_attrs).
Proof.
  intros name f. unfold setattr, dirty_flags. cbn [f_text f_cell]. rewrite !orb_true_iff, !mem_str_in. tauto.
Qed.

Theorem gen_style_attrs_lemma :
  GenStyles.text_attrs = Styles.text_attrs /\ GenStyles.cell_attrs = Styles.cell_attrs.
Proof. split; reflexivity. Qed.

(* all 256 component values survive v -> v/255 -> float32 -> *255 -> round *)
Definition all_components : list N := map N.of_nat (seq 0 256).
Theorem colour_quantisation_lemma : forall v, (v < 256)%N -> colour_roundtrip v = v.
Proof.
  assert (H : forallb (fun v => colour_roundtrip v =? v) all_components = true) by (vm_compute; reflexivity).
  intros v Hv. rewrite forallb_forall in H. apply N.eqb_eq. apply H.
  unfold all_components. apply in_map_iff. exists (N.to_nat v). split; [apply N2Nat.id|].
  apply in_seq. lia.
Qed.

(* the tuple key separates any two different field lists; the concatenation did not *)
Theorem fingerprint_separates_lemma : forall f1 f2 : list str, f1 <> f2 -> fingerprint f1 <> fingerprint f2.
Proof. intros f1 f2 H. exact H. Qed.

(* "1.0" "14.0" against "1.01" "4.0" *)
Lemma fingerprint_pinned_collides :
  [[49;46;48]; [49;52;46;48]] <> [[49;46;48;49]; [52;46;48]] /\
  fingerprint_pinned [[49;46;48]; [49;52;46;48]] = fingerprint_pinned [[49;46;48;49]; [52;46;48]].
Proof. split; [discriminate|reflexivity]. Qed.
