(* C15, part B: what extract_strokes leaves in a cell side is the highest-order run among all runs
   (of any layer) whose stroke runs along that cell side's edge. *)
From Coq Require Import ZArith List Bool Lia.
From NP Require Import Model.PyBase Model.Borders Proofs.BordersPatchP.
Import ListNotations.
Local Open Scope Z_scope.

(* ---------- decidable equalities ---------- *)
Lemma side_eqb_eq : forall a b, side_eqb a b = true <-> a = b.
Proof. intros [] []; simpl; split; intros H; try reflexivity; try discriminate. Qed.

Lemma key_eqb_eq : forall a b, key_eqb a b = true <-> a = b.
Proof.
  intros [[r1 c1] s1] [[r2 c2] s2]. unfold key_eqb. rewrite !andb_true_iff, !Z.eqb_eq, side_eqb_eq.
  split; [intros ((-> & ->) & ->); reflexivity|intros H; inversion H; auto].
Qed.

Lemma key_eqb_refl : forall a, key_eqb a a = true.
Proof. intros a. apply key_eqb_eq. reflexivity. Qed.

Lemma oid_eqb_eq : forall a b, oid_eqb a b = true <-> a = b.
Proof.
  intros [x|x] [y|y]; simpl; rewrite ?Nat.eqb_eq; split; intros H; try discriminate; try (inversion H; reflexivity);
    try (subst; reflexivity).
Qed.

(* ---------- values of cell sides ---------- *)
Definition cval (heap : oid -> option border_obj) (cells : key -> option oid) (k : key) : option (Z * attrs) :=
  match cells k with
  | Some o => match heap o with Some b => Some (bo_order b, bo_attrs b) | None => None end
  | None => None
  end.

Definition refs_ok (heap : oid -> option border_obj) (cells : key -> option oid) : Prop :=
  forall k o, cells k = Some o -> heap o <> None.

Definition offer (cur : option (Z * attrs)) (new : Z * attrs) : option (Z * attrs) :=
  match cur with
  | None => Some new
  | Some (q, a) => if q <? fst new then Some new else cur
  end.

Definition kin (inb : Z -> Z -> bool) (k : key) : bool := let '(r, c, _) := k in inb r c.

Lemma set_side_cval : forall heap inb cells k0 v b,
  refs_ok heap cells -> heap v = Some b ->
  forall k, cval heap (set_side heap inb cells k0 v) k =
            if key_eqb k k0 && kin inb k0 then offer (cval heap cells k) (bo_order b, bo_attrs b)
            else cval heap cells k.
Proof.
  intros heap inb cells k0 v b HR Hv k. unfold set_side. destruct k0 as [[r0 c0] s0]. simpl kin.
  destruct (inb r0 c0); [|rewrite andb_false_r; reflexivity]. rewrite andb_true_r.
  destruct (cells (r0, c0, s0)) as [cur|] eqn:Ec.
  - assert (Hcur : heap cur <> None) by (apply (HR _ _ Ec)).
    destruct (heap cur) as [bc|] eqn:Eh; [|contradiction].
    unfold order_of. rewrite Eh, Hv.
    destruct (key_eqb k (r0, c0, s0)) eqn:Ek.
    + apply key_eqb_eq in Ek. subst k. unfold cval at 2. rewrite Ec, Eh. simpl.
      destruct (bo_order bc <? bo_order b); unfold cval.
      * rewrite key_eqb_refl, Hv. reflexivity.
      * rewrite Ec, Eh. reflexivity.
    + destruct (bo_order bc <? bo_order b); unfold cval; [rewrite Ek|]; reflexivity.
  - destruct (key_eqb k (r0, c0, s0)) eqn:Ek.
    + apply key_eqb_eq in Ek. subst k. unfold cval. rewrite key_eqb_refl, Ec, Hv. reflexivity.
    + unfold cval. rewrite Ek. reflexivity.
Qed.

Lemma set_side_refs : forall heap inb cells k0 v,
  refs_ok heap cells -> heap v <> None -> refs_ok heap (set_side heap inb cells k0 v).
Proof.
  intros heap inb cells k0 v HR Hv k o. unfold set_side. destruct k0 as [[r0 c0] s0].
  destruct (inb r0 c0); [|apply HR].
  destruct (cells (r0, c0, s0)) as [cur|] eqn:Ec.
  - destruct (order_of heap cur <? order_of heap v); [|apply HR].
    destruct (key_eqb k (r0, c0, s0)); [intros H; inversion H; subst; exact Hv|apply HR].
  - destruct (key_eqb k (r0, c0, s0)); [intros H; inversion H; subst; exact Hv|apply HR].
Qed.

(* which objects the cells point to only ever becomes v *)
Lemma set_side_range : forall heap inb cells k0 v (P : oid -> Prop),
  (forall k o, cells k = Some o -> P o) -> P v ->
  forall k o, set_side heap inb cells k0 v k = Some o -> P o.
Proof.
  intros heap inb cells k0 v P HP Hv k o. unfold set_side. destruct k0 as [[r0 c0] s0].
  destruct (inb r0 c0); [|apply HP].
  destruct (cells (r0, c0, s0)) as [cur|] eqn:Ec.
  - destruct (order_of heap cur <? order_of heap v); [|apply HP].
    destruct (key_eqb k (r0, c0, s0)); [intros H; inversion H; subst; exact Hv|apply HP].
  - destruct (key_eqb k (r0, c0, s0)); [intros H; inversion H; subst; exact Hv|apply HP].
Qed.

(* ---------- Best ---------- *)
Definition Best (S : Z * attrs -> Prop) (v : option (Z * attrs)) : Prop :=
  match v with
  | None => forall x, ~ S x
  | Some (q, a) => S (q, a) /\ forall q' a', S (q', a') -> q' <= q
  end.

Lemma Best_ext : forall (S S' : Z * attrs -> Prop) v, (forall x, S x <-> S' x) -> Best S v -> Best S' v.
Proof.
  intros S S' v H. destruct v as [[q a]|]; simpl.
  - intros (H1 & H2). split; [apply H; exact H1|]. intros q' a' Hs. apply (H2 q' a'). apply H. exact Hs.
  - intros H1 x Hx. apply (H1 x). apply H. exact Hx.
Qed.

Lemma Best_offer : forall (S : Z * attrs -> Prop) v new,
  Best S v -> Best (fun x => S x \/ x = new) (offer v new).
Proof.
  intros S v [qn an] H. destruct v as [[q a]|]; simpl in *.
  - destruct H as (H1 & H2). destruct (q <? qn) eqn:E.
    + apply Z.ltb_lt in E. simpl. split; [right; reflexivity|].
      intros q' a' [Hs|Heq]; [specialize (H2 q' a' Hs); lia|inversion Heq; lia].
    + apply Z.ltb_ge in E. simpl. split; [left; exact H1|].
      intros q' a' [Hs|Heq]; [apply (H2 q' a' Hs)|inversion Heq; lia].
  - split; [right; reflexivity|]. intros q' a' [Hs|Heq]; [exfalso; apply (H _ Hs)|inversion Heq; lia].
Qed.

(* ---------- one setter, one set_cell_border, a run ---------- *)
Definition ov (b : border_obj) : Z * attrs := (bo_order b, bo_attrs b).

Lemma set_side_best : forall heap inb cells k0 v b k (S : Z * attrs -> Prop),
  refs_ok heap cells -> heap v = Some b ->
  Best S (cval heap cells k) ->
  Best (fun x => S x \/ (x = ov b /\ k = k0 /\ kin inb k0 = true)) (cval heap (set_side heap inb cells k0 v) k).
Proof.
  intros heap inb cells k0 v b k S HR Hv HB. rewrite (set_side_cval heap inb cells k0 v b HR Hv).
  destruct (key_eqb k k0 && kin inb k0) eqn:E.
  - apply andb_true_iff in E. destruct E as (E1 & E2). apply key_eqb_eq in E1.
    eapply Best_ext; [|apply Best_offer; exact HB]. intros x. unfold ov. split.
    + intros [Hs|He]; [left; exact Hs|right; auto].
    + intros [Hs|(He & _)]; [left; exact Hs|right; exact He].
  - eapply Best_ext; [|exact HB]. intros x. split; [intros Hs; left; exact Hs|].
    intros [Hs|(_ & Hk & Hin)]; [exact Hs|]. exfalso. subst k. rewrite key_eqb_refl, Hin in E. discriminate.
Qed.

Definition nbkey (r c : Z) (s : side) : key :=
  match s with
  | STop => (r - 1, c, SBottom)
  | SRight => (r, c + 1, SLeft)
  | SBottom => (r + 1, c, STop)
  | SLeft => (r, c - 1, SRight)
  end.

Lemma set_cell_border_eq : forall heap inb cells r c s v,
  set_cell_border heap inb cells r c s v =
  set_side heap inb (set_side heap inb cells (r, c, s) v) (nbkey r c s) v.
Proof. intros. destruct s; reflexivity. Qed.

(* the keys one model.set_cell_border call may write *)
Definition touch1 (inb : Z -> Z -> bool) (r c : Z) (s : side) (k : key) : Prop :=
  (k = (r, c, s) /\ inb r c = true) \/ (k = nbkey r c s /\ kin inb (nbkey r c s) = true).

Lemma scb_best : forall heap inb cells r c s v b k (S : Z * attrs -> Prop),
  refs_ok heap cells -> heap v = Some b ->
  Best S (cval heap cells k) ->
  Best (fun x => S x \/ (x = ov b /\ touch1 inb r c s k)) (cval heap (set_cell_border heap inb cells r c s v) k).
Proof.
  intros heap inb cells r c s v b k S HR Hv HB. rewrite set_cell_border_eq.
  assert (Hv' : heap v <> None) by (rewrite Hv; discriminate).
  pose proof (set_side_best heap inb cells (r, c, s) v b k S HR Hv HB) as H1.
  pose proof (set_side_best heap inb _ (nbkey r c s) v b k _ (set_side_refs heap inb cells (r, c, s) v HR Hv') Hv H1) as H2.
  eapply Best_ext; [|exact H2]. intros x. unfold touch1. simpl kin. tauto.
Qed.

Lemma scb_refs : forall heap inb cells r c s v,
  refs_ok heap cells -> heap v <> None -> refs_ok heap (set_cell_border heap inb cells r c s v).
Proof. intros. rewrite set_cell_border_eq. apply set_side_refs; [apply set_side_refs|]; assumption. Qed.

Lemma scb_range : forall heap inb cells r c s v (P : oid -> Prop),
  (forall k o, cells k = Some o -> P o) -> P v ->
  forall k o, set_cell_border heap inb cells r c s v k = Some o -> P o.
Proof.
  intros heap inb cells r c s v P HP Hv. rewrite set_cell_border_eq.
  apply set_side_range; [apply set_side_range; assumption|assumption].
Qed.

(* the i-th cell along a stroke *)
Definition along (s : side) (r c : Z) (i : Z) : Z * Z :=
  match s with STop | SBottom => (r, c + i) | _ => (r + i, c) end.

Definition touch_along (inb : Z -> Z -> bool) (s : side) (r c : Z) (n : nat) (k : key) : Prop :=
  exists i, 0 <= i < Z.of_nat n /\ touch1 inb (fst (along s r c i)) (snd (along s r c i)) s k.

Lemma set_along_props : forall heap inb s v b n cells r c,
  refs_ok heap cells -> heap v = Some b ->
  refs_ok heap (set_along heap inb cells s r c n v) /\
  forall k (S : Z * attrs -> Prop),
    Best S (cval heap cells k) ->
    Best (fun x => S x \/ (x = ov b /\ touch_along inb s r c n k)) (cval heap (set_along heap inb cells s r c n v) k).
Proof.
  intros heap inb s v b n. induction n as [|n IH]; intros cells r c HR Hv.
  - simpl. split; [exact HR|]. intros k S HB. eapply Best_ext; [|exact HB].
    intros x. split; [intros Hs; left; exact Hs|intros [Hs|(_ & i & Hi & _)]; [exact Hs|simpl in Hi; lia]].
  - assert (Hv' : heap v <> None) by (rewrite Hv; discriminate).
    pose proof (scb_refs heap inb cells r c s v HR Hv') as HR1.
    assert (Step : forall r' c', along s r c 1 = (r', c') ->
              refs_ok heap (set_along heap inb (set_cell_border heap inb cells r c s v) s r' c' n v) /\
              forall k (S : Z * attrs -> Prop),
                Best S (cval heap cells k) ->
                Best (fun x => S x \/ (x = ov b /\ touch_along inb s r c (Datatypes.S n) k))
                     (cval heap (set_along heap inb (set_cell_border heap inb cells r c s v) s r' c' n v) k)).
    { intros r' c' Hrc. destruct (IH _ r' c' HR1 Hv) as (IR & IB). split; [exact IR|].
      intros k S HB. pose proof (scb_best heap inb cells r c s v b k S HR Hv HB) as H1.
      eapply Best_ext; [|apply IB; exact H1]. intros x. unfold touch_along. split.
      - intros [[Hs|(Hx & Ht)]|(Hx & i & Hi & Ht)].
        + left; exact Hs.
        + right. split; [exact Hx|]. exists 0. split; [lia|].
          replace (along s r c 0) with (r, c) by (unfold along; destruct s; f_equal; lia). exact Ht.
        + right. split; [exact Hx|]. exists (i + 1). split; [lia|].
          replace (along s r c (i + 1)) with (along s r' c' i); [exact Ht|].
          unfold along in *. destruct s; inversion Hrc; subst; f_equal; lia.
      - intros [Hs|(Hx & i & Hi & Ht)]; [left; left; exact Hs|].
        destruct (Z.eq_dec i 0) as [->|Hne].
        + left. right. split; [exact Hx|].
          replace (along s r c 0) with (r, c) in Ht by (unfold along; destruct s; f_equal; lia). exact Ht.
        + right. split; [exact Hx|]. exists (i - 1). split; [lia|].
          replace (along s r' c' (i - 1)) with (along s r c i); [exact Ht|].
          unfold along in *. destruct s; inversion Hrc; subst; f_equal; lia. }
    simpl. destruct s; apply Step; reflexivity.
Qed.

Lemma set_along_range : forall heap inb s v (P : oid -> Prop) n cells r c,
  (forall k o, cells k = Some o -> P o) -> P v ->
  forall k o, set_along heap inb cells s r c n v k = Some o -> P o.
Proof.
  intros heap inb s v P n. induction n as [|n IH]; intros cells r c HP Hv; [exact HP|].
  simpl. destruct s; apply IH; try assumption; apply scb_range; assumption.
Qed.

(* ---------- extraction state ---------- *)
Definition xacc := ((oid -> option border_obj) * (key -> option oid) * nat)%type.
Definition cvalA (acc : xacc) (k : key) : option (Z * attrs) := let '(h, c, _) := acc in cval h c k.

(* during extraction the cells only point to run objects made so far, all present in the heap *)
Definition xinv (acc : xacc) : Prop :=
  let '(h, c, n) := acc in
  forall k o, c k = Some o -> (exists i, o = FromRun i /\ (i < n)%nat) /\ h o <> None.

(* start cell and direction of a run of layer (sd, ln) *)
Definition run_start (sd : side) (ln : Z) (r : run) : Z * Z :=
  match sd with STop | SBottom => (ln, r_origin r) | _ => (r_origin r, ln) end.

Definition touch_run (inb : Z -> Z -> bool) (sd : side) (ln : Z) (r : run) (k : key) : Prop :=
  touch_along inb sd (fst (run_start sd ln r)) (snd (run_start sd ln r)) (Z.to_nat (r_length r)) k.

Lemma apply_run_props : forall inb sd ln acc r,
  xinv acc ->
  xinv (apply_run inb sd ln acc r) /\
  forall k (S : Z * attrs -> Prop),
    Best S (cvalA acc k) ->
    Best (fun x => S x \/ (x = (r_order r, r_attrs r) /\ touch_run inb sd ln r k)) (cvalA (apply_run inb sd ln acc r) k).
Proof.
  intros inb sd ln [[heap cells] n] r HI. unfold apply_run.
  set (v := FromRun n).
  set (b := {| bo_attrs := r_attrs r; bo_order := r_order r |}).
  set (heap' := fun o => if oid_eqb o v then Some b else heap o).
  assert (Hv : heap' v = Some b).
  { unfold heap'. replace (oid_eqb v v) with true by (symmetry; apply oid_eqb_eq; reflexivity). reflexivity. }
  assert (Hold : forall k o, cells k = Some o -> heap' o = heap o).
  { intros k o Hk. destruct (HI k o Hk) as ((i & -> & Hi) & _). unfold heap', v. simpl.
    replace (Nat.eqb i n) with false by (symmetry; apply Nat.eqb_neq; lia). reflexivity. }
  assert (HR : refs_ok heap' cells).
  { intros k o Hk. rewrite (Hold k o Hk). apply (HI k o Hk). }
  assert (Hcv : forall k, cval heap' cells k = cval heap cells k).
  { intros k. unfold cval. destruct (cells k) as [o|] eqn:Ek; [|reflexivity]. rewrite (Hold k o Ek). reflexivity. }
  assert (Main : forall r0 c0,
            let cells' := set_along heap' inb cells sd r0 c0 (Z.to_nat (r_length r)) v in
            xinv (heap', cells', Datatypes.S n) /\
            forall k (S : Z * attrs -> Prop),
              Best S (cval heap cells k) ->
              Best (fun x => S x \/ (x = (r_order r, r_attrs r) /\ touch_along inb sd r0 c0 (Z.to_nat (r_length r)) k))
                   (cval heap' cells' k)).
  { intros r0 c0 cells'.
    destruct (set_along_props heap' inb sd v b (Z.to_nat (r_length r)) cells r0 c0 HR Hv) as (R1 & B1).
    split.
    - intros k o Hk. split.
      + apply (set_along_range heap' inb sd v (fun o => exists i, o = FromRun i /\ (i < Datatypes.S n)%nat)
                 (Z.to_nat (r_length r)) cells r0 c0) with (k := k); [| |exact Hk].
        * intros k' o' Hk'. destruct (HI k' o' Hk') as ((i & -> & Hi) & _). exists i. split; [reflexivity|lia].
        * exists n. split; [reflexivity|lia].
      + apply (R1 k o Hk).
    - intros k S HB. rewrite <- Hcv in HB. apply (B1 k S HB). }
  unfold touch_run, run_start. destruct sd; simpl; apply Main.
Qed.

(* ---------- folding: runs of a layer, layers of a side, the four sides ---------- *)
Lemma fold_best : forall (X : Type) (f : xacc -> X -> xacc) (T : X -> key -> Z * attrs -> Prop),
  (forall acc x, xinv acc ->
     xinv (f acc x) /\
     forall k (S : Z * attrs -> Prop), Best S (cvalA acc k) -> Best (fun o => S o \/ T x k o) (cvalA (f acc x) k)) ->
  forall l acc, xinv acc ->
     xinv (fold_left f l acc) /\
     forall k (S : Z * attrs -> Prop),
       Best S (cvalA acc k) -> Best (fun o => S o \/ exists x, In x l /\ T x k o) (cvalA (fold_left f l acc) k).
Proof.
  intros X f T Hf l. induction l as [|x rest IH]; intros acc HI.
  - simpl. split; [exact HI|]. intros k S HB. eapply Best_ext; [|exact HB].
    intros o. split; [intros Hs; left; exact Hs|intros [Hs|(x & [] & _)]; exact Hs].
  - simpl. destruct (Hf acc x HI) as (HI1 & HB1). destruct (IH (f acc x) HI1) as (HI2 & HB2).
    split; [exact HI2|]. intros k S HB.
    eapply Best_ext; [|apply HB2; apply HB1; exact HB]. intros o. split.
    + intros [[Hs|Ht]|(y & Hy & Ht)]; [left; exact Hs|right; exists x; split; [left; reflexivity|exact Ht]|
                                      right; exists y; split; [right; exact Hy|exact Ht]].
    + intros [Hs|(y & [<-|Hy] & Ht)]; [left; left; exact Hs|left; right; exact Ht|right; exists y; split; assumption].
Qed.

Definition T_run inb sd ln (r : run) (k : key) (o : Z * attrs) : Prop :=
  o = (r_order r, r_attrs r) /\ touch_run inb sd ln r k.
Definition T_layer inb (layers : side -> Z -> list run) sd (ln : Z) (k : key) (o : Z * attrs) : Prop :=
  exists r, In r (layers sd ln) /\ T_run inb sd ln r k o.
Definition T_side inb (layers : side -> Z -> list run) (lorder : side -> list Z) (sd : side) (k : key) (o : Z * attrs) : Prop :=
  exists ln, In ln (lorder sd) /\ T_layer inb layers sd ln k o.

Lemma apply_layer_props : forall inb layers sd acc ln,
  xinv acc ->
  xinv (apply_layer inb layers sd acc ln) /\
  forall k (S : Z * attrs -> Prop), Best S (cvalA acc k) ->
    Best (fun o => S o \/ T_layer inb layers sd ln k o) (cvalA (apply_layer inb layers sd acc ln) k).
Proof.
  intros inb layers sd acc ln HI. unfold apply_layer, T_layer.
  apply (fold_best run (apply_run inb sd ln) (T_run inb sd ln)); [|exact HI].
  intros acc0 r HI0. apply apply_run_props. exact HI0.
Qed.

Lemma apply_side_props : forall inb layers lorder acc sd,
  xinv acc ->
  xinv (apply_side inb layers lorder acc sd) /\
  forall k (S : Z * attrs -> Prop), Best S (cvalA acc k) ->
    Best (fun o => S o \/ T_side inb layers lorder sd k o) (cvalA (apply_side inb layers lorder acc sd) k).
Proof.
  intros inb layers lorder acc sd HI. unfold apply_side, T_side.
  apply (fold_best Z (apply_layer inb layers sd) (T_layer inb layers sd)); [|exact HI].
  intros acc0 ln HI0. apply apply_layer_props. exact HI0.
Qed.

(* every offer made to k by extract_strokes *)
Definition offers inb (layers : side -> Z -> list run) (lorder : side -> list Z) (k : key) (o : Z * attrs) : Prop :=
  exists sd ln r, In ln (lorder sd) /\ In r (layers sd ln) /\ o = (r_order r, r_attrs r) /\ touch_run inb sd ln r k.

Theorem extract_best : forall inb layers lorder heap n,
  let acc := fold_left (apply_side inb layers lorder) [STop; SLeft; SRight; SBottom] (heap, (fun _ => None), n) in
  xinv acc /\ forall k, Best (offers inb layers lorder k) (cvalA acc k).
Proof.
  intros inb layers lorder heap n acc.
  assert (HI : xinv (heap, (fun _ : key => None), n)) by (intros k o H; discriminate).
  destruct (fold_best side (apply_side inb layers lorder) (T_side inb layers lorder)
              (fun a x Ha => apply_side_props inb layers lorder a x Ha)
              [STop; SLeft; SRight; SBottom] _ HI) as (HI' & HB).
  split; [exact HI'|]. intros k.
  eapply Best_ext; [|apply (HB k (fun _ => False)); simpl; intros x Hx; exact Hx].
  intros o. unfold offers, T_side, T_layer, T_run. split.
  - intros [[]|(sd & _ & ln & Hln & r & Hr & Ho & Ht)]. exists sd, ln, r. auto.
  - intros (sd & ln & r & Hln & Hr & Ho & Ht). right. exists sd. split; [destruct sd; simpl; auto|].
    exists ln. split; [exact Hln|]. exists r. auto.
Qed.

(* ---------- which cell sides a run reaches: exactly those on its edges ---------- *)
Definition run_edge (sd : side) (ln p : Z) : edge :=
  match sd with
  | STop => (Hor, ln, p)
  | SBottom => (Hor, ln + 1, p)
  | SLeft => (Ver, ln, p)
  | SRight => (Ver, ln + 1, p)
  end.

Ltac fin_inb Hk :=
  match goal with
  | |- ?f ?a ?b = true =>
      match type of Hk with
      | f ?x ?y = true => replace a with x by lia; replace b with y by lia; exact Hk
      end
  end.

Lemma touch_run_edge : forall inb sd ln r k,
  kin inb k = true ->
  (touch_run inb sd ln r k <-> exists p, covers r p /\ edge_of k = run_edge sd ln p).
Proof.
  intros inb sd ln r [[kr kc] ks] Hk. unfold touch_run, touch_along, touch1, covers. simpl in Hk.
  split.
  - intros (i & Hi & Ht). rewrite Z2Nat.id in Hi by lia || (destruct (r_length r); simpl in Hi; lia).
    exists (r_origin r + i). split; [lia|].
    destruct sd; simpl in Ht; destruct Ht as [(Hkk & _)|(Hkk & _)]; inversion Hkk; subst; simpl; f_equal; try f_equal; lia.
  - intros (p & Hp & He).
    assert (Hlen : 0 < r_length r) by lia.
    exists (p - r_origin r). rewrite Z2Nat.id by lia. split; [lia|].
    destruct sd, ks; simpl in He; inversion He; subst; simpl;
      first [ left; split; [solve [repeat (apply f_equal2); first [reflexivity|lia]] | fin_inb Hk]
            | right; split; [solve [repeat (apply f_equal2); first [reflexivity|lia]] | fin_inb Hk] ].
Qed.
