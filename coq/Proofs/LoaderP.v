(* Proofs for C17 about Model/Loader.v. *)
From Coq Require Import NArith List Bool Lia.
From NP Require Import Model.PyBase Model.Loader.
Import ListNotations.
Open Scope N_scope.

Definition library_outcome (e : pyexn) : Prop :=
  e = FileError \/ e = FileFormatError \/ e = UnsupportedError.

Lemma translate_class : forall e, library_outcome (translate e) \/ translate e = OutOfFuel.
Proof.
  intros e. unfold library_outcome.
  destruct e; cbn [translate is_library_error is_oserror]; auto.
  destruct (tag =? 10); auto.
Qed.

Lemma translate_library : forall e, is_library_error e = true -> translate e = e.
Proof. intros e H. destruct e; try discriminate; reflexivity. Qed.

Lemma translate_oserror : translate OSErrorX = FileError.
Proof. reflexivity. Qed.

(* the repaired initialiser is the pinned one followed by the translation *)
Lemma init_boundary : forall fs k,
  object_store_init true fs k =
  match object_store_init false fs k with Ok r => Ok r | Err e => Err (translate e) end.
Proof.
  intros fs k. unfold object_store_init.
  destruct (iwork_open fs k) as [[cnt k']|e]; cbn [bind]; [|reflexivity].
  destruct (cnt =? 0); reflexivity.
Qed.

(* whatever the external calls return or raise: a store, one of the three library errors,
   or the script ended / did not fit (not a behaviour) *)
Lemma loader_translates_lemma : forall fs k,
  match object_store_init true fs k with
  | Ok _ => True
  | Err e => library_outcome e \/ e = OutOfFuel
  end.
Proof.
  intros fs k. rewrite init_boundary.
  destruct (object_store_init false fs k) as [r|e]; [exact I|apply translate_class].
Qed.

(* the translation hides nothing the pinned loader already reported properly *)
Lemma loader_keeps_library_errors : forall fs k e,
  object_store_init false fs k = Err e -> is_library_error e = true ->
  object_store_init true fs k = Err e.
Proof. intros fs k e H He. rewrite init_boundary, H. now rewrite translate_library. Qed.

Lemma loader_keeps_success : forall fs k r,
  object_store_init false fs k = Ok r -> object_store_init true fs k = Ok r.
Proof. intros fs k r H. now rewrite init_boundary, H. Qed.

Lemma missing_path_is_file_error : forall fb fs k,
  object_store_init fb fs ((S_exists, ABool false) :: k) = Err FileError.
Proof. intros [|] fs k; reflexivity. Qed.

Lemma wrong_suffix_is_format_error : forall fb fs k,
  object_store_init fb fs ((S_exists, ABool true) :: (S_suffix, ABool false) :: k) = Err FileFormatError.
Proof. intros [|] fs k; reflexivity. Qed.

(* ---------- fuel: beyond the length of the script it is irrelevant ----------
   so [Err OutOfFuel] of [object_store_init] always means "the script ended or did not
   fit the calls made", never "the recursion bound was too small". *)
Definition shrinks (f : script -> result (N * script)) : Prop :=
  forall k c k', f k = Ok (c, k') -> (length k' <= length k)%nat.

Lemma next_shorter : forall s k a k', next s k = Ok (a, k') -> length k = S (length k').
Proof.
  intros s [|[s' a'] k] a k' H; [discriminate|]. cbn [next] in H.
  destruct (site_eqb s s'); [|discriminate]. now injection H as _ <-.
Qed.

Ltac call_shorter H :=
  match type of H with
  | bind (next ?s ?k) _ = _ =>
    let a := fresh "a" in let k1 := fresh "k" in let E := fresh "E" in
    destruct (next s k) as [[a k1]|?] eqn:E; cbn [bind] in H; [|discriminate];
    apply next_shorter in E
  end.

Lemma call_bool_shorter : forall s k b k', call_bool s k = Ok (b, k') -> length k = S (length k').
Proof. intros s k b k' H. unfold call_bool in H. call_shorter H. destruct a; try discriminate. now injection H as _ <-. Qed.
Lemma call_unit_shorter : forall s k u k', call_unit s k = Ok (u, k') -> length k = S (length k').
Proof. intros s k u k' H. unfold call_unit in H. call_shorter H. destruct a; try discriminate. now injection H as _ <-. Qed.
Lemma call_names_shorter : forall s k l k', call_names s k = Ok (l, k') -> length k = S (length k').
Proof. intros s k l k' H. unfold call_names in H. call_shorter H. destruct a; try discriminate. now injection H as _ <-. Qed.
Lemma call_blob_shorter : forall s k u k', call_blob s k = Ok (u, k') -> length k = S (length k').
Proof. intros s k u k' H. unfold call_blob in H. call_shorter H. destruct a; try discriminate. now injection H as _ <-. Qed.
Lemma open_zipfile_shorter : forall k u k', open_zipfile k = Ok (u, k') -> length k = S (length k').
Proof.
  intros k u k' H. unfold open_zipfile in H. call_shorter H.
  destruct a; try discriminate; [now injection H as _ <-|]. destruct e; discriminate.
Qed.

Lemma store_blob_shrinks : forall fs name, shrinks (store_blob fs name).
Proof.
  intros fs name k c k' H. unfold store_blob in H.
  destruct (ends_with name s_iwa); [|injection H as _ <-; lia].
  destruct (call_bool S_is_iwa k) as [[b k1]|e] eqn:E1; cbn [bind] in H; [|discriminate].
  apply call_bool_shorter in E1. destruct b; [|injection H as _ <-; lia].
  call_shorter H. destruct a; try discriminate.
  - destruct (objects_of chunks); [injection H as _ <-; lia|discriminate].
  - destruct e; discriminate.
Qed.

Lemma zip_members_shrinks : forall rec fs, shrinks rec -> forall names cnt, shrinks (fun k => zip_members rec fs names k cnt).
Proof.
  intros rec fs Hrec. induction names as [|name rest IH]; intros cnt k c k' H; cbn [zip_members] in H.
  - injection H as _ <-. lia.
  - destruct (call_blob S_zip_read k) as [[u ka]|e] eqn:E1; cbn [bind] in H; [|discriminate].
    apply call_blob_shorter in E1. destruct (ends_with (lower name) s_index_zip).
    + destruct (open_zipfile ka) as [[u' kb]|e] eqn:E2; cbn [bind] in H; [|discriminate].
      apply open_zipfile_shorter in E2.
      destruct (rec kb) as [[c1 kc]|e] eqn:E3; cbn [bind] in H; [|discriminate].
      apply Hrec in E3. apply IH in H. lia.
    + destruct (store_blob fs name ka) as [[c1 kb]|e] eqn:E2; cbn [bind] in H; [|discriminate].
      apply store_blob_shrinks in E2. apply IH in H. lia.
Qed.

Lemma read_zip_shrinks : forall fs fuel, shrinks (read_zip fs fuel).
Proof.
  intros fs. induction fuel as [|f IH]; intros k c k' H; [discriminate|].
  cbn [read_zip] in H. call_shorter H.
  destruct (check_not_encrypted a); cbn [bind] in H; [|discriminate].
  destruct (call_names S_namelist k0) as [[names k2]|e] eqn:E2; cbn [bind] in H; [|discriminate].
  apply call_names_shorter in E2. apply (zip_members_shrinks _ fs IH) in H. lia.
Qed.

Lemma zip_members_ext : forall rec1 rec2 fs, shrinks rec1 ->
  forall names k cnt, (forall kb, (length kb < length k)%nat -> rec1 kb = rec2 kb) ->
  zip_members rec1 fs names k cnt = zip_members rec2 fs names k cnt.
Proof.
  intros rec1 rec2 fs Hs. induction names as [|name rest IH]; intros k cnt Hext; [reflexivity|].
  cbn [zip_members]. destruct (call_blob S_zip_read k) as [[u ka]|e] eqn:E1; cbn [bind]; [|reflexivity].
  apply call_blob_shorter in E1. destruct (ends_with (lower name) s_index_zip).
  - destruct (open_zipfile ka) as [[u' kb]|e] eqn:E2; cbn [bind]; [|reflexivity].
    apply open_zipfile_shorter in E2. rewrite <- (Hext kb) by lia.
    destruct (rec1 kb) as [[c1 kc]|e] eqn:E3; cbn [bind]; [|reflexivity].
    apply Hs in E3. apply IH. intros kb' Hlt. apply Hext. lia.
  - destruct (store_blob fs name ka) as [[c1 kb]|e] eqn:E2; cbn [bind]; [|reflexivity].
    apply store_blob_shrinks in E2. apply IH. intros kb' Hlt. apply Hext. lia.
Qed.

Lemma read_zip_fuel : forall fs f f' k, (length k < f)%nat -> (length k < f')%nat ->
  read_zip fs f k = read_zip fs f' k.
Proof.
  intros fs. induction f as [|f IH]; intros f' k Hf Hf'; [lia|]. destruct f' as [|f']; [lia|].
  cbn [read_zip]. destruct (next S_getinfo k) as [[a k1]|e] eqn:E1; cbn [bind]; [|reflexivity].
  apply next_shorter in E1. destruct (check_not_encrypted a); cbn [bind]; [|reflexivity].
  destruct (call_names S_namelist k1) as [[names k2]|e] eqn:E2; cbn [bind]; [|reflexivity].
  apply call_names_shorter in E2.
  apply zip_members_ext; [apply read_zip_shrinks|]. intros kb Hlt. apply IH; lia.
Qed.

Lemma package_entries_shrinks : forall rec fs, shrinks rec ->
  forall names cnt, shrinks (fun k => package_entries rec fs names k cnt).
Proof.
  intros rec fs Hrec. induction names as [|name rest IH]; intros cnt k c k' H; cbn [package_entries] in H.
  - injection H as _ <-. lia.
  - destruct (call_bool S_sub_is_dir k) as [[b ka]|e] eqn:E1; cbn [bind] in H; [|discriminate].
    apply call_bool_shorter in E1. destruct b.
    + destruct (rec ka) as [[c1 kb]|e] eqn:E2; cbn [bind] in H; [|discriminate].
      apply Hrec in E2. apply IH in H. lia.
    + destruct (str_eqb (lower name) s_index_zip).
      * destruct (open_zipfile ka) as [[u' kb]|e] eqn:E2; cbn [bind] in H; [|discriminate].
        apply open_zipfile_shorter in E2.
        destruct (read_zip fs (S (length kb)) kb) as [[c1 kc]|e] eqn:E3; cbn [bind] in H; [|discriminate].
        apply read_zip_shrinks in E3. apply IH in H. lia.
      * destruct (call_unit S_sub_open ka) as [[u1 kb]|e] eqn:E2; cbn [bind] in H; [|discriminate].
        apply call_unit_shorter in E2.
        destruct (call_blob S_fh_read kb) as [[u2 kc]|e] eqn:E3; cbn [bind] in H; [|discriminate].
        apply call_blob_shorter in E3.
        destruct (store_blob fs name kc) as [[c1 kd]|e] eqn:E4; cbn [bind] in H; [|discriminate].
        apply store_blob_shrinks in E4. apply IH in H. lia.
Qed.

Lemma read_package_shrinks : forall fs fuel, shrinks (read_package fs fuel).
Proof.
  intros fs. induction fuel as [|f IH]; intros k c k' H; [discriminate|].
  cbn [read_package] in H.
  destruct (call_names S_iterdir k) as [[names k1]|e] eqn:E1; cbn [bind] in H; [|discriminate].
  apply call_names_shorter in E1. apply (package_entries_shrinks _ fs IH) in H. lia.
Qed.

Lemma package_entries_ext : forall rec1 rec2 fs, shrinks rec1 ->
  forall names k cnt, (forall kb, (length kb < length k)%nat -> rec1 kb = rec2 kb) ->
  package_entries rec1 fs names k cnt = package_entries rec2 fs names k cnt.
Proof.
  intros rec1 rec2 fs Hs. induction names as [|name rest IH]; intros k cnt Hext; [reflexivity|].
  cbn [package_entries]. destruct (call_bool S_sub_is_dir k) as [[b ka]|e] eqn:E1; cbn [bind]; [|reflexivity].
  apply call_bool_shorter in E1. destruct b.
  - rewrite <- (Hext ka) by lia. destruct (rec1 ka) as [[c1 kb]|e] eqn:E2; cbn [bind]; [|reflexivity].
    apply Hs in E2. apply IH. intros kb' Hlt. apply Hext. lia.
  - destruct (str_eqb (lower name) s_index_zip).
    + destruct (open_zipfile ka) as [[u' kb]|e] eqn:E2; cbn [bind]; [|reflexivity].
      apply open_zipfile_shorter in E2.
      destruct (read_zip fs (S (length kb)) kb) as [[c1 kc]|e] eqn:E3; cbn [bind]; [|reflexivity].
      apply read_zip_shrinks in E3. apply IH. intros kb' Hlt. apply Hext. lia.
    + destruct (call_unit S_sub_open ka) as [[u1 kb]|e] eqn:E2; cbn [bind]; [|reflexivity].
      apply call_unit_shorter in E2.
      destruct (call_blob S_fh_read kb) as [[u2 kc]|e] eqn:E3; cbn [bind]; [|reflexivity].
      apply call_blob_shorter in E3.
      destruct (store_blob fs name kc) as [[c1 kd]|e] eqn:E4; cbn [bind]; [|reflexivity].
      apply store_blob_shrinks in E4. apply IH. intros kb' Hlt. apply Hext. lia.
Qed.

Lemma read_package_fuel : forall fs f f' k, (length k < f)%nat -> (length k < f')%nat ->
  read_package fs f k = read_package fs f' k.
Proof.
  intros fs. induction f as [|f IH]; intros f' k Hf Hf'; [lia|]. destruct f' as [|f']; [lia|].
  cbn [read_package]. destruct (call_names S_iterdir k) as [[names k1]|e] eqn:E1; cbn [bind]; [|reflexivity].
  apply call_names_shorter in E1.
  apply package_entries_ext; [apply read_package_shrinks|]. intros kb Hlt. apply IH; lia.
Qed.
