(* Proofs about Model/Varint.v: slicing lemmas and the varint round trip. *)
From Coq Require Import NArith List Bool Lia ZArith.
From NP Require Import Model.PyBase Model.Varint.
Import ListNotations.
Open Scope N_scope.
Ltac Zify.zify_post_hook ::= Z.to_euclidean_division_equations.

(* ---------- takeN / dropN / nthN ---------- *)
Lemma takeN_firstn : forall A (l : list A) n, takeN n l = firstn (N.to_nat n) l.
Proof.
  induction l as [|x l IH]; intros n; cbn [takeN].
  - now rewrite firstn_nil.
  - destruct (N.eqb_spec n 0) as [->|Hn]; [reflexivity|].
    replace (N.to_nat n) with (S (N.to_nat (N.pred n))) by lia. cbn [firstn]. now rewrite IH.
Qed.

Lemma dropN_skipn : forall A (l : list A) n, dropN n l = skipn (N.to_nat n) l.
Proof.
  induction l as [|x l IH]; intros n; cbn [dropN].
  - now rewrite skipn_nil.
  - destruct (N.eqb_spec n 0) as [->|Hn]; [reflexivity|].
    replace (N.to_nat n) with (S (N.to_nat (N.pred n))) by lia. cbn [skipn]. now rewrite IH.
Qed.

Lemma takeN_dropN : forall A (l : list A) n, takeN n l ++ dropN n l = l.
Proof. intros. rewrite takeN_firstn, dropN_skipn. apply firstn_skipn. Qed.

Lemma lenN_app : forall A (a b : list A), lenN (a ++ b) = lenN a + lenN b.
Proof. intros. unfold lenN. rewrite app_length. lia. Qed.

Lemma lenN_nil : forall A, lenN (@nil A) = 0.
Proof. reflexivity. Qed.

Lemma lenN_cons : forall A (x : A) l, lenN (x :: l) = 1 + lenN l.
Proof. intros. unfold lenN. cbn [length]. lia. Qed.

Lemma takeN_app_exact : forall A (a b : list A), takeN (lenN a) (a ++ b) = a.
Proof.
  intros. rewrite takeN_firstn. unfold lenN. rewrite Nat2N.id.
  rewrite firstn_app, Nat.sub_diag, firstn_all. cbn [firstn]. now rewrite app_nil_r.
Qed.

Lemma dropN_app_exact : forall A (a b : list A), dropN (lenN a) (a ++ b) = b.
Proof.
  intros. rewrite dropN_skipn. unfold lenN. rewrite Nat2N.id.
  rewrite skipn_app, Nat.sub_diag, skipn_all. reflexivity.
Qed.

Lemma takeN_all : forall A (l : list A) n, lenN l <= n -> takeN n l = l.
Proof. intros A l n Hn. rewrite takeN_firstn. apply firstn_all2. unfold lenN in Hn. lia. Qed.

Lemma dropN_all : forall A (l : list A) n, lenN l <= n -> dropN n l = [].
Proof. intros A l n Hn. rewrite dropN_skipn. apply skipn_all2. unfold lenN in Hn. lia. Qed.

Lemma dropN_0 : forall A (l : list A), dropN 0 l = l.
Proof. intros A [|x l]; reflexivity. Qed.

Lemma takeN_0 : forall A (l : list A), takeN 0 l = [].
Proof. intros A [|x l]; reflexivity. Qed.

Lemma lenN_takeN : forall A (l : list A) n, lenN (takeN n l) = N.min n (lenN l).
Proof. intros. rewrite takeN_firstn. unfold lenN. rewrite firstn_length. lia. Qed.

Lemma lenN_dropN : forall A (l : list A) n, lenN (dropN n l) = lenN l - n.
Proof. intros. rewrite dropN_skipn. unfold lenN. rewrite skipn_length. lia. Qed.

Lemma dropN_add : forall A (l : list A) a b, dropN (a + b) l = dropN b (dropN a l).
Proof.
  induction l as [|x l IH]; intros a b.
  - cbn [dropN]. reflexivity.
  - cbn [dropN]. destruct (N.eqb_spec a 0) as [->|Ha].
    + rewrite N.add_0_l. destruct (N.eqb_spec b 0) as [->|Hb]; [reflexivity|]. cbn [dropN].
      destruct (N.eqb_spec b 0); [lia|reflexivity].
    + destruct (N.eqb_spec (a + b) 0); [lia|].
      replace (N.pred (a + b)) with (N.pred a + b) by lia. apply IH.
Qed.

Lemma dropN_app_ge : forall A (a b : list A) n, lenN a <= n -> dropN n (a ++ b) = dropN (n - lenN a) b.
Proof.
  intros A a b n Hn. replace n with (lenN a + (n - lenN a)) at 1 by lia.
  now rewrite dropN_add, dropN_app_exact.
Qed.

Lemma takeN_app_le : forall A (a b : list A) n, n <= lenN a -> takeN n (a ++ b) = takeN n a.
Proof.
  intros A a b n Hn. rewrite !takeN_firstn, firstn_app.
  unfold lenN in Hn. replace (N.to_nat n - length a)%nat with 0%nat by lia.
  cbn [firstn]. now rewrite app_nil_r.
Qed.

Lemma dropN_app_le : forall A (a b : list A) n, n <= lenN a -> dropN n (a ++ b) = dropN n a ++ b.
Proof.
  intros A a b n Hn. rewrite !dropN_skipn, skipn_app.
  unfold lenN in Hn. replace (N.to_nat n - length a)%nat with 0%nat by lia. reflexivity.
Qed.

Lemma nthN_nth_error : forall A (l : list A) n, nthN n l = nth_error l (N.to_nat n).
Proof.
  induction l as [|x l IH]; intros n; cbn [nthN].
  - now destruct (N.to_nat n).
  - destruct (N.eqb_spec n 0) as [->|Hn]; [reflexivity|].
    replace (N.to_nat n) with (S (N.to_nat (N.pred n))) by lia. cbn [nth_error]. apply IH.
Qed.

(* ---------- encoder ---------- *)
Lemma enc_varint_S : forall f n,
  enc_varint (S f) n = if n <? 128 then [n] else (128 + n mod 128) :: enc_varint f (n / 128).
Proof. reflexivity. Qed.

Lemma pow7_S : forall f : nat, 2 ^ (7 * (N.of_nat (S f) + 1)) = 128 * 2 ^ (7 * (N.of_nat f + 1)).
Proof.
  intros f. replace (7 * (N.of_nat (S f) + 1)) with (7 + 7 * (N.of_nat f + 1)) by lia.
  rewrite N.pow_add_r. reflexivity.
Qed.

Lemma pow7_0 : 2 ^ (7 * (N.of_nat 0 + 1)) = 128.
Proof. reflexivity. Qed.

Lemma pos_size_bound : forall p, Npos p < 2 ^ N.of_nat (Pos.size_nat p).
Proof.
  induction p as [p IH|p IH|]; cbn [Pos.size_nat].
  - rewrite Nat2N.inj_succ, N.pow_succ_r'. lia.
  - rewrite Nat2N.inj_succ, N.pow_succ_r'. lia.
  - reflexivity.
Qed.

Lemma size_nat_bound : forall n, n < 2 ^ N.of_nat (N.size_nat n).
Proof. intros [|p]; [reflexivity|apply pos_size_bound]. Qed.

(* fuel beyond the number of 7-bit groups is irrelevant *)
Lemma enc_fuel : forall f g n,
  n < 2 ^ (7 * (N.of_nat f + 1)) -> (f <= g)%nat -> enc_varint g n = enc_varint f n.
Proof.
  induction f as [|f IH]; intros g n Hn Hg.
  - rewrite pow7_0 in Hn. destruct g as [|g]; [reflexivity|].
    rewrite enc_varint_S. cbn [enc_varint]. destruct (N.ltb_spec n 128); [|lia].
    f_equal. symmetry. apply N.mod_small. assumption.
  - destruct g as [|g]; [lia|]. rewrite !enc_varint_S.
    destruct (N.ltb_spec n 128); [reflexivity|].
    f_equal. apply IH; [|lia]. rewrite pow7_S in Hn.
    apply N.div_lt_upper_bound; lia.
Qed.

(* ---------- decoder ---------- *)
Lemma dec_varint_S : forall f x r m acc,
  dec_varint (S f) (x :: r) m acc =
  if x <? 128 then Ok (acc + (x mod 128) * m, r) else dec_varint f r (m * 128) (acc + (x mod 128) * m).
Proof. reflexivity. Qed.

Lemma dec_enc : forall f n left m acc r,
  n < 2 ^ (7 * (N.of_nat f + 1)) -> (f < left)%nat ->
  dec_varint left (enc_varint f n ++ r) m acc = Ok (acc + n * m, r).
Proof.
  induction f as [|f IH]; intros n left m acc r Hn Hl.
  - rewrite pow7_0 in Hn. destruct left as [|left]; [lia|].
    cbn [enc_varint app]. rewrite dec_varint_S.
    rewrite !(N.mod_small n 128) by assumption.
    destruct (N.ltb_spec n 128); [reflexivity|lia].
  - destruct left as [|left]; [lia|]. rewrite enc_varint_S.
    destruct (N.ltb_spec n 128) as [Hs|Hs].
    + cbn [app]. rewrite dec_varint_S. rewrite (N.mod_small n 128) by assumption.
      destruct (N.ltb_spec n 128); [reflexivity|lia].
    + cbn [app]. rewrite dec_varint_S.
      assert (Hx : (128 + n mod 128) mod 128 = n mod 128).
      { rewrite N.add_mod by lia. rewrite N.mod_same by lia. rewrite N.add_0_l.
        rewrite N.mod_mod by lia. apply N.mod_mod. lia. }
      rewrite Hx.
      destruct (N.ltb_spec (128 + n mod 128) 128); [lia|].
      rewrite IH; [|rewrite pow7_S in Hn; apply N.div_lt_upper_bound; lia|lia].
      f_equal. f_equal.
      pose proof (N.div_mod n 128 ltac:(lia)) as Hdm. nia.
Qed.

Lemma pow_7_mono : forall a b : N, a <= b -> 2 ^ a <= 2 ^ b.
Proof. intros. apply N.pow_le_mono_r; lia. Qed.

Lemma varint_roundtrip_raw : forall n r, n < 2 ^ 70 ->
  decode_varint_raw (encode_varint n ++ r) = Ok (n, r).
Proof.
  intros n r Hn. unfold decode_varint_raw, encode_varint.
  destruct (Nat.le_gt_cases (N.size_nat n) 9) as [Hs|Hs].
  - rewrite dec_enc; [f_equal; f_equal; lia| |lia].
    eapply N.lt_le_trans; [apply size_nat_bound|]. apply pow_7_mono. lia.
  - rewrite (enc_fuel 9 (N.size_nat n) n); [|exact Hn|lia].
    rewrite dec_enc; [f_equal; f_equal; lia|exact Hn|lia].
Qed.

Lemma varint32_roundtrip : forall n r, n < 4294967296 ->
  decode_varint32 (encode_varint n ++ r) = Ok (n, r).
Proof.
  intros n r Hn. unfold decode_varint32.
  rewrite varint_roundtrip_raw by (eapply N.lt_trans; [exact Hn|reflexivity]).
  cbn [bind]. now rewrite N.mod_small.
Qed.

Lemma varint64_roundtrip : forall n r, n < 18446744073709551616 ->
  decode_varint64 (encode_varint n ++ r) = Ok (n, r).
Proof.
  intros n r Hn. unfold decode_varint64.
  rewrite varint_roundtrip_raw by (eapply N.lt_trans; [exact Hn|reflexivity]).
  cbn [bind]. now rewrite N.mod_small.
Qed.

(* ---------- shape of an encoding ---------- *)
Lemma enc_nonempty : forall f n, enc_varint f n <> [].
Proof. intros [|f] n; [discriminate|]. rewrite enc_varint_S. destruct (n <? 128); discriminate. Qed.

Lemma encode_varint_nonempty : forall n, encode_varint n <> [].
Proof. intros. apply enc_nonempty. Qed.

Lemma encode_varint_length_pos : forall n, (1 <= length (encode_varint n))%nat.
Proof.
  intros n. pose proof (encode_varint_nonempty n) as H. destruct (encode_varint n); [congruence|cbn; lia].
Qed.

(* the terminating byte appears within the first k bytes when n < 2^(7k) *)
Lemma enc_terminates_within : forall k f n r, (1 <= k)%nat -> (k <= S f)%nat ->
  n < 2 ^ (7 * N.of_nat k) ->
  existsb (fun x => x <? 128) (firstn k (enc_varint f n ++ r)) = true.
Proof.
  induction k as [|k IH]; intros f n r Hk Hf Hn; [lia|].
  destruct f as [|f].
  - assert (k = 0)%nat by lia. subst k. cbn [enc_varint app firstn existsb].
    change (2 ^ (7 * N.of_nat 1)) with 128 in Hn. rewrite N.mod_small by assumption.
    destruct (N.ltb_spec n 128); [reflexivity|lia].
  - rewrite enc_varint_S. destruct (N.ltb_spec n 128) as [Hs|Hs].
    + cbn [app]. rewrite firstn_cons. cbn [existsb]. destruct (N.ltb_spec n 128); [reflexivity|lia].
    + destruct k as [|k].
      { change (2 ^ (7 * N.of_nat 1)) with 128 in Hn. lia. }
      cbn [app]. rewrite firstn_cons. cbn [existsb]. rewrite IH; [apply orb_true_r|lia|lia|].
      replace (7 * N.of_nat (S (S k))) with (7 + 7 * N.of_nat (S k)) in Hn by lia.
      rewrite N.pow_add_r in Hn. change (2 ^ 7) with 128 in Hn.
      apply N.div_lt_upper_bound; lia.
Qed.

Lemma encode_terminates_within5 : forall n r, n < 2 ^ 35 ->
  existsb (fun x => x <? 128) (firstn 5 (encode_varint n ++ r)) = true.
Proof.
  intros n r Hn. unfold encode_varint.
  destruct (Nat.le_gt_cases 4 (N.size_nat n)) as [Hs|Hs].
  - apply enc_terminates_within; [lia|lia|exact Hn].
  - rewrite <- (enc_fuel (N.size_nat n) 4 n); [apply enc_terminates_within; [lia|lia|exact Hn]| |lia].
    eapply N.lt_le_trans; [apply size_nat_bound|]. apply pow_7_mono. lia.
Qed.
