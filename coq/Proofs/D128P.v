From Coq Require Import ZArith NArith List Bool Lia.
From NP Require Import Model.PyBase Model.D128 Proofs.CellRecordP.
Import ListNotations.
Open Scope N_scope.
Ltac Zify.zify_post_hook ::= Z.to_euclidean_division_equations.

Lemma nth_app_r {A} (l r : list A) n d : length l = n -> nth n (l ++ r) d = nth 0 r d.
Proof. intros <-. rewrite app_nth2 by lia. now rewrite Nat.sub_diag. Qed.

Theorem d128_bits_roundtrip_lemma neg m e :
  m < 2 ^ 112 -> e < 2 ^ 14 ->
  unpack_bits (pack_bits neg m e) = (neg, m, (Z.of_N e - BIAS)%Z).
Proof.
  intros Hm He. unfold unpack_bits, pack_bits.
  assert (L14 : length (le_bytes 14 m) = 14%nat) by apply le_bytes_length.
  rewrite (nth_app_r _ _ 14 0 L14).
  assert (N15 : nth 15 (le_bytes 14 m ++ [e mod 128 * 2; e / 128 + (if neg then 128 else 0)]) 0
                = e / 128 + (if neg then 128 else 0)).
  { rewrite app_nth2 by lia. rewrite L14. reflexivity. }
  rewrite N15. cbn [nth].
  rewrite (firstn_app_exact _ _ 14 L14).
  rewrite le_val_bytes by (change (256 ^ N.of_nat 14) with (2 ^ 112); exact Hm).
  change (2 ^ 14) with 16384 in He.
  assert (E1 : (e mod 128 * 2) mod 2 = 0) by lia.
  assert (E2 : (e mod 128 * 2) / 2 = e mod 128) by lia.
  rewrite E1, E2.
  assert (E3 : (e / 128 + (if neg then 128 else 0)) mod 128 = e / 128) by (destruct neg; lia).
  rewrite E3.
  assert (E4 : (128 <=? e / 128 + (if neg then 128 else 0)) = neg).
  { destruct neg; [apply N.leb_le; lia|apply N.leb_gt; lia]. }
  rewrite E4.
  rewrite N.mul_0_l, N.add_0_l.
  assert (E5 : e / 128 * 128 + e mod 128 = e) by lia.
  rewrite E5. reflexivity.
Qed.

(* 17 digits fit the 112-bit mantissa field *)
Lemma pow10_17_lt : 10 ^ 17 < 2 ^ 112.
Proof. vm_compute. reflexivity. Qed.

(* the stored decimal has exactly the value of the digits given: D * 10^x = m * 10^e' *)
Theorem d128_value_exact_lemma neg D k x :
  D <> 0 -> D < 10 ^ N.of_nat k -> (k <= 17)%nat ->
  (0 <= x - Z.of_nat (17 - k) + BIAS < 16384)%Z ->
  let s := N.of_nat (17 - k) in
  unpack_decimal (pack_decimal neg D k x) = (neg, D * 10 ^ s, (x - Z.of_N s)%Z).
Proof.
  intros HD Hk Hk17 Hx s. unfold unpack_decimal, pack_decimal, normalise.
  destruct (N.eqb_spec D 0); [contradiction|].
  destruct (Nat.leb_spec k 17); [|lia].
  rewrite d128_bits_roundtrip_lemma.
  - f_equal. unfold s. lia.
  - apply N.lt_trans with (10 ^ 17); [|apply pow10_17_lt].
    assert (E17 : 10 ^ 17 = 10 ^ N.of_nat k * 10 ^ N.of_nat (17 - k)).
    { rewrite <- N.pow_add_r. f_equal. lia. }
    rewrite E17. apply N.mul_lt_mono_pos_r; [|assumption].
    apply N.neq_0_lt_0, N.pow_nonzero. lia.
  - change (2 ^ 14) with 16384. lia.
Qed.

Lemma zero_pack neg k x : unpack_decimal (pack_decimal neg 0 k x) = (neg, 0, (-16)%Z).
Proof.
  unfold unpack_decimal, pack_decimal, normalise. cbn [N.eqb].
  rewrite d128_bits_roundtrip_lemma; [reflexivity| |]; vm_compute; reflexivity.
Qed.

(* ---------- numbers survive the storage format: the float/decimal conversions are CPython's ---------- *)
Section NumberRoundTrip.
  Variable F : Type.
  (* float(m * 10**e) for e >= 0, m / 10**-e otherwise: one correctly rounded conversion of the exact decimal *)
  Variable float_of_dec : bool -> N -> Z -> F.
  (* decimal.Decimal(str(x)).as_tuple() together with `x < 0`: (negative, digit value, digit count, exponent) *)
  Variable repr_dec : F -> bool * N * nat * Z.

  (* repr_roundtrip: float(repr(x)) == x  (shortest round-tripping repr, at most 17 significant digits) *)
  Hypothesis repr_roundtrip : forall x s D k e, repr_dec x = (s, D, k, e) -> float_of_dec s D e = x.
  Hypothesis repr_wf : forall x s D k e, repr_dec x = (s, D, k, e) ->
    D < 10 ^ N.of_nat k /\ (k <= 17)%nat /\ (-400 <= e <= 400)%Z.
  (* decimal_to_float_correct: the conversion depends only on the VALUE m * 10^e *)
  Hypothesis scale_invariant : forall s D e n, float_of_dec s (D * 10 ^ n) (e - Z.of_N n)%Z = float_of_dec s D e.
  Hypothesis zero_any_exponent : forall s e e', float_of_dec s 0 e = float_of_dec s 0 e'.

  Definition encode_num (x : F) : list N := let '(s, D, k, e) := repr_dec x in pack_decimal s D k e.
  Definition decode_num (b : list N) : F := let '(s, m, e) := unpack_decimal b in float_of_dec s m e.

  Theorem number_roundtrip_lemma : forall x, decode_num (encode_num x) = x.
  Proof.
    intros x. unfold decode_num, encode_num.
    destruct (repr_dec x) as [[[s D] k] e] eqn:E.
    destruct (repr_wf x s D k e E) as (HD & Hk & He).
    destruct (N.eq_dec D 0) as [->|HD0].
    - rewrite zero_pack. rewrite (zero_any_exponent s (-16)%Z e). now apply repr_roundtrip with (k := k).
    - rewrite d128_value_exact_lemma by (try assumption; unfold BIAS; lia).
      rewrite scale_invariant. now apply repr_roundtrip with (k := k).
  Qed.
End NumberRoundTrip.
