(* AutoP: automatic decimal places (integer-valued numbers), star ratings. *)
From Coq Require Import ZArith NArith List Bool Lia.
From NP Require Import Model.PyBase Model.Digits Model.C13Tables Model.NumFormat
  Proofs.DigitsP Proofs.B64P Proofs.NumFormatP.
Import ListNotations.
Open Scope Z_scope.
Ltac Zify.zify_post_hook ::= Z.to_euclidean_division_equations.

Lemma plain_digits_0 M : plain_digits M 0 = zstr M.
Proof. unfold plain_digits. rewrite Z.pow_0_r, Z.div_1_r. change (0 <? 0) with false. apply app_nil_r. Qed.

Lemma grouped_dd (sep : bool) s : Forall (fun c => is_digit c = true) s ->
  filter is_dd (if sep then group3 s else s) = s /\ existsb is_sg (if sep then group3 s else s) = false.
Proof.
  intros H. destruct sep.
  - rewrite filter_group3, existsb_group3 by reflexivity. split; [apply filter_all, digits_dd, H|apply existsb_none, digits_nosg, H].
  - split; [apply filter_all, digits_dd, H|apply existsb_none, digits_nosg, H].
Qed.

Ltac fin2 pre post :=
  match goal with Hgen : forall pre post : list N, _ |- _ =>
    let H := fresh in let Ha := fresh in let Hb := fresh in
    pose proof (Hgen pre post ltac:(repeat constructor) ltac:(repeat constructor)) as H;
    cbn [app] in H; cbn [app]; rewrite ?app_nil_r in H; rewrite ?app_nil_r; rewrite <- ?app_assoc in H; rewrite <- ?app_assoc;
    cbn [app] in H; cbn [app]; destruct H as [Ha Hb]; split; [rewrite Ha; reflexivity|exact Hb]
  end.

(* an integer-valued number with automatic places: int(value), grouped, signed *)
Lemma auto_integer_lemma is_int d places sep ns pct : AUTO <= places ->
  let vn := fst (value_rat is_int (dmant d) (dexp d)) in
  let vd := snd (value_rat is_int (dmant d) (dexp d)) in
  vn mod vd = 0 ->
  readback_decimal (format_decimal is_int d places sep ns pct) = Some (shown_negative_auto d ns (vn / vd), vn / vd, 0) /\
  filter is_dd (format_decimal is_int d places sep ns pct) = zstr (vn / vd).
Proof.
  intros Hp. cbv zeta. pose proof (value_rat_pos is_int (dmant d) (dexp d)) as Hv.
  unfold format_decimal. destruct (value_rat is_int (dmant d) (dexp d)) as [vn vd] eqn:Ev. cbn [fst snd].
  destruct Hv as [Hvn Hvd]. intros Hmod.
  rewrite Hmod. replace (AUTO <=? places) with true by (symmetry; apply Z.leb_le; lia).
  change (0 =? 0) with true. cbn [andb].
  set (M := vn / vd). assert (HM : 0 <= M) by (apply Z.div_pos; lia).
  assert (HMpos : (0 <? vn) = (0 <? M)).
  { unfold M. destruct (Z.ltb_spec 0 vn); destruct (Z.ltb_spec 0 (vn / vd)); try reflexivity; nia. }
  rewrite HMpos.
  destruct (grouped_dd sep (zstr M) (zstr_digits M)) as [Gd Gs].
  set (G := if sep then group3 (zstr M) else zstr M) in *.
  assert (Hgen : forall pre post : list N,
     Forall (fun c => is_dd c = false) pre -> Forall (fun c => is_dd c = false) post ->
     readback_decimal (pre ++ G ++ post) = Some (existsb is_sg pre || existsb is_sg post, M, 0) /\
     filter is_dd (pre ++ G ++ post) = zstr M).
  { intros pre post H1 H2. split.
    - apply readback_of_plain; try lia.
      + rewrite filter_wrap by assumption. rewrite plain_digits_0. exact Gd.
      + rewrite existsb_wrap, Gs, orb_false_r. reflexivity.
    - rewrite filter_wrap by assumption. exact Gd. }
  unfold shown_negative_auto.
  destruct (is_neg d) eqn:En.
  - assert (Hd : dneg d = true) by (unfold is_neg in En; apply andb_prop in En; tauto). cbn [andb].
    destruct (Z.leb_spec 2 ns).
    + replace (1 <=? ns) with true by (symmetry; apply Z.leb_le; lia). cbn [andb app].
      destruct pct.
      * fin2 ([c_lpar] : list N) ([c_pct; c_rpar] : list N).
      * fin2 ([c_lpar] : list N) ([c_rpar] : list N).
    + destruct (Z.leb_spec 1 ns); cbn [andb app].
      * destruct pct.
        -- fin2 ([] : list N) ([c_pct] : list N).
        -- fin2 ([] : list N) ([] : list N).
      * rewrite Hd. cbn [andb]. destruct (0 <? M); destruct pct.
        -- fin2 ([c_min] : list N) ([c_pct] : list N).
        -- fin2 ([c_min] : list N) ([] : list N).
        -- fin2 ([] : list N) ([c_pct] : list N).
        -- fin2 ([] : list N) ([] : list N).
  - cbn [andb].
    assert (HM0 : dneg d = true -> (0 <? M) = false).
    { intros Hd. unfold is_neg in En. rewrite Hd in En. cbn in En. apply Z.ltb_ge in En.
      rewrite <- HMpos. apply Z.ltb_ge.
      rewrite value_rat_zero in Ev by lia. inversion Ev. lia. }
    destruct (dneg d) eqn:Hd; [rewrite (HM0 eq_refl)|]; cbn [andb]; destruct pct.
    + fin2 ([] : list N) ([c_pct] : list N).
    + fin2 ([] : list N) ([] : list N).
    + fin2 ([] : list N) ([c_pct] : list N).
    + fin2 ([] : list N) ([] : list N).
Qed.

(* a Python int, or a float whose decimal is an integer below 2^53, is shown digit for digit *)
Lemma auto_int_lemma d places sep ns pct : AUTO <= places -> 0 < dmant d -> 0 <= dexp d ->
  let n := dmant d * 10 ^ dexp d in
  readback_decimal (format_decimal true d places sep ns pct) = Some (shown_negative_auto d ns n, n, 0).
Proof.
  intros Hp Hm He n. pose proof (auto_integer_lemma true d places sep ns pct Hp) as H. cbv zeta in H.
  rewrite value_rat_int in H by assumption. cbn [fst snd] in H. rewrite Z.mod_1_r, Z.div_1_r in H.
  apply H. reflexivity.
Qed.

Lemma auto_float_integer_lemma d places sep ns pct : AUTO <= places -> 0 < dmant d -> 0 <= dexp d ->
  dmant d * 10 ^ dexp d < 2 ^ 53 ->
  let n := dmant d * 10 ^ dexp d in
  readback_decimal (format_decimal false d places sep ns pct) = Some (shown_negative_auto d ns n, n, 0).
Proof.
  intros Hp Hm He Hlt n. pose proof (auto_integer_lemma false d places sep ns pct Hp) as H. cbv zeta in H.
  pose proof (value_rat_float_int (dmant d) (dexp d) Hm He Hlt) as Hv.
  destruct (value_rat false (dmant d) (dexp d)) as [vn vd]. cbn [fst snd] in H. destruct Hv as [Hvd Hvn].
  fold n in Hvn. assert (Hmod : vn mod vd = 0) by (rewrite Hvn; apply Z.mod_mul; lia).
  assert (Hdiv : vn / vd = n) by (rewrite Hvn; apply Z.div_mul; lia).
  rewrite Hdiv in H. apply H. assumption.
Qed.

(* beyond 2^53 the digits are those of the binary value: 754499470762295 * 10^2 *)
Lemma auto_float_integer_witness :
  let d := mkdec false 754499470762295 2 in
  readback_decimal (format_decimal false d 253 false 0 true) = Some (false, 75449947076229504, 0) /\
  dmant d * 10 ^ dexp d = 75449947076229500.
Proof. vm_compute. split; reflexivity. Qed.

(* ---------- star rating ---------- *)
Lemma stars_count k : readback_rating (flat_map (fun _ : unit => star_rating_value) (repeat tt k)) = Z.of_nat k.
Proof.
  unfold readback_rating, zlen. induction k as [|k IH]; [reflexivity|].
  cbn [repeat flat_map]. unfold star_rating_value at 1. cbn [app filter].
  change (9733 =? 9733)%N with true. cbv iota. cbn [length]. rewrite Nat2Z.inj_succ. lia.
Qed.

Lemma rating_lemma is_int d :
  let vn := fst (value_rat is_int (dmant d) (dexp d)) in
  let vd := snd (value_rat is_int (dmant d) (dexp d)) in
  readback_rating (format_rating is_int d) = if dneg d then 0 else vn / vd.
Proof.
  cbv zeta. unfold format_rating. pose proof (value_rat_pos is_int (dmant d) (dexp d)) as Hv.
  destruct (value_rat is_int (dmant d) (dexp d)) as [vn vd]. cbn [fst snd]. destruct Hv as [H1 H2].
  destruct (dneg d); [reflexivity|]. rewrite stars_count. apply Z2Nat.id. apply Z.div_pos; lia.
Qed.
