(* AutoP: automatic decimal places (integer-valued numbers), star ratings. *)
From Coq Require Import ZArith NArith List Bool Lia.
From NP Require Import Model.PyBase Model.Digits Model.C13Tables Model.NumFormat
  Proofs.DigitsP Proofs.B64P Proofs.NumFormatP.
Import ListNotations.
Open Scope Z_scope.
Ltac Zify.zify_post_hook ::= Z.to_euclidean_division_equations.

Lemma plain_digits_0 M : plain_digits M 0 = zstr M.
Proof. unfold plain_digits. rewrite Z.pow_0_r, Z.div_1_r. change (0 <? 0) with false. apply app_nil_r. Qed.

Lemma grouped_dd (sep : bool) s : Forall (fun c => is_digit c = true) s ->
  filter is_dd (if sep then group3 s else s) = s /\ existsb is_sg (if sep then group3 s else s) = false.
Proof.
  intros H. destruct sep.
  - rewrite filter_group3, existsb_group3 by reflexivity. split; [apply filter_all, digits_dd, H|apply existsb_none, digits_nosg, H].
  - split; [apply filter_all, digits_dd, H|apply existsb_none, digits_nosg, H].
Qed.

Ltac fin2 pre post :=
  match goal with Hgen : forall pre post : list N, _ |- _ =>
    let H := fresh in let Ha := fresh in let Hb := fresh in
    pose proof (Hgen pre post ltac:(repeat constructor) ltac:(repeat constructor)) as H;
    cbn [app] in H; cbn [app]; rewrite ?app_nil_r in H; rewrite ?app_nil_r; rewrite <- ?app_assoc in H; rewrite <- ?app_assoc;
    cbn [app] in H; cbn [app]; destruct H as [Ha Hb]; split; [rewrite Ha; reflexivity|exact Hb]
  end.

(* an integer-valued number with automatic places: int(value), grouped, signed *)
Lemma auto_integer_lemma is_int d places sep ns pct : AUTO <= places ->
  let vn := fst (value_rat is_int (dmant d) (dexp d)) in
  let vd := snd (value_rat is_int (dmant d) (dexp d)) in
  vn mod vd = 0 ->
  readback_decimal (format_decimal is_int d places sep ns pct) = Some (shown_negative_auto d ns (vn / vd), vn / vd, 0) /\
  filter is_dd (format_decimal is_int d places sep ns pct) = zstr (vn / vd).
Proof.
  intros Hp. cbv zeta. pose proof (value_rat_pos is_int (dmant d) (dexp d)) as Hv.
  unfold format_decimal. destruct (value_rat is_int (dmant d) (dexp d)) as [vn vd] eqn:Ev. cbn [fst snd].
  destruct Hv as [Hvn Hvd]. intros Hmod.
  rewrite Hmod. replace (AUTO <=? places) with true by (symmetry; apply Z.leb_le; lia).
  change (0 =? 0) with true. cbn [andb].
  set (M := vn / vd). assert (HM : 0 <= M) by (apply Z.div_pos; lia).
  assert (HMpos : (0 <? vn) = (0 <? M)).
  { unfold M. destruct (Z.ltb_spec 0 vn); destruct (Z.ltb_spec 0 (vn / vd)); try reflexivity; nia. }
  rewrite HMpos.
  destruct (grouped_dd sep (zstr M) (zstr_digits M)) as [Gd Gs].
  set (G := if sep then group3 (zstr M) else zstr M) in *.
  assert (Hgen : forall pre post : list N,
     Forall (fun c => is_dd c = false) pre -> Forall (fun c => is_dd c = false) post ->
     readback_decimal (pre ++ G ++ post) = Some (existsb is_sg pre || existsb is_sg post, M, 0) /\
     filter is_dd (pre ++ G ++ post) = zstr M).
  { intros pre post H1 H2. split.
    - apply readback_of_plain; try lia.
      + rewrite filter_wrap by assumption. rewrite plain_digits_0. exact Gd.
      + rewrite existsb_wrap, Gs, orb_false_r. reflexivity.
    - rewrite filter_wrap by assumption. exact Gd. }
  unfold shown_negative_auto.
  destruct (is_neg d) eqn:En.
  - assert (Hd : dneg d = true) by (unfold is_neg in En; apply andb_prop in En; tauto). cbn [andb].
    destruct (Z.leb_spec 2 ns).
    + replace (1 <=? ns) with true by (symmetry; apply Z.leb_le; lia). cbn [andb app].
      destruct pct.
      * fin2 ([c_lpar] : list N) ([c_pct; c_rpar] : list N).
      * fin2 ([c_lpar] : list N) ([c_rpar] : list N).
    + destruct (Z.leb_spec 1 ns); cbn [andb app].
      * destruct pct.
        -- fin2 ([] : list N) ([c_pct] : list N).
        -- fin2 ([] : list N) ([] : list N).
      * rewrite Hd. cbn [andb]. destruct (0 <? M); destruct pct.
        -- fin2 ([c_min] : list N) ([c_pct] : list N).
        -- fin2 ([c_min] : list N) ([] : list N).
        -- fin2 ([] : list N) ([c_pct] : list N).
        -- fin2 ([] : list N) ([] : list N).
  - cbn [andb].
    assert (HM0 : dneg d = true -> (0 <? M) = false).
    { intros Hd. unfold is_neg in En. rewrite Hd in En. cbn in En. apply Z.ltb_ge in En.
      rewrite <- HMpos. apply Z.ltb_ge.
      rewrite value_rat_zero in Ev by lia. inversion Ev. lia. }
    destruct (dneg d) eqn:Hd; [rewrite (HM0 eq_refl)|]; cbn [andb]; destruct pct.
    + fin2 ([] : list N) ([c_pct] : list N).
    + fin2 ([] : list N) ([] : list N).
    + fin2 ([] : list N) ([c_pct] : list N).
    + fin2 ([] : list N) ([] : list N).
Qed.

(* a Python int, or a float whose decimal is an integer below 2^53, is shown digit for digit *)
Lemma auto_int_lemma d places sep ns pct : AUTO <= places -> 0 < dmant d -> 0 <= dexp d ->
  let n := dmant d * 10 ^ dexp d in
  readback_decimal (format_decimal true d places sep ns pct) = Some (shown_negative_auto d ns n, n, 0).
Proof.
  intros Hp Hm He n. pose proof (auto_integer_lemma true d places sep ns pct Hp) as H. cbv zeta in H.
  rewrite value_rat_int in H by assumption. cbn [fst snd] in H. rewrite Z.mod_1_r, Z.div_1_r in H.
  apply H. reflexivity.
Qed.

Lemma auto_float_integer_lemma d places sep ns pct : AUTO <= places -> 0 < dmant d -> 0 <= dexp d ->
  dmant d * 10 ^ dexp d < 2 ^ 53 ->
  let n := dmant d * 10 ^ dexp d in
  readback_decimal (format_decimal false d places sep ns pct) = Some (shown_negative_auto d ns n, n, 0).
Proof.
  intros Hp Hm He Hlt n. pose proof (auto_integer_lemma false d places sep ns pct Hp) as H. cbv zeta in H.
  pose proof (value_rat_float_int (dmant d) (dexp d) Hm He Hlt) as Hv.
  destruct (value_rat false (dmant d) (dexp d)) as [vn vd]. cbn [fst snd] in H. destruct Hv as [Hvd Hvn].
  fold n in Hvn. assert (Hmod : vn mod vd = 0) by (rewrite Hvn; apply Z.mod_mul; lia).
  assert (Hdiv : vn / vd = n) by (rewrite Hvn; apply Z.div_mul; lia).
  rewrite Hdiv in H. apply H. assumption.
Qed.

(* beyond 2^53 the digits are those of the binary value: 754499470762295 * 10^2 *)
Lemma auto_float_integer_witness :
  let d := mkdec false 754499470762295 2 in
  readback_decimal (format_decimal false d 253 false 0 true) = Some (false, 75449947076229504, 0) /\
  dmant d * 10 ^ dexp d = 75449947076229500.
Proof. vm_compute. split; reflexivity. Qed.

(* ---------- star rating ---------- *)
Lemma stars_count k : readback_rating (flat_map (fun _ : unit => star_rating_value) (repeat tt k)) = Z.of_nat k.
Proof.
  unfold readback_rating, zlen. induction k as [|k IH]; [reflexivity|].
  cbn [repeat flat_map]. unfold star_rating_value at 1. cbn [app filter].
  change (9733 =? 9733)%N with true. cbv iota. cbn [length]. rewrite Nat2Z.inj_succ. lia.
Qed.

Lemma rating_lemma is_int d :
  let vn := fst (value_rat is_int (dmant d) (dexp d)) in
  let vd := snd (value_rat is_int (dmant d) (dexp d)) in
  readback_rating (format_rating is_int d) = if dneg d then 0 else vn / vd.
Proof.
  cbv zeta. unfold format_rating. pose proof (value_rat_pos is_int (dmant d) (dexp d)) as Hv.
  destruct (value_rat is_int (dmant d) (dexp d)) as [vn vd]. cbn [fst snd]. destruct Hv as [H1 H2].
  destruct (dneg d); [reflexivity|]. rewrite stars_count. apply Z2Nat.id. apply Z.div_pos; lia.
Qed.

(* ---------- automatic places, non-integer values ---------- *)
Lemma ndig_div10 m : 10 <= m -> ndig (m / 10) = ndig m - 1.
Proof.
  intros Hm. pose proof (ndig_spec m ltac:(lia)) as [Hk [Hlo Hhi]]. set (k := ndig m) in *.
  assert (2 <= k).
  { destruct (Z_lt_le_dec k 2); [|assumption]. assert (k = 1) by lia. rewrite H in Hhi. lia. }
  unfold ndig. apply nbdig_unique; try lia.
  replace k with ((k - 1) + 1) in Hhi by lia. replace (k - 1) with ((k - 1 - 1) + 1) in Hlo by lia.
  rewrite pow_succ_b in Hlo, Hhi by lia. split.
  - apply Z.div_le_lower_bound; lia.
  - apply Z.div_lt_upper_bound; lia.
Qed.

Lemma strip0_spec : forall fuel m e, 0 < m ->
  let '(m', e') := strip0 fuel m e in
  0 < m' /\ e <= e' /\ m = m' * 10 ^ (e' - e) /\ (ndig m <= Z.of_nat fuel -> m' mod 10 <> 0).
Proof.
  induction fuel as [|f IH]; intros m e Hm.
  - cbn [strip0]. replace (e - e) with 0 by lia. rewrite Z.pow_0_r. repeat split; try lia.
    intros H. pose proof (ndig_spec m Hm). change (Z.of_nat 0) with 0 in H. lia.
  - cbn [strip0]. destruct (Z.ltb_spec 0 m); [|lia]. cbn [andb].
    destruct (Z.eqb_spec (m mod 10) 0) as [Hz|Hnz].
    + assert (10 <= m) by (pose proof (Z.div_mod m 10 ltac:(lia)); lia).
      specialize (IH (m / 10) (e + 1) ltac:(apply Z.div_str_pos; lia)).
      destruct (strip0 f (m / 10) (e + 1)) as [m' e']. destruct IH as (H1 & H2 & H3 & H4).
      split; [assumption|]. split; [lia|]. split.
      * replace (e' - e) with ((e' - (e + 1)) + 1) by lia. rewrite pow_succ_b by lia.
        pose proof (Z.div_mod m 10 ltac:(lia)). nia.
      * intros Hfuel. apply H4. rewrite ndig_div10 by assumption. lia.
    + replace (e - e) with 0 by lia. rewrite Z.pow_0_r. repeat split; try lia.
Qed.

Lemma repr_str_positional sep m1 e1 : 0 < m1 ->
  let m := fst (strip0 (Z.to_nat (ndig m1)) m1 e1) in
  let e := snd (strip0 (Z.to_nat (ndig m1)) m1 e1) in
  positional sep m e = true ->
  let M := if 0 <=? e then m * 10 ^ (e + 1) else m in
  let P := if 0 <=? e then 1 else - e in
  0 < M /\ 0 < P /\ filter is_dd (repr_str sep m1 e1) = plain_digits M P /\ existsb is_sg (repr_str sep m1 e1) = false /\
  m1 = m * 10 ^ (e - e1) /\ e1 <= e /\ (e < 0 -> m mod 10 <> 0).
Proof.
  intros Hm1. cbv zeta. unfold repr_str, positional.
  pose proof (strip0_spec (Z.to_nat (ndig m1)) m1 e1 Hm1) as Hs.
  destruct (strip0 (Z.to_nat (ndig m1)) m1 e1) as [m e]. cbn [fst snd].
  destruct Hs as (Hm & He & Hval & Hstrip). intros Hpos. rewrite Hpos.
  assert (Hnz : m mod 10 <> 0).
  { apply Hstrip. pose proof (ndig_spec m1 Hm1). lia. }
  destruct (Z.leb_spec 0 e).
  - assert (0 < 10 ^ e) by (apply pow_pos_b; lia). assert (0 < 10 ^ (e + 1)) by (apply pow_pos_b; lia).
    split; [nia|]. split; [lia|]. split; [|split; [|split; [assumption|split; [assumption|lia]]]].
    + rewrite filter_app. destruct (grouped_dd sep (zstr (m * 10 ^ e)) (zstr_digits _)) as [Gd Gs]. rewrite Gd.
      unfold plain_digits. change (0 <? 1) with true. cbv iota. rewrite Z.pow_1_r.
      replace (m * 10 ^ (e + 1) / 10) with (m * 10 ^ e) by (rewrite pow_succ_b by lia; replace (m * (10 * 10 ^ e)) with (m * 10 ^ e * 10) by ring; rewrite Z.div_mul; lia).
      f_equal. change (Z.to_nat 1) with 1%nat. unfold digs. cbn [bdigs app].
      replace ((m * 10 ^ (e + 1)) mod 10) with 0
        by (rewrite pow_succ_b by lia; replace (m * (10 * 10 ^ e)) with (m * 10 ^ e * 10) by ring; rewrite Z.mod_mul; lia).
      reflexivity.
    + rewrite existsb_app. destruct (grouped_dd sep (zstr (m * 10 ^ e)) (zstr_digits _)) as [Gd Gs]. rewrite Gs. reflexivity.
  - split; [lia|]. split; [lia|]. split; [apply fixed_str_dd|]. split; [apply fixed_str_nosign|].
    split; [assumption|]. split; [assumption|]. intros _. assumption.
Qed.

(* the auto path of _format_decimal for a non-integer value, positional notation *)
Lemma auto_fraction_lemma is_int d places sep ns pct : AUTO <= places -> 0 < dmant d ->
  let vn := fst (value_rat is_int (dmant d) (dexp d)) in
  let vd := snd (value_rat is_int (dmant d) (dexp d)) in
  let m1 := fst (round_sig SIG (dmant d) (dexp d)) in
  let e1 := snd (round_sig SIG (dmant d) (dexp d)) in
  let m := fst (strip0 (Z.to_nat (ndig m1)) m1 e1) in
  let e := snd (strip0 (Z.to_nat (ndig m1)) m1 e1) in
  vn mod vd <> 0 -> positional sep m e = true ->
  let M := if 0 <=? e then m * 10 ^ (e + 1) else m in
  let P := if 0 <=? e then 1 else - e in
  readback_decimal (format_decimal is_int d places sep ns pct) = Some (shown_negative d ns 1, M, P) /\
  m1 = m * 10 ^ (e - e1) /\ e1 <= e /\ (e < 0 -> m mod 10 <> 0).
Proof.
  intros Hp Hm. cbv zeta. unfold format_decimal.
  destruct (value_rat is_int (dmant d) (dexp d)) as [vn vd]. cbn [fst snd].
  pose proof (round_sig_pos SIG (dmant d) (dexp d) eq_refl Hm) as Hm1.
  destruct (round_sig SIG (dmant d) (dexp d)) as [m1 e1]. cbn [fst snd] in *.
  intros Hni Hpos.
  destruct (Z.eqb_spec (vn mod vd) 0) as [E|_]; [contradiction|]. cbn [andb].
  replace (AUTO <=? places) with true by (symmetry; apply Z.leb_le; lia).
  pose proof (repr_str_positional sep m1 e1 Hm1) as Hr. cbv zeta in Hr. specialize (Hr Hpos).
  set (m := fst (strip0 (Z.to_nat (ndig m1)) m1 e1)) in *. set (e := snd (strip0 (Z.to_nat (ndig m1)) m1 e1)) in *.
  set (M := if 0 <=? e then m * 10 ^ (e + 1) else m) in *. set (P := if 0 <=? e then 1 else - e) in *.
  destruct Hr as (HM & HP & Hdd & Hsg & Hv1 & Hv2 & Hv3).
  split; [|split; [assumption|split; assumption]].
  set (R := repr_str sep m1 e1) in *.
  assert (Hgen : forall pre post : list N,
     Forall (fun c => is_dd c = false) pre -> Forall (fun c => is_dd c = false) post ->
     readback_decimal (pre ++ R ++ post) = Some (existsb is_sg pre || existsb is_sg post, M, P)).
  { intros pre post H1 H2. apply readback_of_plain; try lia.
    - rewrite filter_wrap by assumption. exact Hdd.
    - rewrite existsb_wrap, Hsg, orb_false_r. reflexivity. }
  assert (Hisneg : is_neg d = dneg d).
  { unfold is_neg. replace (0 <? dmant d) with true by (symmetry; apply Z.ltb_lt; lia). apply andb_true_r. }
  unfold shown_negative. rewrite Hisneg. change (0 <? 1) with true.
  destruct (dneg d) eqn:Hd; cbn [andb].
  - destruct (Z.leb_spec 2 ns).
    + replace (1 <=? ns) with true by (symmetry; apply Z.leb_le; lia). cbn [app].
      destruct pct.
      * specialize (Hgen [c_lpar] [c_pct; c_rpar] ltac:(repeat constructor) ltac:(repeat constructor)).
        cbn [app] in *. rewrite <- app_assoc. cbn [app]. exact Hgen.
      * specialize (Hgen [c_lpar] [c_rpar] ltac:(repeat constructor) ltac:(repeat constructor)). exact Hgen.
    + destruct (Z.leb_spec 1 ns); cbn [app].
      * destruct pct.
        -- specialize (Hgen [] [c_pct] ltac:(repeat constructor) ltac:(repeat constructor)). exact Hgen.
        -- specialize (Hgen [] [] ltac:(repeat constructor) ltac:(repeat constructor)). rewrite app_nil_r in Hgen. exact Hgen.
      * destruct pct.
        -- specialize (Hgen [c_min] [c_pct] ltac:(repeat constructor) ltac:(repeat constructor)).
           cbn [app] in *. exact Hgen.
        -- specialize (Hgen [c_min] [] ltac:(repeat constructor) ltac:(repeat constructor)). rewrite app_nil_r in Hgen. exact Hgen.
  - cbn [app]. destruct pct.
    + specialize (Hgen [] [c_pct] ltac:(repeat constructor) ltac:(repeat constructor)). exact Hgen.
    + specialize (Hgen [] [] ltac:(repeat constructor) ltac:(repeat constructor)). rewrite app_nil_r in Hgen. exact Hgen.
Qed.

(* ---------- _expand_quotes ---------- *)
(* only quote characters are ever removed: every other character, in particular every digit of the
   formatted number, is kept in order *)
Lemma expand_quotes_keeps : forall n s b, (length s <= n)%nat ->
  filter (fun c => negb (c =? 39)%N) (expand_quotes s b) = filter (fun c => negb (c =? 39)%N) s.
Proof.
  induction n as [|n IH]; intros s b Hl.
  - destruct s; [reflexivity|cbn in Hl; lia].
  - destruct s as [|c r]; [reflexivity|]. cbn [expand_quotes]. cbn [length] in Hl.
    destruct (N.eqb_spec c 39) as [->|Hc].
    + destruct r as [|c2 r2]; [reflexivity|]. cbn [length] in Hl.
      destruct (N.eqb_spec c2 39) as [->|Hc2].
      * cbn [filter]. change (negb (39 =? 39)%N) with false. cbv iota. apply IH. lia.
      * cbn [filter]. change (negb (39 =? 39)%N) with false. cbv iota.
        rewrite IH by (cbn [length]; lia). reflexivity.
    + cbn [filter]. replace (c =? 39)%N with false by (symmetry; apply N.eqb_neq; assumption). cbn [negb].
      f_equal. apply IH. lia.
Qed.

Lemma expand_quotes_digits s b : filter is_dd (expand_quotes s b) = filter is_dd s.
Proof.
  assert (H : forall l, filter is_dd l = filter is_dd (filter (fun c => negb (c =? 39)%N) l)).
  { induction l as [|x l IH]; [reflexivity|]. cbn [filter].
    destruct (N.eqb_spec x 39) as [->|]; cbn [negb filter]; [exact IH|]. rewrite IH. reflexivity. }
  rewrite (H (expand_quotes s b)), (H s). f_equal. apply (expand_quotes_keeps (length s)). lia.
Qed.

Lemma expand_quotes_id s b : Forall (fun c => (c =? 39)%N = false) s -> expand_quotes s b = s.
Proof.
  intros H. revert b. induction H as [|c r Hc _ IH]; intros b; [reflexivity|].
  cbn [expand_quotes]. rewrite Hc. f_equal. apply IH.
Qed.
