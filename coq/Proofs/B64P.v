(* B64P: the binary64 rounding of Model/Digits.v - range, relative error 2^-53, exactness on integers
   below 2^53. *)
From Coq Require Import ZArith NArith List Bool Lia.
From NP Require Import Model.PyBase Model.Digits Proofs.DigitsP.
Import ListNotations.
Open Scope Z_scope.
Ltac Zify.zify_post_hook ::= Z.to_euclidean_division_equations.

(* n/(d*2^e) written with non-negative powers only *)
Definition scA (n e : Z) : Z := if 0 <=? e then n else n * 2 ^ (- e).
Definition scB (d e : Z) : Z := if 0 <=? e then d * 2 ^ e else d.

Lemma scA_pos n e : 0 < n -> 0 < scA n e.
Proof. intros. unfold scA. destruct (Z.leb_spec 0 e); [assumption|]. apply Z.mul_pos_pos; [assumption|apply pow_pos_b; lia]. Qed.
Lemma scB_pos d e : 0 < d -> 0 < scB d e.
Proof. intros. unfold scB. destruct (Z.leb_spec 0 e); [|assumption]. apply Z.mul_pos_pos; [assumption|apply pow_pos_b; lia]. Qed.

(* one more binary place halves the scaled value *)
Lemma sc_succ n d e : 2 * scA n (e + 1) * scB d e = scA n e * scB d (e + 1).
Proof.
  unfold scA, scB. destruct (Z.leb_spec 0 e); destruct (Z.leb_spec 0 (e + 1)); try lia.
  - rewrite pow_succ_b by lia. ring.
  - assert (e = -1) by lia. subst e. change (2 ^ (- (-1))) with 2. change (2 ^ (-1 + 1)) with 1. ring.
  - replace (- e) with (- (e + 1) + 1) by lia. rewrite pow_succ_b by lia. ring.
Qed.

Lemma quot_bounds A B lo hi : 0 < B -> lo * B <= A < hi * B -> lo <= A / B < hi.
Proof.
  intros HB [H1 H2]. split.
  - apply Z.div_le_lower_bound; lia.
  - apply Z.div_lt_upper_bound; lia.
Qed.

Lemma quot_ge A B lo : 0 < B -> (lo <= A / B <-> lo * B <= A).
Proof.
  intros HB. split; intros H.
  - pose proof (Z.mul_div_le A B HB). nia.
  - apply Z.div_le_lower_bound; lia.
Qed.

(* first exponent guess: the scaled value lies in [2^52, 2^54) *)
Lemma guess_bounds n d : 0 < n -> 0 < d ->
  let e0 := Z.log2 n - Z.log2 d - 53 in
  2 ^ 52 * scB d e0 <= scA n e0 < 2 ^ 54 * scB d e0.
Proof.
  intros Hn Hd e0.
  pose proof (Z.log2_spec n Hn) as [Hn1 Hn2]. pose proof (Z.log2_spec d Hd) as [Hd1 Hd2].
  pose proof (Z.log2_nonneg n) as Ln. pose proof (Z.log2_nonneg d) as Ld.
  set (ln := Z.log2 n) in *. set (ld := Z.log2 d) in *.
  rewrite <- Z.add_1_r in Hn2, Hd2. rewrite pow_succ_b in Hn2, Hd2 by lia.
  assert (Ha : 0 < 2 ^ ld) by (apply pow_pos_b; lia).
  unfold scA, scB. destruct (Z.leb_spec 0 e0).
  - assert (E : 2 ^ ln = 2 ^ 53 * (2 ^ ld * 2 ^ e0)).
    { rewrite <- !Z.pow_add_r by lia. f_equal. unfold e0. lia. }
    assert (0 < 2 ^ e0) by (apply pow_pos_b; lia).
    change (2 ^ 54) with (2 * 2 ^ 53). change (2 ^ 53) with (2 * 2 ^ 52) in *.
    set (p52 := 2 ^ 52) in *. assert (0 < p52) by (unfold p52; lia).
    set (a := 2 ^ ld) in *. set (E0 := 2 ^ e0) in *. set (L := 2 ^ ln) in *. nia.
  - assert (E : 2 ^ ln * 2 ^ (- e0) = 2 ^ 53 * 2 ^ ld).
    { rewrite <- !Z.pow_add_r by lia. f_equal. unfold e0. lia. }
    assert (0 < 2 ^ (- e0)) by (apply pow_pos_b; lia).
    change (2 ^ 54) with (2 * 2 ^ 53). change (2 ^ 53) with (2 * 2 ^ 52) in *.
    set (p52 := 2 ^ 52) in *. assert (0 < p52) by (unfold p52; lia).
    set (a := 2 ^ ld) in *. set (E0 := 2 ^ (- e0)) in *. set (L := 2 ^ ln) in *. nia.
Qed.

Lemma b64_unfold n d :
  b64_of_rat n d =
  let e0 := Z.log2 n - Z.log2 d - 53 in
  let q0 := scA n e0 / scB d e0 in
  let e := if 2 ^ 53 <=? q0 then e0 + 1 else e0 in
  let m := rne_div (scA n e) (scB d e) in
  if m =? 2 ^ 53 then (2 ^ 52, e + 1) else (m, e).
Proof.
  unfold b64_of_rat, scA, scB. cbv zeta.
  set (e0 := Z.log2 n - Z.log2 d - 53).
  assert (Hq : (if 0 <=? e0 then n / (d * 2 ^ e0) else n * 2 ^ (- e0) / d)
               = (if 0 <=? e0 then n else n * 2 ^ (- e0)) / (if 0 <=? e0 then d * 2 ^ e0 else d))
    by (destruct (0 <=? e0); reflexivity).
  rewrite Hq.
  set (e := if 2 ^ 53 <=? _ then e0 + 1 else e0).
  assert (Hm : (if 0 <=? e then rne_div n (d * 2 ^ e) else rne_div (n * 2 ^ (- e)) d)
               = rne_div (if 0 <=? e then n else n * 2 ^ (- e)) (if 0 <=? e then d * 2 ^ e else d))
    by (destruct (0 <=? e); reflexivity).
  rewrite Hm. reflexivity.
Qed.

(* the result (m, e): 2^52 <= m < 2^53 and m is within half a unit of the scaled value *)
Lemma b64_of_rat_spec n d : 0 < n -> 0 < d ->
  let '(m, e) := b64_of_rat n d in
  2 ^ 52 <= m < 2 ^ 53 /\ 2 * Z.abs (m * scB d e - scA n e) <= scB d e.
Proof.
  intros Hn Hd. rewrite b64_unfold. cbv zeta.
  pose proof (guess_bounds n d Hn Hd) as Hg. cbv zeta in Hg.
  set (e0 := Z.log2 n - Z.log2 d - 53) in *.
  set (q0 := scA n e0 / scB d e0).
  pose proof (scB_pos d e0 Hd) as HB0. pose proof (scA_pos n e0 Hn) as HA0.
  assert (Hrange : let e := if 2 ^ 53 <=? q0 then e0 + 1 else e0 in
                   2 ^ 52 * scB d e <= scA n e < 2 ^ 53 * scB d e).
  { cbv zeta. destruct (Z.leb_spec (2 ^ 53) q0) as [Hq|Hq].
    - apply quot_ge in Hq; [|assumption].
      pose proof (sc_succ n d e0) as Hs.
      pose proof (scB_pos d (e0 + 1) Hd). pose proof (scA_pos n (e0 + 1) Hn).
      change (2 ^ 54) with (2 * 2 ^ 53) in Hg. change (2 ^ 53) with (2 * 2 ^ 52) in *.
      set (p52 := 2 ^ 52) in *. assert (0 < p52) by (unfold p52; lia).
      set (A0 := scA n e0) in *. set (B0 := scB d e0) in *.
      set (A1 := scA n (e0 + 1)) in *. set (B1 := scB d (e0 + 1)) in *.
      split; nia.
    - split; [lia|]. unfold q0 in Hq.
      destruct (Z_lt_le_dec (scA n e0) (2 ^ 53 * scB d e0)) as [|Hge]; [assumption|].
      apply quot_ge in Hge; [lia|assumption]. }
  cbv zeta in Hrange. set (e := if 2 ^ 53 <=? q0 then e0 + 1 else e0) in *.
  pose proof (scB_pos d e Hd) as HB. pose proof (scA_pos n e Hn) as HA.
  pose proof (rne_div_spec (scA n e) (scB d e) ltac:(lia) HB) as [Hm0 Hm]. cbv zeta in Hm.
  set (m := rne_div (scA n e) (scB d e)) in *.
  set (A := scA n e) in *. set (B := scB d e) in *.
  assert (Hm52 : 2 ^ 52 <= m <= 2 ^ 53).
  { change (2 ^ 53) with (2 * 2 ^ 52) in *. set (p52 := 2 ^ 52) in *. assert (0 < p52) by (unfold p52; lia). split; nia. }
  destruct (Z.eqb_spec m (2 ^ 53)) as [E|E].
  - split; [lia|].
    pose proof (sc_succ n d e) as Hs. fold A B in Hs.
    pose proof (scB_pos d (e + 1) Hd). pose proof (scA_pos n (e + 1) Hn).
    set (A1 := scA n (e + 1)) in *. set (B1 := scB d (e + 1)) in *.
    rewrite E in Hm. change (2 ^ 53) with (2 * 2 ^ 52) in *. set (p52 := 2 ^ 52) in *.
    assert (0 < p52) by (unfold p52; lia).
    assert (Hk : 2 * B * (p52 * B1 - A1) = (2 * p52 * B - A) * B1) by lia.
    set (X := p52 * B1 - A1) in *. set (dl := 2 * p52 * B - A) in *.
    assert (0 <= 2 * dl <= B) by lia.
    assert (0 <= X) by nia. assert (4 * B * X <= B * B1) by nia.
    rewrite Z.abs_eq by assumption. nia.
  - split; [lia|]. apply Z.abs_case_strong; intros; lia.
Qed.

(* as an exact rational: positive, and within 2^-53 (relative) of n/d *)
Lemma b64_rat_spec n d : 0 < n -> 0 < d ->
  let '(vn, vd) := rat_of_b64 (b64_of_rat n d) in
  0 < vn /\ 0 < vd /\ 2 ^ 53 * Z.abs (vn * d - n * vd) <= vn * d.
Proof.
  intros Hn Hd. pose proof (b64_of_rat_spec n d Hn Hd) as H.
  destruct (b64_of_rat n d) as [m e]. destruct H as [[Hm1 Hm2] Herr].
  unfold rat_of_b64, scA, scB in *. destruct (Z.leb_spec 0 e).
  - assert (0 < 2 ^ e) by (apply pow_pos_b; lia). set (E := 2 ^ e) in *.
    split; [nia|]. split; [lia|].
    replace (m * E * d - n * 1) with (m * (d * E) - n) by ring.
    change (2 ^ 53) with (2 * 2 ^ 52). set (p52 := 2 ^ 52) in *. assert (0 < p52) by (unfold p52; lia).
    set (X := Z.abs (m * (d * E) - n)) in *. nia.
  - assert (0 < 2 ^ (- e)) by (apply pow_pos_b; lia). set (E := 2 ^ (- e)) in *.
    split; [lia|]. split; [lia|].
    change (2 ^ 53) with (2 * 2 ^ 52). set (p52 := 2 ^ 52) in *. assert (0 < p52) by (unfold p52; lia).
    set (X := Z.abs (m * d - n * E)) in *. nia.
Qed.

(* integers below 2^53 are exact *)
Lemma b64_int_exact n : 0 < n < 2 ^ 53 ->
  let '(vn, vd) := rat_of_b64 (b64_of_rat n 1) in 0 < vd /\ vn = n * vd.
Proof.
  intros [Hn Hlt].
  pose proof (b64_of_rat_spec n 1 Hn ltac:(lia)) as H.
  destruct (b64_of_rat n 1) as [m e]. destruct H as [[Hm1 Hm2] Herr].
  unfold rat_of_b64, scA, scB in *. destruct (Z.leb_spec 0 e).
  - assert (0 < 2 ^ e) by (apply pow_pos_b; lia).
    (* m*2^e within half a unit in the last place of an integer below 2^53: only e = 0 is possible *)
    assert (e = 0).
    { destruct (Z.eq_dec e 0); [assumption|exfalso].
      assert (2 <= 2 ^ e) by (change 2 with (2 ^ 1) at 1; apply Z.pow_le_mono_r; lia).
      set (E := 2 ^ e) in *. change (2 ^ 53) with (2 * 2 ^ 52) in *. set (p52 := 2 ^ 52) in *.
      assert (0 < p52) by (unfold p52; lia).
      revert Herr. apply Z.abs_case_strong; intros; nia. }
    subst e. cbn in *. split; [lia|]. revert Herr. apply Z.abs_case_strong; intros; lia.
  - assert (0 < 2 ^ (- e)) by (apply pow_pos_b; lia). split; [assumption|].
    revert Herr. apply Z.abs_case_strong; intros; lia.
Qed.
