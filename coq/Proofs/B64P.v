(* B64P: rounding of a positive rational to P digits in a base (Digits.round_float): range of the
   mantissa, half-unit error; the binary64 instance: relative error 2^-53, exactness on integers
   below 2^53; sign/positivity facts about NumFormat.value_rat. *)
From Coq Require Import ZArith NArith List Bool Lia.
From NP Require Import Model.PyBase Model.Digits Model.C13Tables Model.NumFormat Proofs.DigitsP.
Import ListNotations.
Open Scope Z_scope.
Ltac Zify.zify_post_hook ::= Z.to_euclidean_division_equations.

Lemma scA_pos b n e : 0 < b -> 0 < n -> 0 < scA b n e.
Proof. intros. unfold scA. destruct (Z.leb_spec 0 e); [assumption|]. apply Z.mul_pos_pos; [assumption|apply pow_pos_b; lia]. Qed.
Lemma scB_pos b d e : 0 < b -> 0 < d -> 0 < scB b d e.
Proof. intros. unfold scB. destruct (Z.leb_spec 0 e); [|assumption]. apply Z.mul_pos_pos; [assumption|apply pow_pos_b; lia]. Qed.

(* one more place divides the scaled value by the base *)
Lemma sc_succ b n d e : b * scA b n (e + 1) * scB b d e = scA b n e * scB b d (e + 1).
Proof.
  unfold scA, scB. destruct (Z.leb_spec 0 e); destruct (Z.leb_spec 0 (e + 1)); try lia.
  - rewrite pow_succ_b by lia. ring.
  - assert (e = -1) by lia. subst e. change (- (-1)) with 1. change (-1 + 1) with 0.
    rewrite Z.pow_1_r, Z.pow_0_r. ring.
  - replace (- e) with (- (e + 1) + 1) by lia. rewrite pow_succ_b by lia. ring.
Qed.

Lemma quot_ge A B lo : 0 < B -> (lo <= A / B <-> lo * B <= A).
Proof.
  intros HB. split; intros H.
  - pose proof (Z.mul_div_le A B HB). nia.
  - apply Z.div_le_lower_bound; lia.
Qed.

Lemma mul_cancel_le k x y : 0 < k -> k * x <= k * y -> x <= y.
Proof. intros. nia. Qed.
Lemma mul_cancel_lt k x y : 0 < k -> k * x < k * y -> x < y.
Proof. intros. nia. Qed.

(* exponent guess from the digit counts: the scaled value lies in [b^(P-1), b^(P+1)) *)
Lemma guess_bounds b P n d : 2 <= b -> 1 <= P -> 0 < n -> 0 < d ->
  let e0 := nbdig b n - nbdig b d - P in
  b ^ (P - 1) * scB b d e0 <= scA b n e0 < b * (b * b ^ (P - 1)) * scB b d e0.
Proof.
  intros Hb HP Hn Hd e0.
  pose proof (nbdig_spec b n Hb Hn) as [Ha [Hn1 Hn2]]. pose proof (nbdig_spec b d Hb Hd) as [Hc [Hd1 Hd2]].
  set (a := nbdig b n) in *. set (c := nbdig b d) in *.
  assert (Hp1 : 0 < b ^ (P - 1)) by (apply pow_pos_b; lia).
  assert (Hc1 : 0 < b ^ (c - 1)) by (apply pow_pos_b; lia).
  assert (Hbc : b ^ c = b * b ^ (c - 1)) by (replace c with ((c - 1) + 1) at 1 by lia; apply pow_succ_b; lia).
  assert (Hba : b ^ a = b * b ^ (a - 1)) by (replace a with ((a - 1) + 1) at 1 by lia; apply pow_succ_b; lia).
  unfold scA, scB. destruct (Z.leb_spec 0 e0).
  - assert (0 < b ^ e0) by (apply pow_pos_b; lia).
    assert (E : b ^ (a - 1) = b ^ (P - 1) * (b * b ^ (c - 1) * b ^ e0)).
    { rewrite <- Hbc. rewrite <- !Z.pow_add_r by lia. f_equal. unfold e0. lia. }
    set (p := b ^ (P - 1)) in *. set (C := b ^ (c - 1)) in *. set (E0 := b ^ e0) in *. set (L := b ^ (a - 1)) in *.
    rewrite Hba in Hn2. rewrite Hbc in Hd2.
    split.
    + assert (p * (d * E0) < p * (b * C * E0)) by (apply Z.mul_lt_mono_pos_l; [assumption|nia]). lia.
    + assert (n < b * (p * (b * C * E0))) by lia.
      assert (b * (p * (b * C * E0)) <= b * (b * p) * (d * E0)).
      { replace (b * (p * (b * C * E0))) with (b * (b * p) * (C * E0)) by ring.
        apply Z.mul_le_mono_nonneg_l; [nia|]. apply Z.mul_le_mono_nonneg_r; lia. }
      lia.
  - assert (0 < b ^ (- e0)) by (apply pow_pos_b; lia).
    assert (E : b ^ (a - 1) * b ^ (- e0) = b ^ (P - 1) * (b * b ^ (c - 1))).
    { rewrite <- Hbc. rewrite <- !Z.pow_add_r by lia. f_equal. unfold e0. lia. }
    set (p := b ^ (P - 1)) in *. set (C := b ^ (c - 1)) in *. set (E0 := b ^ (- e0)) in *. set (L := b ^ (a - 1)) in *.
    rewrite Hba in Hn2. rewrite Hbc in Hd2.
    split.
    + assert (p * d < p * (b * C)) by (apply Z.mul_lt_mono_pos_l; assumption).
      assert (L * E0 <= n * E0) by (apply Z.mul_le_mono_nonneg_r; lia). lia.
    + assert (n * E0 < b * L * E0) by (apply Z.mul_lt_mono_pos_r; assumption).
      assert (b * L * E0 = b * (b * p) * C) by (replace (b * L * E0) with (b * (L * E0)) by ring; rewrite E; ring).
      assert (b * (b * p) * C <= b * (b * p) * d) by (apply Z.mul_le_mono_nonneg_l; [nia|lia]).
      lia.
Qed.

(* the exponent chosen before rounding *)
Definition rf_exp (b P n d : Z) : Z :=
  let e0 := nbdig b n - nbdig b d - P in
  if b ^ P <=? scA b n e0 / scB b d e0 then e0 + 1 else e0.

Lemma round_float_eq b P n d :
  round_float b P n d =
  let e := rf_exp b P n d in
  let m := rne_div (scA b n e) (scB b d e) in
  if m =? b ^ P then (b ^ (P - 1), e + 1) else (m, e).
Proof. reflexivity. Qed.

(* at the chosen exponent the scaled value has exactly P digits *)
Lemma rf_exp_range b P n d : 2 <= b -> 1 <= P -> 0 < n -> 0 < d ->
  let e := rf_exp b P n d in
  b ^ (P - 1) * scB b d e <= scA b n e < b ^ P * scB b d e.
Proof.
  intros Hb HP Hn Hd. unfold rf_exp.
  pose proof (guess_bounds b P n d Hb HP Hn Hd) as Hg. cbv zeta in Hg.
  assert (HbP : b ^ P = b * b ^ (P - 1)) by (replace P with ((P - 1) + 1) at 1 by lia; apply pow_succ_b; lia).
  rewrite HbP.
  assert (Hp : 0 < b ^ (P - 1)) by (apply pow_pos_b; lia).
  set (p := b ^ (P - 1)) in *.
  set (e0 := nbdig b n - nbdig b d - P) in *.
  assert (Hb0 : 0 < b) by lia.
  pose proof (scB_pos b d e0 Hb0 Hd) as HB0. pose proof (scA_pos b n e0 Hb0 Hn) as HA0.
  cbv zeta. destruct (Z.leb_spec (b * p) (scA b n e0 / scB b d e0)) as [Hq|Hq].
  - apply (proj1 (quot_ge _ _ (b * p) HB0)) in Hq.
    pose proof (sc_succ b n d e0) as Hs.
    pose proof (scB_pos b d (e0 + 1) Hb0 Hd). pose proof (scA_pos b n (e0 + 1) Hb0 Hn).
    set (A0 := scA b n e0) in *. set (B0 := scB b d e0) in *.
    set (A1 := scA b n (e0 + 1)) in *. set (B1 := scB b d (e0 + 1)) in *.
    assert (0 < b * B0) by nia.
    split.
    + apply (mul_cancel_le (b * B0)); [assumption|].
      replace (b * B0 * A1) with (A0 * B1) by lia.
      replace (b * B0 * (p * B1)) with (b * p * B0 * B1) by ring.
      apply Z.mul_le_mono_nonneg_r; lia.
    + apply (mul_cancel_lt (b * B0)); [assumption|].
      replace (b * B0 * A1) with (A0 * B1) by lia.
      replace (b * B0 * (b * p * B1)) with (b * (b * p) * B0 * B1) by ring.
      apply Z.mul_lt_mono_pos_r; lia.
  - split; [lia|].
    destruct (Z_lt_le_dec (scA b n e0) (b * p * scB b d e0)) as [|Hge]; [assumption|].
    apply (proj2 (quot_ge _ _ (b * p) HB0)) in Hge. lia.
Qed.

(* the result (m, e): b^(P-1) <= m < b^P and m is within half a unit of the scaled value *)
Lemma round_float_spec b P n d : 2 <= b -> 1 <= P -> 0 < n -> 0 < d ->
  let '(m, e) := round_float b P n d in
  b ^ (P - 1) <= m < b ^ P /\ 2 * Z.abs (m * scB b d e - scA b n e) <= scB b d e.
Proof.
  intros Hb HP Hn Hd. rewrite round_float_eq.
  pose proof (rf_exp_range b P n d Hb HP Hn Hd) as Hrange. cbv zeta in *.
  assert (HbP : b ^ P = b * b ^ (P - 1)) by (replace P with ((P - 1) + 1) at 1 by lia; apply pow_succ_b; lia).
  rewrite HbP in *.
  assert (Hp : 0 < b ^ (P - 1)) by (apply pow_pos_b; lia).
  set (p := b ^ (P - 1)) in *. set (e := rf_exp b P n d) in *.
  assert (Hb0 : 0 < b) by lia.
  pose proof (scB_pos b d e Hb0 Hd) as HB. pose proof (scA_pos b n e Hb0 Hn) as HA.
  pose proof (rne_div_spec (scA b n e) (scB b d e) ltac:(lia) HB) as [Hm0 Hm]. cbv zeta in Hm.
  set (m := rne_div (scA b n e) (scB b d e)) in *.
  set (A := scA b n e) in *. set (B := scB b d e) in *.
  assert (Hm52 : p <= m <= b * p).
  { split.
    - assert (2 * (p * B) - B <= 2 * (m * B)) by lia. nia.
    - assert (2 * (m * B) < 2 * (b * p * B) + B) by lia. nia. }
  destruct (Z.eqb_spec m (b * p)) as [E|E].
  - split; [nia|].
    pose proof (sc_succ b n d e) as Hs. fold A B in Hs.
    pose proof (scB_pos b d (e + 1) Hb0 Hd). pose proof (scA_pos b n (e + 1) Hb0 Hn).
    set (A1 := scA b n (e + 1)) in *. set (B1 := scB b d (e + 1)) in *.
    rewrite E in Hm.
    assert (Hk : b * B * (p * B1 - A1) = (b * p * B - A) * B1) by lia.
    set (X := p * B1 - A1) in *. set (dl := b * p * B - A) in *.
    assert (Hdl : 0 <= 2 * dl <= B) by lia.
    assert (0 < b * B) by nia.
    assert (HX : 0 <= X).
    { apply (mul_cancel_le (b * B)); [assumption|]. rewrite Z.mul_0_r, Hk. apply Z.mul_nonneg_nonneg; lia. }
    rewrite Z.abs_eq by assumption.
    assert (2 * (b * B * X) <= B * B1).
    { rewrite Hk. replace (2 * (dl * B1)) with (2 * dl * B1) by ring. apply Z.mul_le_mono_nonneg_r; lia. }
    assert (2 * (B * X) <= 2 * (b * B * X)).
    { replace (2 * (b * B * X)) with (b * (2 * (B * X))) by ring. assert (0 <= 2 * (B * X)) by nia. nia. }
    apply (mul_cancel_le B); [assumption|]. lia.
  - split; [lia|]. fold A B. lia.
Qed.

(* integers with at most P digits are exact *)
Lemma round_float_exact_int b P n : 2 <= b -> 1 <= P -> 0 < n < b ^ P ->
  let '(m, e) := round_float b P n 1 in e <= 0 /\ m = n * b ^ (- e).
Proof.
  intros Hb HP [Hn Hlt]. rewrite round_float_eq.
  pose proof (rf_exp_range b P n 1 Hb HP Hn ltac:(lia)) as Hrange. cbv zeta in *.
  assert (HbP : b ^ P = b * b ^ (P - 1)) by (replace P with ((P - 1) + 1) at 1 by lia; apply pow_succ_b; lia).
  assert (Hp : 0 < b ^ (P - 1)) by (apply pow_pos_b; lia).
  set (e := rf_exp b P n 1) in *.
  assert (He : e <= 0).
  { destruct (Z_le_gt_dec e 0) as [|Hgt]; [assumption|exfalso].
    unfold scA, scB in Hrange. destruct (Z.leb_spec 0 e); [|lia].
    assert (b ^ 1 <= b ^ e) by (apply Z.pow_le_mono_r; lia). rewrite Z.pow_1_r in *.
    rewrite HbP in Hlt. set (p := b ^ (P - 1)) in *. set (E := b ^ e) in *. nia. }
  assert (HB : scB b 1 e = 1).
  { unfold scB. destruct (Z.leb_spec 0 e); [|reflexivity]. assert (e = 0) by lia. subst e. replace (rf_exp b P n 1) with 0 by lia. reflexivity. }
  assert (HA : scA b n e = n * b ^ (- e)).
  { unfold scA. destruct (Z.leb_spec 0 e); [|reflexivity]. assert (E0 : e = 0) by lia. rewrite E0. cbn. lia. }
  rewrite HB in *. rewrite rne_div_exact by (try apply Z.mod_1_r; lia). rewrite Z.div_1_r.
  destruct (Z.eqb_spec (scA b n e) (b ^ P)); [lia|]. split; assumption.
Qed.

(* ---------- binary64 ---------- *)
Lemma b64_of_rat_spec n d : 0 < n -> 0 < d ->
  let '(m, e) := b64_of_rat n d in
  2 ^ 52 <= m < 2 ^ 53 /\ 2 * Z.abs (m * scB 2 d e - scA 2 n e) <= scB 2 d e.
Proof. intros. apply (round_float_spec 2 53 n d); lia. Qed.

(* as an exact rational: positive, and within 2^-53 (relative) of n/d *)
Lemma b64_rat_spec n d : 0 < n -> 0 < d ->
  let '(vn, vd) := rat_of_b64 (b64_of_rat n d) in
  0 < vn /\ 0 < vd /\ 2 ^ 53 * Z.abs (vn * d - n * vd) <= vn * d.
Proof.
  intros Hn Hd. pose proof (b64_of_rat_spec n d Hn Hd) as H.
  destruct (b64_of_rat n d) as [m e]. destruct H as [[Hm1 Hm2] Herr].
  unfold rat_of_b64, scA, scB in *. destruct (Z.leb_spec 0 e).
  - assert (0 < 2 ^ e) by (apply pow_pos_b; lia). set (E := 2 ^ e) in *.
    split; [nia|]. split; [lia|].
    replace (m * E * d - n * 1) with (m * (d * E) - n) by ring.
    change (2 ^ 53) with (2 * 2 ^ 52). set (p52 := 2 ^ 52) in *. assert (0 < p52) by (unfold p52; lia).
    set (X := Z.abs (m * (d * E) - n)) in *.
    assert (p52 * (d * E) <= m * (d * E)) by (apply Z.mul_le_mono_nonneg_r; nia).
    nia.
  - assert (0 < 2 ^ (- e)) by (apply pow_pos_b; lia). set (E := 2 ^ (- e)) in *.
    split; [lia|]. split; [lia|].
    change (2 ^ 53) with (2 * 2 ^ 52). set (p52 := 2 ^ 52) in *. assert (0 < p52) by (unfold p52; lia).
    set (X := Z.abs (m * d - n * E)) in *.
    assert (p52 * d <= m * d) by (apply Z.mul_le_mono_nonneg_r; lia).
    nia.
Qed.

(* integers below 2^53 are exact *)
Lemma b64_int_exact n : 0 < n < 2 ^ 53 ->
  let '(vn, vd) := rat_of_b64 (b64_of_rat n 1) in 0 < vd /\ vn = n * vd.
Proof.
  intros Hn. pose proof (round_float_exact_int 2 53 n ltac:(lia) ltac:(lia) Hn) as H.
  unfold b64_of_rat. destruct (round_float 2 53 n 1) as [m e]. destruct H as [He Hm].
  unfold rat_of_b64. destruct (Z.leb_spec 0 e).
  - assert (e = 0) by lia. subst e. cbn in *. lia.
  - split; [apply pow_pos_b; lia|assumption].
Qed.

(* ---------- the value of a Python number ---------- *)
Lemma value_rat_pos is_int mant ex :
  let '(vn, vd) := value_rat is_int mant ex in 0 <= vn /\ 0 < vd.
Proof.
  unfold value_rat. destruct (Z.leb_spec mant 0); [lia|].
  destruct is_int.
  - split; [|lia]. apply Z.mul_nonneg_nonneg; [lia|apply Z.pow_nonneg; lia].
  - destruct (Z.leb_spec 0 ex).
    + pose proof (b64_rat_spec (mant * 10 ^ ex) 1) as Hs.
      destruct (rat_of_b64 (b64_of_rat (mant * 10 ^ ex) 1)) as [vn vd].
      assert (0 < mant * 10 ^ ex) by (apply Z.mul_pos_pos; [lia|apply pow_pos_b; lia]).
      specialize (Hs ltac:(assumption) ltac:(lia)). lia.
    + pose proof (b64_rat_spec mant (10 ^ (- ex))) as Hs.
      destruct (rat_of_b64 (b64_of_rat mant (10 ^ (- ex)))) as [vn vd].
      assert (0 < 10 ^ (- ex)) by (apply pow_pos_b; lia).
      specialize (Hs ltac:(assumption) ltac:(assumption)). lia.
Qed.

Lemma value_rat_int mant ex : 0 < mant -> value_rat true mant ex = (mant * 10 ^ ex, 1).
Proof. intros. unfold value_rat. destruct (Z.leb_spec mant 0); [lia|reflexivity]. Qed.

Lemma value_rat_zero is_int mant ex : mant <= 0 -> value_rat is_int mant ex = (0, 1).
Proof. intros. unfold value_rat. destruct (Z.leb_spec mant 0); [reflexivity|lia]. Qed.

(* a float whose decimal is an integer below 2^53 has exactly that value *)
Lemma value_rat_float_int mant ex : 0 < mant -> 0 <= ex -> mant * 10 ^ ex < 2 ^ 53 ->
  let '(vn, vd) := value_rat false mant ex in 0 < vd /\ vn = mant * 10 ^ ex * vd.
Proof.
  intros Hm He Hlt. unfold value_rat. destruct (Z.leb_spec mant 0); [lia|].
  destruct (Z.leb_spec 0 ex); [|lia].
  apply b64_int_exact. split; [|assumption]. apply Z.mul_pos_pos; [lia|apply pow_pos_b; lia].
Qed.
