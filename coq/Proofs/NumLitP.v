(* Number literals: what formula.number_to_str does to the repr of a double.
   A decimal text denotes mantissa * 10^exponent; [plain_val] reads a positional
   text (digits with at most one dot), [sci_val] reads d[.ddd] together with the
   exponent of the scientific notation.  The pinned code is faithful for negative
   exponents and for positive exponents only when there is exactly one fraction
   digit (known finding C08 number-literal-positive-exponent); the proposed
   repair is faithful for every exponent repr can produce. *)
From Coq Require Import ZArith NArith List Bool Arith Lia.
From NP Require Import Model.PyBase Model.FormulaStack.
Import ListNotations.
Open Scope N_scope.

Definition digits (s : str) : Prop := forallb is_digit s = true.

Definition dval := (N * Z)%type.                      (* m * 10^x *)
Definition dval_eq (a b : dval) : Prop :=
  let lo := Z.min (snd a) (snd b) in
  (Z.of_N (fst a) * 10 ^ (snd a - lo) = Z.of_N (fst b) * 10 ^ (snd b - lo))%Z.

Definition plain_val (s : str) : dval :=
  (digits_to_N (filter is_digit s), (- Z.of_nat (length (after_dot s)))%Z).
Definition sci_val (number : str) (e : Z) : dval :=
  (digits_to_N (filter is_digit number), (e - Z.of_nat (length (after_dot number)))%Z).

(* d[.ddd]: integer part, optional fraction *)
Definition mantissa_text (ip fp : str) (dotted : bool) : str := ip ++ (if dotted then 46 :: fp else []).

(* ---------- digit strings ---------- *)
Definition dstep (a c : N) : N := a * 10 + (c - 48).
Lemma digits_to_N_fold s : digits_to_N s = fold_left dstep s 0.
Proof. reflexivity. Qed.

Lemma fold_zeros acc k : fold_left dstep (repeat 48 k) acc = acc * 10 ^ N.of_nat k.
Proof.
  revert acc. induction k as [|k IH]; intros acc.
  - cbn [repeat fold_left]. change (N.of_nat 0) with 0. rewrite N.pow_0_r. lia.
  - cbn [repeat fold_left]. rewrite IH. unfold dstep. rewrite Nat2N.inj_succ, N.pow_succ_r'. lia.
Qed.

Lemma digits_to_N_lead k s : digits_to_N (repeat 48 k ++ s) = digits_to_N s.
Proof.
  rewrite !digits_to_N_fold, fold_left_app, fold_zeros. now rewrite N.mul_0_l.
Qed.

Lemma digits_to_N_trail s k : digits_to_N (s ++ repeat 48 k) = digits_to_N s * 10 ^ N.of_nat k.
Proof. rewrite !digits_to_N_fold, fold_left_app, fold_zeros. reflexivity. Qed.

Lemma digit_range c : is_digit c = true -> 48 <= c <= 57.
Proof. unfold is_digit. intros H. apply andb_true_iff in H. destruct H as [A B]. apply N.leb_le in A, B. lia. Qed.

Lemma digits_app a b : digits (a ++ b) <-> digits a /\ digits b.
Proof. unfold digits. rewrite forallb_app, andb_true_iff. tauto. Qed.

Lemma digits_repeat k : digits (repeat 48 k).
Proof. induction k; [reflexivity|]. unfold digits in *. cbn [repeat forallb]. now rewrite IHk. Qed.

Lemma filter_digits s : digits s -> filter is_digit s = s.
Proof.
  unfold digits. induction s as [|c r IH]; [reflexivity|]. cbn [forallb filter]. intros H.
  apply andb_true_iff in H. destruct H as [A B]. rewrite A. now rewrite IH.
Qed.

Lemma strip_punct_digits s : digits s -> strip_punct s = s.
Proof.
  unfold digits, strip_punct. induction s as [|c r IH]; [reflexivity|]. cbn [forallb filter]. intros H.
  apply andb_true_iff in H. destruct H as [A B]. pose proof (digit_range c A) as R.
  assert (E : (c <=? 46) = false) by (apply N.leb_gt; lia). rewrite E, andb_false_r. cbn [negb]. now rewrite IH.
Qed.

Lemma after_dot_digits ip X : digits ip -> after_dot (ip ++ 46 :: X) = X.
Proof.
  unfold digits. induction ip as [|c r IH]; intros H.
  - reflexivity.
  - cbn [forallb] in H. apply andb_true_iff in H. destruct H as [A B]. pose proof (digit_range c A) as R.
    cbn [app after_dot]. assert (E : (c =? 46) = false) by (apply N.eqb_neq; lia). rewrite E. now apply IH.
Qed.

Lemma after_dot_none s : digits s -> after_dot s = [].
Proof.
  unfold digits. induction s as [|c r IH]; intros H; [reflexivity|].
  cbn [forallb] in H. apply andb_true_iff in H. destruct H as [A B]. pose proof (digit_range c A) as R.
  cbn [after_dot]. assert (E : (c =? 46) = false) by (apply N.eqb_neq; lia). rewrite E. now apply IH.
Qed.

Lemma no_e_digits s : digits s -> existsb (N.eqb 101) s = false.
Proof.
  unfold digits. induction s as [|c r IH]; intros H; [reflexivity|].
  cbn [forallb] in H. apply andb_true_iff in H. destruct H as [A B]. pose proof (digit_range c A) as R.
  cbn [existsb]. assert (E : (101 =? c) = false) by (apply N.eqb_neq; lia). rewrite E. now apply IH.
Qed.

(* ---------- str.split on one separator ---------- *)
Lemma split_on_none sep s cur : existsb (N.eqb sep) s = false -> split_on sep s cur = [rev cur ++ s].
Proof.
  revert cur. induction s as [|c r IH]; intros cur H.
  - cbn. now rewrite app_nil_r.
  - cbn [existsb] in H. apply orb_false_iff in H. destruct H as [A B].
    cbn [split_on]. rewrite N.eqb_sym, A. rewrite IH by exact B. cbn [rev]. now rewrite <- app_assoc.
Qed.

Lemma split_on_first sep a b cur : existsb (N.eqb sep) a = false ->
  split_on sep (a ++ sep :: b) cur = (rev cur ++ a) :: split_on sep b [].
Proof.
  revert cur. induction a as [|c r IH]; intros cur H.
  - cbn [app split_on]. rewrite N.eqb_refl. now rewrite app_nil_r.
  - cbn [existsb] in H. apply orb_false_iff in H. destruct H as [A B].
    cbn [app split_on]. rewrite N.eqb_sym, A. rewrite IH by exact B. cbn [rev]. now rewrite <- app_assoc.
Qed.

(* int(exp) succeeded: a sign and digits, so no further 'e' *)
Lemma py_int_no_e exp e : py_int exp = Ok e -> existsb (N.eqb 101) exp = false.
Proof.
  unfold py_int. intros H.
  destruct exp as [|c r]; [discriminate|].
  destruct ((c =? 43) || (c =? 45)) eqn:S.
  - destruct r as [|d r']; [discriminate|].
    destruct (forallb is_digit (d :: r')) eqn:D; [|discriminate].
    change (existsb (N.eqb 101) (c :: d :: r')) with ((101 =? c) || existsb (N.eqb 101) (d :: r')).
    rewrite (no_e_digits (d :: r') D), orb_false_r.
    apply orb_true_iff in S. apply N.eqb_neq. destruct S as [S|S]; apply N.eqb_eq in S; subst; discriminate.
  - destruct (forallb is_digit (c :: r)) eqn:D; [|discriminate]. exact (no_e_digits (c :: r) D).
Qed.

Lemma mantissa_no_e ip fp dotted : digits ip -> digits fp -> existsb (N.eqb 101) (mantissa_text ip fp dotted) = false.
Proof.
  intros Hi Hf. unfold mantissa_text. rewrite existsb_app, (no_e_digits ip Hi). cbn [orb].
  destruct dotted; [|reflexivity]. cbn [existsb]. now rewrite (no_e_digits fp Hf).
Qed.

Lemma mantissa_strip ip fp dotted : digits ip -> digits fp -> (dotted = false -> fp = []) ->
  strip_punct (mantissa_text ip fp dotted) = ip ++ fp.
Proof.
  intros Hi Hf Hd. unfold mantissa_text, strip_punct. rewrite filter_app.
  fold (strip_punct ip). rewrite (strip_punct_digits ip Hi). destruct dotted.
  - cbn [filter]. change (negb ((44 <=? 46) && (46 <=? 46))) with false. cbv iota.
    fold (strip_punct fp). now rewrite (strip_punct_digits fp Hf).
  - rewrite (Hd eq_refl). reflexivity.
Qed.

Lemma mantissa_digits ip fp dotted : digits ip -> digits fp -> (dotted = false -> fp = []) ->
  filter is_digit (mantissa_text ip fp dotted) = ip ++ fp.
Proof.
  intros Hi Hf Hd. unfold mantissa_text. rewrite filter_app, (filter_digits ip Hi). destruct dotted.
  - cbn [filter]. change (is_digit 46) with false. cbv iota. now rewrite (filter_digits fp Hf).
  - rewrite (Hd eq_refl). reflexivity.
Qed.

Lemma mantissa_after_dot ip fp dotted : digits ip -> (dotted = false -> fp = []) ->
  after_dot (mantissa_text ip fp dotted) = fp.
Proof.
  intros Hi Hd. unfold mantissa_text. destruct dotted.
  - now apply after_dot_digits.
  - rewrite app_nil_r, (Hd eq_refl). now apply after_dot_none.
Qed.

(* ---------- how the two versions compute on d[.ddd]e<exp> ---------- *)
Section SHAPE.
Variables (ip fp exp : str) (dotted : bool) (e : Z).
Hypothesis Hip : digits ip.
Hypothesis Hfp : digits fp.
Hypothesis Hdot : dotted = false -> fp = [].
Hypothesis Hexp : py_int exp = Ok e.
Let number := mantissa_text ip fp dotted.
Let rep := number ++ 101 :: exp.

Lemma rep_split : existsb (N.eqb 101) rep = true /\ split_on 101 rep [] = [number; exp].
Proof.
  split.
  - unfold rep. rewrite existsb_app. cbn [existsb]. rewrite N.eqb_refl. now rewrite orb_true_r.
  - unfold rep. rewrite split_on_first by (apply mantissa_no_e; assumption).
    rewrite split_on_none by (eapply py_int_no_e; eassumption). reflexivity.
Qed.

Lemma number_to_str_shape :
  number_to_str rep =
  Ok (if (0 <? e)%Z then (ip ++ fp) ++ repeat 48 (Z.to_nat (Z.abs e - 1))
      else t_zero_dot ++ repeat 48 (Z.to_nat (Z.abs e - 1)) ++ (ip ++ fp)).
Proof.
  unfold number_to_str. destruct rep_split as [A B]. rewrite A, B. fold number.
  unfold number. rewrite (mantissa_strip ip fp dotted Hip Hfp Hdot), Hexp. cbn [bind].
  destruct (0 <? e)%Z; reflexivity.
Qed.

Lemma number_to_str_repaired_shape :
  number_to_str_repaired rep =
  Ok (if (0 <? e)%Z then (ip ++ fp) ++ repeat 48 (Z.to_nat (e - Z.of_nat (length fp)))
      else t_zero_dot ++ repeat 48 (Z.to_nat (Z.abs e - 1)) ++ (ip ++ fp)).
Proof.
  unfold number_to_str_repaired. destruct rep_split as [A B]. rewrite A, B. fold number.
  unfold number. rewrite (mantissa_strip ip fp dotted Hip Hfp Hdot), (mantissa_after_dot ip fp dotted Hip Hdot), Hexp.
  cbn [bind]. destruct (0 <? e)%Z; reflexivity.
Qed.

Lemma sci_val_shape : sci_val number e = (digits_to_N (ip ++ fp), (e - Z.of_nat (length fp))%Z).
Proof.
  unfold sci_val, number. now rewrite (mantissa_digits ip fp dotted Hip Hfp Hdot), (mantissa_after_dot ip fp dotted Hip Hdot).
Qed.

(* the expansion for a negative exponent denotes the same number, digit for digit *)
Lemma negative_expansion_val : length ip = 1%nat -> (e < 0)%Z ->
  plain_val (t_zero_dot ++ repeat 48 (Z.to_nat (Z.abs e - 1)) ++ (ip ++ fp)) = sci_val number e.
Proof.
  intros Hl He. rewrite sci_val_shape. unfold plain_val, t_zero_dot.
  set (k := Z.to_nat (Z.abs e - 1)).
  change ([48; 46] ++ repeat 48 k ++ ip ++ fp) with (48 :: 46 :: (repeat 48 k ++ ip ++ fp)).
  cbn [filter]. change (is_digit 48) with true. change (is_digit 46) with false. cbv iota.
  assert (Hd : digits (repeat 48 k ++ ip ++ fp)).
  { apply digits_app. split; [apply digits_repeat|]. apply digits_app. now split. }
  rewrite (filter_digits _ Hd).
  change (48 :: repeat 48 k ++ ip ++ fp) with (repeat 48 (S k) ++ ip ++ fp). rewrite digits_to_N_lead.
  f_equal.
  change (after_dot (48 :: 46 :: repeat 48 k ++ ip ++ fp)) with (repeat 48 k ++ ip ++ fp).
  rewrite !app_length, repeat_length, Hl. subst k. lia.
Qed.

Lemma positive_expansion_val z :
  plain_val ((ip ++ fp) ++ repeat 48 z) = (digits_to_N (ip ++ fp) * 10 ^ N.of_nat z, 0%Z).
Proof.
  assert (Hd : digits ((ip ++ fp) ++ repeat 48 z)).
  { apply digits_app. split; [apply digits_app; now split|apply digits_repeat]. }
  unfold plain_val. rewrite (filter_digits _ Hd), (after_dot_none _ Hd), digits_to_N_trail. reflexivity.
Qed.
End SHAPE.

Lemma dval_eq_scaled m (k : nat) : dval_eq (m * 10 ^ N.of_nat k, 0%Z) (m, Z.of_nat k).
Proof.
  unfold dval_eq. cbn [fst snd]. rewrite Z.min_l by lia. rewrite Z.sub_0_r, Z.pow_0_r, Z.mul_1_r.
  rewrite N2Z.inj_mul, N2Z.inj_pow, nat_N_Z, Z.sub_0_r. reflexivity.
Qed.

Lemma dval_eq_refl a : dval_eq a a.
Proof. unfold dval_eq. reflexivity. Qed.

(* ---------- the statements ---------- *)
(* pinned code: faithful for negative exponents, and for positive ones with exactly one fraction digit *)
Lemma number_literal_partial_lemma : forall (ip fp exp : str) (dotted : bool) (e : Z),
  digits ip -> digits fp -> (dotted = false -> fp = []) -> length ip = 1%nat -> py_int exp = Ok e ->
  ((e < 0)%Z \/ ((0 < e)%Z /\ length fp = 1%nat)) ->
  exists out, number_to_str (mantissa_text ip fp dotted ++ 101 :: exp) = Ok out /\
              dval_eq (plain_val out) (sci_val (mantissa_text ip fp dotted) e).
Proof.
  intros ip fp exp dotted e Hi Hf Hd Hl He Hc.
  rewrite (number_to_str_shape ip fp exp dotted e Hi Hf Hd He).
  destruct Hc as [Hneg|[Hpos H1]].
  - assert (E : (0 <? e)%Z = false) by (apply Z.ltb_ge; lia). rewrite E.
    eexists. split; [reflexivity|]. rewrite (negative_expansion_val ip fp dotted e Hi Hf Hd Hl Hneg). apply dval_eq_refl.
  - assert (E : (0 <? e)%Z = true) by (apply Z.ltb_lt; lia). rewrite E.
    eexists. split; [reflexivity|]. rewrite (positive_expansion_val ip fp Hi Hf), (sci_val_shape ip fp dotted e Hi Hf Hd), H1.
    replace (e - Z.of_nat 1)%Z with (Z.of_nat (Z.to_nat (Z.abs e - 1))) by lia. apply dval_eq_scaled.
Qed.

(* the unrestricted statement fails: "1e+16" is expanded to 10^15 *)
Lemma number_literal_refuted_lemma :
  exists (ip fp exp : str) (dotted : bool) (e : Z),
    digits ip /\ digits fp /\ (dotted = false -> fp = []) /\ length ip = 1%nat /\ py_int exp = Ok e /\ (e <> 0)%Z /\
    exists out, number_to_str (mantissa_text ip fp dotted ++ 101 :: exp) = Ok out /\
                ~ dval_eq (plain_val out) (sci_val (mantissa_text ip fp dotted) e).
Proof.
  exists [49], [], [43; 49; 54], false, 16%Z.
  repeat split; try reflexivity; try discriminate.
  eexists. split; [vm_compute; reflexivity|]. vm_compute. discriminate.
Qed.

(* the proposed repair is faithful for every non-zero exponent at least as large as the fraction
   (repr switches to the exponent form at 1e16 and prints at most 17 significant digits) *)
Lemma number_literal_repaired_lemma : forall (ip fp exp : str) (dotted : bool) (e : Z),
  digits ip -> digits fp -> (dotted = false -> fp = []) -> length ip = 1%nat -> py_int exp = Ok e ->
  ((e < 0)%Z \/ (0 < e)%Z /\ (Z.of_nat (length fp) <= e)%Z) ->
  exists out, number_to_str_repaired (mantissa_text ip fp dotted ++ 101 :: exp) = Ok out /\
              dval_eq (plain_val out) (sci_val (mantissa_text ip fp dotted) e).
Proof.
  intros ip fp exp dotted e Hi Hf Hd Hl He Hc.
  rewrite (number_to_str_repaired_shape ip fp exp dotted e Hi Hf Hd He).
  destruct Hc as [Hneg|[Hpos Hge]].
  - assert (E : (0 <? e)%Z = false) by (apply Z.ltb_ge; lia). rewrite E.
    eexists. split; [reflexivity|]. rewrite (negative_expansion_val ip fp dotted e Hi Hf Hd Hl Hneg). apply dval_eq_refl.
  - assert (E : (0 <? e)%Z = true) by (apply Z.ltb_lt; lia). rewrite E.
    eexists. split; [reflexivity|]. rewrite (positive_expansion_val ip fp Hi Hf), (sci_val_shape ip fp dotted e Hi Hf Hd).
    replace (e - Z.of_nat (length fp))%Z with (Z.of_nat (Z.to_nat (e - Z.of_nat (length fp)))) at 2 by lia.
    apply dval_eq_scaled.
Qed.

(* a repr without exponent is passed through unchanged *)
Lemma number_literal_plain_lemma : forall rep, existsb (N.eqb 101) rep = false -> number_to_str rep = Ok rep.
Proof. intros rep H. unfold number_to_str. now rewrite H. Qed.
