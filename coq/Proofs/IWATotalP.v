(* Proofs for C17 about Model/IWA.v: whatever snappy and protobuf do, loading an
   archive member never runs out of fuel and, with the repaired sniffer and
   _store_blob, ends in a value or FileFormatError. *)
From Coq Require Import NArith List Bool Lia ZArith.
From NP Require Import Model.PyBase Model.Varint Model.Wire Model.IWA Proofs.VarintP Proofs.IWAP.
Import ListNotations.
Open Scope N_scope.

Definition no_fuel {A} (r : result A) : Prop := r <> Err OutOfFuel.

(* ---------- varints consume at least one byte and fail only with IndexError / DecodeError ---------- *)
Lemma dec_varint_ok_shorter : forall left b m acc v r,
  dec_varint left b m acc = Ok (v, r) -> (length r < length b)%nat.
Proof.
  induction left as [|left IH]; intros b m acc v r H; [discriminate|].
  destruct b as [|x b]; [discriminate|]. rewrite dec_varint_S in H.
  destruct (x <? 128).
  - injection H as _ <-. cbn [length]. lia.
  - apply IH in H. cbn [length]. lia.
Qed.

Lemma dec_varint_err : forall left b m acc e,
  dec_varint left b m acc = Err e -> e = IndexError \/ e = DecodeError.
Proof.
  induction left as [|left IH]; intros b m acc e H.
  - injection H as <-. now right.
  - destruct b as [|x b]; [injection H as <-; now left|]. rewrite dec_varint_S in H.
    destruct (x <? 128); [discriminate|]. now apply IH in H.
Qed.

Lemma decode_varint32_cases : forall b,
  (exists v r, decode_varint32 b = Ok (v, r) /\ (length r < length b)%nat) \/
  decode_varint32 b = Err IndexError \/ decode_varint32 b = Err DecodeError.
Proof.
  intros b. unfold decode_varint32, decode_varint_raw.
  destruct (dec_varint 10 b 1 0) as [[v r]|e] eqn:E.
  - left. exists (v mod 4294967296), r. split; [reflexivity|]. now apply dec_varint_ok_shorter in E.
  - right. apply dec_varint_err in E as [->| ->]; [now left|now right].
Qed.

Section Total.
  Variable uncompress : bytes -> option bytes.
  Context {Hd Ob : Type}.
  Variable dec_header : bytes -> result Hd.
  Variable view : Hd -> hview.
  Variable known_type : N -> bool.
  Variable dec_payload : N -> bytes -> result Ob.
  (* OutOfFuel is a marker of the model, never something an external library returns *)
  Hypothesis header_no_fuel : forall b, dec_header b <> Err OutOfFuel.
  Hypothesis payload_no_fuel : forall t b, dec_payload t b <> Err OutOfFuel.

  Notation seg_from := (segment_from_buffer dec_header view known_type dec_payload).
  Notation segs_f := (segments_f dec_header view known_type dec_payload).

  Lemma klass_of_err : forall all merge have mi e,
    klass_of known_type all merge have mi = Err e -> e = IndexError \/ e = NotImplementedErr.
  Proof.
    intros all merge have mi e H. unfold klass_of in H.
    destruct ((mi_type mi =? 0) && merge && have).
    - destruct (nthN (mi_base mi) all) as [base|]; [|injection H as <-; now left].
      destruct (known_type (mi_type base)); [discriminate|injection H as <-; now right].
    - destruct (known_type (mi_type mi)); [discriminate|injection H as <-; now right].
  Qed.

  Lemma seg_loop_no_fuel : forall infos all merge payload n acc,
    no_fuel (seg_loop known_type dec_payload infos all merge payload n acc).
  Proof.
    induction infos as [|mi infos IH]; intros all merge payload n acc; [discriminate|].
    cbn [seg_loop]. destruct (klass_of known_type all merge (negb (is_nil acc)) mi) as [t|e] eqn:Ek.
    - cbn [bind].
      destruct (dec_payload t (takeN (mi_length mi) (dropN n payload))) as [o|e] eqn:Ep.
      + cbn [bind]. apply IH.
      + pose proof (payload_no_fuel t (takeN (mi_length mi) (dropN n payload))) as Hn. rewrite Ep in Hn.
        destruct e; cbn [bind]; try discriminate. congruence.
    - cbn [bind]. apply klass_of_err in Ek as [->| ->]; discriminate.
  Qed.

  Lemma segment_cases : forall buf,
    (exists seg rest, seg_from buf = Ok (seg, rest) /\ (length rest < length buf)%nat) \/
    (exists e, seg_from buf = Err e /\ e <> OutOfFuel).
  Proof.
    intros buf. unfold segment_from_buffer, get_archive_info_and_remainder.
    destruct (decode_varint32_cases buf) as [(v & r & Hv & Hlen)|[Hv|Hv]]; rewrite Hv; cbn [bind];
      [|right; eexists; split; [reflexivity|discriminate]..].
    destruct (dec_header (takeN v r)) as [h|e] eqn:Eh; cbn [bind].
    - destruct (hv_empty (view h)); [right; eexists; split; [reflexivity|discriminate]|].
      pose proof (seg_loop_no_fuel (hv_infos (view h)) (hv_infos (view h)) (hv_merge (view h)) (dropN v r) 0 []) as Hl.
      destruct (seg_loop known_type dec_payload (hv_infos (view h)) (hv_infos (view h)) (hv_merge (view h)) (dropN v r) 0 [])
        as [[objs n]|e] eqn:El; cbn [bind].
      + left. eexists _, _. split; [reflexivity|].
        pose proof (lenN_dropN _ (dropN v r) n) as H1. pose proof (lenN_dropN _ r v) as H2. unfold lenN in H1, H2. lia.
      + right. exists e. split; [reflexivity|]. intros ->. now apply Hl.
    - right. exists e. split; [reflexivity|]. intros ->. now apply (header_no_fuel (takeN v r)).
  Qed.

  Lemma segments_f_no_fuel : forall fuel data, (length data <= fuel)%nat -> no_fuel (segs_f fuel data).
  Proof.
    induction fuel as [|fuel IH]; intros data Hl.
    - destruct data; [discriminate|cbn in Hl; lia].
    - destruct data as [|x data]; [discriminate|].
      cbn [segments_f]. destruct (segment_cases (x :: data)) as [(seg & rest & Hs & Hlen)|(e & Hs & He)]; rewrite Hs; cbn [bind].
      + assert (Hr : (length rest <= fuel)%nat) by (cbn [length] in *; lia).
        specialize (IH rest Hr). destruct (segs_f fuel rest); cbn [bind]; [discriminate|]. exact IH.
      + intros H. injection H as ->. now apply He.
  Qed.

  Lemma decompress_all_f_no_fuel : forall fuel data, (length data <= fuel)%nat ->
    no_fuel (decompress_all_f uncompress fuel data).
  Proof.
    induction fuel as [|fuel IH]; intros data Hl.
    - destruct data; [discriminate|cbn in Hl; lia].
    - destruct data as [|x data]; [discriminate|].
      rewrite decompress_all_f_S. destruct (negb (x =? 0)); [discriminate|].
      unfold unpack_len3. destruct (Nat.eqb (length (tl (firstn 4 (x :: data)) ++ [0])) 4); [|discriminate].
      cbn [bind]. set (len := le_val (tl (firstn 4 (x :: data)) ++ [0])).
      assert (Hr : (length (dropN (4 + len) (x :: data)) <= fuel)%nat).
      { pose proof (length_dropN_cons _ x data (4 + len) ltac:(lia)). cbn [length] in Hl. lia. }
      specialize (IH _ Hr). destruct (decompress_all_f uncompress fuel (dropN (4 + len) (x :: data))); cbn [bind]; [discriminate|exact IH].
  Qed.

  Lemma chunk_from_buffer_no_fuel : forall data,
    no_fuel (chunk_from_buffer uncompress dec_header view known_type dec_payload data).
  Proof.
    intros data. unfold chunk_from_buffer, decompress_all.
    pose proof (decompress_all_f_no_fuel (length data) data (le_n _)) as Hdec.
    destruct (decompress_all_f uncompress (length data) data) as [ps|e]; cbn [bind]; [|intros H; injection H as ->; now apply Hdec].
    apply segments_f_no_fuel. lia.
  Qed.

  Lemma file_from_buffer_cases : forall data named,
    (exists chunks, file_from_buffer uncompress dec_header view known_type dec_payload data named = Ok chunks /\
                    (chunks = [] -> data = [])) \/
    (exists e, file_from_buffer uncompress dec_header view known_type dec_payload data named = Err e /\ e <> OutOfFuel).
  Proof.
    intros data named. unfold file_from_buffer. destruct data as [|x data].
    - left. exists []. split; reflexivity.
    - pose proof (chunk_from_buffer_no_fuel (x :: data)) as Hc.
      destruct (chunk_from_buffer uncompress dec_header view known_type dec_payload (x :: data)) as [c|e].
      + left. exists [c]. split; [reflexivity|discriminate].
      + right. destruct e; try (eexists; split; [reflexivity|destruct named; discriminate]). now exfalso.
  Qed.

  Lemma store_objects_err : forall archives e,
    store_objects view (Ob := Ob) archives = Err e -> e = IndexError.
  Proof.
    induction archives as [|[h objs] archives IH]; intros e H; [discriminate|].
    cbn [store_objects] in H. destruct objs; [now injection H as <-|].
    destruct (store_objects view archives); cbn [bind] in H; [discriminate|]. injection H as <-. now apply IH.
  Qed.

  (* the repaired member loader: every byte string, every behaviour of snappy and protobuf *)
  Lemma unframe_total_lemma : forall ends_iwa blob,
    (exists r, store_blob uncompress dec_header view known_type dec_payload true true ends_iwa blob = Ok r) \/
    store_blob uncompress dec_header view known_type dec_payload true true ends_iwa blob = Err FileFormatError.
  Proof.
    intros ends_iwa blob. unfold store_blob. destruct ends_iwa; [|left; eexists; reflexivity].
    destruct (is_iwa_file_total blob) as [b Hb]. rewrite Hb. cbn [bind].
    destruct b; [|left; eexists; reflexivity].
    destruct (file_from_buffer_cases blob true) as [(chunks & Hf & _)|(e & Hf & He)]; rewrite Hf.
    - destruct chunks as [|c chunks]; [now right|].
      destruct (store_objects view c) as [ids|e] eqn:Es; [left; eexists; reflexivity|].
      apply store_objects_err in Es. subst e. now right.
    - destruct e; try (now right); now exfalso.
  Qed.

  (* with only the sniffer repaired the two IndexErrors of _store_blob remain the only escape *)
  Lemma unframe_sniffer_only : forall ends_iwa blob,
    (exists r, store_blob uncompress dec_header view known_type dec_payload true false ends_iwa blob = Ok r) \/
    store_blob uncompress dec_header view known_type dec_payload true false ends_iwa blob = Err FileFormatError \/
    store_blob uncompress dec_header view known_type dec_payload true false ends_iwa blob = Err IndexError.
  Proof.
    intros ends_iwa blob. unfold store_blob. destruct ends_iwa; [|left; eexists; reflexivity].
    destruct (is_iwa_file_total blob) as [b Hb]. rewrite Hb. cbn [bind].
    destruct b; [|left; eexists; reflexivity].
    destruct (file_from_buffer_cases blob true) as [(chunks & Hf & _)|(e & Hf & He)]; rewrite Hf.
    - destruct chunks as [|c chunks]; [now right; right|].
      destruct (store_objects view c) as [ids|e] eqn:Es; [left; eexists; reflexivity|].
      apply store_objects_err in Es. subst e. now right; right.
    - destruct e; try (now right; left); now exfalso.
  Qed.

  (* the pinned tree: an empty member and a one-byte member escape, whatever the libraries do *)
  Lemma unframe_refuted_empty :
    store_blob uncompress dec_header view known_type dec_payload false false true [] = Err IndexError.
  Proof. reflexivity. Qed.

  Lemma unframe_refuted_short :
    store_blob uncompress dec_header view known_type dec_payload false false true [0] = Err StructError /\
    store_blob uncompress dec_header view known_type dec_payload false false true [0; 1; 2] = Err StructError.
  Proof. split; reflexivity. Qed.
End Total.
