(* The deterministic scanners against the grammar of the regexes they replace.

   STRING_REGEXES, double quote:  quote (nonquote* quote quote)* nonquote* quote (?! quote)
     [dq_lang] is that grammar read off the regex; [match_dq s = Some m] iff the prefix of
     length m is in the language and is not followed by a quote.  Such a prefix is unique, so
     the priority order of a backtracking engine is irrelevant.
   STRING_REGEXES, single quote:  NAME (ws* colon ws* NAME)*  with  NAME = quote nonquote* (quote quote nonquote* )* quote
     [sq_lang] is that grammar; [match_sq] returns a prefix in the language, no longer prefix
     of the input is in the language, and it finds one whenever one exists. *)
From Coq Require Import List Arith NArith Bool Lia.
From NP Require Import Model.PyBase Model.Tokenizer Proofs.TokenizerP.
Import ListNotations.
Open Scope N_scope.

Definition nq (q : N) (v : list N) : Prop := Forall (fun c => c <> q) v.
Definition not_followed_by (q : N) (rest : list N) : Prop :=
  match rest with c :: _ => c <> q | [] => True end.

Lemma nq_app q a b : nq q a -> nq q b -> nq q (a ++ b).
Proof. intros; apply Forall_app; auto. Qed.

(* ------------------------------------------------------------------ double quoted strings *)
Definition dq_group (g : list N) : list N := g ++ [DQ; DQ].
Inductive dq_lang : list N -> Prop :=
| dq_intro groups tail :
    Forall (nq DQ) groups -> nq DQ tail ->
    dq_lang (DQ :: concat (map dq_group groups) ++ tail ++ [DQ]).

Lemma dq_body_skip g : nq DQ g -> forall x n, dq_body (g ++ x) n = dq_body x (n + N.of_nat (length g)).
Proof.
  induction 1 as [|c g Hc Hg IH]; intros x n; cbn [app length].
  - f_equal. lia.
  - cbn [dq_body]. apply N.eqb_neq in Hc. rewrite Hc. rewrite IH. f_equal. lia.
Qed.

Lemma dq_body_complete groups : Forall (nq DQ) groups -> forall tail rest n,
  nq DQ tail -> not_followed_by DQ rest ->
  dq_body (concat (map dq_group groups) ++ tail ++ DQ :: rest) n =
  Some (n + N.of_nat (length (concat (map dq_group groups) ++ tail) + 1)).
Proof.
  induction 1 as [|g groups Hg Hgs IH]; intros tail rest n Ht Hr.
  - cbn [map concat app]. rewrite dq_body_skip by auto.
    cbn [dq_body]. rewrite N.eqb_refl. destruct rest as [|c2 r2]; [f_equal; lia|].
    cbn in Hr. apply N.eqb_neq in Hr. rewrite Hr. f_equal. lia.
  - cbn [map concat]. unfold dq_group at 1. rewrite <- !app_assoc. rewrite dq_body_skip by auto.
    cbn [app dq_body]. rewrite !N.eqb_refl. rewrite IH by auto. f_equal.
    rewrite (app_length (dq_group g)). unfold dq_group at 2. rewrite (app_length g). cbn [length]. lia.
Qed.

Lemma dq_body_sound : forall r n k, dq_body r n = Some k ->
  exists groups tail rest,
    r = concat (map dq_group groups) ++ tail ++ DQ :: rest /\
    Forall (nq DQ) groups /\ nq DQ tail /\ not_followed_by DQ rest /\
    k = n + N.of_nat (length (concat (map dq_group groups) ++ tail) + 1).
Proof.
  induction r as [r IH] using (well_founded_induction (Wf_nat.well_founded_ltof _ (@length N))).
  intros n k H. destruct r as [|c r']; [discriminate|]. cbn [dq_body] in H.
  destruct (c =? DQ) eqn:Ec.
  - apply N.eqb_eq in Ec. subst c. destruct r' as [|c2 r2].
    + inv H. exists [], [], []. cbn. repeat split; auto; constructor.
    + destruct (c2 =? DQ) eqn:E2.
      * apply N.eqb_eq in E2. subst c2. apply IH in H; [|unfold ltof; cbn; lia].
        destruct H as (groups & tail & rest & -> & Hg & Ht & Hr & ->).
        exists ([] :: groups), tail, rest. cbn [map concat]. change (dq_group []) with [DQ; DQ]. cbn [app].
        repeat split; auto. { constructor; auto. constructor. }
        cbn [length]. lia.
      * inv H. exists [], [], (c2 :: r2). cbn. apply N.eqb_neq in E2. repeat split; auto; constructor.
  - apply IH in H; [|unfold ltof; cbn; lia]. apply N.eqb_neq in Ec.
    destruct H as (groups & tail & rest & -> & Hg & Ht & Hr & ->).
    destruct groups as [|g groups].
    + exists [], (c :: tail), rest. cbn. repeat split; auto. { constructor; auto. } lia.
    + exists ((c :: g) :: groups), tail, rest. cbn [map concat]. change (dq_group (c :: g)) with (c :: dq_group g). cbn [app].
      inversion Hg; subst. repeat split; auto. { constructor; auto. constructor; auto. }
      cbn [length]. lia.
Qed.

Theorem dq_scanner_is_regex_lemma s m :
  match_dq s = Some m <->
  exists w rest, s = w ++ rest /\ dq_lang w /\ not_followed_by DQ rest /\ m = N.of_nat (length w).
Proof.
  split.
  - unfold match_dq. destruct s as [|c r]; [discriminate|]. destruct (c =? DQ) eqn:Ec; [|discriminate].
    apply N.eqb_eq in Ec. subst c. intros H. apply dq_body_sound in H.
    destruct H as (groups & tail & rest & -> & Hg & Ht & Hr & ->).
    exists (DQ :: concat (map dq_group groups) ++ tail ++ [DQ]), rest. split; [|split; [|split; [exact Hr|]]].
    + cbn [app]. f_equal. rewrite <- !app_assoc. reflexivity.
    + constructor; auto.
    + cbn [length]. rewrite !app_length. cbn [length]. lia.
  - intros (w & rest & -> & Hw & Hr & ->). destruct Hw as [groups tail Hg Ht].
    cbn [app match_dq]. rewrite N.eqb_refl. rewrite <- !app_assoc. cbn [app].
    rewrite dq_body_complete by auto. f_equal. cbn [length]. rewrite !app_length. cbn [length]. lia.
Qed.

(* the text of a match: opening quote, closing quote, every inner quote doubled *)
Corollary dq_match_unique s w1 r1 w2 r2 :
  s = w1 ++ r1 -> dq_lang w1 -> not_followed_by DQ r1 ->
  s = w2 ++ r2 -> dq_lang w2 -> not_followed_by DQ r2 -> length w1 = length w2.
Proof.
  intros E1 L1 N1 E2 L2 N2.
  assert (A : match_dq s = Some (N.of_nat (length w1))) by (apply dq_scanner_is_regex_lemma; eauto 6).
  assert (B : match_dq s = Some (N.of_nat (length w2))) by (apply dq_scanner_is_regex_lemma; eauto 6).
  rewrite A in B. inv B. lia.
Qed.

(* ------------------------------------------------------------------ quoted names and their continuations *)
Definition sq_group (g : list N) : list N := SQ :: SQ :: g.
Inductive name_lang : list N -> Prop :=
| name_intro head groups :
    nq SQ head -> Forall (nq SQ) groups ->
    name_lang (SQ :: head ++ concat (map sq_group groups) ++ [SQ]).
Definition ws (v : list N) : Prop := Forall (fun c => is_space c = true) v.
Inductive cont_lang : list N -> Prop :=
| cont_intro w1 w2 nm : ws w1 -> ws w2 -> name_lang nm -> cont_lang (w1 ++ [COLON] ++ w2 ++ nm).
Inductive sq_lang : list N -> Prop :=
| sq_intro n0 conts : name_lang n0 -> Forall cont_lang conts -> sq_lang (n0 ++ concat conts).

Lemma sq_body_skip g : nq SQ g -> forall x n, sq_body (g ++ x) n = sq_body x (n + N.of_nat (length g)).
Proof.
  induction 1 as [|c g Hc Hg IH]; intros x n; cbn [app length].
  - f_equal. lia.
  - cbn [sq_body]. apply N.eqb_neq in Hc. rewrite Hc. rewrite IH. f_equal. lia.
Qed.

Lemma sq_body_sound : forall r n k, sq_body r n = Some k ->
  exists head groups rest,
    r = head ++ concat (map sq_group groups) ++ SQ :: rest /\
    nq SQ head /\ Forall (nq SQ) groups /\
    k = n + N.of_nat (length (head ++ concat (map sq_group groups)) + 1).
Proof.
  induction r as [r IH] using (well_founded_induction (Wf_nat.well_founded_ltof _ (@length N))).
  intros n k H. destruct r as [|c r']; [discriminate|]. cbn [sq_body] in H.
  destruct (c =? SQ) eqn:Ec.
  - apply N.eqb_eq in Ec. subst c. destruct r' as [|c2 r2].
    + inv H. exists [], [], []. cbn. repeat split; auto; constructor.
    + destruct (c2 =? SQ) eqn:E2.
      * apply N.eqb_eq in E2. subst c2. destruct (sq_body r2 (n + 2)) as [m|] eqn:Em.
        -- inv H. apply IH in Em; [|unfold ltof; cbn; lia].
           destruct Em as (head & groups & rest & -> & Hh & Hg & ->).
           exists [], (head :: groups), rest. cbn [map concat app]. change (sq_group head) with (SQ :: SQ :: head).
           cbn [app]. rewrite <- app_assoc. split; [reflexivity|]. split; [constructor|]. split; [constructor; auto|].
           cbn [length]. rewrite !app_length. lia.
        -- inv H. exists [], [], (SQ :: r2). cbn. repeat split; auto; constructor.
      * inv H. exists [], [], (c2 :: r2). cbn. repeat split; auto; constructor.
  - apply IH in H; [|unfold ltof; cbn; lia]. apply N.eqb_neq in Ec.
    destruct H as (head & groups & rest & -> & Hh & Hg & ->).
    exists (c :: head), groups, rest. cbn [app length]. split; [reflexivity|]. split; [constructor; auto|]. split; auto. lia.
Qed.

(* every closing position the grammar allows is found or overtaken; a strictly
   longer answer means the candidate is followed by another quote *)
Lemma sq_body_candidates groups : Forall (nq SQ) groups -> forall rest n,
  exists k, sq_body (concat (map sq_group groups) ++ SQ :: rest) n = Some k /\
            n + N.of_nat (length (concat (map sq_group groups)) + 1) <= k /\
            (n + N.of_nat (length (concat (map sq_group groups)) + 1) < k -> exists rest', rest = SQ :: rest').
Proof.
  induction 1 as [|g groups Hg Hgs IH]; intros rest n.
  - cbn [map concat app length sq_body]. rewrite N.eqb_refl. destruct rest as [|c2 r2].
    + exists (n + 1). split; auto. split; lia.
    + destruct (c2 =? SQ) eqn:E2.
      * apply N.eqb_eq in E2. subst c2. destruct (sq_body r2 (n + 2)) as [m|] eqn:Em.
        -- exists m. split; auto. apply sq_body_pos in Em. split; [lia|]. intros _. eauto.
        -- exists (n + 1). split; auto. split; lia.
      * exists (n + 1). split; auto. split; lia.
  - cbn [map concat]. change (sq_group g) with (SQ :: SQ :: g). cbn [app sq_body]. rewrite !N.eqb_refl.
    rewrite <- app_assoc. rewrite sq_body_skip by auto.
    destruct (IH rest (n + 2 + N.of_nat (length g))) as (k & E & L1 & L2). rewrite E.
    exists k. split; auto. cbn [length]. rewrite app_length. split; [lia|]. intros L. apply L2. lia.
Qed.

Lemma match_name_sound s k : match_name s = Some k ->
  exists nm rest, s = nm ++ rest /\ name_lang nm /\ k = N.of_nat (length nm) /\ dropN (N.to_nat k) s = rest.
Proof.
  unfold match_name. destruct s as [|c r]; [discriminate|]. destruct (c =? SQ) eqn:Ec; [|discriminate].
  apply N.eqb_eq in Ec. subst c. intros H. apply sq_body_sound in H.
  destruct H as (head & groups & rest & -> & Hh & Hg & ->).
  exists (SQ :: head ++ concat (map sq_group groups) ++ [SQ]), rest.
  assert (E : SQ :: head ++ concat (map sq_group groups) ++ SQ :: rest =
              (SQ :: head ++ concat (map sq_group groups) ++ [SQ]) ++ rest).
  { cbn [app]. f_equal. rewrite <- !app_assoc. reflexivity. }
  assert (L : 1 + N.of_nat (length (head ++ concat (map sq_group groups)) + 1) =
              N.of_nat (length (SQ :: head ++ concat (map sq_group groups) ++ [SQ]))).
  { cbn [length]. rewrite !app_length. cbn [length]. lia. }
  split; [exact E|]. split; [constructor; auto|]. split; [exact L|].
  rewrite L, E, Nnat.Nat2N.id.
  rewrite dropN_skipn, skipn_app, Nat.sub_diag, skipn_all. reflexivity.
Qed.

Lemma match_name_candidates nm X : name_lang nm ->
  exists k, match_name (nm ++ X) = Some k /\ N.of_nat (length nm) <= k /\
            (N.of_nat (length nm) < k -> exists X', X = SQ :: X').
Proof.
  intros [head groups Hh Hg]. cbn [app match_name]. rewrite N.eqb_refl.
  rewrite <- !app_assoc. rewrite sq_body_skip by auto. cbn [app].
  destruct (sq_body_candidates groups Hg X (1 + N.of_nat (length head))) as (k & E & L1 & L2).
  exists k. split; auto. cbn [length]. rewrite !app_length. cbn [length]. split; [lia|]. intros L. apply L2. lia.
Qed.

Lemma skip_ws_split s : forall n s1 n1, skip_ws s n = (s1, n1) ->
  exists w, s = w ++ s1 /\ ws w /\ n1 = n + N.of_nat (length w).
Proof.
  induction s as [|c r IH]; intros n s1 n1 E; cbn in E.
  - inv E. exists []. split; [reflexivity|]. split; [constructor|cbn [length]; lia].
  - destruct (is_space c) eqn:Ec.
    + apply IH in E. destruct E as (w & -> & Hw & ->). exists (c :: w). cbn [app length].
      split; auto. split; [constructor; auto|lia].
    + inv E. exists []. split; [reflexivity|]. split; [constructor|cbn [length]; lia].
Qed.

Lemma skip_ws_exact w : ws w -> forall x n,
  match x with c :: _ => is_space c = false | [] => True end ->
  skip_ws (w ++ x) n = (x, n + N.of_nat (length w)).
Proof.
  induction 1 as [|c w Hc Hw IH]; intros x n Hx; cbn [app length].
  - destruct x as [|c r]; cbn [skip_ws]; [f_equal; lia|]. rewrite Hx. f_equal. lia.
  - cbn [skip_ws]. rewrite Hc. rewrite IH by auto. f_equal. lia.
Qed.

Lemma sq_cont_sound : forall fuel x n,
  exists conts rest, x = concat conts ++ rest /\ Forall cont_lang conts /\
                     sq_cont fuel x n = n + N.of_nat (length (concat conts)).
Proof.
  induction fuel as [|f IH]; intros x n.
  { exists [], x. cbn. split; [reflexivity|]. split; [constructor|lia]. }
  assert (Stop : exists conts rest, x = concat conts ++ rest /\ Forall cont_lang conts /\
                                    n = n + N.of_nat (length (concat conts))).
  { exists [], x. cbn. split; [reflexivity|]. split; [constructor|lia]. }
  cbn [sq_cont]. destruct (skip_ws x n) as [s1 n1] eqn:E1.
  destruct s1 as [|c r]; auto. destruct (c =? COLON) eqn:Ec; auto. apply N.eqb_eq in Ec. subst c.
  destruct (skip_ws r (n1 + 1)) as [s2 n2] eqn:E2.
  destruct (match_name s2) as [k|] eqn:Ek; auto.
  apply skip_ws_split in E1. destruct E1 as (w1 & -> & Hw1 & ->).
  apply skip_ws_split in E2. destruct E2 as (w2 & -> & Hw2 & ->).
  apply match_name_sound in Ek. destruct Ek as (nm & rest2 & -> & Hn & -> & Ed). rewrite Ed.
  destruct (IH rest2 (n + N.of_nat (length w1) + 1 + N.of_nat (length w2) + N.of_nat (length nm)))
    as (conts & rest & -> & Hc & ->).
  exists ((w1 ++ [COLON] ++ w2 ++ nm) :: conts), rest. cbn [concat].
  split; [rewrite <- !app_assoc; reflexivity|]. split; [constructor; auto; constructor; auto|].
  rewrite !app_length. cbn [length]. rewrite ?app_length. lia.
Qed.

Lemma is_space_SQ : is_space SQ = false. Proof. reflexivity. Qed.
Lemma is_space_COLON : is_space COLON = false. Proof. reflexivity. Qed.

Lemma name_lang_head nm : name_lang nm -> exists r, nm = SQ :: r.
Proof. intros [head groups _ _]. eauto. Qed.

(* a continuation never starts with a quote *)
Lemma conts_not_quote conts rest X' : Forall cont_lang conts -> concat conts ++ rest = SQ :: X' -> conts = [].
Proof.
  intros H E. destruct conts as [|c cs]; auto. exfalso. inversion H as [|? ? Hc _]; subst.
  destruct Hc as [w1 w2 nm Hw1 _ _]. cbn [concat] in E.
  destruct w1 as [|a w1]; cbn in E.
  - inv E.
  - injection E as E _. subst a. inversion Hw1 as [|? ? Ha _]; subst. rewrite is_space_SQ in Ha. discriminate.
Qed.

Lemma sq_cont_max conts : Forall cont_lang conts -> forall rest n fuel,
  (length (concat conts ++ rest) <= fuel)%nat ->
  n + N.of_nat (length (concat conts)) <= sq_cont fuel (concat conts ++ rest) n.
Proof.
  induction 1 as [|c cs Hc Hcs IH]; intros rest n fuel Hf.
  - cbn [concat length]. pose proof (sq_cont_ge fuel ([] ++ rest) n). lia.
  - destruct Hc as [w1 w2 nm Hw1 Hw2 Hn].
    destruct fuel as [|f].
    { exfalso. cbn [concat] in Hf. rewrite !app_length in Hf. cbn [length] in Hf. lia. }
    cbn [concat]. rewrite <- !app_assoc. cbn [sq_cont].
    rewrite skip_ws_exact by (auto; cbn [app]; apply is_space_COLON).
    cbn [app]. rewrite N.eqb_refl.
    destruct (name_lang_head _ Hn) as (r & Enm).
    rewrite skip_ws_exact by (auto; rewrite Enm; cbn [app]; apply is_space_SQ).
    destruct (match_name_candidates nm (concat cs ++ rest) Hn) as (k & Ek & L1 & L2). rewrite Ek.
    set (n2 := n + N.of_nat (length w1) + 1 + N.of_nat (length w2)).
    assert (Len : N.of_nat (length ((w1 ++ COLON :: w2 ++ nm) ++ concat cs)) =
                  N.of_nat (length w1) + 1 + N.of_nat (length w2) + N.of_nat (length nm) + N.of_nat (length (concat cs))).
    { rewrite !app_length. cbn [length]. rewrite !app_length. lia. }
    rewrite <- !app_assoc in Len. cbn [app] in Len. rewrite <- !app_assoc in Len. rewrite Len.
    destruct (N.eq_dec (N.of_nat (length nm)) k) as [Eq|Ne].
    + subst k. rewrite Nnat.Nat2N.id, dropN_skipn, skipn_app, Nat.sub_diag, skipn_all. cbn [skipn app].
      cbn [concat] in Hf. rewrite !app_length in Hf. cbn [length] in Hf. rewrite ?app_length in Hf.
      specialize (IH rest (n2 + N.of_nat (length nm)) f). rewrite app_length in IH.
      assert (G : (length (concat cs) + length rest <= f)%nat) by lia. specialize (IH G). unfold n2 in *. lia.
    + destruct L2 as (X' & EX); [lia|]. apply conts_not_quote in EX; auto. subst cs. cbn [concat length].
      pose proof (sq_cont_ge f (dropN (N.to_nat k) (nm ++ [] ++ rest)) (n2 + k)). cbn [concat app] in *. unfold n2 in *. lia.
Qed.

Theorem sq_scanner_sound_lemma s m :
  match_sq s = Some m -> exists w rest, s = w ++ rest /\ sq_lang w /\ m = N.of_nat (length w).
Proof.
  unfold match_sq. destruct (match_name s) as [k|] eqn:Ek; [|discriminate]. intros H; inv H.
  apply match_name_sound in Ek. destruct Ek as (nm & rest0 & -> & Hn & -> & Ed). rewrite Ed.
  destruct (sq_cont_sound (length (nm ++ rest0)) rest0 (N.of_nat (length nm))) as (conts & rest & -> & Hc & ->).
  exists (nm ++ concat conts), rest. split; [now rewrite app_assoc|]. split; [constructor; auto|].
  rewrite app_length. lia.
Qed.

Theorem sq_scanner_longest_lemma s m :
  match_sq s = Some m -> forall w rest, s = w ++ rest -> sq_lang w -> N.of_nat (length w) <= m.
Proof.
  unfold match_sq. intros H w rest -> Hw. destruct Hw as [n0 conts Hn Hc].
  rewrite <- app_assoc in H.
  destruct (match_name_candidates n0 (concat conts ++ rest) Hn) as (k & Ek & L1 & L2). rewrite Ek in H. inv H.
  rewrite app_length.
  destruct (N.eq_dec (N.of_nat (length n0)) k) as [Eq|Ne].
  - subst k. rewrite Nnat.Nat2N.id, dropN_skipn, skipn_app, Nat.sub_diag, skipn_all. cbn [skipn app].
    pose proof (sq_cont_max conts Hc rest (N.of_nat (length n0)) (length (n0 ++ concat conts ++ rest))) as M.
    rewrite !app_length in M. specialize (M ltac:(lia)). rewrite ?app_length. lia.
  - destruct L2 as (X' & EX); [lia|]. apply conts_not_quote in EX; auto. subst conts. cbn [concat length].
    match goal with |- _ <= sq_cont ?f ?x ?n => pose proof (sq_cont_ge f x n) end. lia.
Qed.

Theorem sq_scanner_complete_lemma s :
  match_sq s = None -> forall w rest, s = w ++ rest -> ~ sq_lang w.
Proof.
  unfold match_sq. intros H w rest -> Hw. destruct Hw as [n0 conts Hn Hc].
  rewrite <- app_assoc in H.
  destruct (match_name_candidates n0 (concat conts ++ rest) Hn) as (k & Ek & _). rewrite Ek in H. discriminate.
Qed.

(* ------------------------------------------------------------------ SN_RE *)
Definition digit (c : N) : Prop := 48 <= c <= 57.
Inductive sn_lang : list N -> Prop :=
| sn_plain d : 49 <= d <= 57 -> sn_lang [d; 69]
| sn_frac d ds : 49 <= d <= 57 -> ds <> [] -> Forall digit ds -> sn_lang (d :: 46 :: ds ++ [69]).

Lemma is_digit_iff c : is_digit c = true <-> digit c.
Proof. unfold is_digit, digit. rewrite andb_true_iff, !N.leb_le. tauto. Qed.

Lemma digits_then_E_iff s : forall seen,
  digits_then_E s seen = true <->
  exists ds, Forall digit ds /\ s = ds ++ [69] /\ (seen = true \/ ds <> []).
Proof.
  induction s as [|c r IH]; intros seen.
  - cbn. split; [discriminate|]. intros (ds & _ & E & _). destruct ds; discriminate.
  - destruct r as [|c2 r2].
    + cbn [digits_then_E]. rewrite andb_true_iff, N.eqb_eq. split.
      * intros [-> ->]. exists []. repeat split; auto.
      * intros (ds & Hd & E & Hs). destruct ds as [|d ds]; [|destruct ds; discriminate].
        inv E. destruct Hs as [->|Hs]; [auto|congruence].
    + change (digits_then_E (c :: c2 :: r2) seen) with (is_digit c && digits_then_E (c2 :: r2) true).
      rewrite andb_true_iff, is_digit_iff, IH. split.
      * intros (Hc & ds & Hd & E & _). exists (c :: ds). rewrite E. repeat split; auto. right; discriminate.
      * intros (ds & Hd & E & _). destruct ds as [|d ds]; [destruct r2; discriminate|].
        inv E. inversion Hd; subst. split; auto. exists ds. repeat split; auto.
Qed.

Theorem sn_scanner_is_regex_lemma t :
  sn_match t = true <-> sn_lang t \/ exists t', t = t' ++ [10] /\ sn_lang t'.
Proof.
  assert (A : forall u, sn_match0 u = true <-> sn_lang u).
  { intros u. unfold sn_match0. destruct u as [|c r]; [split; [discriminate|inversion 1]|].
    rewrite !andb_true_iff, !N.leb_le. destruct r as [|d r2].
    - split; [intros [_ H]; discriminate|inversion 1].
    - destruct r2 as [|x r3].
      + rewrite N.eqb_eq. split.
        * intros [Hc ->]. constructor; lia.
        * inversion 1; subst; [split; [lia|reflexivity]|]. destruct ds; discriminate.
      + rewrite andb_true_iff, N.eqb_eq, digits_then_E_iff. split.
        * intros (Hc & -> & ds & Hd & -> & Hs). apply sn_frac; [lia|destruct Hs; [discriminate|auto]|auto].
        * inversion 1; subst. split; [lia|]. split; auto. exists ds. repeat split; auto. }
  unfold sn_match. rewrite orb_true_iff, A. apply or_iff_compat_l.
  destruct (rev t) as [|c r] eqn:Er.
  - split; [discriminate|]. intros (t' & -> & _). rewrite rev_app_distr in Er. discriminate.
  - rewrite andb_true_iff, N.eqb_eq, A. split.
    + intros [-> H]. exists (rev r). split; auto. rewrite <- (rev_involutive t), Er. reflexivity.
    + intros (t' & -> & H). rewrite rev_app_distr in Er. cbn in Er. inv Er. rewrite rev_involutive. auto.
Qed.
