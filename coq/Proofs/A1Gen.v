(* Translator tie: the regex sources read from /repo on this run are the ones the scanners mirror. *)
From Coq Require Import NArith List.
From NP Require Import Gen.GenA1 Model.A1.
Lemma gen_a1_regexes :
  GenA1.range_parts_pattern = A1.modelled_range_parts /\
  GenA1.col_parts_pattern = A1.modelled_col_parts /\
  GenA1.range_parts_flags = 32%N.
Proof. repeat split; reflexivity. Qed.
