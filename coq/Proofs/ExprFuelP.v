(* Explicit fuel: the executable [parse] (fuel 2 * tokens + 2) inverts the printer
   on well-formed trees.  Every lemma of ExprP is restated with the concrete amount
   of fuel it needs:  parse_un 2t, parse_ex/loop 2t+1, parse_items 2t+2,
   parse_args 2(t+1), parse_rows 2(t+1)+1  for t rendered tokens. *)
From Coq Require Import ZArith NArith List Arith Lia Bool.
From NP Require Import Model.PyBase Model.FormulaStack Model.Expr Proofs.ExprP.
Import ListNotations.
Open Scope nat_scope.

Section F.
Variable prec : binop -> nat.
Notation parse_ex := (parse_ex prec). Notation parse_un := (parse_un prec).
Notation loop := (loop prec). Notation parse_items := (parse_items prec).
Notation parse_args := (parse_args prec). Notation parse_rows := (parse_rows prec).
Notation wf := (wf prec). Notation lvl_ge := (lvl_ge prec). Notation lvl_gt := (lvl_gt prec).
Notation stops := (stops prec). Notation chain := (chain prec).

Definition goodF (e : expr) : Prop :=
  forall minp rest, stops minp rest -> lvl_ge e minp ->
    parse_ex (2 * length (show e) + 1) minp (show e ++ rest) = Some (e, rest).
Definition goodoF (a : option expr) : Prop := match a with Some e => goodF e | None => True end.

(* monotonicity in the form "any larger fuel" *)
Lemma ex_up f minp ts x : parse_ex f minp ts = Some x -> forall g, f <= g -> parse_ex g minp ts = Some x.
Proof. intros H g Hle. exact (ex_mono prec f g minp ts x Hle H). Qed.
Lemma un_up f ts x : parse_un f ts = Some x -> forall g, f <= g -> parse_un g ts = Some x.
Proof. intros H g Hle. exact (un_mono prec f g ts x Hle H). Qed.
Lemma loop_up f minp lhs ts x : loop f minp lhs ts = Some x -> forall g, f <= g -> loop g minp lhs ts = Some x.
Proof. intros H g Hle. exact (loop_mono prec f g minp lhs ts x Hle H). Qed.
Lemma items_up f ts x : parse_items f ts = Some x -> forall g, f <= g -> parse_items g ts = Some x.
Proof. intros H g Hle. exact (items_mono prec f g ts x Hle H). Qed.
Lemma args_up f ts x : parse_args f ts = Some x -> forall g, f <= g -> parse_args g ts = Some x.
Proof. intros H g Hle. exact (args_mono prec f g ts x Hle H). Qed.
Lemma rows_up f ts x : parse_rows f ts = Some x -> forall g, f <= g -> parse_rows g ts = Some x.
Proof. intros H g Hle. exact (rows_mono prec f g ts x Hle H). Qed.

Lemma show_nonempty e : 1 <= length (show e).
Proof.
  pose proof (show_opener e []) as H. rewrite app_nil_r in H.
  destruct (show e); [destruct H|cbn; lia].
Qed.

Lemma good0F e Y : goodF e -> stops 0 Y -> parse_ex (2 * length (show e) + 1) 0 (show e ++ Y) = Some (e, Y).
Proof. intros G H. apply G; auto. destruct e; cbn; auto; lia. Qed.

Lemma items_okF es : es <> [] -> Forall goodF es -> forall Y, closer Y ->
  parse_items (2 * length (sep_by TComma show es) + 2) (sep_by TComma show es ++ Y) = Some (es, Y).
Proof.
  induction es as [|e es IH]; intros Hne Hg Y Hc; [congruence|].
  inversion Hg as [|? ? Ge Gs]; subst.
  destruct es as [|e2 r].
  - rewrite sep_by_one. replace (2 * length (show e) + 2) with (S (2 * length (show e) + 1)) by lia.
    rewrite parse_items_S, (good0F e Y Ge (closer_stops prec _ Hc)). destruct Y as [|[] ?]; cbn in Hc; tauto.
  - rewrite sep_by_cons2, <- app_assoc. cbn [app].
    set (T2 := sep_by TComma show (e2 :: r)) in *.
    pose proof (good0F e (TComma :: T2 ++ Y) Ge I) as Hf1.
    pose proof (IH ltac:(congruence) Gs Y Hc) as Hf2.
    rewrite app_length. cbn [length].
    replace (2 * (length (show e) + S (length T2)) + 2) with (S (2 * (length (show e) + S (length T2)) + 1)) by lia.
    rewrite parse_items_S.
    rewrite (ex_up _ _ _ _ Hf1) by lia.
    rewrite (items_up _ _ _ Hf2) by lia. reflexivity.
Qed.

Lemma args_okF args : args <> [] -> Forall goodoF args -> forall X,
  parse_args (2 * (length (sep_by TComma showo args) + 1)) (sep_by TComma showo args ++ TR :: X) = Some (args, X).
Proof.
  induction args as [|a args IH]; intros Hne Hg X; [congruence|].
  inversion Hg as [|? ? Ga Gs]; subst.
  destruct args as [|a2 r].
  - rewrite sep_by_one. destruct a as [e|]; cbn [showo].
    + pose proof (good0F e (TR :: X) Ga I) as Hf.
      replace (2 * (length (show e) + 1)) with (S (2 * length (show e) + 1)) by lia.
      rewrite parse_args_S, Hf.
      pose proof (show_opener e (TR :: X)) as Ho.
      destruct (show e ++ TR :: X) as [|[] ?]; cbn in Ho; tauto.
    + reflexivity.
  - rewrite sep_by_cons2, <- app_assoc. cbn [app].
    set (T2 := sep_by TComma showo (a2 :: r)) in *.
    pose proof (IH ltac:(congruence) Gs X) as Hf2.
    destruct a as [e|]; cbn [showo].
    + pose proof (good0F e (TComma :: T2 ++ TR :: X) Ga I) as Hf1.
      rewrite app_length. cbn [length].
      replace (2 * (length (show e) + S (length T2) + 1)) with (S (2 * (length (show e) + S (length T2)) + 1)) by lia.
      rewrite parse_args_S.
      rewrite (ex_up _ _ _ _ Hf1) by lia.
      rewrite (args_up _ _ _ Hf2) by lia.
      pose proof (show_opener e (TComma :: T2 ++ TR :: X)) as Ho.
      destruct (show e ++ _) as [|[] ?]; cbn in Ho; tauto.
    + cbn [app length].
      replace (2 * (S (length T2) + 1)) with (S (2 * (length T2 + 1) + 1)) by lia.
      rewrite parse_args_S. rewrite (args_up _ _ _ Hf2) by lia. reflexivity.
Qed.

Lemma rows_okF rows : rows <> [] -> Forall (fun row => row <> [] /\ Forall goodF row) rows -> forall X,
  parse_rows (2 * (length (sep_by TSemi show_row rows) + 1) + 1) (sep_by TSemi show_row rows ++ TRB :: X) = Some (rows, X).
Proof.
  induction rows as [|row rows IH]; intros Hne Hg X; [congruence|].
  inversion Hg as [|? ? [Rne Rg] Gs]; subst.
  destruct rows as [|row2 r].
  - rewrite sep_by_one. pose proof (items_okF row Rne Rg (TRB :: X) I) as Hf.
    replace (2 * (length (show_row row) + 1) + 1) with (S (2 * length (show_row row) + 2)) by lia.
    rewrite parse_rows_S. unfold show_row in *. rewrite Hf. reflexivity.
  - rewrite sep_by_cons2, <- app_assoc. cbn [app].
    set (T2 := sep_by TSemi show_row (row2 :: r)) in *.
    pose proof (items_okF row Rne Rg (TSemi :: T2 ++ TRB :: X) I) as Hf1.
    pose proof (IH ltac:(congruence) Gs X) as Hf2.
    rewrite app_length. cbn [length].
    replace (2 * (length (show_row row) + S (length T2) + 1) + 1)
      with (S (2 * (length (show_row row) + S (length T2)) + 2)) by lia.
    rewrite parse_rows_S. unfold show_row at 2.
    rewrite (items_up _ _ _ Hf1) by (unfold show_row; lia).
    rewrite (rows_up _ _ _ Hf2) by lia. reflexivity.
Qed.

Lemma primary_okF p : primary p -> wf p -> (forall e', size e' < size p -> wf e' -> goodF e') ->
  forall X, parse_un (2 * length (show p)) (show p ++ X) = Some (pct_loop p X).
Proof.
  intros Hp Hw Hsub X. destruct p as [a|o l r|e|e|es|g args|rows]; try destruct Hp.
  - reflexivity.
  - destruct (wf_paren prec es Hw) as [Hne Hall].
    assert (Hg : Forall goodF es).
    { rewrite Forall_forall in *. intros x Hx. apply Hsub; auto using size_in_paren. }
    pose proof (items_okF es Hne Hg (TR :: X) I) as Hf.
    cbn [show app length]. rewrite <- app_assoc. cbn [app]. rewrite app_length. cbn [length].
    replace (2 * S (length (sep_by TComma show es) + 1)) with (S (2 * length (sep_by TComma show es) + 3)) by lia.
    rewrite parse_un_S. rewrite (items_up _ _ _ Hf) by lia. reflexivity.
  - destruct (wf_fun prec g args Hw) as [Hne Hall].
    destruct args as [|a0 args0] eqn:Ea.
    + reflexivity.
    + rewrite <- Ea in *. assert (Hg : Forall goodoF args).
      { rewrite Forall_forall in *. intros [x|] Hx; cbn; auto. apply Hsub; auto using size_in_fun. apply (Hall (Some x) Hx). }
      pose proof (args_okF args ltac:(subst; congruence) Hg X) as Hf.
      cbn [show app length]. rewrite <- app_assoc. cbn [app]. rewrite app_length. cbn [length].
      change (fun a => match a with Some e => show e | None => [] end) with showo.
      replace (2 * S (length (sep_by TComma showo args) + 1)) with (S (2 * (length (sep_by TComma showo args) + 1) + 1)) by lia.
      rewrite parse_un_S.
      destruct (sep_by TComma showo args ++ TR :: X) as [|t ts] eqn:Et.
      { destruct (sep_by TComma showo args); discriminate. }
      assert (Hnt : t <> TR).
      { intros ->. subst args. destruct a0 as [e0|].
        - destruct args0 as [|a1 r1].
          + rewrite sep_by_one in Et. cbn [showo] in Et. pose proof (show_opener e0 (TR :: X)) as Ho. rewrite Et in Ho. exact Ho.
          + rewrite sep_by_cons2, <- app_assoc in Et. cbn [showo app] in Et.
            pose proof (show_opener e0 (TComma :: sep_by TComma showo (a1 :: r1) ++ TR :: X)) as Ho. rewrite Et in Ho. exact Ho.
        - destruct args0 as [|a1 r1]; [congruence|]. rewrite sep_by_cons2 in Et. discriminate. }
      pose proof (args_up _ _ _ Hf (2 * (length (sep_by TComma showo args) + 1) + 1) ltac:(lia)) as Hf'.
      destruct t; try congruence; rewrite Hf'; reflexivity.
  - destruct (wf_arr prec rows Hw) as [Hne Hall].
    assert (Hg : Forall (fun row => row <> [] /\ Forall goodF row) rows).
    { rewrite Forall_forall in *. intros row Hr. destruct (Hall row Hr) as [A B]. split; auto.
      rewrite Forall_forall in *. intros x Hx. apply Hsub; eauto using size_in_arr. }
    pose proof (rows_okF rows Hne Hg X) as Hf.
    cbn [show app length]. rewrite <- app_assoc. cbn [app]. rewrite app_length. cbn [length].
    change (fun row => sep_by TComma show row) with show_row.
    replace (2 * S (length (sep_by TSemi show_row rows) + 1)) with (S (2 * (length (sep_by TSemi show_row rows) + 1) + 1)) by lia.
    rewrite parse_un_S, Hf. reflexivity.
Qed.

Lemma un_okF : forall n e, size e <= n -> unary_lvl e -> wf e ->
  (forall e', size e' < size e -> wf e' -> goodF e') ->
  forall rest, no_pct rest -> parse_un (2 * length (show e)) (show e ++ rest) = Some (e, rest).
Proof.
  induction n as [|n IH]; intros e Hsz Hu Hw Hsub rest Hr.
  { pose proof (size_pos e). lia. }
  destruct e as [a|o l r|e'|e'|es|g args|rows]; try destruct Hu;
  try solve [ match goal with |- parse_un _ (show ?e ++ _) = _ =>
    destruct (postfix_decompose prec e I Hw) as (p & k & Pp & Wp & Sp & Ep & Shp);
    pose proof (primary_okF p Pp Wp ltac:(intros; apply Hsub; auto; lia) (repeat TPct k ++ rest)) as Hf;
    rewrite Shp, <- app_assoc;
    rewrite (un_up _ _ _ Hf) by (rewrite app_length; lia);
    rewrite pct_loop_repeat by auto; rewrite <- Ep; reflexivity end ].
  (* ENeg *)
  destruct Hw as [Hw' Hu']. cbn [size] in Hsz.
  pose proof (IH e' ltac:(lia) Hu' Hw' ltac:(intros; apply Hsub; auto; cbn [size]; lia) rest Hr) as Hf.
  cbn [show app length].
  replace (2 * S (length (show e'))) with (S (2 * length (show e') + 1)) by lia.
  rewrite parse_un_S. cbn [binop_eqb]. rewrite (un_up _ _ _ Hf) by lia. reflexivity.
Qed.

Lemma show_tail_cons o r tl : show_tail ((o, r) :: tl) = TOp o :: show r ++ show_tail tl.
Proof. reflexivity. Qed.

Lemma loop_tailF :
  forall tl minp lhs rest ub,
    chain ub tl -> (forall o r, In (o,r) tl -> minp <= prec o) ->
    (forall o r, In (o,r) tl -> goodF r) ->
    stops minp rest ->
    loop (2 * length (show_tail tl) + 1) minp lhs (show_tail tl ++ rest) = Some (fold_tail lhs tl, rest).
Proof.
  induction tl as [|[o r] tl IH]; intros minp lhs rest ub Hc Hm Hp Hs.
  - cbn. destruct rest as [|[] rs]; auto. cbn in Hs.
    destruct (Nat.leb_spec minp (prec o)); auto; lia.
  - destruct Hc as (Hub & Wr & Gr & Hc').
    assert (Hstop : stops (S (prec o)) (show_tail tl ++ rest)).
    { destruct tl as [|[o2 r2] tl2]; cbn.
      - destruct rest as [|[] rs]; cbn in *; auto. specialize (Hm o r (or_introl eq_refl)). lia.
      - destruct Hc' as (H2 & _). cbn in H2. lia. }
    pose proof (Hp o r (or_introl eq_refl) (S (prec o)) _ Hstop) as Hf1.
    assert (Hl : lvl_ge r (S (prec o))) by (destruct r; cbn in *; auto; lia).
    specialize (Hf1 Hl).
    assert (Hm' : forall o0 r0, In (o0, r0) tl -> minp <= prec o0) by (intros; apply (Hm o0 r0); right; auto).
    assert (Hp' : forall o0 r0, In (o0, r0) tl -> goodF r0) by (intros o0 r0 Hin; apply (Hp o0 r0); right; auto).
    pose proof (IH minp (EBin o lhs r) rest (Some (prec o)) Hc' Hm' Hp' Hs) as Hf2.
    rewrite show_tail_cons. cbn [length app]. rewrite app_length.
    replace (2 * S (length (show r) + length (show_tail tl)) + 1)
      with (S (2 * (length (show r) + length (show_tail tl)) + 2)) by lia.
    rewrite loop_S. rewrite <- app_assoc.
    assert (Hle: minp <=? prec o = true) by (apply Nat.leb_le; apply (Hm o r); left; auto).
    rewrite Hle.
    rewrite (ex_up _ _ _ _ Hf1) by lia.
    cbn [fold_tail fold_left fst snd].
    apply (loop_up _ _ _ _ _ Hf2). lia.
Qed.

Theorem show_parse_allF : forall n e, size e <= n -> wf e -> goodF e.
Proof.
  induction n as [|n IH]; intros e Hsz Hwf.
  { pose proof (size_pos e). lia. }
  intros minp rest Hs Hl.
  pose proof (spine_spec prec e Hwf) as Sp. destruct (spine e) as [p tl].
  destruct Sp as (Pp & Wp & Sz & Sh & Fo & Ch & Lv & Szr & La).
  assert (Hnp : no_pct (show_tail tl ++ rest)).
  { destruct tl as [|[o r] tl']; cbn; auto. destruct rest as [|[] ?]; cbn in *; auto. }
  pose proof (un_okF (size p) p (le_n _) Pp Wp ltac:(intros; apply (IH e'); auto; lia) _ Hnp) as Hf1.
  assert (Hf2 : loop (2 * length (show_tail tl) + 1) minp p (show_tail tl ++ rest) = Some (fold_tail p tl, rest)).
  { apply (loop_tailF tl minp p rest None Ch (Lv minp Hl)); auto.
    intros o r Hin. apply (IH r); [specialize (Szr _ _ Hin); lia|eapply chain_wf; eauto]. }
  pose proof (show_nonempty p) as Hp1.
  rewrite Sh, app_length, <- app_assoc.
  replace (2 * (length (show p) + length (show_tail tl)) + 1)
    with (S (2 * (length (show p) + length (show_tail tl)))) by lia.
  rewrite parse_ex_S.
  rewrite (un_up _ _ _ Hf1) by lia.
  rewrite (loop_up _ _ _ _ _ Hf2) by lia. rewrite Fo. reflexivity.
Qed.

(* the executable parser, with the fuel it is defined with *)
Theorem parse_show_lemma e : wf e -> parse prec (show e) = Some e.
Proof.
  intros Hw. unfold parse.
  pose proof (show_parse_allF (size e) e (le_n _) Hw 0 [] I) as Hf.
  rewrite app_nil_r in Hf.
  rewrite (ex_up _ _ _ _ (Hf ltac:(destruct e; cbn; auto; lia))) by lia.
  reflexivity.
Qed.

(* the token rendering determines the tree *)
Corollary show_injective_lemma e1 e2 : wf e1 -> wf e2 -> show e1 = show e2 -> e1 = e2.
Proof.
  intros W1 W2 H. pose proof (parse_show_lemma e1 W1) as P1. pose proof (parse_show_lemma e2 W2) as P2.
  rewrite H in P1. congruence.
Qed.
End F.
