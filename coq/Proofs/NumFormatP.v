(* NumFormatP: the decimal / currency / percentage display theorems of C13. *)
From Coq Require Import ZArith NArith List Bool Lia.
From NP Require Import Model.PyBase Model.Digits Model.C13Tables Model.NumFormat Proofs.DigitsP.
Import ListNotations.
Open Scope Z_scope.
Ltac Zify.zify_post_hook ::= Z.to_euclidean_division_equations.

(* ---------- character classes ---------- *)
Lemma digit_is_dd c : is_digit c = true -> is_dd c = true.
Proof. intros H. unfold is_dd. rewrite H. reflexivity. Qed.

Lemma digit_not_sg c : is_digit c = true -> is_sg c = false.
Proof.
  intros H. unfold is_sg, c_min, c_lpar.
  destruct (N.eqb_spec c 45) as [->|]; [discriminate H|]. destruct (N.eqb_spec c 40) as [->|]; [discriminate H|]. reflexivity.
Qed.

Lemma digits_dd s : Forall (fun c => is_digit c = true) s -> Forall (fun c => is_dd c = true) s.
Proof. intros H. eapply Forall_impl; [|exact H]. apply digit_is_dd. Qed.

Lemma digits_nosg s : Forall (fun c => is_digit c = true) s -> Forall (fun c => is_sg c = false) s.
Proof. intros H. eapply Forall_impl; [|exact H]. apply digit_not_sg. Qed.

Lemma decoration_spec s : decoration s = true ->
  Forall (fun c => is_dd c = false) s /\ Forall (fun c => is_sg c = false) s.
Proof.
  unfold decoration. intros H. rewrite forallb_forall in H. split; apply Forall_forall; intros c Hc;
    specialize (H c Hc); apply andb_prop in H; destruct H as [H1 H2];
    [destruct (is_dd c)|destruct (is_sg c)]; (reflexivity || discriminate).
Qed.

(* ---------- fixed_str ---------- *)
Lemma fixed_str_dd sep M p : filter is_dd (fixed_str sep M p) = plain_digits M p.
Proof.
  unfold fixed_str, plain_digits. rewrite filter_app.
  assert (Hip : filter is_dd (if sep then group3 (zstr (M / 10 ^ p)) else zstr (M / 10 ^ p)) = zstr (M / 10 ^ p)).
  { destruct sep; [rewrite filter_group3 by reflexivity|]; apply filter_all, digits_dd, zstr_digits. }
  rewrite Hip. f_equal. destruct (0 <? p); [|reflexivity].
  cbn [filter]. change (is_dd c_dot) with true. cbv iota. f_equal. apply filter_all, digits_dd, bdigs_digits.
Qed.

Lemma fixed_str_nosign sep M p : existsb is_sg (fixed_str sep M p) = false.
Proof.
  unfold fixed_str. rewrite existsb_app.
  assert (Hip : existsb is_sg (if sep then group3 (zstr (M / 10 ^ p)) else zstr (M / 10 ^ p)) = false).
  { destruct sep; [rewrite existsb_group3 by reflexivity|]; apply existsb_none, digits_nosg, zstr_digits. }
  rewrite Hip. destruct (0 <? p); [|reflexivity]. cbn [existsb orb]. change (is_sg c_dot) with false.
  apply existsb_none, digits_nosg, bdigs_digits.
Qed.

Lemma plain_digits_value M p : 0 <= M -> 0 <= p ->
  bval 10 (zstr (M / 10 ^ p) ++ digs (Z.to_nat p) M) = M.
Proof.
  intros HM Hp. assert (0 < 10 ^ p) by (apply pow_pos_b; lia).
  rewrite bval_app, zstr_val by (apply Z.div_pos; lia).
  rewrite digs_val by assumption. unfold zlen. rewrite digs_length, Z2Nat.id by lia.
  pose proof (Z.div_mod M (10 ^ p) ltac:(lia)). lia.
Qed.

(* reading a plain number with exactly p decimals *)
Lemma readback_of_plain s neg M p : 0 <= M -> 0 <= p ->
  filter is_dd s = plain_digits M p -> existsb is_sg s = neg ->
  readback_decimal s = Some (neg, M, p).
Proof.
  intros HM Hp Hf Hs. unfold readback_decimal. fold (is_sg). 
  change (existsb (fun c : N => (c =? c_min)%N || (c =? c_lpar)%N) s) with (existsb is_sg s).
  rewrite Hs, Hf. unfold plain_digits.
  pose proof (zstr_digits (M / 10 ^ p)) as Hd. pose proof (zstr_nonempty (M / 10 ^ p)) as Hne.
  destruct (Z.ltb_spec 0 p).
  - rewrite split_on_one by (apply Forall_digits_not; [reflexivity|exact Hd]).
    rewrite split_on_none by (apply Forall_digits_not; [reflexivity|apply bdigs_digits]).
    cbn [rev app]. destruct (zstr (M / 10 ^ p)) eqn:E; [congruence|]. rewrite <- E.
    rewrite plain_digits_value by lia. unfold zlen. rewrite digs_length, Z2Nat.id by lia. reflexivity.
  - assert (p = 0) by lia. subst p. rewrite app_nil_r.
    rewrite split_on_none by (apply Forall_digits_not; [reflexivity|exact Hd]).
    cbn [rev app]. destruct (zstr (M / 10 ^ 0)) eqn:E; [congruence|]. rewrite <- E.
    rewrite zstr_val by (apply Z.div_pos; [lia|apply pow_pos_b; lia]).
    rewrite Z.pow_0_r, Z.div_1_r. reflexivity.
Qed.

(* decoration around a text changes neither its digits nor (unless it carries a marker) its sign *)
Lemma filter_wrap pre core post :
  Forall (fun c => is_dd c = false) pre -> Forall (fun c => is_dd c = false) post ->
  filter is_dd (pre ++ core ++ post) = filter is_dd core.
Proof.
  intros H1 H2. rewrite !filter_app, (filter_none _ pre H1), (filter_none _ post H2), app_nil_r. reflexivity.
Qed.

Lemma existsb_wrap pre core post :
  existsb is_sg (pre ++ core ++ post) = existsb is_sg pre || existsb is_sg core || existsb is_sg post.
Proof. rewrite !existsb_app. rewrite orb_assoc. reflexivity. Qed.

(* ---------- _format_decimal with a fixed number of places ---------- *)
Lemma round_sig_pos s mant ex : 0 < s -> 0 < mant -> 0 < fst (round_sig s mant ex).
Proof.
  intros Hs Hm. unfold round_sig. destruct (Z.leb_spec (ndig mant) s); cbn [fst]; [assumption|].
  pose proof (ndig_spec mant Hm) as [_ [Hlo _]]. set (k := ndig mant) in *.
  pose proof (rhu_at_spec mant ex (ex + k - s) ltac:(lia) ltac:(lia)) as [H0 [Hl _]]. cbv zeta in Hl.
  replace (ex + k - s - ex) with (k - s) in Hl by lia.
  assert (0 < 10 ^ (k - s)) by (apply pow_pos_b; lia).
  assert (10 ^ (k - s) <= 10 ^ (k - 1)) by (apply Z.pow_le_mono_r; lia).
  set (M := rhu_at mant ex (ex + k - s)) in *. nia.
Qed.

Ltac fin pre post :=
  exists pre, post; split;
  [ cbn [app]; rewrite ?app_nil_r, <- ?app_assoc; cbn [app]; reflexivity | repeat split; repeat constructor ].

(* the text produced for places < AUTO is  pre ++ fixed_str ++ post  with pure decoration around *)
Lemma format_decimal_fixed_shape is_int d places sep ns pct : 0 <= dmant d -> 0 <= places < AUTO ->
  let m1 := fst (round_sig SIG (dmant d) (dexp d)) in
  let e1 := snd (round_sig SIG (dmant d) (dexp d)) in
  let M := rhu_at m1 e1 (- places) in
  exists pre post,
    format_decimal is_int d places sep ns pct = pre ++ fixed_str sep M places ++ post /\
    Forall (fun c => is_dd c = false) pre /\ Forall (fun c => is_dd c = false) post /\
    existsb is_sg pre || existsb is_sg post = shown_negative d ns M.
Proof.
  intros Hm Hp. cbv zeta. unfold format_decimal.
  destruct (value_rat is_int (dmant d) (dexp d)) as [vn vd].
  replace (AUTO <=? places) with false by (symmetry; apply Z.leb_gt; lia).
  rewrite andb_false_r.
  pose proof (round_sig_pos SIG (dmant d) (dexp d) eq_refl) as Hpos.
  assert (Hzero : dmant d = 0 -> fst (round_sig SIG (dmant d) (dexp d)) = 0).
  { intros E. rewrite E. unfold round_sig, ndig. rewrite nbdig_nonpos by lia. reflexivity. }
  destruct (round_sig SIG (dmant d) (dexp d)) as [m1 e1]. cbn [fst snd] in *.
  set (M := rhu_at m1 e1 (- places)). unfold shown_negative.
  assert (Hm1 : is_neg d = true -> 0 < m1).
  { intros Hn. unfold is_neg in Hn. apply andb_prop in Hn. destruct Hn as [_ Hn]. apply Z.ltb_lt in Hn.
    apply Hpos. assumption. }
  assert (Hm0 : is_neg d = false -> dneg d = true -> m1 <= 0).
  { intros Hn Hd. unfold is_neg in Hn. rewrite Hd in Hn. cbn in Hn. apply Z.ltb_ge in Hn.
    rewrite Hzero by lia. lia. }
  destruct (is_neg d) eqn:En.
  - specialize (Hm1 eq_refl). cbn [andb].
    assert (Hd : dneg d = true) by (unfold is_neg in En; apply andb_prop in En; tauto).
    destruct (Z.leb_spec 2 ns) as [H2|H2].
    + replace (1 <=? ns) with true by (symmetry; apply Z.leb_le; lia).
      destruct (Z.leb_spec m1 0); [lia|]. cbn [andb].
      destruct pct.
      * fin ([c_lpar]) ([c_pct; c_rpar]).
      * fin ([c_lpar]) ([c_rpar]).
    + destruct (Z.leb_spec 1 ns) as [H1|H1].
      * destruct (Z.leb_spec m1 0); [lia|]. cbn [andb].
        destruct pct.
        -- fin (@nil N) ([c_pct]).
        -- fin (@nil N) (@nil N).
      * rewrite Hd. destruct (Z.leb_spec m1 0); [lia|]. cbn [andb].
        destruct (Z.ltb_spec 0 M); destruct pct.
        -- fin ([c_min]) ([c_pct]).
        -- fin ([c_min]) (@nil N).
        -- fin (@nil N) ([c_pct]).
        -- fin (@nil N) (@nil N).
  - cbn [andb]. destruct (dneg d) eqn:Hd.
    + specialize (Hm0 eq_refl eq_refl). destruct (Z.leb_spec m1 0); [|lia].
      destruct pct.
      * fin ([c_min]) ([c_pct]).
      * fin ([c_min]) (@nil N).
    + assert (Hn2 : (if m1 <=? 0 then false else false && (0 <? M)) = false) by (destruct (m1 <=? 0); reflexivity).
      rewrite Hn2. destruct pct.
      * fin (@nil N) ([c_pct]).
      * fin (@nil N) (@nil N).
Qed.

Lemma decimal_display_lemma is_int d places sep ns pct : 0 <= dmant d -> 0 <= places < AUTO ->
  let m1 := fst (round_sig SIG (dmant d) (dexp d)) in
  let e1 := snd (round_sig SIG (dmant d) (dexp d)) in
  let M := rhu_at m1 e1 (- places) in
  readback_decimal (format_decimal is_int d places sep ns pct) = Some (shown_negative d ns M, M, places).
Proof.
  intros Hm Hp m1 e1 M.
  destruct (format_decimal_fixed_shape is_int d places sep ns pct Hm Hp) as (pre & post & E & Hpre & Hpost & Hs).
  cbv zeta in E, Hs. fold m1 e1 in E, Hs. fold M in E, Hs. rewrite E.
  assert (HM : 0 <= M) by (apply rhu_at_nonneg, round_sig_nonneg; assumption).
  apply readback_of_plain; try lia.
  - rewrite filter_wrap by assumption. apply fixed_str_dd.
  - rewrite existsb_wrap, fixed_str_nosign, orb_false_r. exact Hs.
Qed.

(* decoration never changes a digit: the digits and the decimal point are those of the plain number *)
Lemma decimal_digits_lemma is_int d places sep ns pct : 0 <= dmant d -> 0 <= places < AUTO ->
  let m1 := fst (round_sig SIG (dmant d) (dexp d)) in
  let e1 := snd (round_sig SIG (dmant d) (dexp d)) in
  filter is_dd (format_decimal is_int d places sep ns pct) = plain_digits (rhu_at m1 e1 (- places)) places.
Proof.
  intros Hm Hp m1 e1.
  destruct (format_decimal_fixed_shape is_int d places sep ns pct Hm Hp) as (pre & post & E & Hpre & Hpost & Hs).
  cbv zeta in E. fold m1 e1 in E. rewrite E, filter_wrap by assumption. apply fixed_str_dd.
Qed.

(* ---------- wrapping a readable text in decoration ---------- *)
Lemma readback_wrap pre s post n m p :
  Forall (fun c => is_dd c = false) pre -> Forall (fun c => is_dd c = false) post ->
  readback_decimal s = Some (n, m, p) ->
  readback_decimal (pre ++ s ++ post) = Some (existsb is_sg pre || n || existsb is_sg post, m, p).
Proof.
  intros Hpre Hpost H. unfold readback_decimal in *.
  change (fun c : N => (c =? c_min)%N || (c =? c_lpar)%N) with is_sg in *.
  rewrite filter_wrap by assumption. rewrite existsb_wrap.
  destruct (split_on c_dot (filter is_dd s) []) as [|ip [|fp [|x r]]]; try discriminate.
  - destruct ip; [discriminate|]. inversion H; subst. reflexivity.
  - destruct ip; [discriminate|]. inversion H; subst. reflexivity.
Qed.

(* ---------- currency ---------- *)
Lemma symbols_decor : forallb (fun kv => decoration (snd kv)) currency_symbols = true.
Proof. vm_compute. reflexivity. Qed.

Lemma currencies_decor : forallb decoration currencies = true.
Proof. vm_compute. reflexivity. Qed.

Lemma lookup_decor k : forall t v, forallb (fun kv => decoration (snd kv)) t = true ->
  lookup k t = Some v -> decoration v = true.
Proof.
  induction t as [|[k' v'] t IH]; intros v Ht Hl; cbn [lookup] in Hl; [discriminate|].
  cbn [forallb snd] in Ht. apply andb_prop in Ht. destruct Ht as [Hv Ht].
  destruct (str_eqb k k'); [inversion Hl; subst; assumption|]. apply IH; assumption.
Qed.

Lemma currency_symbol_decor code : decoration code = true -> decoration (currency_symbol code) = true.
Proof.
  intros Hc. unfold currency_symbol. destruct (lookup code currency_symbols) as [v|] eqn:E.
  - eapply lookup_decor; [exact symbols_decor|exact E].
  - unfold decoration in *. rewrite forallb_app, Hc. reflexivity.
Qed.

Lemma known_code_decor code : existsb (str_eqb code) currencies = true -> decoration code = true.
Proof.
  intros H. apply existsb_exists in H. destruct H as [c [Hin Heq]].
  apply str_eqb_true in Heq. subst c.
  pose proof currencies_decor as Hall. rewrite forallb_forall in Hall. apply Hall. assumption.
Qed.

Lemma shown_negative_dabs d ns M : shown_negative (dabs d) ns M = false.
Proof. reflexivity. Qed.

Lemma currency_display_lemma is_int d places sep ns acct code :
  0 <= dmant d -> 0 <= places < AUTO -> decoration code = true ->
  let m1 := fst (round_sig SIG (dmant d) (dexp d)) in
  let e1 := snd (round_sig SIG (dmant d) (dexp d)) in
  let M := rhu_at m1 e1 (- places) in
  readback_decimal (format_currency is_int d places sep ns acct code)
    = Some (shown_negative_currency d ns M acct, M, places) /\
  filter is_dd (format_currency is_int d places sep ns acct code) = plain_digits M places.
Proof.
  intros Hm Hp Hc m1 e1 M.
  pose proof (decoration_spec _ (currency_symbol_decor code Hc)) as [Hsdd Hssg].
  pose proof (decimal_display_lemma is_int d places sep ns false Hm Hp) as Hd.
  pose proof (decimal_display_lemma is_int (dabs d) places sep ns false Hm Hp) as Ha.
  pose proof (decimal_digits_lemma is_int d places sep ns false Hm Hp) as Dd.
  pose proof (decimal_digits_lemma is_int (dabs d) places sep ns false Hm Hp) as Da.
  cbv zeta in Hd, Ha, Dd, Da. cbn [dabs dmant dexp] in Ha, Da. fold m1 e1 in Hd, Ha, Dd, Da. fold M in Hd, Ha, Dd, Da.
  unfold format_currency, shown_negative_currency.
  set (sym := currency_symbol code) in *.
  destruct (acct && is_neg d) eqn:E1.
  - split.
    + replace (sym ++ [c_ht; c_lpar] ++ format_decimal is_int (dabs d) places sep ns false ++ [c_rpar])
        with ((sym ++ [c_ht; c_lpar]) ++ format_decimal is_int (dabs d) places sep ns false ++ [c_rpar])
        by (rewrite <- app_assoc; reflexivity).
      erewrite readback_wrap; [|apply Forall_app; split; [exact Hsdd|repeat constructor]|repeat constructor|exact Ha].
      rewrite existsb_app. cbn. rewrite !orb_true_r. reflexivity.
    + replace (sym ++ [c_ht; c_lpar] ++ format_decimal is_int (dabs d) places sep ns false ++ [c_rpar])
        with ((sym ++ [c_ht; c_lpar]) ++ format_decimal is_int (dabs d) places sep ns false ++ [c_rpar])
        by (rewrite <- app_assoc; reflexivity).
      rewrite filter_wrap; [exact Da|apply Forall_app; split; [exact Hsdd|repeat constructor]|repeat constructor].
  - assert (Hsg : existsb is_sg sym = false) by (apply existsb_none; exact Hssg).
    destruct acct.
    + split.
      * replace (sym ++ [c_ht] ++ format_decimal is_int d places sep ns false)
          with ((sym ++ [c_ht]) ++ format_decimal is_int d places sep ns false ++ []) by (rewrite app_nil_r, <- app_assoc; reflexivity).
        erewrite readback_wrap; [|apply Forall_app; split; [exact Hsdd|repeat constructor]|constructor|exact Hd].
        rewrite existsb_app, Hsg. cbn. rewrite orb_false_r. reflexivity.
      * replace (sym ++ [c_ht] ++ format_decimal is_int d places sep ns false)
          with ((sym ++ [c_ht]) ++ format_decimal is_int d places sep ns false ++ []) by (rewrite app_nil_r, <- app_assoc; reflexivity).
        rewrite filter_wrap; [exact Dd|apply Forall_app; split; [exact Hsdd|repeat constructor]|constructor].
    + split.
      * replace (sym ++ format_decimal is_int d places sep ns false)
          with (sym ++ format_decimal is_int d places sep ns false ++ []) by (rewrite app_nil_r; reflexivity).
        erewrite readback_wrap; [|exact Hsdd|constructor|exact Hd].
        rewrite Hsg. cbn. rewrite orb_false_r. reflexivity.
      * replace (sym ++ format_decimal is_int d places sep ns false)
          with (sym ++ format_decimal is_int d places sep ns false ++ []) by (rewrite app_nil_r; reflexivity).
        rewrite filter_wrap; [exact Dd|exact Hsdd|constructor].
Qed.

(* ---------- rounding carry ---------- *)
Lemma rounding_carry_value mant p k j : 0 <= k -> 0 <= p -> 1 <= j ->
  10 ^ (k + p + j) - 5 * 10 ^ (j - 1) <= mant < 10 ^ (k + p + j) ->
  rhu_at mant (- p - j) (- p) = 10 ^ (k + p).
Proof.
  intros Hk Hp Hj [Hlo Hhi]. unfold rhu_at. destruct (Z.leb_spec (- p) (- p - j)); [lia|].
  replace (- p - (- p - j)) with j by lia. replace (j - 1) with (j - 1) by lia.
  assert (Hj10 : 10 ^ j = 10 * 10 ^ (j - 1)).
  { replace j with ((j - 1) + 1) at 1 by lia. apply pow_succ_b. lia. }
  assert (Hs : 10 ^ (k + p + j) = 10 ^ (k + p) * 10 ^ j) by (apply Z.pow_add_r; lia).
  assert (0 < 10 ^ (j - 1)) by (apply pow_pos_b; lia).
  assert (0 < 10 ^ (k + p)) by (apply pow_pos_b; lia).
  symmetry. apply (Z.div_unique _ _ _ (mant + 5 * 10 ^ (j - 1) - 10 ^ (k + p) * 10 ^ j)); lia.
Qed.

Lemma rounding_carry_text sep p k : 0 <= k -> 0 <= p ->
  fixed_str sep (10 ^ (k + p)) p =
  (if sep then group3 (49%N :: zeros k) else 49%N :: zeros k) ++ (if 0 <? p then c_dot :: zeros p else []).
Proof.
  intros Hk Hp. unfold fixed_str.
  assert (0 < 10 ^ p) by (apply pow_pos_b; lia).
  replace (10 ^ (k + p) / 10 ^ p) with (10 ^ k) by (rewrite Z.pow_add_r, Z.div_mul by lia; reflexivity).
  rewrite zstr_pow10 by lia. f_equal. destruct (0 <? p); [|reflexivity]. f_equal. unfold zeros.
  apply digs_zero; [apply Z.pow_nonneg; lia|]. rewrite Z2Nat.id by lia.
  rewrite Z.pow_add_r by lia. apply Z.mod_mul. lia.
Qed.
