(* Proofs about Model/Grid.v: refinement of the editing operations to a plain grid of values. *)
From Coq Require Import ZArith NArith List Bool Lia ZifyNat ZifyBool.
From NP Require Import Model.PyBase Model.Grid.
Import ListNotations.
Open Scope Z_scope.

(* ---------- the abstract object: a plain two-dimensional grid of values ---------- *)
Definition pgrid := list (list (option Z)).
Definition vals (t : table) : pgrid := map (map cval) (data t).

Definition p_add_row (g : pgrid) (nc : Z) (n : Z) (s : Z) (d : option Z) : pgrid :=
  insert_at g s (repeat (repeat d (Z.to_nat nc)) (Z.to_nat n)).
Definition p_add_col (g : pgrid) (n : Z) (s : Z) (d : option Z) : pgrid :=
  map (fun row => insert_at row s (repeat d (Z.to_nat n))) g.
Definition p_del_row (g : pgrid) (n : Z) (s : option Z) : pgrid :=
  match s with Some s => delete_at g s n | None => delete_last g n end.
Definition p_del_col (g : pgrid) (n : Z) (s : option Z) : pgrid :=
  map (fun row => match s with Some s => delete_at row s n | None => delete_last row n end) g.
Definition p_set (g : pgrid) (r c : Z) (v : option Z) : pgrid :=
  match nth_error g (Z.to_nat r) with
  | Some row => set_nth g (Z.to_nat r) (set_nth row (Z.to_nat c) v)
  | None => g
  end.

(* ---------- list lemmas ---------- *)
Lemma zrange_length a b : length (zrange a b) = Z.to_nat (b - a).
Proof. unfold zrange. now rewrite map_length, seq_length. Qed.

Lemma map_snd_combine {A B C} (f : B -> C) : forall (a : list A) (b : list B), length a = length b ->
  map (fun p => f (snd p)) (combine a b) = map f b.
Proof.
  induction a as [|x a IH]; intros [|y b] H; try discriminate; [reflexivity|].
  cbn. f_equal. apply IH. now injection H.
Qed.

Lemma map_insert_at {A B} (f : A -> B) l i xs : map f (insert_at l i xs) = insert_at (map f l) i (map f xs).
Proof. unfold insert_at. now rewrite !map_app, firstn_map, skipn_map. Qed.
Lemma map_delete_at {A B} (f : A -> B) l i n : map f (delete_at l i n) = delete_at (map f l) i n.
Proof. unfold delete_at. now rewrite map_app, firstn_map, skipn_map. Qed.
Lemma map_delete_last {A B} (f : A -> B) l n : map f (delete_last l n) = delete_last (map f l) n.
Proof. unfold delete_last. now rewrite firstn_map, map_length. Qed.
Lemma map_set_nth {A B} (f : A -> B) : forall l i x, map f (set_nth l i x) = set_nth (map f l) i (f x).
Proof. induction l as [|h t IH]; intros [|i] x; cbn; try reflexivity. now rewrite IH. Qed.

Lemma cval_renum_row r row : map cval (renum_row r row) = map cval row.
Proof.
  unfold renum_row. rewrite map_map. cbn [cval].
  apply (map_snd_combine cval). rewrite zrange_length. lia.
Qed.
Lemma cval_renum_cols row : map cval (renum_cols row) = map cval row.
Proof.
  unfold renum_cols. rewrite map_map. cbn [cval].
  apply (map_snd_combine cval). rewrite zrange_length. lia.
Qed.

Lemma combine_snd_le {A B C} (f : B -> C) : forall (b : list B) (a : list A), (length b <= length a)%nat ->
  map (fun p => f (snd p)) (combine a b) = map f b.
Proof.
  induction b as [|y b IH]; intros [|x a] H; cbn in *; try reflexivity; try lia.
  f_equal. apply IH. lia.
Qed.

Lemma vals_renum_from d s : map (map cval) (renum_from d s) = map (map cval) d.
Proof.
  transitivity (map (map cval) (firstn (Z.to_nat s) d) ++ map (map cval) (skipn (Z.to_nat s) d));
    [|now rewrite <- map_app, firstn_skipn].
  unfold renum_from. rewrite map_app. f_equal. rewrite map_map.
  transitivity (map (fun p => map cval (snd p)) (combine (zrange s (Z.of_nat (length d))) (skipn (Z.to_nat s) d))).
  - apply map_ext. intros [r row]. cbn [fst snd]. apply cval_renum_row.
  - apply (combine_snd_le (map cval)). rewrite zrange_length, skipn_length. lia.
Qed.

(* ---------- add_row / delete_row / delete_column without default ---------- *)
Lemma empty_row_vals m r cs : map cval (map (fun c => empty_cell m r c) cs) = repeat None (length cs).
Proof. induction cs; cbn; [reflexivity|now rewrite IHcs]. Qed.

Lemma map_const_repeat {A B} (f : A -> B) (y : B) : forall l, (forall x, f x = y) -> map f l = repeat y (length l).
Proof. induction l; intros H; cbn; [reflexivity|now rewrite H, IHl]. Qed.

Theorem add_row_refines t n s t' : 0 <= n -> 0 <= ncols t ->
  add_row t n s None = Ok t' ->
  vals t' = p_add_row (vals t) (ncols t) n (match s with Some x => x | None => nrows t end) None
  /\ nrows t' = nrows t + n /\ ncols t' = ncols t.
Proof.
  intros Hn Hc. unfold add_row.
  destruct (match s with Some s0 => (s0 <? 0) || (nrows t <=? s0) | None => false end); [discriminate|].
  intros H. injection H as <-. cbn [nrows ncols]. split; [|split; reflexivity].
  unfold vals. cbn [data]. rewrite vals_renum_from, map_insert_at. unfold p_add_row. f_equal.
  rewrite map_map.
  rewrite (map_const_repeat _ (repeat None (Z.to_nat (ncols t)))).
  - now rewrite zrange_length, Z.add_simpl_l.
  - intros r. rewrite empty_row_vals, zrange_length. f_equal. lia.
Qed.

Theorem delete_row_refines t n s t' : delete_row t n s = Ok t' ->
  vals t' = p_del_row (vals t) n s /\ nrows t' = nrows t - n /\ ncols t' = ncols t.
Proof.
  unfold delete_row.
  destruct (match s with Some s0 => (s0 <? 0) || (nrows t <=? s0) | None => false end); [discriminate|].
  intros H. injection H as <-. cbn [nrows ncols]. split; [|split; reflexivity].
  unfold vals, p_del_row. cbn [data]. destruct s as [s|].
  - now rewrite vals_renum_from, map_delete_at.
  - now rewrite map_delete_last.
Qed.

Theorem delete_column_refines t n s t' : delete_column t n s = Ok t' ->
  vals t' = p_del_col (vals t) n s /\ nrows t' = nrows t /\ ncols t' = ncols t - n.
Proof.
  unfold delete_column.
  destruct (match s with Some s0 => (s0 <? 0) || (ncols t <=? s0) | None => false end); [discriminate|].
  intros H. injection H as <-. cbn [nrows ncols]. split; [|split; reflexivity].
  unfold vals, p_del_col. cbn [data]. rewrite !map_map. apply map_ext. intros row.
  rewrite cval_renum_cols. destruct s; [apply map_delete_at|apply map_delete_last].
Qed.

(* ---------- the error outcomes are exactly the index checks ---------- *)
Theorem structural_errors t n s :
  (forall d, (exists t', add_row t n s d = Ok t') \/ add_row t n s d = Err IndexError) /\
  (forall d, (exists t', add_column t n s d = Ok t') \/ add_column t n s d = Err IndexError) /\
  ((exists t', delete_row t n s = Ok t') \/ delete_row t n s = Err IndexError) /\
  ((exists t', delete_column t n s = Ok t') \/ delete_column t n s = Err IndexError).
Proof.
  unfold add_row, add_column, delete_row, delete_column.
  repeat split; intros;
  match goal with |- context [if ?b then _ else _] => destruct b end; eauto.
Qed.

Theorem start_out_of_range_rejected t n s d : (s < 0 \/ nrows t <= s) ->
  add_row t n (Some s) d = Err IndexError /\ delete_row t n (Some s) = Err IndexError.
Proof.
  intros H. unfold add_row, delete_row.
  assert (E : (s <? 0) || (nrows t <=? s) = true).
  { destruct H; [apply orb_true_intro; left; now apply Z.ltb_lt|apply orb_true_intro; right; now apply Z.leb_le]. }
  now rewrite E.
Qed.

(* ---------- well-formedness: the reported dimensions are the dimensions of the data ---------- *)
Definition wf (t : table) : Prop :=
  nrows t = Z.of_nat (length (data t)) /\ 0 <= ncols t /\
  Forall (fun row => Z.of_nat (length row) = ncols t) (data t).

Lemma insert_at_length {A} (l xs : list A) i : 0 <= i <= Z.of_nat (length l) ->
  length (insert_at l i xs) = (length l + length xs)%nat.
Proof. intros H. unfold insert_at. rewrite !app_length, firstn_length, skipn_length. lia. Qed.

Lemma renum_row_length r row : length (renum_row r row) = length row.
Proof. unfold renum_row. rewrite map_length, combine_length, zrange_length. lia. Qed.
Lemma renum_cols_length row : length (renum_cols row) = length row.
Proof. unfold renum_cols. rewrite map_length, combine_length, zrange_length. lia. Qed.

Lemma lengths_of_vals (d : list (list cell)) : map (@length _) (map (map cval) d) = map (@length _) d.
Proof. rewrite map_map. apply map_ext. intros. apply map_length. Qed.

(* row lengths are determined by the values grid, so well-formedness transfers through vals *)
Definition pwf (nr nc : Z) (g : pgrid) : Prop :=
  nr = Z.of_nat (length g) /\ 0 <= nc /\ Forall (fun row => Z.of_nat (length row) = nc) g.

Lemma wf_pwf t : wf t <-> pwf (nrows t) (ncols t) (vals t).
Proof.
  unfold wf, pwf, vals. rewrite map_length. split; intros (A & B & C); repeat split; try assumption.
  - apply Forall_map. eapply Forall_impl; [|exact C]. intros row H. cbn beta. now rewrite map_length.
  - apply Forall_map in C. eapply Forall_impl; [|exact C]. intros row H. cbn beta in H. now rewrite map_length in H.
Qed.

Lemma pwf_add_row g nr nc n s d : pwf nr nc g -> 0 <= n -> 0 <= s <= nr ->
  pwf (nr + n) nc (p_add_row g nc n s d).
Proof.
  intros (A & B & C) Hn Hs. unfold p_add_row. repeat split; [|assumption|].
  - rewrite insert_at_length by lia. rewrite repeat_length. lia.
  - unfold insert_at. apply Forall_app; split; [|apply Forall_app; split].
    + rewrite <- (firstn_skipn (Z.to_nat s) g) in C. now apply Forall_app in C.
    + apply Forall_forall. intros x Hx. apply repeat_spec in Hx. subst. rewrite repeat_length. lia.
    + rewrite <- (firstn_skipn (Z.to_nat s) g) in C. now apply Forall_app in C.
Qed.

Lemma wf_add_row t n s t' : wf t -> 0 <= n -> add_row t n s None = Ok t' -> wf t'.
Proof.
  intros Hw Hn H. pose proof Hw as (A & B & C).
  assert (Hs : 0 <= match s with Some x => x | None => nrows t end <= nrows t).
  { unfold add_row in H. destruct s as [s|]; [|lia].
    destruct (Z.ltb_spec s 0); [discriminate|]. destruct (Z.leb_spec (nrows t) s); [discriminate|]. lia. }
  destruct (add_row_refines t n s t' Hn B H) as (E1 & E2 & E3).
  apply wf_pwf. rewrite E1, E2, E3. apply pwf_add_row; [now apply wf_pwf|assumption|assumption].
Qed.

(* ---------- writes at validated positions ---------- *)
Lemma vals_set_cell d r c x : map (map cval) (set_cell d r c x) = p_set (map (map cval) d) r c (cval x).
Proof.
  unfold set_cell, p_set. rewrite nth_error_map.
  destruct (nth_error d (Z.to_nat r)) as [row|]; cbn [option_map]; [|reflexivity].
  now rewrite map_set_nth, map_set_nth.
Qed.

Theorem put_refines t r c v : vals (put t r c v) = p_set (vals t) r c (Some v)
  /\ nrows (put t r c v) = nrows t /\ ncols (put t r c v) = ncols t.
Proof. unfold put, vals. cbn [data nrows ncols]. rewrite vals_set_cell. repeat split. Qed.

Lemma set_nth_length {A} : forall (l : list A) i x, length (set_nth l i x) = length l.
Proof. induction l as [|h t IH]; intros [|i] x; cbn; auto. Qed.

Lemma pwf_set g nr nc r c v : pwf nr nc g -> pwf nr nc (p_set g r c v).
Proof.
  intros (A & B & C). unfold p_set. destruct (nth_error g (Z.to_nat r)) as [row|] eqn:E; [|now repeat split].
  repeat split; [now rewrite set_nth_length|assumption|].
  assert (Hrow : Z.of_nat (length row) = nc).
  { apply nth_error_In in E. exact (proj1 (Forall_forall _ _) C row E). }
  clear E A. revert C. generalize (Z.to_nat r). induction g as [|h t IH]; intros [|i] C; cbn [set_nth]; try assumption.
  - constructor; [now rewrite set_nth_length|exact (Forall_inv_tail C)].
  - constructor; [exact (Forall_inv C)|apply IH; exact (Forall_inv_tail C)].
Qed.

Lemma wf_put t r c v : wf t -> wf (put t r c v).
Proof.
  intros Hw. apply wf_pwf. destruct (put_refines t r c v) as (E1 & E2 & E3). rewrite E1, E2, E3.
  apply pwf_set. now apply wf_pwf.
Qed.

(* growth by _validate_cell_coords: empty rows appended, then empty columns appended *)
Lemma insert_at_end {A} (l xs : list A) : insert_at l (Z.of_nat (length l)) xs = l ++ xs.
Proof. unfold insert_at. rewrite Nat2Z.id, firstn_all, skipn_all, app_nil_r. reflexivity. Qed.

Lemma grow_rows_spec : forall k t, wf t ->
  wf (grow_rows k t) /\ vals (grow_rows k t) = vals t ++ repeat (repeat None (Z.to_nat (ncols t))) k /\
  nrows (grow_rows k t) = nrows t + Z.of_nat k /\ ncols (grow_rows k t) = ncols t.
Proof.
  induction k as [|k IH]; intros t Hw; cbn [grow_rows].
  - cbn [repeat]. rewrite app_nil_r. split; [assumption|]. split; [reflexivity|]. split; [lia|reflexivity].
  - destruct (add_row t 1 None None) as [t1|e] eqn:E; [|unfold add_row in E; discriminate].
    pose proof Hw as (A & B & C).
    destruct (add_row_refines t 1 None t1 ltac:(lia) B E) as (E1 & E2 & E3).
    assert (H01 : 0 <= 1) by lia.
    assert (Hw1 : wf t1) by exact (wf_add_row t 1 None t1 Hw H01 E).
    destruct (IH t1 Hw1) as (I1 & I2 & I3 & I4).
    split; [assumption|]. split; [|split; [lia|congruence]].
    rewrite I2, E1, E3. unfold p_add_row. rewrite A. unfold vals at 1.
    replace (Z.of_nat (length (data t))) with (Z.of_nat (length (map (map cval) (data t)))) by now rewrite map_length.
    rewrite insert_at_end. rewrite <- app_assoc. f_equal.
Qed.

(* ---------- add_column without default ---------- *)
Lemma empty_cells_vals m r s cs : map cval (map (fun c => empty_cell m r (s + c)) cs) = repeat None (length cs).
Proof. induction cs; cbn; [reflexivity|now rewrite IHcs]. Qed.

Theorem add_column_refines t n s t' : 0 <= n -> wf t ->
  add_column t n s None = Ok t' ->
  vals t' = p_add_col (vals t) n (match s with Some x => x | None => ncols t end) None
  /\ nrows t' = nrows t /\ ncols t' = ncols t + n.
Proof.
  intros Hn (A & B & C). unfold add_column.
  destruct (match s with Some s0 => (s0 <? 0) || (ncols t <=? s0) | None => false end); [discriminate|].
  intros H. injection H as <-. cbn [nrows ncols]. split; [|split; reflexivity].
  unfold vals, p_add_col. cbn [data]. rewrite map_map.
  transitivity (map (fun p => insert_at (map cval (snd p)) (match s with Some x => x | None => ncols t end)
                                          (repeat None (Z.to_nat n)))
                    (combine (zrange 0 (nrows t)) (data t))).
  - apply map_ext. intros [r row]. cbn [fst snd]. rewrite cval_renum_cols, map_insert_at. f_equal.
    rewrite empty_cells_vals, zrange_length. f_equal. lia.
  - rewrite map_map.
    apply (combine_snd_le (fun row => insert_at (map cval row) (match s with Some x => x | None => ncols t end) (repeat None (Z.to_nat n)))).
    rewrite zrange_length. lia.
Qed.

Lemma pwf_add_col g nr nc n s d : pwf nr nc g -> 0 <= n -> 0 <= s <= nc -> pwf nr (nc + n) (p_add_col g n s d).
Proof.
  intros (A & B & C) Hn Hs. unfold p_add_col. repeat split; [now rewrite map_length|lia|].
  apply Forall_map. eapply Forall_impl; [|exact C]. intros row H. cbn beta in *.
  rewrite insert_at_length by lia. rewrite repeat_length. lia.
Qed.

Lemma wf_add_column t n s t' : wf t -> 0 <= n -> add_column t n s None = Ok t' -> wf t'.
Proof.
  intros Hw Hn H. pose proof Hw as (A & B & C).
  assert (Hs : 0 <= match s with Some x => x | None => ncols t end <= ncols t).
  { unfold add_column in H. destruct s as [s|]; [|lia].
    destruct (Z.ltb_spec s 0); [discriminate|]. destruct (Z.leb_spec (ncols t) s); [discriminate|]. lia. }
  destruct (add_column_refines t n s t' Hn Hw H) as (E1 & E2 & E3).
  apply wf_pwf. rewrite E1, E2, E3. apply pwf_add_col; [now apply wf_pwf|assumption|assumption].
Qed.

Lemma grow_cols_spec : forall k t, wf t ->
  wf (grow_cols k t) /\ vals (grow_cols k t) = map (fun row => row ++ repeat None k) (vals t) /\
  nrows (grow_cols k t) = nrows t /\ ncols (grow_cols k t) = ncols t + Z.of_nat k.
Proof.
  induction k as [|k IH]; intros t Hw; cbn [grow_cols].
  - split; [assumption|]. split; [|split; [reflexivity|lia]].
    cbn [repeat]. rewrite <- (map_id (vals t)) at 1. apply map_ext. intros. now rewrite app_nil_r.
  - destruct (add_column t 1 None None) as [t1|e] eqn:E; [|unfold add_column in E; discriminate].
    pose proof Hw as (A & B & C).
    assert (H01 : 0 <= 1) by lia.
    destruct (add_column_refines t 1 None t1 H01 Hw E) as (E1 & E2 & E3).
    assert (Hw1 : wf t1) by exact (wf_add_column t 1 None t1 Hw H01 E).
    destruct (IH t1 Hw1) as (I1 & I2 & I3 & I4).
    split; [assumption|]. split; [|split; [congruence|lia]].
    rewrite I2, E1. unfold p_add_col. rewrite map_map.
    apply (proj1 (wf_pwf t)) in Hw. destruct Hw as (_ & _ & Hrows).
    apply map_ext_in. intros row Hin.
    pose proof (proj1 (Forall_forall _ _) Hrows row Hin) as Hlen. cbn beta in Hlen.
    rewrite <- Hlen, insert_at_end. rewrite <- app_assoc. reflexivity.
Qed.

(* ---------- write: limits, growth to exactly the required size, the value lands at (r, c) ---------- *)
Definition p_grow (g : pgrid) (nc : Z) (kr kc : nat) : pgrid :=
  map (fun row => row ++ repeat None kc) (g ++ repeat (repeat None (Z.to_nat nc)) kr).

Theorem write_refines t r c v : wf t -> 0 <= r < MAX_ROW_COUNT -> 0 <= c < MAX_COL_COUNT ->
  exists t', write t r c v = Ok t' /\ wf t' /\
    nrows t' = Z.max (nrows t) (r + 1) /\ ncols t' = Z.max (ncols t) (c + 1) /\
    vals t' = p_set (p_grow (vals t) (ncols t) (Z.to_nat (r + 1 - nrows t)) (Z.to_nat (c + 1 - ncols t))) r c (Some v).
Proof.
  intros Hw Hr Hc. unfold write, validate.
  destruct (Z.ltb_spec r 0); [lia|]. destruct (Z.ltb_spec c 0); [lia|]. cbn [orb].
  destruct (Z.leb_spec MAX_ROW_COUNT r); [lia|]. destruct (Z.leb_spec MAX_COL_COUNT c); [lia|].
  destruct (grow_rows_spec (Z.to_nat (r + 1 - nrows t)) t Hw) as (W1 & V1 & R1 & C1).
  set (t1 := grow_rows (Z.to_nat (r + 1 - nrows t)) t) in *.
  destruct (grow_cols_spec (Z.to_nat (c + 1 - ncols t)) t1 W1) as (W2 & V2 & R2 & C2).
  set (t2 := grow_cols (Z.to_nat (c + 1 - ncols t)) t1) in *.
  exists (put t2 r c v). split; [reflexivity|].
  destruct (put_refines t2 r c v) as (P1 & P2 & P3).
  pose proof Hw as (A & B & _).
  split; [now apply wf_put|]. split; [lia|]. split; [lia|].
  rewrite P1, V2, V1. reflexivity.
Qed.

Theorem write_bounds_lemma t r c v :
  (r < 0 \/ c < 0 \/ MAX_ROW_COUNT <= r \/ MAX_COL_COUNT <= c) -> write t r c v = Err IndexError.
Proof.
  intros H. unfold write, validate.
  destruct (Z.ltb_spec r 0); [reflexivity|]. destruct (Z.ltb_spec c 0); [reflexivity|]. cbn [orb].
  destruct (Z.leb_spec MAX_ROW_COUNT r); [reflexivity|]. destruct (Z.leb_spec MAX_COL_COUNT c); [reflexivity|]. lia.
Qed.

Theorem read_bounds_lemma t r c :
  (r < 0 \/ nrows t <= r \/ c < 0 \/ ncols t <= c) -> read t r c = Err IndexError.
Proof.
  intros H. unfold read.
  destruct (Z.leb_spec (nrows t) r); [reflexivity|]. destruct (Z.ltb_spec r 0); [reflexivity|]. cbn [orb].
  destruct (Z.leb_spec (ncols t) c); [reflexivity|]. destruct (Z.ltb_spec c 0); [reflexivity|]. lia.
Qed.

Lemma get_cell_vals d r c : option_map cval (get_cell d r c) =
  match nth_error (map (map cval) d) (Z.to_nat r) with Some row => nth_error row (Z.to_nat c) | None => None end.
Proof.
  unfold get_cell. rewrite nth_error_map. destruct (nth_error d (Z.to_nat r)); cbn [option_map]; [|reflexivity].
  now rewrite nth_error_map.
Qed.

(* inside the table a read returns the cell whose value is the plain grid's entry *)
Theorem read_inside_lemma t r c : wf t -> 0 <= r < nrows t -> 0 <= c < ncols t ->
  exists x, read t r c = Ok x /\
    Some (cval x) = match nth_error (vals t) (Z.to_nat r) with Some row => nth_error row (Z.to_nat c) | None => None end.
Proof.
  intros (A & B & C) Hr Hc. unfold read.
  destruct (Z.leb_spec (nrows t) r); [lia|]. destruct (Z.ltb_spec r 0); [lia|]. cbn [orb].
  destruct (Z.leb_spec (ncols t) c); [lia|]. destruct (Z.ltb_spec c 0); [lia|]. cbn [orb].
  pose proof (get_cell_vals (data t) r c) as G.
  destruct (get_cell (data t) r c) as [x|] eqn:E.
  - exists x. split; [reflexivity|]. unfold vals. rewrite <- G. reflexivity.
  - exfalso. unfold get_cell in E.
    destruct (nth_error (data t) (Z.to_nat r)) as [row|] eqn:Er.
    + apply nth_error_None in E. pose proof (nth_error_In _ _ Er) as Hin.
      pose proof (proj1 (Forall_forall _ _) C row Hin) as Hl. cbn beta in Hl. lia.
    + apply nth_error_None in Er. lia.
Qed.

(* ---------- defaults: the new cells are then written one by one ---------- *)
Lemma put_all_spec : forall ps t v, wf t ->
  wf (put_all t ps v) /\
  vals (put_all t ps v) = fold_left (fun g p => p_set g (fst p) (snd p) (Some v)) ps (vals t) /\
  nrows (put_all t ps v) = nrows t /\ ncols (put_all t ps v) = ncols t.
Proof.
  induction ps as [|[r c] ps IH]; intros t v Hw; cbn [put_all fold_left].
  - split; [assumption|]. repeat split; reflexivity.
  - destruct (put_refines t r c v) as (P1 & P2 & P3).
    destruct (IH (put t r c v) v (wf_put t r c v Hw)) as (I1 & I2 & I3 & I4).
    split; [assumption|]. split; [now rewrite I2, P1|]. split; congruence.
Qed.

Definition new_positions (s n nc : Z) : list (Z * Z) :=
  flat_map (fun r => map (fun c => (r, c)) (zrange 0 nc)) (zrange s (s + n)).

Theorem add_row_default_refines t n s v t' : 0 <= n -> wf t ->
  add_row t n s (Some v) = Ok t' ->
  let s' := match s with Some x => x | None => nrows t end in
  wf t' /\ nrows t' = nrows t + n /\ ncols t' = ncols t /\
  vals t' = fold_left (fun g p => p_set g (fst p) (snd p) (Some v)) (new_positions s' n (ncols t))
                      (p_add_row (vals t) (ncols t) n s' None).
Proof.
  intros Hn Hw H s'.
  assert (H0 : exists t0, add_row t n s None = Ok t0 /\ t' = put_all t0 (new_positions s' n (ncols t)) v).
  { unfold add_row in *. destruct (match s with Some s0 => (s0 <? 0) || (nrows t <=? s0) | None => false end); [discriminate|].
    injection H as <-. eexists. split; reflexivity. }
  destruct H0 as (t0 & E0 & ->).
  pose proof Hw as (A & B & C).
  destruct (add_row_refines t n s t0 Hn B E0) as (E1 & E2 & E3).
  destruct (put_all_spec (new_positions s' n (ncols t)) t0 v (wf_add_row t n s t0 Hw Hn E0)) as (I1 & I2 & I3 & I4).
  split; [assumption|]. split; [congruence|]. split; [congruence|]. now rewrite I2, E1.
Qed.

Lemma wf_add_row_any t n s d t' : wf t -> 0 <= n -> add_row t n s d = Ok t' -> wf t'.
Proof.
  intros Hw Hn H. destruct d as [v|]; [|eapply wf_add_row; eauto].
  exact (proj1 (add_row_default_refines t n s v t' Hn Hw H)).
Qed.

(* add_column with a default: per row, the inserted cells are overwritten with the default *)
Lemma fold_set_length {A} (f : Z -> A) : forall cs (row : list A),
  length (fold_left (fun rw c => set_nth rw (Z.to_nat c) (f c)) cs row) = length row.
Proof. induction cs as [|c cs IH]; intros row; cbn [fold_left]; [reflexivity|]. now rewrite IH, set_nth_length. Qed.

Lemma fold_set_vals m r v : forall cs (row : list cell),
  map cval (fold_left (fun rw c => set_nth rw (Z.to_nat c) (value_cell m r c v)) cs row) =
  fold_left (fun rw c => set_nth rw (Z.to_nat c) (Some v)) cs (map cval row).
Proof.
  induction cs as [|c cs IH]; intros row; cbn [fold_left]; [reflexivity|].
  now rewrite IH, map_set_nth.
Qed.

Theorem add_column_default_refines t n s v t' : 0 <= n -> wf t ->
  add_column t n s (Some v) = Ok t' ->
  let s' := match s with Some x => x | None => ncols t end in
  nrows t' = nrows t /\ ncols t' = ncols t + n /\
  vals t' = map (fun row => fold_left (fun rw c => set_nth rw (Z.to_nat c) (Some v)) (zrange s' (s' + n))
                                      (insert_at row s' (repeat None (Z.to_nat n)))) (vals t).
Proof.
  intros Hn (A & B & C). unfold add_column.
  destruct (match s with Some s0 => (s0 <? 0) || (ncols t <=? s0) | None => false end); [discriminate|].
  intros H. injection H as <-. cbn [nrows ncols]. split; [reflexivity|]. split; [reflexivity|].
  unfold vals. cbn [data]. rewrite !map_map.
  transitivity (map (fun p => fold_left (fun rw c => set_nth rw (Z.to_nat c) (Some v))
                                        (zrange (match s with Some x => x | None => ncols t end) (match s with Some x => x | None => ncols t end + n))
                                        (insert_at (map cval (snd p)) (match s with Some x => x | None => ncols t end) (repeat None (Z.to_nat n))))
                    (combine (zrange 0 (nrows t)) (data t))).
  - apply map_ext. intros [r row]. cbn [fst snd]. rewrite fold_set_vals, cval_renum_cols, map_insert_at. f_equal. f_equal.
    rewrite empty_cells_vals, zrange_length. f_equal. lia.
  - apply (combine_snd_le (fun row => fold_left (fun rw c => set_nth rw (Z.to_nat c) (Some v)) _ (insert_at (map cval row) _ _))).
    rewrite zrange_length. lia.
Qed.

Lemma wf_add_column_any t n s d t' : wf t -> 0 <= n -> add_column t n s d = Ok t' -> wf t'.
Proof.
  intros Hw Hn H. destruct d as [v|]; [|eapply wf_add_column; eauto].
  pose proof Hw as (A & B & C).
  assert (Hs : 0 <= match s with Some x => x | None => ncols t end <= ncols t).
  { unfold add_column in H. destruct s as [s|]; [|lia].
    destruct (Z.ltb_spec s 0); [discriminate|]. destruct (Z.leb_spec (ncols t) s); [discriminate|]. lia. }
  destruct (add_column_default_refines t n s v t' Hn Hw H) as (E2 & E3 & E1).
  apply wf_pwf. rewrite E1, E2, E3.
  apply (proj1 (wf_pwf t)) in Hw. destruct Hw as (PA & PB & PC).
  repeat split; [now rewrite map_length|lia|].
  apply Forall_map. eapply Forall_impl; [|exact PC]. intros row Hl. cbn beta in *.
  rewrite fold_set_length, insert_at_length by lia. rewrite repeat_length. lia.
Qed.

(* deletions keep well-formedness when they stay within the table *)
Lemma wf_delete_row t n s t' : wf t -> 0 <= n ->
  (match s with Some x => x + n <= nrows t | None => n <= nrows t end) ->
  delete_row t n s = Ok t' -> wf t'.
Proof.
  intros Hw Hn Hin H. pose proof Hw as (A & B & C).
  destruct (delete_row_refines t n s t' H) as (E1 & E2 & E3).
  assert (Hs : match s with Some x => 0 <= x | None => True end).
  { unfold delete_row in H. destruct s as [s|]; [|exact I]. destruct (Z.ltb_spec s 0); [discriminate|]. lia. }
  apply wf_pwf. rewrite E1, E2, E3.
  apply (proj1 (wf_pwf t)) in Hw. destruct Hw as (PA & PB & PC).
  unfold p_del_row. destruct s as [s|]; repeat split; try assumption.
  - unfold delete_at. rewrite app_length, firstn_length, skipn_length. lia.
  - unfold delete_at. apply Forall_app. split.
    + rewrite <- (firstn_skipn (Z.to_nat s) (vals t)) in PC. now apply Forall_app in PC.
    + rewrite <- (firstn_skipn (Z.to_nat (s + n)) (vals t)) in PC. now apply Forall_app in PC.
  - unfold delete_last. rewrite firstn_length. lia.
  - unfold delete_last. rewrite <- (firstn_skipn (length (vals t) - Z.to_nat n) (vals t)) in PC. now apply Forall_app in PC.
Qed.

Lemma wf_delete_column t n s t' : wf t -> 0 <= n ->
  (match s with Some x => x + n <= ncols t | None => n <= ncols t end) ->
  delete_column t n s = Ok t' -> wf t'.
Proof.
  intros Hw Hn Hin H. pose proof Hw as (A & B & C).
  destruct (delete_column_refines t n s t' H) as (E1 & E2 & E3).
  assert (Hs : match s with Some x => 0 <= x | None => True end).
  { unfold delete_column in H. destruct s as [s|]; [|exact I]. destruct (Z.ltb_spec s 0); [discriminate|]. lia. }
  apply wf_pwf. rewrite E1, E2, E3.
  apply (proj1 (wf_pwf t)) in Hw. destruct Hw as (PA & PB & PC).
  unfold p_del_col. repeat split; [now rewrite map_length|destruct s; lia|].
  apply Forall_map. eapply Forall_impl; [|exact PC]. intros row Hl. cbn beta in *.
  destruct s as [s|].
  - unfold delete_at. rewrite app_length, firstn_length, skipn_length. lia.
  - unfold delete_last. rewrite firstn_length. lia.
Qed.

Lemma wf_new_table nr nc : 0 <= nr -> 0 <= nc -> wf (new_table nr nc).
Proof.
  intros Hr Hc. unfold wf, new_table. cbn [nrows ncols data].
  rewrite map_length, zrange_length. repeat split; [lia|assumption|].
  apply Forall_map. apply Forall_forall. intros r _. rewrite map_length, zrange_length. lia.
Qed.

(* ---------- histories ---------- *)
Inductive op :=
| OWrite (r c v : Z)
| OAddRow (n : Z) (s d : option Z)
| OAddCol (n : Z) (s d : option Z)
| ODelRow (n : Z) (s : option Z)
| ODelCol (n : Z) (s : option Z).

Definition apply_op (t : table) (o : op) : result table :=
  match o with
  | OWrite r c v => write t r c v
  | OAddRow n s d => add_row t n s d
  | OAddCol n s d => add_column t n s d
  | ODelRow n s => delete_row t n s
  | ODelCol n s => delete_column t n s
  end.

(* the domain of the property: positive counts, deletions within the remaining extent *)
Definition in_domain (t : table) (o : op) : bool :=
  match o with
  | OWrite _ _ _ => true
  | OAddRow n _ _ | OAddCol n _ _ => 0 <=? n
  | ODelRow n s => (0 <=? n) && (match s with Some x => x + n <=? nrows t | None => n <=? nrows t end)
  | ODelCol n s => (0 <=? n) && (match s with Some x => x + n <=? ncols t | None => n <=? ncols t end)
  end.

(* an operation that raises leaves the table as it was *)
Definition step (t : table) (o : op) : table :=
  if in_domain t o then match apply_op t o with Ok t' => t' | Err _ => t end else t.
Definition run (t : table) (ops : list op) : table := fold_left step ops t.

Lemma wf_step t o : wf t -> wf (step t o).
Proof.
  intros Hw. unfold step. destruct (in_domain t o) eqn:D; [|assumption].
  destruct (apply_op t o) as [t'|e] eqn:E; [|assumption].
  destruct o as [r c v|n s d|n s d|n s|n s]; cbn [apply_op in_domain] in *.
  - unfold write in E. destruct (validate t r c) as [t1|] eqn:V; [|discriminate]. injection E as <-.
    unfold validate in V.
    destruct ((r <? 0) || (c <? 0)); [discriminate|].
    destruct (MAX_ROW_COUNT <=? r); [discriminate|]. destruct (MAX_COL_COUNT <=? c); [discriminate|].
    injection V as <-. apply wf_put.
    apply (proj1 (grow_cols_spec _ _ (proj1 (grow_rows_spec _ _ Hw)))).
  - apply Z.leb_le in D. eapply wf_add_row_any; eauto.
  - apply Z.leb_le in D. eapply wf_add_column_any; eauto.
  - apply andb_prop in D as [D1 D2]. apply Z.leb_le in D1.
    eapply wf_delete_row; eauto. destruct s; now apply Z.leb_le in D2.
  - apply andb_prop in D as [D1 D2]. apply Z.leb_le in D1.
    eapply wf_delete_column; eauto. destruct s; now apply Z.leb_le in D2.
Qed.

Theorem grid_wf_reachable_lemma nr nc ops : 0 <= nr -> 0 <= nc -> wf (run (new_table nr nc) ops).
Proof.
  intros Hr Hc. unfold run.
  assert (G : forall ops t, wf t -> wf (fold_left step ops t)).
  { clear. induction ops as [|o ops IH]; intros t Hw; cbn [fold_left]; [assumption|]. apply IH, wf_step, Hw. }
  apply G, wf_new_table; assumption.
Qed.

(* frame: replacing table i of a document leaves every other table untouched *)
Lemma set_nth_other {A} : forall (l : list A) i j x, i <> j -> nth_error (set_nth l i x) j = nth_error l j.
Proof.
  induction l as [|h t IH]; intros [|i] [|j] x H; cbn; try reflexivity; try congruence.
  apply IH. congruence.
Qed.

(* ---------- A1 addressing goes through the same two entry points ---------- *)
From NP Require Import Model.A1 Proofs.A1P.
Open Scope Z_scope.

Definition read_a1 (t : table) (s : list N) : result cell :=
  match xl_cell_to_rowcol s with Ok (r, c) => read t r c | Err e => Err e end.
Definition write_a1 (t : table) (s : list N) (v : Z) : result table :=
  match xl_cell_to_rowcol s with Ok (r, c) => write t r c v | Err e => Err e end.

Theorem a1_same_cell_lemma (t : table) (r c : Z) ra ca (v : Z) s : 0 <= r -> 0 <= c < 18278 ->
  xl_rowcol_to_cell r c ra ca = Ok s ->
  read_a1 t s = read t r c /\ write_a1 t s v = write t r c v.
Proof.
  intros Hr Hc Hs. pose proof (a1_roundtrip_lemma r c ra ca Hr Hc) as H.
  rewrite Hs in H. cbn [bind] in H. unfold read_a1, write_a1. now rewrite H.
Qed.

(* 'A0' (and any text whose row decodes to -1) is refused by write and by read *)
Theorem a1_row_zero_refused (t : table) s (c v : Z) : xl_cell_to_rowcol s = Ok (-1, c) ->
  write_a1 t s v = Err IndexError /\ read_a1 t s = Err IndexError.
Proof.
  intros H. unfold write_a1, read_a1. rewrite H. split.
  - apply write_bounds_lemma. lia.
  - apply read_bounds_lemma. lia.
Qed.

(* ---------- iteration ---------- *)
Theorem iter_rows_bounds_lemma t a b c d :
  (bound_bad a (nrows t) = true \/ bound_bad b (nrows t) = true \/ bound_bad c (ncols t) = true \/ bound_bad d (ncols t) = true) ->
  iter_rows t a b c d = Err IndexError /\ iter_cols t c d a b = Err IndexError.
Proof.
  intros H. unfold iter_rows, iter_cols.
  destruct (bound_bad a (nrows t)), (bound_bad b (nrows t)), (bound_bad c (ncols t)), (bound_bad d (ncols t));
    cbn [orb]; try (split; reflexivity); destruct H as [H|[H|[H|H]]]; discriminate.
Qed.

Lemma bound_bad_some x n : bound_bad (Some x) n = true <-> (x < 0 \/ n <= x).
Proof. unfold bound_bad. rewrite orb_true_iff, Z.ltb_lt, Z.leb_le. reflexivity. Qed.
Lemma bound_ok_some x n : 0 <= x < n -> bound_bad (Some x) n = false.
Proof. intros H. unfold bound_bad. destruct (Z.ltb_spec x 0); [lia|]. destruct (Z.leb_spec n x); [lia|]. reflexivity. Qed.

(* inside the table, iteration yields exactly the addressed rectangle, row by row (resp. column by column), in order *)
Theorem iter_rows_rectangle_lemma t r0 r1 c0 c1 :
  0 <= r0 < nrows t -> 0 <= r1 < nrows t -> 0 <= c0 < ncols t -> 0 <= c1 < ncols t ->
  iter_rows t (Some r0) (Some r1) (Some c0) (Some c1) =
    Ok (map (fun r => py_slice (nth (Z.to_nat r) (data t) []) c0 (c1 + 1)) (zrange r0 (r1 + 1))) /\
  iter_cols t (Some c0) (Some c1) (Some r0) (Some r1) =
    Ok (map (fun c => flat_map (fun row => match nth_error row (Z.to_nat c) with Some x => [x] | None => [] end)
                               (py_slice (data t) r0 (r1 + 1))) (zrange c0 (c1 + 1))).
Proof.
  intros H0 H1 H2 H3. unfold iter_rows, iter_cols.
  rewrite !bound_ok_some by assumption. cbn [orb]. split; reflexivity.
Qed.

Lemma py_slice_length {A} (l : list A) a b : 0 <= a -> b <= Z.of_nat (length l) ->
  length (py_slice l a b) = Z.to_nat (b - a).
Proof. intros. unfold py_slice. rewrite firstn_length, skipn_length. lia. Qed.

(* ... and the rectangle has the addressed shape: r1-r0+1 lines of c1-c0+1 cells *)
Theorem iter_rows_shape_lemma t r0 r1 c0 c1 L : wf t ->
  0 <= r0 < nrows t -> 0 <= r1 < nrows t -> 0 <= c0 < ncols t -> 0 <= c1 < ncols t ->
  iter_rows t (Some r0) (Some r1) (Some c0) (Some c1) = Ok L ->
  length L = Z.to_nat (r1 + 1 - r0) /\ Forall (fun line => length line = Z.to_nat (c1 + 1 - c0)) L.
Proof.
  intros (A & B & C) H0 H1 H2 H3 H.
  rewrite (proj1 (iter_rows_rectangle_lemma t r0 r1 c0 c1 H0 H1 H2 H3)) in H. injection H as <-.
  rewrite map_length, zrange_length. split; [reflexivity|].
  apply Forall_map. apply Forall_forall. intros r Hr.
  unfold zrange in Hr. apply in_map_iff in Hr as (i & <- & Hi). apply in_seq in Hi.
  assert (Hlt : (Z.to_nat (r0 + Z.of_nat i) < length (data t))%nat) by lia.
  destruct (nth_error (data t) (Z.to_nat (r0 + Z.of_nat i))) as [row|] eqn:E; [|apply nth_error_None in E; lia].
  rewrite (nth_error_nth _ _ _ E).
  pose proof (proj1 (Forall_forall _ _) C row (nth_error_In _ _ E)) as Hl. cbn beta in Hl.
  apply py_slice_length; lia.
Qed.

(* the per-edit statements on the domain the repaired code and the model share: a count between zero and what
   the table has from the start index (a longer count is cut short by the code; the model is not used there) *)
Definition del_in_domain (ext n : Z) (s : option Z) : Prop :=
  0 <= n /\ match s with Some x => x + n <= ext | None => n <= ext end.
Lemma delete_row_refines_dom t n s t' : del_in_domain (nrows t) n s -> delete_row t n s = Ok t' ->
  vals t' = p_del_row (vals t) n s /\ nrows t' = nrows t - n /\ ncols t' = ncols t.
Proof. intros _. apply delete_row_refines. Qed.
Lemma delete_column_refines_dom t n s t' : del_in_domain (ncols t) n s -> delete_column t n s = Ok t' ->
  vals t' = p_del_col (vals t) n s /\ nrows t' = nrows t /\ ncols t' = ncols t - n.
Proof. intros _. apply delete_column_refines. Qed.
Lemma delete_zero_is_identity_vals t s t' : delete_row t 0 s = Ok t' -> nrows t' = nrows t /\ ncols t' = ncols t.
Proof. intros H. destruct (delete_row_refines t 0 s t' H) as (_ & A & B). split; lia. Qed.
