(* Proofs about Model/Wire.v: parsing inverts serialisation on every well-formed
   message; entries unknown to any schema are ordinary entries and are preserved. *)
From Coq Require Import NArith List Bool Lia ZArith.
From NP Require Import Model.PyBase Model.Varint Model.Wire Proofs.VarintP.
Import ListNotations.
Open Scope N_scope.
Ltac Zify.zify_post_hook ::= Z.to_euclidean_division_equations.

Lemma take_exact_app : forall (a r : bytes) n, lenN a = n -> take_exact n (a ++ r) = Some (a, r).
Proof.
  intros a r n <-. unfold take_exact. rewrite lenN_app.
  destruct (N.ltb_spec (lenN a + lenN r) (lenN a)); [lia|].
  now rewrite takeN_app_exact, dropN_app_exact.
Qed.

Lemma parse_val_ser : forall v r, wf_val v -> parse_val (wtype v) (ser_val v ++ r) = Some (v, r).
Proof.
  intros [n|b|b|b] r Hwf; cbn [wtype ser_val wf_val] in *.
  - cbn [parse_val]. now rewrite varint64_roundtrip.
  - cbn [parse_val]. rewrite take_exact_app; [reflexivity|]. unfold lenN. now rewrite Hwf.
  - cbn [parse_val]. rewrite <- app_assoc.
    rewrite varint_roundtrip_raw by (eapply N.lt_trans; [exact Hwf|reflexivity]).
    now rewrite take_exact_app.
  - cbn [parse_val]. rewrite take_exact_app; [reflexivity|]. unfold lenN. now rewrite Hwf.
Qed.

Lemma wtype_lt8 : forall v, wtype v < 8.
Proof. intros [n|b|b|b]; cbn; lia. Qed.

Lemma parse_field_ser : forall f r, wf_field f -> parse_field (ser_field f ++ r) = Some (f, r).
Proof.
  intros [k v] r [[Hk1 Hk2] Hv]. cbn [fst snd] in *.
  unfold parse_field, ser_field. cbn [fst snd]. rewrite <- app_assoc.
  pose proof (wtype_lt8 v) as Hw.
  assert (Htag : k * 8 + wtype v < 4294967296) by lia.
  rewrite varint_roundtrip_raw by (eapply N.lt_trans; [exact Htag|reflexivity]).
  rewrite encode_terminates_within5 by (eapply N.lt_trans; [exact Htag|reflexivity]).
  destruct (N.ltb_spec (k * 8 + wtype v) 4294967296); [|lia].
  assert (Hd : (k * 8 + wtype v) / 8 = k) by lia.
  assert (Hm : (k * 8 + wtype v) mod 8 = wtype v) by lia.
  rewrite Hd, Hm. destruct (N.eqb_spec k 0); [lia|]. cbn [andb negb].
  now rewrite parse_val_ser.
Qed.

Lemma ser_field_nonempty : forall f, ser_field f <> [].
Proof.
  intros f. unfold ser_field. pose proof (encode_varint_nonempty (fst f * 8 + wtype (snd f))) as H.
  destruct (encode_varint (fst f * 8 + wtype (snd f))); [congruence|discriminate].
Qed.

Lemma ser_wire_cons : forall f m, ser_wire (f :: m) = ser_field f ++ ser_wire m.
Proof. reflexivity. Qed.

Lemma ser_wire_app : forall a b, ser_wire (a ++ b) = ser_wire a ++ ser_wire b.
Proof. intros. unfold ser_wire. apply flat_map_app. Qed.

Lemma parse_wire_f_S : forall f x b,
  parse_wire_f (S f) (x :: b) =
  match parse_field (x :: b) with
  | None => None
  | Some (fd, r) => match parse_wire_f f r with Some m => Some (fd :: m) | None => None end
  end.
Proof. reflexivity. Qed.

Lemma parse_wire_f_ser : forall m fuel, wf_msg m -> (length m <= fuel)%nat ->
  parse_wire_f fuel (ser_wire m) = Some m.
Proof.
  induction m as [|f m IH]; intros fuel Hwf Hfuel.
  - destruct fuel; reflexivity.
  - rewrite ser_wire_cons. pose proof (ser_field_nonempty f) as Hne.
    destruct (ser_field f) as [|x sf] eqn:E; [congruence|].
    destruct fuel as [|fuel]; [cbn in Hfuel; lia|].
    cbn [app]. rewrite parse_wire_f_S.
    change (x :: sf ++ ser_wire m) with ((x :: sf) ++ ser_wire m). rewrite <- E.
    rewrite parse_field_ser by (exact (Forall_inv Hwf)).
    rewrite IH; [reflexivity|exact (Forall_inv_tail Hwf)|cbn in Hfuel; lia].
Qed.

Lemma length_ser_wire : forall m, (length m <= length (ser_wire m))%nat.
Proof.
  induction m as [|f m IH]; [cbn; lia|].
  rewrite ser_wire_cons, app_length. cbn [length].
  pose proof (ser_field_nonempty f) as Hne. destruct (ser_field f); [congruence|cbn [length]; lia].
Qed.

Lemma wire_roundtrip_lemma : forall m, wf_msg m -> parse_wire (ser_wire m) = Some m.
Proof. intros m Hwf. unfold parse_wire. apply parse_wire_f_ser; [assumption|apply length_ser_wire]. Qed.

(* boolean reflection of well-formedness, for the entry points and examples *)
Lemma wf_msgb_sound : forall m, wf_msgb m = true -> wf_msg m.
Proof.
  induction m as [|[k v] m IH]; intros H; [constructor|].
  cbn [wf_msgb forallb] in H. apply andb_true_iff in H as [Hf Hm].
  constructor; [|apply IH; exact Hm].
  unfold wf_fieldb in Hf. cbn [fst snd] in Hf.
  apply andb_true_iff in Hf as [Hf Hv]. apply andb_true_iff in Hf as [H1 H2].
  apply N.leb_le in H1. apply N.ltb_lt in H2. split; [cbn [fst]; lia|]. cbn [snd].
  destruct v as [n|b|b|b]; cbn [wf_valb wf_val] in *.
  - now apply N.ltb_lt.
  - now apply Nat.eqb_eq.
  - now apply N.ltb_lt.
  - now apply Nat.eqb_eq.
Qed.
