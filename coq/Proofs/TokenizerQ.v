(* Atomicity of quoted tokens: every token of a successful tokenization is either free of quote
   characters or is exactly the text STRING_REGEXES matches at the token's offset in the input. *)
From Coq Require Import List Arith NArith Bool Lia.
From NP Require Import Model.PyBase Model.Tokenizer Proofs.TokenizerP.
Import ListNotations.
Open Scope N_scope.

Definition quote_free (v : list N) : Prop := Forall (fun c => c <> DQ /\ c <> SQ) v.

(* the token [t] is the regex match found at offset [off] of [full] *)
Definition quoted_at (full : list N) (off : nat) (t : token) : Prop :=
  exists m, match_quoted (skipn off full) = Some m /\
            tval t = firstn (N.to_nat m) (skipn off full) /\ tty t = OPERAND.
Definition tok_ok (full : list N) (off : nat) (t : token) : Prop :=
  quote_free (tval t) \/ quoted_at full off t.

(* over the reversed item list of the state *)
Fixpoint items_ok (full : list N) (its : list token) : Prop :=
  match its with
  | [] => True
  | t :: r => items_ok full r /\ tok_ok full (length (flat_items r)) t
  end.

Lemma items_ok_app full a b : items_ok full (a ++ b) -> items_ok full b.
Proof. induction a as [|x a IH]; cbn; auto. intros [H _]. auto. Qed.

Lemma quote_free_single c : (c =? DQ) || (c =? SQ) = false -> quote_free [c].
Proof.
  intros H. apply orb_false_elim in H as [H1 H2]. apply N.eqb_neq in H1, H2. repeat constructor; auto.
Qed.
Lemma quote_free_not_in v : quote_free v -> ~ (In DQ v \/ In SQ v).
Proof.
  unfold quote_free. rewrite Forall_forall. intros H [I|I]; apply H in I; destruct I; congruence.
Qed.
Lemma error_codes_quote_free e : In e error_codes -> quote_free e.
Proof.
  intros H.
  assert (F : forallb (fun e => forallb (fun c => negb (c =? DQ) && negb (c =? SQ)) e) error_codes = true)
    by (vm_compute; reflexivity).
  rewrite forallb_forall in F. specialize (F _ H). rewrite forallb_forall in F.
  apply Forall_forall. intros c Hc. specialize (F _ Hc). apply andb_prop in F as [F1 F2].
  apply negb_true_iff in F1, F2. apply N.eqb_neq in F1, F2. auto.
Qed.

Section Generic.
  Variable isnum : list N -> bool.
  Variable pop_exn : pyexn.
  Notation make_operand := (make_operand isnum).
  Notation save_token := (save_token isnum).
  Notation step := (step isnum pop_exn).
  Notation run := (run isnum pop_exn).

  Definition inv (full : list N) (s : st) (inp : list N) : Prop :=
    flat s ++ inp = full /\ quote_free (tokbuf s) /\ items_ok full (items s).

  Lemma inv_save full s inp : inv full s inp -> inv full (save_token s) inp.
  Proof.
    intros (F & Q & I). split; [now rewrite flat_save|].
    unfold Tokenizer.save_token. destruct (tokbuf s) as [|b0 b] eqn:E.
    - rewrite E. auto.
    - cbn [tokbuf items]. split; [constructor|]. cbn [items_ok]. split; auto.
      left. rewrite make_operand_val. apply Forall_rev. exact Q.
  Qed.

  (* pushing a quote-free token keeps the invariant on the items *)
  Lemma items_ok_push_free full its t : items_ok full its -> quote_free (tval t) -> items_ok full (t :: its).
  Proof. intros I Q. cbn. split; auto. left; auto. Qed.

  Lemma skipn_flat (full a inp : list N) : a ++ inp = full -> skipn (length a) full = inp.
  Proof. intros <-. rewrite skipn_app, Nat.sub_diag, skipn_all. reflexivity. Qed.

  Lemma step_inv full s inp s' m :
    step s inp = Ok (s', m) -> inv full s inp -> inv full s' (dropN (N.to_nat m) inp).
  Proof.
    intros Hs Hi. split.
    { destruct Hi as (F & _ & _). rewrite <- F. eapply step_conserves; eauto. }
    revert Hs. unfold Tokenizer.step. destruct inp as [|c rest]; [discriminate|].
    destruct (mem c [PLUS; MINUS] && _ && _) eqn:Esn.
    { intros H; inv H. destruct Hi as (_ & Q & I). cbn [tokbuf items]. split; auto.
      constructor; auto. apply andb_prop in Esn as [Esn _]. apply andb_prop in Esn as [Esn _].
      apply mem_In in Esn. cbn in Esn. unfold PLUS, MINUS, DQ, SQ in *. destruct Esn as [<-|[<-|[]]]; split; discriminate. }
    assert (Hi1 : inv full (if mem c enders then save_token s else s) (c :: rest)).
    { destruct (mem c enders); auto. now apply inv_save. }
    set (s1 := if mem c enders then save_token s else s) in *. clearbody s1. clear Hi.
    destruct Hi1 as (F & Q & I).
    destruct ((c =? DQ) || (c =? SQ)) eqn:Eq.
    { destruct (tokbuf s1) eqn:Eb; [|discriminate].
      destruct (if c =? DQ then match_dq (c :: rest) else match_sq (c :: rest)) as [k|] eqn:Ek; [|discriminate].
      intros H; injection H as <- <-. unfold push_item; cbn [tokbuf items]. rewrite Eb. split; [constructor|].
      cbn [items_ok]. split; auto. right. exists k.
      unfold flat in F. rewrite Eb in F. cbn [rev] in F. rewrite app_nil_r in F.
      rewrite (skipn_flat _ _ _ F). rewrite make_operand_val, make_operand_ty. repeat split; auto.
      unfold match_quoted. destruct (c =? DQ) eqn:Ed; auto.
      cbn [orb] in Eq. rewrite Eq. exact Ek. }
    destruct (c =? HASH).
    { destruct (tokbuf s1) eqn:Eb; [|discriminate].
      destruct (find _ error_codes) as [e|] eqn:Ef; [|discriminate].
      intros H; inv H. unfold push_item; cbn [tokbuf items]. rewrite Eb. split; [constructor|].
      apply items_ok_push_free; auto. rewrite make_operand_val. apply find_some in Ef as [Hin _].
      now apply error_codes_quote_free. }
    destruct (mem c operators).
    { destruct rest as [|c2 r2].
      - destruct (mem c short_two); intros H; inv H; unfold push_item; cbn [tokbuf items]; (split; [assumption|]);
          apply items_ok_push_free; auto; cbn [tval]; now apply quote_free_single.
      - destruct (_ || _ || _) eqn:E2; intros H; inv H; unfold push_item; cbn [tokbuf items]; (split; [assumption|]);
          apply items_ok_push_free; auto; cbn [tval]; [|now apply quote_free_single].
        apply quote_free_single in Eq. inv Eq. constructor; auto. constructor; auto.
        unfold DQ, SQ. repeat (apply orb_prop in E2 as [E2|E2]); apply andb_prop in E2 as [_ E2]; apply N.eqb_eq in E2; subst; split; discriminate. }
    destruct (c =? LB) eqn:E1.
    { destruct (tokbuf s1) eqn:Eb; [|discriminate]. intros H; inv H. cbn [tokbuf items]. split; [constructor|].
      apply items_ok_push_free; auto. cbn [tval]. now apply quote_free_single. }
    destruct (c =? LP) eqn:E2.
    { intros H; inv H. cbn [tokbuf items]. split; [constructor|].
      apply items_ok_push_free; auto. apply N.eqb_eq in E2. subst c.
      destruct (tokbuf s1) as [|b0 b] eqn:Eb; [cbn [tval]; now apply quote_free_single|].
      change (quote_free (rev (LP :: b0 :: b))). apply Forall_rev. constructor; [unfold LP, DQ, SQ; split; discriminate|]. exact Q. }
    destruct ((c =? RP) || (c =? RB)) eqn:E3.
    { destruct (stack s1) as [|o stk]; [discriminate|]. destruct (_ =? c) eqn:Ec; [|discriminate]. apply N.eqb_eq in Ec.
      intros H; inv H. cbn [tokbuf items]. split; auto. apply items_ok_push_free; auto. cbn [tval].
      now apply quote_free_single. }
    destruct (c =? SEMI) eqn:E4.
    { intros H; inv H. unfold push_item; cbn [tokbuf items]. split; auto. apply items_ok_push_free; auto.
      cbn [tval]. apply N.eqb_eq in E4. subst c. now apply quote_free_single. }
    destruct (c =? COMMA) eqn:E5.
    { intros H; inv H. unfold push_item; cbn [tokbuf items]. split; auto. apply items_ok_push_free; auto.
      apply N.eqb_eq in E5. subst c.
      destruct (stack s1) as [|top ?]; [|destruct (ty_eqb _ _)]; cbn [tval]; now apply quote_free_single. }
    intros H; inv H. cbn [tokbuf items]. split; auto. constructor; auto.
    apply quote_free_single in Eq. now inv Eq.
  Qed.

  Lemma run_inv : forall fuel full s inp ts,
    run fuel s inp = Ok ts -> inv full s inp -> items_ok full (rev ts).
  Proof.
    induction fuel as [|f IH]; intros full s inp ts H Hi.
    - destruct inp; [|discriminate]. cbn in H. inv H. rewrite rev_involutive.
      apply inv_save in Hi. apply Hi.
    - destruct inp as [|c rest].
      + rewrite run_nil in H. inv H. rewrite rev_involutive. apply inv_save in Hi. apply Hi.
      + rewrite run_S in H. destruct (step s (c :: rest)) as [[s' m]|e] eqn:E; try discriminate.
        eapply IH; eauto. eapply step_inv; eauto.
  Qed.

  Theorem quoted_atomic_gen s ts :
    tokenize_gen isnum pop_exn s = Ok ts ->
    forall pre t post, ts = pre ++ t :: post ->
    In DQ (tval t) \/ In SQ (tval t) ->
    quoted_at s (length (concat (map tval pre))) t.
  Proof.
    intros H pre t post -> Hq.
    apply run_inv with (full := s) in H.
    2:{ split; [reflexivity|]. split; constructor. }
    rewrite rev_app_distr in H. cbn [rev] in H. rewrite <- app_assoc in H. cbn [app] in H.
    apply items_ok_app in H. cbn [items_ok] in H. destruct H as [_ [H|H]].
    - exfalso. eapply quote_free_not_in; eauto.
    - unfold flat_items in H. now rewrite rev_involutive in H.
  Qed.
End Generic.

Theorem quoted_atomic_lemma s ts :
  tokenize s = Ok ts ->
  forall pre t post, ts = pre ++ t :: post ->
  In DQ (tval t) \/ In SQ (tval t) ->
  exists m, match_quoted (skipn (length (concat (map tval pre))) s) = Some m /\
            tval t = firstn (N.to_nat m) (skipn (length (concat (map tval pre))) s) /\
            tty t = OPERAND.
Proof. intros H pre t post E Q. exact (quoted_atomic_gen _ _ s ts H pre t post E Q). Qed.
