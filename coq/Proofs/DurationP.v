(* Proofs about Model/Duration.v: the displayed components are a mixed-radix decomposition of the duration
   truncated to the smallest unit shown; the digit runs of the displayed string are those components
   (all three styles); automatic units lose nothing. *)
From Coq Require Import ZArith NArith List Bool String Lia.
From NP Require Import Model.PyBase Model.A1 Model.DateFormat Model.Duration Proofs.A1P Proofs.DateFormatP.
Import ListNotations.
Open Scope N_scope.
Ltac Zify.zify_post_hook ::= Z.to_euclidean_division_equations.

(* ------------------------------------------------------------------ *)
(* the numeric decomposition                                           *)
(* ------------------------------------------------------------------ *)
Fixpoint parts_total (ps : list (N * N)) : N :=
  match ps with [] => 0 | (u, v) :: r => unit_ms u * v + parts_total r end.

(* every component after the first stays below one unit of its predecessor *)
Fixpoint parts_proper (ps : list (N * N)) : Prop :=
  match ps with
  | (u1, _) :: (((u2, v2) :: _) as r) => unit_ms u2 * v2 < unit_ms u1 /\ parts_proper r
  | _ => True
  end.

Lemma is_unit_cases u : is_unit u = true -> u = 1 \/ u = 2 \/ u = 4 \/ u = 8 \/ u = 16 \/ u = 32.
Proof.
  unfold is_unit, all_units, U_WEEK, U_DAY, U_HOUR, U_MINUTE, U_SECOND, U_MS. cbn [existsb].
  rewrite !orb_true_iff, !N.eqb_eq. intuition discriminate.
Qed.

Ltac dur_simpl :=
  cbv [duration_parts stage unit_in_range units_shown all_units U_WEEK U_DAY U_HOUR U_MINUTE U_SECOND U_MS
       filter unit_ms MS_WEEK MS_DAY MS_HOUR MS_MINUTE MS_SECOND
       N.eqb N.leb N.ltb N.compare Pos.eqb Pos.compare Pos.compare_cont andb negb fst snd app
       parts_total parts_proper List.map].

Lemma duration_parts_lemma ms largest smallest : valid_pair largest smallest = true ->
  parts_total (duration_parts ms largest smallest) = ms - ms mod unit_ms smallest /\
  List.map fst (duration_parts ms largest smallest) = units_shown largest smallest /\
  parts_proper (duration_parts ms largest smallest).
Proof.
  unfold valid_pair. rewrite !andb_true_iff, N.leb_le. intros [[Hl Hs] Hle].
  apply is_unit_cases in Hl. apply is_unit_cases in Hs.
  destruct Hl as [-> | [-> | [-> | [-> | [-> | ->]]]]]; destruct Hs as [-> | [-> | [-> | [-> | [-> | ->]]]]];
    try (exfalso; lia); clear Hle; dur_simpl; (split; [|split; [reflexivity|]]); try exact I; lia.
Qed.

(* ------------------------------------------------------------------ *)
(* reading the digit runs of the displayed string                       *)
(* ------------------------------------------------------------------ *)
Definition all_digits (s : str) : Prop := Forall (fun c => is_digit c = true) s.
Definition no_digits (s : str) : Prop := Forall (fun c => is_digit c = false) s.
Definition tail_ok (s : str) : Prop := match s with [] => True | c :: _ => is_digit c = false end.

Definition dstep (a c : N) : N := a * 10 + (c - 48).

Lemma digit_runs_cons c r cur : digit_runs (c :: r) cur =
  if is_digit c then digit_runs r (Some (match cur with Some n => n * 10 + (c - 48) | None => c - 48 end))
  else match cur with Some n => n :: digit_runs r None | None => digit_runs r None end.
Proof. reflexivity. Qed.

Lemma digit_runs_digits_some : forall ds tail a, all_digits ds ->
  digit_runs (ds ++ tail) (Some a) = digit_runs tail (Some (fold_left dstep ds a)).
Proof.
  induction ds as [|c ds IH]; intros tail a H; [reflexivity|].
  pose proof (Forall_inv H) as Hc. pose proof (Forall_inv_tail H) as Hds.
  cbn [app]. rewrite digit_runs_cons, Hc. now rewrite IH.
Qed.

Lemma digit_runs_digits : forall ds tail, ds <> [] -> all_digits ds ->
  digit_runs (ds ++ tail) None = digit_runs tail (Some (digits_to_N ds)).
Proof.
  intros [|c ds] tail Hne H; [contradiction|].
  pose proof (Forall_inv H) as Hc. pose proof (Forall_inv_tail H) as Hds.
  cbn [app]. rewrite digit_runs_cons, Hc. rewrite digit_runs_digits_some by assumption.
  unfold digits_to_N. cbn [fold_left]. reflexivity.
Qed.

Lemma digit_runs_flush tail v : tail_ok tail -> digit_runs tail (Some v) = v :: digit_runs tail None.
Proof.
  destruct tail as [|c r]; intros H; [reflexivity|]. cbn [tail_ok] in H.
  rewrite !digit_runs_cons, H. reflexivity.
Qed.

Lemma digit_runs_skip : forall nd rest, no_digits nd -> digit_runs (nd ++ rest) None = digit_runs rest None.
Proof.
  induction nd as [|c nd IH]; intros rest H; [reflexivity|].
  pose proof (Forall_inv H) as Hc. pose proof (Forall_inv_tail H) as Hnd.
  cbn [app]. rewrite digit_runs_cons, Hc. now apply IH.
Qed.

Lemma fold_zeros k : forall a, fold_left dstep (repeat 48 k) a = a * 10 ^ N.of_nat k.
Proof.
  induction k as [|k IH]; intros a.
  - cbn. lia.
  - cbn [repeat fold_left]. rewrite IH. unfold dstep. rewrite Nat2N.inj_succ, N.pow_succ_r'. lia.
Qed.

Lemma digits_to_N_zeros k s : digits_to_N (repeat 48 k ++ s) = digits_to_N s.
Proof.
  unfold digits_to_N. rewrite fold_left_app.
  change (fun a c : N => a * 10 + (c - 48)) with dstep. rewrite fold_zeros. reflexivity.
Qed.

Lemma all_digits_app a b : all_digits a -> all_digits b -> all_digits (a ++ b).
Proof. intros. now apply Forall_app. Qed.

Lemma all_digits_zeros k : all_digits (repeat 48 k).
Proof. induction k; constructor; [reflexivity|assumption]. Qed.

Lemma nstr_digits v : all_digits (nstr v).
Proof. apply py_str_N_digits. Qed.

(* a zero padded number followed by something that does not start with a digit *)
Lemma digit_runs_number k v tail : tail_ok tail ->
  digit_runs (repeat 48 k ++ nstr v ++ tail) None = v :: digit_runs tail None.
Proof.
  intros Ht. rewrite app_assoc. rewrite digit_runs_digits.
  - rewrite digits_to_N_zeros. change (digits_to_N (nstr v)) with (py_int (py_str_N v)). rewrite py_int_str.
    now apply digit_runs_flush.
  - intro E. apply app_eq_nil in E as [_ E]. now apply (py_str_N_nonempty v).
  - apply all_digits_app; [apply all_digits_zeros|apply nstr_digits].
Qed.

(* shape of one displayed component: zeros, the number, a label without digits *)
Lemma no_digits_nil : no_digits []. Proof. constructor. Qed.

Ltac nd_solve := repeat (constructor; [reflexivity|]); try apply no_digits_nil; try constructor.

Lemma unit_format_no_digits unit v style ab : no_digits unit -> (match ab with Some a => no_digits a | None => True end) ->
  no_digits (unit_format unit v style ab).
Proof.
  intros Hu Ha. unfold unit_format.
  destruct (style =? S_COMPACT); [constructor|].
  destruct (style =? S_SHORT).
  - destruct ab as [a|]; [exact Ha|]. destruct unit as [|c r]; [constructor|].
    cbn [firstn]. constructor; [exact (Forall_inv Hu)|constructor].
  - constructor; [reflexivity|]. apply Forall_app; split; [exact Hu|]. destruct (v =? 1); nd_solve.
Qed.

Lemma show_part_shape style largest smallest u v :
  exists k lbl, show_part style largest smallest (u, v) = repeat 48 k ++ nstr v ++ lbl /\ no_digits lbl.
Proof.
  unfold show_part.
  assert (forall unit ab, no_digits unit -> (match ab with Some a => no_digits a | None => True end) ->
          exists k lbl, nstr v ++ unit_format unit v style ab = repeat 48 k ++ nstr v ++ lbl /\ no_digits lbl) as Plain.
  { intros unit ab Hu Ha. exists O, (unit_format unit v style ab). split; [reflexivity|now apply unit_format_no_digits]. }
  assert (forall (b : bool) (z : str), (z = [48] \/ z = [48; 48]) ->
          exists k lbl, (if b then [] else z) ++ nstr v = repeat 48 k ++ nstr v ++ lbl /\ no_digits lbl) as Padded.
  { intros b z Hz. destruct b.
    - exists O, []. split; [now rewrite app_nil_r|constructor].
    - destruct Hz as [->| ->]; [exists 1%nat, []|exists 2%nat, []]; (split; [now rewrite app_nil_r|constructor]). }
  destruct (u =? U_WEEK); [apply Plain; [vm_compute; nd_solve|exact I]|].
  destruct (u =? U_DAY); [apply Plain; [vm_compute; nd_solve|exact I]|].
  destruct (u =? U_HOUR); [apply Plain; [vm_compute; nd_solve|exact I]|].
  destruct (u =? U_MINUTE).
  { destruct (style =? S_COMPACT); [apply Padded; now left|apply Plain; [vm_compute; nd_solve|exact I]]. }
  destruct (u =? U_SECOND).
  { destruct (style =? S_COMPACT); [apply Padded; now left|apply Plain; [vm_compute; nd_solve|exact I]]. }
  destruct (style =? S_COMPACT).
  - destruct (100 <=? v).
    + exists O, []. split; [now rewrite app_nil_r|constructor].
    + destruct (10 <=? v); [exists 1%nat, []|exists 2%nat, []]; (split; [now rewrite app_nil_r|constructor]).
  - apply Plain; vm_compute; nd_solve.
Qed.

Lemma join_cons2 sep (x y : str) r : join sep (x :: y :: r) = x ++ sep ++ join sep (y :: r).
Proof. reflexivity. Qed.

Lemma tail_ok_app_nd a b : no_digits a -> a <> [] -> tail_ok (a ++ b).
Proof. intros H Hne. destruct a as [|c r]; [contradiction|]. exact (Forall_inv H). Qed.

Lemma readback_join style largest smallest sep : no_digits sep -> sep <> [] ->
  forall parts, digit_runs (join sep (List.map (show_part style largest smallest) parts)) None = List.map snd parts.
Proof.
  intros Hsep Hne. induction parts as [|[u v] parts IH]; [reflexivity|].
  destruct (show_part_shape style largest smallest u v) as [k [lbl [E Hl]]].
  destruct parts as [|q parts'].
  - cbn [List.map join snd]. rewrite E. rewrite digit_runs_number.
    + f_equal. rewrite <- (app_nil_r lbl). now rewrite digit_runs_skip.
    + destruct lbl as [|c r]; [exact I|exact (Forall_inv Hl)].
  - change (List.map (show_part style largest smallest) ((u, v) :: q :: parts'))
      with (show_part style largest smallest (u, v) :: show_part style largest smallest q :: List.map (show_part style largest smallest) parts').
    rewrite join_cons2, E. rewrite <- !app_assoc. rewrite digit_runs_number.
    + cbn [List.map snd]. f_equal. rewrite digit_runs_skip by assumption. rewrite digit_runs_skip by assumption.
      exact IH.
    + destruct lbl as [|c r]; [cbn [app]; now apply tail_ok_app_nd|exact (Forall_inv Hl)].
Qed.

Lemma colon_to_dot_cons c r : colon_to_dot (c :: r) =
  match r with
  | [a; b; d] => if (c =? 58) && is_digit a && is_digit b && is_digit d then 46 :: r else c :: colon_to_dot r
  | _ => c :: colon_to_dot r
  end.
Proof. reflexivity. Qed.

Lemma digit_runs_colon_to_dot : forall s cur, digit_runs (colon_to_dot s) cur = digit_runs s cur.
Proof.
  induction s as [|c r IH]; intros cur; [reflexivity|].
  rewrite colon_to_dot_cons.
  assert (digit_runs (c :: colon_to_dot r) cur = digit_runs (c :: r) cur) as Plain.
  { rewrite !digit_runs_cons. destruct (is_digit c); [apply IH|destruct cur; now rewrite IH]. }
  destruct r as [|a [|b [|d [|e r']]]]; try exact Plain.
  destruct ((c =? 58) && is_digit a && is_digit b && is_digit d) eqn:E; [|exact Plain].
  rewrite !andb_true_iff in E. destruct E as [[[Ec _] _] _]. apply N.eqb_eq in Ec. subst c.
  rewrite !(digit_runs_cons 46), !(digit_runs_cons 58). reflexivity.
Qed.

Lemma readback_format ms style largest smallest :
  readback (duration_format ms style largest smallest) = List.map snd (duration_parts ms largest smallest).
Proof.
  unfold readback, duration_format.
  assert (digit_runs (join (if style =? 0 then [58] else [32])
            (List.map (show_part style largest smallest) (duration_parts ms largest smallest))) None
          = List.map snd (duration_parts ms largest smallest)) as J.
  { apply readback_join; destruct (style =? 0); try discriminate; nd_solve. }
  destruct (style =? S_COMPACT); [rewrite digit_runs_colon_to_dot|]; exact J.
Qed.

Lemma weighted_sum_parts : forall ps, weighted_sum (List.map fst ps) (List.map snd ps) = parts_total ps.
Proof. induction ps as [|[u v] r IH]; [reflexivity|]. cbn [List.map fst snd weighted_sum parts_total]. now rewrite IH. Qed.

Lemma duration_readback_lemma ms style largest smallest : valid_pair largest smallest = true ->
  weighted_sum (units_shown largest smallest) (readback (duration_format ms style largest smallest))
  = ms - ms mod unit_ms smallest.
Proof.
  intros V. destruct (duration_parts_lemma ms largest smallest V) as [T [U _]].
  rewrite readback_format, <- U, weighted_sum_parts. exact T.
Qed.

(* ------------------------------------------------------------------ *)
(* automatic units                                                     *)
(* ------------------------------------------------------------------ *)
Lemma unit_ms_cases u : is_unit u = true ->
  (u = 1 /\ unit_ms u = 604800000) \/ (u = 2 /\ unit_ms u = 86400000) \/ (u = 4 /\ unit_ms u = 3600000) \/
  (u = 8 /\ unit_ms u = 60000) \/ (u = 16 /\ unit_ms u = 1000) \/ (u = 32 /\ unit_ms u = 1).
Proof.
  intros H. apply is_unit_cases in H. destruct H as [-> | [-> | [-> | [-> | [-> | ->]]]]]; vm_compute; tauto.
Qed.

Lemma auto_largest_spec ms : 0 < ms ->
  is_unit (auto_largest ms) = true /\ unit_ms (auto_largest ms) <= ms /\
  (forall u, is_unit u = true -> unit_ms u <= ms -> unit_ms u <= unit_ms (auto_largest ms)).
Proof.
  intros Hpos. unfold auto_largest, MS_WEEK, MS_DAY, MS_HOUR, MS_MINUTE, MS_SECOND.
  repeat match goal with |- context [?a <=? ms] => destruct (N.leb_spec a ms) end;
  (split; [reflexivity|split; [vm_compute unit_ms; lia|]]);
  intros u Hu Hle; destruct (unit_ms_cases u Hu) as [[-> E]|[[-> E]|[[-> E]|[[-> E]|[[-> E]|[-> E]]]]]];
  rewrite E in *; vm_compute unit_ms; lia.
Qed.

(* the coarsest unit dividing ms (the stored one for whole weeks) *)
Lemma auto_smallest_spec ms S : is_unit S = true ->
  is_unit (auto_smallest ms S) = true /\ ms mod unit_ms (auto_smallest ms S) = 0 /\
  (ms mod MS_WEEK <> 0 -> forall u, is_unit u = true -> ms mod unit_ms u = 0 -> unit_ms u <= unit_ms (auto_smallest ms S)).
Proof.
  intros HS. unfold auto_smallest, MS_WEEK, MS_DAY, MS_HOUR, MS_MINUTE, MS_SECOND.
  repeat match goal with |- context [negb (?a =? 0)] => destruct (N.eqb_spec a 0); cbn [negb] end;
  (split; [first [reflexivity|exact HS]|split;
    [ first [ vm_compute unit_ms; lia
            | destruct (unit_ms_cases S HS) as [[-> E]|[[-> E]|[[-> E]|[[-> E]|[[-> E]|[-> E]]]]]]; rewrite E; lia ]
    | intros Hw u Hu Hd;
      first [ contradiction
            | destruct (unit_ms_cases u Hu) as [[-> E]|[[-> E]|[[-> E]|[[-> E]|[[-> E]|[-> E]]]]]];
              rewrite E in *; vm_compute unit_ms; lia ] ]]).
Qed.

(* on units, a larger code is a smaller unit *)
Lemma unit_code_antitone a b : is_unit a = true -> is_unit b = true -> unit_ms a <= unit_ms b -> b <= a.
Proof.
  intros Ha Hb.
  destruct (unit_ms_cases a Ha) as [[-> E]|[[-> E]|[[-> E]|[[-> E]|[[-> E]|[-> E]]]]]]; rewrite E;
  destruct (unit_ms_cases b Hb) as [[-> F]|[[-> F]|[[-> F]|[[-> F]|[[-> F]|[-> F]]]]]]; rewrite F; lia.
Qed.

Lemma unit_ms_pos u : 0 < unit_ms u.
Proof. unfold unit_ms. repeat match goal with |- context [if ?c then _ else _] => destruct c end; vm_compute; reflexivity. Qed.

Lemma auto_order ms S : 0 < ms -> is_unit S = true -> auto_largest ms <= auto_smallest ms S.
Proof.
  intros Hpos HS.
  destruct (auto_largest_spec ms Hpos) as [Hl [_ Hmax]].
  destruct (auto_smallest_spec ms S HS) as [Hs [Hdiv _]].
  apply unit_code_antitone; try assumption. apply Hmax; [assumption|].
  pose proof (unit_ms_pos (auto_smallest ms S)).
  apply N.mod_divide in Hdiv; [|lia]. destruct Hdiv as [k Hk].
  assert (k <> 0) by (intro; subst k; lia). nia.
Qed.

Lemma auto_units_cover_lemma ms L S : 0 < ms -> is_unit S = true ->
  let '(s, l) := auto_units ms L S in
  is_unit l = true /\ is_unit s = true /\ l <= s /\
  unit_ms l <= ms /\ (forall u, is_unit u = true -> unit_ms u <= ms -> unit_ms u <= unit_ms l) /\
  ms mod unit_ms s = 0 /\
  (ms mod MS_WEEK <> 0 -> forall u, is_unit u = true -> ms mod unit_ms u = 0 -> unit_ms u <= unit_ms s).
Proof.
  intros Hpos HS. unfold auto_units. destruct (N.eqb_spec ms 0); [lia|].
  pose proof (auto_order ms S Hpos HS) as Ho. rewrite (N.max_l _ _ Ho).
  destruct (auto_largest_spec ms Hpos) as [Hl [Hle Hmax]].
  destruct (auto_smallest_spec ms S HS) as [Hs [Hdiv Hco]].
  repeat split; assumption.
Qed.

Lemma auto_readback_exact_lemma ms style L S : is_unit S = true ->
  let '(s, l) := auto_units ms L S in
  weighted_sum (units_shown l s) (readback (duration_display ms style L S true)) = ms.
Proof.
  intros HS. unfold duration_display.
  destruct (N.eq_dec ms 0) as [->|Hnz].
  - change (auto_units 0 L S) with (U_DAY, U_DAY). cbv beta iota zeta.
    rewrite duration_readback_lemma by reflexivity. reflexivity.
  - pose proof (auto_units_cover_lemma ms L S ltac:(lia) HS) as C.
    destruct (auto_units ms L S) as [s l]. destruct C as [Hl [Hs [Hle [_ [_ [Hdiv _]]]]]]. cbv beta iota zeta.
    rewrite duration_readback_lemma.
    + rewrite Hdiv. lia.
    + unfold valid_pair. rewrite Hl, Hs. cbn [andb]. now apply N.leb_le.
Qed.


(* ------------------------------------------------------------------ *)
(* compact style padding                                               *)
(* ------------------------------------------------------------------ *)
Lemma nstr_len1 v : v < 10 -> List.length (nstr v) = 1%nat.
Proof. intros H. unfold nstr. now rewrite (DateFormatP.py_str_N_small v H). Qed.
Lemma nstr_len2 v : 10 <= v < 100 -> List.length (nstr v) = 2%nat.
Proof.
  intros H. unfold nstr. rewrite (DateFormatP.py_str_N_step v) by lia. rewrite app_length.
  rewrite (DateFormatP.py_str_N_small (v / 10)) by (apply N.div_lt_upper_bound; lia). reflexivity.
Qed.
Lemma nstr_len3 v : 100 <= v < 1000 -> List.length (nstr v) = 3%nat.
Proof.
  intros H. unfold nstr. rewrite (DateFormatP.py_str_N_step v) by lia. rewrite app_length.
  change (py_str_N (v / 10)) with (nstr (v / 10)). rewrite nstr_len2; [reflexivity|].
  split; [apply N.div_le_lower_bound; lia|apply N.div_lt_upper_bound; lia].
Qed.

(* milliseconds are always shown with three digits: "1:02.005" *)
Lemma compact_ms_three_digits_lemma largest smallest v : v < 1000 ->
  show_part S_COMPACT largest smallest (U_MS, v) = zfill 3 (nstr v).
Proof.
  intros Hv. unfold show_part.
  change (U_MS =? U_WEEK) with false. change (U_MS =? U_DAY) with false. change (U_MS =? U_HOUR) with false.
  change (U_MS =? U_MINUTE) with false. change (U_MS =? U_SECOND) with false. change (S_COMPACT =? S_COMPACT) with true.
  cbv iota. unfold zfill.
  destruct (N.leb_spec 100 v).
  - rewrite nstr_len3 by lia. reflexivity.
  - destruct (N.leb_spec 10 v).
    + rewrite nstr_len2 by lia. reflexivity.
    + rewrite nstr_len1 by lia. reflexivity.
Qed.

(* minutes and seconds are shown with two digits unless they are the only unit: "1:02:03" *)
Lemma compact_two_digits_lemma largest smallest u v : u = U_MINUTE \/ u = U_SECOND ->
  ~ (largest = u /\ smallest = u) -> v < 100 ->
  show_part S_COMPACT largest smallest (u, v) = zfill 2 (nstr v).
Proof.
  intros Hu Hn Hv. unfold show_part, pad_digits.
  assert ((smallest =? u) && (largest =? u) = false) as E.
  { destruct (N.eqb_spec smallest u); destruct (N.eqb_spec largest u); try reflexivity. exfalso; apply Hn; now split. }
  destruct Hu as [-> | ->].
  - change (U_MINUTE =? U_WEEK) with false. change (U_MINUTE =? U_DAY) with false. change (U_MINUTE =? U_HOUR) with false.
    change (U_MINUTE =? U_MINUTE) with true. change (S_COMPACT =? S_COMPACT) with true. cbv iota.
    rewrite E. cbn [orb]. unfold zfill.
    destruct (N.leb_spec 10 v); [rewrite nstr_len2 by lia|rewrite nstr_len1 by lia]; reflexivity.
  - change (U_SECOND =? U_WEEK) with false. change (U_SECOND =? U_DAY) with false. change (U_SECOND =? U_HOUR) with false.
    change (U_SECOND =? U_MINUTE) with false. change (U_SECOND =? U_SECOND) with true. change (S_COMPACT =? S_COMPACT) with true. cbv iota.
    rewrite E. cbn [orb]. unfold zfill.
    destruct (N.leb_spec 10 v); [rewrite nstr_len2 by lia|rewrite nstr_len1 by lia]; reflexivity.
Qed.
