(* Every cell reports its own row and column as its position: invariant of the editing operations. *)
From Coq Require Import ZArith NArith List Bool Lia ZifyNat ZifyBool.
From NP Require Import Model.PyBase Model.Grid Proofs.GridP.
Import ListNotations.
Open Scope Z_scope.

Definition cpos (x : cell) : Z * Z := (crow x, ccol x).
Definition idx_row (r : Z) (n : nat) : list (Z * Z) := map (fun c => (r, c)) (zrange 0 (Z.of_nat n)).

(* rows a, a+1, ... : row i of the block holds positions (a+i, 0), (a+i, 1), ... *)
Fixpoint rows_ok (a : Z) (d : list (list cell)) : Prop :=
  match d with [] => True | row :: r => map cpos row = idx_row a (length row) /\ rows_ok (a + 1) r end.
Definition pos_ok (t : table) : Prop := rows_ok 0 (data t).

Lemma rows_ok_app : forall d1 d2 a, rows_ok a (d1 ++ d2) <-> rows_ok a d1 /\ rows_ok (a + Z.of_nat (length d1)) d2.
Proof.
  induction d1 as [|row d1 IH]; intros d2 a; cbn [app rows_ok length].
  - replace (a + Z.of_nat 0) with a by lia. tauto.
  - rewrite IH. replace (a + 1 + Z.of_nat (length d1)) with (a + Z.of_nat (S (length d1))) by lia. tauto.
Qed.

Lemma zrange_cons a b : a < b -> zrange a b = a :: zrange (a + 1) b.
Proof.
  intros H. unfold zrange. replace (Z.to_nat (b - a)) with (S (Z.to_nat (b - (a + 1)))) by lia.
  cbn [seq map]. f_equal; [lia|]. rewrite <- seq_shift, map_map. apply map_ext. intros. lia.
Qed.

Lemma map_fst_combine {A B} : forall (a : list A) (b : list B), length a = length b -> map fst (combine a b) = a.
Proof. induction a as [|x a IH]; intros [|y b] H; try discriminate; [reflexivity|]. cbn. f_equal. apply IH. now injection H. Qed.

(* renumbering *)
Lemma cpos_renum_row r row : map cpos (renum_row r row) = idx_row r (length row).
Proof.
  unfold renum_row, idx_row. rewrite map_map. unfold cpos. cbn [crow ccol].
  rewrite <- (map_fst_combine (zrange 0 (Z.of_nat (length row))) row) at 2 by (rewrite zrange_length; lia).
  now rewrite map_map.
Qed.

Lemma cpos_renum_cols r row : Forall (fun x => crow x = r) row -> map cpos (renum_cols row) = idx_row r (length row).
Proof.
  intros H. unfold renum_cols, idx_row. rewrite map_map. unfold cpos. cbn [crow ccol].
  rewrite <- (map_fst_combine (zrange 0 (Z.of_nat (length row))) row) at 2 by (rewrite zrange_length; lia).
  rewrite map_map. apply map_ext_in. intros [c x] Hin. cbn [fst snd]. f_equal.
  apply in_combine_r in Hin. exact (proj1 (Forall_forall _ _) H x Hin).
Qed.

Lemma rows_ok_renumbered : forall (rows : list (list cell)) a,
  rows_ok a (map (fun p => renum_row (fst p) (snd p)) (combine (zrange a (a + Z.of_nat (length rows))) rows)).
Proof.
  induction rows as [|row rows IH]; intros a; [rewrite combine_nil; exact I|].
  cbn [length]. rewrite zrange_cons by lia. cbn [combine map fst snd rows_ok]. split.
  - rewrite cpos_renum_row. now rewrite renum_row_length.
  - replace (a + Z.of_nat (S (length rows))) with (a + 1 + Z.of_nat (length rows)) by lia. apply IH.
Qed.

Lemma rows_ok_renum_from d s : 0 <= s <= Z.of_nat (length d) -> rows_ok 0 (firstn (Z.to_nat s) d) -> rows_ok 0 (renum_from d s).
Proof.
  intros Hs Hpre. unfold renum_from. apply rows_ok_app. split; [assumption|].
  rewrite firstn_length. replace (0 + Z.of_nat (Nat.min (Z.to_nat s) (length d))) with s by lia.
  pose proof (rows_ok_renumbered (skipn (Z.to_nat s) d) s) as H.
  rewrite skipn_length in H. replace (s + Z.of_nat (length d - Z.to_nat s)) with (Z.of_nat (length d)) in H by lia.
  exact H.
Qed.

Lemma rows_ok_firstn d k a : rows_ok a d -> rows_ok a (firstn k d).
Proof. intros H. rewrite <- (firstn_skipn k d) in H. now apply rows_ok_app in H. Qed.

(* rows determine crow *)
Lemma rows_ok_crow : forall d a, rows_ok a d -> forall i row, nth_error d i = Some row -> Forall (fun x => crow x = a + Z.of_nat i) row.
Proof.
  induction d as [|r0 d IH]; intros a H i row Hn; [destruct i; discriminate|].
  destruct H as [H1 H2]. destruct i as [|i]; cbn in Hn.
  - injection Hn as <-. replace (a + Z.of_nat 0) with a by lia.
    apply Forall_forall. intros x Hx.
    assert (In (cpos x) (map cpos r0)) by now apply in_map.
    rewrite H1 in H. unfold idx_row in H. apply in_map_iff in H as (c & E & _). unfold cpos in E. now injection E.
  - replace (a + Z.of_nat (S i)) with (a + 1 + Z.of_nat i) by lia. eapply IH; eauto.
Qed.

(* ---------- the operations ---------- *)
Lemma pos_ok_new nr nc : pos_ok (new_table nr nc).
Proof.
  unfold pos_ok, new_table. cbn [data].
  assert (G : forall rs a, rs = zrange a (a + Z.of_nat (length rs)) ->
            rows_ok a (map (fun r => map (fun c => empty_cell [] r c) (zrange 0 nc)) rs)).
  { induction rs as [|r rs IH]; intros a E; [exact I|]. cbn [length] in E. rewrite zrange_cons in E by lia.
    injection E as -> E. cbn [map rows_ok]. split.
    - rewrite map_map. unfold cpos, idx_row. cbn [empty_cell crow ccol]. rewrite map_length, zrange_length.
      destruct (Z_le_gt_dec 0 nc).
      + now replace (Z.of_nat (Z.to_nat (nc - 0))) with nc by lia.
      + unfold zrange. now replace (Z.to_nat (nc - 0)) with 0%nat by lia.
    - apply IH. rewrite E at 1. f_equal. lia. }
  apply G. rewrite zrange_length. destruct (Z_le_gt_dec 0 nr).
  - f_equal. lia.
  - unfold zrange. now replace (Z.to_nat (nr - 0)) with 0%nat by lia.
Qed.

Lemma rows_ok_set_nth : forall d a i newrow, rows_ok a d ->
  map cpos newrow = idx_row (a + Z.of_nat i) (length newrow) -> rows_ok a (set_nth d i newrow).
Proof.
  induction d as [|row d IH]; intros a i newrow H Hn; [exact I|].
  destruct H as [H1 H2]. destruct i as [|i]; cbn [set_nth rows_ok].
  - split; [|assumption]. now replace (a + Z.of_nat 0) with a in Hn by lia.
  - split; [assumption|]. apply IH; [assumption|]. now replace (a + 1 + Z.of_nat i) with (a + Z.of_nat (S i)) by lia.
Qed.

Lemma set_nth_same {A} : forall (l : list A) j y, (forall z, nth_error l j = Some z -> z = y) -> set_nth l j y = l.
Proof.
  induction l as [|h t IH]; intros [|j] y H; cbn [set_nth]; try reflexivity.
  - f_equal. symmetry. apply H. reflexivity.
  - f_equal. apply IH. intros z Hz. apply H. exact Hz.
Qed.

Lemma nth_error_idx_row r n j z : nth_error (idx_row r n) j = Some z -> z = (r, Z.of_nat j).
Proof.
  unfold idx_row, zrange. rewrite map_map. intros H.
  destruct (nth_error (map (fun x => (r, 0 + Z.of_nat x)) (seq 0 (Z.to_nat (Z.of_nat n - 0)))) j) eqn:E; [|discriminate].
  injection H as <-. rewrite nth_error_map in E.
  destruct (nth_error (seq 0 (Z.to_nat (Z.of_nat n - 0))) j) as [k|] eqn:Ek; [|discriminate]. cbn in E. injection E as <-.
  assert (k = j).
  { pose proof (nth_error_nth _ _ 0%nat Ek) as Hn. assert (j < length (seq 0 (Z.to_nat (Z.of_nat n - 0))))%nat by (apply nth_error_Some; congruence).
    rewrite seq_length in H. rewrite seq_nth in Hn by assumption. lia. }
  subst. f_equal.
Qed.

Lemma rows_ok_nth : forall d a i row, rows_ok a d -> nth_error d i = Some row ->
  map cpos row = idx_row (a + Z.of_nat i) (length row).
Proof.
  induction d as [|r0 d IH]; intros a i row H Hn; [destruct i; discriminate|].
  destruct H as [H1 H2]. destruct i as [|i]; cbn in Hn.
  - injection Hn as <-. now replace (a + Z.of_nat 0) with a by lia.
  - replace (a + Z.of_nat (S i)) with (a + 1 + Z.of_nat i) by lia. eapply IH; eauto.
Qed.

Lemma rows_ok_set_cell d r c x : rows_ok 0 d -> 0 <= r -> 0 <= c -> cpos x = (r, c) -> rows_ok 0 (set_cell d r c x).
Proof.
  intros H Hr Hc Hx. unfold set_cell.
  destruct (nth_error d (Z.to_nat r)) as [row|] eqn:E; [|assumption].
  apply rows_ok_set_nth; [assumption|].
  rewrite map_set_nth, set_nth_length, Hx.
  pose proof (rows_ok_nth d 0 (Z.to_nat r) row H E) as Hrow.
  replace (0 + Z.of_nat (Z.to_nat r)) with r in * by lia.
  rewrite Hrow. apply set_nth_same. intros z Hz.
  apply nth_error_idx_row in Hz. rewrite Hz. f_equal. lia.
Qed.

Lemma pos_ok_put t r c v : pos_ok t -> 0 <= r -> 0 <= c -> pos_ok (put t r c v).
Proof. intros H Hr Hc. unfold pos_ok, put. cbn [data]. now apply rows_ok_set_cell. Qed.

Lemma pos_ok_put_all : forall ps t v, pos_ok t -> Forall (fun p => 0 <= fst p /\ 0 <= snd p) ps -> pos_ok (put_all t ps v).
Proof.
  induction ps as [|[r c] ps IH]; intros t v H HF; cbn [put_all]; [assumption|].
  pose proof (Forall_inv HF) as [A B]. cbn [fst snd] in A, B.
  apply IH; [now apply pos_ok_put|exact (Forall_inv_tail HF)].
Qed.

Definition row_ok (r : Z) (row : list cell) : Prop := map cpos row = idx_row r (length row).

Lemma rows_ok_map : forall d a (f : list cell -> list cell),
  (forall i row, nth_error d i = Some row -> row_ok (a + Z.of_nat i) (f row)) -> rows_ok a (map f d).
Proof.
  induction d as [|row d IH]; intros a f H; [exact I|]. cbn [map rows_ok]. split.
  - specialize (H 0%nat row eq_refl). now replace (a + Z.of_nat 0) with a in H by lia.
  - apply IH. intros i r Hn. specialize (H (S i) r Hn). now replace (a + 1 + Z.of_nat i) with (a + Z.of_nat (S i)) by lia.
Qed.

Lemma rows_ok_map_combine : forall d a (f : Z * list cell -> list cell),
  (forall i row, nth_error d i = Some row -> row_ok (a + Z.of_nat i) (f (a + Z.of_nat i, row))) ->
  rows_ok a (map f (combine (zrange a (a + Z.of_nat (length d))) d)).
Proof.
  induction d as [|row d IH]; intros a f H; [rewrite combine_nil; exact I|].
  cbn [length]. rewrite zrange_cons by lia. cbn [combine map rows_ok]. split.
  - specialize (H 0%nat row eq_refl). now replace (a + Z.of_nat 0) with a in H by lia.
  - replace (a + Z.of_nat (S (length d))) with (a + 1 + Z.of_nat (length d)) by lia. apply IH.
    intros i r Hn. specialize (H (S i) r Hn). now replace (a + 1 + Z.of_nat i) with (a + Z.of_nat (S i)) by lia.
Qed.

Lemma row_ok_set r row c x : row_ok r row -> 0 <= c -> cpos x = (r, c) -> row_ok r (set_nth row (Z.to_nat c) x).
Proof.
  unfold row_ok. intros H Hc Hx. rewrite map_set_nth, set_nth_length, Hx, H.
  apply set_nth_same. intros z Hz. apply nth_error_idx_row in Hz. rewrite Hz. f_equal. lia.
Qed.

Lemma row_ok_fold_values m r v : forall cs row, row_ok r row -> Forall (fun c => 0 <= c) cs ->
  row_ok r (fold_left (fun rw c => set_nth rw (Z.to_nat c) (value_cell m r c v)) cs row).
Proof.
  induction cs as [|c cs IH]; intros row H HF; cbn [fold_left]; [assumption|].
  apply IH; [|exact (Forall_inv_tail HF)]. apply row_ok_set; [assumption|exact (Forall_inv HF)|reflexivity].
Qed.

Lemma zrange_nonneg a b : 0 <= a -> Forall (fun c => 0 <= c) (zrange a b).
Proof. intros H. unfold zrange. apply Forall_forall. intros x Hx. apply in_map_iff in Hx as (i & <- & _). lia. Qed.

Lemma row_ok_renum_cols r row : Forall (fun x => crow x = r) row -> row_ok r (renum_cols row).
Proof. intros H. unfold row_ok. rewrite renum_cols_length. now apply cpos_renum_cols. Qed.

(* ---------- add_row ---------- *)
Lemma pos_ok_add_row t n s d t' : wf t -> pos_ok t -> 0 <= n -> add_row t n s d = Ok t' -> pos_ok t'.
Proof.
  intros (A & B & C) Hp Hn. unfold add_row.
  destruct (match s with Some s0 => (s0 <? 0) || (nrows t <=? s0) | None => false end) eqn:Eb; [discriminate|].
  intros H. injection H as <-.
  set (s' := match s with Some x => x | None => nrows t end).
  assert (Hs : 0 <= s' <= Z.of_nat (length (data t))).
  { unfold s'. destruct s as [x|]; [|lia]. apply orb_false_elim in Eb as [E1 E2].
    apply Z.ltb_ge in E1. apply Z.leb_gt in E2. lia. }
  set (rows := map (fun r => map (fun c => empty_cell (merges t) r c) (zrange 0 (ncols t))) (zrange s' (s' + n))).
  assert (Hbase : rows_ok 0 (renum_from (insert_at (data t) s' rows) s')).
  { apply rows_ok_renum_from.
    - rewrite insert_at_length by lia. lia.
    - unfold insert_at. rewrite firstn_app, firstn_firstn, Nat.min_id.
      replace (Z.to_nat s' - length (firstn (Z.to_nat s') (data t)))%nat with 0%nat by (rewrite firstn_length; lia).
      cbn [firstn]. rewrite app_nil_r. now apply rows_ok_firstn. }
  destruct d as [v|]; [|exact Hbase].
  apply pos_ok_put_all; [exact Hbase|].
  apply Forall_forall. intros [r c] Hin. apply in_flat_map in Hin as (r' & Hr' & Hin).
  apply in_map_iff in Hin as (c' & E & Hc'). injection E as <- <-. cbn [fst snd].
  pose proof (proj1 (Forall_forall _ _) (zrange_nonneg s' (s' + n) (proj1 Hs)) r' Hr').
  pose proof (proj1 (Forall_forall _ _) (zrange_nonneg 0 (ncols t) (Z.le_refl 0)) c' Hc'). cbn beta in *. lia.
Qed.

(* ---------- add_column ---------- *)
Lemma insert_at_Forall {A} (P : A -> Prop) l i xs : Forall P l -> Forall P xs -> Forall P (insert_at l i xs).
Proof.
  intros H1 H2. unfold insert_at. apply Forall_app. split; [|apply Forall_app; split; [assumption|]].
  - rewrite <- (firstn_skipn (Z.to_nat i) l) in H1. now apply Forall_app in H1.
  - rewrite <- (firstn_skipn (Z.to_nat i) l) in H1. now apply Forall_app in H1.
Qed.

Lemma pos_ok_add_column t n s d t' : wf t -> pos_ok t -> 0 <= n -> add_column t n s d = Ok t' -> pos_ok t'.
Proof.
  intros (A & B & C) Hp Hn. unfold add_column.
  destruct (match s with Some s0 => (s0 <? 0) || (ncols t <=? s0) | None => false end) eqn:Eb; [discriminate|].
  intros H. injection H as <-. unfold pos_ok. cbn [data].
  set (s' := match s with Some x => x | None => ncols t end).
  assert (Hs : 0 <= s').
  { unfold s'. destruct s as [x|]; [|lia]. apply orb_false_elim in Eb as [E1 _]. apply Z.ltb_ge in E1. lia. }
  rewrite A. replace (Z.of_nat (length (data t))) with (0 + Z.of_nat (length (data t))) by lia.
  apply rows_ok_map_combine. intros i row Hrow. cbn [fst snd].
  assert (Hcrow : Forall (fun x => crow x = 0 + Z.of_nat i) row) by (eapply rows_ok_crow; eauto).
  assert (Hbase : row_ok (0 + Z.of_nat i)
            (renum_cols (insert_at row s' (map (fun c => empty_cell (merges t) (0 + Z.of_nat i) (s' + c)) (zrange 0 n))))).
  { apply row_ok_renum_cols. apply insert_at_Forall; [assumption|].
    apply Forall_map. apply Forall_forall. intros; reflexivity. }
  destruct d as [v|]; [|exact Hbase].
  apply row_ok_fold_values; [exact Hbase|apply zrange_nonneg; exact Hs].
Qed.

(* ---------- delete_row / delete_column ---------- *)
Lemma pos_ok_delete_row t n s t' : wf t -> pos_ok t -> 0 <= n -> delete_row t n s = Ok t' -> pos_ok t'.
Proof.
  intros (A & B & C) Hp Hn. unfold delete_row.
  destruct (match s with Some s0 => (s0 <? 0) || (nrows t <=? s0) | None => false end) eqn:Eb; [discriminate|].
  intros H. injection H as <-. unfold pos_ok. cbn [data]. destruct s as [s|].
  - apply orb_false_elim in Eb as [E1 E2]. apply Z.ltb_ge in E1. apply Z.leb_gt in E2.
    apply rows_ok_renum_from.
    + unfold delete_at. rewrite app_length, firstn_length, skipn_length. lia.
    + unfold delete_at. rewrite firstn_app, firstn_firstn, Nat.min_id.
      replace (Z.to_nat s - length (firstn (Z.to_nat s) (data t)))%nat with 0%nat by (rewrite firstn_length; lia).
      cbn [firstn]. rewrite app_nil_r. now apply rows_ok_firstn.
  - unfold delete_last. now apply rows_ok_firstn.
Qed.

Lemma pos_ok_delete_column t n s t' : pos_ok t -> delete_column t n s = Ok t' -> pos_ok t'.
Proof.
  intros Hp. unfold delete_column.
  destruct (match s with Some s0 => (s0 <? 0) || (ncols t <=? s0) | None => false end); [discriminate|].
  intros H. injection H as <-. unfold pos_ok. cbn [data].
  apply rows_ok_map. intros i row Hrow.
  assert (Hcrow : Forall (fun x => crow x = 0 + Z.of_nat i) row) by (eapply rows_ok_crow; eauto).
  apply row_ok_renum_cols.
  destruct s as [s|].
  - unfold delete_at. rewrite <- (firstn_skipn (Z.to_nat s) row) in Hcrow. apply Forall_app in Hcrow as [H1 _].
    apply Forall_app. split; [assumption|].
    assert (Hc2 : Forall (fun x => crow x = 0 + Z.of_nat i) row) by (eapply rows_ok_crow; eauto).
    rewrite <- (firstn_skipn (Z.to_nat (s + n)) row) in Hc2. now apply Forall_app in Hc2.
  - unfold delete_last. rewrite <- (firstn_skipn (length row - Z.to_nat n) row) in Hcrow. now apply Forall_app in Hcrow.
Qed.

(* ---------- growth, write, histories ---------- *)
Lemma grow_rows_pos : forall k t, wf t -> pos_ok t -> pos_ok (grow_rows k t).
Proof.
  induction k as [|k IH]; intros t Hw Hp; cbn [grow_rows]; [assumption|].
  destruct (add_row t 1 None None) as [t1|e] eqn:E; [|assumption].
  assert (H01 : 0 <= 1) by lia.
  apply IH; [exact (wf_add_row t 1 None t1 Hw H01 E)|exact (pos_ok_add_row t 1 None None t1 Hw Hp H01 E)].
Qed.
Lemma grow_cols_pos : forall k t, wf t -> pos_ok t -> pos_ok (grow_cols k t).
Proof.
  induction k as [|k IH]; intros t Hw Hp; cbn [grow_cols]; [assumption|].
  destruct (add_column t 1 None None) as [t1|e] eqn:E; [|assumption].
  assert (H01 : 0 <= 1) by lia.
  apply IH; [exact (wf_add_column t 1 None t1 Hw H01 E)|exact (pos_ok_add_column t 1 None None t1 Hw Hp H01 E)].
Qed.

Lemma pos_ok_step t o : wf t -> pos_ok t -> pos_ok (step t o).
Proof.
  intros Hw Hp. unfold step. destruct (in_domain t o) eqn:D; [|assumption].
  destruct (apply_op t o) as [t'|e] eqn:E; [|assumption].
  destruct o as [r c v|n s d|n s d|n s|n s]; cbn [apply_op in_domain] in *.
  - unfold write in E. destruct (validate t r c) as [t1|] eqn:V; [|discriminate]. injection E as <-.
    unfold validate in V.
    destruct (Z.ltb_spec r 0); [discriminate|]. destruct (Z.ltb_spec c 0); [discriminate|]. cbn [orb] in V.
    destruct (MAX_ROW_COUNT <=? r); [discriminate|]. destruct (MAX_COL_COUNT <=? c); [discriminate|].
    injection V as <-. apply pos_ok_put; [|assumption|assumption].
    destruct (grow_rows_spec (Z.to_nat (r + 1 - nrows t)) t Hw) as (W1 & _).
    apply grow_cols_pos; [assumption|]. now apply grow_rows_pos.
  - apply Z.leb_le in D. eapply pos_ok_add_row; eauto.
  - apply Z.leb_le in D. eapply pos_ok_add_column; eauto.
  - apply andb_prop in D as [D1 _]. apply Z.leb_le in D1. eapply pos_ok_delete_row; eauto.
  - eapply pos_ok_delete_column; eauto.
Qed.

Theorem positions_reachable_lemma nr nc ops : 0 <= nr -> 0 <= nc -> pos_ok (run (new_table nr nc) ops).
Proof.
  intros Hr Hc. unfold run.
  assert (G : forall ops t, wf t -> pos_ok t -> pos_ok (fold_left step ops t)).
  { clear. induction ops as [|o ops IH]; intros t Hw Hp; cbn [fold_left]; [assumption|].
    apply IH; [now apply wf_step|now apply pos_ok_step]. }
  apply G; [now apply wf_new_table|apply pos_ok_new].
Qed.

(* the invariant in the form the property states it: the cell found at (i, j) reports row i and column j *)
Theorem pos_ok_pointwise t i j row x : pos_ok t ->
  nth_error (data t) i = Some row -> nth_error row j = Some x -> crow x = Z.of_nat i /\ ccol x = Z.of_nat j.
Proof.
  intros Hp Hr Hx. pose proof (rows_ok_nth (data t) 0 i row Hp Hr) as H.
  assert (Hn : nth_error (map cpos row) j = Some (cpos x)) by (rewrite nth_error_map, Hx; reflexivity).
  rewrite H in Hn. apply nth_error_idx_row in Hn. unfold cpos in Hn. injection Hn as -> ->. split; lia.
Qed.

(* ---------- save + reopen of a table without merges: same values, own positions ---------- *)
Lemma reopen_ncols t : wf t ->
  (if Z.of_nat (length (data t)) =? 0 then ncols t else Z.of_nat (length (nth 0 (data t) []))) = ncols t.
Proof.
  intros (A & B & C). destruct (data t) as [|row0 rest] eqn:E; [reflexivity|].
  replace (Z.of_nat (length (row0 :: rest)) =? 0) with false by (symmetry; apply Z.eqb_neq; cbn [length]; lia).
  cbn [nth]. exact (Forall_inv C).
Qed.

Lemma reopen_dims t : wf t -> nrows (reopen t) = nrows t /\ ncols (reopen t) = ncols t.
Proof.
  intros Hw. pose proof (reopen_ncols t Hw) as Hnc. destruct Hw as (A & B & C).
  unfold reopen. cbn [nrows ncols]. split; [lia | exact Hnc].
Qed.

Lemma reopen_nomerge_vals t : merges t = [] -> wf t ->
  vals (reopen t) = map (map (fun x => if cplace x then None else cval x)) (data t) /\ pos_ok (reopen t).
Proof.
  intros Hm Hw. pose proof (reopen_ncols t Hw) as Hnc. destruct Hw as (A & B & C).
  unfold reopen. rewrite Hm. cbn [reload_merges fold_left].
  rewrite Hnc. split.
  - unfold vals. cbn [data]. rewrite map_map.
    transitivity (map (fun p => map (fun x => if cplace x then None else cval x) (snd p))
                      (combine (zrange 0 (Z.of_nat (length (data t)))) (data t))).
    + apply map_ext_in. intros [r row] Hin. cbn [fst snd]. rewrite map_map.
      assert (Hl : Z.of_nat (length row) = ncols t).
      { apply in_combine_r in Hin. exact (proj1 (Forall_forall _ _) C row Hin). }
      transitivity (map (fun q => (fun x => if cplace x then None else cval x) (snd q)) (combine (zrange 0 (ncols t)) row)).
      * apply map_ext. intros [c x]. cbn [fst snd is_ref mget].
        destruct (cval x) as [v|]; destruct (cplace x); reflexivity.
      * apply (combine_snd_le (fun x => if cplace x then None else cval x)). rewrite zrange_length. lia.
    + apply (combine_snd_le (map (fun x => if cplace x then None else cval x))). rewrite zrange_length. lia.
  - unfold pos_ok. cbn [data].
    replace (Z.of_nat (length (data t))) with (0 + Z.of_nat (length (data t))) by lia.
    apply rows_ok_map_combine. intros i row Hrow. cbn [fst snd].
    assert (Hl : Z.of_nat (length row) = ncols t) by exact (proj1 (Forall_forall _ _) C row (nth_error_In _ _ Hrow)).
    unfold row_ok. rewrite map_map, map_length, combine_length, zrange_length.
    replace (Nat.min (Z.to_nat (ncols t - 0)) (length row)) with (length row) by lia.
    unfold idx_row. rewrite Hl.
    transitivity (map (fun p : Z * cell => (0 + Z.of_nat i, fst p)) (combine (zrange 0 (ncols t)) row)).
    + apply map_ext. intros [c x]. cbn [fst snd is_ref mget].
      destruct (cval x); destruct (cplace x); reflexivity.
    + rewrite <- (map_map fst (fun c => (0 + Z.of_nat i, c))). f_equal.
      apply map_fst_combine. rewrite zrange_length. lia.
Qed.

(* ---------- merge-free histories: no merge map entries, no placeholder cells ---------- *)
Definition plain_cell (x : cell) : Prop := cplace x = false.
Definition nomerge (t : table) : Prop := merges t = [] /\ Forall (Forall plain_cell) (data t).

Lemma Forall_set_nth {A} (P : A -> Prop) : forall l i x, Forall P l -> P x -> Forall P (set_nth l i x).
Proof.
  induction l as [|h t IH]; intros [|i] x H Hx; cbn [set_nth]; try assumption.
  - constructor; [assumption|exact (Forall_inv_tail H)].
  - constructor; [exact (Forall_inv H)|apply IH; [exact (Forall_inv_tail H)|assumption]].
Qed.

Lemma plain_renum_row r row : Forall plain_cell row -> Forall plain_cell (renum_row r row).
Proof.
  intros H. unfold renum_row. apply Forall_map. apply Forall_forall. intros [c x] Hin. unfold plain_cell. cbn [cplace snd].
  apply in_combine_r in Hin. exact (proj1 (Forall_forall _ _) H x Hin).
Qed.
Lemma plain_renum_cols row : Forall plain_cell row -> Forall plain_cell (renum_cols row).
Proof.
  intros H. unfold renum_cols. apply Forall_map. apply Forall_forall. intros [c x] Hin. unfold plain_cell. cbn [cplace snd].
  apply in_combine_r in Hin. exact (proj1 (Forall_forall _ _) H x Hin).
Qed.
Lemma plain_renum_from d s : Forall (Forall plain_cell) d -> Forall (Forall plain_cell) (renum_from d s).
Proof.
  intros H. unfold renum_from. apply Forall_app. split.
  - rewrite <- (firstn_skipn (Z.to_nat s) d) in H. now apply Forall_app in H.
  - apply Forall_map. apply Forall_forall. intros [r row] Hin. cbn [fst snd]. apply plain_renum_row.
    apply in_combine_r in Hin. rewrite <- (firstn_skipn (Z.to_nat s) d) in H. apply Forall_app in H as [_ H2].
    exact (proj1 (Forall_forall _ _) H2 row Hin).
Qed.
Lemma plain_set_cell d r c x : Forall (Forall plain_cell) d -> plain_cell x -> Forall (Forall plain_cell) (set_cell d r c x).
Proof.
  intros H Hx. unfold set_cell. destruct (nth_error d (Z.to_nat r)) as [row|] eqn:E; [|assumption].
  apply Forall_set_nth; [assumption|]. apply Forall_set_nth; [|assumption].
  exact (proj1 (Forall_forall _ _) H row (nth_error_In _ _ E)).
Qed.
Lemma Forall_firstn {A} (P : A -> Prop) l k : Forall P l -> Forall P (firstn k l).
Proof. intros H. rewrite <- (firstn_skipn k l) in H. now apply Forall_app in H. Qed.
Lemma Forall_skipn {A} (P : A -> Prop) l k : Forall P l -> Forall P (skipn k l).
Proof. intros H. rewrite <- (firstn_skipn k l) in H. now apply Forall_app in H. Qed.

Lemma nomerge_put t r c v : nomerge t -> nomerge (put t r c v).
Proof. intros [A B]. split; [exact A|]. unfold put. cbn [data]. apply plain_set_cell; [assumption|reflexivity]. Qed.
Lemma nomerge_put_all : forall ps t v, nomerge t -> nomerge (put_all t ps v).
Proof. induction ps as [|[r c] ps IH]; intros t v H; cbn [put_all]; [assumption|]. apply IH, nomerge_put, H. Qed.

Lemma nomerge_add_row t n s d t' : nomerge t -> add_row t n s d = Ok t' -> nomerge t'.
Proof.
  intros [A B]. unfold add_row.
  destruct (match s with Some s0 => (s0 <? 0) || (nrows t <=? s0) | None => false end); [discriminate|].
  intros H. injection H as <-.
  assert (H1 : nomerge {| nrows := nrows t + n; ncols := ncols t;
      data := renum_from (insert_at (data t) (match s with Some s0 => s0 | None => nrows t end)
               (map (fun r => map (fun c => empty_cell (merges t) r c) (zrange 0 (ncols t)))
                    (zrange (match s with Some s0 => s0 | None => nrows t end) (match s with Some s0 => s0 | None => nrows t end + n))))
               (match s with Some s0 => s0 | None => nrows t end); merges := merges t |}).
  { split; [exact A|]. cbn [data]. apply plain_renum_from. apply insert_at_Forall; [assumption|].
    apply Forall_map. apply Forall_forall. intros r _. apply Forall_map. apply Forall_forall. intros c _. reflexivity. }
  destruct d as [v|]; [now apply nomerge_put_all|exact H1].
Qed.

Lemma plain_fold_values m r v : forall cs row, Forall plain_cell row ->
  Forall plain_cell (fold_left (fun rw c => set_nth rw (Z.to_nat c) (value_cell m r c v)) cs row).
Proof.
  induction cs as [|c cs IH]; intros row H; cbn [fold_left]; [assumption|].
  apply IH. apply Forall_set_nth; [assumption|reflexivity].
Qed.

Lemma nomerge_add_column t n s d t' : nomerge t -> add_column t n s d = Ok t' -> nomerge t'.
Proof.
  intros [A B]. unfold add_column.
  destruct (match s with Some s0 => (s0 <? 0) || (ncols t <=? s0) | None => false end); [discriminate|].
  intros H. injection H as <-. split; [exact A|]. cbn [data].
  apply Forall_map. apply Forall_forall. intros [r row] Hin. cbn [fst snd].
  apply in_combine_r in Hin. pose proof (proj1 (Forall_forall _ _) B row Hin) as Hrow.
  assert (Hb : Forall plain_cell (renum_cols (insert_at row (match s with Some s0 => s0 | None => ncols t end)
                 (map (fun c => empty_cell (merges t) r (match s with Some s0 => s0 | None => ncols t end + c)) (zrange 0 n))))).
  { apply plain_renum_cols. apply insert_at_Forall; [assumption|]. apply Forall_map. apply Forall_forall. intros; reflexivity. }
  destruct d as [v|]; [now apply plain_fold_values|exact Hb].
Qed.

Lemma nomerge_delete_row t n s t' : nomerge t -> delete_row t n s = Ok t' -> nomerge t'.
Proof.
  intros [A B]. unfold delete_row.
  destruct (match s with Some s0 => (s0 <? 0) || (nrows t <=? s0) | None => false end); [discriminate|].
  intros H. injection H as <-. split; [exact A|]. cbn [data]. destruct s as [s|].
  - apply plain_renum_from. unfold delete_at. apply Forall_app. split; [now apply Forall_firstn|now apply Forall_skipn].
  - unfold delete_last. now apply Forall_firstn.
Qed.

Lemma nomerge_delete_column t n s t' : nomerge t -> delete_column t n s = Ok t' -> nomerge t'.
Proof.
  intros [A B]. unfold delete_column.
  destruct (match s with Some s0 => (s0 <? 0) || (ncols t <=? s0) | None => false end); [discriminate|].
  intros H. injection H as <-. split; [exact A|]. cbn [data].
  apply Forall_map. eapply Forall_impl; [|exact B]. intros row Hrow. cbn beta. apply plain_renum_cols.
  destruct s as [s|].
  - unfold delete_at. apply Forall_app. split; [now apply Forall_firstn|now apply Forall_skipn].
  - unfold delete_last. now apply Forall_firstn.
Qed.

Lemma nomerge_grow_rows : forall k t, nomerge t -> nomerge (grow_rows k t).
Proof.
  induction k as [|k IH]; intros t H; cbn [grow_rows]; [assumption|].
  destruct (add_row t 1 None None) as [t1|] eqn:E; [|assumption]. apply IH. eapply nomerge_add_row; eauto.
Qed.
Lemma nomerge_grow_cols : forall k t, nomerge t -> nomerge (grow_cols k t).
Proof.
  induction k as [|k IH]; intros t H; cbn [grow_cols]; [assumption|].
  destruct (add_column t 1 None None) as [t1|] eqn:E; [|assumption]. apply IH. eapply nomerge_add_column; eauto.
Qed.

Lemma nomerge_step t o : nomerge t -> nomerge (step t o).
Proof.
  intros H. unfold step. destruct (in_domain t o); [|assumption].
  destruct (apply_op t o) as [t'|e] eqn:E; [|assumption].
  destruct o as [r c v|n s d|n s d|n s|n s]; cbn [apply_op] in E.
  - unfold write in E. destruct (validate t r c) as [t1|] eqn:V; [|discriminate]. injection E as <-.
    unfold validate in V. destruct ((r <? 0) || (c <? 0)); [discriminate|].
    destruct (MAX_ROW_COUNT <=? r); [discriminate|]. destruct (MAX_COL_COUNT <=? c); [discriminate|].
    injection V as <-. apply nomerge_put, nomerge_grow_cols, nomerge_grow_rows, H.
  - eapply nomerge_add_row; eauto.
  - eapply nomerge_add_column; eauto.
  - eapply nomerge_delete_row; eauto.
  - eapply nomerge_delete_column; eauto.
Qed.

Lemma nomerge_new nr nc : nomerge (new_table nr nc).
Proof.
  split; [reflexivity|]. unfold new_table. cbn [data].
  apply Forall_map. apply Forall_forall. intros r _. apply Forall_map. apply Forall_forall. intros; reflexivity.
Qed.

(* the saved file of any reachable (merge-free) table - also one emptied of all its rows or columns - reopens to the
   same grid of values with the same dimensions, every cell again reporting its own position *)
Theorem save_reopen_grid_lemma nr nc ops :
  let t := run (new_table nr nc) ops in
  0 <= nr -> 0 <= nc ->
  vals (reopen t) = vals t /\ pos_ok (reopen t) /\ nrows (reopen t) = nrows t /\ ncols (reopen t) = ncols t.
Proof.
  intros t Hr Hc.
  assert (Hw : wf t) by (apply grid_wf_reachable_lemma; assumption).
  assert (Hn : nomerge t).
  { unfold t, run. assert (G : forall ops t0, nomerge t0 -> nomerge (fold_left step ops t0)).
    { clear. induction ops as [|o ops IH]; intros t0 H; cbn [fold_left]; [assumption|]. apply IH, nomerge_step, H. }
    apply G, nomerge_new. }
  destruct Hn as [Hm Hp].
  destruct (reopen_nomerge_vals t Hm Hw) as [V P]. split; [|split; [exact P | exact (reopen_dims t Hw)]].
  rewrite V. unfold vals. apply map_ext_in. intros row Hin.
  apply map_ext_in. intros x Hx.
  pose proof (proj1 (Forall_forall _ _) (proj1 (Forall_forall _ _) Hp row Hin) x Hx) as Hpl.
  unfold plain_cell in Hpl. now rewrite Hpl.
Qed.
