(* DigitsP: lemmas about Model/Digits.v - digit counts, digit strings, rounding, grouping. *)
From Coq Require Import ZArith NArith List Bool Lia.
From NP Require Import Model.PyBase Model.Digits.
Import ListNotations.
Open Scope Z_scope.
Ltac Zify.zify_post_hook ::= Z.to_euclidean_division_equations.

(* ---------- powers ---------- *)
Lemma pow_pos_b b k : 0 < b -> 0 <= k -> 0 < b ^ k.
Proof. intros. apply Z.pow_pos_nonneg; lia. Qed.

Lemma pow_succ_b b k : 0 <= k -> b ^ (k + 1) = b * b ^ k.
Proof. intros. rewrite Z.pow_add_r by lia. rewrite Z.pow_1_r. ring. Qed.

Lemma pow_split b k j : 0 <= j <= k -> b ^ k = b ^ (k - j) * b ^ j.
Proof. intros. rewrite <- Z.pow_add_r by lia. f_equal. lia. Qed.

(* ---------- number of digits ---------- *)
Lemma nbdig_aux_0 fuel b n : n <= 0 -> nbdig_aux fuel b n = 0.
Proof. intros H. destruct fuel; cbn [nbdig_aux]; [reflexivity|]. destruct (Z.leb_spec n 0); [reflexivity|lia]. Qed.

Lemma nbdig_aux_S fuel b n : 0 < n -> nbdig_aux (S fuel) b n = 1 + nbdig_aux fuel b (n / b).
Proof. intros H. cbn [nbdig_aux]. destruct (Z.leb_spec n 0); [lia|reflexivity]. Qed.

Lemma nbdig_aux_spec b : 2 <= b -> forall fuel n, 0 < n -> n < 2 ^ Z.of_nat fuel ->
  0 < nbdig_aux fuel b n /\ b ^ (nbdig_aux fuel b n - 1) <= n < b ^ (nbdig_aux fuel b n).
Proof.
  intros Hb. induction fuel as [|f IH]; intros n Hn Hlt.
  - cbn in Hlt. lia.
  - rewrite nbdig_aux_S by assumption.
    destruct (Z.eq_dec (n / b) 0) as [Hz|Hnz].
    + rewrite Hz, nbdig_aux_0 by lia.
      replace (1 + 0 - 1) with 0 by lia. replace (1 + 0) with 1 by lia.
      rewrite Z.pow_0_r, Z.pow_1_r.
      assert (n < b) by (apply Z.div_small_iff in Hz; lia). lia.
    + assert (Hq : 0 < n / b) by (pose proof (Z.div_pos n b); lia).
      assert (Hq2 : n / b < 2 ^ Z.of_nat f).
      { rewrite Nat2Z.inj_succ, Z.pow_succ_r in Hlt by lia.
        assert (n / b <= n / 2) by (apply Z.div_le_compat_l; lia).
        assert (n / 2 < 2 ^ Z.of_nat f) by (apply Z.div_lt_upper_bound; lia). lia. }
      destruct (IH (n / b) Hq Hq2) as [Hk [Hlo Hhi]].
      set (k := nbdig_aux f b (n / b)) in *.
      split; [lia|].
      replace (1 + k - 1) with ((k - 1) + 1) by lia. replace (1 + k) with (k + 1) by lia.
      rewrite !pow_succ_b by lia.
      assert (0 < b ^ (k - 1)) by (apply pow_pos_b; lia).
      assert (0 < b ^ k) by (apply pow_pos_b; lia).
      split.
      * assert (b * (n / b) <= n) by (apply Z.mul_div_le; lia). nia.
      * assert (n < b * (n / b + 1)).
        { pose proof (Z.mod_pos_bound n b ltac:(lia)). pose proof (Z.div_mod n b ltac:(lia)). lia. }
        nia.
Qed.

Lemma nbdig_spec b n : 2 <= b -> 0 < n -> 0 < nbdig b n /\ b ^ (nbdig b n - 1) <= n < b ^ nbdig b n.
Proof.
  intros Hb Hn. unfold nbdig. apply nbdig_aux_spec; try assumption.
  pose proof (Z.log2_spec n Hn). pose proof (Z.log2_nonneg n).
  rewrite Nat2Z.inj_succ, Z2Nat.id by lia. lia.
Qed.

Lemma nbdig_nonpos b n : n <= 0 -> nbdig b n = 0.
Proof. intros. unfold nbdig. apply nbdig_aux_0. assumption. Qed.

Lemma ndig_spec n : 0 < n -> 0 < ndig n /\ 10 ^ (ndig n - 1) <= n < 10 ^ ndig n.
Proof. intros. apply nbdig_spec; lia. Qed.

Lemma nbdig_nonneg b n : 2 <= b -> 0 <= nbdig b n.
Proof.
  intros Hb. destruct (Z_lt_le_dec 0 n) as [H|H].
  - pose proof (nbdig_spec b n Hb H). lia.
  - rewrite nbdig_nonpos by lia. lia.
Qed.

(* the digit count is determined by the power-of-b bracket *)
Lemma pow_bracket_unique b k j n : 2 <= b -> 0 <= k -> 0 <= j ->
  b ^ k <= n < b ^ (k + 1) -> b ^ j <= n < b ^ (j + 1) -> k = j.
Proof.
  intros Hb Hk Hj [H1 H2] [H3 H4].
  destruct (Z.lt_trichotomy k j) as [Hlt|[Heq|Hgt]]; [|assumption|].
  - assert (b ^ (k + 1) <= b ^ j) by (apply Z.pow_le_mono_r; lia). lia.
  - assert (b ^ (j + 1) <= b ^ k) by (apply Z.pow_le_mono_r; lia). lia.
Qed.

Lemma nbdig_unique b n k : 2 <= b -> 0 < k -> b ^ (k - 1) <= n < b ^ k -> nbdig b n = k.
Proof.
  intros Hb Hk [Hlo Hhi].
  assert (Hn : 0 < n) by (pose proof (pow_pos_b b (k - 1) ltac:(lia) ltac:(lia)); lia).
  destruct (nbdig_spec b n Hb Hn) as [Hd [H1 H2]].
  assert (nbdig b n - 1 = k - 1); [|lia].
  apply (pow_bracket_unique b _ _ n); try lia.
  - replace (nbdig b n - 1 + 1) with (nbdig b n) by lia. lia.
  - replace (k - 1 + 1) with k by lia. lia.
Qed.

(* ---------- characters ---------- *)
Lemma cval_bchar d : 0 <= d < 36 -> cval (bchar d) = d.
Proof.
  intros H. unfold cval, bchar.
  destruct (Z.ltb_spec d 10).
  - replace (Z.to_N (48 + d) <? 58)%N with true by (symmetry; apply N.ltb_lt; lia). lia.
  - replace (Z.to_N (55 + d) <? 58)%N with false by (symmetry; apply N.ltb_ge; lia). lia.
Qed.

Lemma bchar_is_digit d : 0 <= d < 10 -> is_digit (bchar d) = true.
Proof.
  intros H. unfold is_digit, bchar. destruct (Z.ltb_spec d 10); [|lia].
  apply andb_true_intro; split; apply N.leb_le; lia.
Qed.

(* ---------- digit strings ---------- *)
Lemma bval_app1 b l c : bval b (l ++ [c]) = bval b l * b + cval c.
Proof. unfold bval. rewrite fold_left_app. reflexivity. Qed.

Lemma bval_fold b l : forall acc, fold_left (fun a c => a * b + cval c) l acc = acc * b ^ zlen l + bval b l.
Proof.
  unfold zlen. induction l as [|x l IH] using rev_ind; intros acc.
  - cbn. lia.
  - rewrite fold_left_app. cbn [fold_left]. rewrite IH, bval_app1.
    rewrite app_length, Nat2Z.inj_add. cbn [length]. rewrite pow_succ_b by lia. ring.
Qed.

Lemma bval_app b x y : bval b (x ++ y) = bval b x * b ^ zlen y + bval b y.
Proof. unfold bval at 1. rewrite fold_left_app. rewrite bval_fold. reflexivity. Qed.

Lemma bdigs_length b w n : length (bdigs b w n) = w.
Proof. revert n. induction w as [|w IH]; intros n; cbn [bdigs]; [reflexivity|]. rewrite app_length, IH. cbn. lia. Qed.

Lemma bdigs_val b : 2 <= b <= 36 -> forall w n, 0 <= n -> bval b (bdigs b w n) = n mod b ^ Z.of_nat w.
Proof.
  intros Hb. induction w as [|w IH]; intros n Hn.
  - cbn. rewrite Z.mod_1_r. reflexivity.
  - cbn [bdigs]. rewrite bval_app1, IH by (apply Z.div_pos; lia).
    rewrite cval_bchar by (pose proof (Z.mod_pos_bound n b ltac:(lia)); lia).
    rewrite Nat2Z.inj_succ, Z.pow_succ_r by lia.
    rewrite (Z.rem_mul_r n b (b ^ Z.of_nat w)) by (try apply pow_pos_b; lia). ring.
Qed.

Lemma bdigs_digits w n : Forall (fun c => is_digit c = true) (digs w n).
Proof.
  unfold digs. revert n. induction w as [|w IH]; intros n; cbn [bdigs]; [constructor|].
  apply Forall_app; split; [apply IH|]. constructor; [|constructor].
  apply bchar_is_digit. apply Z.mod_pos_bound. lia.
Qed.

Lemma digs_val w n : 0 <= n -> bval 10 (digs w n) = n mod 10 ^ Z.of_nat w.
Proof. intros. unfold digs. apply bdigs_val; lia. Qed.

Lemma digs_length w n : length (digs w n) = w.
Proof. apply bdigs_length. Qed.

Lemma zstr_digits n : Forall (fun c => is_digit c = true) (zstr n).
Proof. unfold zstr. destruct (n <=? 0); [repeat constructor|apply bdigs_digits]. Qed.

Lemma zstr_nonempty n : zstr n <> [].
Proof.
  unfold zstr. destruct (Z.leb_spec n 0); [discriminate|].
  intros E. apply (f_equal (@length N)) in E. rewrite digs_length in E.
  change (length (@nil N)) with 0%nat in E.
  pose proof (ndig_spec n ltac:(lia)) as [Hk _]. lia.
Qed.

Lemma zstr_val n : 0 <= n -> bval 10 (zstr n) = n.
Proof.
  intros Hn. unfold zstr. destruct (Z.leb_spec n 0).
  - cbn. lia.
  - rewrite digs_val by lia. pose proof (ndig_spec n ltac:(lia)) as [Hk [_ Hhi]].
    rewrite Z2Nat.id by lia. apply Z.mod_small. lia.
Qed.

Lemma zstr_length n : 0 < n -> zlen (zstr n) = ndig n.
Proof.
  intros Hn. unfold zstr, zlen. destruct (Z.leb_spec n 0); [lia|].
  rewrite digs_length. pose proof (ndig_spec n Hn). lia.
Qed.

Lemma to_base_val b n : 2 <= b <= 36 -> 0 <= n -> bval b (to_base b n) = n.
Proof.
  intros Hb Hn. unfold to_base. destruct (Z.leb_spec n 0).
  - cbn. lia.
  - rewrite bdigs_val by lia. pose proof (nbdig_spec b n ltac:(lia) ltac:(lia)) as [Hk [_ Hhi]].
    rewrite Z2Nat.id by lia. apply Z.mod_small. lia.
Qed.

Lemma to_base_length b n : 2 <= b -> zlen (to_base b n) = nbdig b n.
Proof.
  intros Hb. unfold to_base, zlen. destruct (Z.leb_spec n 0).
  - rewrite nbdig_nonpos by lia. reflexivity.
  - rewrite bdigs_length. pose proof (nbdig_spec b n Hb ltac:(lia)). lia.
Qed.

Lemma repeat_zero_val b k : bval b (repeat 48%N k) = 0.
Proof. induction k as [|k IH]; [reflexivity|]. change (repeat 48%N (S k)) with ([48%N] ++ repeat 48%N k). rewrite bval_app, IH. cbn. lia. Qed.

Lemma zfill_val b w s : bval b (zfill w s) = bval b s.
Proof. unfold zfill, rjust. rewrite bval_app, repeat_zero_val. lia. Qed.

Lemma zfill_length w s : zlen (zfill w s) = Z.max w (zlen s).
Proof. unfold zfill, rjust, zlen. rewrite app_length, repeat_length. lia. Qed.

(* ---------- rounding ---------- *)
(* half-up: the result is the multiple of 10^lp nearest to the value, ties upwards *)
Lemma rhu_at_spec mant ex lp : 0 <= mant -> ex < lp ->
  let k := lp - ex in let M := rhu_at mant ex lp in
  0 <= M /\ 2 * mant - 10 ^ k < 2 * (M * 10 ^ k) <= 2 * mant + 10 ^ k.
Proof.
  intros Hm Hlt k M. unfold M, rhu_at. destruct (Z.leb_spec lp ex); [lia|].
  fold k. assert (Hk : 1 <= k) by (unfold k; lia).
  assert (Hp : 10 ^ k = 10 * 10 ^ (k - 1)).
  { replace k with ((k - 1) + 1) at 1 by lia. apply pow_succ_b. lia. }
  assert (0 < 10 ^ (k - 1)) by (apply pow_pos_b; lia).
  set (h := 10 ^ (k - 1)) in *. rewrite Hp.
  pose proof (Z.div_mod (mant + 5 * h) (10 * h) ltac:(lia)).
  pose proof (Z.mod_pos_bound (mant + 5 * h) (10 * h) ltac:(lia)).
  assert (0 <= (mant + 5 * h) / (10 * h)) by (apply Z.div_pos; lia).
  split; [assumption|]. lia.
Qed.

Lemma rhu_at_exact_val mant ex lp : lp <= ex -> rhu_at mant ex lp = mant * 10 ^ (ex - lp).
Proof. intros. unfold rhu_at. destruct (Z.leb_spec lp ex); [reflexivity|lia]. Qed.

Lemma rhu_at_nonneg mant ex lp : 0 <= mant -> 0 <= rhu_at mant ex lp.
Proof.
  intros. destruct (Z_le_gt_dec lp ex).
  - rewrite rhu_at_exact_val by lia. apply Z.mul_nonneg_nonneg; [lia|]. apply Z.pow_nonneg. lia.
  - apply rhu_at_spec; lia.
Qed.

(* rounding to s significant digits leaves a number with at most s digits unchanged *)
Lemma round_sig_small s mant ex : ndig mant <= s -> round_sig s mant ex = (mant, ex).
Proof. intros. unfold round_sig. destruct (Z.leb_spec (ndig mant) s); [reflexivity|lia]. Qed.

Lemma round_sig_big s mant ex : s < ndig mant ->
  round_sig s mant ex = (rhu_at mant ex (ex + ndig mant - s), ex + ndig mant - s).
Proof. intros. unfold round_sig. destruct (Z.leb_spec (ndig mant) s); [lia|reflexivity]. Qed.

Lemma round_sig_nonneg s mant ex : 0 <= mant -> 0 <= fst (round_sig s mant ex).
Proof.
  intros. unfold round_sig. destruct (ndig mant <=? s); cbn [fst]; [assumption|]. apply rhu_at_nonneg. assumption.
Qed.

(* the result has at most s significant digits (mantissa at most 10^s) *)
Lemma round_sig_bound s mant ex : 0 < s -> 0 <= mant -> fst (round_sig s mant ex) <= 10 ^ s.
Proof.
  intros Hs Hm. unfold round_sig. destruct (Z.leb_spec (ndig mant) s); cbn [fst].
  - destruct (Z.eq_dec mant 0) as [->|]; [apply Z.lt_le_incl, pow_pos_b; lia|].
    pose proof (ndig_spec mant ltac:(lia)) as [_ [_ Hhi]].
    assert (10 ^ ndig mant <= 10 ^ s) by (apply Z.pow_le_mono_r; lia). lia.
  - assert (Hpos : 0 < mant).
    { destruct (Z.eq_dec mant 0) as [E|]; [|lia]. exfalso. rewrite E in *. unfold ndig in *.
      rewrite nbdig_nonpos in * by lia. lia. }
    pose proof (ndig_spec mant Hpos) as [_ [_ Hhi]].
    set (k := ndig mant) in *.
    pose proof (rhu_at_spec mant ex (ex + k - s) Hm ltac:(lia)) as [_ [_ Hup]]. cbv zeta in Hup.
    replace (ex + k - s - ex) with (k - s) in Hup by lia.
    rewrite (pow_split 10 k (k - s)) in Hhi by lia. replace (k - (k - s)) with s in Hhi by lia.
    assert (0 < 10 ^ (k - s)) by (apply pow_pos_b; lia).
    assert (0 < 10 ^ s) by (apply pow_pos_b; lia).
    set (M := rhu_at mant ex (ex + k - s)) in *. nia.
Qed.

(* round-half-even of n/d *)
Lemma rne_div_spec n d : 0 <= n -> 0 < d ->
  let q := rne_div n d in 0 <= q /\ 2 * n - d <= 2 * (q * d) <= 2 * n + d.
Proof.
  intros Hn Hd q. unfold q, rne_div.
  pose proof (Z.div_mod n d ltac:(lia)). pose proof (Z.mod_pos_bound n d Hd).
  assert (0 <= n / d) by (apply Z.div_pos; lia).
  destruct (Z.ltb_spec d (2 * (n mod d))); cbn [orb].
  - split; lia.
  - destruct (Z.eqb_spec (2 * (n mod d)) d); cbn [andb]; [destruct (Z.odd (n / d))|]; split; lia.
Qed.

Lemma rne_div_exact n d : 0 < d -> n mod d = 0 -> rne_div n d = n / d.
Proof.
  intros Hd Hz. unfold rne_div. rewrite Hz.
  destruct (Z.ltb_spec d (2 * 0)); [lia|]. destruct (Z.eqb_spec (2 * 0) d); [lia|]. reflexivity.
Qed.

(* ---------- lists: filters and grouping ---------- *)
Lemma filter_rev {A} (f : A -> bool) l : filter f (rev l) = rev (filter f l).
Proof.
  induction l as [|x l IH]; [reflexivity|]. cbn [rev filter]. rewrite filter_app, IH. cbn [filter].
  destruct (f x); cbn [rev]; [reflexivity|]. rewrite app_nil_r. reflexivity.
Qed.

Lemma filter_grp f : f c_comma = false -> forall l i, filter f (grp l i) = filter f l.
Proof.
  intros Hc. induction l as [|x l IH]; intros i; [reflexivity|]. cbn [grp]. rewrite filter_app.
  cbn [filter]. rewrite IH.
  destruct ((0 <? i)%nat && (i mod 3 =? 0)%nat); cbn [filter]; [rewrite Hc|]; reflexivity.
Qed.

Lemma filter_group3 f s : f c_comma = false -> filter f (group3 s) = filter f s.
Proof.
  intros Hc. unfold group3. rewrite filter_rev, filter_grp by assumption. rewrite <- filter_rev, rev_involutive. reflexivity.
Qed.

Lemma filter_all {A} (f : A -> bool) l : Forall (fun c => f c = true) l -> filter f l = l.
Proof. induction 1 as [|x l Hx _ IH]; [reflexivity|]. cbn. rewrite Hx, IH. reflexivity. Qed.

Lemma filter_none {A} (f : A -> bool) l : Forall (fun c => f c = false) l -> filter f l = [].
Proof. induction 1 as [|x l Hx _ IH]; [reflexivity|]. cbn. rewrite Hx, IH. reflexivity. Qed.

Lemma existsb_filter_false {A} (p f : A -> bool) l :
  (forall c, p c = true -> f c = true) -> existsb p l = existsb p (filter f l).
Proof.
  intros H. induction l as [|x l IH]; [reflexivity|]. cbn. destruct (f x) eqn:E; cbn; rewrite IH.
  - reflexivity.
  - destruct (p x) eqn:Ep; [rewrite (H x Ep) in E; discriminate|reflexivity].
Qed.

Lemma existsb_group3 p s : p c_comma = false -> existsb p (group3 s) = existsb p s.
Proof.
  intros Hc.
  rewrite (existsb_filter_false p (fun c => negb (c =? c_comma)%N) (group3 s)).
  - rewrite filter_group3 by (rewrite N.eqb_refl; reflexivity).
    symmetry. apply existsb_filter_false.
    intros c Hp. destruct (N.eqb_spec c c_comma) as [->|]; [congruence|reflexivity].
  - intros c Hp. destruct (N.eqb_spec c c_comma) as [->|]; [congruence|reflexivity].
Qed.

Lemma existsb_none {A} (p : A -> bool) l : Forall (fun c => p c = false) l -> existsb p l = false.
Proof. induction 1 as [|x l Hx _ IH]; [reflexivity|]. cbn. rewrite Hx, IH. reflexivity. Qed.

(* ---------- splitting ---------- *)
Lemma split_on_none sep s : Forall (fun c => (c =? sep)%N = false) s -> forall cur, split_on sep s cur = [rev cur ++ s].
Proof.
  induction 1 as [|x l Hx _ IH]; intros cur; cbn [split_on].
  - rewrite app_nil_r. reflexivity.
  - rewrite Hx, IH. cbn [rev]. rewrite <- app_assoc. reflexivity.
Qed.

Lemma split_on_one sep a b : Forall (fun c => (c =? sep)%N = false) a -> forall cur,
  split_on sep (a ++ sep :: b) cur = (rev cur ++ a) :: split_on sep b [].
Proof.
  induction 1 as [|x l Hx _ IH]; intros cur; cbn [split_on app].
  - rewrite N.eqb_refl, app_nil_r. reflexivity.
  - rewrite Hx, IH. cbn [rev]. rewrite <- app_assoc. reflexivity.
Qed.

Lemma digits_not c sep : is_digit sep = false -> is_digit c = true -> (c =? sep)%N = false.
Proof. intros Hs Hc. destruct (N.eqb_spec c sep) as [->|]; [congruence|reflexivity]. Qed.

Lemma Forall_digits_not sep s : is_digit sep = false -> Forall (fun c => is_digit c = true) s ->
  Forall (fun c => (c =? sep)%N = false) s.
Proof. intros Hs H. eapply Forall_impl; [|exact H]. intros c Hc. apply digits_not; assumption. Qed.

Lemma str_eqb_true : forall a b, str_eqb a b = true -> a = b.
Proof.
  induction a as [|x a IH]; destruct b as [|y b]; cbn [str_eqb]; intros H; try discriminate; [reflexivity|].
  apply andb_prop in H. destruct H as [H1 H2]. apply N.eqb_eq in H1. subst y. f_equal. apply IH. assumption.
Qed.

Lemma repeat_snoc {A} (x : A) k : repeat x k ++ [x] = x :: repeat x k.
Proof. induction k as [|k IH]; [reflexivity|]. cbn [repeat app]. rewrite IH. reflexivity. Qed.

(* digits of a multiple of 10^w: all zeros *)
Lemma digs_zero : forall w n, 0 <= n -> n mod 10 ^ Z.of_nat w = 0 -> digs w n = repeat 48%N w.
Proof.
  unfold digs. induction w as [|w IH]; intros n Hn Hz; [reflexivity|]. cbn [bdigs].
  rewrite Nat2Z.inj_succ, Z.pow_succ_r in Hz by lia.
  assert (0 < 10 ^ Z.of_nat w) by (apply pow_pos_b; lia).
  rewrite (Z.rem_mul_r n 10 (10 ^ Z.of_nat w)) in Hz by lia.
  pose proof (Z.mod_pos_bound n 10 ltac:(lia)).
  pose proof (Z.mod_pos_bound (n / 10) (10 ^ Z.of_nat w) ltac:(lia)).
  assert (n mod 10 = 0) as E0 by nia. assert ((n / 10) mod 10 ^ Z.of_nat w = 0) as E1 by nia.
  rewrite IH by (try apply Z.div_pos; lia). rewrite E0. change (bchar 0) with 48%N.
  rewrite repeat_snoc. reflexivity.
Qed.

Lemma digs_pow10 : forall k, digs (S k) (10 ^ Z.of_nat k) = 49%N :: repeat 48%N k.
Proof.
  unfold digs. induction k as [|k IH]; [reflexivity|].
  cbn [bdigs] in *. rewrite Nat2Z.inj_succ, Z.pow_succ_r by lia.
  replace (10 * 10 ^ Z.of_nat k / 10) with (10 ^ Z.of_nat k) by (rewrite Z.mul_comm, Z.div_mul; lia).
  replace ((10 * 10 ^ Z.of_nat k) mod 10) with 0 by (rewrite Z.mul_comm, Z.mod_mul; lia).
  rewrite IH. change (bchar 0) with 48%N. cbn [app]. rewrite repeat_snoc. reflexivity.
Qed.

Lemma zstr_pow10 k : 0 <= k -> zstr (10 ^ k) = 49%N :: zeros k.
Proof.
  intros Hk. unfold zstr, zeros. assert (0 < 10 ^ k) by (apply pow_pos_b; lia).
  destruct (Z.leb_spec (10 ^ k) 0); [lia|].
  assert (E : ndig (10 ^ k) = k + 1).
  { apply nbdig_unique; try lia. replace (k + 1 - 1) with k by lia. split; [lia|]. apply Z.pow_lt_mono_r; lia. }
  rewrite E. replace (Z.to_nat (k + 1)) with (S (Z.to_nat k)) by lia.
  rewrite <- (Z2Nat.id k) at 2 by lia. apply digs_pow10.
Qed.
