(* PackageMergeP: the packedData fields of the saved merge map (recalculate_merged_cells: col << 16 | row,
   width << 16 | height) fit the 32-bit protobuf field and unpack to the rectangle, while all four fit 16 bits.
   Builds on Proofs/MergeP.v (C12). *)
From Coq Require Import ZArith List Lia.
From NP Require Import Model.PyBase Model.Grid Proofs.MergeP.
Open Scope Z_scope.

Lemma pack16_value hi lo : 0 <= lo < 65536 -> 0 <= hi -> pack16 hi lo = hi * 65536 + lo.
Proof.
  intros Hlo Hhi. destruct (pack16_unpack hi lo Hlo Hhi) as [E1 E2].
  rewrite Z.shiftr_div_pow2 in E1 by lia. change 65535 with (Z.ones 16) in E2. rewrite Z.land_ones in E2 by lia.
  change (2 ^ 16) with 65536 in *.
  pose proof (Z.div_mod (pack16 hi lo) 65536 ltac:(lia)) as H. rewrite E1, E2 in H. lia.
Qed.

Theorem merge_map_wf_lemma r c h w :
  0 <= r < 65536 -> 0 <= c < 65536 -> 0 <= h < 65536 -> 0 <= w < 65536 ->
  0 <= pack16 c r < 2 ^ 32 /\ 0 <= pack16 w h < 2 ^ 32 /\
  Z.shiftr (pack16 c r) 16 = c /\ Z.land (pack16 c r) 65535 = r /\
  Z.shiftr (pack16 w h) 16 = w /\ Z.land (pack16 w h) 65535 = h.
Proof.
  intros Hr Hc Hh Hw.
  destruct (pack16_unpack c r Hr ltac:(lia)) as [E1 E2]. destruct (pack16_unpack w h Hh ltac:(lia)) as [E3 E4].
  rewrite (pack16_value c r) at 1 2 by lia. rewrite (pack16_value w h) at 1 2 by lia.
  change (2 ^ 32) with 4294967296. repeat split; auto; lia.
Qed.

(* distinct anchors have distinct packed origins: the map's keys do not collide *)
Theorem merge_origin_injective r c r' c' :
  0 <= r < 65536 -> 0 <= c -> 0 <= r' < 65536 -> 0 <= c' -> pack16 c r = pack16 c' r' -> r = r' /\ c = c'.
Proof.
  intros Hr Hc Hr' Hc' E. rewrite !pack16_value in E by lia. lia.
Qed.
