(* Proofs about Model/DateFormat.v: calendar lemmas, decimal digit lemmas, each directive against its documented
   meaning, the format scanner as a concatenation of parts, the validator. *)
From Coq Require Import ZArith NArith List Bool String Lia.
From NP Require Import Model.PyBase Model.A1 Model.DateFormat Proofs.A1P.
Import ListNotations.
Open Scope Z_scope.
Ltac Zify.zify_post_hook ::= Z.to_euclidean_division_equations.

(* ------------------------------------------------------------------ *)
(* finite sweeps: forallb over an interval, lifted to a quantifier      *)
(* ------------------------------------------------------------------ *)
Fixpoint zrange (lo : Z) (n : nat) : list Z :=
  match n with O => [] | S n' => lo :: zrange (lo + 1) n' end.

Lemma zrange_in : forall n lo z, lo <= z < lo + Z.of_nat n -> In z (zrange lo n).
Proof.
  induction n as [|n IH]; intros lo z Hz; [lia|].
  cbn [zrange]. destruct (Z.eq_dec z lo) as [->|Hne]; [now left|right].
  apply IH. lia.
Qed.

Lemma forall_range (P : Z -> bool) lo n :
  forallb P (zrange lo n) = true -> forall z, lo <= z < lo + Z.of_nat n -> P z = true.
Proof. intros H z Hz. rewrite forallb_forall in H. apply H, zrange_in, Hz. Qed.

Lemma forall_range2 (P : Z -> Z -> bool) lo1 n1 lo2 n2 :
  forallb (fun a => forallb (P a) (zrange lo2 n2)) (zrange lo1 n1) = true ->
  forall a b, lo1 <= a < lo1 + Z.of_nat n1 -> lo2 <= b < lo2 + Z.of_nat n2 -> P a b = true.
Proof.
  intros H a b Ha Hb. pose proof (forall_range _ _ _ H a Ha) as H1. cbv beta in H1.
  exact (forall_range _ _ _ H1 b Hb).
Qed.

(* ------------------------------------------------------------------ *)
(* calendar                                                            *)
(* ------------------------------------------------------------------ *)
Definition year_len (y : Z) : Z := if is_leap y then 366 else 365.

Lemma is_leap_spec y : is_leap y = true <-> (y mod 4 = 0 /\ (y mod 100 <> 0 \/ y mod 400 = 0)).
Proof.
  unfold is_leap. rewrite andb_true_iff, orb_true_iff, negb_true_iff, !Z.eqb_eq, Z.eqb_neq. tauto.
Qed.

Lemma days_before_year_succ y : days_before_year (y + 1) = days_before_year y + year_len y.
Proof.
  unfold days_before_year, year_len.
  replace (y + 1 - 1) with y by lia.
  destruct (is_leap y) eqn:E.
  - apply is_leap_spec in E. lia.
  - assert (~ (y mod 4 = 0 /\ (y mod 100 <> 0 \/ y mod 400 = 0))) as N.
    { intro H. apply is_leap_spec in H. congruence. }
    lia.
Qed.

Lemma year_len_bounds y : 365 <= year_len y <= 366.
Proof. unfold year_len. destruct (is_leap y); lia. Qed.

Lemma days_before_year_mono_aux : forall n y, days_before_year y + 365 * Z.of_nat n <= days_before_year (y + Z.of_nat n).
Proof.
  induction n as [|n IH]; intros y.
  - replace (y + Z.of_nat 0) with y by lia. lia.
  - replace (y + Z.of_nat (S n)) with ((y + 1) + Z.of_nat n) by lia.
    specialize (IH (y + 1)). rewrite days_before_year_succ in IH.
    pose proof (year_len_bounds y). lia.
Qed.

(* a later year starts at least a whole year later *)
Lemma days_before_year_lt y1 y2 : y1 < y2 -> days_before_year y1 + year_len y1 <= days_before_year y2.
Proof.
  intros H. pose proof (days_before_year_mono_aux (Z.to_nat (y2 - (y1 + 1))) (y1 + 1)) as M.
  rewrite Z2Nat.id in M by lia. replace (y1 + 1 + (y2 - (y1 + 1))) with y2 in M by lia.
  rewrite days_before_year_succ in M. lia.
Qed.

Lemma month_cases m : 1 <= m <= 12 ->
  m = 1 \/ m = 2 \/ m = 3 \/ m = 4 \/ m = 5 \/ m = 6 \/ m = 7 \/ m = 8 \/ m = 9 \/ m = 10 \/ m = 11 \/ m = 12.
Proof. lia. Qed.

Ltac cal_simpl0 :=
  cbn [days_before_month_tbl days_in_month Z.ltb Z.compare Pos.compare Pos.compare_cont andb] in *.
Ltac lit_add :=
  repeat match goal with
  | |- context [Zpos ?p + 1] => let v := eval vm_compute in (Zpos p + 1) in change (Zpos p + 1) with v
  end.
Ltac cal_simpl := lit_add; cal_simpl0.

Ltac month_split H :=
  let C := fresh "C" in
  pose proof (month_cases _ H) as C;
  repeat (destruct C as [C|C]); subst.

(* the day-of-year table is the running sum of the month lengths *)
Lemma days_before_month_sum y m : 1 <= m <= 12 ->
  days_before_month y m = sum_months y 1 (Z.to_nat (m - 1)).
Proof.
  intros H. month_split H; unfold days_before_month;
    match goal with |- context [Z.to_nat ?e] => let v := eval vm_compute in (Z.to_nat e) in change (Z.to_nat e) with v end;
    cbn; destruct (is_leap y); reflexivity.
Qed.

Lemma days_before_month_next y m : 1 <= m < 12 ->
  days_before_month y (m + 1) = days_before_month y m + days_in_month y m.
Proof.
  intros H. assert (1 <= m <= 12) as H' by lia.
  month_split H'; try lia; unfold days_before_month; cal_simpl; destruct (is_leap y); cal_simpl; reflexivity.
Qed.

Lemma days_in_month_bounds y m : 1 <= m <= 12 -> 28 <= days_in_month y m <= 31.
Proof. intros H. month_split H; cal_simpl; destruct (is_leap y); cal_simpl; lia. Qed.

Lemma days_before_december y : days_before_month y 12 + days_in_month y 12 = year_len y.
Proof. unfold days_before_month, year_len; cal_simpl; destruct (is_leap y); cal_simpl; reflexivity. Qed.

(* day of the year of a valid date lies in 1..year_len *)
Lemma day_of_year_bounds y m d : 1 <= m <= 12 -> 1 <= d <= days_in_month y m ->
  1 <= day_of_year y m d <= year_len y.
Proof.
  intros Hm Hd. unfold day_of_year, year_len.
  month_split Hm; unfold days_before_month in *; cal_simpl; destruct (is_leap y); cal_simpl; lia.
Qed.

(* months in order *)
Lemma days_before_month_lt y m1 m2 : 1 <= m1 -> m1 < m2 -> m2 <= 12 ->
  days_before_month y m1 + days_in_month y m1 <= days_before_month y m2.
Proof.
  intros H1 H2 H3.
  assert (1 <= m1 <= 12) as Ha by lia. assert (1 <= m2 <= 12) as Hb by lia.
  month_split Ha; month_split Hb; try lia; unfold days_before_month; cal_simpl; destruct (is_leap y); cal_simpl; lia.
Qed.

(* lexicographic order on dates *)
Definition date_lt (a b : Z * Z * Z) : Prop :=
  let '(y1, m1, d1) := a in let '(y2, m2, d2) := b in
  y1 < y2 \/ (y1 = y2 /\ (m1 < m2 \/ (m1 = m2 /\ d1 < d2))).

Lemma days_from_civil_strict_mono y1 m1 d1 y2 m2 d2 :
  1 <= m1 <= 12 -> 1 <= d1 <= days_in_month y1 m1 ->
  1 <= m2 <= 12 -> 1 <= d2 <= days_in_month y2 m2 ->
  date_lt (y1, m1, d1) (y2, m2, d2) ->
  days_from_civil y1 m1 d1 < days_from_civil y2 m2 d2.
Proof.
  intros Hm1 Hd1 Hm2 Hd2 [Hy | [-> [Hm | [-> Hd]]]]; unfold days_from_civil.
  - pose proof (days_before_year_lt y1 y2 Hy).
    pose proof (day_of_year_bounds y1 m1 d1 Hm1 Hd1). pose proof (day_of_year_bounds y2 m2 d2 Hm2 Hd2).
    unfold day_of_year in *. lia.
  - pose proof (days_before_month_lt y2 m1 m2 ltac:(lia) Hm ltac:(lia)). lia.
  - lia.
Qed.

Lemma days_from_civil_injective y1 m1 d1 y2 m2 d2 :
  1 <= m1 <= 12 -> 1 <= d1 <= days_in_month y1 m1 ->
  1 <= m2 <= 12 -> 1 <= d2 <= days_in_month y2 m2 ->
  days_from_civil y1 m1 d1 = days_from_civil y2 m2 d2 -> (y1, m1, d1) = (y2, m2, d2).
Proof.
  intros Hm1 Hd1 Hm2 Hd2 E.
  destruct (Z.lt_trichotomy y1 y2) as [H|[H|H]].
  - pose proof (days_from_civil_strict_mono y1 m1 d1 y2 m2 d2 Hm1 Hd1 Hm2 Hd2 (or_introl H)). lia.
  - subst y2. destruct (Z.lt_trichotomy m1 m2) as [H|[H|H]].
    + pose proof (days_from_civil_strict_mono y1 m1 d1 y1 m2 d2 Hm1 Hd1 Hm2 Hd2 (or_intror (conj eq_refl (or_introl H)))). lia.
    + subst m2. unfold days_from_civil in E. assert (d1 = d2) by lia. now subst.
    + pose proof (days_from_civil_strict_mono y1 m2 d2 y1 m1 d1 Hm2 Hd2 Hm1 Hd1 (or_intror (conj eq_refl (or_introl H)))). lia.
  - pose proof (days_from_civil_strict_mono y2 m2 d2 y1 m1 d1 Hm2 Hd2 Hm1 Hd1 (or_introl H)). lia.
Qed.

(* the civil successor of a date *)
Definition next_day (y m d : Z) : Z * Z * Z :=
  if d <? days_in_month y m then (y, m, d + 1)
  else if m <? 12 then (y, m + 1, 1) else (y + 1, 1, 1).

Lemma days_from_civil_next_day y m d : 1 <= m <= 12 -> 1 <= d <= days_in_month y m ->
  let '(y', m', d') := next_day y m d in days_from_civil y' m' d' = days_from_civil y m d + 1.
Proof.
  intros Hm Hd. unfold next_day.
  destruct (Z.ltb_spec d (days_in_month y m)).
  - unfold days_from_civil. lia.
  - destruct (Z.ltb_spec m 12).
    + unfold days_from_civil. rewrite days_before_month_next by lia. lia.
    + assert (m = 12) by lia. subst m. unfold days_from_civil.
      rewrite days_before_year_succ. pose proof (days_before_december y).
      unfold days_before_month in *. cal_simpl; destruct (is_leap y); cal_simpl; lia.
Qed.

Lemma weekday_range y m d : 0 <= weekday y m d < 7.
Proof. unfold weekday. apply Z.mod_pos_bound. lia. Qed.

Lemma weekday_next_day y m d : 1 <= m <= 12 -> 1 <= d <= days_in_month y m ->
  let '(y', m', d') := next_day y m d in weekday y' m' d' = (weekday y m d + 1) mod 7.
Proof.
  intros Hm Hd. pose proof (days_from_civil_next_day y m d Hm Hd) as N.
  destruct (next_day y m d) as [[y' m'] d']. unfold weekday. rewrite N. lia.
Qed.

(* within a month the weekday advances with the day *)
Lemma weekday_in_month y m k : weekday y m k = (weekday y m 1 + (k - 1)) mod 7.
Proof. unfold weekday, days_from_civil. lia. Qed.

(* ------------------------------------------------------------------ *)
(* decimal digits: str(n), zfill and prefixes                           *)
(* ------------------------------------------------------------------ *)
Section Digits.
Open Scope N_scope.

Lemma dec_rev_zero f : dec_rev f 0 = [].
Proof. destruct f; reflexivity. Qed.

Lemma dec_rev_fuel : forall f1 f2 n, n < 2 ^ N.of_nat f1 -> n < 2 ^ N.of_nat f2 -> dec_rev f1 n = dec_rev f2 n.
Proof.
  induction f1 as [|f1 IH]; intros f2 n H1 H2.
  - cbn in H1. assert (n = 0) by (clear - H1; lia). subst. now rewrite !dec_rev_zero.
  - destruct f2 as [|f2].
    + cbn in H2. assert (n = 0) by (clear - H2; lia). subst. reflexivity.
    + rewrite !dec_rev_S. destruct (N.eqb_spec n 0); [reflexivity|]. f_equal.
      rewrite pow2_S in H1, H2.
      assert (n / 10 <= n / 2) by (apply N.div_le_compat_l; lia).
      apply IH.
      * assert (n / 2 < 2 ^ N.of_nat f1) by (apply N.div_lt_upper_bound; lia). lia.
      * assert (n / 2 < 2 ^ N.of_nat f2) by (apply N.div_lt_upper_bound; lia). lia.
Qed.

Lemma py_str_N_small n : n < 10 -> py_str_N n = [48 + n].
Proof.
  intros H. unfold py_str_N. destruct (N.eqb_spec n 0) as [->|Hz]; [reflexivity|].
  destruct n as [|p]; [contradiction|]. cbn [bits_fuel].
  destruct (Pos.size_nat p) eqn:E; [destruct p; discriminate|].
  rewrite dec_rev_S. destruct (N.eqb_spec (N.pos p) 0); [discriminate|].
  rewrite (N.div_small (N.pos p) 10 H), dec_rev_zero, (N.mod_small _ _ H). reflexivity.
Qed.

Lemma py_str_N_step n : 10 <= n -> py_str_N n = py_str_N (n / 10) ++ [48 + n mod 10].
Proof.
  intros H. unfold py_str_N.
  destruct (N.eqb_spec n 0); [lia|].
  assert (n / 10 <> 0) as Hq.
  { intro E. apply N.div_small_iff in E; lia. }
  destruct (N.eqb_spec (n / 10) 0); [contradiction|].
  pose proof (bits_fuel_bound n) as B.
  destruct (bits_fuel n) as [|f] eqn:E.
  - cbn in B. lia.
  - rewrite dec_rev_S. destruct (N.eqb_spec n 0); [contradiction|].
    cbn [rev]. f_equal. f_equal. apply dec_rev_fuel.
    + rewrite pow2_S in B. assert (n / 10 <= n / 2) by (apply N.div_le_compat_l; lia).
      assert (n / 2 < 2 ^ N.of_nat f) by (apply N.div_lt_upper_bound; lia). lia.
    + apply bits_fuel_bound.
Qed.

(* exactly k decimal digits of v, most significant first *)
Fixpoint digits (k : nat) (v : N) : str :=
  match k with O => [] | S k' => digits k' (v / 10) ++ [48 + v mod 10] end.

Lemma digits_length k : forall v, List.length (digits k v) = k.
Proof. induction k as [|k IH]; intros v; [reflexivity|]. cbn [digits]. rewrite app_length, IH. cbn. lia. Qed.

Lemma repeat_snoc {A} (a : A) n : repeat a n ++ [a] = a :: repeat a n.
Proof. induction n as [|n IH]; [reflexivity|]. cbn. now rewrite IH. Qed.

Lemma digits_zero k : digits k 0 = repeat 48 k.
Proof.
  induction k as [|k IH]; [reflexivity|]. cbn [digits].
  change (0 / 10) with 0. change (48 + 0 mod 10) with 48. rewrite IH, repeat_snoc. reflexivity.
Qed.

Lemma zfill_snoc k s c : zfill (S k) (s ++ [c]) = zfill k s ++ [c].
Proof.
  unfold zfill. rewrite app_length. cbn [List.length].
  replace (S k - (List.length s + 1))%nat with (k - List.length s)%nat by lia.
  now rewrite app_assoc.
Qed.

Lemma zfill_digits : forall k v, v < 10 ^ N.of_nat (S k) -> zfill (S k) (py_str_N v) = digits (S k) v.
Proof.
  induction k as [|k IH]; intros v Hv.
  - change (10 ^ N.of_nat 1) with 10 in Hv. rewrite py_str_N_small by assumption.
    cbn [digits]. rewrite (N.mod_small _ _ Hv). reflexivity.
  - destruct (N.lt_ge_cases v 10) as [Hs|Hl].
    + rewrite py_str_N_small by assumption.
      change (digits (S (S k)) v) with (digits (S k) (v / 10) ++ [48 + v mod 10]).
      rewrite (N.div_small _ _ Hs), (N.mod_small _ _ Hs), digits_zero.
      unfold zfill. cbn [List.length].
      replace (S (S k) - 1)%nat with (S k) by lia. reflexivity.
    + rewrite py_str_N_step by assumption. rewrite zfill_snoc.
      change (digits (S (S k)) v) with (digits (S k) (v / 10) ++ [48 + v mod 10]). f_equal.
      apply IH. rewrite Nat2N.inj_succ, N.pow_succ_r' in Hv. apply N.div_lt_upper_bound; lia.
Qed.

Lemma firstn_digits k : forall j v, firstn k (digits (k + j) v) = digits k (v / 10 ^ N.of_nat j).
Proof.
  induction j as [|j IH]; intros v.
  - rewrite Nat.add_0_r. change (10 ^ N.of_nat 0) with 1. rewrite N.div_1_r.
    rewrite firstn_all2; [reflexivity|rewrite digits_length; lia].
  - rewrite Nat.add_succ_r. cbn [digits]. rewrite firstn_app, digits_length.
    replace (k - (k + j))%nat with O by lia. cbn [firstn]. rewrite app_nil_r, IH.
    rewrite Nat2N.inj_succ, N.pow_succ_r', N.div_div by lia. reflexivity.
Qed.

(* the digit-prefix lemma: the first n of the six microsecond digits are the n-digit, zero padded quotient *)
Lemma micro_prefix_digits (n j : nat) us : (n + j = 6)%nat -> (1 <= n)%nat -> us < 1000000 ->
  firstn n (zfill 6 (py_str_N us)) = zfill n (py_str_N (us / 10 ^ N.of_nat j)).
Proof.
  intros Hnj Hn Hus.
  rewrite (zfill_digits 5 us) by exact Hus.
  replace 6%nat with (n + j)%nat by exact Hnj. rewrite firstn_digits.
  destruct n as [|n]; [lia|]. rewrite zfill_digits; [reflexivity|].
  apply N.div_lt_upper_bound; [apply N.pow_nonzero; lia|].
  rewrite <- N.pow_add_r, <- Nat2N.inj_add. replace (j + S n)%nat with 6%nat by lia. exact Hus.
Qed.
End Digits.

(* ------------------------------------------------------------------ *)
(* directives against the documented table                             *)
(* ------------------------------------------------------------------ *)
Definition agree (d : directive) (t : dt) : bool := str_eqb (render_directive d t) (spec_directive d t).

Lemma agree_eq d t : agree d t = true -> render_directive d t = spec_directive d t.
Proof. unfold agree. apply str_eqb_eq. Qed.

Lemma istr_nonempty z : istr z <> [].
Proof. apply py_str_N_nonempty. Qed.

Lemma zfill_small w s : (w <= List.length s)%nat -> zfill w s = s.
Proof. intros H. unfold zfill. replace (w - List.length s)%nat with O by lia. reflexivity. Qed.

Lemma zfill1_istr z : zfill 1 (istr z) = istr z.
Proof.
  apply zfill_small. pose proof (istr_nonempty z). destruct (istr z); [contradiction|cbn; lia].
Qed.

Lemma istr_len2 z : 10 <= z -> (2 <= List.length (istr z))%nat.
Proof.
  intros H. unfold istr. rewrite py_str_N_step by lia. rewrite app_length. cbn [List.length].
  pose proof (py_str_N_nonempty (Z.to_N z / 10)). destruct (py_str_N (Z.to_N z / 10)); [contradiction|cbn; lia].
Qed.

(* --- fields with a finite domain: the directive only reads that field (by computation),
       and the field's whole domain is swept --- *)
Definition hour_dirs := [D_a; D_HH; D_H; D_hh; D_h; D_k; D_kk; D_K; D_KK].
Definition minute_dirs := [D_mm; D_m].
Definition second_dirs := [D_ss; D_s].
Definition month_dirs := [D_MMMM; D_MMM; D_MM; D_M].
Definition day_dirs := [D_d; D_dd].
Definition at_hour h := mkdt 2001 1 1 h 0 0 0.
Definition at_minute m := mkdt 2001 1 1 0 m 0 0.
Definition at_second s := mkdt 2001 1 1 0 0 s 0.
Definition at_month m := mkdt 2001 m 1 0 0 0 0.
Definition at_day d := mkdt 2001 1 d 0 0 0 0.

Ltac in_cases H := cbn [In hour_dirs minute_dirs second_dirs month_dirs day_dirs] in H;
  repeat (destruct H as [H|H]; [subst|]); try contradiction.

Lemma hour_only d t : In d hour_dirs ->
  render_directive d t = render_directive d (at_hour (hour t)) /\ spec_directive d t = spec_directive d (at_hour (hour t)).
Proof. intros H. in_cases H; split; reflexivity. Qed.
Lemma minute_only d t : In d minute_dirs ->
  render_directive d t = render_directive d (at_minute (minute t)) /\ spec_directive d t = spec_directive d (at_minute (minute t)).
Proof. intros H. in_cases H; split; reflexivity. Qed.
Lemma second_only d t : In d second_dirs ->
  render_directive d t = render_directive d (at_second (second t)) /\ spec_directive d t = spec_directive d (at_second (second t)).
Proof. intros H. in_cases H; split; reflexivity. Qed.
Lemma month_only d t : In d month_dirs ->
  render_directive d t = render_directive d (at_month (month t)) /\ spec_directive d t = spec_directive d (at_month (month t)).
Proof. intros H. in_cases H; split; reflexivity. Qed.
Lemma day_only d t : In d day_dirs ->
  render_directive d t = render_directive d (at_day (day t)) /\ spec_directive d t = spec_directive d (at_day (day t)).
Proof. intros H. in_cases H; split; reflexivity. Qed.

Lemma hour_sweep : forallb (fun h => forallb (fun d => agree d (at_hour h)) hour_dirs) (zrange 0 24) = true.
Proof. vm_compute. reflexivity. Qed.
Lemma minute_sweep : forallb (fun m => forallb (fun d => agree d (at_minute m)) minute_dirs) (zrange 0 60) = true.
Proof. vm_compute. reflexivity. Qed.
Lemma second_sweep : forallb (fun s => forallb (fun d => agree d (at_second s)) second_dirs) (zrange 0 60) = true.
Proof. vm_compute. reflexivity. Qed.
Lemma month_sweep : forallb (fun m => forallb (fun d => agree d (at_month m)) month_dirs) (zrange 1 12) = true.
Proof. vm_compute. reflexivity. Qed.
Lemma day_sweep : forallb (fun x => forallb (fun d => agree d (at_day x)) day_dirs) (zrange 1 31) = true.
Proof. vm_compute. reflexivity. Qed.

Lemma sweep_use (dirs : list directive) (at_ : Z -> dt) lo n :
  forallb (fun v => forallb (fun d => agree d (at_ v)) dirs) (zrange lo n) = true ->
  forall d v, In d dirs -> lo <= v < lo + Z.of_nat n -> render_directive d (at_ v) = spec_directive d (at_ v).
Proof.
  intros H d v Hd Hv. pose proof (forall_range _ _ _ H v Hv) as H1. cbv beta in H1.
  rewrite forallb_forall in H1. apply agree_eq, H1, Hd.
Qed.

Lemma hour_dirs_ok d t : In d hour_dirs -> 0 <= hour t < 24 -> render_directive d t = spec_directive d t.
Proof.
  intros Hd Hh. destruct (hour_only d t Hd) as [-> ->].
  apply (sweep_use hour_dirs at_hour 0 24 hour_sweep); [assumption|cbn; lia].
Qed.
Lemma minute_dirs_ok d t : In d minute_dirs -> 0 <= minute t < 60 -> render_directive d t = spec_directive d t.
Proof.
  intros Hd Hh. destruct (minute_only d t Hd) as [-> ->].
  apply (sweep_use minute_dirs at_minute 0 60 minute_sweep); [assumption|cbn; lia].
Qed.
Lemma second_dirs_ok d t : In d second_dirs -> 0 <= second t < 60 -> render_directive d t = spec_directive d t.
Proof.
  intros Hd Hh. destruct (second_only d t Hd) as [-> ->].
  apply (sweep_use second_dirs at_second 0 60 second_sweep); [assumption|cbn; lia].
Qed.
Lemma month_dirs_ok d t : In d month_dirs -> 1 <= month t <= 12 -> render_directive d t = spec_directive d t.
Proof.
  intros Hd Hh. destruct (month_only d t Hd) as [-> ->].
  apply (sweep_use month_dirs at_month 1 12 month_sweep); [assumption|cbn; lia].
Qed.
Lemma day_dirs_ok d t : In d day_dirs -> 1 <= day t <= 31 -> render_directive d t = spec_directive d t.
Proof.
  intros Hd Hh. destruct (day_only d t Hd) as [-> ->].
  apply (sweep_use day_dirs at_day 1 31 day_sweep); [assumption|cbn; lia].
Qed.

(* --- years: unbounded --- *)
Lemma yyyy_ok t : render_directive D_yyyy t = spec_directive D_yyyy t.
Proof.
  change (render_directive D_yyyy t) with (istr (year t) ++ []).
  change (spec_directive D_yyyy t) with (zfill 1 (istr (year t))).
  now rewrite app_nil_r, zfill1_istr.
Qed.
Lemma yy_ok t : render_directive D_yy t = spec_directive D_yy t.
Proof.
  change (render_directive D_yy t) with (zfill 2 (istr (year t mod 100)) ++ []).
  change (spec_directive D_yy t) with (zfill 2 (istr (year t mod 100))).
  now rewrite app_nil_r.
Qed.
(* `y` is mapped to %Y: the year WITH century *)
Lemma y_renders_year t : render_directive D_y t = istr (year t).
Proof. change (render_directive D_y t) with (istr (year t) ++ []). now rewrite app_nil_r. Qed.
Lemma y_spec t : spec_directive D_y t = istr (year t mod 100).
Proof. change (spec_directive D_y t) with (zfill 1 (istr (year t mod 100))). apply zfill1_istr. Qed.
Lemma y_ok_below_100 t : 0 <= year t < 100 -> render_directive D_y t = spec_directive D_y t.
Proof. intros H. rewrite y_renders_year, y_spec. now rewrite Z.mod_small. Qed.

(* --- weekday and era names --- *)
Lemma EEEE_ok t : render_directive D_EEEE t = spec_directive D_EEEE t.
Proof.
  change (render_directive D_EEEE t) with (nth_str day_names (weekday (year t) (month t) (day t)) ++ []).
  now rewrite app_nil_r.
Qed.
Lemma EEE_ok t : render_directive D_EEE t = spec_directive D_EEE t.
Proof.
  change (render_directive D_EEE t) with (nth_str day_abbrs (weekday (year t) (month t) (day t)) ++ []).
  now rewrite app_nil_r.
Qed.
Lemma G_ok t : render_directive D_G t = spec_directive D_G t.
Proof. reflexivity. Qed.

(* --- day of the year --- *)
Lemma doy_ok t : 1 <= month t <= 12 -> py_day_of_year t = doc_day_of_year t.
Proof. intros H. unfold py_day_of_year, doc_day_of_year, day_of_year. now rewrite days_before_month_sum. Qed.
Lemma DDD_ok t : 1 <= month t <= 12 -> render_directive D_DDD t = spec_directive D_DDD t.
Proof.
  intros H. change (render_directive D_DDD t) with (zfill 3 (istr (py_day_of_year t))).
  change (spec_directive D_DDD t) with (zfill 3 (istr (doc_day_of_year t))). now rewrite doy_ok.
Qed.
Lemma DD_ok t : 1 <= month t <= 12 -> render_directive D_DD t = spec_directive D_DD t.
Proof.
  intros H. change (render_directive D_DD t) with (zfill 2 (istr (py_day_of_year t))).
  change (spec_directive D_DD t) with (zfill 2 (istr (doc_day_of_year t))). now rewrite doy_ok.
Qed.
Lemma D_ok t : 1 <= month t <= 12 -> render_directive D_D t = spec_directive D_D t.
Proof.
  intros H. change (render_directive D_D t) with (zfill 1 (istr (py_day_of_year t))).
  change (spec_directive D_D t) with (zfill 1 (istr (doc_day_of_year t))). now rewrite doy_ok.
Qed.

(* --- counting weekdays --- *)
Lemma count_from_ext p q : (forall k, p k = q k) -> forall n lo, count_from p lo n = count_from q lo n.
Proof. intros E. induction n as [|n IH]; intros lo; [reflexivity|]. cbn [count_from]. now rewrite E, IH. Qed.

Lemma count_from_shift : forall n p lo, count_from p lo n = count_from (fun i => p (lo + i)) 0 n.
Proof.
  induction n as [|n IH]; intros p lo; [reflexivity|]. cbn [count_from].
  rewrite Z.add_0_r. f_equal. rewrite (IH p), (IH (fun i => p (lo + i))).
  apply count_from_ext. intros k. f_equal. lia.
Qed.

Lemma count_from_bounds p : forall n lo, 0 <= count_from p lo n <= Z.of_nat n.
Proof. induction n as [|n IH]; intros lo; cbn [count_from]; [lia|]. specialize (IH (lo + 1)). destruct (p lo); lia. Qed.

(* week of the month: closed form of the code against the count of Mondays, for every weekday of the 1st and every day *)
Definition W_check (w d : Z) : bool :=
  ((d + w + 6) / 7 - 1 =? count_from (fun k => (w + (k - 1)) mod 7 =? 0) 2 (Z.to_nat (d - 1)))
  && (0 <=? (d + w + 6) / 7 - 1) && ((d + w + 6) / 7 - 1 <=? 5).
Lemma W_sweep : forallb (fun w => forallb (W_check w) (zrange 1 31)) (zrange 0 7) = true.
Proof. vm_compute. reflexivity. Qed.

Lemma W_value t : 1 <= day t <= 31 ->
  week_of_month t - 1 = doc_week_of_month t /\ 0 <= doc_week_of_month t <= 5.
Proof.
  intros Hd. unfold week_of_month, doc_week_of_month.
  pose proof (weekday_range (year t) (month t) 1) as Hw.
  pose proof (forall_range2 W_check 0 7 1 31 W_sweep (weekday (year t) (month t) 1) (day t) ltac:(cbn; lia) ltac:(cbn; lia)) as C.
  unfold W_check in C. rewrite !andb_true_iff, Z.eqb_eq, !Z.leb_le in C. destruct C as [[C1 C2] C3].
  rewrite (count_from_ext _ (fun k => (weekday (year t) (month t) 1 + (k - 1)) mod 7 =? 0)).
  - lia.
  - intros k. now rewrite weekday_in_month.
Qed.

Lemma W_ok t : 1 <= day t <= 31 -> render_directive D_W t = spec_directive D_W t.
Proof.
  intros H. change (render_directive D_W t) with (istr (week_of_month t - 1)).
  change (spec_directive D_W t) with (zfill 1 (istr (doc_week_of_month t))).
  destruct (W_value t H) as [-> _]. now rewrite zfill1_istr.
Qed.

(* n-th occurrence of the weekday in the month *)
Definition F_check (w d : Z) : bool :=
  ((d - 1) / 7 + 1 =? count_from (fun k => (w + (k - 1)) mod 7 =? (w + (d - 1)) mod 7) 1 (Z.to_nat d))
  && (1 <=? (d - 1) / 7 + 1) && ((d - 1) / 7 + 1 <=? 5).
Lemma F_sweep : forallb (fun w => forallb (F_check w) (zrange 1 31)) (zrange 0 7) = true.
Proof. vm_compute. reflexivity. Qed.

Lemma F_value t : 1 <= day t <= 31 ->
  days_occurred_in_month t = doc_nth_weekday t /\ 1 <= doc_nth_weekday t <= 5.
Proof.
  intros Hd. unfold days_occurred_in_month, doc_nth_weekday.
  pose proof (weekday_range (year t) (month t) 1) as Hw.
  pose proof (forall_range2 F_check 0 7 1 31 F_sweep (weekday (year t) (month t) 1) (day t) ltac:(cbn; lia) ltac:(cbn; lia)) as C.
  unfold F_check in C. rewrite !andb_true_iff, Z.eqb_eq, !Z.leb_le in C. destruct C as [[C1 C2] C3].
  rewrite (count_from_ext _ (fun k => (weekday (year t) (month t) 1 + (k - 1)) mod 7 =? (weekday (year t) (month t) 1 + (day t - 1)) mod 7)).
  - replace (days_from_civil (year t) (month t) (day t) - days_from_civil (year t) (month t) 1) with (day t - 1)
      by (unfold days_from_civil; lia).
    lia.
  - intros k. now rewrite (weekday_in_month _ _ k), (weekday_in_month _ _ (day t)).
Qed.

Lemma F_ok t : 1 <= day t <= 31 -> render_directive D_F t = spec_directive D_F t.
Proof.
  intros H. change (render_directive D_F t) with (istr (days_occurred_in_month t)).
  change (spec_directive D_F t) with (zfill 1 (istr (doc_nth_weekday t))).
  destruct (F_value t H) as [-> _]. now rewrite zfill1_istr.
Qed.

(* week of the year: glibc's %W formula against the count of Mondays since 1 January,
   for every weekday of 1 January and every day of the year *)
Definition ww_check (w1 yd : Z) : bool :=
  (week_W yd ((w1 + (yd - 1)) mod 7) =? count_from (fun i => (w1 + i) mod 7 =? 0) 0 (Z.to_nat yd))
  && (0 <=? week_W yd ((w1 + (yd - 1)) mod 7)) && (week_W yd ((w1 + (yd - 1)) mod 7) <=? 53).
Lemma ww_sweep : forallb (fun w => forallb (ww_check w) (zrange 1 366)) (zrange 0 7) = true.
Proof. vm_compute. reflexivity. Qed.

Lemma ww_value t : 1 <= month t <= 12 -> 1 <= day t <= days_in_month (year t) (month t) ->
  week_W (day_of_year (year t) (month t) (day t)) (weekday (year t) (month t) (day t)) = doc_week_of_year t
  /\ 0 <= doc_week_of_year t <= 53.
Proof.
  intros Hm Hd. unfold doc_week_of_year.
  set (y := year t). set (yd := day_of_year y (month t) (day t)).
  pose proof (day_of_year_bounds y (month t) (day t) Hm Hd) as Hyd. fold yd in Hyd.
  pose proof (year_len_bounds y) as Hl.
  set (w1 := weekday y 1 1). pose proof (weekday_range y 1 1) as Hw. fold w1 in Hw.
  pose proof (forall_range2 ww_check 0 7 1 366 ww_sweep w1 yd ltac:(cbn; lia) ltac:(cbn; lia)) as C.
  unfold ww_check in C. rewrite !andb_true_iff, Z.eqb_eq, !Z.leb_le in C. destruct C as [[C1 C2] C3].
  assert (weekday y (month t) (day t) = (w1 + (yd - 1)) mod 7) as ->.
  { unfold w1, yd, weekday, day_of_year, days_from_civil.
    change (days_before_month y 1) with (0 + (if (2 <? 1) && is_leap y then 1 else 0)). cbn [Z.ltb Z.compare Pos.compare Pos.compare_cont andb].
    rewrite Z.add_mod_idemp_l by lia. f_equal. clear. lia. }
  replace (days_from_civil y (month t) (day t) - days_from_civil y 1 1 + 1) with yd.
  2:{ unfold yd, day_of_year, days_from_civil.
      change (days_before_month y 1) with (0 + (if (2 <? 1) && is_leap y then 1 else 0)). cbn [Z.ltb Z.compare Pos.compare Pos.compare_cont andb]. lia. }
  rewrite count_from_shift.
  rewrite (count_from_ext _ (fun i => (w1 + i) mod 7 =? 0)).
  - lia.
  - intros i. unfold w1, weekday. f_equal. lia.
Qed.

(* `ww` is the documented number, zero padded to two digits *)
Lemma ww_renders_padded t : 1 <= month t <= 12 -> 1 <= day t <= days_in_month (year t) (month t) ->
  render_directive D_ww t = zfill 2 (spec_directive D_ww t).
Proof.
  intros Hm Hd.
  change (render_directive D_ww t) with
    (zfill 2 (istr (week_W (day_of_year (year t) (month t) (day t)) (weekday (year t) (month t) (day t)))) ++ []).
  change (spec_directive D_ww t) with (zfill 1 (istr (doc_week_of_year t))).
  destruct (ww_value t Hm Hd) as [-> _]. now rewrite app_nil_r, zfill1_istr.
Qed.

Lemma ww_ok_from_week_10 t : 1 <= month t <= 12 -> 1 <= day t <= days_in_month (year t) (month t) ->
  10 <= doc_week_of_year t -> render_directive D_ww t = spec_directive D_ww t.
Proof.
  intros Hm Hd H10. rewrite ww_renders_padded by assumption.
  change (spec_directive D_ww t) with (zfill 1 (istr (doc_week_of_year t))). rewrite zfill1_istr.
  apply zfill_small, istr_len2, H10.
Qed.

(* --- fractions of a second: digit prefixes of the microsecond field --- *)
Lemma micro_dir (n j : nat) t : (n + j = 6)%nat -> (1 <= n)%nat -> 0 <= micro t < 1000000 ->
  micro_prefix n t = zfill n (istr (micro t / 10 ^ Z.of_nat j)).
Proof.
  intros Hnj Hn Hus. unfold micro_prefix, istr.
  rewrite (micro_prefix_digits n j) by (try assumption; lia).
  f_equal. f_equal. rewrite Z2N.inj_div by (try apply Z.pow_nonneg; lia).
  rewrite Z2N.inj_pow by lia. rewrite <- nat_N_Z, N2Z.id. reflexivity.
Qed.

Lemma S_ok t : 0 <= micro t < 1000000 -> render_directive D_S t = spec_directive D_S t.
Proof. intros H. change (render_directive D_S t) with (micro_prefix 1 t). rewrite (micro_dir 1 5) by (try assumption; lia). reflexivity. Qed.
Lemma SS_ok t : 0 <= micro t < 1000000 -> render_directive D_SS t = spec_directive D_SS t.
Proof. intros H. change (render_directive D_SS t) with (micro_prefix 2 t). rewrite (micro_dir 2 4) by (try assumption; lia). reflexivity. Qed.
Lemma SSS_ok t : 0 <= micro t < 1000000 -> render_directive D_SSS t = spec_directive D_SSS t.
Proof. intros H. change (render_directive D_SSS t) with (micro_prefix 3 t). rewrite (micro_dir 3 3) by (try assumption; lia). reflexivity. Qed.
Lemma SSSS_ok t : 0 <= micro t < 1000000 -> render_directive D_SSSS t = spec_directive D_SSSS t.
Proof. intros H. change (render_directive D_SSSS t) with (micro_prefix 4 t). rewrite (micro_dir 4 2) by (try assumption; lia). reflexivity. Qed.
Lemma SSSSS_ok t : 0 <= micro t < 1000000 -> render_directive D_SSSSS t = spec_directive D_SSSSS t.
Proof. intros H. change (render_directive D_SSSSS t) with (micro_prefix 5 t). rewrite (micro_dir 5 1) by (try assumption; lia). reflexivity. Qed.

(* --- every directive --- *)
Lemma valid_day_31 t : valid_dt t -> 1 <= day t <= 31.
Proof.
  intros [[_ [Hm Hd]] _]. pose proof (days_in_month_bounds (year t) (month t) Hm). lia.
Qed.

Lemma directive_meets_doc_lemma d t : valid_dt t -> d <> D_y -> d <> D_ww ->
  render_directive d t = spec_directive d t.
Proof.
  intros V Ny Nww. pose proof (valid_day_31 t V) as D31.
  destruct V as [[Hy [Hm Hd]] [Hh [Hmi [Hs Hus]]]].
  destruct d; try contradiction;
  first [ apply hour_dirs_ok; [cbn; tauto|assumption]
        | apply minute_dirs_ok; [cbn; tauto|assumption]
        | apply second_dirs_ok; [cbn; tauto|assumption]
        | apply month_dirs_ok; [cbn; tauto|assumption]
        | apply day_dirs_ok; [cbn; tauto|assumption]
        | apply yyyy_ok | apply yy_ok | apply EEEE_ok | apply EEE_ok | apply G_ok
        | apply DDD_ok; assumption | apply DD_ok; assumption | apply D_ok; assumption
        | apply W_ok; assumption | apply F_ok; assumption
        | apply S_ok; assumption | apply SS_ok; assumption | apply SSS_ok; assumption
        | apply SSSS_ok; assumption | apply SSSSS_ok; assumption ].
Qed.

Lemma directive_eq_dec (a b : directive) : {a = b} + {a <> b}.
Proof. decide equality. Defined.

(* with the two open findings as explicit exceptions (complement of their signatures) *)
Lemma directive_meets_doc_partial_lemma d t : valid_dt t ->
  ~ (d = D_y /\ 100 <= year t) -> ~ (d = D_ww /\ doc_week_of_year t < 10) ->
  render_directive d t = spec_directive d t.
Proof.
  intros V Hy Hw.
  destruct (directive_eq_dec d D_y) as [->|Ny].
  - apply y_ok_below_100. destruct V as [[Hyr _] _].
    destruct (Z.lt_ge_cases (year t) 100); [lia | exfalso; apply Hy; split; [reflexivity|assumption]].
  - destruct (directive_eq_dec d D_ww) as [->|Nw].
    + destruct V as [[_ [Hm Hd]] _]. apply ww_ok_from_week_10; try assumption.
      destruct (Z.lt_ge_cases (doc_week_of_year t) 10); [exfalso; apply Hw; split; [reflexivity|assumption] | assumption].
    + now apply directive_meets_doc_lemma.
Qed.

(* ------------------------------------------------------------------ *)
(* the format scanner: a format is the concatenation of its parts        *)
(* ------------------------------------------------------------------ *)
Lemma lookup_key d : lookup (key d) = Some d.
Proof. destruct d; vm_compute; reflexivity. Qed.

Lemma key_alpha d : forallb is_alpha (key d) = true.
Proof. destruct d; vm_compute; reflexivity. Qed.

Lemma key_nonempty d : exists c s, key d = c :: s.
Proof. destruct d; vm_compute; eexists; eexists; reflexivity. Qed.

Lemma decode_field_key t d : decode_field t (key d) = render_directive d t.
Proof. unfold decode_field. now rewrite lookup_key. Qed.

Lemma scan_nil ins inf fld : scan [] ins inf fld = flush inf fld.
Proof. reflexivity. Qed.

Lemma scan_cons c rest ins inf fld :
  scan (c :: rest) ins inf fld =
    if (c =? c_quote)%N then
      match rest with
      | [] => flush inf fld
      | c2 :: rest2 =>
        if (c2 =? c_quote)%N then flush inf fld ++ Out c_quote :: scan rest2 ins false []
        else if ins then scan rest false inf fld
        else flush inf fld ++ scan rest true false []
      end
    else if ins then Out c :: scan rest ins inf fld
    else if negb (is_alpha c) then flush inf fld ++ Out c :: scan rest ins false []
    else if inf then scan rest ins true (fld ++ [c])
    else scan rest ins true [c].
Proof. destruct rest; reflexivity. Qed.

Lemma alpha_not_quote c : is_alpha c = true -> (c =? c_quote)%N = false.
Proof. intros H. destruct (N.eqb_spec c c_quote) as [->|]; [discriminate|reflexivity]. Qed.

(* a run of letters is collected into the field *)
Lemma scan_letters : forall s rest fld, forallb is_alpha s = true ->
  scan (s ++ rest) false true fld = scan rest false true (fld ++ s).
Proof.
  induction s as [|a s IH]; intros rest fld H.
  - now rewrite app_nil_r.
  - cbn [forallb] in H. apply andb_true_iff in H as [Ha Hs].
    cbn [app]. rewrite scan_cons, (alpha_not_quote a Ha), Ha. cbn [negb].
    rewrite IH by assumption. now rewrite <- app_assoc.
Qed.

Lemma scan_directive d rest : scan (key d ++ rest) false false [] = scan rest false true (key d).
Proof.
  destruct (key_nonempty d) as [c [s E]]. pose proof (key_alpha d) as A. rewrite E in *.
  cbn [forallb] in A. apply andb_true_iff in A as [Ac As].
  cbn [app]. rewrite scan_cons, (alpha_not_quote c Ac), Ac. cbn [negb].
  now rewrite scan_letters.
Qed.

(* unquoted literal text passes through *)
Lemma scan_literal : forall s rest, Forall (fun c => is_alpha c = false /\ c <> c_quote) s ->
  scan (s ++ rest) false false [] = List.map Out s ++ scan rest false false [].
Proof.
  induction s as [|a s IH]; intros rest H; [reflexivity|].
  pose proof (Forall_inv H) as [Ha Hq]. pose proof (Forall_inv_tail H) as Hs.
  cbn [app List.map]. rewrite scan_cons. apply N.eqb_neq in Hq. rewrite Hq, Ha. cbn [negb flush app].
  now rewrite IH.
Qed.

Lemma scan_literal_in_field a s rest fld : is_alpha a = false -> a <> c_quote ->
  scan (a :: s ++ rest) false true fld = Field fld :: Out a :: scan (s ++ rest) false false [].
Proof.
  intros Ha Hq. rewrite scan_cons. apply N.eqb_neq in Hq. rewrite Hq, Ha. reflexivity.
Qed.

Definition starts_with_quote (s : str) : bool := match s with c :: _ => (c =? c_quote)%N | [] => false end.

(* inside quotes everything passes through, '' gives ' , and the closing quote ends the string *)
Lemma scan_in_string : forall s rest, starts_with_quote rest = false ->
  scan (escape_quotes s ++ c_quote :: rest) true false [] = List.map Out s ++ scan rest false false [].
Proof.
  induction s as [|a s IH]; intros rest Hr.
  - cbn [escape_quotes app List.map]. rewrite scan_cons. rewrite N.eqb_refl.
    destruct rest as [|c2 r]; [reflexivity|]. cbn [starts_with_quote] in Hr. now rewrite Hr.
  - cbn [escape_quotes List.map]. destruct (N.eqb_spec a c_quote) as [->|Hne].
    + cbn [app]. rewrite scan_cons, !N.eqb_refl. cbn [flush app]. now rewrite IH.
    + cbn [app]. rewrite scan_cons. apply N.eqb_neq in Hne. rewrite Hne. now rewrite IH.
Qed.

Lemma scan_open_quote a s rest inf fld : a <> c_quote ->
  scan (c_quote :: escape_quotes (a :: s) ++ c_quote :: rest) false inf fld
  = flush inf fld ++ scan (escape_quotes (a :: s) ++ c_quote :: rest) true false [].
Proof.
  intros Ha. rewrite scan_cons, N.eqb_refl. cbn [escape_quotes]. apply N.eqb_neq in Ha. rewrite Ha.
  cbn [app]. now rewrite Ha.
Qed.

Lemma unparse_cons p ps : unparse (p :: ps) = unparse_part p ++ unparse ps.
Proof. reflexivity. Qed.

Lemma separable_head_no_quote q ps : separable (q :: ps) -> quote_head q = false ->
  starts_with_quote (unparse (q :: ps)) = false.
Proof.
  intros [Hok _] Hq. rewrite unparse_cons. destruct q as [d|s|s|]; try discriminate.
  - cbn [unparse_part]. destruct (key_nonempty d) as [c [s E]]. pose proof (key_alpha d) as A. rewrite E in *.
    cbn [forallb] in A. apply andb_true_iff in A as [Ac _]. cbn [app starts_with_quote]. now apply alpha_not_quote.
  - cbn [unparse_part part_ok] in *. destruct Hok as [Hne Hall]. destruct s as [|a s]; [contradiction|].
    pose proof (Forall_inv Hall) as [_ Hq']. cbn [app starts_with_quote]. now apply N.eqb_neq.
Qed.

Lemma flush_false fld : flush false fld = []. Proof. reflexivity. Qed.
Lemma flush_true fld : flush true fld = [Field fld]. Proof. reflexivity. Qed.

Lemma scan_parts : forall ps, separable ps ->
  scan (unparse ps) false false [] = flat_map items_of ps /\
  (match ps with PDir _ :: _ => True | _ => forall f, scan (unparse ps) false true f = Field f :: flat_map items_of ps end).
Proof.
  induction ps as [|p ps IH]; intros Hsep.
  - split; [reflexivity|]. intros f. reflexivity.
  - destruct Hsep as [Hok [Hnext Hrest]]. specialize (IH Hrest). destruct IH as [IH1 IH2].
    rewrite unparse_cons. cbn [flat_map].
    destruct p as [d|s|s|].
    + (* directive *)
      split; [|exact I]. cbn [unparse_part items_of app]. rewrite scan_directive.
      destruct ps as [|q ps']; [reflexivity|].
      destruct q; try discriminate; apply IH2.
    + (* literal *)
      cbn [part_ok] in Hok. destruct Hok as [Hne Hall]. cbn [unparse_part items_of].
      split.
      * rewrite scan_literal by assumption. now rewrite IH1.
      * intros f. destruct s as [|a s]; [contradiction|].
        pose proof (Forall_inv Hall) as [Ha Hq]. pose proof (Forall_inv_tail Hall) as Hs.
        cbn [app]. rewrite scan_literal_in_field by assumption.
        rewrite scan_literal by assumption. rewrite IH1. reflexivity.
    + (* quoted *)
      cbn [part_ok] in Hok. destruct Hok as [Hne Hhd]. destruct s as [|a s]; [contradiction|]. cbn [hd] in Hhd.
      assert (starts_with_quote (unparse ps) = false) as Hq.
      { destruct ps as [|q ps']; [reflexivity|]. now apply separable_head_no_quote. }
      cbn [unparse_part items_of]. rewrite <- !app_comm_cons, <- !app_assoc. cbn [app].
      split.
      * rewrite scan_open_quote by assumption. rewrite flush_false. cbn [app].
        rewrite scan_in_string by assumption. now rewrite IH1.
      * intros f. rewrite scan_open_quote by assumption. rewrite flush_true. cbn [app].
        rewrite scan_in_string by assumption. now rewrite IH1.
    + (* '' *)
      cbn [unparse_part items_of app]. split.
      * rewrite scan_cons, !N.eqb_refl. rewrite flush_false. cbn [app]. now rewrite IH1.
      * intros f. rewrite scan_cons, !N.eqb_refl. rewrite flush_true. cbn [app]. now rewrite IH1.
Qed.

Lemma render_out s t : flat_map (render_item t) (List.map Out s) = s.
Proof. induction s as [|a s IH]; [reflexivity|]. cbn [List.map flat_map render_item app]. now rewrite IH. Qed.

Lemma render_items_of t p : render_items t (items_of p) = render_part t p.
Proof.
  unfold render_items. destruct p as [d|s|s|]; cbn [items_of render_part].
  - cbn [flat_map render_item]. now rewrite app_nil_r, decode_field_key.
  - apply render_out.
  - apply render_out.
  - reflexivity.
Qed.

Lemma render_items_app t a b : render_items t (a ++ b) = render_items t a ++ render_items t b.
Proof. unfold render_items. apply flat_map_app. Qed.

Lemma render_parts t ps : render_items t (flat_map items_of ps) = flat_map (render_part t) ps.
Proof.
  induction ps as [|p ps IH]; [reflexivity|]. cbn [flat_map]. now rewrite render_items_app, render_items_of, IH.
Qed.

Lemma unsupported_app a b : unsupported (a ++ b) = unsupported a ++ unsupported b.
Proof. unfold unsupported. apply flat_map_app. Qed.

Lemma unsupported_out s : unsupported (List.map Out s) = [].
Proof. induction s as [|a s IH]; [reflexivity|]. exact IH. Qed.

Lemma unsupported_parts ps : unsupported (flat_map items_of ps) = [].
Proof.
  induction ps as [|p ps IH]; [reflexivity|]. cbn [flat_map]. rewrite unsupported_app, IH, app_nil_r.
  destruct p as [d|s|s|]; cbn [items_of].
  - unfold unsupported. cbn [flat_map]. now rewrite lookup_key.
  - apply unsupported_out.
  - apply unsupported_out.
  - reflexivity.
Qed.

Lemma format_concat_lemma ps t : separable ps ->
  decode_date_format (unparse ps) t = flat_map (render_part t) ps /\
  unsupported (scan (unparse ps) false false []) = [].
Proof.
  intros H. destruct (scan_parts ps H) as [E _]. unfold decode_date_format. rewrite E. split.
  - apply render_parts.
  - apply unsupported_parts.
Qed.

Lemma literal_passthrough_lemma s t : Forall (fun c => is_alpha c = false /\ c <> c_quote) s ->
  decode_date_format s t = s.
Proof.
  intros H. unfold decode_date_format. rewrite <- (app_nil_r s) at 1. rewrite scan_literal by assumption.
  rewrite scan_nil, flush_false, app_nil_r. apply render_out.
Qed.

Lemma quoted_passthrough_lemma s t : s <> [] -> hd 0%N s <> c_quote ->
  decode_date_format (c_quote :: escape_quotes s ++ [c_quote]) t = s.
Proof.
  intros Hne Hhd.
  destruct (format_concat_lemma [PQuoted s] t) as [E _].
  - cbn [separable part_ok]. tauto.
  - cbn [unparse flat_map unparse_part render_part] in E. rewrite !app_nil_r in E. exact E.
Qed.

(* the pinned scanner: a doubled quote inside a directive run *)
Lemma pinned_doubled_quote_refuted :
  decode_date_format_pinned (L"d''d") (mkdt 2023 5 7 10 4 5 0) = L"'07" /\
  flat_map (render_part (mkdt 2023 5 7 10 4 5 0)) [PDir D_d; PQuote; PDir D_d] = L"7'7" /\
  unparse [PDir D_d; PQuote; PDir D_d] = L"d''d".
Proof. vm_compute. repeat split. Qed.

(* ------------------------------------------------------------------ *)
(* documented ranges, witnesses                                        *)
(* ------------------------------------------------------------------ *)
Lemma valid_dtb_spec t : valid_dtb t = true -> valid_dt t.
Proof.
  unfold valid_dtb, valid_dt, valid_date. rewrite !andb_true_iff, !Z.leb_le, !Z.ltb_lt. tauto.
Qed.

Lemma doc_field_in_range_lemma d t lo hi : valid_dt t -> doc_range d = Some (lo, hi) ->
  exists w v, doc_field d t = Num w v /\ lo <= v <= hi.
Proof.
  intros V R. pose proof (valid_day_31 t V) as D31.
  destruct V as [[Hy [Hm Hd]] [Hh [Hmi [Hs Hus]]]].
  pose proof (day_of_year_bounds (year t) (month t) (day t) Hm Hd) as Hdoy.
  pose proof (year_len_bounds (year t)) as Hyl.
  pose proof (doy_ok t Hm) as Edoy. unfold py_day_of_year in Edoy.
  pose proof (W_value t D31) as [_ HW]. pose proof (F_value t D31) as [_ HF].
  pose proof (ww_value t Hm Hd) as [_ Hww].
  destruct d; cbn [doc_range] in R; inversion R; subst lo hi; cbn [doc_field];
    eexists; eexists; (split; [reflexivity|]); try lia.
  all: destruct (hour t <? 12) eqn:E; [apply Z.ltb_lt in E|apply Z.ltb_ge in E]; lia.
Qed.

Lemma pinned_k_refuted_lemma :
  let t := mkdt 2023 1 1 10 0 0 0 in
  valid_dt t /\ pinned_k t = L"124" /\ pinned_kk t = L"124" /\ spec_directive D_k t = L"10" /\ spec_directive D_kk t = L"10" /\
  pinned_k (mkdt 2023 1 1 20 0 0 0) = L"224".
Proof. split; [apply valid_dtb_spec; reflexivity|]. vm_compute. repeat split. Qed.

Lemma y_refuted_lemma : exists t, valid_dt t /\ render_directive D_y t <> spec_directive D_y t.
Proof.
  exists (mkdt 2023 5 7 10 4 5 0). split; [apply valid_dtb_spec; reflexivity|]. vm_compute. discriminate.
Qed.

Lemma ww_refuted_lemma : exists t, valid_dt t /\ render_directive D_ww t <> spec_directive D_ww t.
Proof.
  exists (mkdt 2023 1 9 10 4 5 0). split; [apply valid_dtb_spec; reflexivity|]. vm_compute. discriminate.
Qed.

(* the pinned validator rejects a format the scanner renders *)
Lemma validator_pinned_refuted_lemma :
  validate_format_pinned (L"h 'o''clock' a") = false /\ validate_format (L"h 'o''clock' a") = true /\
  decode_date_format (L"h 'o''clock' a") (mkdt 2023 5 7 10 4 5 0) = L"10 o'clock am".
Proof. vm_compute. repeat split. Qed.

(* ------------------------------------------------------------------ *)
(* civil_from_days and days_from_civil are mutually inverse             *)
(* ------------------------------------------------------------------ *)
(* one 400-year cycle (146097 days) is swept; the cycle then repeats *)
Definition civil_check (n : Z) : bool :=
  let '(y, m, d) := civil_from_days n in
  (1 <=? y) && (1 <=? m) && (m <=? 12) && (1 <=? d) && (d <=? days_in_month y m) && (days_from_civil y m d =? n).

Lemma civil_cycle_sweep : forallb civil_check (zrange 1 (N.to_nat 146097)) = true.
Proof. vm_compute. reflexivity. Qed.

Lemma is_leap_period y a : is_leap (y + 400 * a) = is_leap y.
Proof. unfold is_leap. lia. Qed.

Lemma days_in_month_period y a m : days_in_month (y + 400 * a) m = days_in_month y m.
Proof. unfold days_in_month. now rewrite is_leap_period. Qed.

Lemma days_from_civil_period y a m d : days_from_civil (y + 400 * a) m d = days_from_civil y m d + 146097 * a.
Proof.
  unfold days_from_civil, days_before_month. rewrite is_leap_period.
  unfold days_before_year. lia.
Qed.

Lemma civil_from_days_period n a :
  civil_from_days (n + 146097 * a) = let '(y, m, d) := civil_from_days n in (y + 400 * a, m, d).
Proof.
  unfold civil_from_days.
  replace (n + 146097 * a - 1) with (n - 1 + a * 146097) by lia.
  rewrite Z.div_add, Z.mod_add by lia.
  set (r := (n - 1) mod 146097). set (q := (n - 1) / 146097).
  cbv zeta.
  destruct ((r mod 36524 mod 1461 / 365 =? 4) || (r / 36524 =? 4)).
  - f_equal. f_equal. lia.
  - destruct (ord_month_day _ _) as [mo dd]. f_equal. f_equal. lia.
Qed.

Lemma civil_from_days_sound n : 1 <= n ->
  let '(y, m, d) := civil_from_days n in
  1 <= y /\ 1 <= m <= 12 /\ 1 <= d <= days_in_month y m /\ days_from_civil y m d = n.
Proof.
  intros Hn.
  assert (exists a r, 0 <= a /\ 0 <= r < 146097 /\ n = (r + 1) + 146097 * a) as [a [r [Ha [Hr0 ->]]]].
  { exists ((n - 1) / 146097), ((n - 1) mod 146097). lia. }
  assert (1 <= r + 1 < 1 + Z.of_nat (N.to_nat 146097)) as Hr by lia.
  pose proof (forall_range civil_check 1 _ civil_cycle_sweep (r + 1) Hr) as C.
  rewrite civil_from_days_period. unfold civil_check in C.
  destruct (civil_from_days (r + 1)) as [[y m] d].
  rewrite !andb_true_iff, !Z.leb_le, Z.eqb_eq in C.
  rewrite days_in_month_period, days_from_civil_period. lia.
Qed.

Lemma civil_from_days_inverse_lemma y m d : 1 <= y -> 1 <= m <= 12 -> 1 <= d <= days_in_month y m ->
  civil_from_days (days_from_civil y m d) = (y, m, d).
Proof.
  intros Hy Hm Hd.
  assert (1 <= days_from_civil y m d) as Hn.
  { unfold days_from_civil. assert (0 <= days_before_year y) by (unfold days_before_year; lia).
    pose proof (day_of_year_bounds y m d Hm Hd). unfold day_of_year in *. lia. }
  pose proof (civil_from_days_sound _ Hn) as S.
  destruct (civil_from_days (days_from_civil y m d)) as [[y' m'] d'].
  destruct S as [_ [Hm' [Hd' E]]].
  now apply days_from_civil_injective.
Qed.
