(* The code computes `int((col - 1) / 26)` with a binary64 true division.
   On the whole column domain (col - 1 in 0..18278) the truncated binary64
   quotient equals the exact integer quotient the model uses. Finite sweep by
   vm_compute, bound stated in the lemma. *)
From Coq Require Import ZArith List Bool Lia PrimFloat Uint63 FloatOps SpecFloat.
Import ListNotations.

Definition f_of_Z (z : Z) : float := of_uint63 (Uint63.of_Z z).
Definition trunc (f : float) : Z :=
  match Prim2SF f with
  | S754_finite s m e =>
    let v := if (0 <=? e)%Z then (Zpos m * 2 ^ e)%Z else (Zpos m / 2 ^ (- e))%Z in
    if s then (- v)%Z else v
  | _ => 0%Z
  end.
Definition div26_ok (c : Z) : bool := (trunc (PrimFloat.div (f_of_Z c) 26%float) =? c / 26)%Z.
Definition col_domain : list Z := map Z.of_nat (seq 0 (N.to_nat 18279)).

Lemma div26_sweep : forallb div26_ok col_domain = true.
Proof. vm_compute. reflexivity. Qed.

Lemma float_division_exact_lemma (c : Z) : (0 <= c <= 18278)%Z ->
  trunc (PrimFloat.div (f_of_Z c) 26%float) = (c / 26)%Z.
Proof.
  intros Hc.
  assert (Hin : In c col_domain).
  { unfold col_domain. replace c with (Z.of_nat (Z.to_nat c)) by lia.
    apply in_map, in_seq. lia. }
  pose proof (proj1 (forallb_forall _ _) div26_sweep c Hin) as H.
  unfold div26_ok in H. now apply Z.eqb_eq in H.
Qed.
