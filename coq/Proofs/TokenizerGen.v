(* Translator tie: the tables and regex sources read from the tokenizer source on this run
   are the ones the model uses / the scanners mirror. *)
From Coq Require Import NArith List.
From NP Require Import Gen.GenTok Model.PyBase Model.Tokenizer.
Import ListNotations.
Open Scope N_scope.

Lemma gen_tok_tables_lemma :
  GenTok.dq_pattern = modelled_dq_regex /\
  GenTok.sq_pattern = modelled_sq_regex /\
  GenTok.sn_pattern = modelled_sn_regex /\
  GenTok.regex_keys = [[DQ]; [SQ]] /\
  GenTok.regex_flags = [32; 32; 32] /\          (* re.UNICODE only: no IGNORECASE/MULTILINE/DOTALL *)
  GenTok.token_enders = enders /\
  GenTok.error_codes = Tokenizer.error_codes /\
  GenTok.disp_string = [DQ; SQ] /\
  GenTok.disp_error = [HASH] /\
  GenTok.disp_operator = operators /\
  GenTok.disp_opener = [LB; LP] /\
  GenTok.disp_closer = [RP; RB] /\
  GenTok.disp_separator = [SEMI; COMMA] /\
  GenTok.infix_chars = infix_only /\
  GenTok.two_char_ops = [[62; 61]; [60; 61]; [60; 62]; [8805]; [8804]; [8800]].
Proof. repeat split; reflexivity. Qed.
