(* LimitDenP: the continued-fraction loop of Fraction.limit_denominator (NumFormat.limit_denominator):
   the fuel suffices, the denominator is within 1..maxd, the numerator is not below whole*denominator. *)
From Coq Require Import ZArith NArith List Bool Lia Znumtheory.
From NP Require Import Model.PyBase Model.Digits Model.C13Tables Model.NumFormat
  Proofs.DigitsP Proofs.B64P Proofs.NumFormatP Proofs.SciFracP.
Import ListNotations.
Open Scope Z_scope.
Ltac Zify.zify_post_hook ::= Z.to_euclidean_division_equations.

Lemma prod_le0 x y : 0 < y -> x * y <= 0 -> x <= 0.
Proof. intros. nia. Qed.
Lemma prod_ge0 x y : 0 < y -> 0 <= x * y -> 0 <= x.
Proof. intros. nia. Qed.

(* a/b with b < Q2 + q1 cannot lie strictly between the Farey neighbours P2/Q2 and p1/q1 *)
Lemma farey_gap sg b u v Q2 q1 d r d0 eb :
  (sg = 1 \/ sg = -1) -> 0 < q1 -> 0 < Q2 -> 0 < d -> 0 < r -> 0 < d0 -> 1 <= b -> b < Q2 + q1 ->
  sg * b = Q2 * u + q1 * v ->
  eb * q1 = b * (- sg * d) + d0 * u ->
  eb * Q2 = b * (sg * r) - d0 * v ->
  d * b <= Z.abs eb * q1 \/ r * b <= Z.abs eb * Q2.
Proof.
  intros Hs Hq1 HQ2 Hd Hr Hd0 Hb Hsum Euv Eb1 Eb2.
  assert (Hdb : 0 <= d * b) by (apply Z.mul_nonneg_nonneg; lia).
  assert (Hrb : 0 <= r * b) by (apply Z.mul_nonneg_nonneg; lia).
  destruct Hs as [-> | ->].
  - destruct (Z_le_gt_dec u 0) as [Hu|Hu].
    + left. assert (d0 * u <= 0) by (apply Z.mul_nonneg_nonpos; lia).
      assert (H1 : eb * q1 <= - (d * b)) by lia.
      assert (eb <= 0) by (apply (prod_le0 eb q1); lia).
      rewrite Z.abs_neq by assumption. lia.
    + destruct (Z_le_gt_dec v 0) as [Hv|Hv].
      * right. assert (d0 * v <= 0) by (apply Z.mul_nonneg_nonpos; lia).
        assert (H1 : r * b <= eb * Q2) by lia.
        assert (0 <= eb) by (apply (prod_ge0 eb Q2); lia).
        rewrite Z.abs_eq by assumption. lia.
      * exfalso. assert (Q2 * 1 <= Q2 * u) by (apply Z.mul_le_mono_nonneg_l; lia).
        assert (q1 * 1 <= q1 * v) by (apply Z.mul_le_mono_nonneg_l; lia). lia.
  - destruct (Z_le_gt_dec 0 u) as [Hu|Hu].
    + left. assert (0 <= d0 * u) by (apply Z.mul_nonneg_nonneg; lia).
      assert (H1 : d * b <= eb * q1) by lia.
      assert (0 <= eb) by (apply (prod_ge0 eb q1); lia).
      rewrite Z.abs_eq by assumption. lia.
    + destruct (Z_le_gt_dec 0 v) as [Hv|Hv].
      * right. assert (0 <= d0 * v) by (apply Z.mul_nonneg_nonneg; lia).
        assert (H1 : eb * Q2 <= - (r * b)) by lia.
        assert (eb <= 0) by (apply (prod_le0 eb Q2); lia).
        rewrite Z.abs_neq by assumption. lia.
      * exfalso. assert (Q2 * u <= Q2 * (-1)) by (apply Z.mul_le_mono_nonneg_l; lia).
        assert (q1 * v <= q1 * (-1)) by (apply Z.mul_le_mono_nonneg_l; lia). lia.
Qed.

Section Loop.
Variables n0 d0 maxd W : Z.
Hypothesis Hn0 : 0 <= n0.
Hypothesis Hd0 : maxd < d0.
Hypothesis Hmax : 1 <= maxd.
Hypothesis Hgcd : Z.gcd n0 d0 = 1.
Hypothesis HW : W = n0 / d0.

(* invariant of the loop state (p0, q0, p1, q1, n, d) *)
Record linv (p0 q0 p1 q1 n d : Z) : Prop := {
  li_n : n0 = p1 * n + p0 * d;
  li_d : d0 = q1 * n + q0 * d;
  li_q0 : 0 <= q0 <= maxd;
  li_q1 : 0 <= q1 <= maxd;
  li_p : 0 <= p0 /\ 0 <= p1;
  li_nd : 0 <= n /\ 0 < d;
  li_gt : 0 < q1 -> d < n;
  li_start : q1 = 0 -> q0 = 1 /\ p0 = 0 /\ p1 = 1 /\ n = n0 /\ d = d0;
  li_W : 0 < q1 -> W * q0 <= p0 /\ W * q1 <= p1;
  li_det : Z.abs (p1 * q0 - p0 * q1) = 1
}.

Lemma linv_init : linv 0 1 1 0 n0 d0.
Proof. constructor; try lia. Qed.

Definition mu (q0 q1 : Z) : Z := 2 * (maxd - q1) + (if q0 =? 0 then 1 else 0).

Lemma linv_step p0 q0 p1 q1 n d : linv p0 q0 p1 q1 n d ->
  let a := n / d in q0 + a * q1 <= maxd ->
  linv p1 q1 (p0 + a * p1) (q0 + a * q1) d (n - a * d) /\ mu q1 (q0 + a * q1) < mu q0 q1.
Proof.
  intros I a Hle. destruct I as [In Id Iq0 Iq1 Ip Ind Igt Ist IW Idet].
  destruct Ind as [Hn Hd].
  assert (Ha : 0 <= a) by (apply Z.div_pos; lia).
  assert (Hmod : n - a * d = n mod d) by (unfold a; pose proof (Z.div_mod n d ltac:(lia)); lia).
  pose proof (Z.mod_pos_bound n d Hd) as Hmb.
  assert (Hq2 : 0 <= q0 + a * q1) by nia.
  assert (Hn' : n0 = (p0 + a * p1) * d + p1 * (n - a * d)) by (rewrite In; ring).
  assert (Hd' : d0 = (q0 + a * q1) * d + q1 * (n - a * d)) by (rewrite Id; ring).
  (* the new remainder cannot be zero: it would make d0 = q1' <= maxd *)
  assert (Hpos : 0 < n - a * d).
  { destruct (Z.eq_dec (n - a * d) 0) as [E|]; [exfalso|lia].
    rewrite E, Z.mul_0_r, Z.add_0_r in Hn', Hd'.
    assert (Hdiv : (d | 1)).
    { rewrite <- Hgcd. apply Z.gcd_greatest; [exists (p0 + a * p1)|exists (q0 + a * q1)]; assumption. }
    apply Z.divide_1_r_nonneg in Hdiv; [|lia]. subst d. lia. }
  split.
  - constructor.
    + (* li_n *) rewrite Hn'. ring.
    + (* li_d *) rewrite Hd'. ring.
    + (* li_q0 *) lia.
    + (* li_q1 *) lia.
    + (* li_p *) split; [lia|nia].
    + (* li_nd *) lia.
    + (* li_gt *) intros _. lia.
    + (* li_start *) intros Hq. exfalso.
      destruct (Z.eq_dec q1 0) as [E|].
      * destruct (Ist E) as [E1 _]. subst. lia.
      * assert (0 < q1) by lia. specialize (Igt ltac:(assumption)).
        assert (1 <= a) by (unfold a; apply Z.div_le_lower_bound; lia). nia.
    + (* li_W *) intros Hq. destruct (Z.eq_dec q1 0) as [E|].
      * destruct (Ist E) as (E1 & E2 & E3 & E4 & E5). subst q1 q0 p0 p1 n d.
        replace (0 + a * 1) with a by ring. replace (1 + a * 0) with 1 by ring.
        assert (a = W) by (unfold a; rewrite HW; reflexivity). lia.
      * assert (Hq1 : 0 < q1) by lia. destruct (IW Hq1) as [W0 W1]. split; [assumption|].
        assert (0 <= W) by (rewrite HW; apply Z.div_pos; lia). nia.
    + (* li_det *) replace ((p0 + a * p1) * q1 - p1 * (q0 + a * q1)) with (- (p1 * q0 - p0 * q1)) by ring.
      rewrite Z.abs_opp. assumption.
  - unfold mu. destruct (Z.eq_dec q1 0) as [E|].
    + destruct (Ist E) as (E1 & _). subst q1 q0. replace (1 + a * 0) with 1 by ring.
      change (0 =? 0) with true. change (1 =? 0) with false. cbv iota. lia.
    + assert (Hq1 : 0 < q1) by lia. specialize (Igt Hq1).
      assert (1 <= a) by (unfold a; apply Z.div_le_lower_bound; lia).
      destruct (Z.eqb_spec q1 0); [lia|]. destruct (Z.eqb_spec q0 0); nia.
Qed.

Lemma limit_loop_ok : forall fuel p0 q0 p1 q1 n d, linv p0 q0 p1 q1 n d -> mu q0 q1 < Z.of_nat fuel ->
  exists p0' q0' p1' q1' n' d',
    limit_loop fuel maxd p0 q0 p1 q1 n d = Some (p0', q0', p1', q1', n', d') /\
    linv p0' q0' p1' q1' n' d' /\ maxd < q0' + (n' / d') * q1'.
Proof.
  induction fuel as [|f IH]; intros p0 q0 p1 q1 n d I Hmu.
  - exfalso. destruct I. unfold mu in Hmu. destruct (q0 =? 0); lia.
  - cbn [limit_loop]. destruct (Z.ltb_spec maxd (q0 + n / d * q1)) as [Hgt|Hle].
    + exists p0, q0, p1, q1, n, d. split; [reflexivity|split; assumption].
    + destruct (linv_step _ _ _ _ _ _ I Hle) as [I' Hdec]. apply IH; [assumption|lia].
Qed.

(* at the exit of the loop the two candidates are Farey neighbours around n0/d0 whose denominators add up
   to more than maxd: nothing with a denominator <= maxd is closer than the closer of the two *)
Lemma closest_at_exit p0 q0 p1 q1 n d : linv p0 q0 p1 q1 n d -> maxd < q0 + (n / d) * q1 ->
  let k := (maxd - q0) / q1 in
  let P2 := p0 + k * p1 in let Q2 := q0 + k * q1 in
  let pr := if 2 * d * Q2 <=? d0 then p1 else P2 in
  let qr := if 2 * d * Q2 <=? d0 then q1 else Q2 in
  forall a b, 1 <= b <= maxd ->
  Z.abs (n0 * qr - d0 * pr) * b <= Z.abs (n0 * b - d0 * a) * qr.
Proof.
  intros I Hexit k P2 Q2 pr qr a b Hb.
  destruct I as [In Id Iq0 Iq1 Ip Ind Igt Ist IW Idet]. destruct Ind as [Hn Hd].
  assert (Hq1 : 0 < q1).
  { destruct (Z.eq_dec q1 0) as [E|]; [|lia]. destruct (Ist E) as (E1 & _). rewrite E1, E in Hexit. lia. }
  specialize (Igt Hq1).
  assert (Hk0 : 0 <= k) by (apply Z.div_pos; lia).
  assert (Hk1 : q0 + k * q1 <= maxd < q0 + (k + 1) * q1).
  { unfold k. pose proof (Z.mul_div_le (maxd - q0) q1 Hq1). pose proof (Z.mod_pos_bound (maxd - q0) q1 Hq1).
    pose proof (Z.div_mod (maxd - q0) q1 ltac:(lia)). lia. }
  assert (Hka : k < n / d) by nia.
  set (r := n - k * d).
  assert (Hr : 0 < r).
  { unfold r. pose proof (Z.mul_div_le n d Hd). assert ((k + 1) * d <= n / d * d) by nia. nia. }
  assert (HQ2 : 1 <= Q2).
  { unfold Q2. destruct (Z.eq_dec q0 0) as [E|]; [|nia].
    assert (1 <= k) by (unfold k; apply Z.div_le_lower_bound; lia). nia. }
  set (sg := p1 * q0 - p0 * q1) in *.
  assert (E1 : n0 * q1 - d0 * p1 = - sg * d) by (rewrite In, Id; unfold sg; ring).
  assert (E2 : n0 * Q2 - d0 * P2 = sg * r) by (rewrite In, Id; unfold sg, r, Q2, P2; ring).
  assert (Ed0 : d0 = q1 * r + d * Q2) by (rewrite Id; unfold r, Q2; ring).
  set (u := p1 * b - a * q1). set (v := a * Q2 - P2 * b).
  assert (Euv : sg * b = Q2 * u + q1 * v) by (unfold sg, u, v, Q2, P2; ring).
  set (eb := n0 * b - d0 * a).
  assert (Eb1 : eb * q1 = b * (n0 * q1 - d0 * p1) + d0 * u) by (unfold eb, u; ring).
  assert (Eb2 : eb * Q2 = b * (n0 * Q2 - d0 * P2) - d0 * v) by (unfold eb, v; ring).
  rewrite E1 in Eb1. rewrite E2 in Eb2.
  assert (Hd0p : 0 < d0) by lia.
  assert (Hsum : maxd < Q2 + q1) by (unfold Q2; lia).
  (* one of the two candidates is at least as close as a/b *)
  assert (Hsg : sg = 1 \/ sg = -1) by lia.
  assert (Hone : d * b <= Z.abs eb * q1 \/ r * b <= Z.abs eb * Q2).
  { apply (farey_gap sg b u v Q2 q1 d r d0 eb); try assumption; try lia. }
  assert (A1 : Z.abs (n0 * q1 - d0 * p1) = d).
  { rewrite E1. destruct (Z.abs_spec sg) as [[Hs Es]|[Hs Es]]; rewrite Es in Idet.
    - assert (sg = 1) by lia. rewrite H. rewrite Z.abs_neq by lia. lia.
    - assert (sg = -1) by lia. rewrite H. rewrite Z.abs_eq by lia. lia. }
  assert (A2 : Z.abs (n0 * Q2 - d0 * P2) = r).
  { rewrite E2. destruct (Z.abs_spec sg) as [[Hs Es]|[Hs Es]]; rewrite Es in Idet.
    - assert (sg = 1) by lia. rewrite H. rewrite Z.abs_eq by lia. lia.
    - assert (sg = -1) by lia. rewrite H. rewrite Z.abs_neq by lia. lia. }
  fold eb. set (X := Z.abs eb) in *. assert (0 <= X) by apply Z.abs_nonneg.
  unfold pr, qr. destruct (Z.leb_spec (2 * d * Q2) d0) as [Hdec|Hdec].
  - (* bound1 chosen: d * Q2 <= q1 * r *)
    rewrite A1. assert (Hc : d * Q2 <= q1 * r) by lia.
    destruct Hone as [H1|H2]; [assumption|].
    apply (mul_cancel_le Q2); [lia|].
    assert (d * Q2 * b <= q1 * r * b) by (apply Z.mul_le_mono_nonneg_r; lia).
    assert (q1 * (r * b) <= q1 * (X * Q2)) by (apply Z.mul_le_mono_nonneg_l; lia). lia.
  - rewrite A2. assert (Hc : q1 * r < d * Q2) by lia.
    destruct Hone as [H1|H2]; [|assumption].
    apply (mul_cancel_le q1); [lia|].
    assert (q1 * r * b <= d * Q2 * b) by (apply Z.mul_le_mono_nonneg_r; lia).
    assert (Q2 * (d * b) <= Q2 * (X * q1)) by (apply Z.mul_le_mono_nonneg_l; lia). lia.
Qed.

End Loop.

(* reduced fraction *)
Lemma reduce_spec n0 d0 : 0 <= n0 -> 0 < d0 ->
  let g := Z.gcd n0 d0 in
  0 < g /\ n0 = g * (n0 / g) /\ d0 = g * (d0 / g) /\ 0 <= n0 / g /\ 0 < d0 / g /\
  Z.gcd (n0 / g) (d0 / g) = 1 /\ (n0 / g) / (d0 / g) = n0 / d0.
Proof.
  intros Hn Hd g. assert (Hg : 0 < g).
  { unfold g. pose proof (Z.gcd_nonneg n0 d0). destruct (Z.eq_dec (Z.gcd n0 d0) 0) as [E|]; [|lia].
    apply Z.gcd_eq_0_r in E. lia. }
  destruct (Z.gcd_divide_l n0 d0) as [x Hx]. destruct (Z.gcd_divide_r n0 d0) as [y Hy]. fold g in Hx, Hy.
  assert (E1 : n0 / g = x) by (rewrite Hx; apply Z.div_mul; lia).
  assert (E2 : d0 / g = y) by (rewrite Hy; apply Z.div_mul; lia).
  assert (G1 : Z.gcd (n0 / g) (d0 / g) = 1) by (apply Z.gcd_div_gcd; [lia|reflexivity]).
  assert (G2 : n0 / g / (d0 / g) = n0 / d0).
  { rewrite E1, E2. assert (Ey : y <> 0) by nia.
    replace (n0 / d0) with ((g * x) / (g * y)) by (f_equal; lia).
    symmetry. apply Z.div_mul_cancel_l; lia. }
  rewrite E1, E2 in *. repeat split; try lia; try nia.
Qed.

(* limit_denominator: always an answer; the denominator is within bounds; the fraction is not below floor(x) *)
Lemma limit_denominator_ok n0 d0 maxd : 0 <= n0 -> 0 < d0 -> 1 <= maxd ->
  exists p q, limit_denominator n0 d0 maxd = Some (p, q) /\ 1 <= q <= maxd /\ (n0 / d0) * q <= p.
Proof.
  intros Hn Hd Hmax. unfold limit_denominator.
  pose proof (reduce_spec n0 d0 Hn Hd) as (Hg & En & Ed & Hrn & Hrd & Hgcd & Hfloor). cbv zeta in *.
  set (g := Z.gcd n0 d0) in *. set (n := n0 / g) in *. set (d := d0 / g) in *.
  destruct (Z.leb_spec d maxd) as [Hsmall|Hbig].
  - exists n, d. split; [reflexivity|]. split; [lia|]. rewrite <- Hfloor.
    pose proof (Z.mul_div_le n d Hrd). lia.
  - assert (Hfuel : mu maxd 1 0 < Z.of_nat (Z.to_nat (2 * maxd + 4))) by (unfold mu; change (1 =? 0) with false; cbv iota; lia).
    pose proof (limit_loop_ok n d maxd (n / d) Hrn Hbig Hmax Hgcd eq_refl _ _ _ _ _ _ _ (linv_init n d maxd (n / d) Hrn Hbig Hmax) Hfuel)
      as Hloop.
    destruct Hloop as (p0 & q0 & p1 & q1 & n' & d' & El & I & Hexit).
    rewrite El. destruct I as [In Id Iq0 Iq1 Ip Ind Igt Ist IW Idet].
    assert (Hq1 : 0 < q1).
    { destruct (Z.eq_dec q1 0) as [E|]; [|lia]. destruct (Ist E) as (E1 & _). rewrite E1, E in Hexit. lia. }
    destruct (IW Hq1) as [W0 W1]. rewrite Hfloor in W0, W1.
    set (k := (maxd - q0) / q1).
    assert (Hk : 0 <= k) by (apply Z.div_pos; lia).
    assert (Hkq : q0 + k * q1 <= maxd) by (unfold k; pose proof (Z.mul_div_le (maxd - q0) q1 Hq1); lia).
    destruct (2 * d' * (q0 + k * q1) <=? d).
    + exists p1, q1. split; [reflexivity|]. split; lia.
    + exists (p0 + k * p1), (q0 + k * q1). split; [reflexivity|]. split.
      * split; [|assumption]. destruct (Z.eq_dec q0 0) as [E|]; [|nia].
        subst q0. assert (1 <= k) by (unfold k; apply Z.div_le_lower_bound; lia). nia.
      * assert (0 <= n0 / d0) by (apply Z.div_pos; lia). nia.
Qed.

(* ... and it is a closest fraction to n0/d0 among all fractions with a denominator <= maxd *)
Lemma limit_denominator_closest n0 d0 maxd p q : 0 <= n0 -> 0 < d0 -> 1 <= maxd ->
  limit_denominator n0 d0 maxd = Some (p, q) ->
  forall a b, 1 <= b <= maxd -> Z.abs (n0 * q - d0 * p) * b <= Z.abs (n0 * b - d0 * a) * q.
Proof.
  intros Hn Hd Hmax El a b Hb. unfold limit_denominator in El.
  pose proof (reduce_spec n0 d0 Hn Hd) as (Hg & En & Ed & Hrn & Hrd & Hgcd & Hfloor). cbv zeta in *.
  set (g := Z.gcd n0 d0) in *. set (n := n0 / g) in *. set (d := d0 / g) in *.
  destruct (Z.leb_spec d maxd) as [Hsmall|Hbig].
  - inversion El. subst p q. replace (n0 * d - d0 * n) with 0 by (rewrite En, Ed; fold n d; ring).
    rewrite Z.abs_0, Z.mul_0_l. apply Z.mul_nonneg_nonneg; [apply Z.abs_nonneg|lia].
  - assert (Hfuel : mu maxd 1 0 < Z.of_nat (Z.to_nat (2 * maxd + 4))) by (unfold mu; change (1 =? 0) with false; cbv iota; lia).
    pose proof (limit_loop_ok n d maxd (n / d) Hrn Hbig Hmax Hgcd eq_refl _ _ _ _ _ _ _ (linv_init n d maxd (n / d) Hrn Hbig Hmax) Hfuel)
      as Hloop.
    destruct Hloop as (p0 & q0 & p1 & q1 & n' & d' & El' & I & Hexit).
    rewrite El' in El.
    pose proof (closest_at_exit n d maxd (n / d) Hrn Hbig Hmax eq_refl p0 q0 p1 q1 n' d' I Hexit a b Hb) as Hc.
    cbv zeta in Hc.
    assert (Hres : p = (if 2 * d' * (q0 + (maxd - q0) / q1 * q1) <=? d then p1 else p0 + (maxd - q0) / q1 * p1) /\
                   q = (if 2 * d' * (q0 + (maxd - q0) / q1 * q1) <=? d then q1 else q0 + (maxd - q0) / q1 * q1)).
    { destruct (2 * d' * (q0 + (maxd - q0) / q1 * q1) <=? d); inversion El; split; reflexivity. }
    destruct Hres as [Ep Eq]. rewrite <- Ep, <- Eq in Hc.
    replace (n0 * q - d0 * p) with (g * (n * q - d * p)) by (rewrite En, Ed; fold n d; ring).
    replace (n0 * b - d0 * a) with (g * (n * b - d * a)) by (rewrite En, Ed; fold n d; ring).
    rewrite !Z.abs_mul, (Z.abs_eq g) by lia. rewrite <- !Z.mul_assoc.
    apply Z.mul_le_mono_nonneg_l; [lia|assumption].
Qed.

(* digit-limited fraction formats *)
Lemma fraction_digits_lemma is_int d acc : 0 <= dmant d ->
  Z.land acc 4278190080 <> 0 -> 0 <= 4294967296 - acc -> 1 <= 10 ^ (4294967296 - acc) - 1 ->
  let vn := fst (value_rat is_int (dmant d) (dexp d)) in
  let vd := snd (value_rat is_int (dmant d) (dexp d)) in
  let maxd := 10 ^ (4294967296 - acc) - 1 in
  exists p q s neg w a b,
    limit_denominator vn vd maxd = Some (p, q) /\ 1 <= q <= maxd /\
    format_fraction is_int d acc = Ok s /\ readback_fraction s = Some (neg, w, a, b) /\
    0 < b /\ (w * b + a) * q = p * b /\ (a = 0 \/ b = q) /\
    (neg = true -> is_neg d = true) /\ (is_neg d = true -> neg = false -> p = 0) /\
    (forall a' b', 1 <= b' <= maxd -> Z.abs (vn * q - vd * p) * b' <= Z.abs (vn * b' - vd * a') * q).
Proof.
  intros Hm Hl Hk Hmax. cbv zeta. unfold format_fraction, fraction_abs.
  pose proof (value_rat_pos is_int (dmant d) (dexp d)) as Hv.
  destruct (value_rat is_int (dmant d) (dexp d)) as [vn vd]. cbn [fst snd]. destruct Hv as [Hvn Hvd].
  destruct (Z.eqb_spec (Z.land acc 4278190080) 0) as [E|_]; [contradiction|]. cbn [negb].
  set (maxd := 10 ^ (4294967296 - acc) - 1) in *.
  destruct (limit_denominator_ok vn vd maxd Hvn Hvd Hmax) as (p & q & El & Hq & Hfl).
  rewrite El. cbn [bind].
  set (whole := vn / vd) in *.
  assert (Hw : 0 <= whole) by (apply Z.div_pos; lia).
  assert (Hnum : 0 <= p - whole * q) by lia.
  destruct (frac_parts_read whole (p - whole * q) q Hw Hnum ltac:(lia)) as (w & a & b & Hr & Hb & Hval & Hden).
  pose proof (frac_parts_head whole (p - whole * q) q Hw Hnum ltac:(lia)) as Hh.
  set (body := frac_parts whole (p - whole * q) q) in *.
  assert (Hval' : (w * b + a) * q = p * b) by (rewrite Hval; ring).
  assert (Hz : str_eqb body [48%N] = true -> p = 0).
  { intros Eb. apply str_eqb_true in Eb. rewrite Eb in Hr. cbn in Hr. inversion Hr. subst. nia. }
  pose proof (limit_denominator_closest vn vd maxd p q Hvn Hvd Hmax El) as Hclose.
  exists p, q.
  destruct (is_neg d); cbn [andb].
  - destruct (str_eqb body [48%N]) eqn:Eb.
    + assert (Hp0 : p = 0) by (apply Hz; reflexivity).
      exists body, false, w, a, b. repeat split; try assumption; try reflexivity; try lia; try discriminate.
    + exists (c_min :: body), true, w, a, b. repeat split; try assumption; try reflexivity; try lia; try discriminate.
      apply readback_fraction_neg; assumption.
  - exists body, false, w, a, b. repeat split; try assumption; try reflexivity; try lia; try discriminate.
Qed.
