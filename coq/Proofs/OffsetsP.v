(* C06: the two encodings of a row's cell offsets - bytes (narrow) and 4-byte units (wide) - are read the same.
   Proved over the shared reader model TileCodec.split_row (get_storage_buffers_for_row). *)
From Coq Require Import ZArith NArith List Bool Lia.
From NP Require Import Model.PyBase Model.TileCodec.
Import ListNotations.
Ltac Zify.zify_post_hook ::= Z.to_euclidean_division_equations.
Open Scope Z_scope.

(* two offset tables that agree on every present cell and are both negative on every absent one *)
Definition same_off (a b : Z) : Prop := (a < 0 /\ b < 0) \/ a = b.

Lemma next_nonneg_ext : forall o1 o2, Forall2 same_off o1 o2 -> next_nonneg o1 = next_nonneg o2.
Proof.
  induction 1 as [|a b l1 l2 Hab Hl IH]; cbn [next_nonneg]; [reflexivity|].
  destruct Hab as [[Ha Hb]| ->].
  - destruct (Z.leb_spec 0 a); [lia|]. destruct (Z.leb_spec 0 b); [lia|]. exact IH.
  - now rewrite IH.
Qed.

Lemma split_from_ext : forall st o1 o2, Forall2 same_off o1 o2 -> forall n, split_from st o1 n = split_from st o2 n.
Proof.
  induction 1 as [|a b l1 l2 Hab Hr IH]; intros n; [now destruct n|].
  destruct n as [|n]; [reflexivity|]. cbn [split_from]. rewrite (next_nonneg_ext _ _ Hr), IH.
  destruct Hab as [[Ha Hb]| ->]; [|reflexivity].
  destruct (Z.ltb_spec a 0); [|lia]. destruct (Z.ltb_spec b 0); [|lia]. reflexivity.
Qed.

(* DESIGN statement: byte offsets that are -1 or multiples of 4 may be stored divided by 4 with the wide flag *)
Theorem offsets_narrow_wide_lemma : forall st offs n,
  Forall (fun o => o = -1 \/ (0 <= o /\ o mod 4 = 0)) offs ->
  split_row false st offs n = split_row true st (map (fun o => o / 4) offs) n.
Proof.
  intros st offs n H. unfold split_row. apply split_from_ext. rewrite map_map.
  induction H as [|o r Ho _ IH]; cbn [map]; constructor; [|exact IH].
  destruct Ho as [->|[H0 Hm]]; [left; split; reflexivity|right; lia].
Qed.

(* the rewriter's conversions keep the -1 marker *)
Definition to_wide (o : Z) : Z := if o <? 0 then -1 else o / 4.
Definition to_narrow (o : Z) : Z := if o <? 0 then -1 else o * 4.

Theorem offsets_to_wide_lemma : forall st offs n,
  Forall (fun o => o < 0 \/ o mod 4 = 0) offs ->
  split_row false st offs n = split_row true st (map to_wide offs) n.
Proof.
  intros st offs n H. unfold split_row. apply split_from_ext. rewrite map_map.
  induction H as [|o r Ho _ IH]; cbn [map]; constructor; [|exact IH].
  unfold to_wide. destruct (Z.ltb_spec o 0); [left; lia|right]. destruct Ho; lia.
Qed.

(* and every wide row has a narrow form (representable in 16 bits when 4 * o <= 32767) *)
Theorem offsets_to_narrow_lemma : forall st offs n,
  split_row true st offs n = split_row false st (map to_narrow offs) n.
Proof.
  intros st offs n. unfold split_row. apply split_from_ext.
  induction offs as [|o r IH]; cbn [map]; constructor; [|exact IH].
  unfold to_narrow. destruct (Z.ltb_spec o 0); [left; lia|now right].
Qed.

(* any negative marker means "no record" *)
Theorem negative_markers_equal_lemma : forall wide st offs n,
  split_row wide st offs n = split_row wide st (map (fun o => if o <? 0 then -1 else o) offs) n.
Proof.
  intros wide st offs n. unfold split_row. apply split_from_ext. destruct wide.
  - rewrite map_map. induction offs as [|o r IH]; cbn [map]; constructor; [|exact IH].
    destruct (Z.ltb_spec o 0); [left; lia|now right].
  - induction offs as [|o r IH]; cbn [map]; constructor; [|exact IH].
    destruct (Z.ltb_spec o 0); [left; lia|now right].
Qed.
