(* Lemmas about Model/Csv.v (C20): coercion decisions, grid bookkeeping, main's failure paths. *)
From Coq Require Import ZArith NArith List Bool Lia.
From NP Require Import Model.PyBase Model.Csv Proofs.NamesP Proofs.CsvReaderP.
Import ListNotations.
Open Scope N_scope.

(* ---------- generic helpers ---------- *)
Lemma mapM_total {A B} (f : A -> result B) (l : list A) :
  (forall x, In x l -> exists y, f x = Ok y) -> exists ys, mapM f l = Ok ys.
Proof.
  induction l as [|x l IH]; intros H; simpl; [eauto|].
  destruct (H x (or_introl eq_refl)) as [y Hy]. rewrite Hy. simpl.
  destruct IH as [ys Hys]; [intros z Hz; apply H; right; exact Hz|]. rewrite Hys. simpl. eauto.
Qed.

Lemma mapM_pure {A B} (f : A -> result B) (g : A -> B) (l : list A) :
  (forall x, In x l -> f x = Ok (g x)) -> mapM f l = Ok (map g l).
Proof.
  induction l as [|x l IH]; intros H; simpl; [reflexivity|].
  rewrite (H x (or_introl eq_refl)). simpl. rewrite IH; [reflexivity|].
  intros z Hz. apply H. right. exact Hz.
Qed.

Lemma mapM_map {A B C} (f : B -> result C) (g : A -> B) (l : list A) :
  mapM f (map g l) = mapM (fun x => f (g x)) l.
Proof. induction l as [|x l IH]; simpl; [reflexivity|]. rewrite IH. reflexivity. Qed.

Lemma mapM_ext {A B} (f g : A -> result B) (l : list A) :
  (forall x, In x l -> f x = g x) -> mapM f l = mapM g l.
Proof.
  induction l as [|x l IH]; intros H; simpl; [reflexivity|].
  rewrite (H x (or_introl eq_refl)), IH; [reflexivity|]. intros z Hz. apply H. right. exact Hz.
Qed.

Lemma mapM_app {A B} (f : A -> result B) (a b : list A) :
  mapM f (a ++ b) = bind (mapM f a) (fun x => bind (mapM f b) (fun y => Ok (x ++ y))).
Proof.
  induction a as [|x a IH]; simpl.
  - destruct (mapM f b); reflexivity.
  - destruct (f x) as [y|e]; simpl; [|reflexivity]. rewrite IH.
    destruct (mapM f a) as [ys|e]; simpl; [|reflexivity].
    destruct (mapM f b) as [zs|e]; reflexivity.
Qed.

(* ---------- dict(zip(keys, values)) with distinct keys ---------- *)
Lemma key_eqb_spec a b : key_eqb a b = true <-> a = b.
Proof.
  destruct a as [x|x], b as [y|y]; simpl.
  - rewrite str_eqb_spec. split; [intros ->; reflexivity | intros H; injection H; auto].
  - split; discriminate.
  - split; discriminate.
  - rewrite Nat.eqb_eq. split; [intros ->; reflexivity | intros H; injection H; auto].
Qed.

Lemma dict_set_fresh {V} (d : list (key * V)) k v :
  ~ In k (map fst d) -> dict_set d k v = d ++ [(k, v)].
Proof.
  induction d as [|[k' v'] d IH]; intros H; simpl; [reflexivity|].
  destruct (key_eqb k' k) eqn:He.
  - apply key_eqb_spec in He. subst. exfalso. apply H. left. reflexivity.
  - rewrite IH; [reflexivity|]. intros Hin. apply H. right. exact Hin.
Qed.

Lemma dict_fold_fresh {V} : forall (ks : list key) (vs : list V) (acc : list (key * V)),
  NoDup ks -> (forall k, In k ks -> ~ In k (map fst acc)) ->
  fold_left (fun d kv => dict_set d (fst kv) (snd kv)) (combine ks vs) acc = acc ++ combine ks vs.
Proof.
  induction ks as [|k ks IH]; intros vs acc Hnd Hdis; simpl.
  - rewrite app_nil_r. reflexivity.
  - destruct vs as [|v vs]; simpl; [rewrite app_nil_r; reflexivity|].
    rewrite dict_set_fresh by (apply Hdis; left; reflexivity).
    rewrite IH.
    + rewrite <- app_assoc. reflexivity.
    + eapply NoDup_cons_iff, Hnd.
    + intros k' Hk'. rewrite map_app, in_app_iff. simpl. intros [Hin | [Heq | []]].
      * exact (Hdis k' (or_intror Hk') Hin).
      * subst k'. apply NoDup_cons_iff in Hnd. tauto.
Qed.

Lemma dict_of_zip_nodup {V} (ks : list key) (vs : list V) :
  NoDup ks -> dict_of_zip ks vs = combine ks vs.
Proof.
  intros Hnd. unfold dict_of_zip. rewrite dict_fold_fresh; [reflexivity | exact Hnd | intros k _ []].
Qed.

Lemma map_snd_combine {A B} (a : list A) (b : list B) :
  length a = length b -> map snd (combine a b) = b.
Proof.
  revert b; induction a as [|x a IH]; intros [|y b] H; simpl in *; try discriminate; auto.
  f_equal. apply IH. lia.
Qed.

Lemma NoDup_map_KS h : NoDup h -> NoDup (map KS h).
Proof.
  intros H. apply FinFun.Injective_map_NoDup; [|exact H]. intros a b Hab. injection Hab. auto.
Qed.

Lemma NoDup_map_KI n : NoDup (map KI (seq 0 n)).
Proof.
  apply FinFun.Injective_map_NoDup; [|apply seq_NoDup]. intros a b Hab. injection Hab. auto.
Qed.

(* ---------- the 2 x 2 table that grows ---------- *)
Lemma fold_max_const nc : forall (l : list nat) a,
  Forall (fun x => x = nc) l -> (a <= nc)%nat -> l <> [] -> fold_left Nat.max l a = nc.
Proof.
  induction l as [|x l IH]; intros a Hl Ha Hne; [congruence|].
  simpl. pose proof (Forall_inv Hl) as Hx. simpl in Hx. subst x.
  destruct l as [|y l].
  - simpl. lia.
  - apply IH; [exact (Forall_inv_tail Hl) | lia | discriminate].
Qed.

Section CsvP.
Variable F : Type.
Variable pyfloat : str -> option (pyfloatval F).
Variable sig15 : F -> F.
Variable stored : F -> result F.
Variable frepr : F -> str.

Notation cellF := (cell F).
Notation coerce' := (coerce F pyfloat).
Notation store' := (store_cell F sig15 stored).
Notation show' := (cell_as_string F sig15 frepr).
Notation convert' := (convert F pyfloat sig15 stored).
Notation run_main' := (run_main F pyfloat sig15 stored).

(* one cell through csv2numbers, the document and cat-numbers *)
Definition cell_pipeline (finite_only ws : bool) (t : str) : result str :=
  do c <- coerce' finite_only ws t ; do c' <- store' c ; Ok (show' c').

Definition shown (ws : bool) (t : str) : str := if ws then normalize_ws t else t.

Lemma text_stays_text_lemma fo ws t :
  pyfloat (remove_commas t) = None -> cell_pipeline fo ws t = Ok (shown ws t).
Proof. intros H. unfold cell_pipeline, coerce. rewrite H. reflexivity. Qed.

Lemma special_stays_text_lemma ws t :
  pyfloat (remove_commas t) = Some Inf \/ pyfloat (remove_commas t) = Some NaN ->
  coerce' true ws t = Ok (CText (shown ws t)) /\ cell_pipeline true ws t = Ok (shown ws t).
Proof. intros [H | H]; unfold cell_pipeline, coerce; rewrite H; split; reflexivity. Qed.

Lemma special_pinned_lemma ws t :
  pyfloat (remove_commas t) = Some Inf \/ pyfloat (remove_commas t) = Some NaN ->
  coerce' false ws t = Err ValueError.
Proof. intros [H | H]; unfold coerce; rewrite H; reflexivity. Qed.

Section Numbers.
Variables d15 storable : F -> Prop.
Hypothesis repr_roundtrip : forall f, pyfloat (frepr f) = Some (Finite f).
Hypothesis sig15_id : forall f, d15 f -> sig15 f = f.
Hypothesis stored_exact : forall f, d15 f -> storable f -> stored f = Ok f.

Lemma number_equal_lemma fo ws t d :
  pyfloat (remove_commas t) = Some (Finite d) -> d15 d -> storable d ->
  exists s, cell_pipeline fo ws t = Ok s /\ pyfloat s = Some (Finite d).
Proof.
  intros H Hd Hs. unfold cell_pipeline, coerce. rewrite H. cbn [bind store_cell].
  rewrite (sig15_id d Hd), (stored_exact d Hd Hs). cbn [bind cell_as_string].
  rewrite (sig15_id d Hd). eauto.
Qed.
End Numbers.

(* ---------- grid bookkeeping ---------- *)
Definition coerce_v (ws : bool) (v : str) : cellF :=
  match pyfloat (remove_commas v) with
  | Some (Finite f) => CNum f
  | _ => CText (shown ws v)
  end.

Lemma coerce_total ws v : coerce' true ws v = Ok (coerce_v ws v).
Proof.
  unfold coerce, coerce_v, shown. destruct (pyfloat (remove_commas v)) as [[f| |]|]; reflexivity.
Qed.

Definition cellwise (fl : flags) (v : str) : result cellF :=
  do c <- coerce' (finite_only fl) (whitespace fl) v ; store' c.
Definition maybe_rev {A} (b : bool) (l : list A) : list A := if b then rev l else l.

(* the grid the property asks for: header as text, then every data cell on its own, in file
   order or reversed *)
Definition expected (fl : flags) (rows : list (list str)) : result (list (list cellF)) :=
  if no_header fl then mapM (mapM (cellwise fl)) (maybe_rev (reverse fl) rows)
  else match rows with
       | [] => Err (OtherCrash 1)
       | h :: data =>
         do body <- mapM (mapM (cellwise fl)) (maybe_rev (reverse fl) data) ;
         Ok (map CText h :: body)
       end.

Lemma table_of_id (grid : list (list cellF)) nc :
  Forall (fun r => length r = nc) grid -> (2 <= nc)%nat -> (2 <= length grid)%nat ->
  table_of F grid = grid.
Proof.
  intros Hrect Hnc Hnr. unfold table_of.
  assert (Hm : fold_left Nat.max (map (@length cellF) grid) 2%nat = nc).
  { apply fold_max_const; [|exact Hnc|destruct grid; simpl in *; [lia|discriminate]].
    apply Forall_forall. intros x Hx. apply in_map_iff in Hx. destruct Hx as [r [<- Hr]].
    rewrite Forall_forall in Hrect. apply Hrect, Hr. }
  rewrite Hm. replace (2 - length grid)%nat with 0%nat by lia. simpl repeat. rewrite app_nil_r.
  rewrite <- (map_id grid) at 2. apply map_ext_in. intros r Hr.
  rewrite Forall_forall in Hrect. unfold pad_row. rewrite (Hrect r Hr), Nat.sub_diag. simpl. apply app_nil_r.
Qed.

Lemma store_text_row (h : list str) : mapM store' (map CText h) = Ok (map CText h).
Proof.
  rewrite mapM_map. rewrite (mapM_pure _ (fun s => CText s)); [reflexivity|]. intros x _. reflexivity.
Qed.

Lemma transform_rect (fl : flags) (header : option (list str)) (data : list (list str)) nc :
  finite_only fl = true ->
  Forall (fun r => length r = nc) data ->
  match header with Some h => NoDup h /\ length h = nc | None => data <> [] end ->
  transform F pyfloat fl header data
  = Ok (map (map (coerce_v (whitespace fl))) (maybe_rev (reverse fl) data)).
Proof.
  intros Hfo Hrect Hh. unfold transform.
  assert (Hkeys : exists keys, NoDup keys /\ length keys = nc /\
            match header with
            | Some h => Ok (map KS h)
            | None => match data with [] => Err PopEmpty | r0 :: _ => Ok (map KI (seq 0 (length r0))) end
            end = Ok keys).
  { destruct header as [h|].
    - destruct Hh as [Hnd Hlen]. exists (map KS h). rewrite map_length. auto using NoDup_map_KS.
    - destruct data as [|r0 data]; [congruence|]. exists (map KI (seq 0 (length r0))).
      rewrite map_length, seq_length. pose proof (Forall_inv Hrect) as H0. simpl in H0.
      auto using NoDup_map_KI. }
  destruct Hkeys as (keys & Hnd & Hlen & ->). cbn [bind].
  assert (Hd : map (dict_of_zip keys) data = map (combine keys) data).
  { apply map_ext. intros r. apply dict_of_zip_nodup, Hnd. }
  rewrite Hd.
  assert (Hrev : (if reverse fl then rev (map (combine keys) data) else map (combine keys) data)
                 = map (combine keys) (maybe_rev (reverse fl) data)).
  { unfold maybe_rev. destruct (reverse fl); [rewrite map_rev|]; reflexivity. }
  rewrite Hrev, mapM_map.
  assert (Hrect' : Forall (fun r => length r = nc) (maybe_rev (reverse fl) data)).
  { unfold maybe_rev. destruct (reverse fl); [|exact Hrect].
    apply Forall_forall. intros r Hr. apply in_rev in Hr. rewrite Forall_forall in Hrect. auto. }
  apply mapM_pure. intros r Hr. rewrite Hfo.
  rewrite (mapM_pure _ (fun kv => coerce_v (whitespace fl) (snd kv))) by (intros; apply coerce_total).
  rewrite <- map_map, map_snd_combine; [reflexivity|].
  rewrite Forall_forall in Hrect'. rewrite (Hrect' r Hr). exact Hlen.
Qed.

Lemma store_body (fl : flags) (X : list (list str)) :
  finite_only fl = true ->
  mapM (mapM store') (map (map (coerce_v (whitespace fl))) X) = mapM (mapM (cellwise fl)) X.
Proof.
  intros Hfo. rewrite mapM_map. apply mapM_ext. intros r _. rewrite mapM_map. apply mapM_ext.
  intros v _. unfold cellwise. rewrite Hfo, coerce_total. reflexivity.
Qed.

Lemma maybe_rev_length {A} b (l : list A) : length (maybe_rev b l) = length l.
Proof. destruct b; simpl; [apply rev_length | reflexivity]. Qed.

Lemma grid_shape_lemma (fl : flags) (rows : list (list str)) (nc : nat) :
  finite_only fl = true ->
  Forall (fun r => length r = nc) rows -> (2 <= nc)%nat -> (2 <= length rows)%nat ->
  (no_header fl = false -> NoDup (hd [] rows)) ->
  convert' fl rows = expected fl rows.
Proof.
  intros Hfo Hrect Hnc Hnr Hnd. unfold convert, expected, split_header.
  assert (Hrect_rev : forall X, Forall (fun r : list str => length r = nc) X ->
            Forall (fun r : list cellF => length r = nc)
                   (map (map (coerce_v (whitespace fl))) (maybe_rev (reverse fl) X))).
  { intros X HX. apply Forall_forall. intros r Hr. apply in_map_iff in Hr. destruct Hr as [r0 [<- Hr0]].
    cbv beta. rewrite map_length. rewrite Forall_forall in HX. apply HX.
    unfold maybe_rev in Hr0. destruct (reverse fl); [apply in_rev|]; exact Hr0. }
  destruct (no_header fl) eqn:Hnh.
  - cbn [bind]. rewrite (transform_rect fl None rows nc Hfo Hrect).
    2:{ destruct rows; simpl in Hnr; [lia | discriminate]. }
    cbn [bind app]. rewrite (table_of_id _ nc).
    + apply store_body, Hfo.
    + apply Hrect_rev, Hrect.
    + exact Hnc.
    + rewrite map_length, maybe_rev_length. exact Hnr.
  - destruct rows as [|h data]; [reflexivity|]. cbn [bind].
    pose proof (Forall_inv Hrect) as Hh. simpl in Hh. pose proof (Forall_inv_tail Hrect) as Hdata.
    rewrite (transform_rect fl (Some h) data nc Hfo Hdata) by (split; [apply Hnd; reflexivity | exact Hh]).
    cbn [bind app]. rewrite (table_of_id _ nc).
    + cbn [mapM]. rewrite store_text_row. cbn [bind]. rewrite (store_body fl _ Hfo). reflexivity.
    + constructor; [rewrite map_length; exact Hh | apply Hrect_rev, Hdata].
    + exact Hnc.
    + simpl. rewrite map_length, maybe_rev_length. simpl in Hnr. lia.
Qed.

(* csv text in, csv text out, read again: the grid the property asks for *)
Lemma roundtrip_grid_lemma (fl : flags) (rows : list (list str)) (nc : nat) (strict : bool) t :
  finite_only fl = true ->
  Forall (fun r => length r = nc) rows -> (2 <= nc)%nat -> (2 <= length rows)%nat ->
  (no_header fl = false -> NoDup (hd [] rows)) ->
  expected fl rows = Ok t ->
  bind (roundtrip_text F pyfloat sig15 stored frepr fl (write_excel rows)) (read_excel strict)
  = Ok (export F sig15 frepr t).
Proof.
  intros Hfo Hrect Hnc Hnr Hnd Ht. unfold roundtrip_text.
  rewrite csv_quote_roundtrip_lemma. cbn [bind].
  rewrite (grid_shape_lemma fl rows nc Hfo Hrect Hnc Hnr Hnd), Ht. cbn [bind].
  apply csv_quote_roundtrip_lemma.
Qed.

(* ---------- main ---------- *)
Lemma convert_total (fl : flags) (rows : list (list str)) :
  finite_only fl = true -> (forall f, exists g, stored f = Ok g) -> rows <> [] ->
  exists t, convert' fl rows = Ok t.
Proof.
  intros Hfo Hst Hne. unfold convert.
  assert (Hsplit : exists header data, split_header fl rows = Ok (header, data) /\
            match header with Some _ => True | None => data <> [] end).
  { unfold split_header. destruct (no_header fl).
    - exists None, rows. auto.
    - destruct rows as [|h data]; [congruence|]. exists (Some h), data. auto. }
  destruct Hsplit as (header & data & -> & Hh). cbn [bind].
  assert (Htr : exists body, transform F pyfloat fl header data = Ok body).
  { unfold transform.
    assert (Hk : exists keys, match header with
            | Some h => Ok (map KS h)
            | None => match data with [] => Err PopEmpty | r0 :: _ => Ok (map KI (seq 0 (length r0))) end
            end = Ok keys).
    { destruct header; [eauto|]. destruct data; [congruence|eauto]. }
    destruct Hk as [keys ->]. cbn [bind].
    apply mapM_total. intros d _. apply mapM_total. intros kv _. rewrite Hfo, coerce_total. eauto. }
  destruct Htr as [body ->]. cbn [bind].
  apply mapM_total. intros r _. apply mapM_total. intros c _.
  destruct c as [s|f|]; simpl; eauto. destruct (Hst (sig15 f)) as [g ->]. simpl. eauto.
Qed.

Lemma errors_reported_lemma (fl : flags) (file : csv_file) :
  finite_only fl = true -> (forall f, exists g, stored f = Ok g) ->
  (forall s, file = Text s -> read_excel true s <> Ok []) ->
  run_main' fl file = Exit0 \/ run_main' fl file = Reported.
Proof.
  intros Hfo Hst Hne. destruct file as [|s]; simpl; [right; reflexivity|].
  destruct (read_excel true s) as [rows|e] eqn:Hr; [|right; reflexivity].
  destruct (convert_total fl rows Hfo Hst) as [t Ht].
  - intros ->. exact (Hne s eq_refl Hr).
  - rewrite Ht. left. reflexivity.
Qed.

End CsvP.

(* ---------- witnesses for the refuted statements (concrete instances of the externals) ---------- *)
Definition w_float_none : str -> option (pyfloatval unit) := fun _ => None.
Definition w_float_nan : str -> option (pyfloatval unit) := fun _ => Some NaN.
Definition w_float_one : str -> option (pyfloatval unit) := fun _ => Some (Finite tt).
Definition w_id (x : unit) : unit := x.
Definition w_store_ok (x : unit) : result unit := Ok x.
Definition w_store_fail (x : unit) : result unit := Err (OtherCrash 3).
Definition w_repr (x : unit) : str := [49].
Definition fl_default : flags := mkFlags false false false true.
Definition fl_pinned : flags := mkFlags false false false false.

(* a 1 x 1 grid comes back as 2 x 2 *)
Lemma small_grid_padded_witness :
  convert unit w_float_none w_id w_store_ok fl_default [[[120]]]
  = Ok [[CText [120]; CEmpty]; [CEmpty; CEmpty]].
Proof. reflexivity. Qed.

(* header a,a,b with row 1,2,3: the value under the first "a" is lost, the others move left *)
Lemma duplicate_header_witness :
  convert unit w_float_none w_id w_store_ok fl_default [[[97]; [97]; [98]]; [[49]; [50]; [51]]]
  = Ok [[CText [97]; CText [97]; CText [98]]; [CText [50]; CText [51]; CEmpty]].
Proof. reflexivity. Qed.

(* a number the document cannot store crashes main *)
Lemma store_failure_witness :
  run_main unit w_float_one w_id w_store_fail fl_default (Text [97; 13; 10; 49; 13; 10])
  = Crashed (OtherCrash 3).
Proof. reflexivity. Qed.

(* pinned coercion: a nan cell crashes main *)
Lemma pinned_special_witness :
  run_main unit w_float_nan w_id w_store_ok fl_pinned (Text [97; 13; 10; 110; 97; 110; 13; 10])
  = Crashed ValueError
  /\ run_main unit w_float_nan w_id w_store_ok fl_default (Text [97; 13; 10; 110; 97; 110; 13; 10]) = Exit0.
Proof. split; reflexivity. Qed.

(* outside the quantifier: an empty file *)
Lemma empty_file_witness :
  run_main unit w_float_none w_id w_store_ok fl_default (Text []) = Crashed (OtherCrash 1)
  /\ run_main unit w_float_none w_id w_store_ok (mkFlags true false false true) (Text []) = Crashed PopEmpty.
Proof. split; reflexivity. Qed.
