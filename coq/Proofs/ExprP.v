(* The token-level parser inverts the reference printer on well-formed trees,
   for ANY precedence function (instantiated with the regenerated table in
   Props/C08.v).  Promoted from spikes/expr_full/ExprProof.v. *)
From Coq Require Import ZArith NArith List Arith Lia Bool.
From NP Require Import Model.PyBase Model.FormulaStack Model.Expr.
Import ListNotations.
Open Scope nat_scope.

(* ---------- an induction principle that reaches through the nested lists ---------- *)
Section expr_ind2.
Variable P : expr -> Prop.
Hypothesis Hatom : forall a, P (EAtom a).
Hypothesis Hbin : forall o l r, P l -> P r -> P (EBin o l r).
Hypothesis Hneg : forall e, P e -> P (ENeg e).
Hypothesis Hpct : forall e, P e -> P (EPct e).
Hypothesis Hparen : forall es, Forall P es -> P (EParen es).
Hypothesis Hfun : forall f args, Forall (fun a => match a with Some e => P e | None => True end) args -> P (EFun f args).
Hypothesis Harr : forall rows, Forall (Forall P) rows -> P (EArr rows).

Fixpoint expr_ind2 (e : expr) : P e :=
  match e with
  | EAtom a => Hatom a
  | EBin o l r => Hbin o l r (expr_ind2 l) (expr_ind2 r)
  | ENeg e => Hneg e (expr_ind2 e)
  | EPct e => Hpct e (expr_ind2 e)
  | EParen es => Hparen es ((fix go (l : list expr) : Forall P l :=
        match l with [] => Forall_nil _ | x :: r => Forall_cons x (expr_ind2 x) (go r) end) es)
  | EFun f args => Hfun f args ((fix go (l : list (option expr)) : Forall (fun a => match a with Some e => P e | None => True end) l :=
        match l with
        | [] => Forall_nil _
        | Some x :: r => Forall_cons (Some x) (expr_ind2 x) (go r)
        | None :: r => Forall_cons None I (go r)
        end) args)
  | EArr rows => Harr rows ((fix gor (l : list (list expr)) : Forall (Forall P) l :=
        match l with
        | [] => Forall_nil _
        | row :: r => Forall_cons row ((fix go (l : list expr) : Forall P l :=
              match l with [] => Forall_nil _ | x :: r => Forall_cons x (expr_ind2 x) (go r) end) row) (gor r)
        end) rows)
  end.
End expr_ind2.

Section P.
Variable prec : binop -> nat.
Notation parse_ex := (parse_ex prec). Notation parse_un := (parse_un prec).
Notation loop := (loop prec). Notation parse_items := (parse_items prec).
Notation parse_args := (parse_args prec). Notation parse_rows := (parse_rows prec).
Notation wf := (wf prec). Notation lvl_ge := (lvl_ge prec). Notation lvl_gt := (lvl_gt prec).

(* one-step unfoldings *)
Lemma parse_ex_S f minp ts : parse_ex (S f) minp ts =
  match parse_un f ts with Some (lhs, r) => loop f minp lhs r | None => None end.
Proof. reflexivity. Qed.
Lemma parse_un_S f ts : parse_un (S f) ts =
    match ts with
    | TOp o :: r => if binop_eqb o Sub then
                      match parse_un f r with Some (e, r') => Some (ENeg e, r') | None => None end
                    else None
    | TAtom a :: r => Some (pct_loop (EAtom a) r)
    | TL :: r => match parse_items f r with
                 | Some (es, TR :: r') => Some (pct_loop (EParen es) r')
                 | _ => None end
    | TFun g :: TR :: r => Some (pct_loop (EFun g []) r)
    | TFun g :: r => match parse_args f r with
                     | Some (args, r') => Some (pct_loop (EFun g args) r')
                     | None => None end
    | TLB :: r => match parse_rows f r with
                  | Some (rows, r') => Some (pct_loop (EArr rows) r')
                  | None => None end
    | _ => None
    end.
Proof. reflexivity. Qed.
Lemma loop_S f minp lhs ts : loop (S f) minp lhs ts =
    match ts with
    | TOp o :: r =>
        if minp <=? prec o then
          match parse_ex f (S (prec o)) r with
          | Some (rhs, r') => loop f minp (EBin o lhs rhs) r'
          | None => None end
        else Some (lhs, ts)
    | _ => Some (lhs, ts)
    end.
Proof. reflexivity. Qed.
Lemma parse_items_S f ts : parse_items (S f) ts =
    match parse_ex f 0 ts with
    | Some (e, TComma :: r) =>
        match parse_items f r with Some (es, r') => Some (e :: es, r') | None => None end
    | Some (e, r) => Some ([e], r)
    | None => None end.
Proof. reflexivity. Qed.
Lemma parse_args_S f ts : parse_args (S f) ts =
    match ts with
    | TR :: r => Some ([None], r)
    | TComma :: r => match parse_args f r with Some (as_, r') => Some (None :: as_, r') | None => None end
    | _ => match parse_ex f 0 ts with
           | Some (e, TR :: r) => Some ([Some e], r)
           | Some (e, TComma :: r) => match parse_args f r with Some (as_, r') => Some (Some e :: as_, r') | None => None end
           | _ => None end
    end.
Proof. reflexivity. Qed.
Lemma parse_rows_S f ts : parse_rows (S f) ts =
    match parse_items f ts with
    | Some (row, TRB :: r) => Some ([row], r)
    | Some (row, TSemi :: r) => match parse_rows f r with Some (rows, r') => Some (row :: rows, r') | None => None end
    | _ => None end.
Proof. reflexivity. Qed.

Definition mono_at (f:nat) : Prop :=
  (forall minp ts x, parse_ex f minp ts = Some x -> parse_ex (S f) minp ts = Some x) /\
  (forall ts x, parse_un f ts = Some x -> parse_un (S f) ts = Some x) /\
  (forall minp lhs ts x, loop f minp lhs ts = Some x -> loop (S f) minp lhs ts = Some x) /\
  (forall ts x, parse_items f ts = Some x -> parse_items (S f) ts = Some x) /\
  (forall ts x, parse_args f ts = Some x -> parse_args (S f) ts = Some x) /\
  (forall ts x, parse_rows f ts = Some x -> parse_rows (S f) ts = Some x).

Lemma mono : forall f, mono_at f.
Proof.
  induction f as [|f (Iex & Iun & Ilo & Iit & Iar & Iro)]; unfold mono_at.
  { repeat split; intros; discriminate. }
  repeat split.
  - intros minp ts x H. rewrite parse_ex_S in H. rewrite parse_ex_S.
    destruct (parse_un f ts) as [[lhs r]|] eqn:E; [|discriminate].
    rewrite (Iun _ _ E). auto.
  - intros ts x H. rewrite parse_un_S in H. rewrite parse_un_S.
    destruct ts as [|[a|o| |g| | | | | |] r]; try discriminate; auto.
    + destruct (binop_eqb o Sub); [|discriminate].
      destruct (parse_un f r) as [[e r']|] eqn:E; [|discriminate]. rewrite (Iun _ _ E). auto.
    + destruct r as [|[a|o| |g'| | | | | |] r2]; auto;
        try (destruct (parse_args f _) as [[args r']|] eqn:E; [|discriminate]; rewrite (Iar _ _ E); auto).
    + destruct (parse_items f r) as [[es [|[a|o| |g'| | | | | |] r']]|] eqn:E; try discriminate.
      rewrite (Iit _ _ E). auto.
    + destruct (parse_rows f r) as [[rows r']|] eqn:E; [|discriminate]. rewrite (Iro _ _ E). auto.
  - intros minp lhs ts x H. rewrite loop_S in H. rewrite loop_S.
    destruct ts as [|[a|o| |g| | | | | |] r]; auto.
    destruct (minp <=? prec o); auto.
    destruct (parse_ex f (S (prec o)) r) as [[rhs r']|] eqn:E; [|discriminate].
    rewrite (Iex _ _ _ E). auto.
  - intros ts x H. rewrite parse_items_S in H. rewrite parse_items_S.
    destruct (parse_ex f 0 ts) as [[e r]|] eqn:E; [|discriminate]. rewrite (Iex _ _ _ E).
    destruct r as [|[a|o| |g| | | | | |] r2]; auto.
    destruct (parse_items f r2) as [[es r']|] eqn:E2; [|discriminate]. rewrite (Iit _ _ E2). auto.
  - intros ts x H. rewrite parse_args_S in H. rewrite parse_args_S.
    destruct ts as [|[a|o| |g| | | | | |] r]; auto;
    try (destruct (parse_ex f 0 _) as [[e r1]|] eqn:E; [|discriminate]; rewrite (Iex _ _ _ E);
         destruct r1 as [|[a1|o1| |g1| | | | | |] r2]; auto;
         destruct (parse_args f r2) as [[as_ r']|] eqn:E2; [|discriminate]; rewrite (Iar _ _ E2); auto).
    destruct (parse_args f r) as [[as_ r']|] eqn:E2; [|discriminate]. rewrite (Iar _ _ E2). auto.
  - intros ts x H. rewrite parse_rows_S in H. rewrite parse_rows_S.
    destruct (parse_items f ts) as [[row r]|] eqn:E; [|discriminate]. rewrite (Iit _ _ E).
    destruct r as [|[a|o| |g| | | | | |] r2]; auto.
    destruct (parse_rows f r2) as [[rows r']|] eqn:E2; [|discriminate]. rewrite (Iro _ _ E2). auto.
Qed.

Lemma ex_mono f g minp ts x : f <= g -> parse_ex f minp ts = Some x -> parse_ex g minp ts = Some x.
Proof. induction 1; auto. intros. apply mono. auto. Qed.
Lemma un_mono f g ts x : f <= g -> parse_un f ts = Some x -> parse_un g ts = Some x.
Proof. induction 1; auto. intros. apply mono. auto. Qed.
Lemma loop_mono f g minp lhs ts x : f <= g -> loop f minp lhs ts = Some x -> loop g minp lhs ts = Some x.
Proof. induction 1; auto. intros. apply mono. auto. Qed.
Lemma items_mono f g ts x : f <= g -> parse_items f ts = Some x -> parse_items g ts = Some x.
Proof. induction 1; auto. intros. apply mono. auto. Qed.
Lemma args_mono f g ts x : f <= g -> parse_args f ts = Some x -> parse_args g ts = Some x.
Proof. induction 1; auto. intros. apply mono. auto. Qed.
Lemma rows_mono f g ts x : f <= g -> parse_rows f ts = Some x -> parse_rows g ts = Some x.
Proof. induction 1; auto. intros. apply mono. auto. Qed.

Definition stops (minp:nat) (rest:list tok) : Prop :=
  match rest with TOp o :: _ => prec o < minp | TPct :: _ => False | _ => True end.
Definition closer (Y:list tok) : Prop :=
  match Y with TR :: _ | TSemi :: _ | TRB :: _ => True | _ => False end.
Definition no_pct (rest:list tok) : Prop := match rest with TPct :: _ => False | _ => True end.

(* what the induction hypothesis gives for a sub-expression *)
Definition good (e:expr) : Prop :=
  forall minp rest, stops minp rest -> lvl_ge e minp -> exists f, parse_ex f minp (show e ++ rest) = Some (e, rest).

Definition showo (a:option expr) : list tok := match a with Some e => show e | None => [] end.

(* the first token of a rendered expression never closes or separates *)
Definition opener (ts:list tok) : Prop :=
  match ts with TAtom _ :: _ | TOp _ :: _ | TFun _ :: _ | TL :: _ | TLB :: _ => True | _ => False end.
Lemma show_opener e : forall X, opener (show e ++ X).
Proof. induction e; intros X; cbn; auto.
  - rewrite <- app_assoc. apply IHe1.
  - rewrite <- app_assoc. apply IHe.
Qed.

Lemma closer_stops Y : closer Y -> stops 0 Y.
Proof. destruct Y as [|[] ?]; cbn; tauto. Qed.

(* ---------- postfix % ---------- *)
Lemma pct_loop_nopct e rest : no_pct rest -> pct_loop e rest = (e, rest).
Proof. destruct rest as [|[] ?]; cbn; tauto. Qed.

Lemma postfix_decompose e : postfix_lvl e -> wf e ->
  exists p k, primary p /\ wf p /\ size p <= size e /\ e = Nat.iter k EPct p /\ show e = show p ++ repeat TPct k.
Proof.
  induction e; intros Hp Hw; try destruct Hp;
    try (match goal with |- exists p k, _ /\ _ /\ _ /\ ?e = _ /\ _ =>
           exists e, 0; split; [exact I|split; [assumption|split; [apply le_n|split; [reflexivity|cbn [repeat]; now rewrite app_nil_r]]]] end).
  destruct Hw as [Hw Hl]. destruct (IHe Hl Hw) as (p & k & A & B & C & D & E).
  exists p, (S k). cbn. repeat split; auto; try lia.
  - now subst e.
  - rewrite E. rewrite <- app_assoc. f_equal. change (TPct :: repeat TPct k) with (repeat TPct (S k)).
    now rewrite <- repeat_cons.
Qed.

Lemma iter_pct_r k p : Nat.iter k EPct (EPct p) = EPct (Nat.iter k EPct p).
Proof. induction k; [reflexivity|]. change (EPct (Nat.iter k EPct (EPct p)) = EPct (EPct (Nat.iter k EPct p))). now rewrite IHk. Qed.

Lemma pct_loop_repeat k p rest : no_pct rest -> pct_loop p (repeat TPct k ++ rest) = (Nat.iter k EPct p, rest).
Proof.
  revert p. induction k; intros p H; cbn [repeat app].
  - now apply pct_loop_nopct.
  - cbn [pct_loop]. rewrite IHk by auto. change (Nat.iter (S k) EPct p) with (EPct (Nat.iter k EPct p)). now rewrite iter_pct_r.
Qed.

Lemma sep_by_one {A} s (f:A -> list tok) x : sep_by s f [x] = f x.
Proof. reflexivity. Qed.
Lemma sep_by_cons2 {A} s (f:A -> list tok) x y r : sep_by s f (x :: y :: r) = f x ++ s :: sep_by s f (y :: r).
Proof. reflexivity. Qed.

Lemma good0 e Y : good e -> stops 0 Y -> exists f, parse_ex f 0 (show e ++ Y) = Some (e, Y).
Proof. intros G H. apply G; auto. destruct e; cbn; auto; lia. Qed.

Lemma items_ok es : es <> [] -> Forall good es -> forall Y, closer Y ->
  exists f, parse_items f (sep_by TComma show es ++ Y) = Some (es, Y).
Proof.
  induction es as [|e es IH]; intros Hne Hg Y Hc; [congruence|].
  inversion Hg as [|? ? Ge Gs]; subst.
  destruct es as [|e2 r].
  - rewrite sep_by_one. destruct (good0 e Y Ge (closer_stops _ Hc)) as [f Hf].
    exists (S f). rewrite parse_items_S, Hf. destruct Y as [|[] ?]; cbn in Hc; tauto.
  - rewrite sep_by_cons2, <- app_assoc. cbn [app].
    destruct (good0 e (TComma :: sep_by TComma show (e2 :: r) ++ Y) Ge I) as [f1 Hf1].
    destruct (IH ltac:(congruence) Gs Y Hc) as [f2 Hf2].
    exists (S (max f1 f2)). rewrite parse_items_S.
    rewrite (ex_mono _ _ _ _ _ (Nat.le_max_l f1 f2) Hf1).
    rewrite (items_mono _ _ _ _ (Nat.le_max_r f1 f2) Hf2). reflexivity.
Qed.

Definition goodo (a:option expr) : Prop := match a with Some e => good e | None => True end.

Lemma args_ok args : args <> [] -> Forall goodo args -> forall X,
  exists f, parse_args f (sep_by TComma showo args ++ TR :: X) = Some (args, X).
Proof.
  induction args as [|a args IH]; intros Hne Hg X; [congruence|].
  inversion Hg as [|? ? Ga Gs]; subst.
  destruct args as [|a2 r].
  - rewrite sep_by_one. destruct a as [e|]; cbn [showo].
    + destruct (good0 e (TR :: X) Ga I) as [f Hf].
      exists (S f). rewrite parse_args_S, Hf.
      pose proof (show_opener e (TR :: X)) as Ho.
      destruct (show e ++ TR :: X) as [|[] ?]; cbn in Ho; tauto.
    + exists 1. reflexivity.
  - rewrite sep_by_cons2, <- app_assoc. cbn [app].
    destruct (IH ltac:(congruence) Gs X) as [f2 Hf2].
    destruct a as [e|]; cbn [showo].
    + destruct (good0 e (TComma :: sep_by TComma showo (a2 :: r) ++ TR :: X) Ga I) as [f1 Hf1].
      exists (S (max f1 f2)). rewrite parse_args_S.
      rewrite (ex_mono _ _ _ _ _ (Nat.le_max_l f1 f2) Hf1).
      rewrite (args_mono _ _ _ _ (Nat.le_max_r f1 f2) Hf2).
      pose proof (show_opener e (TComma :: sep_by TComma showo (a2 :: r) ++ TR :: X)) as Ho.
      destruct (show e ++ _) as [|[] ?]; cbn in Ho; tauto.
    + exists (S f2). cbn [app]. rewrite parse_args_S, Hf2. reflexivity.
Qed.

Definition show_row (row:list expr) : list tok := sep_by TComma show row.
Lemma rows_ok rows : rows <> [] -> Forall (fun row => row <> [] /\ Forall good row) rows -> forall X,
  exists f, parse_rows f (sep_by TSemi show_row rows ++ TRB :: X) = Some (rows, X).
Proof.
  induction rows as [|row rows IH]; intros Hne Hg X; [congruence|].
  inversion Hg as [|? ? [Rne Rg] Gs]; subst.
  destruct rows as [|row2 r].
  - rewrite sep_by_one. destruct (items_ok row Rne Rg (TRB :: X) I) as [f Hf].
    exists (S f). rewrite parse_rows_S. unfold show_row. rewrite Hf. reflexivity.
  - rewrite sep_by_cons2, <- app_assoc. cbn [app].
    destruct (items_ok row Rne Rg (TSemi :: sep_by TSemi show_row (row2 :: r) ++ TRB :: X) I) as [f1 Hf1].
    destruct (IH ltac:(congruence) Gs X) as [f2 Hf2].
    exists (S (max f1 f2)). rewrite parse_rows_S. unfold show_row at 1.
    rewrite (items_mono _ _ _ _ (Nat.le_max_l f1 f2) Hf1).
    rewrite (rows_mono _ _ _ _ (Nat.le_max_r f1 f2) Hf2). reflexivity.
Qed.

(* ---------- structural facts about size and wf of the nested lists ---------- *)
Lemma size_pos e : 0 < size e. Proof. destruct e; cbn; lia. Qed.

Lemma sum_in row x : In x row -> size x <= fold_right (fun e m => size e + m) 0 row.
Proof. induction row as [|y row IH]; intros []; subst; cbn [fold_right]; [lia|]. specialize (IH H). lia. Qed.
Lemma size_in_paren es x : In x es -> size x < size (EParen es).
Proof. intros H. apply sum_in in H. cbn [size]. lia. Qed.
Lemma size_in_fun g args x : In (Some x) args -> size x < size (EFun g args).
Proof. cbn [size]. induction args as [|y args IH]; intros []; subst; cbn [fold_right]; [lia|]. specialize (IH H). destruct y; lia. Qed.
Lemma size_in_arr rows row x : In row rows -> In x row -> size x < size (EArr rows).
Proof. cbn [size]. induction rows as [|r rows IH]; intros [] Hx; subst; cbn [fold_right].
  - apply sum_in in Hx. lia.
  - specialize (IH H Hx). lia. Qed.

Lemma wf_paren es : wf (EParen es) -> es <> [] /\ Forall wf es.
Proof. cbn [wf]. intros [A B]. split; auto. clear A. induction es; constructor; cbn in B; tauto. Qed.
Lemma wf_fun g args : wf (EFun g args) -> args <> [None] /\ Forall (fun a => match a with Some e => wf e | None => True end) args.
Proof. cbn [wf]. intros [A B]. split; auto. clear A. induction args as [|[e|] args IH]; constructor; cbn in B; tauto. Qed.
Lemma wf_arr rows : wf (EArr rows) -> rows <> [] /\ Forall (fun row => row <> [] /\ Forall wf row) rows.
Proof. cbn [wf]. intros [A B]. split; auto. clear A. induction rows as [|row rows IH]; constructor.
  - destruct B as [[B1 B2] _]. split; auto. clear B1. induction row; constructor; cbn in B2; tauto.
  - apply IH. tauto. Qed.

(* ---------- primaries and the unary level ---------- *)
Lemma primary_ok p : primary p -> wf p -> (forall e', size e' < size p -> wf e' -> good e') ->
  forall X, exists f, parse_un f (show p ++ X) = Some (pct_loop p X).
Proof.
  intros Hp Hw Hsub X. destruct p as [a|o l r|e|e|es|g args|rows]; try destruct Hp.
  - exists 1. reflexivity.
  - destruct (wf_paren es Hw) as [Hne Hall].
    assert (Hg : Forall good es).
    { rewrite Forall_forall in *. intros x Hx. apply Hsub; auto using size_in_paren. }
    destruct (items_ok es Hne Hg (TR :: X) I) as [f Hf].
    exists (S f). cbn [show app]. rewrite <- app_assoc. cbn [app]. rewrite parse_un_S, Hf. reflexivity.
  - destruct (wf_fun g args Hw) as [Hne Hall].
    destruct args as [|a0 args0] eqn:Ea.
    + exists 1. reflexivity.
    + rewrite <- Ea in *. assert (Hg : Forall goodo args).
      { rewrite Forall_forall in *. intros [x|] Hx; cbn; auto. apply Hsub; auto using size_in_fun. apply (Hall (Some x) Hx). }
      destruct (args_ok args ltac:(subst; congruence) Hg X) as [f Hf].
      exists (S f). cbn [show app]. rewrite <- app_assoc. cbn [app].
      change (fun a => match a with Some e => show e | None => [] end) with showo.
      rewrite parse_un_S.
      (* the token after TFun is not TR unless args = [None] *)
      destruct (sep_by TComma showo args ++ TR :: X) as [|t ts] eqn:Et.
      { destruct (sep_by TComma showo args); discriminate. }
      assert (Hnt : t <> TR).
      { intros ->. subst args. destruct a0 as [e0|].
        - destruct args0 as [|a1 r1].
          + rewrite sep_by_one in Et. cbn [showo] in Et. pose proof (show_opener e0 (TR :: X)) as Ho. rewrite Et in Ho. exact Ho.
          + rewrite sep_by_cons2, <- app_assoc in Et. cbn [showo app] in Et.
            pose proof (show_opener e0 (TComma :: sep_by TComma showo (a1 :: r1) ++ TR :: X)) as Ho. rewrite Et in Ho. exact Ho.
        - destruct args0 as [|a1 r1]; [congruence|]. rewrite sep_by_cons2 in Et. discriminate. }
      rewrite <- Et in Hf. 
      destruct t; try congruence; rewrite Et in Hf; rewrite Hf; reflexivity.
  - destruct (wf_arr rows Hw) as [Hne Hall].
    assert (Hg : Forall (fun row => row <> [] /\ Forall good row) rows).
    { rewrite Forall_forall in *. intros row Hr. destruct (Hall row Hr) as [A B]. split; auto.
      rewrite Forall_forall in *. intros x Hx. apply Hsub; eauto using size_in_arr. }
    destruct (rows_ok rows Hne Hg X) as [f Hf].
    exists (S f). cbn [show app]. rewrite <- app_assoc. cbn [app].
    change (fun row => sep_by TComma show row) with show_row.
    rewrite parse_un_S, Hf. reflexivity.
Qed.

Lemma un_ok : forall n e, size e <= n -> unary_lvl e -> wf e ->
  (forall e', size e' < size e -> wf e' -> good e') ->
  forall rest, no_pct rest -> exists f, parse_un f (show e ++ rest) = Some (e, rest).
Proof.
  induction n as [|n IH]; intros e Hsz Hu Hw Hsub rest Hr.
  { pose proof (size_pos e). lia. }
  destruct e as [a|o l r|e'|e'|es|g args|rows]; try destruct Hu;
  try solve [ match goal with |- exists f, parse_un f (show ?e ++ _) = _ =>
    destruct (postfix_decompose e I Hw) as (p & k & Pp & Wp & Sp & Ep & Shp);
    destruct (primary_ok p Pp Wp ltac:(intros; apply Hsub; auto; lia) (repeat TPct k ++ rest)) as [f Hf];
    exists f; rewrite Shp, <- app_assoc, Hf, pct_loop_repeat by auto; rewrite <- Ep; reflexivity end ].
  (* ENeg *)
  destruct Hw as [Hw' Hu']. cbn [size] in Hsz.
  destruct (IH e' ltac:(lia) Hu' Hw' ltac:(intros; apply Hsub; auto; cbn [size]; lia) rest Hr) as [f Hf].
  exists (S f). cbn [show app]. rewrite parse_un_S. cbn [binop_eqb]. rewrite Hf. reflexivity.
Qed.

(* ---------- binary operator chains ---------- *)
Definition tail := list (binop * expr).
Definition show_tail (tl:tail) : list tok := flat_map (fun p => TOp (fst p) :: show (snd p)) tl.
Definition fold_tail (lhs:expr) (tl:tail) : expr := fold_left (fun acc p => EBin (fst p) acc (snd p)) tl lhs.
Fixpoint spine (e:expr) : expr * tail :=
  match e with EBin o l r => let '(p, tl) := spine l in (p, tl ++ [(o, r)]) | _ => (e, []) end.
Fixpoint chain (ub:option nat) (tl:tail) : Prop :=
  match tl with [] => True
  | (o,r)::tl' => (match ub with Some u => prec o <= u | None => True end) /\ wf r /\ lvl_gt r (prec o) /\ chain (Some (prec o)) tl' end.
Definition last_prec (ub:option nat) (tl:tail) : option nat := fold_left (fun _ p => Some (prec (fst p))) tl ub.

Lemma chain_app ub tl o r : chain ub tl -> (match last_prec ub tl with Some u => prec o <= u | None => True end) ->
  wf r -> lvl_gt r (prec o) -> chain ub (tl ++ [(o,r)]).
Proof.
  revert ub. induction tl as [|[o' r'] tl IH]; intros ub Hc Hl Hw Hg; cbn in *.
  - repeat split; auto.
  - destruct Hc as (A & B & C & D). repeat split; auto.
Qed.
Lemma last_prec_app ub tl o r : last_prec ub (tl ++ [(o,r)]) = Some (prec o).
Proof. unfold last_prec. rewrite fold_left_app. reflexivity. Qed.

Lemma spine_spec e : wf e ->
  let '(p, tl) := spine e in
  unary_lvl p /\ wf p /\ size p <= size e /\ show e = show p ++ show_tail tl /\ fold_tail p tl = e /\ chain None tl /\
  (forall m, lvl_ge e m -> forall o r, In (o,r) tl -> m <= prec o) /\
  (forall o r, In (o,r) tl -> size r < size e) /\
  (match e with EBin o _ _ => last_prec None tl = Some (prec o) | _ => tl = [] end).
Proof.
  induction e as [a|o l IHl r IHr|e IH|e IH|es|g args|rows]; intros Hwf;
    try (cbn [spine]; split; [exact I|]; split; [exact Hwf|]; split; [apply le_n|]; split; [cbn [show_tail flat_map]; now rewrite app_nil_r|];
         split; [reflexivity|]; split; [exact I|]; split; [intros ? ? ? ? []|]; split; [intros ? ? []|reflexivity]).
  cbn [spine]. destruct Hwf as (Wl & Wr & Gl & Gr).
  specialize (IHl Wl). destruct (spine l) as [p tl].
  destruct IHl as (Pp & Wp & Sz & Sh & Fo & Ch & Lv & Szr & La).
  repeat split; auto.
  - cbn [size]. lia.
  - cbn [show]. rewrite Sh. unfold show_tail. rewrite flat_map_app. cbn. rewrite app_nil_r, <- app_assoc. reflexivity.
  - unfold fold_tail. rewrite fold_left_app. cbn. unfold fold_tail in Fo. rewrite Fo. reflexivity.
  - apply chain_app; auto.
    destruct l; cbn in La; try (subst tl; cbn; exact I).
    rewrite La. exact Gl.
  - intros m Hm o' r' Hin. apply in_app_or in Hin. destruct Hin as [Hin|[Heq|[]]].
    + destruct l; cbn in La; try (subst tl; destruct Hin).
      cbn in Gl, Hm. eapply Lv; [|exact Hin]. cbn. lia.
    + inversion Heq; subst. exact Hm.
  - intros o' r' Hin. apply in_app_or in Hin. destruct Hin as [Hin|[Heq|[]]].
    + specialize (Szr _ _ Hin). cbn [size]. lia.
    + inversion Heq; subst. cbn [size]. lia.
  - apply last_prec_app.
Qed.

Lemma chain_wf ub tl o r : chain ub tl -> In (o,r) tl -> wf r.
Proof. revert ub. induction tl as [|[o2 r2] tl IH]; intros ub Ch []; destruct Ch as (_ & W & _ & C); [inversion H; subst; auto|eauto]. Qed.

Lemma loop_tail :
  forall tl minp lhs rest ub,
    chain ub tl -> (forall o r, In (o,r) tl -> minp <= prec o) ->
    (forall o r, In (o,r) tl -> good r) ->
    stops minp rest ->
    exists f, loop f minp lhs (show_tail tl ++ rest) = Some (fold_tail lhs tl, rest).
Proof.
  induction tl as [|[o r] tl IH]; intros minp lhs rest ub Hc Hm Hp Hs.
  - exists 1. cbn. destruct rest as [|[] rs]; auto. cbn in Hs.
    destruct (Nat.leb_spec minp (prec o)); auto; lia.
  - destruct Hc as (Hub & Wr & Gr & Hc').
    assert (Hstop : stops (S (prec o)) (show_tail tl ++ rest)).
    { destruct tl as [|[o2 r2] tl2]; cbn.
      - destruct rest as [|[] rs]; cbn in *; auto. specialize (Hm o r (or_introl eq_refl)). lia.
      - destruct Hc' as (H2 & _). cbn in H2. lia. }
    destruct (Hp o r (or_introl eq_refl) (S (prec o)) _ Hstop) as [f1 Hf1].
    { destruct r; cbn in *; auto; lia. }
    assert (Hm' : forall o0 r0, In (o0, r0) tl -> minp <= prec o0) by (intros; apply (Hm o0 r0); right; auto).
    assert (Hp' : forall o0 r0, In (o0, r0) tl -> good r0) by (intros o0 r0 Hin; apply (Hp o0 r0); right; auto).
    destruct (IH minp (EBin o lhs r) rest (Some (prec o)) Hc' Hm' Hp' Hs) as [f2 Hf2].
    exists (S (max f1 f2)). rewrite loop_S. unfold show_tail. cbn [flat_map fst snd app].
    rewrite <- app_assoc. fold (show_tail tl).
    assert (Hle: minp <=? prec o = true) by (apply Nat.leb_le; apply (Hm o r); left; auto).
    rewrite Hle.
    rewrite (ex_mono _ (max f1 f2) _ _ _ (Nat.le_max_l _ _) Hf1).
    exact (loop_mono _ _ _ _ _ _ (Nat.le_max_r _ _) Hf2).
Qed.

Theorem show_parse_all : forall n e, size e <= n -> wf e -> good e.
Proof.
  induction n as [|n IH]; intros e Hsz Hwf.
  { pose proof (size_pos e). lia. }
  intros minp rest Hs Hl.
  pose proof (spine_spec e Hwf) as Sp. destruct (spine e) as [p tl].
  destruct Sp as (Pp & Wp & Sz & Sh & Fo & Ch & Lv & Szr & La).
  assert (Hnp : no_pct (show_tail tl ++ rest)).
  { destruct tl as [|[o r] tl']; cbn; auto. destruct rest as [|[] ?]; cbn in *; auto. }
  destruct (un_ok (size p) p (le_n _) Pp Wp ltac:(intros; apply (IH e'); auto; lia) _ Hnp) as [f1 Hf1].
  destruct (loop_tail tl minp p rest None Ch (Lv minp Hl)) as [f2 Hf2]; auto.
  { intros o r Hin. apply (IH r); [specialize (Szr _ _ Hin); lia|eapply chain_wf; eauto]. }
  exists (S (max f1 f2)). rewrite parse_ex_S, Sh, <- app_assoc.
  rewrite (un_mono _ (max f1 f2) _ _ (Nat.le_max_l _ _) Hf1).
  rewrite (loop_mono _ (max f1 f2) _ _ _ _ (Nat.le_max_r _ _) Hf2), Fo. reflexivity.
Qed.

Corollary show_parse_top e : wf e -> exists f, parse_ex f 0 (show e) = Some (e, []).
Proof.
  intros Hw. destruct (show_parse_all (size e) e (le_n _) Hw 0 [] I) as [f Hf].
  { destruct e; cbn; auto; lia. }
  exists f. now rewrite app_nil_r in Hf.
Qed.
(* fuel: any larger amount works as well *)
Corollary show_parse_lemma e : wf e -> exists f0, forall f, f0 <= f -> parse_ex f 0 (show e) = Some (e, []).
Proof.
  intros Hw. destruct (show_parse_top e Hw) as [f0 Hf0]. exists f0. intros f Hle.
  exact (ex_mono f0 f 0 (show e) (e, []) Hle Hf0).
Qed.

(* ---------- the boolean well-formedness test implies the predicate ---------- *)
Lemma all_of_Forall es : Forall wf es ->
  (fix all (l : list expr) := match l with [] => True | x :: r => wf x /\ all r end) es.
Proof. induction 1; cbn; auto. Qed.

Lemma allo_of_Forall args : Forall (fun a => match a with Some e => wf e | None => True end) args ->
  (fix all (l : list (option expr)) := match l with [] => True | Some x :: r => wf x /\ all r | None :: r => all r end) args.
Proof. induction 1 as [|[x|] r Hx _ IH]; cbn; auto. Qed.

Lemma nonempty_ne {A} (l : list A) : nonempty l = true -> l <> [].
Proof. destruct l; [discriminate|congruence]. Qed.

Lemma forallb_Forall {A} (f : A -> bool) l : forallb f l = true -> Forall (fun x => f x = true) l.
Proof. intros H. apply Forall_forall. intros x Hx. rewrite forallb_forall in H. auto. Qed.

Lemma wfb_wf : forall e, wfb prec e = true -> wf e.
Proof.
  induction e as [a|o l r IHl IHr|e IH|e IH|es IH|f args IH|rows IH] using expr_ind2; intros H; cbn [wfb] in H.
  - exact I.
  - repeat (apply andb_true_iff in H; destruct H as [H ?]).
    cbn [Expr.wf]. repeat split; auto.
    + destruct l; cbn in *; auto. now apply Nat.leb_le.
    + destruct r; cbn in *; auto. now apply Nat.ltb_lt.
  - apply andb_true_iff in H. destruct H as [H1 H2]. cbn [Expr.wf]. split; auto. destruct e; cbn in *; auto; discriminate.
  - apply andb_true_iff in H. destruct H as [H1 H2]. cbn [Expr.wf]. split; auto. destruct e; cbn in *; auto; discriminate.
  - apply andb_true_iff in H. destruct H as [H1 H2]. cbn [Expr.wf]. split; [now apply nonempty_ne|].
    apply all_of_Forall. apply forallb_Forall in H2. rewrite Forall_forall in *. intros x Hx. apply (IH x Hx), (H2 x Hx).
  - apply andb_true_iff in H. destruct H as [H1 H2]. cbn [Expr.wf]. split.
    + intros ->. discriminate.
    + apply allo_of_Forall. apply forallb_Forall in H2. rewrite Forall_forall in *.
      intros [x|] Hx; auto. apply (IH (Some x) Hx), (H2 (Some x) Hx).
  - apply andb_true_iff in H. destruct H as [H1 H2]. cbn [Expr.wf]. split; [now apply nonempty_ne|].
    apply forallb_Forall in H2. clear H1.
    induction rows as [|row rows IHrows]; [exact I|].
    inversion IH as [|? ? IHrow IHrest]; subst. inversion H2 as [|? ? Hrow Hrest]; subst.
    apply andb_true_iff in Hrow. destruct Hrow as [Hne Hall].
    split; [split; [now apply nonempty_ne|]|now apply IHrows].
    apply all_of_Forall. apply forallb_Forall in Hall. rewrite Forall_forall in *.
    intros x Hx. apply (IHrow x Hx), (Hall x Hx).
Qed.
End P.
