(* Proofs about the chunk container of Model/IWA.v:
   framing, _decompress_all, to_chunks, is_iwa_file, split_frames / chunk_ok. *)
From Coq Require Import NArith List Bool Lia ZArith.
From NP Require Import Model.PyBase Model.Varint Model.Wire Model.IWA Proofs.VarintP.
Import ListNotations.
Open Scope N_scope.
Ltac Zify.zify_post_hook ::= Z.to_euclidean_division_equations.

(* ---------- one frame ---------- *)
Definition le3 (n : N) : bytes := [n mod 256; (n / 256) mod 256; (n / 65536) mod 256].
Definition framed (p : bytes) : bytes := 0 :: le3 (lenN p) ++ p.

Lemma firstn3_le4 : forall n, firstn 3 (le_bytes 4 n) = le3 n.
Proof.
  intros n. cbn [le_bytes firstn]. unfold le3. rewrite N.div_div by lia. reflexivity.
Qed.

Lemma le_val_le3 : forall n, n < 16777216 -> le_val (le3 n ++ [0]) = n.
Proof. intros n Hn. unfold le3. cbn [app le_val]. lia. Qed.

Lemma le_val_le3' : forall n, n < 16777216 -> le_val (le3 n) = n.
Proof. intros n Hn. unfold le3. cbn [le_val]. lia. Qed.

Lemma frame_ok : forall p, lenN p < 4294967296 -> frame p = Ok (framed p).
Proof.
  intros p Hp. unfold frame, pack_I. destruct (N.ltb_spec (lenN p) 4294967296); [|lia].
  cbn [bind]. now rewrite firstn3_le4.
Qed.

Lemma frames_ok : forall ps, Forall (fun p => lenN p < 4294967296) ps ->
  frames ps = Ok (concat (map framed ps)).
Proof.
  induction ps as [|p ps IH]; intros H; [reflexivity|].
  cbn [frames map concat]. rewrite frame_ok by exact (Forall_inv H).
  cbn [bind]. rewrite IH by exact (Forall_inv_tail H). reflexivity.
Qed.

Lemma dropN_4 : forall A (a b c d : A) l, dropN 4 (a :: b :: c :: d :: l) = l.
Proof. intros. cbn. destruct l; reflexivity. Qed.

Lemma framed_length : forall p, lenN (framed p) = 4 + lenN p.
Proof. intros. unfold framed, le3. rewrite lenN_cons, lenN_app. cbn [app]. unfold lenN at 1. cbn [length]. lia. Qed.

Lemma unpack_len3_framed : forall n l, n < 16777216 ->
  unpack_len3 (firstn 4 (0 :: le3 n ++ l)) = Ok n.
Proof.
  intros n l Hn. unfold le3. cbn [app firstn tl]. unfold unpack_len3. cbn [tl app length Nat.eqb].
  f_equal. change ([n mod 256; (n / 256) mod 256; (n / 65536) mod 256; 0]) with (le3 n ++ [0]).
  now apply le_val_le3.
Qed.

Lemma firstn4_framed : forall n (l : bytes), firstn 4 (0 :: le3 n ++ l) = 0 :: le3 n.
Proof. intros. unfold le3. reflexivity. Qed.

Lemma dropN4_framed : forall n (l : bytes), dropN 4 (0 :: le3 n ++ l) = l.
Proof. intros. unfold le3. cbn [app]. apply dropN_4. Qed.

Lemma frames_count : forall ps, (length ps <= length (concat (map framed ps)))%nat.
Proof.
  induction ps as [|p ps IH]; [cbn; lia|].
  cbn [map concat]. rewrite app_length. unfold framed at 1. cbn [length]. lia.
Qed.

(* ---------- split_chunks ---------- *)
Lemma split_chunks_S : forall f x d,
  split_chunks (S f) (x :: d) = takeN 65536 (x :: d) :: split_chunks f (dropN 65536 (x :: d)).
Proof. reflexivity. Qed.

Lemma length_dropN_cons : forall A (x : A) l n, 1 <= n -> (length (dropN n (x :: l)) <= length l)%nat.
Proof.
  intros A x l n Hn. pose proof (lenN_dropN A (x :: l) n) as H. unfold lenN in H. cbn [length] in *. lia.
Qed.

Lemma split_chunks_concat : forall fuel d, (length d <= fuel)%nat -> concat (split_chunks fuel d) = d.
Proof.
  induction fuel as [|fuel IH]; intros d Hd.
  - destruct d; [reflexivity|cbn in Hd; lia].
  - destruct d as [|x d]; [reflexivity|].
    rewrite split_chunks_S. cbn [concat]. rewrite IH.
    + apply takeN_dropN.
    + pose proof (length_dropN_cons _ x d 65536 ltac:(lia)). cbn [length] in Hd. lia.
Qed.

Lemma split_chunks_small : forall fuel d, Forall (fun p => lenN p <= 65536) (split_chunks fuel d).
Proof.
  induction fuel as [|fuel IH]; intros d; destruct d as [|x d]; try constructor.
  - rewrite lenN_takeN. lia.
  - apply IH.
Qed.


Lemma split_frames_f_S : forall f x d,
  split_frames_f (S f) (x :: d) =
  (let header := firstn 4 (x :: d) in
   if Nat.eqb (length header) 4 then
     match take_exact (le_val (tl header ++ [0])) (dropN 4 (x :: d)) with
     | None => None
     | Some (p, rest) => match split_frames_f f rest with Some l => Some ((header, p) :: l) | None => None end
     end
   else None).
Proof. reflexivity. Qed.

Definition header_of (p : bytes) : bytes := 0 :: le3 (lenN p).

Lemma split_frames_frames : forall ps fuel, Forall (fun p => lenN p < 16777216) ps ->
  (length ps <= fuel)%nat ->
  split_frames_f fuel (concat (map framed ps)) = Some (map (fun p => (header_of p, p)) ps).
Proof.
  induction ps as [|p ps IH]; intros fuel H Hf.
  - destruct fuel; reflexivity.
  - destruct fuel as [|fuel]; [cbn in Hf; lia|].
    cbn [map concat]. unfold framed at 1. cbn [app]. rewrite split_frames_f_S.
    rewrite <- app_assoc. cbv zeta. rewrite firstn4_framed, dropN4_framed.
    change (length (0 :: le3 (lenN p))) with 4%nat. cbn [Nat.eqb tl].
    rewrite le_val_le3 by exact (Forall_inv H).
    assert (Hte : forall (a r : bytes), take_exact (lenN a) (a ++ r) = Some (a, r)).
    { intros a r. unfold take_exact. rewrite lenN_app.
      destruct (N.ltb_spec (lenN a + lenN r) (lenN a)); [lia|].
      now rewrite takeN_app_exact, dropN_app_exact. }
    rewrite Hte. rewrite IH; [reflexivity|exact (Forall_inv_tail H)|cbn in Hf; lia].
Qed.


Section Chunks.
  Set Default Proof Using "Type".
  Variable uncompress : bytes -> option bytes.

  Definition sel (p : bytes) : bytes := match uncompress p with Some u => u | None => p end.

  Lemma decompress_all_f_S : forall f first tl,
    decompress_all_f uncompress (S f) (first :: tl) =
    (if negb (first =? 0) then Err ValueError else
     do len <- unpack_len3 (firstn 4 (first :: tl)) ;
     do r <- decompress_all_f uncompress f (dropN (4 + len) (first :: tl)) ;
     Ok (sel (takeN len (dropN 4 (first :: tl))) :: r)).
  Proof. reflexivity. Qed.

  Lemma decompress_step : forall f p rest, lenN p < 16777216 ->
    decompress_all_f uncompress (S f) (framed p ++ rest) =
    do r <- decompress_all_f uncompress f rest ; Ok (sel p :: r).
  Proof.
    intros f p rest Hp. unfold framed. cbn [app]. rewrite decompress_all_f_S.
    cbn [N.eqb negb]. rewrite <- app_assoc. rewrite unpack_len3_framed by assumption. cbn [bind].
    rewrite dropN_add. unfold le3 at 1 2. cbn [app]. rewrite !dropN_4.
    now rewrite takeN_app_exact, dropN_app_exact.
  Qed.

  Lemma decompress_frames : forall ps fuel, Forall (fun p => lenN p < 16777216) ps ->
    (length ps <= fuel)%nat ->
    decompress_all_f uncompress fuel (concat (map framed ps)) = Ok (map sel ps).
  Proof.
    induction ps as [|p ps IH]; intros fuel H Hf.
    - destruct fuel; reflexivity.
    - destruct fuel as [|fuel]; [cbn in Hf; lia|].
      cbn [map concat]. rewrite decompress_step by exact (Forall_inv H).
      rewrite IH; [reflexivity|exact (Forall_inv_tail H)|cbn in Hf; lia].
  Qed.

  Lemma decompress_all_frames : forall ps, Forall (fun p => lenN p < 16777216) ps ->
    decompress_all uncompress (concat (map framed ps)) = Ok (concat (map sel ps)).
  Proof.
    intros ps H. unfold decompress_all. rewrite decompress_frames; [reflexivity|assumption|apply frames_count].
  Qed.

  (* ---------- chunking independence ---------- *)
  Variable compress : bytes -> bytes.
  (* a piece is sent either stored (true) or compressed (false) *)
  Definition payload_of (pm : bytes * bool) : bytes := if snd pm then fst pm else compress (fst pm).
  Definition piece_ok (pm : bytes * bool) : Prop :=
    lenN (payload_of pm) < 16777216 /\
    (if snd pm then uncompress (fst pm) = None else uncompress (compress (fst pm)) = Some (fst pm)).

  Lemma sel_payload : forall pm, piece_ok pm -> sel (payload_of pm) = fst pm.
  Proof.
    intros [p [|]] [_ H]; cbn [payload_of fst snd] in *; unfold sel; now rewrite H.
  Qed.

  Lemma chunking_independent_lemma : forall pieces, Forall piece_ok pieces ->
    exists file, frames (map payload_of pieces) = Ok file /\
                 decompress_all uncompress file = Ok (concat (map fst pieces)).
  Proof.
    intros pieces H. exists (concat (map framed (map payload_of pieces))). split.
    - apply frames_ok. rewrite Forall_map. eapply Forall_impl; [|exact H].
      intros pm [Hl _]. cbn beta. lia.
    - rewrite decompress_all_frames.
      + f_equal. f_equal. rewrite map_map. apply map_ext_Forall.
        eapply Forall_impl; [|exact H]. intros pm Hpm. now apply sel_payload.
      + rewrite Forall_map. eapply Forall_impl; [|exact H]. now intros pm [Hl _].
  Qed.

  (* ---------- to_chunks under the snappy hypotheses ---------- *)
  Hypothesis snappy_roundtrip : forall x, uncompress (compress x) = Some x.
  Hypothesis snappy_bound : forall x, lenN x <= 65536 -> lenN (compress x) < 16777216.

  Definition chunk_payloads (d : bytes) : list bytes := map compress (split_chunks (length d) d).

  Lemma chunk_payloads_small : forall d, Forall (fun p => lenN p < 16777216) (chunk_payloads d).
  Proof using snappy_roundtrip snappy_bound.
    intros d. unfold chunk_payloads. rewrite Forall_map.
    eapply Forall_impl; [|apply split_chunks_small]. intros p Hp. apply snappy_bound. exact Hp.
  Qed.

  Lemma to_chunks_ok : forall d, to_chunks compress d = Ok (concat (map framed (chunk_payloads d))).
  Proof using snappy_roundtrip snappy_bound.
    intros d. unfold to_chunks. apply frames_ok.
    eapply Forall_impl; [|apply chunk_payloads_small]. intros p Hp. cbn beta in *. lia.
  Qed.

  Lemma sel_compress : forall x, sel (compress x) = x.
  Proof using snappy_roundtrip snappy_bound. intros. unfold sel. now rewrite snappy_roundtrip. Qed.

  Lemma chunks_roundtrip_lemma : forall d,
    exists file, to_chunks compress d = Ok file /\ decompress_all uncompress file = Ok d.
  Proof using snappy_roundtrip snappy_bound.
    intros d. eexists. split; [apply to_chunks_ok|].
    rewrite decompress_all_frames by apply chunk_payloads_small.
    f_equal. unfold chunk_payloads. rewrite map_map.
    rewrite (map_ext _ (fun x => x)) by (intros; apply sel_compress).
    rewrite map_id. apply split_chunks_concat. lia.
  Qed.

  (* ---------- container rules ---------- *)
  Lemma container_rules_lemma : forall d file, to_chunks compress d = Ok file ->
    exists l, split_frames file = Some l /\ Forall (fun fr => chunk_ok uncompress fr = true) l /\
              concat (map (fun fr => fst fr ++ snd fr) l) = file.
  Proof using snappy_roundtrip snappy_bound.
    intros d file Hf. rewrite to_chunks_ok in Hf. injection Hf as <-.
    exists (map (fun p => (header_of p, p)) (chunk_payloads d)). split; [|split].
    - unfold split_frames. apply split_frames_frames; [apply chunk_payloads_small|apply frames_count].
    - rewrite Forall_map. unfold chunk_payloads. rewrite Forall_map.
      eapply Forall_impl; [|apply (split_chunks_small (length d) d)].
      intros x Hx. cbn beta. unfold chunk_ok, header_of, le3. cbn [fst snd N.eqb andb].
      rewrite snappy_roundtrip.
      change ([lenN (compress x) mod 256; (lenN (compress x) / 256) mod 256; (lenN (compress x) / 65536) mod 256])
        with (le3 (lenN (compress x))).
      rewrite le_val_le3' by (now apply snappy_bound).
      rewrite N.eqb_refl. cbn [andb]. now apply N.leb_le.
    - rewrite map_map. cbn [fst snd]. reflexivity.
  Qed.

End Chunks.

(* ---------- is_iwa_file ---------- *)
Lemma is_iwa_f_S : forall fixed f first tl acc,
  is_iwa_f fixed (S f) (first :: tl) acc =
  (let header := firstn 4 (first :: tl) in
   if fixed && Nat.ltb (length header) 4 then Ok None else
   if negb (first =? 0) then Ok None else
   do seg <- unpack_len3 header ;
   is_iwa_f fixed f (dropN (4 + seg) (first :: tl)) (acc + seg + 4)).
Proof. reflexivity. Qed.

Lemma is_iwa_frames : forall fixed ps fuel acc, Forall (fun p => lenN p < 16777216) ps ->
  (length ps <= fuel)%nat ->
  is_iwa_f fixed fuel (concat (map framed ps)) acc = Ok (Some (acc + lenN (concat (map framed ps)))).
Proof.
  intros fixed. induction ps as [|p ps IH]; intros fuel acc H Hf.
  - destruct fuel; cbn [map concat is_iwa_f]; rewrite lenN_nil; f_equal; f_equal; lia.
  - destruct fuel as [|fuel]; [cbn in Hf; lia|].
    cbn [map concat]. unfold framed at 1. cbn [app]. rewrite is_iwa_f_S. cbv zeta.
    rewrite <- app_assoc. rewrite unpack_len3_framed by exact (Forall_inv H).
    unfold le3 at 1. cbn [app firstn length Nat.ltb Nat.leb andb N.eqb negb bind].
    rewrite andb_false_r.
    rewrite dropN_add. unfold le3 at 1. cbn [app]. rewrite dropN_4, dropN_app_exact.
    rewrite IH; [|exact (Forall_inv_tail H)|cbn in Hf; lia].
    f_equal. f_equal.
    change (0 :: le3 (lenN p) ++ p ++ concat (map framed ps)) with (framed p ++ concat (map framed ps)).
    rewrite lenN_app, framed_length. lia.
Qed.

Lemma is_iwa_accepts_frames : forall fixed ps, Forall (fun p => lenN p < 16777216) ps ->
  is_iwa_file fixed (concat (map framed ps)) = Ok true.
Proof.
  intros fixed ps H. unfold is_iwa_file. rewrite (is_iwa_frames fixed ps _ 0 H (frames_count ps)).
  cbn [bind]. rewrite N.add_0_l, N.eqb_refl. reflexivity.
Qed.

(* totality of the repaired sniffer: no exception on any byte string *)
Lemma unpack_len3_full : forall h, length h = 4%nat -> exists n, unpack_len3 h = Ok n.
Proof.
  intros h Hh. unfold unpack_len3. destruct h as [|a h]; [discriminate|]. cbn [tl].
  rewrite app_length. cbn [length] in *. replace (length h + 1)%nat with 4%nat by lia.
  cbn [Nat.eqb]. eauto.
Qed.

Lemma firstn4_length : forall (x : N) l, (length (firstn 4 (x :: l)) <= 4)%nat /\ (1 <= length (firstn 4 (x :: l)))%nat.
Proof. intros. rewrite firstn_length. cbn [length]. lia. Qed.

Lemma is_iwa_f_total : forall fuel data acc, (length data <= fuel)%nat ->
  exists r, is_iwa_f true fuel data acc = Ok r.
Proof.
  induction fuel as [|fuel IH]; intros data acc Hl.
  - destruct data; [eexists; reflexivity|cbn in Hl; lia].
  - destruct data as [|x data]; [eexists; reflexivity|].
    rewrite is_iwa_f_S. cbv zeta. cbn [andb].
    destruct (Nat.ltb_spec (length (firstn 4 (x :: data))) 4) as [Hs|Hs]; [eexists; reflexivity|].
    destruct (negb (x =? 0)); [eexists; reflexivity|].
    pose proof (firstn4_length x data) as [Hle _].
    destruct (unpack_len3_full (firstn 4 (x :: data)) ltac:(lia)) as [n Hn]. rewrite Hn. cbn [bind].
    apply IH. pose proof (length_dropN_cons _ x data (4 + n) ltac:(lia)). cbn [length] in Hl. lia.
Qed.

Lemma is_iwa_file_total : forall data, exists b, is_iwa_file true data = Ok b.
Proof.
  intros data. unfold is_iwa_file.
  destruct (is_iwa_f_total (length data) data 0 ltac:(lia)) as [r Hr]. rewrite Hr. cbn [bind]. eauto.
Qed.

(* the pinned sniffer: only StructError can escape, and it does *)
Lemma is_iwa_f_pinned : forall fuel data acc, (length data <= fuel)%nat ->
  (exists r, is_iwa_f false fuel data acc = Ok r) \/ is_iwa_f false fuel data acc = Err StructError.
Proof.
  induction fuel as [|fuel IH]; intros data acc Hl.
  - destruct data; [left; eexists; reflexivity|cbn in Hl; lia].
  - destruct data as [|x data]; [left; eexists; reflexivity|].
    rewrite is_iwa_f_S. cbv zeta. cbn [andb].
    destruct (negb (x =? 0)); [left; eexists; reflexivity|].
    unfold unpack_len3 at 1 2.
    destruct (Nat.eqb (length (tl (firstn 4 (x :: data)) ++ [0])) 4); [|right; reflexivity].
    cbn [bind]. apply IH.
    pose proof (length_dropN_cons _ x data (4 + le_val (tl (firstn 4 (x :: data)) ++ [0])) ltac:(lia)).
    cbn [length] in Hl. lia.
Qed.

(* every encoded chunk file is accepted by the sniffer (pinned or repaired) *)
Lemma to_chunks_is_iwa : forall uncompress compress,
  (forall x, uncompress (compress x) = Some x) ->
  (forall x, lenN x <= 65536 -> lenN (compress x) < 16777216) ->
  forall fixed d file, to_chunks compress d = Ok file -> is_iwa_file fixed file = Ok true.
Proof.
  intros uncompress compress Hr Hb fixed d file Hf.
  rewrite (to_chunks_ok uncompress compress Hr Hb) in Hf. injection Hf as <-.
  apply is_iwa_accepts_frames. apply (chunk_payloads_small uncompress compress Hr Hb).
Qed.

(* ---------- exact characterisation of the repaired sniffer ---------- *)
Definition small (p : bytes) : Prop := lenN p < 16777216.

Lemma le3_of_bytes : forall a b c, a < 256 -> b < 256 -> c < 256 ->
  le3 (le_val [a; b; c; 0]) = [a; b; c] /\ le_val [a; b; c; 0] < 16777216.
Proof. intros a b c Ha Hb Hc. unfold le3. cbn [le_val]. split; [repeat f_equal; lia|lia]. Qed.

Lemma is_iwa_f_sound : forall fuel data acc l, Forall (fun x => x < 256) data ->
  is_iwa_f true fuel data acc = Ok (Some l) ->
  acc + lenN data <= l /\
  (l = acc + lenN data -> exists ps, data = concat (map framed ps) /\ Forall small ps).
Proof.
  induction fuel as [|fuel IH]; intros data acc l Hb H.
  - destruct data; [|discriminate]. injection H as <-. rewrite lenN_nil. split; [lia|].
    intros _. exists []. split; [reflexivity|constructor].
  - destruct data as [|x data].
    { injection H as <-. rewrite lenN_nil. split; [lia|]. intros _. exists []. split; [reflexivity|constructor]. }
    rewrite is_iwa_f_S in H. cbv zeta in H. cbn [andb] in H.
    destruct (Nat.ltb_spec (length (firstn 4 (x :: data))) 4) as [Hs|Hs]; [discriminate|].
    destruct (N.eqb_spec x 0) as [->|]; [|discriminate]. cbn [negb] in H.
    destruct data as [|a [|b [|c rest]]]; try (cbn in Hs; lia).
    assert (Ha : a < 256 /\ b < 256 /\ c < 256).
    { pose proof (Forall_inv (Forall_inv_tail Hb)). pose proof (Forall_inv (Forall_inv_tail (Forall_inv_tail Hb))).
      pose proof (Forall_inv (Forall_inv_tail (Forall_inv_tail (Forall_inv_tail Hb)))). auto. }
    destruct Ha as (Ha & Hb' & Hc).
    destruct (le3_of_bytes a b c Ha Hb' Hc) as [Hle3 Hseg].
    set (seg := le_val [a; b; c; 0]) in *.
    change (unpack_len3 (firstn 4 (0 :: a :: b :: c :: rest))) with (Ok seg) in H. cbn [bind] in H.
    rewrite dropN_add, dropN_4 in H.
    assert (Hrest : Forall (fun x => x < 256) (dropN seg rest)).
    { rewrite dropN_skipn. apply Forall_forall. intros y Hy.
      assert (Hin : In y rest) by (rewrite <- (firstn_skipn (N.to_nat seg) rest); apply in_or_app; now right).
      do 4 apply Forall_inv_tail in Hb. rewrite Forall_forall in Hb. now apply Hb. }
    destruct (IH _ _ _ Hrest H) as [Hle Heq].
    rewrite !lenN_cons. rewrite lenN_dropN in Hle, Heq. split; [lia|].
    intros Hl.
    assert (Hfit : seg <= lenN rest) by lia.
    destruct (Heq ltac:(lia)) as (ps & Hps & Hsm).
    exists (takeN seg rest :: ps). split.
    + cbn [map concat]. unfold framed at 1. rewrite lenN_takeN. replace (N.min seg (lenN rest)) with seg by lia.
      rewrite Hle3. cbn [app]. rewrite <- Hps. now rewrite takeN_dropN.
    + constructor; [|exact Hsm]. unfold small. rewrite lenN_takeN. lia.
Qed.

Lemma is_iwa_iff_lemma : forall data, Forall (fun x => x < 256) data ->
  (is_iwa_file true data = Ok true <-> exists ps, data = concat (map framed ps) /\ Forall small ps).
Proof.
  intros data Hb. split.
  - intros H. unfold is_iwa_file in H.
    destruct (is_iwa_f true (length data) data 0) as [[l|]|e] eqn:E; cbn [bind] in H; try discriminate.
    injection H as H. apply N.eqb_eq in H. subst l.
    destruct (is_iwa_f_sound _ _ _ _ Hb E) as [_ Hex]. apply Hex. lia.
  - intros (ps & -> & Hsm). now apply is_iwa_accepts_frames.
Qed.
