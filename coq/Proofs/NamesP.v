(* Lemmas about Model/Names.v (C19). *)
From Coq Require Import ZArith NArith List Bool Lia DecimalN FinFun.
From NP Require Import Model.PyBase Model.Names.
Import ListNotations.
Open Scope N_scope.

Ltac Zify.zify_post_hook ::= Z.to_euclidean_division_equations.

(* ---------- specification vocabulary used by Props/C19.v ---------- *)

(* what is assumed of Python's str.lower(): on ASCII-only strings it is the
   character-wise ASCII lowering *)
Definition lower_ascii (lower : str -> str) : Prop :=
  forall s, is_ascii s = true -> lower s = ascii_lower s.

(* equal ignoring case = equal images under lower *)
Definition ci_fresh (lower : str -> str) (n : str) (it : list str) : Prop :=
  ~ In (lower n) (map lower it).
Definition ci_unique (lower : str -> str) (it : list str) : Prop := NoDup (map lower it).
Definition doc_unique (lower : str -> str) (d : doc) : Prop :=
  ci_unique lower (sheet_names d) /\ Forall (fun s => ci_unique lower (snd s)) d.

(* a document always has a sheet and every sheet a table *)
Definition wf_doc (d : doc) : Prop := d <> [] /\ Forall (fun s => snd s <> []) d.

Definition is_add (o : op) : bool :=
  match o with AddSheet _ _ | AddTable _ _ => true | _ => false end.

Definition list_prefix {A} (l l' : list A) : Prop := exists t, l' = l ++ t.
(* d' has the sheets of d, same names, same positions, each with its tables as
   a prefix, possibly followed by more sheets *)
Inductive doc_prefix : doc -> doc -> Prop :=
| dp_nil : forall t, doc_prefix [] t
| dp_cons : forall n ts ts' d d', list_prefix ts ts' -> doc_prefix d d' ->
    doc_prefix ((n, ts) :: d) ((n, ts') :: d').

(* ---------- strings ---------- *)
Lemma str_eqb_spec a b : str_eqb a b = true <-> a = b.
Proof.
  revert b; induction a as [|x a IH]; destruct b as [|y b]; simpl.
  - tauto.
  - split; discriminate.
  - split; discriminate.
  - rewrite andb_true_iff, N.eqb_eq, IH. split.
    + intros [-> ->]; reflexivity.
    + intros H; injection H; auto.
Qed.

Lemma str_eqb_refl a : str_eqb a a = true.
Proof. apply str_eqb_spec; reflexivity. Qed.

Lemma contains_In lower it key :
  contains lower it key = true <-> In (lower key) (map lower it).
Proof.
  unfold contains. rewrite existsb_exists. split.
  - intros [x [Hin Heq]]. apply str_eqb_spec in Heq. subst x. exact Hin.
  - intros Hin. exists (lower key). split; [exact Hin | apply str_eqb_refl].
Qed.

Lemma contains_false lower it key :
  contains lower it key = false <-> ~ In (lower key) (map lower it).
Proof.
  split.
  - intros Hf Hin. apply contains_In in Hin. congruence.
  - intros Hn. destruct (contains lower it key) eqn:Hc; [|reflexivity].
    apply contains_In in Hc. contradiction.
Qed.

Lemma uint_chars_inj u v : uint_chars u = uint_chars v -> u = v.
Proof.
  revert v; induction u as [|u IH|u IH|u IH|u IH|u IH|u IH|u IH|u IH|u IH|u IH];
    destruct v; simpl; intros H; try discriminate; try reflexivity;
    injection H as H; f_equal; apply IH; exact H.
Qed.

Lemma N_to_str_inj a b : N_to_str a = N_to_str b -> a = b.
Proof. intros H. apply Unsigned.to_uint_inj, uint_chars_inj, H. Qed.

Lemma auto_name_inj p a b : auto_name p a = auto_name p b -> a = b.
Proof.
  unfold auto_name. intros H. apply app_inv_head in H. injection H as H. apply N_to_str_inj, H.
Qed.

Definition plain (c : chr) : Prop := c < 128 /\ is_upper c = false.

Lemma uint_chars_plain u : Forall plain (uint_chars u).
Proof.
  induction u; simpl; constructor; auto; split; try reflexivity.
Qed.

Lemma plain_is_ascii s : Forall plain s -> is_ascii s = true.
Proof.
  induction 1 as [|c s [Hc _] _ IH]; simpl; [reflexivity|].
  rewrite IH, andb_true_r. apply N.ltb_lt, Hc.
Qed.

Lemma plain_lower s : Forall plain s -> ascii_lower s = s.
Proof.
  induction 1 as [|c s [_ Hc] _ IH]; simpl; [reflexivity|].
  unfold ascii_lower_c. rewrite Hc. f_equal. exact IH.
Qed.

Lemma is_ascii_app a b : is_ascii (a ++ b) = is_ascii a && is_ascii b.
Proof. apply forallb_app. Qed.

Lemma ascii_lower_app a b : ascii_lower (a ++ b) = ascii_lower a ++ ascii_lower b.
Proof. apply map_app. Qed.

Lemma tail_plain n : Forall plain ([c_space] ++ N_to_str n).
Proof.
  simpl. constructor; [split; reflexivity | apply uint_chars_plain].
Qed.

(* lower(f"{P} {n}") = f"{p} {n}" when P is ASCII and p is its lowering *)
Lemma lower_auto_name lower P n :
  lower_ascii lower -> is_ascii P = true ->
  lower (auto_name P n) = auto_name (ascii_lower P) n.
Proof.
  intros Hl HP. unfold auto_name. rewrite Hl.
  - rewrite ascii_lower_app, (plain_lower _ (tail_plain n)). reflexivity.
  - rewrite is_ascii_app, HP, (plain_is_ascii _ (tail_plain n)). reflexivity.
Qed.

(* ---------- the naming loop ---------- *)
Lemma auto_loop_S lower f it p n :
  auto_loop lower (S f) it p n =
  if contains lower it (auto_name p n) then auto_loop lower f it p (n + 1) else Ok n.
Proof. reflexivity. Qed.

Lemma auto_loop_spec lower it p : forall fuel n,
  match auto_loop lower fuel it p n with
  | Ok m => n <= m /\ m < n + N.of_nat fuel /\ contains lower it (auto_name p m) = false /\
            forall j, n <= j < m -> contains lower it (auto_name p j) = true
  | Err e => e = OutOfFuel /\ forall j, n <= j < n + N.of_nat fuel -> contains lower it (auto_name p j) = true
  end.
Proof.
  induction fuel as [|f IH]; intros n.
  - simpl. split; [reflexivity|]. intros j Hj. lia.
  - rewrite auto_loop_S. destruct (contains lower it (auto_name p n)) eqn:Hc.
    + specialize (IH (n + 1)). destruct (auto_loop lower f it p (n + 1)) as [m|e].
      * destruct IH as (H1 & H2 & H3 & H4). split; [lia|]. split; [lia|]. split; [exact H3|].
        intros j Hj. destruct (N.eq_dec j n) as [->|Hne]; [exact Hc|]. apply H4. lia.
      * destruct IH as (H1 & H2). split; [exact H1|].
        intros j Hj. destruct (N.eq_dec j n) as [->|Hne]; [exact Hc|]. apply H2. lia.
    + split; [lia|]. split; [lia|]. split; [exact Hc|]. intros j Hj. lia.
Qed.

(* pigeonhole: len+1 candidates with pairwise different lowered spellings cannot all be taken *)
Lemma pigeon lower it p :
  (forall a b, lower (auto_name p a) = lower (auto_name p b) -> a = b) ->
  ~ (forall j, 1 <= j < 1 + N.of_nat (length it + 1) -> contains lower it (auto_name p j) = true).
Proof.
  intros Hinj Hall.
  set (f := fun i : nat => lower (auto_name p (N.of_nat (S i)))).
  assert (Hnd : NoDup (map f (seq 0 (length it + 1)))).
  { apply Injective_map_NoDup; [|apply seq_NoDup].
    intros a b Hab. unfold f in Hab. apply Hinj in Hab. lia. }
  assert (Hincl : incl (map f (seq 0 (length it + 1))) (map lower it)).
  { intros x Hx. apply in_map_iff in Hx. destruct Hx as [i [<- Hi]]. apply in_seq in Hi.
    unfold f. apply contains_In. apply Hall. lia. }
  pose proof (NoDup_incl_length Hnd Hincl) as Hlen.
  rewrite !map_length, seq_length in Hlen. lia.
Qed.

Lemma auto_loop_total lower it p :
  (forall a b, lower (auto_name p a) = lower (auto_name p b) -> a = b) ->
  exists m, auto_loop lower (length it + 1) it p 1 = Ok m /\
    1 <= m <= N.of_nat (length it) + 1 /\
    contains lower it (auto_name p m) = false /\
    forall j, 1 <= j < m -> contains lower it (auto_name p j) = true.
Proof.
  intros Hinj. pose proof (auto_loop_spec lower it p (length it + 1) 1) as H.
  destruct (auto_loop lower (length it + 1) it p 1) as [m|e].
  - exists m. destruct H as (H1 & H2 & H3 & H4). split; [reflexivity|]. split; [lia|]. split; [exact H3|exact H4].
  - exfalso. destruct H as [_ H]. exact (pigeon lower it p Hinj H).
Qed.

Section WithLower.
Variable lower : str -> str.
Hypothesis Hlower : lower_ascii lower.

Lemma lower_inj_prefix p : is_ascii p = true ->
  forall a b, lower (auto_name p a) = lower (auto_name p b) -> a = b.
Proof.
  intros Hp a b H. rewrite !lower_auto_name in H by assumption. apply auto_name_inj in H. exact H.
Qed.

Lemma lower_P_p P p n :
  is_ascii P = true -> is_ascii p = true -> ascii_lower P = p -> ascii_lower p = p ->
  lower (auto_name P n) = lower (auto_name p n).
Proof.
  intros HP Hp HPp Hpp. rewrite !lower_auto_name by assumption. rewrite HPp, Hpp. reflexivity.
Qed.

(* generated name: never out of fuel, fresh ignoring case, and the first free number *)
Lemma choose_auto it P p :
  is_ascii P = true -> is_ascii p = true -> ascii_lower P = p -> ascii_lower p = p ->
  exists m, choose_name lower it None P p = Ok (auto_name P m) /\
    1 <= m <= N.of_nat (length it) + 1 /\
    ci_fresh lower (auto_name P m) it /\
    forall j, 1 <= j < m -> ~ ci_fresh lower (auto_name P j) it.
Proof.
  intros HP Hp HPp Hpp.
  destruct (auto_loop_total lower it p (lower_inj_prefix p Hp)) as (m & Hm & Hr & Hf & Hmin).
  exists m. unfold choose_name. rewrite Hm. simpl. repeat split; try lia.
  - unfold ci_fresh. rewrite (lower_P_p P p m HP Hp HPp Hpp).
    apply contains_false, Hf.
  - intros j Hj Hfresh. apply Hfresh. rewrite (lower_P_p P p j HP Hp HPp Hpp).
    apply contains_In, Hmin, Hj.
Qed.

Lemma choose_named_ok it n P p :
  ci_fresh lower n it -> choose_name lower it (Some n) P p = Ok n.
Proof.
  intros H. unfold choose_name. apply contains_false in H. rewrite H. reflexivity.
Qed.

Lemma choose_named_dup it n P p :
  ~ ci_fresh lower n it -> choose_name lower it (Some n) P p = Err IndexError.
Proof.
  intros H. unfold choose_name.
  destruct (contains lower it n) eqn:Hc; [reflexivity|].
  apply contains_false in Hc. contradiction.
Qed.

Lemma choose_fresh it name P p n :
  is_ascii P = true -> is_ascii p = true -> ascii_lower P = p -> ascii_lower p = p ->
  choose_name lower it name P p = Ok n -> ci_fresh lower n it.
Proof.
  intros HP Hp HPp Hpp H. destruct name as [x|].
  - unfold choose_name in H. destruct (contains lower it x) eqn:Hc; [discriminate|].
    injection H as <-. apply contains_false, Hc.
  - destruct (choose_auto it P p HP Hp HPp Hpp) as (m & Hm & _ & Hf & _).
    rewrite Hm in H. injection H as <-. exact Hf.
Qed.

End WithLower.

(* ---------- ItemsList.__getitem__(int) ---------- *)
Lemma range_test_false j n : (0 <= j < n)%Z -> ((j <? 0) || (j >=? n))%Z = false.
Proof.
  intros H. apply orb_false_iff. split; [apply Z.ltb_ge; lia|].
  rewrite Z.geb_leb. apply Z.leb_gt. lia.
Qed.

Lemma range_test_true j n : ~ (0 <= j < n)%Z -> ((j <? 0) || (j >=? n))%Z = true.
Proof.
  intros H. apply orb_true_iff. destruct (Z_lt_dec j 0) as [Hj|Hj].
  - left. apply Z.ltb_lt. exact Hj.
  - right. rewrite Z.geb_leb. apply Z.leb_le. lia.
Qed.

Lemma py_list_idx_in len j : (0 <= j < Z.of_nat len)%Z -> py_list_idx len j = Ok (Z.to_nat j).
Proof.
  intros H. unfold py_list_idx.
  assert (E : (j <? 0)%Z = false) by (apply Z.ltb_ge; lia).
  rewrite E, range_test_false by exact H. reflexivity.
Qed.

Lemma get_idx_in len k :
  (- Z.of_nat len <= k < Z.of_nat len)%Z ->
  get_idx len k = Ok (Z.to_nat (k mod Z.of_nat len)).
Proof.
  intros Hk. unfold get_idx.
  destruct (k <? 0)%Z eqn:Hneg.
  - apply Z.ltb_lt in Hneg.
    rewrite range_test_false, py_list_idx_in by lia. f_equal. f_equal.
    rewrite <- (Z.mod_small (k + Z.of_nat len) (Z.of_nat len)) at 1 by lia.
    rewrite <- (Z.mul_1_l (Z.of_nat len)) at 1. apply Z.mod_add. lia.
  - apply Z.ltb_ge in Hneg.
    rewrite range_test_false, py_list_idx_in by lia. f_equal. f_equal.
    symmetry. apply Z.mod_small. lia.
Qed.

Lemma get_idx_out len k :
  ~ (- Z.of_nat len <= k < Z.of_nat len)%Z -> get_idx len k = Err IndexError.
Proof.
  intros Hk. unfold get_idx.
  destruct (k <? 0)%Z eqn:Hneg.
  - apply Z.ltb_lt in Hneg. rewrite range_test_true by lia. reflexivity.
  - apply Z.ltb_ge in Hneg. rewrite range_test_true by lia. reflexivity.
Qed.

Lemma get_idx_ok len k i : get_idx len k = Ok i ->
  (i < length (repeat tt len))%nat /\ (- Z.of_nat len <= k < Z.of_nat len)%Z /\ i = Z.to_nat (k mod Z.of_nat len).
Proof.
  intros H. rewrite repeat_length.
  destruct (Z_lt_dec k (- Z.of_nat len)) as [Hlo|Hlo].
  - rewrite get_idx_out in H by lia. discriminate.
  - destruct (Z_lt_dec k (Z.of_nat len)) as [Hhi|Hhi].
    + rewrite get_idx_in in H by lia. injection H as <-.
      split; [|split; [lia|reflexivity]].
      pose proof (Z.mod_pos_bound k (Z.of_nat len)). lia.
    + rewrite get_idx_out in H by lia. discriminate.
Qed.

Lemma get_idx_lt len k i : get_idx len k = Ok i -> (i < len)%nat.
Proof. intros H. apply get_idx_ok in H. rewrite repeat_length in H. tauto. Qed.

Lemma fetch_lt {A} (it : list A) i : (i < length it)%nat -> exists x, nth_error it i = Some x /\ fetch it i = Ok x.
Proof.
  intros Hi. unfold fetch. destruct (nth_error it i) as [x|] eqn:Hn.
  - exists x; auto.
  - apply nth_error_None in Hn. lia.
Qed.

Lemma index_agrees_lemma {A} (it : list A) (k : Z) :
  let n := Z.of_nat (length it) in
  ((- n <= k < n)%Z -> exists x, nth_error it (Z.to_nat (k mod n)) = Some x /\ get it k = Ok x) /\
  (~ (- n <= k < n)%Z -> get it k = Err IndexError).
Proof.
  intros n. split; intros Hk; unfold get.
  - rewrite get_idx_in by exact Hk. simpl.
    destruct (fetch_lt it (Z.to_nat (k mod n))) as [x [H1 H2]].
    { pose proof (Z.mod_pos_bound k n). subst n. lia. }
    exists x. split; assumption.
  - rewrite get_idx_out by exact Hk. reflexivity.
Qed.

(* iteration (the sequence protocol: __getitem__(0), (1), ... until IndexError) yields the list *)
Lemma get_nonneg {A} (it : list A) (i : nat) :
  get it (Z.of_nat i) = match nth_error it i with Some x => Ok x | None => Err IndexError end.
Proof.
  destruct (index_agrees_lemma it (Z.of_nat i)) as [Hin Hout].
  destruct (nth_error it i) as [x|] eqn:Hn.
  - assert (Hi : (i < length it)%nat) by (apply nth_error_Some; congruence).
    destruct Hin as [y [H1 H2]]; [lia|].
    rewrite Z.mod_small, Nat2Z.id in H1 by lia.
    congruence.
  - apply nth_error_None in Hn. apply Hout. lia.
Qed.

(* ---------- lookup by name ---------- *)
Lemma find_name_spec it key : forall base i,
  find_name it key base = Ok i ->
  (base <= i)%nat /\ nth_error it (i - base) = Some key /\
  forall j, (j < i - base)%nat -> nth_error it j <> Some key.
Proof.
  induction it as [|x r IH]; intros base i H; simpl in H; [discriminate|].
  destruct (str_eqb x key) eqn:He.
  - injection H as <-. apply str_eqb_spec in He. subst x.
    rewrite Nat.sub_diag. simpl. repeat split; auto. intros j Hj; lia.
  - apply IH in H. destruct H as (H1 & H2 & H3).
    assert (Hne : x <> key) by (intros ->; rewrite str_eqb_refl in He; discriminate).
    replace (i - base)%nat with (S (i - S base)) by lia. simpl. repeat split; try lia; auto.
    intros j Hj. destruct j as [|j]; simpl.
    + congruence.
    + apply H3. lia.
Qed.

Lemma find_name_err it key : forall base e,
  find_name it key base = Err e -> e = KeyError /\ ~ In key it.
Proof.
  induction it as [|x r IH]; intros base e H; simpl in H.
  - injection H as <-. split; auto.
  - destruct (str_eqb x key) eqn:He; [discriminate|].
    apply IH in H. destruct H as [H1 H2]. split; [exact H1|].
    intros [Hx|Hin]; [|contradiction]. subst x. rewrite str_eqb_refl in He. discriminate.
Qed.

Lemma lookup_by_name_exact_lemma it key i :
  get_by_name it key = Ok i ->
  nth_error it i = Some key /\ forall j, (j < i)%nat -> nth_error it j <> Some key.
Proof.
  intros H. apply find_name_spec in H. rewrite Nat.sub_0_r in H. tauto.
Qed.

Lemma lookup_by_name_missing_lemma it key e :
  get_by_name it key = Err e -> e = KeyError /\ ~ In key it.
Proof. apply find_name_err. Qed.

Lemma lookup_by_name_found_lemma it key :
  In key it -> exists i, get_by_name it key = Ok i.
Proof.
  intros Hin. destruct (get_by_name it key) as [i|e] eqn:H; [eauto|].
  apply lookup_by_name_missing_lemma in H. tauto.
Qed.

Lemma NoDup_snoc {A} (l : list A) x : NoDup l -> ~ In x l -> NoDup (l ++ [x]).
Proof.
  induction 1 as [|y l Hy Hl IH]; intros Hx; simpl.
  - constructor; [intros []|constructor].
  - constructor.
    + rewrite in_app_iff. simpl. intros [H|[H|[]]]; [contradiction|].
      subst. apply Hx. left. reflexivity.
    + apply IH. intros H. apply Hx. right. exact H.
Qed.

(* ---------- replace_at ---------- *)
Lemma replace_at_length {A} (l : list A) i x : length (replace_at l i x) = length l.
Proof. revert i; induction l as [|y r IH]; intros [|i]; simpl; auto. Qed.

Lemma replace_at_nth_same {A} (l : list A) i x :
  (i < length l)%nat -> nth_error (replace_at l i x) i = Some x.
Proof.
  revert i; induction l as [|y r IH]; intros [|i] H; simpl in *; try lia; auto. apply IH. lia.
Qed.

Lemma replace_at_nth_other {A} (l : list A) i j x :
  i <> j -> nth_error (replace_at l i x) j = nth_error l j.
Proof.
  revert i j; induction l as [|y r IH]; intros [|i] [|j] H; simpl; auto; try congruence.
Qed.

Lemma map_replace_at {A B} (f : A -> B) (l : list A) i x :
  map f (replace_at l i x) = replace_at (map f l) i (f x).
Proof. revert i; induction l as [|y r IH]; intros [|i]; simpl; auto. f_equal. apply IH. Qed.

Lemma replace_at_same {A} (l : list A) i x : nth_error l i = Some x -> replace_at l i x = l.
Proof.
  revert i; induction l as [|y r IH]; intros [|i] H; simpl in *; try discriminate; auto.
  - congruence.
  - f_equal. apply IH, H.
Qed.

(* ---------- documents ---------- *)
Definition pfx_ok (P p : str) : Prop :=
  is_ascii P = true /\ is_ascii p = true /\ ascii_lower P = p /\ ascii_lower p = p.
Lemma sheet_pfx : pfx_ok Sheet_P sheet_p. Proof. repeat split. Qed.
Lemma table_pfx : pfx_ok Table_P table_p. Proof. repeat split. Qed.

Lemma get_last_ok {A} (l : list A) : l <> [] -> exists x, get l (-1) = Ok x.
Proof.
  intros Hl. destruct (index_agrees_lemma l (-1)) as [Hin _].
  destruct Hin as [x [_ Hx]]; [|eauto].
  destruct l; [congruence|]. simpl length. lia.
Qed.

Lemma get_first_ok {A} (l : list A) : l <> [] -> exists x, get l 0 = Ok x.
Proof.
  intros Hl. destruct (index_agrees_lemma l 0) as [Hin _].
  destruct Hin as [x [_ Hx]]; [|eauto].
  destruct l; [congruence|]. simpl length. lia.
Qed.

Lemma get_In {A} (l : list A) k x : get l k = Ok x -> In x l.
Proof.
  unfold get. destruct (get_idx (length l) k) as [i|e]; simpl; [|discriminate].
  unfold fetch. destruct (nth_error l i) eqn:Hn; [|discriminate].
  intros H; injection H as <-. eapply nth_error_In, Hn.
Qed.

Section Docs.
Variable lower : str -> str.
Hypothesis Hlower : lower_ascii lower.
Implicit Types (d : doc) (s : sheet).

Lemma add_sheet_inv d name t d' :
  add_sheet lower d name t = Ok d' ->
  exists n, choose_name lower (sheet_names d) name Sheet_P sheet_p = Ok n /\ d' = d ++ [(n, [t])].
Proof.
  unfold add_sheet. destruct (choose_name lower (sheet_names d) name Sheet_P sheet_p) as [n|e]; simpl; [|discriminate].
  destruct (get d (-1)) as [l|e]; simpl; [|discriminate].
  destruct (get (snd l) 0) as [t0|e]; simpl; [|discriminate].
  intros H; injection H as <-. eauto.
Qed.

Lemma add_sheet_ok d name t n :
  wf_doc d -> choose_name lower (sheet_names d) name Sheet_P sheet_p = Ok n ->
  add_sheet lower d name t = Ok (d ++ [(n, [t])]).
Proof.
  intros [Hne Hts] Hn. unfold add_sheet. rewrite Hn. simpl.
  destruct (get_last_ok d Hne) as [l Hl]. rewrite Hl. simpl.
  assert (Hlt : snd l <> []).
  { apply get_In in Hl. rewrite Forall_forall in Hts. apply Hts, Hl. }
  destruct (get_first_ok (snd l) Hlt) as [t0 Ht0]. rewrite Ht0. reflexivity.
Qed.

Lemma add_table_inv d si name d' :
  add_table lower d si name = Ok d' ->
  exists i s n, get_idx (length d) si = Ok i /\ nth_error d i = Some s /\
    choose_name lower (snd s) name Table_P table_p = Ok n /\
    d' = replace_at d i (fst s, snd s ++ [n]).
Proof.
  unfold add_table. destruct (get_idx (length d) si) as [i|e]; simpl; [|discriminate].
  unfold fetch. destruct (nth_error d i) as [s|] eqn:Hs; simpl; [|discriminate].
  destruct (get (snd s) (-1)) as [l|e]; simpl; [|discriminate].
  destruct (choose_name lower (snd s) name Table_P table_p) as [n|e] eqn:Hn; simpl; [|discriminate].
  intros H; injection H as <-. exists i, s, n. auto.
Qed.

Lemma add_table_ok d si name i s n :
  get_idx (length d) si = Ok i -> nth_error d i = Some s -> snd s <> [] ->
  choose_name lower (snd s) name Table_P table_p = Ok n ->
  add_table lower d si name = Ok (replace_at d i (fst s, snd s ++ [n])).
Proof.
  intros Hi Hs Hne Hn. unfold add_table. rewrite Hi. simpl. unfold fetch. rewrite Hs. simpl.
  destruct (get_last_ok (snd s) Hne) as [l Hl]. rewrite Hl. simpl. rewrite Hn. reflexivity.
Qed.

Lemma step_ok_apply d o d' : step lower d o = (d', Ok tt) -> apply lower d o = Ok d'.
Proof.
  unfold step. destruct (apply lower d o) as [x|e]; intros H; inversion H; reflexivity.
Qed.

Lemma step_err_unchanged d o d' e : step lower d o = (d', Err e) -> d' = d /\ apply lower d o = Err e.
Proof.
  unfold step. destruct (apply lower d o) as [x|e']; intros H; inversion H; auto.
Qed.

(* the freshness statement of one step *)
Definition add_fresh (d : doc) (o : op) (d' : doc) : Prop :=
  match o with
  | AddSheet name t =>
    exists n, d' = d ++ [(n, [t])] /\ ci_fresh lower n (sheet_names d) /\
              (forall x, name = Some x -> n = x)
  | AddTable si name =>
    exists i s n, get_idx (length d) si = Ok i /\ nth_error d i = Some s /\
      d' = replace_at d i (fst s, snd s ++ [n]) /\ ci_fresh lower n (snd s) /\
      (forall x, name = Some x -> n = x)
  | _ => True
  end.

Lemma choose_exact it x P p n : choose_name lower it (Some x) P p = Ok n -> n = x.
Proof. unfold choose_name. destruct (contains lower it x); intros H; inversion H; reflexivity. Qed.

Lemma add_never_duplicates_lemma d o d' :
  step lower d o = (d', Ok tt) -> add_fresh d o d'.
Proof.
  intros H. apply step_ok_apply in H. destruct o as [name t|si name|si v|si ti v]; simpl in *; auto.
  - apply add_sheet_inv in H. destruct H as (n & Hn & ->). exists n.
    split; [reflexivity|]. split.
    + destruct sheet_pfx as (a & b & c & e). exact (choose_fresh lower Hlower _ _ _ _ _ a b c e Hn).
    + intros x ->. eapply choose_exact, Hn.
  - apply add_table_inv in H. destruct H as (i & s & n & Hi & Hs & Hn & ->). exists i, s, n.
    split; [exact Hi|]. split; [exact Hs|]. split; [reflexivity|]. split.
    + destruct table_pfx as (a & b & c & e). exact (choose_fresh lower Hlower _ _ _ _ _ a b c e Hn).
    + intros x ->. eapply choose_exact, Hn.
Qed.

Lemma add_never_duplicates_history_lemma d0 h o d' :
  step lower (run lower d0 h) o = (d', Ok tt) -> add_fresh (run lower d0 h) o d'.
Proof. apply add_never_duplicates_lemma. Qed.

(* ----- uniqueness invariant over histories of adds ----- *)
Lemma ci_unique_snoc it n : ci_unique lower it -> ci_fresh lower n it -> ci_unique lower (it ++ [n]).
Proof.
  unfold ci_unique, ci_fresh. intros Hu Hf. rewrite map_app. simpl.
  apply NoDup_snoc; assumption.
Qed.

Lemma Forall_replace_at {A} (P : A -> Prop) (l : list A) i x :
  Forall P l -> P x -> Forall P (replace_at l i x).
Proof.
  intros Hl Hx. revert i. induction Hl as [|y r Hy Hr IH]; intros [|i]; simpl; constructor; auto.
Qed.

Lemma step_add_unique d o d' :
  is_add o = true -> doc_unique lower d -> step lower d o = (d', Ok tt) -> doc_unique lower d'.
Proof.
  intros Ha [Hs Ht] H. apply add_never_duplicates_lemma in H.
  destruct o as [name t|si name|si v|si ti v]; simpl in *; try discriminate.
  - destruct H as (n & -> & Hf & _). split.
    + unfold sheet_names. rewrite map_app. simpl. apply ci_unique_snoc; assumption.
    + apply Forall_app. split; [exact Ht|]. constructor; [|constructor].
      simpl. unfold ci_unique. simpl. constructor; [intros []|constructor].
  - destruct H as (i & s & n & Hi & Hsn & -> & Hf & _). split.
    + unfold sheet_names. rewrite map_replace_at. simpl.
      rewrite replace_at_same; [exact Hs|]. apply map_nth_error, Hsn.
    + apply Forall_replace_at; [exact Ht|]. simpl. apply ci_unique_snoc; [|exact Hf].
      rewrite Forall_forall in Ht. apply Ht. eapply nth_error_In, Hsn.
Qed.

Lemma adds_keep_unique_lemma h : forall d,
  forallb is_add h = true -> doc_unique lower d -> doc_unique lower (run lower d h).
Proof.
  induction h as [|o h IH]; intros d Ha Hu; simpl; [exact Hu|].
  simpl in Ha. apply andb_true_iff in Ha. destruct Ha as [Ho Hh].
  apply IH; [exact Hh|].
  destruct (step lower d o) as [d' r] eqn:Hst. simpl. destruct r as [[]|e].
  - eapply step_add_unique; eauto.
  - apply step_err_unchanged in Hst. destruct Hst as [-> _]. exact Hu.
Qed.

(* ----- well-formedness is kept by every operation ----- *)
Lemma step_wf d o : wf_doc d -> wf_doc (fst (step lower d o)).
Proof.
  intros Hwf. destruct (step lower d o) as [d' r] eqn:Hst. simpl. destruct r as [[]|e].
  2:{ apply step_err_unchanged in Hst. destruct Hst as [-> _]. exact Hwf. }
  apply step_ok_apply in Hst. destruct Hwf as [Hne Hts].
  destruct o as [name t|si name|si v|si ti v]; simpl in Hst.
  - apply add_sheet_inv in Hst. destruct Hst as (n & _ & ->). split.
    + destruct d; discriminate.
    + apply Forall_app; split; [exact Hts|]. constructor; [simpl; discriminate|constructor].
  - apply add_table_inv in Hst. destruct Hst as (i & s & n & Hi & Hs & _ & ->). split.
    + intros Hnil. apply (f_equal (@length _)) in Hnil. rewrite replace_at_length in Hnil.
      destruct d; [congruence|discriminate].
    + apply Forall_replace_at; [exact Hts|]. simpl. destruct (snd s); discriminate.
  - unfold rename_sheet in Hst. destruct (get_idx (length d) si) as [i|e]; simpl in Hst; [|discriminate].
    unfold fetch in Hst. destruct (nth_error d i) as [s|] eqn:Hs; simpl in Hst; [|discriminate].
    injection Hst as <-. split.
    + intros Hnil. apply (f_equal (@length _)) in Hnil. rewrite replace_at_length in Hnil.
      destruct d; [congruence|discriminate].
    + apply Forall_replace_at; [exact Hts|]. simpl. rewrite Forall_forall in Hts. apply Hts.
      eapply nth_error_In, Hs.
  - unfold rename_table in Hst. destruct (get_idx (length d) si) as [i|e]; simpl in Hst; [|discriminate].
    unfold fetch in Hst. destruct (nth_error d i) as [s|] eqn:Hs; simpl in Hst; [|discriminate].
    destruct (get_idx (length (snd s)) ti) as [j|e] eqn:Hj; simpl in Hst; [|discriminate].
    injection Hst as <-. split.
    + intros Hnil. apply (f_equal (@length _)) in Hnil. rewrite replace_at_length in Hnil.
      destruct d; [congruence|discriminate].
    + apply Forall_replace_at; [exact Hts|]. simpl. intros Hnil.
      apply (f_equal (@length _)) in Hnil. rewrite replace_at_length in Hnil.
      apply get_idx_lt in Hj. simpl in Hnil. lia.
Qed.

Lemma run_wf h : forall d, wf_doc d -> wf_doc (run lower d h).
Proof.
  induction h as [|o h IH]; intros d Hwf; simpl; [exact Hwf|]. apply IH, step_wf, Hwf.
Qed.

(* ----- generated names ----- *)
Lemma auto_sheet_lemma d t :
  wf_doc d ->
  exists m, step lower d (AddSheet None t) = (d ++ [(auto_name Sheet_P m, [t])], Ok tt) /\
    1 <= m <= N.of_nat (length d) + 1 /\
    ci_fresh lower (auto_name Sheet_P m) (sheet_names d) /\
    forall j, 1 <= j < m -> ~ ci_fresh lower (auto_name Sheet_P j) (sheet_names d).
Proof.
  intros Hwf. destruct sheet_pfx as (a & b & c & e).
  destruct (choose_auto lower Hlower (sheet_names d) Sheet_P sheet_p a b c e) as (m & Hm & Hr & Hf & Hmin).
  exists m. unfold step. simpl apply. rewrite (add_sheet_ok d None t _ Hwf Hm).
  unfold sheet_names in Hr. rewrite map_length in Hr. auto.
Qed.

Lemma auto_table_lemma d si i s :
  get_idx (length d) si = Ok i -> nth_error d i = Some s -> snd s <> [] ->
  exists m, step lower d (AddTable si None) = (replace_at d i (fst s, snd s ++ [auto_name Table_P m]), Ok tt) /\
    1 <= m <= N.of_nat (length (snd s)) + 1 /\
    ci_fresh lower (auto_name Table_P m) (snd s) /\
    forall j, 1 <= j < m -> ~ ci_fresh lower (auto_name Table_P j) (snd s).
Proof.
  intros Hi Hs Hne. destruct table_pfx as (a & b & c & e).
  destruct (choose_auto lower Hlower (snd s) Table_P table_p a b c e) as (m & Hm & Hr & Hf & Hmin).
  exists m. unfold step. simpl apply. rewrite (add_table_ok d si None i s _ Hi Hs Hne Hm). auto.
Qed.

End Docs.

(* the statements that need nothing about lower *)
Section DocsAnyLower.
Variable lower : str -> str.
Implicit Types (d : doc) (s : sheet).

Lemma dup_sheet_refused d n t :
  ~ ci_fresh lower n (sheet_names d) -> step lower d (AddSheet (Some n) t) = (d, Err IndexError).
Proof.
  intros H. unfold step. simpl apply. unfold add_sheet.
  rewrite choose_named_dup by exact H. reflexivity.
Qed.

Lemma dup_table_refused d si i s n :
  get_idx (length d) si = Ok i -> nth_error d i = Some s ->
  ~ ci_fresh lower n (snd s) -> step lower d (AddTable si (Some n)) = (d, Err IndexError).
Proof.
  intros Hi Hs H. unfold step. simpl apply. unfold add_table. rewrite Hi. cbn [bind].
  unfold fetch. rewrite Hs. cbn [bind].
  assert (Hne : snd s <> []).
  { intros Hnil. apply H. unfold ci_fresh. rewrite Hnil. simpl. tauto. }
  destruct (get_last_ok (snd s) Hne) as [l Hl]. rewrite Hl. cbn [bind].
  rewrite choose_named_dup by exact H. reflexivity.
Qed.

Lemma fresh_sheet_accepted d n t :
  wf_doc d -> ci_fresh lower n (sheet_names d) ->
  step lower d (AddSheet (Some n) t) = (d ++ [(n, [t])], Ok tt).
Proof.
  intros Hwf H. unfold step. simpl apply.
  rewrite (add_sheet_ok lower d (Some n) t n Hwf (choose_named_ok lower _ n _ _ H)). reflexivity.
Qed.

Lemma fresh_table_accepted d si i s n :
  get_idx (length d) si = Ok i -> nth_error d i = Some s -> snd s <> [] ->
  ci_fresh lower n (snd s) ->
  step lower d (AddTable si (Some n)) = (replace_at d i (fst s, snd s ++ [n]), Ok tt).
Proof.
  intros Hi Hs Hne H. unfold step. simpl apply.
  rewrite (add_table_ok lower d si (Some n) i s n Hi Hs Hne (choose_named_ok lower _ n _ _ H)). reflexivity.
Qed.

Lemma failed_step_unchanged_lemma d o d' e : step lower d o = (d', Err e) -> d' = d.
Proof. intros H. apply step_err_unchanged in H. tauto. Qed.

(* ----- order ----- *)
Lemma list_prefix_refl {A} (l : list A) : list_prefix l l.
Proof. exists []. rewrite app_nil_r. reflexivity. Qed.

Lemma list_prefix_trans {A} (a b c : list A) : list_prefix a b -> list_prefix b c -> list_prefix a c.
Proof. intros [t ->] [u ->]. exists (t ++ u). rewrite app_assoc. reflexivity. Qed.

Lemma doc_prefix_refl d : doc_prefix d d.
Proof. induction d as [|[n ts] d IH]; constructor; auto. apply list_prefix_refl. Qed.

Lemma doc_prefix_trans a b c : doc_prefix a b -> doc_prefix b c -> doc_prefix a c.
Proof.
  intros Hab. revert c. induction Hab as [t|n ts ts' d d' Hp Hd IH]; intros c Hbc.
  - constructor.
  - inversion Hbc as [|n0 ts0 ts'' d0 d'' Hp' Hd']; subst. constructor.
    + eapply list_prefix_trans; eauto.
    + apply IH, Hd'.
Qed.

Lemma doc_prefix_snoc d x : doc_prefix d (d ++ [x]).
Proof. induction d as [|[n ts] d IH]; simpl; constructor; auto. apply list_prefix_refl. Qed.

Lemma doc_prefix_replace d : forall i s n,
  nth_error d i = Some s -> doc_prefix d (replace_at d i (fst s, snd s ++ [n])).
Proof.
  induction d as [|[m ts] d IH]; intros [|i] s n Hs; simpl in *; try discriminate.
  - injection Hs as <-. simpl. constructor; [exists [n]; reflexivity | apply doc_prefix_refl].
  - constructor; [apply list_prefix_refl | apply IH, Hs].
Qed.

Lemma step_add_prefix d o :
  is_add o = true -> doc_prefix d (fst (step lower d o)).
Proof.
  intros Ha. destruct (step lower d o) as [d' r] eqn:Hst. simpl. destruct r as [[]|e].
  2:{ apply step_err_unchanged in Hst. destruct Hst as [-> _]. apply doc_prefix_refl. }
  apply step_ok_apply in Hst. destruct o as [name t|si name|si v|si ti v]; simpl in *; try discriminate.
  - apply add_sheet_inv in Hst. destruct Hst as (n & _ & ->). apply doc_prefix_snoc.
  - apply add_table_inv in Hst. destruct Hst as (i & s & n & _ & Hs & _ & ->). apply doc_prefix_replace, Hs.
Qed.

Lemma adds_only_append_lemma h : forall d, forallb is_add h = true -> doc_prefix d (run lower d h).
Proof.
  induction h as [|o h IH]; intros d Ha; simpl; [apply doc_prefix_refl|].
  simpl in Ha. apply andb_true_iff in Ha. destruct Ha as [Ho Hh].
  eapply doc_prefix_trans; [apply step_add_prefix, Ho | apply IH, Hh].
Qed.

(* a rename changes exactly one name and nothing else *)
Lemma rename_sheet_lemma d si v d' :
  step lower d (RenameSheet si v) = (d', Ok tt) ->
  exists i s, get_idx (length d) si = Ok i /\ nth_error d i = Some s /\
    d' = replace_at d i (v, snd s).
Proof.
  intros H. apply step_ok_apply in H. simpl in H. unfold rename_sheet in H.
  destruct (get_idx (length d) si) as [i|e]; simpl in H; [|discriminate].
  unfold fetch in H. destruct (nth_error d i) as [s|] eqn:Hs; simpl in H; [|discriminate].
  injection H as <-. eauto.
Qed.

Lemma rename_table_lemma d si ti v d' :
  step lower d (RenameTable si ti v) = (d', Ok tt) ->
  exists i s j, get_idx (length d) si = Ok i /\ nth_error d i = Some s /\
    get_idx (length (snd s)) ti = Ok j /\
    d' = replace_at d i (fst s, replace_at (snd s) j v).
Proof.
  intros H. apply step_ok_apply in H. simpl in H. unfold rename_table in H.
  destruct (get_idx (length d) si) as [i|e]; simpl in H; [|discriminate].
  unfold fetch in H. destruct (nth_error d i) as [s|] eqn:Hs; simpl in H; [|discriminate].
  destruct (get_idx (length (snd s)) ti) as [j|e] eqn:Hj; simpl in H; [|discriminate].
  injection H as <-. exists i, s, j. auto.
Qed.

End DocsAnyLower.

(* ---------- the pinned __getitem__ wraps twice ---------- *)
Lemma pinned_wraps_twice :
  get_pinned [[97]; [98]] (-3) = Ok [98] /\ get [[97]; [98]] (-3) = Err IndexError.
Proof. split; reflexivity. Qed.

(* lower_ascii is satisfiable: ASCII lowering itself *)
Lemma ascii_lower_is_lower_ascii : lower_ascii ascii_lower.
Proof. intros s _. reflexivity. Qed.
