(* C06: the order of the members of the container (zip directory order, package folder iteration order) does not
   change what the ObjectStore holds: same object under every identifier, same member name for every identifier,
   same blob under every member name; find_refs returns the same identifiers (possibly in another order). *)
From Coq Require Import NArith List Bool Lia Permutation.
From NP Require Import Model.PyBase Model.Assoc Model.ObjStore Proofs.AssocP.
Import ListNotations.

Lemma str_eqb_spec' : forall a b : list N, str_eqb a b = true <-> a = b.
Proof.
  induction a as [|x a IH]; intros [|y b]; cbn [str_eqb]; try (split; [discriminate|discriminate]); [split; reflexivity|].
  rewrite andb_true_iff, N.eqb_eq, IH. split; [intros [-> ->]; reflexivity|intros H; injection H; auto].
Qed.

Lemma Neqb_spec2 : forall a b : N, N.eqb a b = true <-> a = b.
Proof. intros. apply N.eqb_eq. Qed.

Section StoreP.
  Variables B O : Type.
  Notation member := (member B O).

  Lemma filename_keys : forall ms : list member, map fst (filename_items B O ms) = map fst (object_items B O ms).
  Proof.
    induction ms as [|m r IH]; [reflexivity|]. unfold filename_items, object_items in *. cbn [flat_map].
    rewrite !map_app, IH. f_equal. rewrite map_map. reflexivity.
  Qed.

  Theorem member_order_irrelevant_lemma : forall ms1 ms2 : list member, Permutation ms1 ms2 ->
    NoDup (map m_name ms1) -> NoDup (map fst (object_items B O ms1)) ->
    (forall id, get_object B O ms1 id = get_object B O ms2 id) /\
    (forall id, get_filename B O ms1 id = get_filename B O ms2 id) /\
    (forall name, get_file B O ms1 name = get_file B O ms2 name).
  Proof.
    intros ms1 ms2 Hp Hn Hi. split; [|split].
    - intros id. unfold get_object, objects. apply of_items_perm_lookup; [exact Neqb_spec2| |exact Hi].
      unfold object_items. now apply Permutation_flat_map.
    - intros id. unfold get_filename, object_to_filename. apply of_items_perm_lookup; [exact Neqb_spec2| |].
      + unfold filename_items. now apply Permutation_flat_map.
      + now rewrite filename_keys.
    - intros name. unfold get_file, file_store. apply of_items_perm_lookup; [exact str_eqb_spec'| |].
      + unfold file_items. now apply Permutation_map.
      + unfold file_items. now rewrite map_map.
  Qed.

  (* every archive of every member is found under its identifier, with its member's name *)
  Theorem store_finds_lemma : forall (ms : list member) m id o, NoDup (map fst (object_items B O ms)) ->
    In m ms -> In (id, o) (m_archives m) ->
    get_object B O ms id = Some o /\ get_filename B O ms id = Some (m_name m).
  Proof.
    intros ms m id o Hnd Hm Ha. split.
    - unfold get_object, objects. apply of_items_finds; [exact Neqb_spec2|exact Hnd|].
      unfold object_items. apply in_flat_map. now exists m.
    - unfold get_filename, object_to_filename. apply of_items_finds; [exact Neqb_spec2|now rewrite filename_keys|].
      unfold filename_items. apply in_flat_map. exists m. split; [exact Hm|].
      apply in_map_iff. now exists (id, o).
  Qed.

  (* max identifier (the base of new object ids) is order independent *)
  Lemma fold_max_spec : forall (l : list N) (a : N),
    let r := fold_left N.max l a in (a <= r)%N /\ (forall x, In x l -> (x <= r)%N) /\ (r = a \/ In r l).
  Proof.
    induction l as [|x l IH]; intros a; cbn [fold_left]; cbv zeta.
    - split; [lia|]. split; [intros ? []|now left].
    - specialize (IH (N.max a x)). cbv zeta in IH. destruct IH as (H1 & H2 & H3). split; [lia|]. split.
      + intros y [<-|Hy]; [lia|now apply H2].
      + destruct H3 as [H3|H3]; [|right; now right]. rewrite H3.
        destruct (N.max_spec a x) as [[_ ->]|[_ ->]]; [right; now left|now left].
  Qed.

  Theorem max_id_perm_lemma : forall ms1 ms2 : list member, Permutation ms1 ms2 -> max_id B O ms1 = max_id B O ms2.
  Proof.
    intros ms1 ms2 Hp. unfold max_id.
    assert (Hk : Permutation (map fst (object_items B O ms1)) (map fst (object_items B O ms2))).
    { apply Permutation_map. unfold object_items. now apply Permutation_flat_map. }
    pose proof (fold_max_spec (map fst (object_items B O ms1)) 0%N) as (A1 & A2 & A3).
    pose proof (fold_max_spec (map fst (object_items B O ms2)) 0%N) as (B1 & B2 & B3). cbv zeta in *.
    set (r1 := fold_left N.max (map fst (object_items B O ms1)) 0%N) in *.
    set (r2 := fold_left N.max (map fst (object_items B O ms2)) 0%N) in *.
    assert (r1 <= r2)%N by (destruct A3 as [->|A3]; [exact B1|apply B2; eapply Permutation_in; eauto]).
    assert (r2 <= r1)%N by (destruct B3 as [->|B3]; [exact A1|apply A2; eapply Permutation_in; [apply Permutation_sym|]; eauto]).
    lia.
  Qed.

  (* find_refs: same identifiers, possibly another order *)
  Lemma mem_false : forall (k : N) seen, ~ In k seen -> mem N.eqb k seen = false.
  Proof.
    induction seen as [|x r IH]; intros H; cbn [mem]; [reflexivity|].
    rewrite IH by (intros Hi; apply H; now right).
    destruct (N.eqb_spec k x) as [->|]; [exfalso; apply H; now left|reflexivity].
  Qed.

  Lemma first_keys_nodup : forall (items : list (N * O)) seen, NoDup (map fst items) ->
    (forall k, In k seen -> ~ In k (map fst items)) -> first_keys N.eqb seen items = map fst items.
  Proof.
    induction items as [|[k v] r IH]; intros seen Hnd Hs; [reflexivity|]. cbn [first_keys map fst].
    cbn [map fst] in Hnd. apply NoDup_cons_iff in Hnd as [Hn Hr].
    rewrite mem_false by (intros Hi; apply (Hs k Hi); now left). f_equal. apply IH; [exact Hr|].
    intros k' [<-|Hk']; [exact Hn|]. intros Hi. apply (Hs k' Hk'). now right.
  Qed.

  Lemma filter_keys : forall (items all : list (N * O)) (p : O -> bool), NoDup (map fst all) -> incl items all ->
    filter (fun k => match aget N.eqb k (of_items all) with Some o => p o | None => false end) (map fst items) =
    map fst (filter (fun e => p (snd e)) items).
  Proof.
    induction items as [|[k v] r IH]; intros all p Hnd Hin; [reflexivity|]. cbn [map fst filter snd].
    rewrite (of_items_finds N O N.eqb Neqb_spec2 all k v Hnd) by (apply Hin; now left).
    rewrite (IH all p Hnd) by (intros x Hx; apply Hin; now right). now destruct (p v).
  Qed.

  Theorem find_refs_perm_lemma : forall (is_type : O -> bool) (ms1 ms2 : list member), Permutation ms1 ms2 ->
    NoDup (map fst (object_items B O ms1)) -> Permutation (find_refs B O is_type ms1) (find_refs B O is_type ms2).
  Proof.
    intros p ms1 ms2 Hp Hnd.
    assert (Hpi : Permutation (object_items B O ms1) (object_items B O ms2)) by (unfold object_items; now apply Permutation_flat_map).
    assert (Hnd2 : NoDup (map fst (object_items B O ms2))) by (eapply Permutation_NoDup; [apply Permutation_map; exact Hpi|exact Hnd]).
    unfold find_refs, get_object, objects.
    rewrite !first_keys_nodup by (try assumption; intros ? []).
    rewrite !filter_keys by (try assumption; apply incl_refl).
    apply Permutation_map. clear -Hpi. induction Hpi; cbn [filter].
    - constructor.
    - destruct (p (snd x)); [now constructor|assumption].
    - destruct (p (snd x)), (p (snd y)); try apply Permutation_refl; [apply perm_swap].
    - eapply Permutation_trans; eassumption.
  Qed.
End StoreP.
