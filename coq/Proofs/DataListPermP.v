(* C06: a table's lookup list (strings, formats, styles, formulas ...) is read through the index DataLists.add_table
   builds.  Theorems about the REPAIRED add_table (every entry indexed): every entry is found under its key,
   lookups are invariant under any permutation of the stored entries, table_string never takes its KeyError -> ""
   fallback for a key the list holds.  The pinned add_table (an entry indexed only when its key exceeds all earlier
   keys) is refuted by [(2,"b");(1,"a")] and coincides with the repaired one on strictly ascending positive keys -
   which is why none of the shipped fixtures could show the defect. *)
From Coq Require Import ZArith NArith List Bool Lia Permutation Sorted.
From NP Require Import Model.PyBase Model.Assoc Model.DataList Proofs.AssocP.
Import ListNotations.

Section DLPerm.
  Variable V : Type.
  Variable veqb : V -> V -> bool.

  Notation zget := (zget V).
  Notation dl := (dl V).

  Lemma zget_aget : forall k (m : list (Z * V)), zget k m = aget Z.eqb k m.
  Proof. induction m as [|[k' v] r IH]; cbn; [reflexivity|]. now rewrite IH. Qed.

  Lemma Zeqb_spec' : forall a b : Z, (a =? b)%Z = true <-> a = b.
  Proof. intros. apply Z.eqb_eq. Qed.

  Definition swap (e : Z * V) : V * Z := (snd e, fst e).

  Lemma index_fold : forall es mx bk bv,
    fold_left (index_step V) es (mx, bk, bv) =
    (fold_left (fun m (e : Z * V) => if (m <? fst e)%Z then fst e else m) es mx, rev es ++ bk, rev (map swap es) ++ bv).
  Proof.
    induction es as [|[k v] r IH]; intros mx bk bv; cbn [fold_left]; [reflexivity|].
    cbn [index_step]. rewrite IH. cbn [fst map rev swap snd]. now rewrite <- !app_assoc.
  Qed.

  Definition max_key (es : list (Z * V)) : Z :=
    fold_left (fun m (e : Z * V) => if (m <? fst e)%Z then fst e else m) es 0%Z.

  Lemma add_table_eq es :
    add_table V es = {| entries := es; by_key := of_items es; by_value := rev (map swap es); next_key := (max_key es + 1)%Z |}.
  Proof. unfold add_table. rewrite index_fold, !app_nil_r. reflexivity. Qed.

  Lemma by_key_add_table es : by_key (add_table V es) = of_items es.
  Proof. now rewrite add_table_eq. Qed.

  (* ---- every entry is found under its key ---- *)
  Theorem datalist_finds_lemma : forall es k v, NoDup (map fst es) -> In (k, v) es ->
    lookup_value V (add_table V es) k = Ok v.
  Proof.
    intros es k v Hnd Hin. unfold lookup_value. rewrite by_key_add_table, zget_aget.
    now rewrite (of_items_finds Z V Z.eqb Zeqb_spec' es k v Hnd Hin).
  Qed.

  (* without the NoDup premise: a key the list holds is always found, and what is found is an entry with that key *)
  Theorem datalist_present_lemma : forall es k, In k (map fst es) ->
    exists v, lookup_value V (add_table V es) k = Ok v /\ In (k, v) es.
  Proof.
    intros es k Hin. unfold lookup_value. rewrite by_key_add_table, zget_aget.
    assert (Hin' : In k (map fst (of_items es))) by (unfold of_items; rewrite map_rev; now apply -> in_rev).
    destruct (aget_some_key Z V Z.eqb Zeqb_spec' _ _ Hin') as [v Hv]. rewrite Hv. exists v. split; [reflexivity|].
    apply aget_in in Hv; [|exact Zeqb_spec']. unfold of_items in Hv. now apply in_rev.
  Qed.

  Theorem datalist_absent_lemma : forall es k, ~ In k (map fst es) -> lookup_value V (add_table V es) k = Err KeyError.
  Proof.
    intros es k Hn. unfold lookup_value. rewrite by_key_add_table, zget_aget.
    rewrite aget_none; [reflexivity|exact Zeqb_spec'|]. unfold of_items. rewrite map_rev. intros H. apply Hn. now apply in_rev.
  Qed.

  (* ---- the order in which the entries are stored does not matter ---- *)
  Theorem datalist_perm_lemma : forall l1 l2, Permutation l1 l2 -> NoDup (map fst l1) ->
    forall k, lookup_value V (add_table V l1) k = lookup_value V (add_table V l2) k.
  Proof.
    intros l1 l2 Hp Hnd k. unfold lookup_value. rewrite !by_key_add_table, !zget_aget.
    now rewrite (of_items_perm_lookup Z V Z.eqb Zeqb_spec' l1 l2 Hp Hnd k).
  Qed.

  (* the next free key is the maximum + 1 whatever the order *)
  Lemma max_key_ge : forall es m, (m <= fold_left (fun m (e : Z * V) => if (m <? fst e)%Z then fst e else m) es m)%Z.
  Proof.
    induction es as [|e r IH]; intros m; cbn [fold_left]; [lia|].
    destruct (Z.ltb_spec m (fst e)); [specialize (IH (fst e))|specialize (IH m)]; lia.
  Qed.

  Lemma max_fold_spec : forall es m,
    let r := fold_left (fun m (e : Z * V) => if (m <? fst e)%Z then fst e else m) es m in
    (m <= r)%Z /\ (forall e, In e es -> (fst e <= r)%Z) /\ (r = m \/ In r (map fst es)).
  Proof.
    induction es as [|e r IH]; intros m; cbn [fold_left]; cbv zeta.
    - split; [lia|]. split; [intros ? []|now left].
    - destruct (Z.ltb_spec m (fst e)) as [Hlt|Hge].
      + specialize (IH (fst e)). cbv zeta in IH. destruct IH as (H1 & H2 & H3). split; [lia|]. split.
        * intros e' [<-|Hin]; [exact H1|now apply H2].
        * right. destruct H3 as [->|H3]; [now left|now right].
      + specialize (IH m). cbv zeta in IH. destruct IH as (H1 & H2 & H3). split; [lia|]. split.
        * intros e' [<-|Hin]; [lia|now apply H2].
        * destruct H3 as [H3|H3]; [now left|right; now right].
  Qed.

  Theorem next_key_perm_lemma : forall l1 l2, Permutation l1 l2 -> next_key (add_table V l1) = next_key (add_table V l2).
  Proof.
    intros l1 l2 Hp. rewrite !add_table_eq. cbn [next_key]. f_equal. unfold max_key.
    pose proof (max_fold_spec l1 0%Z) as (A1 & A2 & A3). pose proof (max_fold_spec l2 0%Z) as (B1 & B2 & B3).
    cbv zeta in *.
    set (r1 := fold_left _ l1 0%Z) in *. set (r2 := fold_left _ l2 0%Z) in *.
    assert (r1 <= r2)%Z.
    { destruct A3 as [->|A3]; [exact B1|]. apply in_map_iff in A3 as (e & <- & He). apply B2.
      eapply Permutation_in; [exact Hp|exact He]. }
    assert (r2 <= r1)%Z.
    { destruct B3 as [->|B3]; [exact A1|]. apply in_map_iff in B3 as (e & <- & He). apply A2.
      eapply Permutation_in; [apply Permutation_sym; exact Hp|exact He]. }
    lia.
  Qed.

  (* every key handed out later is fresh *)
  Theorem next_key_fresh_lemma : forall es e, In e es -> (fst e < next_key (add_table V es))%Z.
  Proof.
    intros es e Hin. rewrite add_table_eq. cbn [next_key]. unfold max_key.
    pose proof (max_fold_spec es 0%Z) as (_ & H & _). cbv zeta in H. specialize (H e Hin). lia.
  Qed.

  (* ---- table_string: the KeyError -> fallback branch is never taken for a key the list holds ---- *)
  Definition text_cells_valid (es : list (Z * V)) (cell_keys : list Z) : Prop :=
    Forall (fun k => In k (map fst es)) cell_keys.

  Theorem no_silent_empty_lemma : forall es cell_keys, text_cells_valid es cell_keys ->
    forall k, In k cell_keys ->
    exists v, In (k, v) es /\ lookup_value V (add_table V es) k = Ok v /\
              forall fallback, table_string V fallback (add_table V es) k = v.
  Proof.
    intros es ks Hv k Hk. unfold text_cells_valid in Hv. rewrite Forall_forall in Hv. specialize (Hv k Hk).
    destruct (datalist_present_lemma es k Hv) as (v & Hl & Hin). exists v. split; [exact Hin|]. split; [exact Hl|].
    intros fb. unfold table_string. now rewrite Hl.
  Qed.

  (* ---- the pinned indexer ---- *)
  Lemma pinned_sorted_fold : forall es mx bk bv,
    StronglySorted Z.lt (map fst es) -> Forall (fun e => (mx < fst e)%Z) es ->
    fold_left (index_step_pinned V) es (mx, bk, bv) = fold_left (index_step V) es (mx, bk, bv).
  Proof.
    induction es as [|[k v] r IH]; intros mx bk bv Hs Hgt; cbn [fold_left]; [reflexivity|].
    cbn [index_step index_step_pinned]. pose proof (Forall_inv Hgt) as Hk. cbn [fst] in Hk.
    destruct (Z.ltb_spec mx k); [|lia]. cbn [map fst] in Hs. inversion Hs as [|a l Hs' Hall]; subst.
    apply IH; [exact Hs'|]. rewrite Forall_forall. intros e He. rewrite Forall_forall in Hall.
    apply Hall. now apply in_map.
  Qed.

  Theorem pinned_ascending_lemma : forall es, StronglySorted Z.lt (map fst es) -> Forall (fun e => (0 < fst e)%Z) es ->
    add_table_pinned V es = add_table V es.
  Proof. intros es Hs Hp. unfold add_table_pinned, add_table. now rewrite pinned_sorted_fold. Qed.
End DLPerm.

(* the refutation of "every entry is found" for the pinned indexer, on strings *)
Lemma datalist_finds_pinned_refuted_lemma :
  exists (es : list (Z * list N)) k v, NoDup (map fst es) /\ In (k, v) es /\
    lookup_value (list N) (add_table_pinned (list N) es) k = Err KeyError /\
    table_string (list N) [] (add_table_pinned (list N) es) k = [] /\ v <> [].
Proof.
  exists [(2%Z, [98%N]); (1%Z, [97%N])], 1%Z, [97%N].
  split; [repeat constructor; cbn; intuition discriminate|].
  split; [right; now left|]. split; [reflexivity|]. split; [reflexivity|discriminate].
Qed.
