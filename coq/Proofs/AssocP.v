(* Association-list facts: with pairwise distinct keys a lookup finds exactly the pairs of the list,
   hence lookups are invariant under any permutation of the items. *)
From Coq Require Import List Bool Permutation.
From NP Require Import Model.Assoc.
Import ListNotations.

Section AssocP.
  Variables K V : Type.
  Variable keqb : K -> K -> bool.
  Hypothesis keqb_spec : forall a b, keqb a b = true <-> a = b.

  Lemma keqb_refl a : keqb a a = true.
  Proof. now apply keqb_spec. Qed.

  Lemma keqb_neq a b : a <> b -> keqb a b = false.
  Proof. intros H. destruct (keqb a b) eqn:E; [|reflexivity]. apply keqb_spec in E. contradiction. Qed.

  Lemma aget_in : forall (m : list (K * V)) k v, aget keqb k m = Some v -> In (k, v) m.
  Proof.
    induction m as [|[k' v'] r IH]; intros k v H; cbn [aget] in H; [discriminate|].
    destruct (keqb k k') eqn:E.
    - apply keqb_spec in E. subst k'. injection H as <-. now left.
    - right. now apply IH.
  Qed.

  Lemma aget_none : forall (m : list (K * V)) k, ~ In k (map fst m) -> aget keqb k m = None.
  Proof.
    induction m as [|[k' v'] r IH]; intros k H; cbn [aget]; [reflexivity|].
    cbn [map fst In] in H. rewrite keqb_neq by (intros ->; apply H; now left).
    apply IH. intros Hin. apply H. now right.
  Qed.

  Lemma aget_some_key : forall (m : list (K * V)) k, In k (map fst m) -> exists v, aget keqb k m = Some v.
  Proof.
    induction m as [|[k' v'] r IH]; intros k H; cbn [map fst In] in H; [contradiction|]. cbn [aget].
    destruct (keqb k k') eqn:E; [now eexists|].
    destruct H as [H|H]; [subst k'; now rewrite keqb_refl in E|]. now apply IH.
  Qed.

  Lemma in_aget : forall (m : list (K * V)) k v, NoDup (map fst m) -> In (k, v) m -> aget keqb k m = Some v.
  Proof.
    induction m as [|[k' v'] r IH]; intros k v Hnd Hin; [contradiction|].
    cbn [map fst] in Hnd. pose proof (NoDup_cons_iff k' (map fst r)) as [Hc _]. specialize (Hc Hnd) as [Hnot Hnd'].
    cbn [aget]. destruct Hin as [Heq|Hin].
    - injection Heq as -> ->. now rewrite keqb_refl.
    - assert (Hk : k <> k') by (intros ->; apply Hnot; apply (in_map fst) in Hin; exact Hin).
      rewrite keqb_neq by exact Hk. now apply IH.
  Qed.

  (* the theorem behind every "order of storage does not matter" statement of C06 *)
  Theorem aget_perm : forall (m1 m2 : list (K * V)), Permutation m1 m2 -> NoDup (map fst m1) ->
    forall k, aget keqb k m1 = aget keqb k m2.
  Proof.
    intros m1 m2 Hp Hnd k.
    assert (Hnd2 : NoDup (map fst m2)) by (eapply Permutation_NoDup; [apply Permutation_map; exact Hp|exact Hnd]).
    destruct (aget keqb k m1) as [v|] eqn:E1.
    - symmetry. apply in_aget; [exact Hnd2|]. eapply Permutation_in; [exact Hp|]. now apply aget_in.
    - destruct (aget keqb k m2) as [v|] eqn:E2; [|reflexivity].
      apply aget_in in E2. apply (Permutation_in _ (Permutation_sym Hp)) in E2.
      rewrite (in_aget _ _ _ Hnd E2) in E1. discriminate.
  Qed.

  Lemma of_items_perm (l : list (K * V)) : Permutation l (of_items l).
  Proof. apply Permutation_rev. Qed.

  Lemma of_items_nodup (l : list (K * V)) : NoDup (map fst l) -> NoDup (map fst (of_items l)).
  Proof. intros H. unfold of_items. rewrite map_rev. apply NoDup_rev. exact H. Qed.

  Theorem of_items_finds : forall (l : list (K * V)) k v, NoDup (map fst l) -> In (k, v) l ->
    aget keqb k (of_items l) = Some v.
  Proof.
    intros l k v Hnd Hin. apply in_aget; [now apply of_items_nodup|].
    unfold of_items. now apply -> in_rev.
  Qed.

  Theorem of_items_perm_lookup : forall (l1 l2 : list (K * V)), Permutation l1 l2 -> NoDup (map fst l1) ->
    forall k, aget keqb k (of_items l1) = aget keqb k (of_items l2).
  Proof.
    intros l1 l2 Hp Hnd k. apply aget_perm; [|now apply of_items_nodup].
    unfold of_items. eapply Permutation_trans; [apply Permutation_sym, Permutation_rev|].
    eapply Permutation_trans; [exact Hp|apply Permutation_rev].
  Qed.
End AssocP.
