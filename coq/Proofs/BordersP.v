(* C15, part C: along every history of strokes, reads and reopens, every cell side shows the
   attributes of the last stroke drawn along its edge (tables without merged cells). *)
From Coq Require Import ZArith List Bool Lia.
From NP Require Import Model.PyBase Model.Borders Proofs.BordersPatchP Proofs.BordersReadP.
Import ListNotations.
Local Open Scope Z_scope.

Section Main.
Variable objs : nat -> attrs.
Variables nr nc : Z.

(* ---------- ghost state: what the strokes so far left, with their order stamps ---------- *)
Record ghost : Type := {
  g_max : Z;
  g_lines : side -> Z -> gline;               (* per stroke layer *)
  g_edges : edge -> option (Z * attrs)        (* per edge *)
}.

Definition stroke_run (s : stroke) (k : Z) : run :=
  {| r_origin := s_origin s; r_length := s_len s; r_order := k; r_attrs := objs (s_obj s) |}.

Definition ghost_step (g : ghost) (s : stroke) : ghost :=
  if valid nr nc s then
    let k := g_max g + 1 in
    {| g_max := k;
       g_lines := fun sd ln => if side_eqb sd (s_side s) && (ln =? layer_line s)
                               then g_update (g_lines g sd ln) (stroke_run s k)
                               else g_lines g sd ln;
       g_edges := fun e => if covers_edge s e then Some (k, objs (s_obj s)) else g_edges g e |}
  else g.

Definition ghost_ok (g : ghost) : Prop :=
  (forall sd ln p k a, g_lines g sd ln p = Some (k, a) -> k <= g_max g) /\
  (forall sd ln p k a, g_lines g sd ln p = Some (k, a) ->
     exists k' a', g_edges g (run_edge sd ln p) = Some (k', a') /\ (k < k' \/ (k = k' /\ a = a'))) /\
  (forall e k a, g_edges g e = Some (k, a) ->
     exists sd ln p, run_edge sd ln p = e /\ g_lines g sd ln p = Some (k, a)).

Lemma run_edge_stroke : forall s p,
  run_edge (s_side s) (layer_line s) p = (s_orient s, s_line s, p).
Proof. intros s p. unfold run_edge, layer_line, s_orient, s_line. destruct (s_side s); reflexivity. Qed.

Lemma orient_eqb_eq : forall a b, orient_eqb a b = true <-> a = b.
Proof. intros [] []; simpl; split; intros H; try reflexivity; discriminate. Qed.

Lemma covers_edge_iff : forall s e,
  covers_edge s e = true <-> exists p, covers (stroke_run s 0) p /\ e = run_edge (s_side s) (layer_line s) p.
Proof.
  intros s [[o l] p]. unfold covers_edge, covers. simpl. split.
  - rewrite !andb_true_iff, orient_eqb_eq, Z.eqb_eq, Z.leb_le, Z.ltb_lt. intros (((-> & ->) & H1) & H2).
    exists p. split; [lia|]. rewrite run_edge_stroke. reflexivity.
  - intros (q & Hq & He). rewrite run_edge_stroke in He. inversion He; subst.
    rewrite !andb_true_iff, orient_eqb_eq, Z.eqb_eq, Z.leb_le, Z.ltb_lt. repeat split; auto; lia.
Qed.

(* different layers have different edges, the same layer different positions *)
Lemma run_edge_inj : forall sd ln p sd' ln' p',
  run_edge sd ln p = run_edge sd' ln' p' -> p = p' /\ (sd = sd' -> ln = ln').
Proof.
  intros sd ln p sd' ln' p' H. destruct sd, sd'; simpl in H; inversion H; split; auto; intros; try discriminate; lia.
Qed.

Lemma ghost_step_ok : forall g s, ghost_ok g -> ghost_ok (ghost_step g s).
Proof.
  intros g s (G1 & G2 & G3). unfold ghost_step. destruct (valid nr nc s); [|repeat split; assumption].
  set (k := g_max g + 1).
  assert (Lines : forall sd ln p k0 a0,
            (if side_eqb sd (s_side s) && (ln =? layer_line s) then g_update (g_lines g sd ln) (stroke_run s k) else g_lines g sd ln) p = Some (k0, a0) ->
            (k0 = k /\ a0 = objs (s_obj s) /\ covers_edge s (run_edge sd ln p) = true) \/
            (g_lines g sd ln p = Some (k0, a0))).
  { intros sd ln p k0 a0 H. destruct (side_eqb sd (s_side s) && (ln =? layer_line s)) eqn:E; [|right; exact H].
    apply andb_true_iff in E. destruct E as (E1 & E2). apply side_eqb_eq in E1. apply Z.eqb_eq in E2. subst sd ln.
    unfold g_update in H. simpl in H.
    destruct ((s_origin s <=? p) && (p <? s_origin s + s_len s)) eqn:E; [|right; exact H].
    left. inversion H; subst. split; [reflexivity|split; [reflexivity|]].
    apply covers_edge_iff. exists p. split; [|reflexivity]. unfold covers. simpl.
    apply andb_true_iff in E. destruct E as (A & B). apply Z.leb_le in A. apply Z.ltb_lt in B. lia. }
  split; [|split].
  - simpl. intros sd ln p k0 a0 H. destruct (Lines sd ln p k0 a0 H) as [(-> & _)|H']; [lia|].
    specialize (G1 _ _ _ _ _ H'). unfold k. lia.
  - simpl. intros sd ln p k0 a0 H. destruct (Lines sd ln p k0 a0 H) as [(-> & -> & Hc)|H'].
    + rewrite Hc. exists k, (objs (s_obj s)). split; [reflexivity|right; split; reflexivity].
    + destruct (covers_edge s (run_edge sd ln p)).
      * exists k, (objs (s_obj s)). split; [reflexivity|]. left. specialize (G1 _ _ _ _ _ H'). unfold k. lia.
      * apply (G2 _ _ _ _ _ H').
  - simpl. intros e k0 a0 H. destruct (covers_edge s e) eqn:Hc.
    + inversion H; subst k0 a0. apply covers_edge_iff in Hc. destruct Hc as (p & Hp & ->).
      exists (s_side s), (layer_line s), p. split; [reflexivity|].
      replace (side_eqb (s_side s) (s_side s)) with true by (symmetry; apply side_eqb_eq; reflexivity).
      rewrite Z.eqb_refl. simpl. unfold g_update. simpl. unfold covers in Hp. simpl in Hp.
      replace ((s_origin s <=? p) && (p <? s_origin s + s_len s)) with true; [reflexivity|].
      symmetry. apply andb_true_iff. split; [apply Z.leb_le|apply Z.ltb_lt]; lia.
    + destruct (G3 e k0 a0 H) as (sd & ln & p & He & Hl). exists sd, ln, p. split; [exact He|].
      destruct (side_eqb sd (s_side s) && (ln =? layer_line s)) eqn:E; [|exact Hl].
      apply andb_true_iff in E. destruct E as (E1 & E2). apply side_eqb_eq in E1. apply Z.eqb_eq in E2. subst sd ln.
      unfold g_update. simpl.
      destruct ((s_origin s <=? p) && (p <? s_origin s + s_len s)) eqn:E; [|exact Hl].
      exfalso. assert (Hc' : covers_edge s e = true).
      { apply covers_edge_iff. exists p. split; [|symmetry; exact He]. unfold covers. simpl.
        apply andb_true_iff in E. destruct E as (A & B). apply Z.leb_le in A. apply Z.ltb_lt in B. lia. }
      rewrite Hc in Hc'. discriminate.
Qed.

Definition ghost_run (h : list stroke) (g : ghost) : ghost := fold_left ghost_step h g.

Lemma ghost_run_ok : forall h g, ghost_ok g -> ghost_ok (ghost_run h g).
Proof. induction h as [|s h IH]; intros g H; simpl; [exact H|apply IH, ghost_step_ok, H]. Qed.

(* the edge part of the ghost is the last-writer-wins map, with stamps *)
Lemma ghost_edges_lww : forall h g (m : edge -> option attrs),
  (forall e, option_map snd (g_edges g e) = m e) ->
  forall e, option_map snd (g_edges (ghost_run h g) e) = fold_left (lww_step objs nr nc) h m e.
Proof.
  induction h as [|s h IH]; intros g m H e; simpl; [apply H|].
  apply IH. intros e'. unfold ghost_step, lww_step. destruct (valid nr nc s); [|apply H].
  simpl. destruct (covers_edge s e'); [reflexivity|apply H].
Qed.

Definition ghost0 (max0 : Z) : ghost := {| g_max := max0; g_lines := fun _ _ _ => None; g_edges := fun _ => None |}.

Lemma ghost0_ok : forall max0, ghost_ok (ghost0 max0).
Proof. intros max0. repeat split; simpl; intros; discriminate. Qed.

(* ---------- the invariant tying a state to the ghost ---------- *)
Definition attr_view (heap : oid -> option border_obj) (cells : key -> option oid) (k : key) : option attrs :=
  option_map snd (cval heap cells k).

Definition J (g : ghost) (st : mem) : Prop :=
  (m_nr st = nr /\ m_nc st = nc) /\
  (m_max st = g_max g /\ 0 <= m_max st) /\
  (forall sd ln, layer_ok (m_max st) (m_layers st sd ln) (g_lines g sd ln)) /\
  (forall sd ln, m_layers st sd ln <> [] -> In ln (m_lorder st sd)) /\
  (forall n b, m_heap st (User n) = Some b -> bo_attrs b = objs n /\ bo_order b <= m_max st) /\
  (if m_extracted st
   then (forall k o, m_cells st k = Some o -> exists b, m_heap st o = Some b /\ bo_order b <= m_max st) /\
        (forall k, kin (in_table st) k = true ->
                   attr_view (m_heap st) (m_cells st) k = option_map snd (g_edges g (edge_of k)))
   else forall k, m_cells st k = None).

(* ---------- extraction ---------- *)
Lemma apply_run_user : forall inb sd ln acc r n,
  fst (fst (apply_run inb sd ln acc r)) (User n) = fst (fst acc) (User n).
Proof. intros inb sd ln [[h c] m] r n. reflexivity. Qed.

Lemma fold_user : forall (X : Type) (f : xacc -> X -> xacc),
  (forall acc x n, fst (fst (f acc x)) (User n) = fst (fst acc) (User n)) ->
  forall l acc n, fst (fst (fold_left f l acc)) (User n) = fst (fst acc) (User n).
Proof.
  intros X f Hf l. induction l as [|x rest IH]; intros acc n; simpl; [reflexivity|]. rewrite IH. apply Hf.
Qed.

Lemma extract_user : forall inb layers lorder acc n,
  fst (fst (fold_left (apply_side inb layers lorder) [STop; SLeft; SRight; SBottom] acc)) (User n) = fst (fst acc) (User n).
Proof.
  intros inb layers lorder. apply fold_user. intros acc sd n. unfold apply_side.
  apply fold_user. intros acc0 ln n0. unfold apply_layer. apply fold_user. intros. apply apply_run_user.
Qed.

(* what the offers to a cell side of the table amount to, given consistent layers *)
Lemma offers_resolve : forall g st k v,
  ghost_ok g ->
  (forall sd ln, layer_ok (m_max st) (m_layers st sd ln) (g_lines g sd ln)) ->
  (forall sd ln, m_layers st sd ln <> [] -> In ln (m_lorder st sd)) ->
  kin (in_table st) k = true ->
  Best (offers (in_table st) (m_layers st) (m_lorder st) k) v ->
  option_map snd v = option_map snd (g_edges g (edge_of k)) /\
  (forall q a, v = Some (q, a) -> q <= m_max st).
Proof.
  intros g st k v (G1 & G2 & G3) HL HO Hk HB.
  assert (Off : forall q a, offers (in_table st) (m_layers st) (m_lorder st) k (q, a) ->
            q <= m_max st /\
            exists k' a', g_edges g (edge_of k) = Some (k', a') /\ (q < k' \/ (q = k' /\ a = a'))).
  { intros q a (sd & ln & r & Hln & Hr & Ho & Ht). inversion Ho; subst q a.
    apply (touch_run_edge _ _ _ _ _ Hk) in Ht. destruct Ht as (p & Hp & He).
    destruct (HL sd ln) as (HB1 & HB2). split; [apply HB1; exact Hr|].
    specialize (HB2 p). destruct (g_lines g sd ln p) as [[k1 a1]|] eqn:Eg.
    - destruct HB2 as (_ & Hall). destruct (G2 _ _ _ _ _ Eg) as (k' & a' & Hge & Hrel).
      rewrite He. exists k', a'. split; [exact Hge|].
      destruct (Hall r Hr Hp) as [Hlt|(Heq & Ha)]; destruct Hrel as [Hlt'|(Heq' & Ha')]; try (left; lia).
      right. split; congruence.
    - exfalso. apply (HB2 r Hr Hp). }
  destruct (g_edges g (edge_of k)) as [[k0 a0]|] eqn:Ee.
  - destruct (G3 _ _ _ Ee) as (sd & ln & p & He & Hl).
    destruct (HL sd ln) as (_ & HB2). specialize (HB2 p). rewrite Hl in HB2.
    destruct HB2 as ((r & Hr & Hp & Hor & Har) & _).
    assert (Hoff : offers (in_table st) (m_layers st) (m_lorder st) k (k0, a0)).
    { exists sd, ln, r. split; [apply HO; intros E; rewrite E in Hr; exact Hr|]. split; [exact Hr|].
      split; [congruence|]. apply (touch_run_edge _ _ _ _ _ Hk). exists p. split; [exact Hp|symmetry; exact He]. }
    destruct v as [[q a]|]; simpl in HB.
    + destruct HB as (Hs & Hmax). destruct (Off q a Hs) as (Hq & k' & a' & Hge & Hrel).
      inversion Hge; subst k' a'. specialize (Hmax k0 a0 Hoff).
      destruct Hrel as [Hlt|(-> & ->)]; [lia|]. split; [reflexivity|]. intros q' a' H; inversion H; subst; exact Hq.
    + exfalso. apply (HB _ Hoff).
  - destruct v as [[q a]|]; simpl in HB.
    + destruct HB as (Hs & _). destruct (Off q a Hs) as (_ & k' & a' & Hge & _). discriminate.
    + split; [reflexivity|]. intros; discriminate.
Qed.

Lemma J_extract : forall g st, ghost_ok g -> J g st -> J g (ensure_extracted st) /\ m_extracted (ensure_extracted st) = true.
Proof.
  intros g st HG HJ. unfold ensure_extracted. destruct (m_extracted st) eqn:Ex; [split; [exact HJ|exact Ex]|].
  destruct HJ as (Hdim & Hmax & HL & HO & HU & HC). rewrite Ex in HC.
  assert (HI0 : xinv (m_heap st, m_cells st, m_nruns st)) by (intros k o H; rewrite HC in H; discriminate).
  destruct (fold_best side (apply_side (in_table st) (m_layers st) (m_lorder st))
              (T_side (in_table st) (m_layers st) (m_lorder st))
              (fun a x Ha => apply_side_props (in_table st) (m_layers st) (m_lorder st) a x Ha)
              [STop; SLeft; SRight; SBottom] _ HI0) as (HI' & HB).
  pose proof (extract_user (in_table st) (m_layers st) (m_lorder st) (m_heap st, m_cells st, m_nruns st)) as HU'.
  unfold xacc in *.
  set (acc := fold_left (apply_side (in_table st) (m_layers st) (m_lorder st)) [STop; SLeft; SRight; SBottom]
              (m_heap st, m_cells st, m_nruns st)) in *.
  clearbody acc. destruct acc as [[heap cells] n].
  simpl in HU'.
  assert (HBk : forall k, Best (offers (in_table st) (m_layers st) (m_lorder st) k) (cval heap cells k)).
  { intros k. eapply Best_ext; [|apply (HB k (fun _ => False)); simpl; rewrite HC; intros x Hx; exact Hx].
    intros o. unfold offers, T_side, T_layer, T_run. split.
    - intros [[]|(sd & _ & ln & Hln & r & Hr & Ho & Ht)]. exists sd, ln, r. auto.
    - intros (sd & ln & r & Hln & Hr & Ho & Ht). right. exists sd. split; [destruct sd; simpl; auto|].
      exists ln. split; [exact Hln|]. exists r. auto. }
  split; [|reflexivity].
  split; [exact Hdim|]. split; [exact Hmax|]. split; [exact HL|]. split; [exact HO|].
  split; [simpl; intros u b Hb; rewrite HU' in Hb; apply (HU u b Hb)|].
  simpl. split.
  - intros k o Hk. destruct (HI' k o Hk) as (_ & Hdef). destruct (heap o) as [b|] eqn:Eh; [|contradiction].
    exists b. split; [reflexivity|].
    (* its order is that of a run *)
    specialize (HBk k). unfold cval in HBk. rewrite Hk, Eh in HBk. simpl in HBk. destruct HBk as (Hs & _).
    destruct Hs as (sd & ln & r & _ & Hr & Ho & _). inversion Ho. destruct (HL sd ln) as (HB1 & _). apply HB1. exact Hr.
  - intros k Hk. unfold attr_view.
    change (in_table {| m_nr := m_nr st; m_nc := m_nc st; m_heap := heap; m_cells := cells; m_extracted := true;
                        m_nruns := n; m_max := m_max st; m_layers := m_layers st; m_lorder := m_lorder st |})
      with (in_table st) in Hk.
    apply (offers_resolve g st k (cval heap cells k) HG HL HO Hk (HBk k)).
Qed.

(* ---------- a stroke on an extracted state ---------- *)
Lemma touch1_dec : forall inb r c s k, touch1 inb r c s k \/ ~ touch1 inb r c s k.
Proof.
  intros inb r c s k. unfold touch1.
  destruct (key_eqb k (r, c, s) && inb r c) eqn:E1.
  - left. left. apply andb_true_iff in E1. destruct E1 as (A & B). apply key_eqb_eq in A. split; assumption.
  - destruct (key_eqb k (nbkey r c s) && kin inb (nbkey r c s)) eqn:E2.
    + left. right. apply andb_true_iff in E2. destruct E2 as (A & B). apply key_eqb_eq in A. split; assumption.
    + right. intros [(A & B)|(A & B)]; subst k.
      * rewrite key_eqb_refl, B in E1. discriminate.
      * rewrite key_eqb_refl, B in E2. discriminate.
Qed.

Lemma classic_touch : forall inb s r c n k, touch_along inb s r c n k \/ ~ touch_along inb s r c n k.
Proof.
  intros inb s r c n k. induction n as [|n IH].
  - right. intros (i & Hi & _). simpl in Hi. lia.
  - destruct IH as [(i & Hi & Ht)|Hn].
    + left. exists i. split; [lia|exact Ht].
    + destruct (touch1_dec inb (fst (along s r c (Z.of_nat n))) (snd (along s r c (Z.of_nat n))) s k) as [Hy|Hn1].
      * left. exists (Z.of_nat n). split; [lia|exact Hy].
      * right. intros (i & Hi & Ht). destruct (Z.eq_dec i (Z.of_nat n)) as [->|Hne]; [contradiction|].
        apply Hn. exists i. split; [lia|exact Ht].
Qed.

(* when v outranks every other object the cells point to, the setter always stores v *)
Definition dominates (heap : oid -> option border_obj) (cells : key -> option oid) (v : oid) : Prop :=
  forall k cur, cells k = Some cur -> cur = v \/ order_of heap cur < order_of heap v.

Lemma set_side_dom : forall heap inb cells k0 v,
  dominates heap cells v ->
  (forall k, set_side heap inb cells k0 v k = if key_eqb k k0 && kin inb k0 then Some v else cells k) /\
  dominates heap (set_side heap inb cells k0 v) v.
Proof.
  intros heap inb cells k0 v HD.
  assert (P : forall k, set_side heap inb cells k0 v k = if key_eqb k k0 && kin inb k0 then Some v else cells k).
  { intros k. unfold set_side. destruct k0 as [[r0 c0] s0]. simpl kin.
    destruct (inb r0 c0); [|rewrite andb_false_r; reflexivity]. rewrite andb_true_r.
    destruct (cells (r0, c0, s0)) as [cur|] eqn:Ec; [|reflexivity].
    destruct (order_of heap cur <? order_of heap v) eqn:E; [reflexivity|].
    apply Z.ltb_ge in E. destruct (HD _ _ Ec) as [->|Hlt]; [|lia].
    destruct (key_eqb k (r0, c0, s0)) eqn:Ek; [|reflexivity]. apply key_eqb_eq in Ek. subst k. exact Ec. }
  split; [exact P|]. intros k cur. rewrite P. destruct (key_eqb k k0 && kin inb k0).
  - intros H; inversion H; left; reflexivity.
  - apply HD.
Qed.

Lemma scb_dom : forall heap inb cells r c s v,
  dominates heap cells v ->
  (forall k, (touch1 inb r c s k -> set_cell_border heap inb cells r c s v k = Some v) /\
             (~ touch1 inb r c s k -> set_cell_border heap inb cells r c s v k = cells k)) /\
  dominates heap (set_cell_border heap inb cells r c s v) v.
Proof.
  intros heap inb cells r c s v HD. rewrite set_cell_border_eq.
  destruct (set_side_dom heap inb cells (r, c, s) v HD) as (P1 & D1).
  destruct (set_side_dom heap inb _ (nbkey r c s) v D1) as (P2 & D2).
  split; [|exact D2]. intros k. rewrite P2, P1. unfold touch1. simpl kin.
  destruct (key_eqb k (nbkey r c s) && kin inb (nbkey r c s)) eqn:E2.
  - split; [reflexivity|]. intros Hn. exfalso. apply Hn. right.
    apply andb_true_iff in E2. destruct E2 as (A & B). apply key_eqb_eq in A. split; assumption.
  - destruct (key_eqb k (r, c, s) && inb r c) eqn:E1.
    + split; [reflexivity|]. intros Hn. exfalso. apply Hn. left.
      apply andb_true_iff in E1. destruct E1 as (A & B). apply key_eqb_eq in A. split; assumption.
    + split; [|reflexivity]. intros [(A & B)|(A & B)]; exfalso.
      * subst k. rewrite key_eqb_refl, B in E1. discriminate.
      * subst k. rewrite key_eqb_refl, B in E2. discriminate.
Qed.

Lemma set_along_dom : forall heap inb s v n cells r c,
  dominates heap cells v ->
  (forall k, (touch_along inb s r c n k -> set_along heap inb cells s r c n v k = Some v) /\
             (~ touch_along inb s r c n k -> set_along heap inb cells s r c n v k = cells k)) /\
  dominates heap (set_along heap inb cells s r c n v) v.
Proof.
  intros heap inb s v n. induction n as [|n IH]; intros cells r c HD.
  - simpl. split; [|exact HD]. intros k. split; [|reflexivity]. intros (i & Hi & _). simpl in Hi. lia.
  - destruct (scb_dom heap inb cells r c s v HD) as (P1 & D1).
    assert (Step : forall r' c', along s r c 1 = (r', c') ->
              (forall k, (touch_along inb s r c (S n) k ->
                            set_along heap inb (set_cell_border heap inb cells r c s v) s r' c' n v k = Some v) /\
                         (~ touch_along inb s r c (S n) k ->
                            set_along heap inb (set_cell_border heap inb cells r c s v) s r' c' n v k = cells k)) /\
              dominates heap (set_along heap inb (set_cell_border heap inb cells r c s v) s r' c' n v) v).
    { intros r' c' Hrc. destruct (IH _ r' c' D1) as (P2 & D2). split; [|exact D2].
      assert (Shift : forall i, along s r c (i + 1) = along s r' c' i).
      { intros i. unfold along in *. destruct s; inversion Hrc; subst; f_equal; lia. }
      assert (Zero : along s r c 0 = (r, c)) by (unfold along; destruct s; f_equal; lia).
      intros k. destruct (P2 k) as (P2a & P2b). destruct (P1 k) as (P1a & P1b). split.
      - intros (i & Hi & Ht). destruct (Z.eq_dec i 0) as [->|Hne].
        + rewrite Zero in Ht. simpl in Ht.
          destruct (classic_touch inb s r' c' n k) as [Hy|Hn]; [apply P2a; exact Hy|].
          rewrite (P2b Hn). apply P1a. exact Ht.
        + apply P2a. exists (i - 1). split; [lia|]. rewrite <- Shift. replace (i - 1 + 1) with i by lia. exact Ht.
      - intros Hn. rewrite P2b.
        + apply P1b. intros Ht. apply Hn. exists 0. split; [lia|]. rewrite Zero. exact Ht.
        + intros (i & Hi & Ht). apply Hn. exists (i + 1). split; [lia|]. rewrite Shift. exact Ht. }
    simpl. destruct s; apply Step; reflexivity.
Qed.

End Main.
