(* C15, part C: along every history of strokes, reads and reopens, every cell side shows the
   attributes of the last stroke drawn along its edge (tables without merged cells). *)
From Coq Require Import ZArith List Bool Lia.
From NP Require Import Model.PyBase Model.Borders Proofs.BordersPatchP Proofs.BordersReadP.
Import ListNotations.
Local Open Scope Z_scope.

Section Main.
Variable objs : nat -> attrs.
Variables nr nc : Z.

(* ---------- ghost state: what the strokes so far left, with their order stamps ---------- *)
Record ghost : Type := {
  g_max : Z;
  g_lines : side -> Z -> gline;               (* per stroke layer *)
  g_edges : edge -> option (Z * attrs)        (* per edge *)
}.

Definition stroke_run (s : stroke) (k : Z) : run :=
  {| r_origin := s_origin s; r_length := s_len s; r_order := k; r_attrs := objs (s_obj s) |}.

Definition ghost_step (g : ghost) (s : stroke) : ghost :=
  if valid nr nc s then
    let k := g_max g + 1 in
    {| g_max := k;
       g_lines := fun sd ln => if side_eqb sd (s_side s) && (ln =? layer_line s)
                               then g_update (g_lines g sd ln) (stroke_run s k)
                               else g_lines g sd ln;
       g_edges := fun e => if covers_edge s e then Some (k, objs (s_obj s)) else g_edges g e |}
  else g.

Definition ghost_ok (g : ghost) : Prop :=
  (forall sd ln p k a, g_lines g sd ln p = Some (k, a) -> k <= g_max g) /\
  (forall sd ln p k a, g_lines g sd ln p = Some (k, a) ->
     exists k' a', g_edges g (run_edge sd ln p) = Some (k', a') /\ (k < k' \/ (k = k' /\ a = a'))) /\
  (forall e k a, g_edges g e = Some (k, a) ->
     exists sd ln p, run_edge sd ln p = e /\ g_lines g sd ln p = Some (k, a)).

Lemma run_edge_stroke : forall s p,
  run_edge (s_side s) (layer_line s) p = (s_orient s, s_line s, p).
Proof. intros s p. unfold run_edge, layer_line, s_orient, s_line. destruct (s_side s); reflexivity. Qed.

Lemma orient_eqb_eq : forall a b, orient_eqb a b = true <-> a = b.
Proof. intros [] []; simpl; split; intros H; try reflexivity; discriminate. Qed.

Lemma covers_edge_iff : forall s e,
  covers_edge s e = true <-> exists p, covers (stroke_run s 0) p /\ e = run_edge (s_side s) (layer_line s) p.
Proof.
  intros s [[o l] p]. unfold covers_edge, covers. simpl. split.
  - rewrite !andb_true_iff, orient_eqb_eq, Z.eqb_eq, Z.leb_le, Z.ltb_lt. intros (((-> & ->) & H1) & H2).
    exists p. split; [lia|]. rewrite run_edge_stroke. reflexivity.
  - intros (q & Hq & He). rewrite run_edge_stroke in He. inversion He; subst.
    rewrite !andb_true_iff, orient_eqb_eq, Z.eqb_eq, Z.leb_le, Z.ltb_lt. repeat split; auto; lia.
Qed.

(* different layers have different edges, the same layer different positions *)
Lemma run_edge_inj : forall sd ln p sd' ln' p',
  run_edge sd ln p = run_edge sd' ln' p' -> p = p' /\ (sd = sd' -> ln = ln').
Proof.
  intros sd ln p sd' ln' p' H. destruct sd, sd'; simpl in H; inversion H; split; auto; intros; try discriminate; lia.
Qed.

Lemma ghost_step_ok : forall g s, ghost_ok g -> ghost_ok (ghost_step g s).
Proof.
  intros g s (G1 & G2 & G3). unfold ghost_step. destruct (valid nr nc s); [|repeat split; assumption].
  set (k := g_max g + 1).
  assert (Lines : forall sd ln p k0 a0,
            (if side_eqb sd (s_side s) && (ln =? layer_line s) then g_update (g_lines g sd ln) (stroke_run s k) else g_lines g sd ln) p = Some (k0, a0) ->
            (k0 = k /\ a0 = objs (s_obj s) /\ covers_edge s (run_edge sd ln p) = true) \/
            (g_lines g sd ln p = Some (k0, a0))).
  { intros sd ln p k0 a0 H. destruct (side_eqb sd (s_side s) && (ln =? layer_line s)) eqn:E; [|right; exact H].
    apply andb_true_iff in E. destruct E as (E1 & E2). apply side_eqb_eq in E1. apply Z.eqb_eq in E2. subst sd ln.
    unfold g_update in H. simpl in H.
    destruct ((s_origin s <=? p) && (p <? s_origin s + s_len s)) eqn:E; [|right; exact H].
    left. inversion H; subst. split; [reflexivity|split; [reflexivity|]].
    apply covers_edge_iff. exists p. split; [|reflexivity]. unfold covers. simpl.
    apply andb_true_iff in E. destruct E as (A & B). apply Z.leb_le in A. apply Z.ltb_lt in B. lia. }
  split; [|split].
  - simpl. intros sd ln p k0 a0 H. destruct (Lines sd ln p k0 a0 H) as [(-> & _)|H']; [lia|].
    specialize (G1 _ _ _ _ _ H'). unfold k. lia.
  - simpl. intros sd ln p k0 a0 H. destruct (Lines sd ln p k0 a0 H) as [(-> & -> & Hc)|H'].
    + rewrite Hc. exists k, (objs (s_obj s)). split; [reflexivity|right; split; reflexivity].
    + destruct (covers_edge s (run_edge sd ln p)).
      * exists k, (objs (s_obj s)). split; [reflexivity|]. left. specialize (G1 _ _ _ _ _ H'). unfold k. lia.
      * apply (G2 _ _ _ _ _ H').
  - simpl. intros e k0 a0 H. destruct (covers_edge s e) eqn:Hc.
    + inversion H; subst k0 a0. apply covers_edge_iff in Hc. destruct Hc as (p & Hp & ->).
      exists (s_side s), (layer_line s), p. split; [reflexivity|].
      replace (side_eqb (s_side s) (s_side s)) with true by (symmetry; apply side_eqb_eq; reflexivity).
      rewrite Z.eqb_refl. simpl. unfold g_update. simpl. unfold covers in Hp. simpl in Hp.
      replace ((s_origin s <=? p) && (p <? s_origin s + s_len s)) with true; [reflexivity|].
      symmetry. apply andb_true_iff. split; [apply Z.leb_le|apply Z.ltb_lt]; lia.
    + destruct (G3 e k0 a0 H) as (sd & ln & p & He & Hl). exists sd, ln, p. split; [exact He|].
      destruct (side_eqb sd (s_side s) && (ln =? layer_line s)) eqn:E; [|exact Hl].
      apply andb_true_iff in E. destruct E as (E1 & E2). apply side_eqb_eq in E1. apply Z.eqb_eq in E2. subst sd ln.
      unfold g_update. simpl.
      destruct ((s_origin s <=? p) && (p <? s_origin s + s_len s)) eqn:E; [|exact Hl].
      exfalso. assert (Hc' : covers_edge s e = true).
      { apply covers_edge_iff. exists p. split; [|symmetry; exact He]. unfold covers. simpl.
        apply andb_true_iff in E. destruct E as (A & B). apply Z.leb_le in A. apply Z.ltb_lt in B. lia. }
      rewrite Hc in Hc'. discriminate.
Qed.

Definition ghost_run (h : list stroke) (g : ghost) : ghost := fold_left ghost_step h g.

Lemma ghost_run_ok : forall h g, ghost_ok g -> ghost_ok (ghost_run h g).
Proof. induction h as [|s h IH]; intros g H; simpl; [exact H|apply IH, ghost_step_ok, H]. Qed.

(* the edge part of the ghost is the last-writer-wins map, with stamps *)
Lemma ghost_edges_lww : forall h g (m : edge -> option attrs),
  (forall e, option_map snd (g_edges g e) = m e) ->
  forall e, option_map snd (g_edges (ghost_run h g) e) = fold_left (lww_step objs nr nc) h m e.
Proof.
  induction h as [|s h IH]; intros g m H e; simpl; [apply H|].
  apply IH. intros e'. unfold ghost_step, lww_step. destruct (valid nr nc s); [|apply H].
  simpl. destruct (covers_edge s e'); [reflexivity|apply H].
Qed.

Definition ghost0 (max0 : Z) : ghost := {| g_max := max0; g_lines := fun _ _ _ => None; g_edges := fun _ => None |}.

Lemma ghost0_ok : forall max0, ghost_ok (ghost0 max0).
Proof. intros max0. repeat split; simpl; intros; discriminate. Qed.

(* ---------- the invariant tying a state to the ghost ---------- *)
Definition attr_view (heap : oid -> option border_obj) (cells : key -> option oid) (k : key) : option attrs :=
  option_map snd (cval heap cells k).

Definition J (g : ghost) (st : mem) : Prop :=
  (m_nr st = nr /\ m_nc st = nc) /\
  (m_max st = g_max g /\ 0 <= m_max st) /\
  (forall sd ln, layer_ok (m_max st) (m_layers st sd ln) (g_lines g sd ln)) /\
  (forall sd ln, m_layers st sd ln <> [] -> In ln (m_lorder st sd)) /\
  (forall n b, m_heap st (User n) = Some b -> bo_attrs b = objs n /\ bo_order b <= m_max st) /\
  (if m_extracted st
   then (forall k o, m_cells st k = Some o -> exists b, m_heap st o = Some b /\ bo_order b <= m_max st) /\
        (forall k, kin (in_table st) k = true ->
                   attr_view (m_heap st) (m_cells st) k = option_map snd (g_edges g (edge_of k)))
   else forall k, m_cells st k = None).

(* ---------- extraction ---------- *)
Lemma apply_run_user : forall inb sd ln acc r n,
  fst (fst (apply_run inb sd ln acc r)) (User n) = fst (fst acc) (User n).
Proof. intros inb sd ln [[h c] m] r n. reflexivity. Qed.

Lemma fold_user : forall (X : Type) (f : xacc -> X -> xacc),
  (forall acc x n, fst (fst (f acc x)) (User n) = fst (fst acc) (User n)) ->
  forall l acc n, fst (fst (fold_left f l acc)) (User n) = fst (fst acc) (User n).
Proof.
  intros X f Hf l. induction l as [|x rest IH]; intros acc n; simpl; [reflexivity|]. rewrite IH. apply Hf.
Qed.

Lemma extract_user : forall inb layers lorder acc n,
  fst (fst (fold_left (apply_side inb layers lorder) [STop; SLeft; SRight; SBottom] acc)) (User n) = fst (fst acc) (User n).
Proof.
  intros inb layers lorder. apply fold_user. intros acc sd n. unfold apply_side.
  apply fold_user. intros acc0 ln n0. unfold apply_layer. apply fold_user. intros. apply apply_run_user.
Qed.

(* what the offers to a cell side of the table amount to, given consistent layers *)
Lemma offers_resolve : forall g st k v,
  ghost_ok g ->
  (forall sd ln, layer_ok (m_max st) (m_layers st sd ln) (g_lines g sd ln)) ->
  (forall sd ln, m_layers st sd ln <> [] -> In ln (m_lorder st sd)) ->
  kin (in_table st) k = true ->
  Best (offers (in_table st) (m_layers st) (m_lorder st) k) v ->
  option_map snd v = option_map snd (g_edges g (edge_of k)) /\
  (forall q a, v = Some (q, a) -> q <= m_max st).
Proof.
  intros g st k v (G1 & G2 & G3) HL HO Hk HB.
  assert (Off : forall q a, offers (in_table st) (m_layers st) (m_lorder st) k (q, a) ->
            q <= m_max st /\
            exists k' a', g_edges g (edge_of k) = Some (k', a') /\ (q < k' \/ (q = k' /\ a = a'))).
  { intros q a (sd & ln & r & Hln & Hr & Ho & Ht). inversion Ho; subst q a.
    apply (touch_run_edge _ _ _ _ _ Hk) in Ht. destruct Ht as (p & Hp & He).
    destruct (HL sd ln) as (HB1 & HB2). split; [apply HB1; exact Hr|].
    specialize (HB2 p). destruct (g_lines g sd ln p) as [[k1 a1]|] eqn:Eg.
    - destruct HB2 as (_ & Hall). destruct (G2 _ _ _ _ _ Eg) as (k' & a' & Hge & Hrel).
      rewrite He. exists k', a'. split; [exact Hge|].
      destruct (Hall r Hr Hp) as [Hlt|(Heq & Ha)]; destruct Hrel as [Hlt'|(Heq' & Ha')]; try (left; lia).
      right. split; congruence.
    - exfalso. apply (HB2 r Hr Hp). }
  destruct (g_edges g (edge_of k)) as [[k0 a0]|] eqn:Ee.
  - destruct (G3 _ _ _ Ee) as (sd & ln & p & He & Hl).
    destruct (HL sd ln) as (_ & HB2). specialize (HB2 p). rewrite Hl in HB2.
    destruct HB2 as ((r & Hr & Hp & Hor & Har) & _).
    assert (Hoff : offers (in_table st) (m_layers st) (m_lorder st) k (k0, a0)).
    { exists sd, ln, r. split; [apply HO; intros E; rewrite E in Hr; exact Hr|]. split; [exact Hr|].
      split; [congruence|]. apply (touch_run_edge _ _ _ _ _ Hk). exists p. split; [exact Hp|symmetry; exact He]. }
    destruct v as [[q a]|]; simpl in HB.
    + destruct HB as (Hs & Hmax). destruct (Off q a Hs) as (Hq & k' & a' & Hge & Hrel).
      inversion Hge; subst k' a'. specialize (Hmax k0 a0 Hoff).
      destruct Hrel as [Hlt|(-> & ->)]; [lia|]. split; [reflexivity|]. intros q' a' H; inversion H; subst; exact Hq.
    + exfalso. apply (HB _ Hoff).
  - destruct v as [[q a]|]; simpl in HB.
    + destruct HB as (Hs & _). destruct (Off q a Hs) as (_ & k' & a' & Hge & _). discriminate.
    + split; [reflexivity|]. intros; discriminate.
Qed.

Lemma J_extract : forall g st, ghost_ok g -> J g st -> J g (ensure_extracted st) /\ m_extracted (ensure_extracted st) = true.
Proof.
  intros g st HG HJ. unfold ensure_extracted. destruct (m_extracted st) eqn:Ex; [split; [exact HJ|exact Ex]|].
  destruct HJ as (Hdim & Hmax & HL & HO & HU & HC). rewrite Ex in HC.
  assert (HI0 : xinv (m_heap st, m_cells st, m_nruns st)) by (intros k o H; rewrite HC in H; discriminate).
  destruct (fold_best side (apply_side (in_table st) (m_layers st) (m_lorder st))
              (T_side (in_table st) (m_layers st) (m_lorder st))
              (fun a x Ha => apply_side_props (in_table st) (m_layers st) (m_lorder st) a x Ha)
              [STop; SLeft; SRight; SBottom] _ HI0) as (HI' & HB).
  pose proof (extract_user (in_table st) (m_layers st) (m_lorder st) (m_heap st, m_cells st, m_nruns st)) as HU'.
  unfold xacc in *.
  set (acc := fold_left (apply_side (in_table st) (m_layers st) (m_lorder st)) [STop; SLeft; SRight; SBottom]
              (m_heap st, m_cells st, m_nruns st)) in *.
  clearbody acc. destruct acc as [[heap cells] n].
  simpl in HU'.
  assert (HBk : forall k, Best (offers (in_table st) (m_layers st) (m_lorder st) k) (cval heap cells k)).
  { intros k. eapply Best_ext; [|apply (HB k (fun _ => False)); unfold cvalA, cval; rewrite HC; simpl; intros x Hx; exact Hx].
    intros o. unfold offers, T_side, T_layer, T_run. split.
    - intros [[]|(sd & _ & ln & Hln & r & Hr & Ho & Ht)]. exists sd, ln, r. auto.
    - intros (sd & ln & r & Hln & Hr & Ho & Ht). right. exists sd. split; [destruct sd; simpl; auto|].
      exists ln. split; [exact Hln|]. exists r. auto. }
  split; [|reflexivity].
  split; [exact Hdim|]. split; [exact Hmax|]. split; [exact HL|]. split; [exact HO|].
  split; [simpl; intros u b Hb; rewrite HU' in Hb; apply (HU u b Hb)|].
  simpl. split.
  - intros k o Hk. destruct (HI' k o Hk) as (_ & Hdef). destruct (heap o) as [b|] eqn:Eh; [|contradiction].
    exists b. split; [reflexivity|].
    (* its order is that of a run *)
    specialize (HBk k). unfold cval in HBk. rewrite Hk, Eh in HBk. simpl in HBk. destruct HBk as (Hs & _).
    destruct Hs as (sd & ln & r & _ & Hr & Ho & _). inversion Ho as [[Hbo Hba]]. destruct (HL sd ln) as (HB1 & _). rewrite Hbo. apply HB1. exact Hr.
  - intros k Hk. unfold attr_view.
    change (in_table {| m_nr := m_nr st; m_nc := m_nc st; m_heap := heap; m_cells := cells; m_extracted := true;
                        m_nruns := n; m_max := m_max st; m_layers := m_layers st; m_lorder := m_lorder st |})
      with (in_table st) in Hk.
    apply (offers_resolve g st k (cval heap cells k) HG HL HO Hk (HBk k)).
Qed.

(* ---------- a stroke on an extracted state ---------- *)
Lemma touch1_dec : forall inb r c s k, touch1 inb r c s k \/ ~ touch1 inb r c s k.
Proof.
  intros inb r c s k. unfold touch1.
  destruct (key_eqb k (r, c, s) && inb r c) eqn:E1.
  - left. left. apply andb_true_iff in E1. destruct E1 as (A & B). apply key_eqb_eq in A. split; assumption.
  - destruct (key_eqb k (nbkey r c s) && kin inb (nbkey r c s)) eqn:E2.
    + left. right. apply andb_true_iff in E2. destruct E2 as (A & B). apply key_eqb_eq in A. split; assumption.
    + right. intros [(A & B)|(A & B)]; subst k.
      * rewrite key_eqb_refl, B in E1. discriminate.
      * rewrite key_eqb_refl, B in E2. discriminate.
Qed.

Lemma classic_touch : forall inb s r c n k, touch_along inb s r c n k \/ ~ touch_along inb s r c n k.
Proof.
  intros inb s r c n k. induction n as [|n IH].
  - right. intros (i & Hi & _). simpl in Hi. lia.
  - destruct IH as [(i & Hi & Ht)|Hn].
    + left. exists i. split; [lia|exact Ht].
    + destruct (touch1_dec inb (fst (along s r c (Z.of_nat n))) (snd (along s r c (Z.of_nat n))) s k) as [Hy|Hn1].
      * left. exists (Z.of_nat n). split; [lia|exact Hy].
      * right. intros (i & Hi & Ht). destruct (Z.eq_dec i (Z.of_nat n)) as [->|Hne]; [contradiction|].
        apply Hn. exists i. split; [lia|exact Ht].
Qed.

(* when v outranks every other object the cells point to, the setter always stores v *)
Definition dominates (heap : oid -> option border_obj) (cells : key -> option oid) (v : oid) : Prop :=
  forall k cur, cells k = Some cur -> cur = v \/ order_of heap cur < order_of heap v.

Lemma set_side_dom : forall heap inb cells k0 v,
  dominates heap cells v ->
  (forall k, set_side heap inb cells k0 v k = if key_eqb k k0 && kin inb k0 then Some v else cells k) /\
  dominates heap (set_side heap inb cells k0 v) v.
Proof.
  intros heap inb cells k0 v HD.
  assert (P : forall k, set_side heap inb cells k0 v k = if key_eqb k k0 && kin inb k0 then Some v else cells k).
  { intros k. unfold set_side. destruct k0 as [[r0 c0] s0]. simpl kin.
    destruct (inb r0 c0); [|rewrite andb_false_r; reflexivity]. rewrite andb_true_r.
    destruct (cells (r0, c0, s0)) as [cur|] eqn:Ec; [|reflexivity].
    destruct (order_of heap cur <? order_of heap v) eqn:E; [reflexivity|].
    apply Z.ltb_ge in E. destruct (HD _ _ Ec) as [->|Hlt]; [|lia].
    destruct (key_eqb k (r0, c0, s0)) eqn:Ek; [|reflexivity]. apply key_eqb_eq in Ek. subst k. exact Ec. }
  split; [exact P|]. intros k cur. rewrite P. destruct (key_eqb k k0 && kin inb k0).
  - intros H; inversion H; left; reflexivity.
  - apply HD.
Qed.

Lemma scb_dom : forall heap inb cells r c s v,
  dominates heap cells v ->
  (forall k, (touch1 inb r c s k -> set_cell_border heap inb cells r c s v k = Some v) /\
             (~ touch1 inb r c s k -> set_cell_border heap inb cells r c s v k = cells k)) /\
  dominates heap (set_cell_border heap inb cells r c s v) v.
Proof.
  intros heap inb cells r c s v HD. rewrite set_cell_border_eq.
  destruct (set_side_dom heap inb cells (r, c, s) v HD) as (P1 & D1).
  destruct (set_side_dom heap inb _ (nbkey r c s) v D1) as (P2 & D2).
  split; [|exact D2]. intros k. rewrite P2, P1. unfold touch1. simpl kin.
  destruct (key_eqb k (nbkey r c s) && kin inb (nbkey r c s)) eqn:E2.
  - split; [reflexivity|]. intros Hn. exfalso. apply Hn. right.
    apply andb_true_iff in E2. destruct E2 as (A & B). apply key_eqb_eq in A. split; assumption.
  - destruct (key_eqb k (r, c, s) && inb r c) eqn:E1.
    + split; [reflexivity|]. intros Hn. exfalso. apply Hn. left.
      apply andb_true_iff in E1. destruct E1 as (A & B). apply key_eqb_eq in A. split; assumption.
    + split; [|reflexivity]. intros [(A & B)|(A & B)]; exfalso.
      * subst k. rewrite key_eqb_refl, B in E1. discriminate.
      * subst k. rewrite key_eqb_refl, B in E2. discriminate.
Qed.

Lemma set_along_dom : forall heap inb s v n cells r c,
  dominates heap cells v ->
  (forall k, (touch_along inb s r c n k -> set_along heap inb cells s r c n v k = Some v) /\
             (~ touch_along inb s r c n k -> set_along heap inb cells s r c n v k = cells k)) /\
  dominates heap (set_along heap inb cells s r c n v) v.
Proof.
  intros heap inb s v n. induction n as [|n IH]; intros cells r c HD.
  - simpl. split; [|exact HD]. intros k. split; [|reflexivity]. intros (i & Hi & _). simpl in Hi. lia.
  - destruct (scb_dom heap inb cells r c s v HD) as (P1 & D1).
    assert (Step : forall r' c', along s r c 1 = (r', c') ->
              (forall k, (touch_along inb s r c (S n) k ->
                            set_along heap inb (set_cell_border heap inb cells r c s v) s r' c' n v k = Some v) /\
                         (~ touch_along inb s r c (S n) k ->
                            set_along heap inb (set_cell_border heap inb cells r c s v) s r' c' n v k = cells k)) /\
              dominates heap (set_along heap inb (set_cell_border heap inb cells r c s v) s r' c' n v) v).
    { intros r' c' Hrc. destruct (IH _ r' c' D1) as (P2 & D2). split; [|exact D2].
      assert (Shift : forall i, along s r c (i + 1) = along s r' c' i).
      { intros i. unfold along in *. destruct s; inversion Hrc; subst; f_equal; lia. }
      assert (Zero : along s r c 0 = (r, c)) by (unfold along; destruct s; f_equal; lia).
      intros k. destruct (P2 k) as (P2a & P2b). destruct (P1 k) as (P1a & P1b). split.
      - intros (i & Hi & Ht). destruct (Z.eq_dec i 0) as [->|Hne].
        + rewrite Zero in Ht. simpl in Ht.
          destruct (classic_touch inb s r' c' n k) as [Hy|Hn]; [apply P2a; exact Hy|].
          rewrite (P2b Hn). apply P1a. exact Ht.
        + apply P2a. exists (i - 1). split; [lia|]. rewrite <- Shift. replace (i - 1 + 1) with i by lia. exact Ht.
      - intros Hn. rewrite P2b.
        + apply P1b. intros Ht. apply Hn. exists 0. split; [lia|]. rewrite Zero. exact Ht.
        + intros (i & Hi & Ht). apply Hn. exists (i + 1). split; [lia|]. rewrite Shift. exact Ht. }
    simpl. destruct s; apply Step; reflexivity.
Qed.


(* the cells a stroke reaches are those whose edge it covers *)
Lemma touched_iff_covers : forall inb s k,
  kin inb k = true ->
  (touch_along inb (s_side s) (s_row s) (s_col s) (Z.to_nat (s_len s)) k <-> covers_edge s (edge_of k) = true).
Proof.
  intros inb s k Hk.
  assert (E : touch_along inb (s_side s) (s_row s) (s_col s) (Z.to_nat (s_len s)) k <->
              touch_run inb (s_side s) (layer_line s) (stroke_run s 0) k).
  { unfold touch_run, run_start, layer_line, stroke_run, s_origin. simpl. destruct (s_side s); simpl; tauto. }
  rewrite E, (touch_run_edge inb _ _ _ _ Hk), covers_edge_iff. tauto.
Qed.

Lemma attr_view_eq : forall heap cells k,
  attr_view heap cells k =
  match cells k with
  | Some o => match heap o with Some b => Some (bo_attrs b) | None => None end
  | None => None
  end.
Proof. intros. unfold attr_view, cval. destruct (cells k) as [o|]; [destruct (heap o)|]; reflexivity. Qed.

Lemma has_layer_in : forall st sd ln, has_layer st sd ln = true <-> In ln (m_lorder st sd).
Proof.
  intros st sd ln. unfold has_layer. rewrite existsb_exists. split.
  - intros (x & Hx & E). apply Z.eqb_eq in E. subst x. exact Hx.
  - intros H. exists ln. split; [exact H|apply Z.eqb_refl].
Qed.

Lemma J_stroke : forall g st s,
  ghost_ok g -> J g st -> m_extracted st = true -> valid nr nc s = true -> 1 <= s_len s ->
  J (ghost_step g s) (update_cells s (add_stroke objs s (see_obj objs s st))).
Proof.
  intros g st s HG HJ Hex Hval Hlen.
  destruct HJ as ((Hnr & Hnc) & (Hmax & Hpos) & HL & HO & HU & HC). rewrite Hex in HC. destruct HC as (HCa & HCb).
  set (n := s_obj s). set (u := User n). set (k := m_max st + 1).
  set (heap1 := with_obj objs (m_heap st) s).
  set (heap2 := stamp objs heap1 s k).
  assert (Euu : oid_eqb u u = true) by (apply oid_eqb_eq; reflexivity).
  assert (H1u : exists b1, heap1 u = Some b1 /\ bo_attrs b1 = objs n /\ bo_order b1 <= m_max st).
  { unfold heap1, with_obj. fold n u. rewrite Euu. destruct (m_heap st u) as [b|] eqn:E.
    - exists b. split; [reflexivity|]. apply (HU n b E).
    - eexists. split; [reflexivity|]. simpl. split; [reflexivity|lia]. }
  destruct H1u as (b1 & H1u & H1a & H1o).
  assert (H2u : heap2 u = Some {| bo_attrs := objs n; bo_order := k |}).
  { unfold heap2, stamp. fold n u. rewrite Euu, H1u, H1a. reflexivity. }
  assert (H2o : forall o, o <> u -> heap2 o = m_heap st o).
  { intros o Ho. unfold heap2, stamp, heap1, with_obj. fold n u.
    destruct (oid_eqb o u) eqn:E; [apply oid_eqb_eq in E; contradiction|reflexivity]. }
  assert (Hudec : forall o, o = u \/ o <> u).
  { intros o. destruct (oid_eqb o u) eqn:E; [left; apply oid_eqb_eq; exact E|right; intros ->; rewrite Euu in E; discriminate]. }
  (* objects the cells point to: still there, same attributes, below the new stamp unless u itself *)
  assert (Href : forall k' o, m_cells st k' = Some o ->
            exists b b', m_heap st o = Some b /\ heap2 o = Some b' /\ bo_attrs b' = bo_attrs b /\
                         bo_order b' <= k /\ (o = u \/ bo_order b' < k)).
  { intros k' o Hk'. destruct (HCa k' o Hk') as (b & Hb & Hbo). destruct (Hudec o) as [->|Hne].
    - exists b. eexists. split; [exact Hb|]. split; [exact H2u|]. simpl. destruct (HU n b Hb) as (Ha & _).
      split; [congruence|]. split; [lia|left; reflexivity].
    - exists b, b. split; [exact Hb|]. split; [rewrite (H2o o Hne); exact Hb|]. split; [reflexivity|].
      unfold k. split; [lia|right; lia]. }
  (* the new run *)
  assert (Hnew : new_run objs s k heap2 = stroke_run s k).
  { unfold new_run, stroke_run. fold n u. rewrite H2u. reflexivity. }
  (* the cells *)
  set (st2 := add_stroke objs s (see_obj objs s st)).
  assert (Hinb : in_table st2 = in_table st) by reflexivity.
  assert (Hdom : dominates heap2 (m_cells st) u).
  { intros k' cur Hk'. destruct (Href k' cur Hk') as (b & b' & _ & Hb' & _ & _ & [->|Hlt]); [left; reflexivity|].
    right. unfold order_of. rewrite Hb', H2u. simpl. exact Hlt. }
  destruct (set_along_dom heap2 (in_table st) (s_side s) u (Z.to_nat (s_len s)) (m_cells st) (s_row s) (s_col s) Hdom)
    as (Pc & _).
  assert (Hk1 : g_max g + 1 = k) by (unfold k; lia).
  unfold J, ghost_step. rewrite Hval. simpl.
  change (with_obj objs (m_heap st) s) with heap1. change (m_max st + 1) with k.
  change (stamp objs heap1 s k) with heap2. rewrite Hk1, Hex.
  split; [split; assumption|]. split; [split; [reflexivity|unfold k; lia]|].
  split; [|split; [|split; [|split]]].
  - (* layers *)
    intros sd ln. unfold upd_layers.
    destruct (side_eqb sd (s_side s) && (ln =? layer_line s)) eqn:E.
    + apply andb_true_iff in E. destruct E as (E1 & E2). apply side_eqb_eq in E1. apply Z.eqb_eq in E2. subst sd ln.
      rewrite Hnew. change (has_layer (see_obj objs s st) (s_side s) (layer_line s)) with (has_layer st (s_side s) (layer_line s)).
      destruct (has_layer st (s_side s) (layer_line s)) eqn:Eh.
      * apply patch_layer_ok; [apply HL|exact Hlen|reflexivity].
      * apply single_layer_ok; [|exact Hlen|reflexivity].
        destruct (m_layers st (s_side s) (layer_line s)) as [|x rest] eqn:El.
        -- apply (layer_ok_nil_none (m_max st)). rewrite <- El. apply HL.
        -- exfalso. assert (Hin : In (layer_line s) (m_lorder st (s_side s))) by (apply HO; rewrite El; discriminate).
           apply has_layer_in in Hin. rewrite Hin in Eh. discriminate.
    + apply layer_ok_mono with (M := m_max st); [unfold k; lia|apply HL].
  - (* layer list *)
    intros sd ln. unfold upd_layers. change (has_layer (see_obj objs s st) (s_side s) (layer_line s)) with (has_layer st (s_side s) (layer_line s)).
    destruct (has_layer st (s_side s) (layer_line s)) eqn:Eh.
    + destruct (side_eqb sd (s_side s) && (ln =? layer_line s)) eqn:E.
      * intros _. apply andb_true_iff in E. destruct E as (E1 & E2). apply side_eqb_eq in E1. apply Z.eqb_eq in E2.
        subst sd ln. apply has_layer_in. exact Eh.
      * apply HO.
    + unfold upd_lorder. destruct (side_eqb sd (s_side s)) eqn:E1.
      * simpl. destruct (ln =? layer_line s) eqn:E2.
        -- intros _. apply Z.eqb_eq in E2. subst ln. apply in_or_app. right. left. reflexivity.
        -- intros H. apply in_or_app. left. apply side_eqb_eq in E1. subst sd. apply HO. exact H.
      * simpl. apply HO.
  - (* the caller's objects *)
    intros m b Hb. destruct (Hudec (User m)) as [Em|Hne].
    + rewrite Em, H2u in Hb. inversion Hb; subst b. simpl. inversion Em. split; [reflexivity|lia].
    + rewrite (H2o _ Hne) in Hb. destruct (HU m b Hb) as (Ha & Hle). split; [exact Ha|unfold k; lia].
  - (* every referenced object exists, below the maximum *)
    intros k' o Hk'. change (User (s_obj s)) with u in Hk'. rewrite Hinb in Hk'.
    destruct (classic_touch (in_table st) (s_side s) (s_row s) (s_col s) (Z.to_nat (s_len s)) k') as [Ht|Hn].
    + rewrite (proj1 (Pc k') Ht) in Hk'. inversion Hk'; subst o. eexists. split; [exact H2u|simpl; lia].
    + rewrite (proj2 (Pc k') Hn) in Hk'. destruct (Href k' o Hk') as (b & b' & _ & Hb' & _ & Hle & _). exists b'. split; assumption.
  - (* what each cell side of the table shows *)
    intros k' Hk'. change (kin (in_table st) k' = true) in Hk'.
    rewrite attr_view_eq. change (User (s_obj s)) with u. rewrite Hinb.
    destruct (classic_touch (in_table st) (s_side s) (s_row s) (s_col s) (Z.to_nat (s_len s)) k') as [Ht|Hn].
    + rewrite (proj1 (Pc k') Ht), H2u. simpl.
      apply (touched_iff_covers _ _ _ Hk') in Ht. rewrite Ht. reflexivity.
    + rewrite (proj2 (Pc k') Hn).
      assert (Hc : covers_edge s (edge_of k') = false).
      { destruct (covers_edge s (edge_of k')) eqn:E; [|reflexivity]. exfalso. apply Hn. apply (touched_iff_covers _ _ _ Hk'). exact E. }
      rewrite Hc. rewrite <- (HCb k' Hk'), attr_view_eq.
      destruct (m_cells st k') as [o|] eqn:Eo; [|reflexivity].
      destruct (Href k' o Eo) as (b & b' & Hb & Hb' & Ha & _). rewrite Hb, Hb', Ha. reflexivity.
Qed.

(* ---------- steps and histories ---------- *)
Lemma J_reopen : forall g st, J g st -> J g (reopen st).
Proof.
  intros g st (Hdim & Hmax & HL & HO & HU & _). unfold J. simpl.
  split; [exact Hdim|]. split; [exact Hmax|]. split; [exact HL|]. split; [exact HO|]. split; [exact HU|]. reflexivity.
Qed.

Definition lens_ok (ops : list bop) : Prop := Forall (fun s => 1 <= s_len s) (strokes_of ops).

Lemma J_step : forall g st o,
  ghost_ok g -> J g st ->
  match o with BStroke s => 1 <= s_len s | _ => True end ->
  J (match o with BStroke s => ghost_step g s | _ => g end) (bstep objs st o).
Proof.
  intros g st o HG HJ Hl. destruct o as [s| |]; simpl.
  - unfold do_stroke. destruct HJ as (Hdim & Hrest) eqn:EJ. destruct Hdim as (Hnr & Hnc). rewrite Hnr, Hnc.
    destruct (valid nr nc s) eqn:Ev.
    + destruct (J_extract g st HG HJ) as (HJ' & Hex). apply J_stroke; assumption.
    + unfold ghost_step. rewrite Ev. exact HJ.
  - apply J_extract; assumption.
  - apply J_reopen; assumption.
Qed.

Lemma J_run : forall ops g st,
  ghost_ok g -> J g st -> lens_ok ops ->
  J (ghost_run (strokes_of ops) g) (brun objs ops st).
Proof.
  induction ops as [|o ops IH]; intros g st HG HJ Hl; [exact HJ|].
  unfold brun. simpl fold_left. fold (brun objs ops (bstep objs st o)).
  destruct o as [s| |].
  - simpl strokes_of. unfold lens_ok in Hl. simpl in Hl. apply Forall_cons_iff in Hl. destruct Hl as (Hs & Hl).
    simpl. apply IH; [apply ghost_step_ok; exact HG| |exact Hl].
    apply (J_step g st (BStroke s) HG HJ Hs).
  - simpl strokes_of. apply IH; [exact HG| |exact Hl]. apply (J_step g st BRead HG HJ I).
  - simpl strokes_of. apply IH; [exact HG| |exact Hl]. apply (J_step g st BReopen HG HJ I).
Qed.

Lemma J_empty : forall max0, 0 <= max0 -> J (ghost0 max0) (empty_table nr nc max0).
Proof.
  intros max0 H. unfold J. simpl. split; [split; reflexivity|]. split; [split; [reflexivity|exact H]|].
  split; [intros; apply layer_ok_nil|]. split; [intros sd ln Hne; exfalso; apply Hne; reflexivity|].
  split; [intros; discriminate|reflexivity].
Qed.

Lemma J_view : forall g st k,
  ghost_ok g -> J g st -> kin (in_table st) k = true ->
  view st k = option_map snd (g_edges g (edge_of k)).
Proof.
  intros g st k HG HJ Hk. destruct (J_extract g st HG HJ) as (HJ' & Hex).
  unfold view. rewrite <- attr_view_eq.
  destruct HJ' as (_ & _ & _ & _ & _ & HC). rewrite Hex in HC. destruct HC as (_ & HCb).
  apply HCb. unfold ensure_extracted. destruct (m_extracted st); [exact Hk|].
  destruct (fold_left _ _ _) as [[h c] n]. exact Hk.
Qed.

(* ---------- the theorems ---------- *)
Definition in_tbl (k : key) : Prop := let '(r, c, _) := k in 0 <= r < nr /\ 0 <= c < nc.

Lemma in_tbl_kin : forall st k, m_nr st = nr -> m_nc st = nc -> in_tbl k -> kin (in_table st) k = true.
Proof.
  intros st [[r c] sd] Hr Hc (H1 & H2). simpl. unfold in_table. rewrite Hr, Hc.
  rewrite !andb_true_iff, !Z.leb_le, !Z.ltb_lt. lia.
Qed.

Theorem borders_lww_lemma : forall ops max0 k,
  0 <= max0 -> lens_ok ops -> in_tbl k ->
  view (brun objs ops (empty_table nr nc max0)) k = lww objs nr nc (strokes_of ops) (edge_of k).
Proof.
  intros ops max0 k H0 Hl Hk.
  pose proof (J_run ops (ghost0 max0) (empty_table nr nc max0) (ghost0_ok max0) (J_empty max0 H0) Hl) as HJ.
  pose proof (ghost_run_ok (strokes_of ops) (ghost0 max0) (ghost0_ok max0)) as HG.
  rewrite (J_view _ _ k HG HJ).
  - unfold lww. apply ghost_edges_lww. intros e. reflexivity.
  - destruct HJ as ((Hr & Hc) & _). apply in_tbl_kin; assumption.
Qed.

End Main.

(* ---------- corollaries ---------- *)
Lemma strokes_of_map : forall h, strokes_of (map BStroke h) = h.
Proof. induction h as [|s h IH]; simpl; [reflexivity|rewrite IH; reflexivity]. Qed.

Lemma strokes_of_app : forall a b, strokes_of (a ++ b) = strokes_of a ++ strokes_of b.
Proof.
  induction a as [|o a IH]; intros b; simpl; [reflexivity|]. destruct o; simpl; rewrite IH; reflexivity.
Qed.

Theorem memory_is_lww_lemma : forall (objs : nat -> attrs) (nr nc : Z) (h : list stroke) (max0 : Z) (k : key),
  0 <= max0 -> Forall (fun s => 1 <= s_len s) h -> in_tbl nr nc k ->
  view (brun objs (map BStroke h) (empty_table nr nc max0)) k = lww objs nr nc h (edge_of k).
Proof.
  intros objs nr nc h max0 k H0 Hl Hk.
  rewrite (borders_lww_lemma objs nr nc (map BStroke h) max0 k H0); [rewrite strokes_of_map; reflexivity| |exact Hk].
  unfold lens_ok. rewrite strokes_of_map. exact Hl.
Qed.

Theorem reload_is_lww_lemma : forall (objs : nat -> attrs) (nr nc : Z) (h : list stroke) (max0 : Z) (k : key),
  0 <= max0 -> Forall (fun s => 1 <= s_len s) h -> in_tbl nr nc k ->
  view (reopen (brun objs (map BStroke h) (empty_table nr nc max0))) k = lww objs nr nc h (edge_of k).
Proof.
  intros objs nr nc h max0 k H0 Hl Hk.
  change (reopen (brun objs (map BStroke h) (empty_table nr nc max0)))
    with (bstep objs (brun objs (map BStroke h) (empty_table nr nc max0)) BReopen).
  assert (E : bstep objs (brun objs (map BStroke h) (empty_table nr nc max0)) BReopen =
              brun objs (map BStroke h ++ [BReopen]) (empty_table nr nc max0)).
  { unfold brun. rewrite fold_left_app. reflexivity. }
  rewrite E, (borders_lww_lemma objs nr nc _ max0 k H0); [| |exact Hk].
  - rewrite strokes_of_app, strokes_of_map. simpl. rewrite app_nil_r. reflexivity.
  - unfold lens_ok. rewrite strokes_of_app, strokes_of_map. simpl. rewrite app_nil_r. exact Hl.
Qed.

Theorem shared_edge_lemma : forall (objs : nat -> attrs) (nr nc : Z) (ops : list bop) (max0 r c : Z),
  0 <= max0 -> lens_ok ops ->
  (0 <= r -> r + 1 < nr -> 0 <= c < nc ->
     view (brun objs ops (empty_table nr nc max0)) (r, c, SBottom) =
     view (brun objs ops (empty_table nr nc max0)) (r + 1, c, STop)) /\
  (0 <= r < nr -> 0 <= c -> c + 1 < nc ->
     view (brun objs ops (empty_table nr nc max0)) (r, c, SRight) =
     view (brun objs ops (empty_table nr nc max0)) (r, c + 1, SLeft)).
Proof.
  intros objs nr nc ops max0 r c H0 Hl. split; intros A B C.
  - rewrite !(borders_lww_lemma objs nr nc ops max0 _ H0 Hl); [reflexivity| |]; simpl; lia.
  - rewrite !(borders_lww_lemma objs nr nc ops max0 _ H0 Hl); [reflexivity| |]; simpl; lia.
Qed.

Theorem read_is_pure_lemma : forall st : mem, persisted (read_borders st) = persisted st.
Proof.
  intros st. unfold read_borders, ensure_extracted, persisted. destruct (m_extracted st); [reflexivity|].
  destruct (fold_left _ _ _) as [[h c] n]. reflexivity.
Qed.

(* the pinned order: two strokes over the same two edges *)
Definition pin_objs : nat -> attrs := fun n => [N.of_nat n].
Definition pin_hist : list stroke :=
  [ {| s_side := STop; s_row := 1; s_col := 1; s_len := 2; s_obj := 0 |};
    {| s_side := STop; s_row := 1; s_col := 1; s_len := 2; s_obj := 1 |} ].

Lemma pinned_memory_refuted :
  exists (objs : nat -> attrs) (h : list stroke) (k : key),
    in_tbl 6 6 k /\ Forall (fun s => 1 <= s_len s) h /\
    view (Pinned.brun objs (map BStroke h) (empty_table 6 6 2)) k <> lww objs 6 6 h (edge_of k) /\
    view (reopen (Pinned.brun objs (map BStroke h) (empty_table 6 6 2))) k = lww objs 6 6 h (edge_of k).
Proof.
  exists pin_objs, pin_hist, (1, 1, STop).
  split; [simpl; lia|]. split; [repeat constructor; simpl; lia|].
  split.
  - assert (E1 : view (Pinned.brun pin_objs (map BStroke pin_hist) (empty_table 6 6 2)) (1, 1, STop) = Some [0%N])
      by (vm_compute; reflexivity).
    assert (E2 : lww pin_objs 6 6 pin_hist (edge_of (1, 1, STop)) = Some [1%N]) by (vm_compute; reflexivity).
    rewrite E1, E2. discriminate.
  - vm_compute. reflexivity.
Qed.

Definition ow_rs : list run :=
  [ {| r_origin := 0; r_length := 2; r_order := 3; r_attrs := [65%N] |};
    {| r_origin := 2; r_length := 4; r_order := 4; r_attrs := [66%N] |} ].
Definition ow_new : run := {| r_origin := 1; r_length := 3; r_order := 5; r_attrs := [67%N] |}.

Lemma runs_overlap_witness :
  exists (rs : list run) (newr : run) (a b : run) (p : Z),
    sorted_by_origin rs /\ In a (patch_layer newr rs) /\ In b (patch_layer newr rs) /\ a <> b /\
    covers a p /\ covers b p.
Proof.
  exists ow_rs, ow_new, ow_new, {| r_origin := 2; r_length := 4; r_order := 4; r_attrs := [66%N] |}, 2.
  assert (E : patch_layer ow_new ow_rs =
              [ {| r_origin := 0; r_length := 2; r_order := 3; r_attrs := [65%N] |}; ow_new;
                {| r_origin := 2; r_length := 4; r_order := 4; r_attrs := [66%N] |} ]) by (vm_compute; reflexivity).
  rewrite E. split.
  - simpl. split; [intros y [<-|[]]; simpl; lia|split; [intros ? []|exact I]].
  - split; [right; left; reflexivity|]. split; [right; right; left; reflexivity|].
    split; [discriminate|]. unfold covers; simpl. lia.
Qed.
