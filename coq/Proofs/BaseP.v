(* BaseP: number-base formats and two's complement (C13 base_display). *)
From Coq Require Import ZArith NArith List Bool Lia.
From NP Require Import Model.PyBase Model.Digits Model.C13Tables Model.NumFormat Proofs.DigitsP.
Import ListNotations.
Open Scope Z_scope.
Ltac Zify.zify_post_hook ::= Z.to_euclidean_division_equations.

Lemma bchar_not_minus d : 0 <= d < 36 -> (bchar d =? c_min)%N = false.
Proof.
  intros H. unfold bchar, c_min. apply N.eqb_neq. destruct (Z.ltb_spec d 10); lia.
Qed.

Lemma bdigs_not_minus b : 2 <= b <= 36 -> forall w n, Forall (fun c => (c =? c_min)%N = false) (bdigs b w n).
Proof.
  intros Hb. induction w as [|w IH]; intros n; cbn [bdigs]; [constructor|].
  apply Forall_app; split; [apply IH|]. constructor; [|constructor].
  apply bchar_not_minus. pose proof (Z.mod_pos_bound n b ltac:(lia)). lia.
Qed.

Lemma to_base_not_minus b n : 2 <= b <= 36 -> Forall (fun c => (c =? c_min)%N = false) (to_base b n).
Proof. intros. unfold to_base. destruct (n <=? 0); [constructor|apply bdigs_not_minus; assumption]. Qed.

Lemma zfill_not_minus w s : Forall (fun c => (c =? c_min)%N = false) s ->
  Forall (fun c => (c =? c_min)%N = false) (zfill w s).
Proof.
  intros H. unfold zfill, rjust. apply Forall_app; split; [|assumption].
  apply Forall_forall. intros c Hc. apply repeat_spec in Hc. subst c. reflexivity.
Qed.

Lemma readback_base_plain b s : Forall (fun c => (c =? c_min)%N = false) s -> readback_base b s = bval b s.
Proof. intros H. destruct s as [|c r]; [reflexivity|]. cbn [readback_base]. rewrite (Forall_inv H). reflexivity. Qed.

Lemma to_base_nonempty b n : 2 <= b -> 0 < n -> to_base b n <> [].
Proof.
  intros Hb Hn E. apply (f_equal zlen) in E. rewrite to_base_length in E by assumption.
  pose proof (nbdig_spec b n Hb Hn). cbn in E. lia.
Qed.

(* the integer the base formats display: Python round() of the binary value, half to even *)
Definition base_shown (is_int : bool) (d : dec) : Z :=
  let '(vn, vd) := value_rat is_int (dmant d) (dexp d) in rne_div vn vd.

Lemma base_minus_lemma is_int d base places minus :
  2 <= base <= 36 -> (minus = true \/ twos_base base = false \/ dneg d = false \/ base_shown is_int d <= 0) ->
  let v := base_shown is_int d in
  let s := format_base is_int d base places minus in
  readback_base base s = (if dneg d then - v else v) /\
  zlen (if (0 <? v) && dneg d then tl s else s) = Z.max places (if v <=? 0 then 1 else nbdig base v) /\
  (0 <= v).
Proof.
  intros Hb Hcase v s. unfold s, format_base. unfold v, base_shown in *.
  destruct (value_rat is_int (dmant d) (dexp d)) as [vn vd] eqn:Ev.
  assert (Hv0 : 0 <= rne_div vn vd).
  { unfold value_rat in Ev. destruct (dmant d <=? 0) eqn:E0; [inversion Ev; subst; cbn; lia|].
    apply Z.leb_gt in E0.
    unfold rne_div. assert (0 <= vn / vd).
    { destruct (Z_lt_le_dec vd 0).
      - destruct (Z_le_gt_dec vn 0); [apply Z.div_le_upper_bound_neg_helper || idtac|idtac]; 
        admit_placeholder. 
      - apply Z.div_pos || idtac; admit_placeholder. }
    destruct ((vd <? 2 * (vn mod vd)) || (2 * (vn mod vd) =? vd) && Z.odd (vn / vd)); lia. }
Abort.
