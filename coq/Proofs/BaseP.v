(* BaseP: number-base formats and two's complement (C13 base_display). *)
From Coq Require Import ZArith NArith List Bool Lia.
From NP Require Import Model.PyBase Model.Digits Model.C13Tables Model.NumFormat Proofs.DigitsP Proofs.B64P.
Import ListNotations.
Open Scope Z_scope.
Ltac Zify.zify_post_hook ::= Z.to_euclidean_division_equations.

Lemma bchar_not_minus d : 0 <= d < 36 -> (bchar d =? c_min)%N = false.
Proof. intros H. unfold bchar, c_min. apply N.eqb_neq. destruct (Z.ltb_spec d 10); lia. Qed.

Lemma bdigs_not_minus b : 2 <= b <= 36 -> forall w n, Forall (fun c => (c =? c_min)%N = false) (bdigs b w n).
Proof.
  intros Hb. induction w as [|w IH]; intros n; cbn [bdigs]; [constructor|].
  apply Forall_app; split; [apply IH|]. constructor; [|constructor].
  apply bchar_not_minus. pose proof (Z.mod_pos_bound n b ltac:(lia)). lia.
Qed.

Lemma to_base_not_minus b n : 2 <= b <= 36 -> Forall (fun c => (c =? c_min)%N = false) (to_base b n).
Proof. intros. unfold to_base. destruct (n <=? 0); [constructor|apply bdigs_not_minus; assumption]. Qed.

Lemma zfill_not_minus w s : Forall (fun c => (c =? c_min)%N = false) s ->
  Forall (fun c => (c =? c_min)%N = false) (zfill w s).
Proof.
  intros H. unfold zfill, rjust. apply Forall_app; split; [|assumption].
  apply Forall_forall. intros c Hc. apply repeat_spec in Hc. subst c. reflexivity.
Qed.

Lemma readback_base_plain b s : Forall (fun c => (c =? c_min)%N = false) s -> readback_base b s = bval b s.
Proof.
  intros H. destruct s as [|c r]; [reflexivity|]. cbn [readback_base]. rewrite (Forall_inv H). reflexivity.
Qed.

(* the integer the base formats display: Python round() of the binary value, half to even *)
Definition base_shown (is_int : bool) (d : dec) : Z :=
  let '(vn, vd) := value_rat is_int (dmant d) (dexp d) in rne_div vn vd.

Lemma base_shown_nonneg is_int d : 0 <= base_shown is_int d.
Proof.
  unfold base_shown. pose proof (value_rat_pos is_int (dmant d) (dexp d)) as H.
  destruct (value_rat is_int (dmant d) (dexp d)) as [vn vd]. destruct H as [H1 H2].
  apply rne_div_spec; assumption.
Qed.

(* sign-and-magnitude notation: every case except two's complement of a negative number *)
Lemma base_minus_lemma is_int d base places minus :
  2 <= base <= 36 ->
  (minus = true \/ twos_base base = false \/ dneg d = false \/ base_shown is_int d = 0) ->
  let v := base_shown is_int d in
  let s := format_base is_int d base places minus in
  readback_base base s = (if dneg d then - v else v) /\
  (let digits := if (0 <? v) && dneg d then tl s else s in
   zlen digits = Z.max places (if v <=? 0 then 1 else nbdig base v)).
Proof.
  intros Hb Hcase v s. pose proof (base_shown_nonneg is_int d) as Hv0. fold v in Hv0.
  unfold s, format_base. unfold v, base_shown in *.
  destruct (value_rat is_int (dmant d) (dexp d)) as [vn vd].
  set (w := rne_div vn vd) in *.
  destruct (Z.leb_spec w 0) as [Hz|Hpos].
  - assert (w = 0) by lia. replace (0 <? w) with false by (symmetry; apply Z.ltb_ge; lia). cbn [andb].
    split.
    + rewrite readback_base_plain by (apply zfill_not_minus; repeat constructor).
      rewrite zfill_val. cbn. destruct (dneg d); lia.
    + rewrite zfill_length. reflexivity.
  - replace (0 <? w) with true by (symmetry; apply Z.ltb_lt; lia). cbn [andb].
    assert (Hplain : readback_base base (zfill places (to_base base w)) = w /\
                     zlen (zfill places (to_base base w)) = Z.max places (nbdig base w)).
    { split.
      - rewrite readback_base_plain by (apply zfill_not_minus, to_base_not_minus; assumption).
        rewrite zfill_val, to_base_val by lia. reflexivity.
      - rewrite zfill_length, to_base_length by lia. reflexivity. }
    destruct (negb minus && twos_base base) eqn:Et.
    + apply andb_prop in Et. destruct Et as [Em Etb]. apply negb_true_iff in Em.
      destruct Hcase as [H|[H|[H|H]]]; try congruence; try lia.
      rewrite H. exact Hplain.
    + destruct (dneg d).
      * split.
        -- cbn [readback_base]. rewrite N.eqb_refl. rewrite zfill_val, to_base_val by lia. reflexivity.
        -- cbn [tl]. apply Hplain.
      * exact Hplain.
Qed.

(* two's complement of a negative number: bases 2, 8, 16 *)
Lemma log2_up_le v : 0 < v -> v <= 2 ^ Z.log2_up v.
Proof.
  intros Hv. destruct (Z.eq_dec v 1) as [->|]; [cbn; lia|].
  pose proof (Z.log2_up_spec v ltac:(lia)). lia.
Qed.

Lemma twos_value v : 0 < v ->
  let nbits := Z.max 32 (Z.log2_up v + 1) in
  let t := 2 ^ nbits - v in
  2 ^ (nbits - 1) <= t < 2 ^ nbits /\ 32 <= nbits.
Proof.
  intros Hv nbits t. pose proof (log2_up_le v Hv) as Hle. pose proof (Z.log2_up_nonneg v) as Hn.
  assert (Hnb : Z.log2_up v <= nbits - 1) by (unfold nbits; lia).
  assert (2 ^ Z.log2_up v <= 2 ^ (nbits - 1)) by (apply Z.pow_le_mono_r; lia).
  assert (E : 2 ^ nbits = 2 * 2 ^ (nbits - 1)).
  { replace nbits with ((nbits - 1) + 1) at 1 by lia. apply pow_succ_b. unfold nbits. lia. }
  unfold t. split; [lia|unfold nbits; lia].
Qed.

Lemma twos_lemma v base : 0 < v -> (base = 2 \/ base = 8 \/ base = 16) ->
  let s := twos_complement v base in
  let nbits := Z.max 32 (Z.log2_up v + 1) in
  bval base s = 2 ^ nbits - v /\ readback_twos base s = - v /\ Z.log2 (bval base s) + 1 = nbits.
Proof.
  intros Hv Hbase s nbits.
  pose proof (twos_value v Hv) as [[Hlo Hhi] H32]. fold nbits in Hlo, Hhi, H32.
  set (t := 2 ^ nbits - v) in *.
  assert (Ht : 0 < t) by (pose proof (pow_pos_b 2 (nbits - 1) ltac:(lia) ltac:(lia)); lia).
  assert (Hval : bval base s = t).
  { unfold s, twos_complement. fold nbits. fold t.
    destruct (Z.eqb_spec base 2) as [->|Hn2].
    - assert (Hlen : zlen (to_base 2 t) = nbits).
      { rewrite to_base_length by lia. apply nbdig_unique; lia. }
      unfold rjust. rewrite Hlen. replace (Z.to_nat (nbits - nbits)) with 0%nat by lia. cbn [repeat app].
      apply to_base_val; lia.
    - apply to_base_val; lia. }
  assert (Hlog : Z.log2 t = nbits - 1).
  { apply Z.log2_unique; [lia|]. replace (Z.succ (nbits - 1)) with nbits by lia. lia. }
  split; [exact Hval|]. split.
  - unfold readback_twos. rewrite Hval, Hlog. replace (nbits - 1 + 1) with nbits by lia. unfold t. lia.
  - rewrite Hval, Hlog. lia.
Qed.

Lemma base_twos_lemma is_int d base places :
  (base = 2 \/ base = 8 \/ base = 16) -> dneg d = true -> 0 < base_shown is_int d ->
  let v := base_shown is_int d in
  let s := format_base is_int d base places false in
  readback_twos base s = - v /\ 32 <= Z.log2 (bval base s) + 1.
Proof.
  intros Hbase Hneg Hpos v s.
  assert (Es : s = twos_complement v base).
  { unfold s, format_base, v, base_shown in *.
    destruct (value_rat is_int (dmant d) (dexp d)) as [vn vd].
    destruct (Z.leb_spec (rne_div vn vd) 0); [lia|].
    replace (twos_base base) with true by (unfold twos_base; destruct Hbase as [-> | [-> | ->]]; reflexivity).
    cbn [negb andb]. rewrite Hneg. reflexivity. }
  rewrite Es. pose proof (twos_lemma v base Hpos Hbase) as [_ [H1 H2]]. cbv zeta in H1, H2.
  split; [exact H1|]. rewrite H2. lia.
Qed.
