(* Proofs about Model/Refs.v (stdlib + lia). *)
From Coq Require Import ZArith NArith List Bool Lia.
From NP Require Import Model.PyBase Model.A1 Proofs.A1P Model.Refs.
Import ListNotations.
Open Scope N_scope.

(* ================= small list facts ================= *)
Lemma str_eqb_refl s : str_eqb s s = true.
Proof. now apply str_eqb_eq. Qed.

Lemma singleton_split {A} (p l q : list A) (x : A) :
  p ++ l ++ q = [x] -> l = [] \/ (l = [x] /\ p = [] /\ q = []).
Proof.
  intros H. destruct l as [|y l']; [now left|right].
  destruct p as [|z p'].
  - cbn in H. inversion H as [[Hy Hr]]. apply app_eq_nil in Hr as [-> ->]. auto.
  - cbn in H. inversion H as [[Hz Hr]]. apply app_eq_nil in Hr as [_ Hr]. discriminate.
Qed.

Lemma length1_in {A} (l : list A) (x : A) : length l = 1%nat -> In x l -> l = [x].
Proof.
  destruct l as [|y [|z r]]; cbn; intros HL HI; try discriminate.
  destruct HI as [->|[]]. reflexivity.
Qed.

Lemma length_le1_in {A} (l : list A) (x : A) : (length l <= 1)%nat -> In x l -> l = [x].
Proof.
  intros HL HI. apply length1_in; [|assumption].
  destruct l; [destruct HI|]. cbn in *. lia.
Qed.

Lemma all_absurd_nil {A} (l : list A) : (forall x, In x l -> False) -> l = [].
Proof. destruct l as [|x r]; [reflexivity|]. intros H. exfalso. apply (H x). now left. Qed.

(* ================= find_idx ================= *)
Lemma find_idx_length {A} (p : A -> bool) l : forall k, length (find_idx p l k) = length (filter p l).
Proof.
  induction l as [|x r IH]; intros k; [reflexivity|].
  cbn [find_idx filter]. rewrite app_length, IH. destruct (p x); reflexivity.
Qed.

Lemma find_idx_in {A} (p : A -> bool) l : forall k i,
  In i (find_idx p l k) <-> exists j x, i = (k + j)%nat /\ nth_error l j = Some x /\ p x = true.
Proof.
  induction l as [|y r IH]; intros k i; cbn [find_idx].
  - split; [intros []|]. intros (j & x & _ & H & _). destruct j; discriminate.
  - rewrite in_app_iff, IH. split.
    + intros [H|(j & x & -> & Hn & Hp)].
      * destruct (p y) eqn:E; [|destruct H]. destruct H as [<-|[]].
        exists 0%nat, y. repeat split; [lia|assumption].
      * exists (S j), x. repeat split; [lia|assumption|assumption].
    + intros (j & x & -> & Hn & Hp). destruct j as [|j].
      * left. cbn in Hn. inversion Hn; subst. rewrite Hp. left. lia.
      * right. exists j, x. repeat split; [lia|assumption|assumption].
Qed.

Lemma find_idx_unique {A} (p : A -> bool) l : forall k j x,
  nth_error l j = Some x -> p x = true ->
  (forall j' x', nth_error l j' = Some x' -> p x' = true -> j' = j) ->
  find_idx p l k = [(k + j)%nat].
Proof.
  induction l as [|y r IH]; intros k j x Hn Hp Hu; [destruct j; discriminate|].
  cbn [find_idx]. destruct j as [|j].
  - cbn in Hn. inversion Hn; subst. rewrite Hp.
    assert (E : find_idx p r (S k) = []).
    { apply all_absurd_nil. intros i Hi. apply find_idx_in in Hi as (j & x' & _ & Hn' & Hp').
      specialize (Hu (S j) x' Hn' Hp'). discriminate. }
    rewrite E. cbn. f_equal. lia.
  - destruct (p y) eqn:E.
    + specialize (Hu 0%nat y eq_refl E). discriminate.
    + cbn [app]. rewrite (IH (S k) j x Hn Hp).
      * f_equal. lia.
      * intros j' x' Hn' Hp'. specialize (Hu (S j') x' Hn' Hp'). lia.
Qed.

(* segment of the element at position j *)
Lemma find_idx_none {A} (p : A -> bool) l k : (forall x, In x l -> p x = false) -> find_idx p l k = [].
Proof.
  intros H. apply all_absurd_nil. intros i Hi. apply find_idx_in in Hi as (j & x & _ & Hn & Hp).
  apply nth_error_In in Hn. rewrite (H x Hn) in Hp. discriminate.
Qed.

Lemma NoDup_map_nth {A B} (f : A -> B) l j j' x x' :
  NoDup (map f l) -> nth_error l j = Some x -> nth_error l j' = Some x' -> f x = f x' -> j = j'.
Proof.
  intros ND Hj Hj' E.
  assert (Hl : (j < length (map f l))%nat).
  { rewrite map_length. apply nth_error_Some. congruence. }
  apply (proj1 (NoDup_nth_error (map f l)) ND j j' Hl).
  rewrite !nth_error_map, Hj, Hj'. cbn. now f_equal.
Qed.

(* ================= counting ================= *)
Lemma count_str_app n a b : count_str n (a ++ b) = (count_str n a + count_str n b)%nat.
Proof. unfold count_str. now rewrite filter_app, app_length. Qed.

Lemma count_str_map {A} (f : A -> str) n l :
  count_str n (map f l) = length (filter (fun x => str_eqb n (f x)) l).
Proof.
  unfold count_str. induction l as [|x r IH]; [reflexivity|].
  cbn [map filter]. destruct (str_eqb n (f x)); cbn [length]; now rewrite IH.
Qed.

Lemma count_filter_nonempty n l : n <> [] ->
  count_str n (filter (fun s => negb (is_empty s)) l) = count_str n l.
Proof.
  intros Hn. unfold count_str. induction l as [|x r IH]; [reflexivity|].
  cbn [filter]. destruct x as [|c x'].
  - cbn [is_empty negb]. destruct n; [congruence|]. cbn [str_eqb]. exact IH.
  - cbn [is_empty negb filter]. destruct (str_eqb n (c :: x')); cbn [length]; now rewrite IH.
Qed.

(* ================= well-formed naming configurations ================= *)
(* sibling table names distinct, sheet names distinct (exact comparison) *)
Definition wf_doc (d : doc) : Prop :=
  NoDup (map fst d) /\ Forall (fun s : sheet => NoDup (map t_name (snd s))) d.

Lemma get_tbl_inv d t tb : get_tbl d t = Some tb ->
  exists s, nth_error d (fst t) = Some s /\ nth_error (snd s) (snd t) = Some tb.
Proof.
  unfold get_tbl. destruct (nth_error d (fst t)) as [s|]; [|discriminate]. intros H. eauto.
Qed.

Lemma tid_eqb_eq a b : tid_eqb a b = true <-> a = b.
Proof.
  unfold tid_eqb. destruct a as [a1 a2], b as [b1 b2]. cbn [fst snd].
  rewrite andb_true_iff, !Nat.eqb_eq. split; [intros [-> ->]; reflexivity|intros H; inversion H; auto].
Qed.

(* the table itself is the only table of its name in its sheet *)
Lemma tables_in_sheet_self d t tb : wf_doc d -> get_tbl d t = Some tb ->
  tables_in_sheet d (fst t) (t_name tb) = [t].
Proof.
  intros [_ WF] H. apply get_tbl_inv in H as (s & Hs & Ht).
  unfold tables_in_sheet. rewrite Hs.
  rewrite (find_idx_unique (name_is (t_name tb)) (snd s) 0 (snd t) tb Ht).
  - cbn. destruct t; reflexivity.
  - apply str_eqb_refl.
  - intros j' x' Hj' Hp. unfold name_is in Hp. apply str_eqb_eq in Hp.
    rewrite Forall_forall in WF. specialize (WF s (nth_error_In _ _ Hs)).
    symmetry. eapply (NoDup_map_nth t_name); eauto.
Qed.

Lemma sheets_named_self d si s : wf_doc d -> nth_error d si = Some s -> sheets_named d (fst s) = [si].
Proof.
  intros [WF _] Hs. unfold sheets_named.
  rewrite (find_idx_unique (sheet_is (fst s)) d 0 si s Hs).
  - reflexivity.
  - apply str_eqb_refl.
  - intros j' x' Hj' Hp. unfold sheet_is in Hp. apply str_eqb_eq in Hp.
    symmetry. eapply (NoDup_map_nth fst); eauto.
Qed.

(* document-wide search *)
Lemma tables_from_length ss n : forall k,
  length (tables_from k ss n) = count_str n (flat_map (fun s : sheet => map t_name (snd s)) ss).
Proof.
  induction ss as [|s r IH]; intros k; [reflexivity|].
  cbn [tables_from flat_map]. rewrite app_length, map_length, find_idx_length, count_str_app, IH.
  f_equal. rewrite count_str_map. reflexivity.
Qed.

Lemma tables_from_split ss n : forall k j s, nth_error ss j = Some s ->
  exists p q, tables_from k ss n = p ++ map (pair (k + j)%nat) (find_idx (name_is n) (snd s) 0) ++ q.
Proof.
  induction ss as [|s0 r IH]; intros k j s Hj; [destruct j; discriminate|].
  destruct j as [|j]; cbn [tables_from].
  - cbn in Hj. inversion Hj; subst. exists [], (tables_from (S k) r n).
    rewrite Nat.add_0_r. reflexivity.
  - cbn in Hj. destruct (IH (S k) j s Hj) as (p & q & E). rewrite E.
    exists (map (pair k) (find_idx (name_is n) (snd s0) 0) ++ p), q.
    replace (k + S j)%nat with (S k + j)%nat by lia. now rewrite <- app_assoc.
Qed.

Lemma tables_in_doc_unique d t tb : wf_doc d -> get_tbl d t = Some tb ->
  count_str (t_name tb) (all_table_names d) = 1%nat ->
  tables_in_doc d (t_name tb) = [t] /\
  forall si, si <> fst t -> tables_in_sheet d si (t_name tb) = [].
Proof.
  intros WF H C.
  pose proof (tables_in_sheet_self d t tb WF H) as Hself.
  pose proof H as H'. apply get_tbl_inv in H' as (s & Hs & Ht).
  assert (L : length (tables_in_doc d (t_name tb)) = 1%nat).
  { unfold tables_in_doc. rewrite tables_from_length. exact C. }
  assert (E : tables_in_doc d (t_name tb) = [t]).
  { apply length1_in; [assumption|].
    destruct (tables_from_split d (t_name tb) 0 (fst t) s Hs) as (p & q & E).
    unfold tables_in_doc. rewrite E. apply in_or_app. right. apply in_or_app. left.
    unfold tables_in_sheet in Hself. rewrite Hs in Hself. cbn [Nat.add]. rewrite Hself. now left. }
  split; [assumption|].
  intros si Hne. unfold tables_in_sheet. destruct (nth_error d si) as [s'|] eqn:Hs'; [|reflexivity].
  destruct (tables_from_split d (t_name tb) 0 si s' Hs') as (p & q & E').
  unfold tables_in_doc in E. rewrite E' in E. cbn [Nat.add] in E.
  apply singleton_split in E as [E|(E & _ & _)]; [assumption|].
  exfalso. destruct (find_idx (name_is (t_name tb)) (snd s') 0) as [|i0 r0]; [discriminate|].
  cbn in E. inversion E as [[E1 E2]]. apply Hne. destruct t. cbn. inversion E1. reflexivity.
Qed.

(* ----- the three prefix shapes expand_ref produces ----- *)
Lemma prefix_same_sheet d host t tb : wf_doc d -> get_tbl d t = Some tb -> fst host = fst t ->
  resolve_table d host [t_name tb] = [t].
Proof.
  intros WF H E. cbn [resolve_table]. rewrite E, (tables_in_sheet_self d t tb WF H). reflexivity.
Qed.

Lemma prefix_unique_name d host t tb : wf_doc d -> get_tbl d t = Some tb ->
  count_str (t_name tb) (all_table_names d) = 1%nat ->
  resolve_table d host [t_name tb] = [t].
Proof.
  intros WF H C. destruct (tables_in_doc_unique d t tb WF H C) as [ED EN].
  cbn [resolve_table]. destruct (Nat.eq_dec (fst host) (fst t)) as [E|NE].
  - rewrite E, (tables_in_sheet_self d t tb WF H). reflexivity.
  - rewrite (EN _ NE). exact ED.
Qed.

Lemma prefix_sheet_table d host t tb s : wf_doc d -> get_tbl d t = Some tb ->
  nth_error d (fst t) = Some s ->
  resolve_table d host [fst s; t_name tb] = [t].
Proof.
  intros WF H Hs. cbn [resolve_table]. rewrite (sheets_named_self d (fst t) s WF Hs).
  cbn [flat_map]. rewrite (tables_in_sheet_self d t tb WF H). reflexivity.
Qed.

(* expand_ref always succeeds for an existing target and leaves the body alone *)
Lemma expand_ref_body d from to ref is_abs np p :
  expand_ref d from to ref is_abs np = Ok p ->
  snd p = quote_ref (dollar is_abs ++ match ref with RText s => s | RName r => s_name r end).
Proof.
  unfold expand_ref.
  destruct (np || ref_scope_is ref DOCUMENT); [intros H; inversion H; reflexivity|].
  destruct (tid_eqb from to); [intros H; inversion H; reflexivity|].
  destruct (get_tbl d to) as [t|]; [|discriminate].
  destruct (Nat.eqb (fst from) (fst to) && ref_scope_is ref SHEET); [intros H; inversion H; reflexivity|].
  destruct (Nat.eqb (fst from) (fst to) || (ref_scope_is ref TABLE || Nat.eqb (count_str (t_name t) (all_table_names d)) 1));
    [intros H; inversion H; reflexivity|].
  destruct (nth_error d (fst to)); [intros H; inversion H; reflexivity|discriminate].
Qed.

Lemma expand_ref_ok d from to tb ref is_abs np : get_tbl d to = Some tb ->
  exists p, expand_ref d from to ref is_abs np = Ok p.
Proof.
  intros H. unfold expand_ref.
  destruct (np || ref_scope_is ref DOCUMENT); [eauto|].
  destruct (tid_eqb from to); [eauto|]. rewrite H.
  destruct (Nat.eqb (fst from) (fst to) && ref_scope_is ref SHEET); [eauto|].
  destruct (Nat.eqb (fst from) (fst to) || _); [eauto|].
  apply get_tbl_inv in H as (s & Hs & _). rewrite Hs. eauto.
Qed.

Lemma expand_ref_noprefix d from to ref is_abs p :
  expand_ref d from to ref is_abs true = Ok p -> fst p = [].
Proof. unfold expand_ref. cbn [orb]. intros H. inversion H. reflexivity. Qed.

(* ================= prefix_unambiguous ================= *)
Lemma qualify_table d host tgt tb r is_abs p :
  wf_doc d -> get_tbl d tgt = Some tb ->
  qualify d host tgt r is_abs = Ok p ->
  resolve_table d host (fst p) = [tgt].
Proof.
  intros WF H Q. unfold qualify in Q.
  unfold expand_ref in Q. cbn [orb ref_scope_is andb] in Q. rewrite andb_false_r in Q.
  destruct (tid_eqb host tgt) eqn:ET.
  - inversion Q; subst. cbn. apply tid_eqb_eq in ET. now subst.
  - rewrite H in Q. cbn [orb] in Q.
    destruct (Nat.eqb (fst host) (fst tgt)) eqn:ES.
    + cbn [orb] in Q. inversion Q; subst. cbn [fst]. apply Nat.eqb_eq in ES.
      now apply prefix_same_sheet.
    + cbn [orb] in Q.
      destruct (Nat.eqb (count_str (t_name tb) (all_table_names d)) 1) eqn:EC.
      * inversion Q; subst. cbn [fst]. apply Nat.eqb_eq in EC. now apply prefix_unique_name.
      * destruct (nth_error d (fst tgt)) as [s|] eqn:Hs; [|discriminate].
        inversion Q; subst. cbn [fst]. now apply prefix_sheet_table.
Qed.

Lemma prefix_unambiguous_lemma d host tgt tb r is_abs p :
  wf_doc d -> get_tbl d tgt = Some tb ->
  qualify d host tgt r is_abs = Ok p ->
  resolve_text d host p = [(tgt, quote_ref (dollar is_abs ++ r))].
Proof.
  intros WF H Q.
  pose proof (expand_ref_body _ _ _ _ _ _ _ Q) as HB. cbn in HB.
  unfold resolve_text. rewrite HB, (qualify_table _ _ _ _ _ _ _ WF H Q). reflexivity.
Qed.

Lemma qualify_ok d host tgt tb r is_abs : get_tbl d tgt = Some tb ->
  exists p, qualify d host tgt r is_abs = Ok p.
Proof. intros H. unfold qualify. eapply expand_ref_ok; eauto. Qed.

(* ================= coordinate texts are not touched by the quoting rule ================= *)
Definition plainc (c : N) : Prop := is_op_char c = false /\ (c =? c_quote) = false.

Lemma quote_ref_plain s : Forall plainc s -> quote_ref s = s.
Proof.
  intros H. unfold quote_ref.
  assert (E : existsb is_op_char s = false).
  { induction H as [|c r [Hc _] _ IH]; [reflexivity|]. cbn [existsb]. now rewrite Hc, IH. }
  rewrite E. clear E. induction H as [|c r [_ Hq] _ IH]; [reflexivity|].
  cbn [flat_map]. rewrite Hq, IH. reflexivity.
Qed.

Lemma plainc_range c : (c = 36 \/ 48 <= c <= 57 \/ 65 <= c <= 90) -> plainc c.
Proof.
  intros H. unfold plainc, is_op_char, op_chars, c_quote. cbn [existsb].
  repeat match goal with |- context [N.eqb c ?k] => destruct (N.eqb_spec c k); [lia|] end.
  split; reflexivity.
Qed.

Lemma plain_dollar b : Forall plainc (dollar b).
Proof. destruct b; cbn; [constructor; [apply plainc_range; unfold c_dollar; lia|constructor]|constructor]. Qed.
Lemma plain_letters l : Forall letter l -> Forall plainc l.
Proof. apply Forall_impl. intros c Hc. apply plainc_range. unfold letter in Hc. lia. Qed.
Lemma plain_digits l : Forall (fun c => is_digit c = true) l -> Forall plainc l.
Proof.
  apply Forall_impl. intros c Hc. apply plainc_range. unfold is_digit in Hc.
  apply andb_prop in Hc as [A B]. apply N.leb_le in A, B. lia.
Qed.

Definition cell_text (r c : Z) (ra ca : bool) : str :=
  (dollar ca ++ col_letters (Z.to_N c)) ++ dollar ra ++ py_str_N (Z.to_N (r + 1)).

Lemma cell_text_eq r c ra ca : (0 <= r)%Z -> (0 <= c)%Z ->
  xl_rowcol_to_cell r c ra ca = Ok (cell_text r c ra ca).
Proof.
  intros Hr Hc. unfold xl_rowcol_to_cell, xl_col_to_name.
  destruct (Z.ltb_spec r 0); [lia|]. destruct (Z.ltb_spec c 0); [lia|]. reflexivity.
Qed.

Lemma cell_text_plain r c ra ca : Forall plainc (cell_text r c ra ca).
Proof.
  unfold cell_text.
  apply Forall_app; split; [apply Forall_app; split|apply Forall_app; split].
  - apply plain_dollar.
  - apply plain_letters. apply col_letters_props.
  - apply plain_dollar.
  - apply plain_digits, py_str_N_digits.
Qed.

(* the regex groups of a printed cell: '$' marks, letters, digits, nothing left over *)
Lemma cell_text_match r c ra ca : (0 <= r)%Z -> (0 <= c < 18278)%Z ->
  match_cell (cell_text r c ra ca) =
  Some (ca, col_letters (Z.to_N c), ra, py_str_N (Z.to_N (r + 1)), []).
Proof.
  intros Hr Hc. unfold cell_text.
  destruct (col_letters_props (Z.to_N c)) as (HL & HN & HV).
  pose proof (col_letters_len3 (Z.to_N c) ltac:(lia)) as H3.
  set (ls := col_letters (Z.to_N c)) in *.
  set (ds := py_str_N (Z.to_N (r + 1))).
  pose proof (py_str_N_digits (Z.to_N (r + 1))) as HD.
  pose proof (py_str_N_nonempty (Z.to_N (r + 1))) as HDn.
  fold ds in HD, HDn.
  unfold match_cell. rewrite <- app_assoc.
  rewrite opt_dollar_dollar.
  2:{ destruct ls as [|x ?]; [congruence|]. pose proof (Forall_inv HL) as Hx. cbn. unfold letter, c_dollar in *. lia. }
  assert (Hhead : match dollar ra ++ ds with [] => True | x :: _ => is_upper x = false end).
  { destruct ra; cbn; [reflexivity|]. destruct ds as [|x ?]; [exact I|].
    pose proof (Forall_inv HD) as Hx. cbn beta in Hx. unfold is_digit, is_upper in *.
    apply andb_prop in Hx as [A B]. apply N.leb_le in A, B.
    apply andb_false_intro1. apply N.leb_gt. lia. }
  rewrite take_upper_exact by assumption.
  destruct ls as [|l0 ls'] eqn:Els; [congruence|]. rewrite <- Els in *.
  rewrite opt_dollar_dollar.
  2:{ destruct ds as [|x ?]; [exact I|]. pose proof (Forall_inv HD) as Hx. cbn beta in Hx.
      unfold is_digit, c_dollar in *. apply andb_prop in Hx as [A B]. apply N.leb_le in A. lia. }
  rewrite take_digits_all by assumption.
  destruct ds eqn:Eds; [congruence|]. reflexivity.
Qed.

(* the '$' marks a printed cell carries: (row mark, column mark) *)
Definition cell_marks (s : str) : option (bool * bool) :=
  match match_cell s with
  | Some (ca, _, ra, _, []) => Some (ra, ca)
  | _ => None
  end.

Lemma cell_text_marks r c ra ca : (0 <= r)%Z -> (0 <= c < 18278)%Z ->
  cell_marks (cell_text r c ra ca) = Some (ra, ca).
Proof. intros Hr Hc. unfold cell_marks. now rewrite cell_text_match. Qed.

Lemma cell_text_parse r c ra ca : (0 <= r)%Z -> (0 <= c < 18278)%Z ->
  xl_cell_to_rowcol (cell_text r c ra ca) = Ok (r, c).
Proof.
  intros Hr Hc. pose proof (a1_roundtrip_lemma r c ra ca Hr Hc) as H.
  rewrite cell_text_eq in H by lia. exact H.
Qed.

(* ================= stored nodes: what they mean ================= *)
(* a relative coordinate resolves from the host by the stored offset, an absolute one is the stored value *)
Definition coord (is_abs : bool) (stored host : Z) : Z := if is_abs then stored else (host + stored)%Z.

(* the stored begin / end of one axis of a colon tract *)
Definition stored_begin (is_abs : bool) (absl rell : list ise) (host : Z) : option Z :=
  if is_abs then option_map i_begin (hd_error absl)
  else option_map (fun e => (host + i_begin e)%Z) (hd_error rell).
Definition stored_end (is_abs : bool) (absl rell : list ise) (host : Z) : option Z :=
  if is_abs then option_map range_end (hd_error absl)
  else option_map (fun e => (host + range_end e)%Z) (hd_error rell).

Lemma resolve_range_stored is_abs absl rell host maxv v :
  stored_begin is_abs absl rell host = Some v -> resolve_range is_abs absl rell host maxv = Ok v.
Proof.
  unfold stored_begin, resolve_range. destruct is_abs.
  - destruct absl; cbn; [discriminate|]. intros H; inversion H; reflexivity.
  - destruct rell; cbn; [discriminate|]. intros H; inversion H; reflexivity.
Qed.
Lemma resolve_range_end_stored is_abs absl rell host maxv v :
  stored_end is_abs absl rell host = Some v -> resolve_range_end is_abs absl rell host maxv = Ok v.
Proof.
  unfold stored_end, resolve_range_end. destruct is_abs.
  - destruct absl; cbn; [discriminate|]. intros H; inversion H; reflexivity.
  - destruct rell; cbn; [discriminate|]. intros H; inversion H; reflexivity.
Qed.

Lemma open_end_some maxv v : v <> maxv -> open_end maxv v = Some v.
Proof. intros H. unfold open_end. destruct (Z.eqb_spec v maxv); [contradiction|reflexivity]. Qed.

Definition target_of (from : tid) (to : option tid) : tid := match to with Some t => t | None => from end.

(* ================= cellref_coords ================= *)
Lemma cellref_cell_lemma d from to tb hr hc r ra c ca :
  wf_doc d -> get_tbl d (target_of from to) = Some tb ->
  (0 <= coord ra r hr)%Z -> (0 <= coord ca c hc < 18278)%Z ->
  exists pre body,
    ref_text d from hr hc to (NCell (Some (r, ra)) (Some (c, ca))) = Ok (pre, body, None) /\
    xl_cell_to_rowcol body = Ok (coord ra r hr, coord ca c hc) /\
    cell_marks body = Some (ra, ca) /\
    resolve_table d from pre = [target_of from to].
Proof.
  intros WF H HR HC. unfold coord in *.
  unfold ref_text, node_to_ref. cbn [bind]. unfold cr_str. cbn [col_start row_start].
  unfold format_cell_range. cbn [rs_abs cs_abs row_end col_end from_t to_t].
  fold (target_of from to).
  rewrite cell_text_eq by lia. cbn [bind].
  destruct (qualify_ok d from (target_of from to) tb
              (cell_text (if ra then r else (hr + r)%Z) (if ca then c else (hc + c)%Z) ra ca) false H) as [p Q].
  unfold qualify in Q. rewrite Q. cbn [bind].
  exists (fst p), (snd p). split; [reflexivity|].
  pose proof (expand_ref_body _ _ _ _ _ _ _ Q) as HB. cbn [dollar app] in HB.
  rewrite quote_ref_plain in HB by apply cell_text_plain. rewrite HB.
  split; [apply cell_text_parse; lia|]. split; [apply cell_text_marks; lia|].
  eapply qualify_table; eauto.
Qed.

Lemma cellref_rect_lemma d from to tb hr hc bra bca era eca absr relr absc relc r1 c1 r2 c2 :
  wf_doc d -> get_tbl d (target_of from to) = Some tb ->
  stored_begin bra absr relr hr = Some r1 -> stored_end era absr relr hr = Some r2 ->
  stored_begin bca absc relc hc = Some c1 -> stored_end eca absc relc hc = Some c2 ->
  (0 <= r1 < MAX_ROW)%Z -> (0 <= r2 < MAX_ROW)%Z -> (0 <= c1 < 18278)%Z -> (0 <= c2 < 18278)%Z ->
  exists pre a b,
    ref_text d from hr hc to (NTract bra bca era eca absr relr absc relc) = Ok (pre, a, Some b) /\
    xl_cell_to_rowcol a = Ok (r1, c1) /\ cell_marks a = Some (bra, bca) /\
    xl_cell_to_rowcol b = Ok (r2, c2) /\ cell_marks b = Some (era, eca) /\
    resolve_table d from pre = [target_of from to].
Proof.
  intros WF H B1 E1 B2 E2 HR1 HR2 HC1 HC2.
  unfold ref_text, node_to_ref.
  rewrite (resolve_range_stored _ _ _ _ MAX_ROW _ B1), (resolve_range_end_stored _ _ _ _ MAX_ROW _ E1),
          (resolve_range_stored _ _ _ _ MAX_COL _ B2), (resolve_range_end_stored _ _ _ _ MAX_COL _ E2).
  cbn [bind].
  rewrite !open_end_some by (unfold MAX_COL, MAX_ROW in *; lia).
  fold (target_of from to).
  unfold cr_str. cbn [col_start row_start]. unfold format_cell_range.
  cbn [rs_abs cs_abs re_abs ce_abs row_end col_end from_t to_t].
  rewrite !cell_text_eq by lia. cbn [bind].
  destruct (qualify_ok d from (target_of from to) tb (cell_text r1 c1 bra bca) false H) as [p Q].
  unfold qualify in Q. rewrite Q. cbn [bind].
  destruct (expand_ref_ok d from (target_of from to) tb (RText (cell_text r2 c2 era eca)) false true H) as [q Q2].
  rewrite Q2. cbn [bind].
  exists (fst p), (snd p), (snd q). split; [reflexivity|].
  pose proof (expand_ref_body _ _ _ _ _ _ _ Q) as HB. cbn [dollar app] in HB.
  pose proof (expand_ref_body _ _ _ _ _ _ _ Q2) as HB2. cbn [dollar app] in HB2.
  rewrite quote_ref_plain in HB, HB2 by apply cell_text_plain. rewrite HB, HB2.
  repeat split; try (apply cell_text_parse; lia); try (apply cell_text_marks; lia).
  eapply qualify_table; eauto.
Qed.

(* ================= header names ================= *)
Lemma local_names_from_nth all first labs : forall k i n,
  nth_error (local_names_from all first k labs) i = Some (Some n) ->
  nth_error labs i = Some n /\ (first <= k + i)%nat /\ n <> [] /\ (count_str n all <= 1)%nat.
Proof.
  induction labs as [|l r IH]; intros k i n H; [destruct i; discriminate|].
  destruct i as [|i]; cbn [local_names_from nth_error] in H.
  - destruct (Nat.ltb_spec k first) as [Hlt|Hge]; [discriminate|].
    destruct l as [|c l']; [discriminate|]. cbn [is_empty] in H.
    destruct (Nat.ltb_spec 1 (count_str (c :: l') all)) as [Hc|Hc]; [discriminate|].
    inversion H; subst. repeat split; [lia|discriminate|lia].
  - destruct (IH (S k) i n H) as (A & B & C & D). repeat split; try assumption. lia.
Qed.

Lemma local_names_nth tb a i n :
  nth_error (local_names tb a) i = Some (Some n) ->
  axis_enabled tb a = true /\ nth_error (axis_labels tb a) i = Some n /\
  (axis_first tb a <= i)%nat /\ n <> [] /\ (count_str n (header_names tb) <= 1)%nat.
Proof.
  unfold local_names. destruct (axis_enabled tb a) eqn:E.
  - intros H. apply local_names_from_nth in H as (A & B & C & D). repeat split; try assumption; try lia.
  - rewrite nth_error_map. destruct (nth_error (axis_labels tb a) i); discriminate.
Qed.

Lemma ranges_inv d t a rng : ranges d t a = Ok rng ->
  exists s tb, nth_error d (fst t) = Some s /\ nth_error (snd s) (snd t) = Some tb /\
    rng = map (fun o => match o with None => None | Some n => Some (mk_sref n (scope_of d s tb n)) end)
              (local_names tb a).
Proof.
  unfold ranges. destruct (nth_error d (fst t)) as [s|] eqn:Hs; [|discriminate].
  destruct (nth_error (snd s) (snd t)) as [tb|] eqn:Ht; [|discriminate].
  intros H. inversion H. exists s, tb. auto.
Qed.

Lemma ranges_ok d t tb a : get_tbl d t = Some tb -> exists rng, ranges d t a = Ok rng.
Proof.
  intros H. apply get_tbl_inv in H as (s & Hs & Ht). unfold ranges. rewrite Hs, Ht. eauto.
Qed.

Lemma ranges_entry d t tb a rng i r : get_tbl d t = Some tb -> ranges d t a = Ok rng ->
  nth_error rng i = Some (Some r) ->
  exists s, nth_error d (fst t) = Some s /\
    nth_error (local_names tb a) i = Some (Some (s_name r)) /\ s_scope r = scope_of d s tb (s_name r).
Proof.
  intros H R N. apply ranges_inv in R as (s & tb' & Hs & Ht & ->).
  apply get_tbl_inv in H as (s' & Hs' & Ht'). rewrite Hs in Hs'. inversion Hs'; subst s'.
  rewrite Ht in Ht'. inversion Ht'; subst tb'.
  exists s. split; [assumption|]. rewrite nth_error_map in N.
  destruct (nth_error (local_names tb a) i) as [[n|]|]; cbn in N; try discriminate.
  inversion N; subst. cbn. auto.
Qed.

Lemma lookup_range_inv rng z o : lookup_range rng z = Ok o ->
  (0 <= z)%Z /\ nth_error rng (Z.to_nat z) = Some o.
Proof.
  unfold lookup_range. destruct (Z.ltb_spec z 0) as [Hz|Hz]; cbn [orb]; [discriminate|].
  destruct (Z.leb_spec (Z.of_nat (length rng)) z) as [Hl|Hl]; [discriminate|].
  destruct (nth_error rng (Z.to_nat z)); [|discriminate]. intros E; inversion E. auto.
Qed.

(* a printed header name is the label of that line *)
Lemma ranges_label d t tb a rng z r : get_tbl d t = Some tb -> ranges d t a = Ok rng ->
  lookup_range rng z = Ok (Some r) ->
  nth_error (axis_labels tb a) (Z.to_nat z) = Some (s_name r) /\ (axis_first tb a <= Z.to_nat z)%nat.
Proof.
  intros H R L. apply lookup_range_inv in L as [_ L].
  destruct (ranges_entry _ _ _ _ _ _ _ H R L) as (s & _ & N & _).
  apply local_names_nth in N as (_ & A & B & _). auto.
Qed.

(* ================= open ends ================= *)
Lemma resolve_range_open b maxv host : resolve_range b [mk_ise maxv None] [] host maxv = Ok maxv.
Proof. unfold resolve_range. destruct b; cbn; [reflexivity|]. now rewrite Z.eqb_refl. Qed.
Lemma resolve_range_end_open b maxv host : resolve_range_end b [mk_ise maxv None] [] host maxv = Ok maxv.
Proof. unfold resolve_range_end, range_end. destruct b; cbn; [reflexivity|]. now rewrite Z.eqb_refl. Qed.
Lemma open_end_max maxv : open_end maxv maxv = None.
Proof. unfold open_end. now rewrite Z.eqb_refl. Qed.

Lemma py_str_Z1_nonneg r : (0 <= r)%Z -> py_str_Z1 r = py_str_N (Z.to_N (r + 1)).
Proof. intros H. unfold py_str_Z1, py_str_Z. destruct (Z.ltb_spec (r + 1) 0); [lia|reflexivity]. Qed.

Lemma plain_rownum b n : Forall plainc (dollar b ++ py_str_N n).
Proof. apply Forall_app; split; [apply plain_dollar|apply plain_digits, py_str_N_digits]. Qed.
Lemma plain_colname b c : Forall plainc (dollar b ++ col_letters c).
Proof. apply Forall_app; split; [apply plain_dollar|apply plain_letters, col_letters_props]. Qed.

(* what a row span prints, given the name entries of its two rows *)
Definition row_span_text (bra era : bool) (r1 r2 : Z) (o1 o2 : option sref) : str * str :=
  match o1, o2 with
  | Some s1, Some s2 => (quote_ref (dollar bra ++ s_name s1), quote_ref (dollar era ++ s_name s2))
  | _, _ => (dollar bra ++ py_str_N (Z.to_N (r1 + 1)), dollar era ++ py_str_N (Z.to_N (r2 + 1)))
  end.
Definition col_span_text (bca eca : bool) (c1 c2 : Z) (o1 o2 : option sref) : str * str :=
  match o1, o2 with
  | Some s1, Some s2 => (quote_ref (dollar bca ++ s_name s1), quote_ref (dollar eca ++ s_name s2))
  | _, _ => (dollar bca ++ col_letters (Z.to_N c1), dollar eca ++ col_letters (Z.to_N c2))
  end.

Lemma open_rows_lemma d from to tb hr hc bra bca era eca absr relr r1 r2 rng o1 o2 :
  get_tbl d (target_of from to) = Some tb ->
  stored_begin bra absr relr hr = Some r1 -> stored_end era absr relr hr = Some r2 ->
  (r1 < MAX_ROW)%Z -> (0 <= r2 < MAX_ROW)%Z ->
  ranges d (target_of from to) ROW = Ok rng ->
  lookup_range rng r1 = Ok o1 -> lookup_range rng r2 = Ok o2 ->
  exists pre,
    ref_text d from hr hc to (NTract bra bca era eca absr relr [mk_ise MAX_COL None] []) =
    Ok (pre, fst (row_span_text bra era r1 r2 o1 o2), Some (snd (row_span_text bra era r1 r2 o1 o2))).
Proof.
  intros H B1 E1 HR1 HR2 R L1 L2.
  pose proof (lookup_range_inv _ _ _ L1) as [HR1' _].
  unfold ref_text, node_to_ref.
  rewrite (resolve_range_stored _ _ _ _ MAX_ROW _ B1), (resolve_range_end_stored _ _ _ _ MAX_ROW _ E1),
          resolve_range_open, resolve_range_end_open.
  cbn [bind]. rewrite !open_end_max.
  rewrite !open_end_some by (unfold MAX_ROW in *; lia).
  fold (target_of from to). set (T := target_of from to) in *.
  unfold cr_str. cbn [col_start row_start]. unfold format_row_range. cbn [to_t from_t row_end rs_abs re_abs].
  rewrite R. cbn [bind]. rewrite L1. cbn [bind].
  assert (NUM : exists pre,
    (do p <- expand_ref d from T (RText (py_str_Z1 r1)) bra false ;
     do q <- expand_ref d from T (RText (py_str_Z1 r2)) era true ;
     Ok (fst p, snd p, Some (snd q))) =
    Ok (pre, dollar bra ++ py_str_N (Z.to_N (r1 + 1)), Some (dollar era ++ py_str_N (Z.to_N (r2 + 1))))).
  { destruct (expand_ref_ok d from T tb (RText (py_str_Z1 r1)) bra false H) as [p Q].
    destruct (expand_ref_ok d from T tb (RText (py_str_Z1 r2)) era true H) as [q Q2].
    rewrite Q, Q2. cbn [bind]. exists (fst p).
    pose proof (expand_ref_body _ _ _ _ _ _ _ Q) as HB. pose proof (expand_ref_body _ _ _ _ _ _ _ Q2) as HB2.
    rewrite py_str_Z1_nonneg in HB, HB2 by lia.
    rewrite quote_ref_plain in HB, HB2 by apply plain_rownum. now rewrite HB, HB2. }
  destruct o1 as [s1|]; [|exact NUM].
  rewrite L2. cbn [bind]. destruct o2 as [s2|]; [|exact NUM].
  unfold format_named_span.
  destruct (expand_ref_ok d from T tb (RName s1) bra (scope_is_doc s1 || scope_is_doc s2) H) as [p Q].
  destruct (expand_ref_ok d from T tb (RName s2) era true H) as [q Q2].
  rewrite Q, Q2. cbn [bind]. exists (fst p). cbn [row_span_text fst snd].
  now rewrite (expand_ref_body _ _ _ _ _ _ _ Q), (expand_ref_body _ _ _ _ _ _ _ Q2).
Qed.

Lemma open_cols_lemma d from to tb hr hc bra bca era eca absc relc c1 c2 rng o1 o2 :
  get_tbl d (target_of from to) = Some tb ->
  stored_begin bca absc relc hc = Some c1 -> stored_end eca absc relc hc = Some c2 ->
  (c1 < MAX_COL)%Z -> (0 <= c2 < MAX_COL)%Z ->
  ranges d (target_of from to) COL = Ok rng ->
  lookup_range rng c1 = Ok o1 -> lookup_range rng c2 = Ok o2 ->
  exists pre,
    ref_text d from hr hc to (NTract bra bca era eca [mk_ise MAX_ROW None] [] absc relc) =
    Ok (pre, fst (col_span_text bca eca c1 c2 o1 o2), Some (snd (col_span_text bca eca c1 c2 o1 o2))).
Proof.
  intros H B1 E1 HC1 HC2 R L1 L2.
  pose proof (lookup_range_inv _ _ _ L1) as [HC1' _].
  unfold ref_text, node_to_ref.
  rewrite (resolve_range_stored _ _ _ _ MAX_COL _ B1), (resolve_range_end_stored _ _ _ _ MAX_COL _ E1),
          resolve_range_open, resolve_range_end_open.
  cbn [bind]. rewrite !open_end_max.
  rewrite !open_end_some by (unfold MAX_COL in *; lia).
  fold (target_of from to). set (T := target_of from to) in *.
  unfold cr_str. cbn [col_start row_start]. unfold format_col_range. cbn [to_t from_t col_end cs_abs ce_abs].
  rewrite R. cbn [bind]. rewrite L1. cbn [bind].
  assert (NUM : exists pre,
    (do a <- xl_col_to_name c1 bca ;
     do p <- expand_ref d from T (RText a) false false ;
     do b <- xl_col_to_name c2 eca ;
     do q <- expand_ref d from T (RText b) false true ;
     Ok (fst p, snd p, Some (snd q))) =
    Ok (pre, dollar bca ++ col_letters (Z.to_N c1), Some (dollar eca ++ col_letters (Z.to_N c2)))).
  { unfold xl_col_to_name.
    destruct (Z.ltb_spec c1 0); [lia|]. destruct (Z.ltb_spec c2 0); [lia|]. cbn [bind].
    destruct (expand_ref_ok d from T tb (RText (dollar bca ++ col_letters (Z.to_N c1))) false false H) as [p Q].
    destruct (expand_ref_ok d from T tb (RText (dollar eca ++ col_letters (Z.to_N c2))) false true H) as [q Q2].
    rewrite Q. cbn [bind]. rewrite Q2. cbn [bind]. exists (fst p).
    pose proof (expand_ref_body _ _ _ _ _ _ _ Q) as HB. pose proof (expand_ref_body _ _ _ _ _ _ _ Q2) as HB2.
    cbn [dollar app] in HB, HB2.
    rewrite quote_ref_plain in HB, HB2 by apply plain_colname. now rewrite HB, HB2. }
  destruct o1 as [s1|]; [|exact NUM].
  rewrite L2. cbn [bind]. destruct o2 as [s2|]; [|exact NUM].
  unfold format_named_span.
  destruct (expand_ref_ok d from T tb (RName s1) bca (scope_is_doc s1 || scope_is_doc s2) H) as [p Q].
  destruct (expand_ref_ok d from T tb (RName s2) eca true H) as [q Q2].
  rewrite Q, Q2. cbn [bind]. exists (fst p). cbn [col_span_text fst snd].
  now rewrite (expand_ref_body _ _ _ _ _ _ _ Q), (expand_ref_body _ _ _ _ _ _ _ Q2).
Qed.

(* ================= labels: the counts of the printer are the hit lists of the resolver ================= *)
Lemma filter_find_idx_skipn {A} (p : A -> bool) first l : forall k,
  length (filter (fun i => Nat.leb first i) (find_idx p l k)) = length (filter p (skipn (first - k) l)).
Proof.
  induction l as [|x r IH]; intros k.
  - destruct (first - k)%nat; reflexivity.
  - cbn [find_idx]. rewrite filter_app, app_length, IH.
    destruct (Nat.leb_spec first k) as [Hle|Hgt].
    + replace (first - k)%nat with 0%nat by lia. replace (first - S k)%nat with 0%nat by lia.
      cbn [skipn filter]. destruct (p x); cbn [filter length].
      * destruct (Nat.leb_spec first k); [reflexivity|lia].
      * reflexivity.
    + replace (first - k)%nat with (S (first - S k)) by lia. cbn [skipn].
      destruct (p x); cbn [filter length]; [|reflexivity].
      destruct (Nat.leb_spec first k); [lia|reflexivity].
Qed.

Lemma hits_axis_length t a n : length (label_hits_axis t a n) = count_str n (body_labels t a).
Proof.
  unfold label_hits_axis, body_labels. destruct (axis_enabled t a); [|reflexivity].
  rewrite map_length, filter_find_idx_skipn, Nat.sub_0_r. reflexivity.
Qed.

Lemma hits_tbl_length t n : length (label_hits_tbl t n) = count_str n (header_names t).
Proof.
  unfold label_hits_tbl, header_names. now rewrite app_length, count_str_app, !hits_axis_length.
Qed.

Lemma contributed_count t n : n <> [] -> count_str n (contributed t) = length (label_hits_tbl t n).
Proof. intros H. unfold contributed. now rewrite count_filter_nonempty, hits_tbl_length. Qed.

Lemma tbl_hits_from_length si ts n : n <> [] -> forall k,
  length (tbl_hits_from si k ts n) = count_str n (flat_map contributed ts).
Proof.
  intros Hn. induction ts as [|t r IH]; intros k; [reflexivity|].
  cbn [tbl_hits_from flat_map]. now rewrite app_length, map_length, count_str_app, IH, contributed_count.
Qed.

Lemma doc_hits_from_length ss n : n <> [] -> forall k,
  length (doc_hits_from k ss n) = count_str n (flat_map sheet_contrib ss).
Proof.
  intros Hn. induction ss as [|s r IH]; intros k; [reflexivity|].
  cbn [doc_hits_from flat_map]. rewrite app_length, count_str_app, IH, tbl_hits_from_length by assumption.
  reflexivity.
Qed.

Lemma tbl_hits_from_split si ts n : forall k j t, nth_error ts j = Some t ->
  exists p q, tbl_hits_from si k ts n = p ++ map (pair (si, (k + j)%nat)) (label_hits_tbl t n) ++ q.
Proof.
  induction ts as [|t0 r IH]; intros k j t Hj; [destruct j; discriminate|].
  destruct j as [|j]; cbn [tbl_hits_from].
  - cbn in Hj. inversion Hj; subst. exists [], (tbl_hits_from si (S k) r n). now rewrite Nat.add_0_r.
  - cbn in Hj. destruct (IH (S k) j t Hj) as (p & q & E). rewrite E.
    exists (map (pair (si, k)) (label_hits_tbl t0 n) ++ p), q.
    replace (k + S j)%nat with (S k + j)%nat by lia. now rewrite <- app_assoc.
Qed.

Lemma doc_hits_from_split ss n : forall k j s, nth_error ss j = Some s ->
  exists p q, doc_hits_from k ss n = p ++ tbl_hits_from (k + j)%nat 0 (snd s) n ++ q.
Proof.
  induction ss as [|s0 r IH]; intros k j s Hj; [destruct j; discriminate|].
  destruct j as [|j]; cbn [doc_hits_from].
  - cbn in Hj. inversion Hj; subst. exists [], (doc_hits_from (S k) r n). now rewrite Nat.add_0_r.
  - cbn in Hj. destruct (IH (S k) j s Hj) as (p & q & E). rewrite E.
    exists (tbl_hits_from k 0 (snd s0) n ++ p), q.
    replace (k + S j)%nat with (S k + j)%nat by lia. now rewrite <- app_assoc.
Qed.

(* the three scopes nest *)
Lemma sheet_in_doc d si s n : nth_error d si = Some s ->
  exists p q, doc_hits d n = p ++ sheet_hits d si n ++ q.
Proof.
  intros Hs. unfold doc_hits, sheet_hits. rewrite Hs.
  destruct (doc_hits_from_split d n 0 si s Hs) as (p & q & E). eauto.
Qed.

Lemma table_in_sheet d t tb n : get_tbl d t = Some tb ->
  exists p q, sheet_hits d (fst t) n = p ++ label_hits d t n ++ q.
Proof.
  intros H. unfold label_hits. rewrite H. apply get_tbl_inv in H as (s & Hs & Ht).
  unfold sheet_hits. rewrite Hs.
  destruct (tbl_hits_from_split (fst t) (snd s) n 0 (snd t) tb Ht) as (p & q & E).
  cbn [Nat.add] in E. destruct t; cbn [fst snd] in *. eauto.
Qed.

Lemma innermost_unique {A} (L0 L1 L2 : list A) (X : A) :
  (exists p q, L2 = p ++ L1 ++ q) -> (exists p q, L1 = p ++ L0 ++ q) -> L2 = [X] ->
  match L0 with
  | h :: l => h :: l
  | [] => match L1 with h :: l => h :: l | [] => L2 end
  end = [X].
Proof.
  intros (p & q & E2) (p' & q' & E1) H2. rewrite H2 in E2. symmetry in E2.
  apply singleton_split in E2 as [E|(E & _ & _)].
  - subst L1. symmetry in E1. apply app_eq_nil in E1 as [_ E1]. apply app_eq_nil in E1 as [E1 _].
    subst L0. assumption.
  - subst L1. symmetry in E1. apply singleton_split in E1 as [E|(E & _ & _)]; subst L0; reflexivity.
Qed.

(* a unique local name has exactly one hit in its table: its own line *)
Lemma hit_in_axis t a i n : axis_enabled t a = true -> nth_error (axis_labels t a) i = Some n ->
  (axis_first t a <= i)%nat -> In (a, i) (label_hits_axis t a n).
Proof.
  intros E Hn Hf. unfold label_hits_axis. rewrite E. apply in_map. apply filter_In. split.
  - apply find_idx_in. exists i, n. repeat split; [assumption|apply str_eqb_refl].
  - now apply Nat.leb_le.
Qed.

Lemma local_name_hits tb a i n : nth_error (local_names tb a) i = Some (Some n) ->
  label_hits_tbl tb n = [(a, i)].
Proof.
  intros H. apply local_names_nth in H as (E & Hn & Hf & _ & Hc).
  apply length_le1_in; [now rewrite hits_tbl_length|].
  unfold label_hits_tbl. apply in_or_app.
  destruct a; [left|right]; now apply hit_in_axis.
Qed.

Lemma scope_of_doc d s tb n : scope_of d s tb n = DOCUMENT -> count_str n (doc_contrib d) = 1%nat.
Proof.
  unfold scope_of. destruct (Nat.eqb_spec (count_str n (doc_contrib d)) 1); [auto|].
  destruct (Nat.eqb _ 1); [discriminate|]. destruct (Nat.eqb _ 1); discriminate.
Qed.
Lemma scope_of_sheet d s tb n : scope_of d s tb n = SHEET -> count_str n (sheet_contrib s) = 1%nat.
Proof.
  unfold scope_of. destruct (Nat.eqb (count_str n (doc_contrib d)) 1); [discriminate|].
  destruct (Nat.eqb_spec (count_str n (sheet_contrib s)) 1); [auto|].
  destruct (Nat.eqb _ 1); discriminate.
Qed.
Lemma scope_of_table d s tb n : scope_of d s tb n = TABLE ->
  count_str (t_name tb) (all_table_names d) = 1%nat.
Proof.
  unfold scope_of. destruct (Nat.eqb (count_str n (doc_contrib d)) 1); [discriminate|].
  destruct (Nat.eqb (count_str n (sheet_contrib s)) 1); [discriminate|].
  destruct (Nat.eqb_spec (count_str (t_name tb) (all_table_names d)) 1); [auto|discriminate].
Qed.

Lemma resolve_label_prefixed d host x xs n :
  resolve_label d host (x :: xs) n = flat_map (fun t => label_hits d t n) (resolve_table d host (x :: xs)).
Proof. reflexivity. Qed.

Lemma label_scope_lemma d host tgt htb tb a i rng r is_abs p :
  wf_doc d -> get_tbl d host = Some htb -> get_tbl d tgt = Some tb ->
  ranges d tgt a = Ok rng -> nth_error rng i = Some (Some r) ->
  expand_ref d host tgt (RName r) is_abs false = Ok p ->
  snd p = quote_ref (dollar is_abs ++ s_name r) /\
  resolve_label d host (fst p) (s_name r) = [(tgt, (a, i))].
Proof.
  intros WF HH HT R N Q.
  split; [exact (expand_ref_body _ _ _ _ _ _ _ Q)|].
  destruct (ranges_entry _ _ _ _ _ _ _ HT R N) as (s & Hs & LN & SC).
  set (n := s_name r) in *.
  pose proof (local_name_hits _ _ _ _ LN) as HIT.
  pose proof (local_names_nth _ _ _ _ LN) as (_ & _ & _ & Hne & _).
  assert (HX : label_hits d tgt n = [(tgt, (a, i))]).
  { unfold label_hits. rewrite HT, HIT. reflexivity. }
  destruct (table_in_sheet d tgt tb n HT) as (p1 & q1 & ES).
  destruct (sheet_in_doc d (fst tgt) s n Hs) as (p2 & q2 & ED).
  destruct (table_in_sheet d host htb n HH) as (p3 & q3 & ESH).
  pose proof HH as HH'. apply get_tbl_inv in HH' as (hs & Hhs & _).
  destruct (sheet_in_doc d (fst host) hs n Hhs) as (p4 & q4 & EDH).
  (* when the name is the only one of the target's sheet *)
  assert (SHEETU : count_str n (sheet_contrib s) = 1%nat -> sheet_hits d (fst tgt) n = [(tgt, (a, i))]).
  { intros C. apply length1_in.
    - unfold sheet_hits. rewrite Hs, tbl_hits_from_length by assumption. exact C.
    - rewrite ES, HX. apply in_or_app. right. now left. }
  (* the three prefixed shapes *)
  assert (PRE : forall pre, resolve_table d host pre = [tgt] -> pre <> [] ->
                resolve_label d host pre n = [(tgt, (a, i))]).
  { intros pre E NE. destruct pre as [|x xs]; [congruence|].
    rewrite resolve_label_prefixed, E. cbn [flat_map]. now rewrite HX. }
  unfold expand_ref in Q. cbn [orb] in Q.
  destruct (ref_scope_is (RName r) DOCUMENT) eqn:EDOC.
  { (* document-unique: bare *)
    inversion Q; subst p. cbn [fst].
    assert (DOCU : doc_hits d n = [(tgt, (a, i))]).
    { apply length1_in.
      - unfold doc_hits. rewrite doc_hits_from_length by assumption.
        apply (scope_of_doc d s tb). rewrite <- SC. cbn in EDOC. destruct (s_scope r); congruence.
      - rewrite ED, ES, HX. apply in_or_app. right. apply in_or_app. left.
        apply in_or_app. right. now left. }
    unfold resolve_label.
    apply (innermost_unique (label_hits d host n) (sheet_hits d (fst host) n) (doc_hits d n) (tgt, (a, i))); eauto. }
  destruct (tid_eqb host tgt) eqn:ET.
  { (* inside the table: bare *)
    apply tid_eqb_eq in ET. subst host. inversion Q; subst p. cbn [fst].
    unfold resolve_label. rewrite HX. reflexivity. }
  rewrite HT in Q.
  destruct (Nat.eqb (fst host) (fst tgt)) eqn:ESAME.
  - apply Nat.eqb_eq in ESAME. cbn [andb orb] in Q.
    destruct (ref_scope_is (RName r) SHEET) eqn:ESC2.
    + assert (C : count_str n (sheet_contrib s) = 1%nat).
      { apply (scope_of_sheet d s tb). rewrite <- SC. cbn in ESC2. destruct (s_scope r); congruence. }
      specialize (SHEETU C).
      destruct is_abs; inversion Q; subst p; cbn [fst].
      * apply PRE; [now apply prefix_same_sheet|discriminate].
      * unfold resolve_label. rewrite ESAME.
        rewrite ESAME in ESH. rewrite SHEETU in ESH. symmetry in ESH.
        apply singleton_split in ESH as [E0|(E0 & _ & _)].
        -- rewrite E0, SHEETU. reflexivity.
        -- exfalso. unfold label_hits in E0. rewrite HH in E0.
           destruct (label_hits_tbl htb n); [discriminate|]. cbn in E0. inversion E0 as [[E1 E2]].
           subst host. rewrite (proj2 (tid_eqb_eq tgt tgt) eq_refl) in ET. discriminate.
    + inversion Q; subst p. cbn [fst]. apply PRE; [now apply prefix_same_sheet|discriminate].
  - cbn [andb orb] in Q.
    destruct (ref_scope_is (RName r) TABLE || Nat.eqb (count_str (t_name tb) (all_table_names d)) 1) eqn:EU.
    + inversion Q; subst p. cbn [fst]. apply PRE; [|discriminate].
      apply prefix_unique_name; [assumption|assumption|].
      apply orb_prop in EU as [EU|EU].
      * apply (scope_of_table d s tb n). rewrite <- SC. cbn in EU. destruct (s_scope r); congruence.
      * now apply Nat.eqb_eq.
    + rewrite Hs in Q. inversion Q; subst p. cbn [fst]. apply PRE; [|discriminate].
      now apply prefix_sheet_table.
Qed.

(* ================= reading a label body back ================= *)
Definition triple (s : str) : str :=
  flat_map (fun c => if c =? c_quote then [c_quote; c_quote; c_quote] else [c]) s.

Lemma untriple_triple s : forall fuel, (length (triple s) <= fuel)%nat -> untriple fuel (triple s) = s.
Proof.
  induction s as [|c r IH]; intros fuel Hf.
  - destruct fuel; reflexivity.
  - cbn [triple flat_map] in *. fold (triple r) in *.
    destruct (N.eqb_spec c c_quote) as [->|Hc].
    + cbn [app length] in Hf. destruct fuel as [|f]; [lia|].
      cbn [app untriple]. rewrite N.eqb_refl. cbn [andb]. rewrite IH by lia. reflexivity.
    + cbn [app length] in Hf. destruct fuel as [|f]; [lia|]. cbn [app].
      assert (E : forall t, untriple (S f) (c :: t) = c :: untriple f t).
      { intros t. cbn [untriple]. destruct t as [|b [|c' t']]; try reflexivity.
        destruct (N.eqb_spec c c_quote); [contradiction|reflexivity]. }
      rewrite E, IH by lia. reflexivity.
Qed.

Lemma existsb_incl {A} (p : A -> bool) l l' :
  (forall x, In x l -> In x l') -> existsb p l' = false -> existsb p l = false.
Proof.
  intros HI H. destruct (existsb p l) eqn:E; [|reflexivity].
  apply existsb_exists in E as (x & Hx & Hp).
  assert (existsb p l' = true) by (apply existsb_exists; eauto). congruence.
Qed.

Lemma triple_no_op s : existsb is_op_char s = false -> existsb is_op_char (triple s) = false.
Proof.
  induction s as [|c r IH]; [reflexivity|]. cbn [existsb]. intros H.
  apply orb_false_elim in H as [Hc Hr]. cbn [triple flat_map]. rewrite existsb_app.
  fold (triple r). rewrite (IH Hr), orb_false_r.
  destruct (c =? c_quote); cbn [existsb]; [reflexivity|]. now rewrite Hc.
Qed.

Lemma unquote_quote s : unquote_ref (quote_ref s) = s.
Proof.
  unfold quote_ref. destruct (existsb is_op_char s) eqn:E.
  - cbn [app unquote_ref]. rewrite rev_unit, rev_involutive, N.eqb_refl, E. reflexivity.
  - fold (triple s). pose proof (triple_no_op s E) as ET.
    pose proof (untriple_triple s (length (triple s)) (le_n _)) as EU.
    unfold unquote_ref. destruct (triple s) as [|q r] eqn:Et.
    + destruct s as [|c r']; [reflexivity|]. cbn [triple flat_map] in Et.
      destruct (c =? c_quote); discriminate.
    + destruct (rev r) as [|q2 ri] eqn:Er; [exact EU|].
      assert (EI : existsb is_op_char (rev ri) = false).
      { apply (existsb_incl _ _ (q :: r)); [|exact ET].
        intros x Hx. right. apply in_rev. rewrite Er. right. now apply in_rev. }
      rewrite EI, andb_false_r. exact EU.
Qed.

(* a printed label body gives back the '$' mark and the label (labels do not begin with '$') *)
Lemma decode_label_lemma is_abs n :
  match n with [] => True | c :: _ => c <> c_dollar end ->
  decode_label (quote_ref (dollar is_abs ++ n)) = (is_abs, n).
Proof. intros H. unfold decode_label. rewrite unquote_quote. now apply opt_dollar_dollar. Qed.

(* uniqueness up to any normalisation of names (e.g. ignoring case) implies exact uniqueness *)
Lemma wf_doc_upto (f : str -> str) d :
  NoDup (map (fun s : sheet => f (fst s)) d) ->
  Forall (fun s : sheet => NoDup (map (fun t => f (t_name t)) (snd s))) d ->
  wf_doc d.
Proof.
  intros H1 H2. split.
  - apply (NoDup_map_inv f). now rewrite map_map.
  - eapply Forall_impl; [|exact H2]. intros s Hs. apply (NoDup_map_inv f). now rewrite map_map.
Qed.

(* ================= spans of two header names ================= *)
Lemma list_prod_nil_r {A B} (l : list A) : list_prod l (@nil B) = [].
Proof. induction l as [|x r IH]; [reflexivity|]. cbn. exact IH. Qed.

Lemma tbl_span_from_nil si ts n1 n2 : forall k,
  (forall t, In t ts -> span_hits_tbl t n1 n2 = []) -> tbl_span_from si k ts n1 n2 = [].
Proof.
  induction ts as [|t r IH]; intros k H; [reflexivity|].
  cbn [tbl_span_from]. rewrite (H t (or_introl eq_refl)), IH; [reflexivity|].
  intros t' Ht'. apply H. now right.
Qed.

Lemma tbl_span_from_single si ts n1 n2 : forall k j t, nth_error ts j = Some t ->
  (forall j' t', j' <> j -> nth_error ts j' = Some t' -> span_hits_tbl t' n1 n2 = []) ->
  tbl_span_from si k ts n1 n2 = map (pair (si, (k + j)%nat)) (span_hits_tbl t n1 n2).
Proof.
  induction ts as [|t0 r IH]; intros k j t Hj H; [destruct j; discriminate|].
  destruct j as [|j]; cbn [tbl_span_from].
  - cbn in Hj. inversion Hj; subst. rewrite tbl_span_from_nil.
    + now rewrite app_nil_r, Nat.add_0_r.
    + intros t' Ht'. apply In_nth_error in Ht' as [j' Hj']. apply (H (S j') t'); [discriminate|exact Hj'].
  - cbn in Hj. rewrite (H 0%nat t0); [|discriminate|reflexivity]. cbn [map app].
    rewrite (IH (S k) j t Hj).
    + f_equal. f_equal. f_equal. lia.
    + intros j' t' Hne Hj'. apply (H (S j') t'); [congruence|exact Hj'].
Qed.

Lemma doc_span_from_nil (ss : list sheet) n1 n2 : forall k,
  (forall s : sheet, In s ss -> forall si, tbl_span_from si 0 (snd s) n1 n2 = []) -> doc_span_from k ss n1 n2 = [].
Proof.
  induction ss as [|s r IH]; intros k H; [reflexivity|].
  cbn [doc_span_from]. rewrite (H s (or_introl eq_refl)), IH; [reflexivity|].
  intros s' Hs'. apply H. now right.
Qed.

(* facts about one valid table *)
Lemma label_hits_nil_tbl d t tb n : get_tbl d t = Some tb -> label_hits d t n = [] -> label_hits_tbl tb n = [].
Proof.
  intros H E. unfold label_hits in E. rewrite H in E. now apply map_eq_nil in E.
Qed.

(* if n has a single hit in the whole document (sheet), no other table has it *)
Lemma other_table_no_hit_doc d t tb n X : get_tbl d t = Some tb -> doc_hits d n = [X] -> fst X <> t ->
  label_hits_tbl tb n = [].
Proof.
  intros H D NE. apply (label_hits_nil_tbl d t tb n H).
  destruct (table_in_sheet d t tb n H) as (p1 & q1 & ES).
  pose proof H as H'. apply get_tbl_inv in H' as (s & Hs & _).
  destruct (sheet_in_doc d (fst t) s n Hs) as (p2 & q2 & ED).
  rewrite D in ED. symmetry in ED. apply singleton_split in ED as [E|(E & _ & _)].
  - rewrite E in ES. symmetry in ES. apply app_eq_nil in ES as [_ ES]. now apply app_eq_nil in ES as [ES _].
  - rewrite E in ES. symmetry in ES. apply singleton_split in ES as [E'|(E' & _ & _)]; [assumption|].
    exfalso. unfold label_hits in E'. rewrite H in E'.
    destruct (label_hits_tbl tb n); [discriminate|]. cbn in E'. inversion E' as [[E1 E2]]. subst X. now apply NE.
Qed.

Lemma other_table_no_hit_sheet d t tb n X : get_tbl d t = Some tb -> sheet_hits d (fst t) n = [X] -> fst X <> t ->
  label_hits_tbl tb n = [].
Proof.
  intros H D NE. apply (label_hits_nil_tbl d t tb n H).
  destruct (table_in_sheet d t tb n H) as (p1 & q1 & ES).
  rewrite D in ES. symmetry in ES. apply singleton_split in ES as [E'|(E' & _ & _)]; [assumption|].
  exfalso. unfold label_hits in E'. rewrite H in E'.
  destruct (label_hits_tbl tb n); [discriminate|]. cbn in E'. inversion E' as [[E1 E2]]. subst X. now apply NE.
Qed.

(* a sheet / document in which only the target table has both names *)
Lemma sheet_span_single (d : doc) (tgt : tid) (tb : tbl) (s : sheet) n1 n2 :
  nth_error d (fst tgt) = Some s -> nth_error (snd s) (snd tgt) = Some tb ->
  (forall ti t', ti <> snd tgt -> nth_error (snd s) ti = Some t' -> span_hits_tbl t' n1 n2 = []) ->
  sheet_span d (fst tgt) n1 n2 = map (pair tgt) (span_hits_tbl tb n1 n2).
Proof.
  intros Hs Ht H. unfold sheet_span. rewrite Hs.
  rewrite (tbl_span_from_single (fst tgt) (snd s) n1 n2 0 (snd tgt) tb Ht H).
  cbn [Nat.add]. destruct tgt; reflexivity.
Qed.

Lemma doc_span_from_single (ss : list sheet) n1 n2 : forall k j (s : sheet), nth_error ss j = Some s ->
  (forall j' (s' : sheet), j' <> j -> nth_error ss j' = Some s' -> forall t', In t' (snd s') -> span_hits_tbl t' n1 n2 = []) ->
  doc_span_from k ss n1 n2 = tbl_span_from (k + j)%nat 0 (snd s) n1 n2.
Proof.
  induction ss as [|s0 r IH]; intros k j s Hj H; [destruct j; discriminate|].
  destruct j as [|j]; cbn [doc_span_from].
  - cbn in Hj. inversion Hj; subst. rewrite doc_span_from_nil.
    + now rewrite app_nil_r, Nat.add_0_r.
    + intros s' Hs' si. apply tbl_span_from_nil. intros t' Ht'.
      apply In_nth_error in Hs' as [j' Hj']. apply (H (S j') s'); [discriminate|exact Hj'|exact Ht'].
  - cbn in Hj. rewrite (tbl_span_from_nil k (snd s0)).
    + cbn [app]. rewrite (IH (S k) j s Hj).
      * f_equal. lia.
      * intros j' s' Hne Hj'. apply (H (S j') s'); [congruence|exact Hj'].
    + intros t' Ht'. apply (H 0%nat s0); [discriminate|reflexivity|exact Ht'].
Qed.

Lemma resolve_span_prefixed d host x xs n1 n2 :
  resolve_span d host (x :: xs) n1 n2 = flat_map (fun t => span_hits d t n1 n2) (resolve_table d host (x :: xs)).
Proof. reflexivity. Qed.

Lemma scope_is_doc_count d s tb r : s_scope r = scope_of d s tb (s_name r) -> scope_is_doc r = true ->
  count_str (s_name r) (doc_contrib d) = 1%nat.
Proof.
  intros SC H. apply (scope_of_doc d s tb). rewrite <- SC. unfold scope_is_doc in H.
  destruct (s_scope r); congruence.
Qed.

Lemma label_span_lemma d host tgt htb tb a i1 i2 rng r1 r2 abs1 abs2 pre b1 b2 :
  wf_doc d -> get_tbl d host = Some htb -> get_tbl d tgt = Some tb ->
  ranges d tgt a = Ok rng -> nth_error rng i1 = Some (Some r1) -> nth_error rng i2 = Some (Some r2) ->
  format_named_span d host tgt r1 r2 abs1 abs2 = Ok (pre, b1, Some b2) ->
  b1 = quote_ref (dollar abs1 ++ s_name r1) /\ b2 = quote_ref (dollar abs2 ++ s_name r2) /\
  resolve_span d host pre (s_name r1) (s_name r2) = [(tgt, ((a, i1), (a, i2)))].
Proof.
  intros WF HH HT R N1 N2 F.
  unfold format_named_span in F.
  destruct (expand_ref d host tgt (RName r1) abs1 (scope_is_doc r1 || scope_is_doc r2)) as [p|] eqn:Q1; [|discriminate].
  cbn [bind] in F.
  destruct (expand_ref d host tgt (RName r2) abs2 true) as [q|] eqn:Q2; [|discriminate].
  cbn [bind] in F. inversion F; subst pre b1 b2. clear F.
  split; [exact (expand_ref_body _ _ _ _ _ _ _ Q1)|]. split; [exact (expand_ref_body _ _ _ _ _ _ _ Q2)|].
  destruct (ranges_entry _ _ _ _ _ _ _ HT R N1) as (s & Hs & LN1 & SC1).
  destruct (ranges_entry _ _ _ _ _ _ _ HT R N2) as (s' & Hs' & LN2 & SC2).
  rewrite Hs in Hs'. inversion Hs'; subst s'. clear Hs'.
  set (n1 := s_name r1) in *. set (n2 := s_name r2) in *.
  pose proof (local_name_hits _ _ _ _ LN1) as HIT1. pose proof (local_name_hits _ _ _ _ LN2) as HIT2.
  pose proof (local_names_nth _ _ _ _ LN1) as (_ & _ & _ & Hne1 & _).
  pose proof (local_names_nth _ _ _ _ LN2) as (_ & _ & _ & Hne2 & _).
  pose proof HT as HT'. apply get_tbl_inv in HT' as (s0 & Hs0 & Htb). rewrite Hs in Hs0. inversion Hs0; subst s0. clear Hs0.
  assert (HST : span_hits_tbl tb n1 n2 = [((a, i1), (a, i2))]).
  { unfold span_hits_tbl. rewrite HIT1, HIT2. reflexivity. }
  assert (HXS : span_hits d tgt n1 n2 = [(tgt, ((a, i1), (a, i2)))]).
  { unfold span_hits. rewrite HT, HST. reflexivity. }
  assert (HX1 : label_hits d tgt n1 = [(tgt, (a, i1))]) by (unfold label_hits; now rewrite HT, HIT1).
  assert (HX2 : label_hits d tgt n2 = [(tgt, (a, i2))]) by (unfold label_hits; now rewrite HT, HIT2).
  (* the hit lists of a name that is unique in the document / in the target's sheet *)
  assert (DOCU : forall n X, n <> [] -> label_hits d tgt n = [X] -> count_str n (doc_contrib d) = 1%nat ->
                 doc_hits d n = [X]).
  { intros n X Hne HX C. apply length1_in.
    - unfold doc_hits. now rewrite doc_hits_from_length.
    - destruct (table_in_sheet d tgt tb n HT) as (p1 & q1 & ES).
      destruct (sheet_in_doc d (fst tgt) s n Hs) as (p2 & q2 & ED).
      rewrite ED, ES, HX. apply in_or_app. right. apply in_or_app. left. apply in_or_app. right. now left. }
  assert (SHEETU : forall n X, n <> [] -> label_hits d tgt n = [X] -> count_str n (sheet_contrib s) = 1%nat ->
                   sheet_hits d (fst tgt) n = [X]).
  { intros n X Hne HX C. apply length1_in.
    - unfold sheet_hits. now rewrite Hs, tbl_hits_from_length.
    - destruct (table_in_sheet d tgt tb n HT) as (p1 & q1 & ES).
      rewrite ES, HX. apply in_or_app. right. now left. }
  assert (PRE : forall pre, resolve_table d host pre = [tgt] -> pre <> [] ->
                resolve_span d host pre n1 n2 = [(tgt, ((a, i1), (a, i2)))]).
  { intros pre E NE. destruct pre as [|x xs]; [congruence|].
    rewrite resolve_span_prefixed, E. cbn [flat_map]. now rewrite HXS. }
  (* bare: only the target table has both names, in the given scope *)
  assert (ONLY_DOC : (forall t t', t <> tgt -> get_tbl d t = Some t' -> span_hits_tbl t' n1 n2 = []) ->
                     resolve_span d host [] n1 n2 = [(tgt, ((a, i1), (a, i2)))]).
  { intros OTHER.
    assert (ES : sheet_span d (fst tgt) n1 n2 = [(tgt, ((a, i1), (a, i2)))]).
    { rewrite (sheet_span_single d tgt tb s n1 n2 Hs Htb), HST; [reflexivity|].
      intros ti t' Hne Ht'. apply (OTHER (fst tgt, ti)).
      - intros E. apply Hne. now rewrite <- E.
      - unfold get_tbl. cbn [fst snd]. now rewrite Hs. }
    assert (ED : doc_span d n1 n2 = [(tgt, ((a, i1), (a, i2)))]).
    { unfold doc_span. rewrite (doc_span_from_single d n1 n2 0 (fst tgt) s Hs).
      - cbn [Nat.add]. unfold sheet_span in ES. now rewrite Hs in ES.
      - intros j' s' Hne Hj' t' Ht'. apply In_nth_error in Ht' as [ti Hti].
        apply (OTHER (j', ti)).
        + intros E. apply Hne. now rewrite <- E.
        + unfold get_tbl. cbn [fst snd]. now rewrite Hj'. }
    unfold resolve_span.
    destruct (tid_eqb host tgt) eqn:ET.
    - apply tid_eqb_eq in ET. subst host. now rewrite HXS.
    - assert (EH : span_hits d host n1 n2 = []).
      { unfold span_hits. rewrite HH. rewrite (OTHER host htb); [reflexivity| |assumption].
        intros E. subst host. rewrite (proj2 (tid_eqb_eq tgt tgt) eq_refl) in ET. discriminate. }
      rewrite EH.
      destruct (Nat.eq_dec (fst host) (fst tgt)) as [E|NE].
      + rewrite E, ES. reflexivity.
      + assert (EHS : sheet_span d (fst host) n1 n2 = []).
        { unfold sheet_span. destruct (nth_error d (fst host)) as [hs|] eqn:Hhs; [|reflexivity].
          apply tbl_span_from_nil. intros t' Ht'. apply In_nth_error in Ht' as [ti Hti].
          apply (OTHER (fst host, ti)).
          - intros E. apply NE. now rewrite <- E.
          - unfold get_tbl. cbn [fst snd]. now rewrite Hhs. }
        rewrite EHS. exact ED. }
  destruct (scope_is_doc r1 || scope_is_doc r2) eqn:NOP.
  { (* one end is unique in the document: no prefix *)
    rewrite (expand_ref_noprefix _ _ _ _ _ _ Q1). apply ONLY_DOC.
    intros t t' Hne Ht'. unfold span_hits_tbl.
    apply orb_prop in NOP as [D|D].
    - rewrite (other_table_no_hit_doc d t t' n1 (tgt, (a, i1)) Ht'); [reflexivity| |cbn; congruence].
      apply DOCU; try assumption. now apply (scope_is_doc_count d s tb).
    - rewrite (other_table_no_hit_doc d t t' n2 (tgt, (a, i2)) Ht'); [apply list_prod_nil_r| |cbn; congruence].
      apply DOCU; try assumption. now apply (scope_is_doc_count d s tb). }
  (* otherwise the first name is qualified as a single name would be *)
  apply orb_false_elim in NOP as [ND1 _].
  unfold expand_ref in Q1. cbn [orb] in Q1.
  assert (EDOC : ref_scope_is (RName r1) DOCUMENT = false).
  { cbn. unfold scope_is_doc in ND1. destruct (s_scope r1); congruence. }
  rewrite EDOC in Q1.
  destruct (tid_eqb host tgt) eqn:ET.
  { apply tid_eqb_eq in ET. subst host. inversion Q1; subst p. cbn [fst].
    unfold resolve_span. now rewrite HXS. }
  rewrite HT in Q1.
  destruct (Nat.eqb (fst host) (fst tgt)) eqn:ESAME.
  - apply Nat.eqb_eq in ESAME. cbn [andb orb] in Q1.
    destruct (ref_scope_is (RName r1) SHEET) eqn:ESC2.
    + assert (C : count_str n1 (sheet_contrib s) = 1%nat).
      { apply (scope_of_sheet d s tb). rewrite <- SC1. cbn in ESC2. destruct (s_scope r1); congruence. }
      pose proof (SHEETU n1 _ Hne1 HX1 C) as SU.
      destruct abs1; inversion Q1; subst p; cbn [fst].
      * apply PRE; [now apply prefix_same_sheet|discriminate].
      * (* bare, sheet-unique first name: no other table of the sheet has it *)
        assert (ES : sheet_span d (fst tgt) n1 n2 = [(tgt, ((a, i1), (a, i2)))]).
        { rewrite (sheet_span_single d tgt tb s n1 n2 Hs Htb), HST; [reflexivity|].
          intros ti t' Hne Ht'. unfold span_hits_tbl.
          rewrite (other_table_no_hit_sheet d (fst tgt, ti) t' n1 (tgt, (a, i1))); [reflexivity| | |].
          - unfold get_tbl. cbn [fst snd]. now rewrite Hs.
          - exact SU.
          - cbn [fst]. intros E. apply Hne. now rewrite E. }
        unfold resolve_span.
        assert (EH : span_hits d host n1 n2 = []).
        { unfold span_hits. rewrite HH. unfold span_hits_tbl.
          rewrite (other_table_no_hit_sheet d host htb n1 (tgt, (a, i1)) HH); [reflexivity| |].
          - now rewrite ESAME.
          - cbn [fst]. intros E. subst host. rewrite (proj2 (tid_eqb_eq tgt tgt) eq_refl) in ET. discriminate. }
        rewrite EH, ESAME, ES. reflexivity.
    + inversion Q1; subst p. cbn [fst]. apply PRE; [now apply prefix_same_sheet|discriminate].
  - cbn [andb orb] in Q1.
    destruct (ref_scope_is (RName r1) TABLE || Nat.eqb (count_str (t_name tb) (all_table_names d)) 1) eqn:EU.
    + inversion Q1; subst p. cbn [fst]. apply PRE; [|discriminate].
      apply prefix_unique_name; [assumption|assumption|].
      apply orb_prop in EU as [EU|EU].
      * apply (scope_of_table d s tb n1). rewrite <- SC1. cbn in EU. destruct (s_scope r1); congruence.
      * now apply Nat.eqb_eq.
    + rewrite Hs in Q1. inversion Q1; subst p. cbn [fst]. apply PRE; [|discriminate].
      now apply prefix_sheet_table.
Qed.
