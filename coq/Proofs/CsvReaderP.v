(* The excel-dialect reader of Model/Csv.v inverts the writer (C20 csv_quote_roundtrip). *)
From Coq Require Import ZArith NArith List Bool Lia.
From NP Require Import Model.PyBase Model.Csv.
Import ListNotations.
Open Scope N_scope.

Lemma feed_app strict : forall a b st,
  feed strict st (a ++ b) = bind (feed strict st a) (fun st' => feed strict st' b).
Proof.
  induction a as [|c a IH]; intros b st; simpl; [reflexivity|].
  destruct (on_char strict st c) as [st'|e]; simpl; [apply IH | reflexivity].
Qed.

(* a character that needs no quoting *)
Definition plainc (c : chr) : Prop :=
  (c =? c_comma) = false /\ (c =? c_quote) = false /\ (c =? c_cr) = false /\ (c =? c_lf) = false.

Lemma needs_quote_false c : needs_quote c = false -> plainc c.
Proof.
  unfold needs_quote, plainc. intros H.
  apply orb_false_iff in H. destruct H as [H H4].
  apply orb_false_iff in H. destruct H as [H H3].
  apply orb_false_iff in H. destruct H as [H1 H2]. auto.
Qed.

Lemma is_nl_plain c : plainc c -> is_nl c = false.
Proof. intros (_ & _ & Hcr & Hlf). unfold is_nl. rewrite Hcr, Hlf. reflexivity. Qed.

Definition field_start (m : mode) : Prop := m = StartRecord \/ m = StartField.

(* ----- single characters ----- *)
Lemma oc_start_plain strict m flds recs o c :
  field_start m -> plainc c ->
  on_char strict (mkR m [] flds recs false o) c = Ok (mkR InField [c] flds recs false true).
Proof.
  intros Hm Hc. pose proof (is_nl_plain c Hc) as Hnl. destruct Hc as (Hco & Hq & Hcr & Hlf).
  unfold on_char, pchar. cbn [r_pcr r_mode andb].
  destruct Hm as [-> | ->]; rewrite Hnl, Hq, Hco; cbn [bind]; rewrite Hlf;
    unfold add_char; cbn [r_mode r_cur r_fields r_recs]; rewrite Hcr; reflexivity.
Qed.

Lemma oc_infield_plain strict cur flds recs o c :
  plainc c ->
  on_char strict (mkR InField cur flds recs false o) c = Ok (mkR InField (c :: cur) flds recs false true).
Proof.
  intros Hc. pose proof (is_nl_plain c Hc) as Hnl. destruct Hc as (Hco & Hq & Hcr & Hlf).
  unfold on_char, pchar. cbn [r_pcr r_mode andb]. rewrite Hnl, Hco. cbn [bind]. rewrite Hlf.
  unfold add_char; cbn [r_mode r_cur r_fields r_recs]. rewrite Hcr. reflexivity.
Qed.

Lemma oc_start_comma strict m flds recs o :
  field_start m ->
  on_char strict (mkR m [] flds recs false o) c_comma = Ok (mkR StartField [] ([] :: flds) recs false true).
Proof. intros [-> | ->]; reflexivity. Qed.

Lemma oc_infield_comma strict cur flds recs o :
  on_char strict (mkR InField cur flds recs false o) c_comma = Ok (mkR StartField [] (rev cur :: flds) recs false true).
Proof. reflexivity. Qed.

Lemma oc_qiq_comma strict cur flds recs o :
  on_char strict (mkR QuoteInQuoted cur flds recs false o) c_comma = Ok (mkR StartField [] (rev cur :: flds) recs false true).
Proof. reflexivity. Qed.

Lemma oc_startfield_cr strict flds recs o :
  on_char strict (mkR StartField [] flds recs false o) c_cr = Ok (mkR EatCRNL [] ([] :: flds) recs true true).
Proof. reflexivity. Qed.

Lemma oc_startrecord_cr strict flds recs o :
  on_char strict (mkR StartRecord [] flds recs false o) c_cr = Ok (mkR EatCRNL [] flds recs true true).
Proof. reflexivity. Qed.

Lemma oc_infield_cr strict cur flds recs o :
  on_char strict (mkR InField cur flds recs false o) c_cr = Ok (mkR EatCRNL [] (rev cur :: flds) recs true true).
Proof. reflexivity. Qed.

Lemma oc_qiq_cr strict cur flds recs o :
  on_char strict (mkR QuoteInQuoted cur flds recs false o) c_cr = Ok (mkR EatCRNL [] (rev cur :: flds) recs true true).
Proof. reflexivity. Qed.

Lemma oc_eat_lf strict flds recs :
  on_char strict (mkR EatCRNL [] flds recs true true) c_lf = Ok (mkR StartRecord [] [] (rev flds :: recs) false false).
Proof. reflexivity. Qed.

Lemma oc_start_quote strict m flds recs o :
  field_start m ->
  on_char strict (mkR m [] flds recs false o) c_quote = Ok (mkR InQuoted [] flds recs false true).
Proof. intros [-> | ->]; reflexivity. Qed.

Lemma oc_inquoted_quote strict cur flds recs p o :
  on_char strict (mkR InQuoted cur flds recs p o) c_quote = Ok (mkR QuoteInQuoted cur flds recs false true).
Proof. destruct p; reflexivity. Qed.

Lemma oc_qiq_quote strict cur flds recs o :
  on_char strict (mkR QuoteInQuoted cur flds recs false o) c_quote = Ok (mkR InQuoted (c_quote :: cur) flds recs false true).
Proof. reflexivity. Qed.

Lemma oc_inquoted_other strict cur flds recs p o c :
  (c =? c_quote) = false ->
  exists p' o', on_char strict (mkR InQuoted cur flds recs p o) c = Ok (mkR InQuoted (c :: cur) flds recs p' o').
Proof.
  intros Hq. unfold on_char. cbn [r_pcr].
  destruct (p && negb (c =? c_lf)); unfold peol, pchar; cbn [r_mode r_cur r_fields r_recs r_pcr r_open];
    rewrite Hq; cbn [bind]; unfold add_char; cbn [r_mode r_cur r_fields r_recs r_pcr r_open];
    destruct (c =? c_lf); cbn [r_mode r_cur r_fields r_recs r_pcr r_open]; eauto.
Qed.

(* ----- fields ----- *)
Lemma feed_quoted_body strict flds recs : forall f cur p o,
  exists p' o', feed strict (mkR InQuoted cur flds recs p o) (escape_quotes f)
                = Ok (mkR InQuoted (rev f ++ cur) flds recs p' o').
Proof.
  induction f as [|c f IH]; intros cur p o.
  - simpl. eauto.
  - simpl escape_quotes. destruct (c =? c_quote) eqn:Hq.
    + apply N.eqb_eq in Hq. subst c.
      cbn [feed]. rewrite oc_inquoted_quote. cbn [bind]. rewrite oc_qiq_quote. cbn [bind].
      destruct (IH (c_quote :: cur) false true) as (p' & o' & H). rewrite H.
      exists p', o'. simpl rev. rewrite <- app_assoc. reflexivity.
    + cbn [feed]. destruct (oc_inquoted_other strict cur flds recs p o c Hq) as (p1 & o1 & H1).
      rewrite H1. cbn [bind]. destruct (IH (c :: cur) p1 o1) as (p' & o' & H). rewrite H.
      exists p', o'. simpl rev. rewrite <- app_assoc. reflexivity.
Qed.

Lemma feed_quoted strict m flds recs o f :
  field_start m ->
  feed strict (mkR m [] flds recs false o) (quoted f) = Ok (mkR QuoteInQuoted (rev f) flds recs false true).
Proof.
  intros Hm. unfold quoted. cbn [feed]. rewrite (oc_start_quote strict m flds recs o Hm). cbn [bind].
  rewrite feed_app. destruct (feed_quoted_body strict flds recs f [] false true) as (p' & o' & H).
  rewrite H. cbn [bind feed]. rewrite oc_inquoted_quote. cbn [bind]. rewrite app_nil_r. reflexivity.
Qed.

Lemma feed_infield strict flds recs : forall f cur o,
  Forall plainc f ->
  exists o', feed strict (mkR InField cur flds recs false o) f = Ok (mkR InField (rev f ++ cur) flds recs false o').
Proof.
  induction f as [|c f IH]; intros cur o Hf.
  - simpl. eauto.
  - cbn [feed]. rewrite (oc_infield_plain strict cur flds recs o c (Forall_inv Hf)). cbn [bind].
    destruct (IH (c :: cur) true (Forall_inv_tail Hf)) as (o' & H). rewrite H.
    exists o'. simpl rev. rewrite <- app_assoc. reflexivity.
Qed.

Lemma plain_field f : existsb needs_quote f = false -> Forall plainc f.
Proof.
  induction f as [|c f IH]; simpl; intros H; constructor.
  - apply orb_false_iff in H. apply needs_quote_false. tauto.
  - apply IH. apply orb_false_iff in H. tauto.
Qed.

(* a written field followed by the delimiter *)
Lemma field_then_comma strict m flds recs o f :
  field_start m ->
  feed strict (mkR m [] flds recs false o) (write_field f ++ [c_comma])
  = Ok (mkR StartField [] (f :: flds) recs false true).
Proof.
  intros Hm. rewrite feed_app. unfold write_field. destruct (existsb needs_quote f) eqn:Hq.
  - rewrite (feed_quoted strict m flds recs o f Hm). cbn [bind feed]. rewrite oc_qiq_comma. cbn [bind].
    rewrite rev_involutive. reflexivity.
  - apply plain_field in Hq. destruct f as [|c f].
    + cbn [feed bind]. rewrite (oc_start_comma strict m flds recs o Hm). reflexivity.
    + cbn [feed]. rewrite (oc_start_plain strict m flds recs o c Hm (Forall_inv Hq)). cbn [bind].
      destruct (feed_infield strict flds recs f [c] true (Forall_inv_tail Hq)) as (o' & H). rewrite H.
      cbn [bind feed]. rewrite oc_infield_comma. cbn [bind].
      rewrite rev_app_distr, rev_involutive. reflexivity.
Qed.

(* the last written field of a record followed by CR LF *)
Lemma field_then_crlf strict m flds recs o f :
  m = StartField \/ (m = StartRecord /\ f <> []) ->
  feed strict (mkR m [] flds recs false o) (write_field f ++ [c_cr; c_lf])
  = Ok (mkR StartRecord [] [] (rev (f :: flds) :: recs) false false).
Proof.
  intros Hm. assert (Hfs : field_start m) by (unfold field_start; tauto).
  rewrite feed_app. unfold write_field. destruct (existsb needs_quote f) eqn:Hq.
  - rewrite (feed_quoted strict m flds recs o f Hfs). cbn [bind feed]. rewrite oc_qiq_cr. cbn [bind].
    rewrite oc_eat_lf. cbn [bind]. rewrite rev_involutive. reflexivity.
  - apply plain_field in Hq. destruct f as [|c f].
    + destruct Hm as [-> | [_ Hne]]; [|congruence].
      cbn [feed bind]. rewrite oc_startfield_cr. cbn [bind]. rewrite oc_eat_lf. reflexivity.
    + cbn [feed]. rewrite (oc_start_plain strict m flds recs o c Hfs (Forall_inv Hq)). cbn [bind].
      destruct (feed_infield strict flds recs f [c] true (Forall_inv_tail Hq)) as (o' & H). rewrite H.
      cbn [bind feed]. rewrite oc_infield_cr. cbn [bind]. rewrite oc_eat_lf. cbn [bind].
      rewrite rev_app_distr, rev_involutive. reflexivity.
Qed.

(* ----- records ----- *)
Lemma join_cons2 (sep : str) (x y : str) (r : list str) :
  join sep (x :: y :: r) = x ++ sep ++ join sep (y :: r).
Proof. reflexivity. Qed.

Lemma feed_fields strict recs : forall row m flds o,
  row <> [] ->
  m = StartField \/ (m = StartRecord /\ row <> [[]]) ->
  feed strict (mkR m [] flds recs false o) (join [c_comma] (map write_field row) ++ [c_cr; c_lf])
  = Ok (mkR StartRecord [] [] ((rev flds ++ row) :: recs) false false).
Proof.
  induction row as [|f row IH]; intros m flds o Hne Hm; [congruence|].
  destruct row as [|g row].
  - simpl map. simpl join. rewrite field_then_crlf.
    + simpl rev. reflexivity.
    + destruct Hm as [Hm | [Hm Hrow]]; [left; exact Hm | right; split; [exact Hm|]].
      intros ->. apply Hrow. reflexivity.
  - simpl map. rewrite join_cons2. rewrite <- !app_assoc.
    replace (write_field f ++ [c_comma] ++ join [c_comma] (write_field g :: map write_field row) ++ [c_cr; c_lf])
      with ((write_field f ++ [c_comma]) ++ (join [c_comma] (map write_field (g :: row)) ++ [c_cr; c_lf]))
      by (rewrite <- app_assoc; reflexivity).
    rewrite feed_app, field_then_comma.
    + cbn [bind]. rewrite IH.
      * simpl rev. rewrite <- app_assoc. reflexivity.
      * discriminate.
      * left. reflexivity.
    + destruct Hm as [-> | [-> _]]; [right | left]; reflexivity.
Qed.

Lemma feed_row strict recs o row :
  feed strict (mkR StartRecord [] [] recs false o) (write_row row)
  = Ok (mkR StartRecord [] [] (row :: recs) false false).
Proof.
  destruct row as [|f row].
  - reflexivity.
  - destruct f as [|c f]; [destruct row as [|g row]|].
    + reflexivity.
    + change (write_row ([] :: g :: row)) with (join [c_comma] (map write_field ([] :: g :: row)) ++ [c_cr; c_lf]).
      rewrite feed_fields; [reflexivity | discriminate | right; split; [reflexivity | discriminate]].
    + change (write_row ((c :: f) :: row)) with (join [c_comma] (map write_field ((c :: f) :: row)) ++ [c_cr; c_lf]).
      rewrite feed_fields; [reflexivity | discriminate | right; split; [reflexivity | discriminate]].
Qed.

Lemma feed_rows strict : forall rows recs,
  feed strict (mkR StartRecord [] [] recs false false) (write_excel rows)
  = Ok (mkR StartRecord [] [] (rev rows ++ recs) false false).
Proof.
  induction rows as [|row rows IH]; intros recs.
  - reflexivity.
  - unfold write_excel. simpl map. simpl concat. rewrite feed_app, feed_row. cbn [bind].
    fold (write_excel rows). rewrite IH. simpl rev. rewrite <- app_assoc. reflexivity.
Qed.

Lemma csv_quote_roundtrip_lemma strict rows : read_excel strict (write_excel rows) = Ok rows.
Proof.
  unfold read_excel, r_init. rewrite feed_rows. cbn [bind]. unfold finish.
  cbn [r_open r_mode r_recs]. rewrite app_nil_r, rev_involutive. reflexivity.
Qed.
