(* Lemmas about the stack machine: running the post-fix serialisation of a tree
   pushes exactly the reference rendering; quote doubling is invertible. *)
From Coq Require Import ZArith NArith List Bool Arith Lia.
From NP Require Import Model.PyBase Model.FormulaStack Model.Expr Proofs.ExprP Proofs.ExprFuelP.
Import ListNotations.
Open Scope nat_scope.

(* ---------- quote doubling ---------- *)
Lemma undouble_double s : undouble_quotes (double_quotes s) = s.
Proof.
  induction s as [|c r IH]; [reflexivity|].
  cbn [double_quotes]. destruct (N.eqb_spec c 34) as [->|Hne].
  - cbn [undouble_quotes]. cbn. now rewrite IH.
  - cbn [undouble_quotes]. destruct (double_quotes r) as [|d r'] eqn:E.
    + destruct r as [|c2 r2]; [reflexivity|]. cbn in E. destruct (N.eqb c2 34); discriminate.
    + apply N.eqb_neq in Hne. rewrite Hne. cbn [andb]. now rewrite IH.
Qed.

Lemma string_body_text s : string_body (string_text s) = double_quotes s.
Proof.
  unfold string_body, string_text, g_quote. cbn [app tl]. apply removelast_last.
Qed.

Lemma string_literal_escape_lemma s : undouble_quotes (string_body (string_text s)) = s.
Proof. rewrite string_body_text. apply undouble_double. Qed.

(* character level: a scanner that reads one quoted literal (doubled quote = one
   quote, a single quote closes) recovers the string and stops exactly at the
   end of the rendered literal, whatever follows except another quote *)
Fixpoint scan_body (t : str) : option (str * str) :=
  match t with
  | [] => None
  | c :: r =>
    if N.eqb c 34 then
      match r with
      | d :: r' => if N.eqb d 34
                   then match scan_body r' with Some (s, rest) => Some (34%N :: s, rest) | None => None end
                   else Some ([], r)
      | [] => Some ([], [])
      end
    else match scan_body r with Some (s, rest) => Some (c :: s, rest) | None => None end
  end.
Definition scan_string (t : str) : option (str * str) :=
  match t with c :: r => if N.eqb c 34 then scan_body r else None | [] => None end.

Lemma scan_body_qq X : scan_body (34%N :: 34%N :: X) =
  match scan_body X with Some (s, rest) => Some (34%N :: s, rest) | None => None end.
Proof. reflexivity. Qed.
Lemma scan_body_other c X : N.eqb c 34 = false -> scan_body (c :: X) =
  match scan_body X with Some (s, rest) => Some (c :: s, rest) | None => None end.
Proof. intros H. cbn [scan_body]. now rewrite H. Qed.

Lemma scan_body_double s rest : hd_error rest <> Some 34%N ->
  scan_body (double_quotes s ++ g_quote ++ rest) = Some (s, rest).
Proof.
  intros Hr. induction s as [|c r IH].
  - cbn. destruct rest as [|d rest']; [reflexivity|].
    destruct (N.eqb_spec d 34) as [->|]; [now elim Hr|reflexivity].
  - cbn [double_quotes]. destruct (N.eqb_spec c 34) as [->|Hne].
    + rewrite <- !app_comm_cons, scan_body_qq, IH. reflexivity.
    + apply N.eqb_neq in Hne. rewrite <- app_comm_cons, (scan_body_other c _ Hne), IH. reflexivity.
Qed.

Lemma scan_string_text s rest : hd_error rest <> Some 34%N ->
  scan_string (string_text s ++ rest) = Some (s, rest).
Proof.
  intros Hr. unfold string_text. rewrite <- !app_assoc. cbn [g_quote app scan_string]. cbn.
  now apply (scan_body_double s rest).
Qed.

(* ---------- popn ---------- *)
Lemma popn_app xs st : popn (length xs) (xs ++ st) = Ok (xs, st).
Proof. induction xs as [|x xs IH]; [reflexivity|]. cbn [length app popn pop bind fst snd]. now rewrite IH. Qed.

Lemma popn_app' n xs st : n = length xs -> popn n (xs ++ st) = Ok (xs, st).
Proof. intros ->. apply popn_app. Qed.

Section RUN.
Variable fmap : N -> option str.
Notation run := (run fmap).
Notation step := (step fmap).
Notation text := (text fmap).
Notation top_item := (top_item fmap).

Lemma run_app a b st : run (a ++ b) st = bind (run a st) (run b).
Proof.
  revert st. induction a as [|n a IH]; intros st; [reflexivity|].
  cbn [app FormulaStack.run]. destruct (step n st); cbn [bind]; auto.
Qed.

Lemma run_cons n k st : run (n :: k) st = bind (step n st) (run k).
Proof. reflexivity. Qed.

Lemma text_app a b : text (a ++ b) = text a ++ text b.
Proof. apply flat_map_app. Qed.
Lemma text_cons t ts : text (t :: ts) = tok_text fmap t ++ text ts.
Proof. reflexivity. Qed.
Lemma text_one t : text [t] = tok_text fmap t.
Proof. cbn. apply app_nil_r. Qed.

Definition etext (e : expr) : str := text (show e).
Definition otext (a : option expr) : str := match a with Some e => etext e | None => [] end.
Definition oitem (a : option expr) : item := match a with Some e => top_item e | None => IStr [] end.

Lemma str_of_top e : str_of (top_item e) = etext e.
Proof.
  destruct e as [a| | | | | |]; try reflexivity.
  destruct a; try reflexivity. cbn. now rewrite app_nil_r.
Qed.
Lemma str_of_oitem a : str_of (oitem a) = otext a.
Proof. destruct a; [apply str_of_top|reflexivity]. Qed.

(* join over rendered elements = rendering of the separated sequence *)
Lemma join_sep {A} (sep : tok) (f : A -> list tok) l :
  join (tok_text fmap sep) (map (fun x => text (f x)) l) = text (sep_by sep f l).
Proof.
  induction l as [|x r IH]; [reflexivity|].
  destruct r as [|y r'].
  - reflexivity.
  - change (sep_by sep f (x :: y :: r')) with (f x ++ sep :: sep_by sep f (y :: r')).
    rewrite text_app, text_cons, <- IH. reflexivity.
Qed.

(* ---------- single steps ---------- *)
Lemma step_binop o a b st :
  step (binop_node o) (b :: a :: st) = Ok (IStr (str_of a ++ glyph o ++ str_of b) :: st).
Proof. destruct o; reflexivity. Qed.

Lemma step_atom a st : atom_ok a = true -> step (atom_node a) st = Ok (top_item (EAtom a) :: st).
Proof.
  unfold atom_ok. intros H.
  destruct a as [hi lo rep|s|b|b|d|tr t].
  - cbn [atom_node FormulaStack.step method_of call f_hi f_lo f_rep].
    cbn [atom_text] in H. unfold top_item. cbn [show]. rewrite text_one. cbn [tok_text]. unfold atom_str. cbn [atom_text].
    destruct (number_text hi lo rep); [reflexivity|discriminate].
  - cbn. now rewrite app_nil_r.
  - cbn. now rewrite app_nil_r.
  - cbn. now rewrite app_nil_r.
  - cbn [atom_node FormulaStack.step method_of call f_dateNum].
    cbn [atom_text] in H. unfold top_item. cbn [show]. rewrite text_one. cbn [tok_text]. unfold atom_str. cbn [atom_text].
    destruct (date_text d); [reflexivity|discriminate].
  - destruct tr; reflexivity.
Qed.

(* ---------- sequences of sub-expressions ---------- *)
Definition good (e : expr) : Prop :=
  forall k st, run (compile e ++ k) st = run k (top_item e :: st).
Definition goodo (a : option expr) : Prop := match a with Some e => good e | None => True end.

Lemma run_seq es : Forall good es -> forall k st,
  run (flat_map compile es ++ k) st = run k (rev (map top_item es) ++ st).
Proof.
  induction 1 as [|e es He _ IH]; intros k st; [reflexivity|].
  cbn [flat_map map rev]. rewrite <- !app_assoc. rewrite He, IH. cbn [app]. reflexivity.
Qed.

Definition compile_arg (a : option expr) : list node :=
  match a with Some e => compile e | None => [EMPTY_ARGUMENT_NODE] end.

Lemma run_args args : Forall goodo args -> forall k st,
  run (flat_map compile_arg args ++ k) st = run k (rev (map oitem args) ++ st).
Proof.
  induction 1 as [|a args Ha _ IH]; intros k st; [reflexivity|].
  cbn [flat_map map rev]. rewrite <- !app_assoc.
  destruct a as [e|]; cbn [compile_arg goodo oitem] in *.
  - rewrite Ha, IH. cbn [app]. reflexivity.
  - cbn [app]. rewrite run_cons. cbn [FormulaStack.step method_of call bind push]. rewrite IH. reflexivity.
Qed.

Lemma map_str_of_top es : map str_of (map top_item es) = map etext es.
Proof. rewrite map_map. apply map_ext. intros e. apply str_of_top. Qed.

(* ---------- arrays ---------- *)
Definition plain (e : expr) : Prop := bare_ref e = false.

Lemma top_plain e : plain e -> top_item e = IStr (etext e).
Proof. destruct e as [a| | | | | |]; try reflexivity. destruct a; try reflexivity. discriminate. Qed.

Lemma raw_strs_plain row : Forall plain row ->
  raw_strs (map top_item row) = Ok (map (fun e => text (show e)) row).
Proof.
  induction 1 as [|e row He _ IH]; [reflexivity|].
  cbn [map]. rewrite (top_plain e He). cbn [raw_strs]. rewrite IH. reflexivity.
Qed.

Definition rowtext (row : list expr) : str := join g_comma (map (fun e => text (show e)) row).

Lemma array_rows_ok w rr st :
  Forall (fun row => length row = w /\ Forall plain row) rr ->
  array_rows (length rr) w (flat_map (fun row => rev (map top_item row)) rr ++ st) = Ok (map rowtext rr, st).
Proof.
  induction 1 as [|row rr [Hw Hp] _ IH]; [reflexivity|].
  cbn [length flat_map array_rows]. rewrite <- app_assoc.
  rewrite popn_app' by (now rewrite rev_length, map_length).
  cbn [bind fst snd]. rewrite rev_involutive, (raw_strs_plain row Hp). cbn [bind].
  rewrite IH. reflexivity.
Qed.

Lemma flat_rows_stack rows :
  rev (map top_item (flat_map (fun row => row) rows)) = flat_map (fun row => rev (map top_item row)) (rev rows).
Proof.
  induction rows as [|row rows IH]; [reflexivity|].
  cbn [flat_map rev]. rewrite map_app, rev_app_distr, IH, flat_map_app. cbn [flat_map]. now rewrite app_nil_r.
Qed.

Lemma run_rows rows : Forall (Forall good) rows -> forall k st,
  run (flat_map (fun row => flat_map compile row) rows ++ k) st =
  run k (flat_map (fun row => rev (map top_item row)) (rev rows) ++ st).
Proof.
  induction 1 as [|row rows Hrow _ IH]; intros k st; [reflexivity|].
  cbn [flat_map rev]. rewrite <- !app_assoc. rewrite (run_seq row Hrow), IH.
  rewrite flat_map_app. cbn [flat_map]. rewrite app_nil_r, <- app_assoc. reflexivity.
Qed.

Lemma of_nat_eqb_1 n : N.eqb (N.of_nat n) 1 = Nat.eqb n 1.
Proof.
  destruct (Nat.eqb_spec n 1) as [->|Hne]; [reflexivity|].
  apply N.eqb_neq. intros H. apply Hne. apply Nat2N.inj. exact H.
Qed.

Lemma forallb_Forall {A} (f : A -> bool) l : forallb f l = true -> Forall (fun x => f x = true) l.
Proof. intros H. apply Forall_forall. intros x Hx. rewrite forallb_forall in H. auto. Qed.

(* ---------- texts of the composite forms ---------- *)
Lemma text_paren es : etext (EParen es) = g_lpar ++ join g_comma (map etext es) ++ g_rpar.
Proof.
  unfold etext. cbn [show]. rewrite text_cons, text_app, text_one. cbn [tok_text].
  rewrite <- (join_sep TComma show es). reflexivity.
Qed.

Lemma text_fun f args :
  etext (EFun f args) = func_name fmap f ++ g_lpar ++ join g_comma (map otext args) ++ g_rpar.
Proof.
  unfold etext. cbn [show]. rewrite text_cons, text_app, text_one. cbn [tok_text].
  rewrite <- (join_sep TComma (fun a : option expr => match a with Some e => show e | None => [] end) args).
  rewrite <- app_assoc. cbn [tok_text].
  replace (map (fun x : option expr => text match x with Some e => show e | None => [] end) args)
    with (map otext args); [reflexivity|].
  apply map_ext. intros [x|]; reflexivity.
Qed.

Lemma text_arr rows : etext (EArr rows) = g_lbrace ++ join g_semi (map rowtext rows) ++ g_rbrace.
Proof.
  unfold etext. cbn [show]. rewrite text_cons, text_app, text_one. cbn [tok_text].
  rewrite <- (join_sep TSemi (fun row => sep_by TComma show row) rows). cbn [tok_text].
  replace (map (fun x : list expr => text (sep_by TComma show x)) rows) with (map rowtext rows); [reflexivity|].
  apply map_ext. intros row. unfold rowtext. apply (join_sep TComma show row).
Qed.

Lemma top_composite e : bare_ref e = false -> top_item e = IStr (etext e).
Proof. apply top_plain. Qed.

(* ---------- the main lemma ---------- *)
Lemma render_compile_lemma : forall e, renderable e = true -> good e.
Proof.
  induction e as [a|o l r IHl IHr|e IH|e IH|es IH|f args IH|rows IH] using expr_ind2; intros Hr k st.
  - (* atom *)
    cbn [compile app]. rewrite run_cons, step_atom by exact Hr. reflexivity.
  - cbn [renderable] in Hr. apply andb_true_iff in Hr. destruct Hr as [Hl Hr].
    cbn [compile]. rewrite <- !app_assoc. rewrite (IHl Hl), (IHr Hr). cbn [app].
    rewrite run_cons, step_binop. cbn [bind]. rewrite !str_of_top.
    unfold top_item, etext. cbn [show]. rewrite text_app, text_cons. reflexivity.
  - cbn [renderable] in Hr. cbn [compile]. rewrite <- app_assoc, (IH Hr). cbn [app].
    rewrite run_cons. cbn [FormulaStack.step method_of call do_negate pop bind fst snd push]. rewrite str_of_top.
    unfold top_item, etext. cbn [show]. rewrite text_cons. reflexivity.
  - cbn [renderable] in Hr. cbn [compile]. rewrite <- app_assoc, (IH Hr). cbn [app].
    rewrite run_cons. cbn [FormulaStack.step method_of call do_percent pop bind fst snd push]. rewrite str_of_top.
    unfold top_item, etext. cbn [show]. rewrite text_app, text_one. reflexivity.
  - (* list *)
    cbn [renderable] in Hr. apply forallb_Forall in Hr.
    assert (Hg : Forall good es).
    { rewrite Forall_forall in *. intros x Hx. apply (IH x Hx). apply (Hr x Hx). }
    cbn [compile]. rewrite <- app_assoc, (run_seq es Hg). cbn [app].
    rewrite run_cons. cbn [FormulaStack.step method_of call f_listArgs]. unfold do_list.
    rewrite Nat2N.id, popn_app' by (now rewrite rev_length, map_length).
    cbn [bind fst snd]. rewrite <- map_rev, rev_involutive, map_str_of_top.
    rewrite (top_composite (EParen es) eq_refl), text_paren. reflexivity.
  - (* function call *)
    cbn [renderable] in Hr. apply forallb_Forall in Hr.
    assert (Hg : Forall goodo args).
    { rewrite Forall_forall in *. intros [x|] Hx; cbn; auto. apply (IH (Some x) Hx). apply (Hr (Some x) Hx). }
    cbn [compile]. change (fun a => match a with Some e => compile e | None => [EMPTY_ARGUMENT_NODE] end) with compile_arg.
    rewrite <- app_assoc, (run_args args Hg). cbn [app].
    rewrite run_cons. cbn [FormulaStack.step method_of call f_index f_fnArgs]. unfold do_function.
    rewrite Nat2N.id.
    assert (Hlen : (length (rev (map oitem args) ++ st) <? length args) = false).
    { apply Nat.ltb_ge. rewrite app_length, rev_length, map_length. lia. }
    rewrite Hlen. rewrite popn_app' by (now rewrite rev_length, map_length).
    cbn [bind fst snd]. rewrite <- map_rev, rev_involutive.
    rewrite (top_composite (EFun f args) eq_refl), text_fun.
    replace (map str_of (map oitem args)) with (map otext args); [reflexivity|].
    rewrite map_map. apply map_ext. intros a. symmetry. apply str_of_oitem.
  - (* array *)
    cbn [renderable] in Hr. apply forallb_Forall in Hr.
    set (w := length (hd [] rows)) in *.
    assert (Hg : Forall (Forall good) rows).
    { rewrite Forall_forall in *. intros row Hrow. specialize (Hr row Hrow). specialize (IH row Hrow).
      apply andb_true_iff in Hr. destruct Hr as [_ Hr]. apply forallb_Forall in Hr.
      rewrite Forall_forall in *. intros x Hx. apply (IH x Hx). specialize (Hr x Hx).
      apply andb_true_iff in Hr. tauto. }
    assert (Hrect : Forall (fun row => length row = w /\ Forall plain row) rows).
    { rewrite Forall_forall in *. intros row Hrow. specialize (Hr row Hrow).
      apply andb_true_iff in Hr. destruct Hr as [Hw Hp]. split; [now apply Nat.eqb_eq|].
      apply forallb_Forall in Hp. rewrite Forall_forall in *. intros x Hx. specialize (Hp x Hx).
      apply andb_true_iff in Hp. destruct Hp as [_ Hp]. unfold plain. now destruct (bare_ref x). }
    cbn [compile]. rewrite <- app_assoc, (run_rows rows Hg). cbn [app].
    rewrite run_cons. cbn [FormulaStack.step method_of call f_numRow f_numCol]. unfold do_array.
    rewrite of_nat_eqb_1, !Nat2N.id. fold w.
    rewrite (top_composite (EArr rows) eq_refl), text_arr.
    destruct (Nat.eqb_spec (length rows) 1) as [H1|H1].
    + destruct rows as [|row [|row2 rows2]]; try discriminate.
      cbn [rev app flat_map]. rewrite app_nil_r.
      inversion Hrect as [|? ? [Hw Hp] _]; subst.
      rewrite popn_app' by (rewrite rev_length, map_length; exact Hw).
      cbn [bind fst snd]. rewrite rev_involutive, (raw_strs_plain row Hp). cbn [bind].
      reflexivity.
    + assert (Hrr : Forall (fun row => length row = w /\ Forall plain row) (rev rows)).
      { apply Forall_forall. intros x Hx. rewrite Forall_forall in Hrect. apply Hrect. now apply in_rev. }
      rewrite <- (rev_length rows).
      rewrite (array_rows_ok w (rev rows) st Hrr). cbn [bind fst snd].
      rewrite <- map_rev, rev_involutive. reflexivity.
Qed.

Corollary formula_text_compile e : renderable e = true ->
  formula_text fmap (compile e) = Ok (text (show e)).
Proof.
  intros Hr. unfold formula_text.
  rewrite <- (app_nil_r (compile e)), (render_compile_lemma e Hr [] []).
  cbn [FormulaStack.run bind stack_text map concat]. rewrite str_of_top, app_nil_r. reflexivity.
Qed.
End RUN.

(* both halves together: the reported text is the character rendering of a token sequence that the
   parser reads back as the stored tree *)
Lemma formula_denotes_tree_lemma (fmap : N -> option str) (prec : binop -> nat) (e : expr) :
  renderable e = true -> wf prec e ->
  exists ts, formula_text fmap (compile e) = Ok (text fmap ts) /\ parse prec ts = Some e.
Proof.
  intros Hr Hw. exists (show e). split; [now apply formula_text_compile|now apply parse_show_lemma].
Qed.
