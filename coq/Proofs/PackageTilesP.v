(* PackageTilesP: the tiles written by recalculate_table_data / recalculate_row_info (Model/TileCodec.v), abstracted
   the way the harness abstracts a saved tile (Package.abs_table), satisfy the table part of the C07 specification:
   the tiles account for exactly the rows, each holds at most 256 rows with tile_row_index 0,1,2.. , every offsets table
   has one entry per column, and the cell records are 4-byte aligned, inside the buffer and pairwise disjoint.
   Builds on Proofs/TileCodecP.v (tile split, offsets) and Proofs/CellRecordP.v (a record is as long as its flags say). *)
From Coq Require Import ZArith NArith List Bool Lia Sorted.
From NP Require Import Model.PyBase Model.CellRecord Model.TileCodec Model.Package
                       Proofs.CellRecordP Proofs.TileCodecP Proofs.PackageP.
Import ListNotations.
Ltac Zify.zify_post_hook ::= Z.to_euclidean_division_equations.

Definition rec_flags (b : list N) : N := le_val (slice b 8 12).
(* a record carries its 12-byte header and is exactly as long as its own flags word announces *)
Definition record_ok (b : list N) : Prop := (12 <= length b)%nat /\ Z.of_nat (length b) = reclen (rec_flags b).
Definition records_ok (cs : cells) : Prop :=
  Forall (fun c => match c with Some b => record_ok b | None => True end) cs.

(* ---------- a record of the library's encoder is as long as its flags say ---------- *)
Lemma emit_length_flags : forall Ls flags vs, agree Ls flags vs -> fits Ls vs ->
  Z.of_nat (length (emit vs)) =
  fold_right (fun f acc => (if N.testbit flags (lbit f) then Z.of_nat (lwidth f) else 0) + acc)%Z 0%Z Ls.
Proof.
  induction Ls as [|f Ls IH]; intros flags vs Ha Hf.
  - destruct vs; [reflexivity|destruct Ha].
  - destruct vs as [|v vs]; [destruct Ha|]. destruct Ha as [Hb Ha]. cbn [fold_right]. rewrite Hb.
    destruct v as [p|]; cbn [is_some emit fits] in *.
    + destruct Hf as [Hl Hf]. rewrite app_length, Nat2Z.inj_add, (IH flags vs Ha Hf), Hl. reflexivity.
    + rewrite (IH flags vs Ha Hf). reflexivity.
Qed.

Lemma slice_in_middle {A} (pre b post : list A) i j : (i <= j)%nat -> (j <= length b)%nat ->
  slice (pre ++ b ++ post) (length pre + i) (length pre + j) = slice b i j.
Proof.
  intros Hij Hj. unfold slice.
  replace (length pre + j - (length pre + i))%nat with (j - i)%nat by lia.
  rewrite skipn_app. rewrite skipn_all2 by lia. cbn [app].
  replace (length pre + i - length pre)%nat with i by lia.
  rewrite skipn_app. replace (i - length b)%nat with 0%nat by lia. cbn [skipn].
  rewrite firstn_app. rewrite skipn_length.
  replace (j - i - (length b - i))%nat with 0%nat by lia. cbn [firstn]. apply app_nil_r.
Qed.

Theorem encode_record_ok c : wf_cell c = true -> record_ok (CellRecord.encode c).
Proof.
  intros Hwf. pose proof (wf_fits c Hwf) as Hfits.
  rewrite encode_is_ref_encode. unfold ref_encode, record_ok.
  set (vs := cell_vals c) in *. set (fl := flags_of doc_layout vs).
  assert (Hflags : rec_flags ([5; kind_type (c_kind c); 0; 0; 0; 0; extras6 c; 0]%N ++ le_bytes 4 fl ++ emit vs) = fl).
  { unfold rec_flags.
    change 8%nat with (length [5; kind_type (c_kind c); 0; 0; 0; 0; extras6 c; 0]%N + 0)%nat at 1.
    change 12%nat with (length [5; kind_type (c_kind c); 0; 0; 0; 0; extras6 c; 0]%N + 4)%nat.
    rewrite slice_in_middle by (rewrite ?le_bytes_length; lia).
    unfold slice. cbn [skipn Nat.sub]. rewrite firstn_all2 by (rewrite le_bytes_length; lia).
    apply le_val_bytes. apply doc_flags_small. }
  rewrite Hflags. rewrite !app_length, le_bytes_length. cbn [length]. split; [lia|].
  unfold reclen.
  rewrite <- (emit_length_flags doc_layout fl vs); [lia| |exact Hfits].
  unfold fl. rewrite <- (N.lor_0_l (flags_of doc_layout vs)).
  apply (agree_flags doc_layout None vs 0%N); [exact doc_layout_ascending|now apply fits_length|].
  intros b Hb. rewrite N.bits_0 in Hb. discriminate.
Qed.

(* ---------- one row ---------- *)
Definition nonneg (o : Z) : bool := (0 <=? o)%Z.

Fixpoint rec_offs (cur : nat) (cs : cells) : list (Z * list N) :=
  match cs with
  | [] => []
  | Some b :: r => (Z.of_nat cur, b) :: rec_offs (cur + length b) r
  | None :: r => rec_offs cur r
  end.

Lemma present_wide offs : present true offs = filter nonneg (map (fun o => (o * 4)%Z) offs).
Proof.
  unfold present, byte_off. induction offs as [|o r IH]; cbn [filter map]; [reflexivity|].
  unfold nonneg at 1. destruct (Z.leb_spec 0 o); destruct (Z.leb_spec 0 (o * 4)); try lia; cbn [map]; now rewrite IH.
Qed.

Lemma filter_byte_offsets : forall cs cur, filter nonneg (byte_offsets cur cs) = map fst (rec_offs cur cs).
Proof.
  induction cs as [|[b|] r IH]; intros cur; cbn [byte_offsets_m filter rec_offs map fst]; [reflexivity| |].
  - unfold nonneg at 1. destruct (Z.leb_spec 0 (Z.of_nat cur)); [|lia]. now rewrite IH.
  - unfold nonneg at 1. change (0 <=? -4)%Z with false. cbv iota. apply IH.
Qed.

Lemma rec_offs_length : forall cs cur, length (rec_offs cur cs) = count_some cs.
Proof.
  unfold count_some. induction cs as [|[b|] r IH]; intros cur; cbn [rec_offs filter length]; [reflexivity| |apply IH].
  now rewrite IH.
Qed.

Lemma row_offsets_length : forall cs cur, length (row_offsets cur cs) = length cs.
Proof. induction cs as [|[b|] r IH]; intros cur; cbn [row_offsets length]; [reflexivity| |]; now rewrite IH. Qed.

Lemma rec_offs_head cs : forall cur o b l, rec_offs cur cs = (o, b) :: l -> o = Z.of_nat cur.
Proof.
  induction cs as [|[b'|] r IH]; intros cur o b l H; cbn [rec_offs] in H; [discriminate| |].
  - now injection H as <- _ _.
  - now apply (IH _ _ _ _ H).
Qed.

(* flags read back from the storage buffer at each record's offset are the record's own flags *)
Lemma flags_at_records : forall cs pre post, records_ok cs ->
  map (fun x => flags_at (pre ++ row_storage cs ++ post) (fst x)) (rec_offs (length pre) cs) =
  map (fun x => rec_flags (snd x)) (rec_offs (length pre) cs).
Proof.
  induction cs as [|[b|] r IH]; intros pre post Hok; cbn [rec_offs row_storage map fst snd]; [reflexivity| |].
  - pose proof (Forall_inv Hok) as [Hb _]. pose proof (Forall_inv_tail Hok) as Hr. f_equal.
    + unfold flags_at. rewrite Nat2Z.id.
      assert (C : ((0 <=? Z.of_nat (length pre))%Z && (Z.of_nat (length pre) + 12 <=? Z.of_nat (length (pre ++ (b ++ row_storage r) ++ post)))%Z) = true).
      { apply andb_true_intro. split; apply Z.leb_le; [lia|]. rewrite !app_length. lia. }
      rewrite C. unfold rec_flags. rewrite <- (app_assoc b). now rewrite slice_in_middle by lia.
    + specialize (IH (pre ++ b) post Hr). rewrite app_length in IH.
      rewrite <- !app_assoc in IH. rewrite <- !app_assoc. exact IH.
  - apply IH. exact (Forall_inv_tail Hok).
Qed.

Lemma recs_chain : forall cs cur slen, aligned cs -> records_ok cs -> Nat.modulo cur 4 = 0%nat ->
  (Z.of_nat (cur + length (row_storage cs)) <= slen)%Z ->
  recs_ok slen (map (fun x => (fst x, rec_flags (snd x))) (rec_offs cur cs)) = true.
Proof.
  induction cs as [|[b|] r IH]; intros cur slen Hal Hok Hc Hs; cbn [rec_offs map recs_ok fst snd row_storage] in *;
    [reflexivity| |].
  - pose proof (Forall_inv Hok) as [Hb1 Hb2]. pose proof (Forall_inv Hal) as Hb3. cbn beta iota in Hb3.
    rewrite app_length in Hs.
    assert (Hc' : Nat.modulo (cur + length b) 4 = 0%nat) by (rewrite Nat.add_mod by lia; rewrite Hc, Hb3; reflexivity).
    rewrite (IH (cur + length b)%nat slen (Forall_inv_tail Hal) (Forall_inv_tail Hok) Hc') by lia.
    rewrite andb_true_r. rewrite <- Hb2.
    apply andb_true_intro. split; [apply andb_true_intro; split|].
    + apply Z.eqb_eq. apply Nat.mod_divides in Hc as [q Hq]; lia.
    + apply Z.leb_le. lia.
    + apply Z.leb_le.
      destruct (rec_offs (cur + length b) r) as [|[o' b'] l'] eqn:E; cbn [map fst snd]; [lia|].
      apply rec_offs_head in E. lia.
  - apply IH; auto; [exact (Forall_inv_tail Hal)|exact (Forall_inv_tail Hok)].
Qed.

Lemma combine_map_self {A B C} (f : A -> B) (g : A -> C) l : combine (map f l) (map g l) = map (fun x => (f x, g x)) l.
Proof. induction l as [|x l IH]; cbn; [reflexivity|now rewrite IH]. Qed.

Lemma packed_row_wf cs idx : aligned cs -> records_ok cs ->
  wf_row (N.of_nat (length cs))
    (abs_row {| tile_row_index := idx; r_offsets := row_offsets 0 cs; r_storage := row_storage cs; cell_count := count_some cs |}).
Proof.
  intros Hal Hok. unfold wf_row, abs_row. cbn [r_offs r_wide r_count r_flags r_slen r_offsets r_storage cell_count tile_row_index].
  assert (Hp : present true (row_offsets 0 cs) = map fst (rec_offs 0 cs)).
  { rewrite present_wide, wide_offsets by (auto; reflexivity). apply filter_byte_offsets. }
  rewrite Hp. split; [now rewrite row_offsets_length|]. split.
  - eapply Forall_impl; [|exact (row_offsets_bound cs 0)]. intros o Ho. cbn beta in Ho. lia.
  - split; [now rewrite map_length, rec_offs_length|]. split; [now rewrite !map_length|].
    rewrite map_map, combine_map_self. apply recs_ok_iff.
    pose proof (flags_at_records cs [] [] Hok) as Hf. cbn [app length] in Hf. rewrite app_nil_r in Hf.
    assert (E : map (fun x => (fst x, flags_at (row_storage cs) (fst x))) (rec_offs 0 cs) =
                map (fun x => (fst x, rec_flags (snd x))) (rec_offs 0 cs)).
    { revert Hf. generalize (rec_offs 0 cs). induction l as [|x l IHl]; cbn [map]; intros Hf; [reflexivity|].
      injection Hf as H1 H2. rewrite H1, (IHl H2). reflexivity. }
    rewrite E. apply recs_chain; auto. rewrite N2Z.inj_iff || idtac. lia.
Qed.

(* ---------- one tile ---------- *)
Lemma encode_rows_wf ncols : forall rows idx ris, rect ncols rows -> Forall records_ok rows ->
  encode_rows idx rows = Ok ris -> Forall (wf_row (N.of_nat ncols)) (map abs_row ris).
Proof.
  induction rows as [|cs r IH]; intros idx ris Hr Hok H; cbn [encode_rows] in H.
  - injection H as <-. constructor.
  - unfold pack_row in H. destruct (forallb h_ok (row_offsets 0 cs)); cbn [bind] in H; [|discriminate].
    destruct (encode_rows (S idx) r) as [rest|e] eqn:Er; cbn [bind] in H; [|discriminate].
    injection H as <-. cbn [map fst snd].
    pose proof (Forall_inv Hr) as [Hlen Hal]. constructor.
    + rewrite <- Hlen. apply packed_row_wf; [exact Hal|exact (Forall_inv Hok)].
    + exact (IH (S idx) rest (Forall_inv_tail Hr) (Forall_inv_tail Hok) Er).
Qed.

Lemma seq_shift_n : forall n s m, seq (s + m) n = map (fun j => (s + j)%nat) (seq m n).
Proof.
  induction n as [|n IH]; intros s m; cbn [seq map]; [reflexivity|]. f_equal.
  replace (S (s + m)) with (s + S m)%nat by lia. apply IH.
Qed.

Lemma tile_wf ncols k (rows : list cells) ris : rect ncols rows -> Forall records_ok rows -> (length rows <= 256)%nat ->
  encode_rows 0 rows = Ok ris ->
  wf_tile (N.of_nat ncols) {| t_id := k; t_numrows := N.of_nat (length ris); t_rows := map abs_row ris |} /\
  map (fun r => (k * 256 + r_index r)%N) (map abs_row ris) = map (fun j => (k * 256 + N.of_nat j)%N) (seq 0 (length rows)) /\
  length ris = length rows.
Proof.
  intros Hr Hok Hlen H.
  pose proof (encode_rows_index _ _ _ H) as Hi.
  assert (L : length ris = length rows).
  { apply (f_equal (@length nat)) in Hi. now rewrite map_length, seq_length in Hi. }
  assert (Hidx : map r_index (map abs_row ris) = map N.of_nat (seq 0 (length rows))).
  { rewrite map_map. rewrite <- Hi, map_map. reflexivity. }
  split; [|split; [|exact L]].
  - unfold wf_tile. cbn [t_rows t_numrows]. rewrite map_length. split; [lia|]. split; [reflexivity|]. split; [|split].
    + rewrite <- Forall_map with (f := r_index) (P := fun i => (i < 256)%N). rewrite Hidx.
      apply Forall_forall. intros i Hin. apply in_map_iff in Hin as (j & <- & Hj). apply in_seq in Hj. lia.
    + rewrite Hidx. apply seq_sorted. intros a b Hab. lia.
    + exact (encode_rows_wf ncols rows 0 ris Hr Hok H).
  - rewrite <- (map_map r_index (fun i => (k * 256 + i)%N)), Hidx, map_map. reflexivity.
Qed.

(* ---------- the whole table ---------- *)
Lemma abs_tiles_wf ncols : forall fuel (rows : list cells) tiles k,
  rect ncols rows -> Forall records_ok rows -> encode_tiles (chunks fuel rows) = Ok tiles ->
  Forall (wf_tile (N.of_nat ncols)) (abs_tiles k tiles) /\
  global_rows (abs_tiles k tiles) = map (fun j => (k * 256 + N.of_nat j)%N) (seq 0 (Nat.min (length rows) (256 * fuel))) /\
  total_rows (abs_tiles k tiles) = Nat.min (length rows) (256 * fuel).
Proof.
  induction fuel as [|f IH]; intros rows tiles k Hr Hok H; cbn [chunks encode_tiles] in H.
  - injection H as <-. rewrite Nat.mul_0_r, Nat.min_0_r. cbn. split; [constructor|split; reflexivity].
  - destruct (encode_rows 0 (firstn 256 rows)) as [a|e] eqn:Ea; cbn [bind] in H; [|discriminate].
    destruct (encode_tiles (chunks f (skipn 256 rows))) as [b|e] eqn:Eb; cbn [bind] in H; [|discriminate].
    injection H as <-.
    destruct (rect_split ncols 256 rows Hr) as [Hr1 Hr2].
    assert (Hok' := Hok). rewrite <- (firstn_skipn 256 rows) in Hok'. apply Forall_app in Hok' as [Hok1 Hok2].
    destruct (tile_wf ncols k (firstn 256 rows) a Hr1 Hok1 (firstn_le_length _ _) Ea) as (T1 & T2 & T3).
    destruct (IH (skipn 256 rows) b (k + 1)%N Hr2 Hok2 Eb) as (I1 & I2 & I3).
    cbn [abs_tiles]. split; [constructor; assumption|].
    unfold global_rows, total_rows in *. cbn [flat_map t_rows t_id]. rewrite app_length, map_length.
    rewrite T2, I2, I3, T3. rewrite firstn_length, skipn_length.
    destruct (Nat.le_gt_cases (length rows) 256) as [Hle|Hgt].
    + replace (Nat.min (length rows - 256) (256 * f)) with 0%nat by lia.
      replace (Nat.min 256 (length rows)) with (length rows) by lia.
      replace (Nat.min (length rows) (256 * S f)) with (length rows) by lia.
      cbn [seq map]. rewrite app_nil_r. split; [reflexivity|lia].
    + set (n2 := Nat.min (length rows - 256) (256 * f)).
      replace (Nat.min 256 (length rows)) with 256%nat by lia.
      replace (Nat.min (length rows) (256 * S f)) with (256 + n2)%nat by lia.
      split; [|reflexivity].
      rewrite seq_app, map_app. f_equal.
      replace (seq (0 + 256) n2) with (seq (256 + 0) n2) by (f_equal; lia).
      rewrite (seq_shift_n n2 256 0), map_map. apply map_ext. intros j. lia.
Qed.

(* every grid of well-formed records, any number of rows and columns *)
Theorem tiles_wf_package_lemma id ncols rows tiles :
  rect ncols rows -> Forall records_ok rows -> encode_table rows = Ok tiles ->
  wf_table (abs_table id (length rows) ncols tiles).
Proof.
  intros Hr Hok H. unfold encode_table, tiles_of in H.
  destruct (abs_tiles_wf ncols _ rows tiles 0%N Hr Hok H) as (W1 & W2 & W3).
  assert (Hmin : Nat.min (length rows) (256 * S (length rows / 256)) = length rows).
  { pose proof (Nat.div_mod (length rows) 256 ltac:(lia)).
    pose proof (Nat.mod_upper_bound (length rows) 256 ltac:(lia)). lia. }
  rewrite Hmin in W2, W3.
  unfold wf_table, abs_table. cbn [tb_tiles tb_nrows tb_ncols].
  split; [now rewrite W3|]. split; [|exact W1].
  rewrite W2, Nat2N.id. apply map_ext. intros j. lia.
Qed.

(* ... in particular every grid of cells encoded by Cell._to_buffer's model *)
Definition encode_cells (row : list (option cell)) : cells := map (option_map CellRecord.encode) row.

Lemma encoded_row_ok row : Forall (fun c => match c with Some x => wf_cell x = true | None => True end) row ->
  aligned (encode_cells row) /\ records_ok (encode_cells row).
Proof.
  unfold aligned, records_ok, encode_cells. induction row as [|[c|] r IH]; intros H; cbn [map option_map].
  - split; constructor.
  - destruct (IH (Forall_inv_tail H)) as [I1 I2]. pose proof (Forall_inv H) as Hc. cbn beta iota in Hc.
    split; constructor; auto.
    + exact (proj2 (length_and_alignment_lemma c Hc)).
    + now apply encode_record_ok.
  - destruct (IH (Forall_inv_tail H)) as [I1 I2]. split; constructor; auto.
Qed.

Theorem tiles_wf_cells_lemma id ncols (grid : list (list (option cell))) tiles :
  Forall (fun row => length row = ncols /\
                     Forall (fun c => match c with Some x => wf_cell x = true | None => True end) row) grid ->
  encode_table (map encode_cells grid) = Ok tiles ->
  wf_table (abs_table id (length grid) ncols tiles).
Proof.
  intros Hg H. rewrite <- (map_length encode_cells grid).
  apply tiles_wf_package_lemma; [| |exact H].
  - unfold rect. apply Forall_map. eapply Forall_impl; [|exact Hg]. intros row [Hl Hc]. cbn beta.
    split; [unfold encode_cells; now rewrite map_length|exact (proj1 (encoded_row_ok row Hc))].
  - apply Forall_map. eapply Forall_impl; [|exact Hg]. intros row [_ Hc]. exact (proj2 (encoded_row_ok row Hc)).
Qed.
