(* Date literals: the (year, month, day) that Formula.date prints is the civil
   date of the stored day number - [days_from_civil] (the textbook day count of the
   proleptic Gregorian calendar, written independently) inverts the model's
   [civil_from_days] for every day, and month/day are in range.
   One 400-year era (146097 days) is swept by vm_compute; the rest is the
   periodicity of both functions. *)
From Coq Require Import ZArith NArith List Bool Lia.
From NP Require Import Model.PyBase Model.FormulaStack.
Import ListNotations.
Open Scope Z_scope.

(* days since 0000-03-01 of a civil date *)
Definition days_from_civil (y m d : Z) : Z :=
  let y' := if m <=? 2 then y - 1 else y in
  let era := y' / 400 in
  let yoe := y' mod 400 in
  let mp := if 2 <? m then m - 3 else m + 9 in
  let doy := (153 * mp + 2) / 5 + d - 1 in
  let doe := yoe * 365 + yoe / 4 - yoe / 100 + doy in
  era * 146097 + doe.

(* civil_from_days split into the era and the day of the era *)
Definition civil_of (era doe : Z) : Z * Z * Z :=
  let yoe := (doe - doe / 1460 + doe / 36524 - doe / 146096) / 365 in
  let doy := doe - (365 * yoe + yoe / 4 - yoe / 100) in
  let mp := (5 * doy + 2) / 153 in
  let d := doy - (153 * mp + 2) / 5 + 1 in
  let m := if mp <? 10 then mp + 3 else mp - 9 in
  let y := yoe + era * 400 + (if m <=? 2 then 1 else 0) in
  (y, m, d).

Lemma civil_from_days_era z : civil_from_days z = civil_of (z / 146097) (z mod 146097).
Proof. reflexivity. Qed.

(* the facts checked for each day of one era *)
Definition chk (doe : Z) : bool :=
  let '(y, m, d) := civil_of 0 doe in
  let y' := if m <=? 2 then y - 1 else y in
  (0 <=? y') && (y' <=? 399) && (1 <=? m) && (m <=? 12) && (1 <=? d) && (d <=? 31)
  && (days_from_civil y m d =? doe).

(* f holds on k, k+1, ..., k+n-1 (counter carried as Z: no unary arithmetic in the sweep) *)
Fixpoint all_from (n : nat) (k : Z) (f : Z -> bool) (acc : bool) : bool :=
  match n with O => acc | S n' => all_from n' (k + 1) f (acc && f k) end.

Lemma all_from_acc n k f acc : all_from n k f acc = true -> acc = true.
Proof.
  revert k acc. induction n as [|n IH]; intros k acc H; [exact H|].
  cbn [all_from] in H. apply IH in H. apply andb_true_iff in H. tauto.
Qed.

Lemma all_from_spec n : forall k f acc, all_from n k f acc = true ->
  forall j, k <= j < k + Z.of_nat n -> f j = true.
Proof.
  induction n as [|n IH]; intros k f acc H j Hj; [lia|].
  cbn [all_from] in H.
  destruct (Z.eq_dec j k) as [->|Hne].
  - apply all_from_acc in H. apply andb_true_iff in H. tauto.
  - apply (IH _ _ _ H). lia.
Qed.

Lemma era_sweep : all_from (N.to_nat 146097) 0 chk true = true.
Proof. vm_compute. reflexivity. Qed.

Lemma chk_all doe : 0 <= doe < 146097 -> chk doe = true.
Proof.
  intros H. apply (all_from_spec _ _ _ _ era_sweep).
  rewrite N_nat_Z. change (Z.of_N 146097) with 146097. lia.
Qed.

(* shifting the era shifts the year by 400 and nothing else *)
Lemma civil_of_era era doe :
  civil_of era doe = (let '(y, m, d) := civil_of 0 doe in (y + era * 400, m, d)).
Proof. unfold civil_of. cbv zeta. f_equal. f_equal. lia. Qed.

Lemma days_from_civil_era y m d era :
  (0 <= (if m <=? 2 then y - 1 else y) <= 399) ->
  days_from_civil (y + era * 400) m d = days_from_civil y m d + era * 146097.
Proof.
  intros Hy. unfold days_from_civil. cbv zeta.
  set (y0 := if m <=? 2 then y - 1 else y) in *.
  assert (E : (if m <=? 2 then y + era * 400 - 1 else y + era * 400) = y0 + era * 400).
  { subst y0. destruct (m <=? 2); lia. }
  rewrite E. rewrite Z.div_add, Z.mod_add by lia.
  rewrite (Z.div_small y0 400), (Z.mod_small y0 400) by lia. lia.
Qed.

Lemma civil_roundtrip_lemma : forall z y m d, civil_from_days z = (y, m, d) ->
  days_from_civil y m d = z /\ 1 <= m <= 12 /\ 1 <= d <= 31.
Proof.
  intros z y m d H. rewrite civil_from_days_era, civil_of_era in H.
  set (era := z / 146097) in *. set (doe := z mod 146097) in *.
  assert (Hdoe : 0 <= doe < 146097) by (subst doe; apply Z.mod_pos_bound; lia).
  pose proof (chk_all doe Hdoe) as C. unfold chk in C.
  destruct (civil_of 0 doe) as [[y0 m0] d0]. inversion H; subst y m d. clear H.
  repeat (apply andb_true_iff in C; destruct C as [C ?]).
  repeat match goal with
  | H : (_ <=? _) = true |- _ => apply Z.leb_le in H
  | H : (_ =? _) = true |- _ => apply Z.eqb_eq in H
  end.
  split; [|lia].
  rewrite days_from_civil_era by lia.
  match goal with H : days_from_civil y0 m0 d0 = doe |- _ => rewrite H end.
  subst era doe. pose proof (Z.div_mod z 146097 ltac:(lia)). lia.
Qed.

(* date_text prints those three numbers *)
Lemma date_text_shape secs y m d :
  civil_from_days (secs / 86400 + DAYS_0000_03_01_TO_2001_01_01) = (y, m, d) -> 1 <= y <= 9999 ->
  date_text secs = Ok (t_DATE_open ++ Z_to_str y ++ g_comma ++ Z_to_str m ++ g_comma ++ Z_to_str d ++ g_rpar).
Proof.
  intros H Hy. unfold date_text. rewrite H.
  assert (E : ((1 <=? y) && (y <=? 9999)) = true).
  { apply andb_true_iff. split; apply Z.leb_le; lia. }
  now rewrite E.
Qed.
