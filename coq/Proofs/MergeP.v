(* Proofs about merges in Model/Grid.v: the merge map after merge_cells, its save/reload packing. *)
From Coq Require Import ZArith NArith List Bool Lia.
From NP Require Import Model.PyBase Model.Grid.
Import ListNotations.
Open Scope Z_scope.

Lemma mget_mset m r c v r' c' :
  mget (mset m r c v) r' c' = if (r' =? r) && (c' =? c) then Some v else mget m r' c'.
Proof.
  induction m as [|[[a b] w] m IH]; cbn [mset mget].
  - reflexivity.
  - destruct ((r =? a) && (c =? b)) eqn:E; cbn [mget].
    + apply andb_prop in E as [E1 E2]. apply Z.eqb_eq in E1, E2. subst a b.
      destruct ((r' =? r) && (c' =? c)); reflexivity.
    + rewrite IH. destruct ((r' =? a) && (c' =? b)) eqn:E2; [|reflexivity].
      apply andb_prop in E2 as [A B]. apply Z.eqb_eq in A, B. subst a b.
      destruct ((r' =? r) && (c' =? c)) eqn:E3; [|reflexivity].
      apply andb_prop in E3 as [A B]. apply Z.eqb_eq in A, B. subst. rewrite !Z.eqb_refl in E. discriminate.
Qed.

(* the map after a fold of add_reference over a list of positions *)
Lemma mget_fold_refs rect : forall ps m r c,
  mget (fold_left (fun a p => mset a (fst p) (snd p) rect) ps m) r c =
  if existsb (fun p => (r =? fst p) && (c =? snd p)) ps then Some rect else mget m r c.
Proof.
  induction ps as [|[pr pc] ps IH]; intros m r c; cbn [fold_left existsb fst snd]; [reflexivity|].
  rewrite IH, mget_mset.
  destruct (existsb (fun p => (r =? fst p) && (c =? snd p)) ps); [now rewrite orb_true_r|].
  rewrite orb_false_r. reflexivity.
Qed.

(* ---------- 16-bit packing of the saved merge map ---------- *)
Lemma pack16_unpack hi lo : 0 <= lo < 65536 -> 0 <= hi ->
  Z.shiftr (pack16 hi lo) 16 = hi /\ Z.land (pack16 hi lo) 65535 = lo.
Proof.
  intros Hlo Hhi. unfold pack16. split.
  - rewrite Z.shiftr_lor. rewrite Z.shiftr_shiftl_l by lia. cbn [Z.sub Z.pos_sub Z.opp]. rewrite Z.shiftl_0_r.
    rewrite (Z.shiftr_div_pow2 lo 16) by lia. change (2 ^ 16) with 65536.
    rewrite Z.div_small by lia. apply Z.lor_0_r.
  - change 65535 with (Z.ones 16). rewrite Z.land_lor_distr_l, !Z.land_ones by lia.
    rewrite Z.shiftl_mul_pow2 by lia. rewrite Z.mod_mul by (change (2 ^ 16) with 65536; lia).
    change (2 ^ 16) with 65536. rewrite Z.mod_small by lia. apply Z.lor_0_l.
Qed.

(* one anchor: what is saved reloads as the same rectangle, while rows and sizes fit 16 bits *)
Theorem merge_reload_lemma r c h w :
  0 <= r < 65536 -> 0 <= c -> 0 <= h < 65536 -> 0 <= w ->
  forall rr cc,
  mget (reload_merges [((r, c), RAnchor h w)]) rr cc =
  if (rr =? r) && (cc =? c) then Some (RAnchor h w)
  else if existsb (fun p => (rr =? fst p) && (cc =? snd p))
                  (flat_map (fun x => map (fun y => (x, y)) (zrange c (c + w - 1 + 1))) (zrange r (r + h - 1 + 1)))
       then Some (RRef r c (r + h - 1) (c + w - 1)) else None.
Proof.
  intros Hr Hc Hh Hw rr cc. unfold reload_merges. cbn [fold_left].
  destruct (pack16_unpack c r Hr Hc) as [E1 E2]. destruct (pack16_unpack w h Hh Hw) as [E3 E4].
  rewrite E1, E2, E3, E4. rewrite mget_mset.
  destruct ((rr =? r) && (cc =? c)); [reflexivity|].
  rewrite mget_fold_refs. reflexivity.
Qed.

(* ---------- the merge map after merge_cells ---------- *)
Definition rect_cells (r0 c0 r1 c1 : Z) : list (Z * Z) :=
  filter (fun p => negb ((fst p =? r0) && (snd p =? c0)))
         (flat_map (fun r => map (fun c => (r, c)) (zrange c0 (c1 + 1))) (zrange r0 (r1 + 1))).

Lemma fold_step_fst (r0 c0 r1 c1 : Z) : forall ps m d,
  fst (fold_left (fun (st : mmap * list (list cell)) (p : Z * Z) =>
         let '(r, c) := p in
         (mset (fst st) r c (RRef r0 c0 r1 c1), set_cell (snd st) r c (merged_cell (fst st) r c))) ps (m, d))
  = fold_left (fun a p => mset a (fst p) (snd p) (RRef r0 c0 r1 c1)) ps m.
Proof.
  induction ps as [|[r c] ps IH]; intros m d; cbn [fold_left fst snd]; [reflexivity|]. apply IH.
Qed.

(* after merging R = (r0,c0)-(r1,c1): the top-left is the anchor with R's size, every other position of R refers to R,
   every position outside R keeps whatever it had *)
Theorem merge_map_lemma t r0 c0 r1 c1 t' : merge_cells t r0 c0 r1 c1 = Ok t' ->
  forall r c,
  mget (merges t') r c =
    if existsb (fun p => (r =? fst p) && (c =? snd p)) (rect_cells r0 c0 r1 c1) then Some (RRef r0 c0 r1 c1)
    else if (r =? r0) && (c =? c0) then Some (RAnchor (r1 - r0 + 1) (c1 - c0 + 1))
    else mget (merges t) r c.
Proof.
  unfold merge_cells. fold (rect_cells r0 c0 r1 c1).
  destruct (existsb _ (rect_cells r0 c0 r1 c1)); [discriminate|].
  destruct (fold_left _ (rect_cells r0 c0 r1 c1) _) as [m1 d1] eqn:E.
  intros H. injection H as <-. cbn [merges]. intros r c.
  assert (Em : m1 = fold_left (fun a p => mset a (fst p) (snd p) (RRef r0 c0 r1 c1)) (rect_cells r0 c0 r1 c1)
                              (mset (merges t) r0 c0 (RAnchor (r1 - r0 + 1) (c1 - c0 + 1)))).
  { rewrite <- (fold_step_fst r0 c0 r1 c1 (rect_cells r0 c0 r1 c1) _ (data t)).
    apply (f_equal fst) in E. cbn [fst] in E. rewrite <- E. reflexivity. }
  rewrite Em, mget_fold_refs, mget_mset. reflexivity.
Qed.

(* appending rows below every merged rectangle leaves the merge map and all existing cells exactly as they were *)
From NP Require Import Proofs.GridP.
Theorem append_rows_keeps_merges t n t' : wf t -> add_row t n None None = Ok t' ->
  merges t' = merges t /\ firstn (length (data t)) (data t') = data t.
Proof.
  intros (A & B & C). unfold add_row. intros H. injection H as <-. cbn [merges data]. split; [reflexivity|].
  set (rows := map _ (zrange (nrows t) (nrows t + n))).
  assert (EX : insert_at (data t) (nrows t) rows = data t ++ rows).
  { rewrite A. apply insert_at_end. }
  rewrite EX. unfold renum_from. rewrite A, Nat2Z.id.
  assert (EF : firstn (length (data t)) (data t ++ rows) = data t).
  { rewrite firstn_app, firstn_all, Nat.sub_diag. cbn [firstn]. apply app_nil_r. }
  rewrite EF. rewrite firstn_app, firstn_all, Nat.sub_diag. cbn [firstn]. apply app_nil_r.
Qed.
