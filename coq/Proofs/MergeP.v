(* Proofs about merges in Model/Grid.v: the merge map after merge_cells, its save/reload packing. *)
From Coq Require Import ZArith NArith List Bool Lia.
From NP Require Import Model.PyBase Model.Grid.
Import ListNotations.
Open Scope Z_scope.

Lemma mget_mset m r c v r' c' :
  mget (mset m r c v) r' c' = if (r' =? r) && (c' =? c) then Some v else mget m r' c'.
Proof.
  induction m as [|[[a b] w] m IH]; cbn [mset mget].
  - reflexivity.
  - destruct ((r =? a) && (c =? b)) eqn:E; cbn [mget].
    + apply andb_prop in E as [E1 E2]. apply Z.eqb_eq in E1, E2. subst a b.
      destruct ((r' =? r) && (c' =? c)); reflexivity.
    + rewrite IH. destruct ((r' =? a) && (c' =? b)) eqn:E2; [|reflexivity].
      apply andb_prop in E2 as [A B]. apply Z.eqb_eq in A, B. subst a b.
      destruct ((r' =? r) && (c' =? c)) eqn:E3; [|reflexivity].
      apply andb_prop in E3 as [A B]. apply Z.eqb_eq in A, B. subst. rewrite !Z.eqb_refl in E. discriminate.
Qed.

(* the map after a fold of add_reference over a list of positions *)
Lemma mget_fold_refs rect : forall ps m r c,
  mget (fold_left (fun a p => mset a (fst p) (snd p) rect) ps m) r c =
  if existsb (fun p => (r =? fst p) && (c =? snd p)) ps then Some rect else mget m r c.
Proof.
  induction ps as [|[pr pc] ps IH]; intros m r c; cbn [fold_left existsb fst snd]; [reflexivity|].
  rewrite IH, mget_mset.
  destruct (existsb (fun p => (r =? fst p) && (c =? snd p)) ps); [now rewrite orb_true_r|].
  rewrite orb_false_r. reflexivity.
Qed.

(* ---------- 16-bit packing of the saved merge map ---------- *)
Lemma pack16_unpack hi lo : 0 <= lo < 65536 -> 0 <= hi ->
  Z.shiftr (pack16 hi lo) 16 = hi /\ Z.land (pack16 hi lo) 65535 = lo.
Proof.
  intros Hlo Hhi. unfold pack16. split.
  - rewrite Z.shiftr_lor. rewrite Z.shiftr_shiftl_l by lia. cbn [Z.sub Z.pos_sub Z.opp]. rewrite Z.shiftl_0_r.
    rewrite (Z.shiftr_div_pow2 lo 16) by lia. change (2 ^ 16) with 65536.
    rewrite Z.div_small by lia. apply Z.lor_0_r.
  - change 65535 with (Z.ones 16). rewrite Z.land_lor_distr_l, !Z.land_ones by lia.
    rewrite Z.shiftl_mul_pow2 by lia. rewrite Z.mod_mul by (change (2 ^ 16) with 65536; lia).
    change (2 ^ 16) with 65536. rewrite Z.mod_small by lia. apply Z.lor_0_l.
Qed.

(* one anchor: what is saved reloads as the same rectangle, while rows and sizes fit 16 bits *)
Theorem merge_reload_lemma r c h w :
  0 <= r < 65536 -> 0 <= c -> 0 <= h < 65536 -> 0 <= w ->
  forall rr cc,
  mget (reload_merges [((r, c), RAnchor h w)]) rr cc =
  if (rr =? r) && (cc =? c) then Some (RAnchor h w)
  else if existsb (fun p => (rr =? fst p) && (cc =? snd p))
                  (flat_map (fun x => map (fun y => (x, y)) (zrange c (c + w - 1 + 1))) (zrange r (r + h - 1 + 1)))
       then Some (RRef r c (r + h - 1) (c + w - 1)) else None.
Proof.
  intros Hr Hc Hh Hw rr cc. unfold reload_merges. cbn [fold_left].
  destruct (pack16_unpack c r Hr Hc) as [E1 E2]. destruct (pack16_unpack w h Hh Hw) as [E3 E4].
  rewrite E1, E2, E3, E4. rewrite mget_mset.
  destruct ((rr =? r) && (cc =? c)); [reflexivity|].
  rewrite mget_fold_refs. reflexivity.
Qed.

(* ---------- the merge map after merge_cells ---------- *)
Definition rect_cells (r0 c0 r1 c1 : Z) : list (Z * Z) :=
  filter (fun p => negb ((fst p =? r0) && (snd p =? c0)))
         (flat_map (fun r => map (fun c => (r, c)) (zrange c0 (c1 + 1))) (zrange r0 (r1 + 1))).

Lemma fold_step_fst (r0 c0 r1 c1 : Z) : forall ps m d,
  fst (fold_left (fun (st : mmap * list (list cell)) (p : Z * Z) =>
         let '(r, c) := p in
         (mset (fst st) r c (RRef r0 c0 r1 c1), set_cell (snd st) r c (merged_cell (fst st) r c))) ps (m, d))
  = fold_left (fun a p => mset a (fst p) (snd p) (RRef r0 c0 r1 c1)) ps m.
Proof.
  induction ps as [|[r c] ps IH]; intros m d; cbn [fold_left fst snd]; [reflexivity|]. apply IH.
Qed.

(* after merging R = (r0,c0)-(r1,c1): the top-left is the anchor with R's size, every other position of R refers to R,
   every position outside R keeps whatever it had *)
Theorem merge_map_lemma t r0 c0 r1 c1 t' : merge_cells t r0 c0 r1 c1 = Ok t' ->
  forall r c,
  mget (merges t') r c =
    if existsb (fun p => (r =? fst p) && (c =? snd p)) (rect_cells r0 c0 r1 c1) then Some (RRef r0 c0 r1 c1)
    else if (r =? r0) && (c =? c0) then Some (RAnchor (r1 - r0 + 1) (c1 - c0 + 1))
    else mget (merges t) r c.
Proof.
  unfold merge_cells. fold (rect_cells r0 c0 r1 c1).
  destruct (existsb _ (rect_cells r0 c0 r1 c1)); [discriminate|].
  destruct (fold_left _ (rect_cells r0 c0 r1 c1) _) as [m1 d1] eqn:E.
  intros H. injection H as <-. cbn [merges]. intros r c.
  assert (Em : m1 = fold_left (fun a p => mset a (fst p) (snd p) (RRef r0 c0 r1 c1)) (rect_cells r0 c0 r1 c1)
                              (mset (merges t) r0 c0 (RAnchor (r1 - r0 + 1) (c1 - c0 + 1)))).
  { rewrite <- (fold_step_fst r0 c0 r1 c1 (rect_cells r0 c0 r1 c1) _ (data t)).
    apply (f_equal fst) in E. cbn [fst] in E. rewrite <- E. reflexivity. }
  rewrite Em, mget_fold_refs, mget_mset. reflexivity.
Qed.

(* appending rows below every merged rectangle leaves the merge map and all existing cells exactly as they were *)
From NP Require Import Proofs.GridP.
Theorem append_rows_keeps_merges t n t' : wf t -> add_row t n None None = Ok t' ->
  merges t' = merges t /\ firstn (length (data t)) (data t') = data t.
Proof.
  intros (A & B & C). unfold add_row. intros H. injection H as <-. cbn [merges data]. split; [reflexivity|].
  set (rows := map _ (zrange (nrows t) (nrows t + n))).
  assert (EX : insert_at (data t) (nrows t) rows = data t ++ rows).
  { rewrite A. apply insert_at_end. }
  rewrite EX. unfold renum_from. rewrite A, Nat2Z.id.
  assert (EF : firstn (length (data t)) (data t ++ rows) = data t).
  { rewrite firstn_app, firstn_all, Nat.sub_diag. cbn [firstn]. apply app_nil_r. }
  rewrite EF. rewrite firstn_app, firstn_all, Nat.sub_diag. cbn [firstn]. apply app_nil_r.
Qed.

(* ---------- the picture at cell level ---------- *)
Lemma nth_error_zrange a b i : (i < Z.to_nat (b - a))%nat -> nth_error (zrange a b) i = Some (a + Z.of_nat i).
Proof.
  intros H. unfold zrange. rewrite nth_error_map.
  assert (E : nth_error (seq 0 (Z.to_nat (b - a))) i = Some i).
  { rewrite (nth_error_nth' (seq 0 (Z.to_nat (b - a))) 0%nat) by (now rewrite seq_length).
    now rewrite seq_nth. }
  now rewrite E.
Qed.

Lemma nth_error_combine {A B} : forall (l1 : list A) (l2 : list B) i a b,
  nth_error l1 i = Some a -> nth_error l2 i = Some b -> nth_error (combine l1 l2) i = Some (a, b).
Proof.
  induction l1 as [|x l1 IH]; intros [|y l2] [|i] a b H1 H2; try discriminate; cbn in *.
  - now injection H1 as ->; injection H2 as ->.
  - now apply IH.
Qed.

Lemma nth_error_indexed {A B} (f : Z * A -> B) (l : list A) i x :
  nth_error l i = Some x ->
  nth_error (map f (combine (zrange 0 (Z.of_nat (length l))) l)) i = Some (f (Z.of_nat i, x)).
Proof.
  intros H. rewrite nth_error_map.
  assert (Hi : (i < length l)%nat) by (apply nth_error_Some; congruence).
  rewrite (nth_error_combine _ _ i (0 + Z.of_nat i) x); [reflexivity| |assumption].
  apply nth_error_zrange. lia.
Qed.

Definition with_attr (m : mmap) (r c : Z) (x : cell) : cell :=
  {| crow := crow x; ccol := ccol x; cval := cval x; cplace := cplace x; cmerge := attr_of (mget m r c) |}.

Lemma get_cell_refresh m d r c x : 0 <= r -> 0 <= c -> get_cell d r c = Some x ->
  get_cell (refresh m d) r c = Some (with_attr m r c x).
Proof.
  intros Hr Hc. unfold get_cell, refresh.
  destruct (nth_error d (Z.to_nat r)) as [row|] eqn:Er; [|discriminate]. intros Hx.
  rewrite (nth_error_indexed _ d (Z.to_nat r) row Er). cbn [fst snd].
  rewrite (nth_error_indexed _ row (Z.to_nat c) x Hx). cbn [fst snd]. unfold with_attr.
  now replace (Z.of_nat (Z.to_nat r)) with r by lia; replace (Z.of_nat (Z.to_nat c)) with c by lia.
Qed.

Lemma nth_error_set_nth_eq {A} : forall (l : list A) i x, (i < length l)%nat -> nth_error (set_nth l i x) i = Some x.
Proof. induction l as [|h t IH]; intros [|i] x H; cbn in *; try lia; [reflexivity|apply IH; lia]. Qed.
Lemma nth_error_set_nth_neq {A} : forall (l : list A) i j x, i <> j -> nth_error (set_nth l i x) j = nth_error l j.
Proof. exact (@set_nth_other A). Qed.

Lemma get_set_cell_same d r c x y : 0 <= r -> 0 <= c -> get_cell d r c = Some y -> get_cell (set_cell d r c x) r c = Some x.
Proof.
  intros Hr Hc. unfold get_cell, set_cell.
  destruct (nth_error d (Z.to_nat r)) as [row|] eqn:Er; [|discriminate]. intros Hy.
  rewrite nth_error_set_nth_eq by (apply nth_error_Some; congruence).
  apply nth_error_set_nth_eq. apply nth_error_Some. congruence.
Qed.

Lemma get_set_cell_other d r c x r' c' : 0 <= r -> 0 <= c -> 0 <= r' -> 0 <= c' -> (r, c) <> (r', c') ->
  get_cell (set_cell d r c x) r' c' = get_cell d r' c'.
Proof.
  intros Hr Hc Hr' Hc' Hne. unfold get_cell, set_cell.
  destruct (nth_error d (Z.to_nat r)) as [row|] eqn:Er; [|reflexivity].
  destruct (Z.eq_dec r r') as [<-|Hrr].
  - rewrite nth_error_set_nth_eq by (apply nth_error_Some; congruence). rewrite Er.
    apply nth_error_set_nth_neq. intros E. apply Hne. f_equal. lia.
  - rewrite nth_error_set_nth_neq by lia. reflexivity.
Qed.

(* the data after the placeholder loop *)
Lemma fold_step_data (r0 c0 r1 c1 : Z) : forall ps m d r c,
  Forall (fun p => 0 <= fst p /\ 0 <= snd p) ps -> 0 <= r -> 0 <= c ->
  (forall p, In p ps -> exists y, get_cell d (fst p) (snd p) = Some y) ->
  let d' := snd (fold_left (fun (st : mmap * list (list cell)) (p : Z * Z) =>
         let '(r, c) := p in
         (mset (fst st) r c (RRef r0 c0 r1 c1), set_cell (snd st) r c (merged_cell (fst st) r c))) ps (m, d)) in
  (existsb (fun p => (r =? fst p) && (c =? snd p)) ps = false -> get_cell d' r c = get_cell d r c) /\
  (existsb (fun p => (r =? fst p) && (c =? snd p)) ps = true ->
     exists x, get_cell d' r c = Some x /\ cplace x = true /\ cval x = None).
Proof.
  induction ps as [|[pr pc] ps IH]; intros m d r c HF Hr Hc Hin; cbn [fold_left existsb fst snd].
  - split; [reflexivity|discriminate].
  - pose proof (Forall_inv HF) as [Hpr Hpc]. cbn [fst snd] in Hpr, Hpc.
    destruct (Hin (pr, pc) (or_introl eq_refl)) as [y0 Hy0]. cbn [fst snd] in Hy0.
    assert (Hin' : forall p, In p ps -> exists y, get_cell (set_cell d pr pc (merged_cell m pr pc)) (fst p) (snd p) = Some y).
    { intros p Hp. destruct (Hin p (or_intror Hp)) as [y Hy].
      pose proof (proj1 (Forall_forall _ _) (Forall_inv_tail HF) p Hp) as [Hp1 Hp2].
      destruct (Z.eq_dec pr (fst p)) as [E1|N1]; [destruct (Z.eq_dec pc (snd p)) as [E2|N2]|].
      - rewrite <- E1, <- E2. eexists. eapply get_set_cell_same; eauto.
      - rewrite get_set_cell_other; eauto. intros E. injection E. lia.
      - rewrite get_set_cell_other; eauto. intros E. injection E. lia. }
    specialize (IH (mset m pr pc (RRef r0 c0 r1 c1)) (set_cell d pr pc (merged_cell m pr pc)) r c (Forall_inv_tail HF) Hr Hc Hin').
    cbv zeta in IH. destruct IH as [IH1 IH2].
    destruct ((r =? pr) && (c =? pc)) eqn:E; cbn [orb].
    + apply andb_prop in E as [E1 E2]. apply Z.eqb_eq in E1, E2. subst pr pc.
      split; [discriminate|]. intros _.
      destruct (existsb (fun p => (r =? fst p) && (c =? snd p)) ps) eqn:Ex.
      * exact (IH2 eq_refl).
      * rewrite (IH1 eq_refl). eexists. split; [eapply get_set_cell_same; eauto|]. split; reflexivity.
    + split.
      * intros Ex. rewrite (IH1 Ex). apply get_set_cell_other; try assumption.
        intros Eq. injection Eq as -> ->. rewrite !Z.eqb_refl in E. discriminate.
      * exact IH2.
Qed.

Lemma rect_cells_nonneg r0 c0 r1 c1 : 0 <= r0 -> 0 <= c0 -> Forall (fun p => 0 <= fst p /\ 0 <= snd p) (rect_cells r0 c0 r1 c1).
Proof.
  intros Hr Hc. unfold rect_cells. apply Forall_forall. intros [r c] Hin.
  apply filter_In in Hin as [Hin _]. apply in_flat_map in Hin as (r' & Hr' & Hin).
  apply in_map_iff in Hin as (c' & E & Hc'). injection E as <- <-. cbn [fst snd].
  unfold zrange in *. apply in_map_iff in Hr' as (i & <- & _). apply in_map_iff in Hc' as (j & <- & _). lia.
Qed.

(* after merging, every cell of the table: merge attributes are the map's entry for its position; the cells of the
   rectangle other than the anchor are value-less placeholders; every other cell keeps its class, value and position *)
Theorem merge_picture_lemma t r0 c0 r1 c1 t' : 0 <= r0 -> 0 <= c0 -> merge_cells t r0 c0 r1 c1 = Ok t' ->
  forall r c x, 0 <= r -> 0 <= c -> get_cell (data t) r c = Some x ->
  exists x', get_cell (data t') r c = Some x' /\ cmerge x' = attr_of (mget (merges t') r c) /\
    (if existsb (fun p => (r =? fst p) && (c =? snd p)) (rect_cells r0 c0 r1 c1)
     then cplace x' = true /\ cval x' = None
     else cplace x' = cplace x /\ cval x' = cval x /\ crow x' = crow x /\ ccol x' = ccol x).
Proof.
  intros Hr0 Hc0. unfold merge_cells. fold (rect_cells r0 c0 r1 c1).
  destruct (existsb (fun p => match get_cell (data t) (fst p) (snd p) with None => true | Some _ => false end)
                    (rect_cells r0 c0 r1 c1)) eqn:Ein; [discriminate|].
  destruct (fold_left _ (rect_cells r0 c0 r1 c1) _) as [m1 d1] eqn:E.
  intros H. injection H as <-. cbn [data merges]. intros r c x Hr Hc Hx.
  assert (Hall : forall p, In p (rect_cells r0 c0 r1 c1) -> exists y, get_cell (data t) (fst p) (snd p) = Some y).
  { intros p Hp. pose proof (proj1 (existsb_false_iff _ _) Ein) as HF || idtac.
    destruct (get_cell (data t) (fst p) (snd p)) as [y|] eqn:Ey; [eauto|].
    exfalso. assert (existsb (fun p => match get_cell (data t) (fst p) (snd p) with None => true | Some _ => false end)
                             (rect_cells r0 c0 r1 c1) = true).
    { apply existsb_exists. exists p. split; [assumption|]. now rewrite Ey. }
    congruence. }
  pose proof (fold_step_data r0 c0 r1 c1 (rect_cells r0 c0 r1 c1)
                (mset (merges t) r0 c0 (RAnchor (r1 - r0 + 1) (c1 - c0 + 1))) (data t) r c
                (rect_cells_nonneg r0 c0 r1 c1 Hr0 Hc0) Hr Hc Hall) as FD.
  cbv zeta in FD. rewrite E in FD. cbn [snd] in FD. destruct FD as [FD1 FD2].
  destruct (existsb (fun p => (r =? fst p) && (c =? snd p)) (rect_cells r0 c0 r1 c1)) eqn:Ex.
  - destruct (FD2 eq_refl) as (y & Hy & Hp & Hv).
    exists (with_attr m1 r c y). split; [now apply get_cell_refresh|]. split; [reflexivity|]. split; assumption.
  - rewrite <- (FD1 eq_refl) in Hx.
    exists (with_attr m1 r c x). split; [now apply get_cell_refresh|]. split; [reflexivity|]. repeat split.
Qed.
