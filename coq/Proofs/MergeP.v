(* Proofs about merges in Model/Grid.v: the merge map after merge_cells, its save/reload packing. *)
From Coq Require Import ZArith NArith List Bool Lia.
From NP Require Import Model.PyBase Model.Grid.
Import ListNotations.
Open Scope Z_scope.

Lemma mget_mset m r c v r' c' :
  mget (mset m r c v) r' c' = if (r' =? r) && (c' =? c) then Some v else mget m r' c'.
Proof.
  induction m as [|[[a b] w] m IH]; cbn [mset mget].
  - reflexivity.
  - destruct ((r =? a) && (c =? b)) eqn:E; cbn [mget].
    + apply andb_prop in E as [E1 E2]. apply Z.eqb_eq in E1, E2. subst a b.
      destruct ((r' =? r) && (c' =? c)); reflexivity.
    + rewrite IH. destruct ((r' =? a) && (c' =? b)) eqn:E2; [|reflexivity].
      apply andb_prop in E2 as [A B]. apply Z.eqb_eq in A, B. subst a b.
      destruct ((r' =? r) && (c' =? c)) eqn:E3; [|reflexivity].
      apply andb_prop in E3 as [A B]. apply Z.eqb_eq in A, B. subst. rewrite !Z.eqb_refl in E. discriminate.
Qed.

(* the map after a fold of add_reference over a list of positions *)
Lemma mget_fold_refs rect : forall ps m r c,
  mget (fold_left (fun a p => mset a (fst p) (snd p) rect) ps m) r c =
  if existsb (fun p => (r =? fst p) && (c =? snd p)) ps then Some rect else mget m r c.
Proof.
  induction ps as [|[pr pc] ps IH]; intros m r c; cbn [fold_left existsb fst snd]; [reflexivity|].
  rewrite IH, mget_mset.
  destruct (existsb (fun p => (r =? fst p) && (c =? snd p)) ps); [now rewrite orb_true_r|].
  rewrite orb_false_r. reflexivity.
Qed.

(* ---------- 16-bit packing of the saved merge map ---------- *)
Lemma pack16_unpack hi lo : 0 <= lo < 65536 -> 0 <= hi ->
  Z.shiftr (pack16 hi lo) 16 = hi /\ Z.land (pack16 hi lo) 65535 = lo.
Proof.
  intros Hlo Hhi. unfold pack16. split.
  - rewrite Z.shiftr_lor. rewrite Z.shiftr_shiftl_l by lia. cbn [Z.sub Z.pos_sub Z.opp]. rewrite Z.shiftl_0_r.
    rewrite (Z.shiftr_div_pow2 lo 16) by lia. change (2 ^ 16) with 65536.
    rewrite Z.div_small by lia. apply Z.lor_0_r.
  - change 65535 with (Z.ones 16). rewrite Z.land_lor_distr_l, !Z.land_ones by lia.
    rewrite Z.shiftl_mul_pow2 by lia. rewrite Z.mod_mul by (change (2 ^ 16) with 65536; lia).
    change (2 ^ 16) with 65536. rewrite Z.mod_small by lia. apply Z.lor_0_l.
Qed.

(* one anchor: what is saved reloads as the same rectangle, while rows and sizes fit 16 bits *)
Theorem merge_reload_lemma r c h w :
  0 <= r < 65536 -> 0 <= c -> 0 <= h < 65536 -> 0 <= w ->
  forall rr cc,
  mget (reload_merges [((r, c), RAnchor h w)]) rr cc =
  if (rr =? r) && (cc =? c) then Some (RAnchor h w)
  else if existsb (fun p => (rr =? fst p) && (cc =? snd p))
                  (flat_map (fun x => map (fun y => (x, y)) (zrange c (c + w - 1 + 1))) (zrange r (r + h - 1 + 1)))
       then Some (RRef r c (r + h - 1) (c + w - 1)) else None.
Proof.
  intros Hr Hc Hh Hw rr cc. unfold reload_merges. cbn [fold_left].
  destruct (pack16_unpack c r Hr Hc) as [E1 E2]. destruct (pack16_unpack w h Hh Hw) as [E3 E4].
  rewrite E1, E2, E3, E4. rewrite mget_mset.
  destruct ((rr =? r) && (cc =? c)); [reflexivity|].
  rewrite mget_fold_refs. reflexivity.
Qed.

(* ---------- the merge map after merge_cells ---------- *)
Definition rect_cells (r0 c0 r1 c1 : Z) : list (Z * Z) :=
  filter (fun p => negb ((fst p =? r0) && (snd p =? c0)))
         (flat_map (fun r => map (fun c => (r, c)) (zrange c0 (c1 + 1))) (zrange r0 (r1 + 1))).

Lemma fold_step_fst (r0 c0 r1 c1 : Z) : forall ps m d,
  fst (fold_left (fun (st : mmap * list (list cell)) (p : Z * Z) =>
         let '(r, c) := p in
         (mset (fst st) r c (RRef r0 c0 r1 c1), set_cell (snd st) r c (merged_cell (fst st) r c))) ps (m, d))
  = fold_left (fun a p => mset a (fst p) (snd p) (RRef r0 c0 r1 c1)) ps m.
Proof.
  induction ps as [|[r c] ps IH]; intros m d; cbn [fold_left fst snd]; [reflexivity|]. apply IH.
Qed.

(* after merging R = (r0,c0)-(r1,c1): the top-left is the anchor with R's size, every other position of R refers to R,
   every position outside R keeps whatever it had *)
Theorem merge_map_lemma t r0 c0 r1 c1 t' : merge_cells t r0 c0 r1 c1 = Ok t' ->
  forall r c,
  mget (merges t') r c =
    if existsb (fun p => (r =? fst p) && (c =? snd p)) (rect_cells r0 c0 r1 c1) then Some (RRef r0 c0 r1 c1)
    else if (r =? r0) && (c =? c0) then Some (RAnchor (r1 - r0 + 1) (c1 - c0 + 1))
    else mget (merges t) r c.
Proof.
  unfold merge_cells. fold (rect_cells r0 c0 r1 c1).
  destruct (existsb _ (rect_cells r0 c0 r1 c1)); [discriminate|].
  destruct (fold_left _ (rect_cells r0 c0 r1 c1) _) as [m1 d1] eqn:E.
  intros H. injection H as <-. cbn [merges]. intros r c.
  assert (Em : m1 = fold_left (fun a p => mset a (fst p) (snd p) (RRef r0 c0 r1 c1)) (rect_cells r0 c0 r1 c1)
                              (mset (merges t) r0 c0 (RAnchor (r1 - r0 + 1) (c1 - c0 + 1)))).
  { rewrite <- (fold_step_fst r0 c0 r1 c1 (rect_cells r0 c0 r1 c1) _ (data t)).
    apply (f_equal fst) in E. cbn [fst] in E. rewrite <- E. reflexivity. }
  rewrite Em, mget_fold_refs, mget_mset. reflexivity.
Qed.

(* appending rows below every merged rectangle leaves the merge map and all existing cells exactly as they were *)
From NP Require Import Proofs.GridP.
Theorem append_rows_keeps_merges t n t' : wf t -> add_row t n None None = Ok t' ->
  merges t' = merges t /\ firstn (length (data t)) (data t') = data t.
Proof.
  intros (A & B & C). unfold add_row. intros H. injection H as <-. cbn [merges data]. split; [reflexivity|].
  set (rows := map _ (zrange (nrows t) (nrows t + n))).
  assert (EX : insert_at (data t) (nrows t) rows = data t ++ rows).
  { rewrite A. apply insert_at_end. }
  rewrite EX. unfold renum_from. rewrite A, Nat2Z.id.
  assert (EF : firstn (length (data t)) (data t ++ rows) = data t).
  { rewrite firstn_app, firstn_all, Nat.sub_diag. cbn [firstn]. apply app_nil_r. }
  rewrite EF. rewrite firstn_app, firstn_all, Nat.sub_diag. cbn [firstn]. apply app_nil_r.
Qed.

(* ---------- the picture at cell level ---------- *)
Lemma nth_error_zrange a b i : (i < Z.to_nat (b - a))%nat -> nth_error (zrange a b) i = Some (a + Z.of_nat i).
Proof.
  intros H. unfold zrange. rewrite nth_error_map.
  assert (E : nth_error (seq 0 (Z.to_nat (b - a))) i = Some i).
  { rewrite (nth_error_nth' (seq 0 (Z.to_nat (b - a))) 0%nat) by (now rewrite seq_length).
    now rewrite seq_nth. }
  now rewrite E.
Qed.

Lemma nth_error_combine {A B} : forall (l1 : list A) (l2 : list B) i a b,
  nth_error l1 i = Some a -> nth_error l2 i = Some b -> nth_error (combine l1 l2) i = Some (a, b).
Proof.
  induction l1 as [|x l1 IH]; intros [|y l2] [|i] a b H1 H2; try discriminate; cbn in *.
  - now injection H1 as ->; injection H2 as ->.
  - now apply IH.
Qed.

Lemma nth_error_indexed {A B} (f : Z * A -> B) (l : list A) i x :
  nth_error l i = Some x ->
  nth_error (map f (combine (zrange 0 (Z.of_nat (length l))) l)) i = Some (f (Z.of_nat i, x)).
Proof.
  intros H. rewrite nth_error_map.
  assert (Hi : (i < length l)%nat) by (apply nth_error_Some; congruence).
  rewrite (nth_error_combine _ _ i (0 + Z.of_nat i) x); [reflexivity| |assumption].
  apply nth_error_zrange. lia.
Qed.

Definition with_attr (m : mmap) (r c : Z) (x : cell) : cell :=
  {| crow := crow x; ccol := ccol x; cval := cval x; cplace := cplace x; cmerge := attr_of (mget m r c) |}.

Lemma get_cell_refresh m d r c x : 0 <= r -> 0 <= c -> get_cell d r c = Some x ->
  get_cell (refresh m d) r c = Some (with_attr m r c x).
Proof.
  intros Hr Hc. unfold get_cell, refresh.
  destruct (nth_error d (Z.to_nat r)) as [row|] eqn:Er; [|discriminate]. intros Hx.
  rewrite (nth_error_indexed _ d (Z.to_nat r) row Er). cbn [fst snd].
  rewrite (nth_error_indexed _ row (Z.to_nat c) x Hx). cbn [fst snd]. unfold with_attr.
  now replace (Z.of_nat (Z.to_nat r)) with r by lia; replace (Z.of_nat (Z.to_nat c)) with c by lia.
Qed.

Lemma nth_error_set_nth_eq {A} : forall (l : list A) i x, (i < length l)%nat -> nth_error (set_nth l i x) i = Some x.
Proof. induction l as [|h t IH]; intros [|i] x H; cbn in *; try lia; [reflexivity|apply IH; lia]. Qed.
Lemma nth_error_set_nth_neq {A} : forall (l : list A) i j x, i <> j -> nth_error (set_nth l i x) j = nth_error l j.
Proof. exact (@set_nth_other A). Qed.

Lemma get_set_cell_same d r c x y : 0 <= r -> 0 <= c -> get_cell d r c = Some y -> get_cell (set_cell d r c x) r c = Some x.
Proof.
  intros Hr Hc. unfold get_cell, set_cell.
  destruct (nth_error d (Z.to_nat r)) as [row|] eqn:Er; [|discriminate]. intros Hy.
  rewrite nth_error_set_nth_eq by (apply nth_error_Some; congruence).
  apply nth_error_set_nth_eq. apply nth_error_Some. congruence.
Qed.

Lemma get_set_cell_other d r c x r' c' : 0 <= r -> 0 <= c -> 0 <= r' -> 0 <= c' -> (r, c) <> (r', c') ->
  get_cell (set_cell d r c x) r' c' = get_cell d r' c'.
Proof.
  intros Hr Hc Hr' Hc' Hne. unfold get_cell, set_cell.
  destruct (nth_error d (Z.to_nat r)) as [row|] eqn:Er; [|reflexivity].
  destruct (Z.eq_dec r r') as [<-|Hrr].
  - rewrite nth_error_set_nth_eq by (apply nth_error_Some; congruence). rewrite Er.
    apply nth_error_set_nth_neq. intros E. apply Hne. f_equal. lia.
  - rewrite nth_error_set_nth_neq by lia. reflexivity.
Qed.

(* the data after the placeholder loop *)
Lemma fold_step_data (r0 c0 r1 c1 : Z) : forall ps m d r c,
  Forall (fun p => 0 <= fst p /\ 0 <= snd p) ps -> 0 <= r -> 0 <= c ->
  (forall p, In p ps -> exists y, get_cell d (fst p) (snd p) = Some y) ->
  let d' := snd (fold_left (fun (st : mmap * list (list cell)) (p : Z * Z) =>
         let '(r, c) := p in
         (mset (fst st) r c (RRef r0 c0 r1 c1), set_cell (snd st) r c (merged_cell (fst st) r c))) ps (m, d)) in
  (existsb (fun p => (r =? fst p) && (c =? snd p)) ps = false -> get_cell d' r c = get_cell d r c) /\
  (existsb (fun p => (r =? fst p) && (c =? snd p)) ps = true ->
     exists x, get_cell d' r c = Some x /\ cplace x = true /\ cval x = None).
Proof.
  induction ps as [|[pr pc] ps IH]; intros m d r c HF Hr Hc Hin; cbn [fold_left existsb fst snd].
  - split; [reflexivity|discriminate].
  - pose proof (Forall_inv HF) as [Hpr Hpc]. cbn [fst snd] in Hpr, Hpc.
    destruct (Hin (pr, pc) (or_introl eq_refl)) as [y0 Hy0]. cbn [fst snd] in Hy0.
    assert (Hin' : forall p, In p ps -> exists y, get_cell (set_cell d pr pc (merged_cell m pr pc)) (fst p) (snd p) = Some y).
    { intros p Hp. destruct (Hin p (or_intror Hp)) as [y Hy].
      pose proof (proj1 (Forall_forall _ _) (Forall_inv_tail HF) p Hp) as [Hp1 Hp2].
      destruct (Z.eq_dec pr (fst p)) as [E1|N1]; [destruct (Z.eq_dec pc (snd p)) as [E2|N2]|].
      - rewrite <- E1, <- E2. eexists. eapply get_set_cell_same; eauto.
      - rewrite get_set_cell_other; eauto. intros E. injection E. lia.
      - rewrite get_set_cell_other; eauto. intros E. injection E. lia. }
    specialize (IH (mset m pr pc (RRef r0 c0 r1 c1)) (set_cell d pr pc (merged_cell m pr pc)) r c (Forall_inv_tail HF) Hr Hc Hin').
    cbv zeta in IH. destruct IH as [IH1 IH2].
    destruct ((r =? pr) && (c =? pc)) eqn:E; cbn [orb].
    + apply andb_prop in E as [E1 E2]. apply Z.eqb_eq in E1, E2. subst pr pc.
      split; [discriminate|]. intros _.
      destruct (existsb (fun p => (r =? fst p) && (c =? snd p)) ps) eqn:Ex.
      * exact (IH2 eq_refl).
      * rewrite (IH1 eq_refl). eexists. split; [eapply get_set_cell_same; eauto|]. split; reflexivity.
    + split.
      * intros Ex. rewrite (IH1 Ex). apply get_set_cell_other; try assumption.
        intros Eq. injection Eq as -> ->. rewrite !Z.eqb_refl in E. discriminate.
      * exact IH2.
Qed.

Lemma rect_cells_nonneg r0 c0 r1 c1 : 0 <= r0 -> 0 <= c0 -> Forall (fun p => 0 <= fst p /\ 0 <= snd p) (rect_cells r0 c0 r1 c1).
Proof.
  intros Hr Hc. unfold rect_cells. apply Forall_forall. intros [r c] Hin.
  apply filter_In in Hin as [Hin _]. apply in_flat_map in Hin as (r' & Hr' & Hin).
  apply in_map_iff in Hin as (c' & E & Hc'). injection E as <- <-. cbn [fst snd].
  unfold zrange in *. apply in_map_iff in Hr' as (i & <- & _). apply in_map_iff in Hc' as (j & <- & _). lia.
Qed.

(* after merging, every cell of the table: merge attributes are the map's entry for its position; the cells of the
   rectangle other than the anchor are value-less placeholders; every other cell keeps its class, value and position *)
Theorem merge_picture_lemma t r0 c0 r1 c1 t' : 0 <= r0 -> 0 <= c0 -> merge_cells t r0 c0 r1 c1 = Ok t' ->
  forall r c x, 0 <= r -> 0 <= c -> get_cell (data t) r c = Some x ->
  exists x', get_cell (data t') r c = Some x' /\ cmerge x' = attr_of (mget (merges t') r c) /\
    (if existsb (fun p => (r =? fst p) && (c =? snd p)) (rect_cells r0 c0 r1 c1)
     then cplace x' = true /\ cval x' = None
     else cplace x' = cplace x /\ cval x' = cval x /\ crow x' = crow x /\ ccol x' = ccol x).
Proof.
  intros Hr0 Hc0. unfold merge_cells. fold (rect_cells r0 c0 r1 c1).
  destruct (existsb (fun p => match get_cell (data t) (fst p) (snd p) with None => true | Some _ => false end)
                    (rect_cells r0 c0 r1 c1)) eqn:Ein; [discriminate|].
  destruct (fold_left _ (rect_cells r0 c0 r1 c1) _) as [m1 d1] eqn:E.
  intros H. injection H as <-. cbn [data merges]. intros r c x Hr Hc Hx.
  assert (Hall : forall p, In p (rect_cells r0 c0 r1 c1) -> exists y, get_cell (data t) (fst p) (snd p) = Some y).
  { intros p Hp. pose proof (proj1 (existsb_false_iff _ _) Ein) as HF || idtac.
    destruct (get_cell (data t) (fst p) (snd p)) as [y|] eqn:Ey; [eauto|].
    exfalso. assert (existsb (fun p => match get_cell (data t) (fst p) (snd p) with None => true | Some _ => false end)
                             (rect_cells r0 c0 r1 c1) = true).
    { apply existsb_exists. exists p. split; [assumption|]. now rewrite Ey. }
    congruence. }
  pose proof (fold_step_data r0 c0 r1 c1 (rect_cells r0 c0 r1 c1)
                (mset (merges t) r0 c0 (RAnchor (r1 - r0 + 1) (c1 - c0 + 1))) (data t) r c
                (rect_cells_nonneg r0 c0 r1 c1 Hr0 Hc0) Hr Hc Hall) as FD.
  cbv zeta in FD. rewrite E in FD. cbn [snd] in FD. destruct FD as [FD1 FD2].
  destruct (existsb (fun p => (r =? fst p) && (c =? snd p)) (rect_cells r0 c0 r1 c1)) eqn:Ex.
  - destruct (FD2 eq_refl) as (y & Hy & Hp & Hv).
    exists (with_attr m1 r c y). split; [now apply get_cell_refresh|]. split; [reflexivity|]. split; assumption.
  - rewrite <- (FD1 eq_refl) in Hx.
    exists (with_attr m1 r c x). split; [now apply get_cell_refresh|]. split; [reflexivity|]. repeat split.
Qed.

(* ---------- merge_ranges lists exactly the anchors ---------- *)
Lemma in_zrange_iff a b z : In z (zrange a b) <-> a <= z < b.
Proof.
  unfold zrange. rewrite in_map_iff. split.
  - intros (i & <- & Hi). apply in_seq in Hi. lia.
  - intros H. exists (Z.to_nat (z - a)). split; [lia|]. apply in_seq. lia.
Qed.

Lemma in_combine_zrange {A} (l : list A) z x :
  In (z, x) (combine (zrange 0 (Z.of_nat (length l))) l) <-> 0 <= z /\ nth_error l (Z.to_nat z) = Some x.
Proof.
  split.
  - intros H. apply In_nth_error in H as (i & Hi).
    assert (Hlt : (i < length (combine (zrange 0 (Z.of_nat (length l))) l))%nat) by (apply nth_error_Some; congruence).
    rewrite combine_length, zrange_length in Hlt.
    destruct (nth_error l i) as [y|] eqn:Ey; [|apply nth_error_None in Ey; lia].
    rewrite (nth_error_combine _ _ i (0 + Z.of_nat i) y) in Hi; [|apply nth_error_zrange; lia|assumption].
    injection Hi as Hz Hx. subst z x. split; [lia|]. rewrite ?Z.add_0_l, Nat2Z.id. exact Ey.
  - intros [Hz Hn]. apply (nth_error_In _ (Z.to_nat z)).
    assert (Hlt : (Z.to_nat z < length l)%nat) by (apply nth_error_Some; congruence).
    rewrite (nth_error_combine _ _ (Z.to_nat z) (0 + Z.of_nat (Z.to_nat z)) x); [f_equal; f_equal; lia|apply nth_error_zrange; lia|assumption].
Qed.

Theorem merge_ranges_spec t q :
  In q (merge_ranges t) <->
  exists r c x h w, 0 <= r /\ 0 <= c /\ get_cell (data t) r c = Some x /\ cmerge x = MAnchor h w /\
                    q = (r, c, r + h - 1, c + w - 1).
Proof.
  unfold merge_ranges. rewrite in_flat_map. split.
  - intros ([r row] & Hrow & Hq). cbn [fst snd] in Hq. apply in_flat_map in Hq as ([c x] & Hx & Hq). cbn [fst snd] in Hq.
    apply in_combine_zrange in Hrow as [Hr Hrow]. apply in_combine_zrange in Hx as [Hc Hx].
    destruct (cmerge x) as [|h w|] eqn:E; try (destruct Hq; fail).
    destruct Hq as [<-|[]]. exists r, c, x, h, w. repeat split; try assumption.
    unfold get_cell. now rewrite Hrow.
  - intros (r & c & x & h & w & Hr & Hc & Hg & Hm & ->). unfold get_cell in Hg.
    destruct (nth_error (data t) (Z.to_nat r)) as [row|] eqn:Erow; [|discriminate].
    exists (r, row). split; [apply in_combine_zrange; now split|]. cbn [fst snd].
    apply in_flat_map. exists (c, x). split; [apply in_combine_zrange; now split|]. cbn [fst snd]. rewrite Hm. now left.
Qed.

(* shape preservation: refreshing attributes and replacing cells never creates or removes a position *)
Lemma nth_error_indexed_none {A B} (f : Z * A -> B) (l : list A) i :
  nth_error l i = None -> nth_error (map f (combine (zrange 0 (Z.of_nat (length l))) l)) i = None.
Proof.
  intros H. apply nth_error_None. rewrite map_length, combine_length, zrange_length.
  apply nth_error_None in H. lia.
Qed.

Lemma get_cell_refresh_none m d r c : get_cell d r c = None -> get_cell (refresh m d) r c = None.
Proof.
  unfold get_cell, refresh. destruct (nth_error d (Z.to_nat r)) as [row|] eqn:Er.
  - intros Hc. rewrite (nth_error_indexed _ d (Z.to_nat r) row Er). cbn [fst snd].
    now apply nth_error_indexed_none.
  - intros _. now rewrite (nth_error_indexed_none _ d (Z.to_nat r) Er).
Qed.

Lemma nth_error_set_nth_none {A} : forall (l : list A) i j x, nth_error l j = None -> nth_error (set_nth l i x) j = None.
Proof.
  intros l i j x H. apply nth_error_None. rewrite GridP.set_nth_length. now apply nth_error_None.
Qed.

Lemma get_set_cell_none d r c x r' c' : get_cell d r' c' = None -> get_cell (set_cell d r c x) r' c' = None.
Proof.
  unfold get_cell, set_cell. destruct (nth_error d (Z.to_nat r)) as [row|] eqn:Er; [|auto].
  destruct (Nat.eq_dec (Z.to_nat r) (Z.to_nat r')) as [E|N].
  - rewrite <- E, Er. intros H. rewrite nth_error_set_nth_eq by (apply nth_error_Some; congruence).
    now apply nth_error_set_nth_none.
  - rewrite nth_error_set_nth_neq by assumption. auto.
Qed.

Lemma fold_step_none (r0 c0 r1 c1 : Z) : forall ps m d r c, get_cell d r c = None ->
  get_cell (snd (fold_left (fun (st : mmap * list (list cell)) (p : Z * Z) =>
         let '(r, c) := p in
         (mset (fst st) r c (RRef r0 c0 r1 c1), set_cell (snd st) r c (merged_cell (fst st) r c))) ps (m, d))) r c = None.
Proof.
  induction ps as [|[pr pc] ps IH]; intros m d r c H; cbn [fold_left fst snd]; [assumption|].
  apply IH. now apply get_set_cell_none.
Qed.

Definition attrs_ok (t : table) : Prop :=
  forall r c x, 0 <= r -> 0 <= c -> get_cell (data t) r c = Some x -> cmerge x = attr_of (mget (merges t) r c).

Lemma attrs_ok_merge t r0 c0 r1 c1 t' : 0 <= r0 -> 0 <= c0 -> merge_cells t r0 c0 r1 c1 = Ok t' -> attrs_ok t'.
Proof.
  intros Hr0 Hc0 Hm r c x' Hr Hc Hx'.
  destruct (get_cell (data t) r c) as [x|] eqn:Ex.
  - destruct (merge_picture_lemma t r0 c0 r1 c1 t' Hr0 Hc0 Hm r c x Hr Hc Ex) as (y & Hy & Ha & _).
    rewrite Hx' in Hy. injection Hy as <-. exact Ha.
  - exfalso. revert Hm Hx'. unfold merge_cells. fold (rect_cells r0 c0 r1 c1).
    destruct (existsb _ (rect_cells r0 c0 r1 c1)); [discriminate|].
    destruct (fold_left _ (rect_cells r0 c0 r1 c1) _) as [m1 d1] eqn:E.
    intros H. injection H as <-. cbn [data].
    pose proof (fold_step_none r0 c0 r1 c1 (rect_cells r0 c0 r1 c1)
                  (mset (merges t) r0 c0 (RAnchor (r1 - r0 + 1) (c1 - c0 + 1))) (data t) r c Ex) as Hn.
    rewrite E in Hn. cbn [snd] in Hn. rewrite (get_cell_refresh_none m1 d1 r c Hn). discriminate.
Qed.

Lemma attrs_ok_new nr nc : attrs_ok (new_table nr nc).
Proof.
  intros r c x Hr Hc H. unfold new_table, get_cell in H. cbn [data merges] in *.
  destruct (nth_error _ (Z.to_nat r)) as [row|] eqn:Er; [|discriminate].
  apply nth_error_In in Er. apply in_map_iff in Er as (r' & <- & _).
  apply nth_error_In in H. apply in_map_iff in H as (c' & <- & _). reflexivity.
Qed.

(* with consistent attributes, merge_ranges is exactly the list of the map's anchors that lie in the table *)
Theorem merge_ranges_anchors t q : attrs_ok t ->
  (In q (merge_ranges t) <->
   exists r c x h w, 0 <= r /\ 0 <= c /\ get_cell (data t) r c = Some x /\
                     mget (merges t) r c = Some (RAnchor h w) /\ q = (r, c, r + h - 1, c + w - 1)).
Proof.
  intros Ha. rewrite merge_ranges_spec. split.
  - intros (r & c & x & h & w & Hr & Hc & Hg & Hm & ->). exists r, c, x, h, w. repeat split; try assumption.
    rewrite (Ha r c x Hr Hc Hg) in Hm. destruct (mget (merges t) r c) as [[h' w'|a b c' d]|]; cbn in Hm; try discriminate.
    now injection Hm as -> ->.
  - intros (r & c & x & h & w & Hr & Hc & Hg & Hm & ->). exists r, c, x, h, w. repeat split; try assumption.
    rewrite (Ha r c x Hr Hc Hg), Hm. reflexivity.
Qed.

(* ---------- several pairwise disjoint rectangles ---------- *)
Definition rect := (Z * Z * Z * Z)%type.
Definition in_rect (R : rect) (r c : Z) : Prop := let '(r0, c0, r1, c1) := R in r0 <= r <= r1 /\ c0 <= c <= c1.
Definition disjoint (R S : rect) : Prop := forall r c, in_rect R r c -> in_rect S r c -> False.
Definition nonempty (R : rect) : Prop := let '(r0, c0, r1, c1) := R in 0 <= r0 <= r1 /\ 0 <= c0 <= c1.

Lemma rect_cells_spec r0 c0 r1 c1 r c :
  existsb (fun p => (r =? fst p) && (c =? snd p)) (rect_cells r0 c0 r1 c1) = true <->
  in_rect (r0, c0, r1, c1) r c /\ (r, c) <> (r0, c0).
Proof.
  rewrite existsb_exists. unfold rect_cells, in_rect. split.
  - intros ([pr pc] & Hin & Heq). cbn [fst snd] in Heq. apply andb_prop in Heq as [E1 E2].
    apply Z.eqb_eq in E1, E2. subst pr pc. apply filter_In in Hin as [Hin Hf]. cbn [fst snd] in Hf.
    apply in_flat_map in Hin as (r' & Hr' & Hin). apply in_map_iff in Hin as (c' & E & Hc'). injection E as <- <-.
    apply in_zrange_iff in Hr', Hc'. split; [lia|].
    intros E. injection E as -> ->. rewrite !Z.eqb_refl in Hf. discriminate.
  - intros [[Hr Hc] Hne]. exists (r, c). split; [|cbn [fst snd]; now rewrite !Z.eqb_refl].
    apply filter_In. split.
    + apply in_flat_map. exists r. split; [apply in_zrange_iff; lia|]. apply in_map_iff. exists c. split; [reflexivity|apply in_zrange_iff; lia].
    + cbn [fst snd]. apply negb_true_iff. apply andb_false_iff.
      destruct (Z.eqb_spec r r0); [|now left]. destruct (Z.eqb_spec c c0); [|now right]. subst. contradiction.
Qed.

Definition merge_rect (t : table) (R : rect) : result table := let '(r0, c0, r1, c1) := R in merge_cells t r0 c0 r1 c1.
Fixpoint merge_all (t : table) (Rs : list rect) : result table :=
  match Rs with [] => Ok t | R :: rest => match merge_rect t R with Ok t' => merge_all t' rest | Err e => Err e end end.

Definition anchors_are (t : table) (done : list rect) : Prop :=
  forall r c h w, mget (merges t) r c = Some (RAnchor h w) <-> In (r, c, r + h - 1, c + w - 1) done.

Lemma anchors_step t R done t' : nonempty R -> Forall nonempty done -> Forall (disjoint R) done ->
  anchors_are t done -> merge_rect t R = Ok t' -> anchors_are t' (R :: done).
Proof.
  destruct R as [[[r0 c0] r1] c1]. intros HR Hne Hdis Ha Hm r c h w. cbn [merge_rect] in Hm.
  rewrite (merge_map_lemma t r0 c0 r1 c1 t' Hm r c).
  destruct (existsb (fun p => (r =? fst p) && (c =? snd p)) (rect_cells r0 c0 r1 c1)) eqn:Ex.
  - apply rect_cells_spec in Ex as [Hin Hne']. split; [discriminate|].
    intros [E|Hd].
    + injection E as -> -> _ _. contradiction.
    + exfalso. pose proof (proj1 (Forall_forall _ _) Hdis _ Hd) as D.
      pose proof (proj1 (Forall_forall _ _) Hne _ Hd) as N. cbn in N.
      apply (D r c); [exact Hin|]. cbn. lia.
  - destruct ((r =? r0) && (c =? c0)) eqn:E0.
    + apply andb_prop in E0 as [A B]. apply Z.eqb_eq in A, B. subst r c. split.
      * intros H. injection H as <- <-. left. f_equal; [f_equal|]; lia.
      * intros [E|Hd].
        -- injection E as E1 E2. f_equal. f_equal; lia.
        -- exfalso. pose proof (proj1 (Forall_forall _ _) Hdis _ Hd) as D.
           pose proof (proj1 (Forall_forall _ _) Hne _ Hd) as N. cbn in N, HR.
           apply (D r0 c0); cbn; lia.
    + rewrite (Ha r c h w). split; [now right|].
      intros [E|Hd]; [|assumption].
      injection E as -> -> _ _. rewrite !Z.eqb_refl in E0. discriminate.
Qed.

Lemma merge_all_anchors : forall Rs t done tf,
  Forall nonempty Rs -> Forall nonempty done ->
  (forall R, In R Rs -> Forall (disjoint R) done) -> ForallOrdPairs disjoint Rs ->
  anchors_are t done -> merge_all t Rs = Ok tf -> anchors_are tf (rev Rs ++ done).
Proof.
  induction Rs as [|R Rs IH]; intros t done tf HN HD Hdd Hpw Ha Hm; cbn [merge_all rev app] in *.
  - injection Hm as <-. exact Ha.
  - destruct (merge_rect t R) as [t'|e] eqn:E; [|discriminate].
    rewrite <- app_assoc. cbn [app].
    apply (IH t' (R :: done) tf); try assumption.
    + exact (Forall_inv_tail HN).
    + constructor; [exact (Forall_inv HN)|assumption].
    + intros S HS. constructor.
      * inversion Hpw as [|? ? Hfa Hrest]; subst. pose proof (proj1 (Forall_forall _ _) Hfa S HS) as D.
        intros r c H1 H2. exact (D r c H2 H1).
      * apply Hdd. now right.
    + inversion Hpw; assumption.
    + eapply anchors_step; eauto; [exact (Forall_inv HN)|apply Hdd; now left].
Qed.

Lemma merge_cells_keeps_cells t r0 c0 r1 c1 t' r c x : 0 <= r0 -> 0 <= c0 -> 0 <= r -> 0 <= c ->
  merge_cells t r0 c0 r1 c1 = Ok t' -> get_cell (data t) r c = Some x -> exists y, get_cell (data t') r c = Some y.
Proof.
  intros A B C D Hm Hx. destruct (merge_picture_lemma t r0 c0 r1 c1 t' A B Hm r c x C D Hx) as (y & Hy & _). eauto.
Qed.

Lemma merge_all_props : forall Rs t tf, Forall nonempty Rs -> attrs_ok t -> merge_all t Rs = Ok tf ->
  attrs_ok tf /\ (forall r c x, 0 <= r -> 0 <= c -> get_cell (data t) r c = Some x -> exists y, get_cell (data tf) r c = Some y).
Proof.
  induction Rs as [|[[[r0 c0] r1] c1] Rs IH]; intros t tf HN Ha Hm; cbn [merge_all merge_rect] in Hm.
  - injection Hm as <-. split; [assumption|eauto].
  - destruct (merge_cells t r0 c0 r1 c1) as [t'|e] eqn:E; [|discriminate].
    pose proof (Forall_inv HN) as N. cbn in N.
    destruct (IH t' tf (Forall_inv_tail HN) (attrs_ok_merge t r0 c0 r1 c1 t' ltac:(lia) ltac:(lia) E) Hm) as [A1 A2].
    split; [assumption|]. intros r c x Hr Hc Hx.
    destruct (merge_cells_keeps_cells t r0 c0 r1 c1 t' r c x ltac:(lia) ltac:(lia) Hr Hc E Hx) as [y Hy].
    exact (A2 r c y Hr Hc Hy).
Qed.

Lemma new_table_cell nr nc r c : 0 <= r < nr -> 0 <= c < nc -> exists x, get_cell (data (new_table nr nc)) r c = Some x.
Proof.
  intros Hr Hc. unfold new_table, get_cell. cbn [data].
  rewrite nth_error_map, (nth_error_zrange 0 nr (Z.to_nat r)) by lia. cbn [option_map].
  rewrite nth_error_map, (nth_error_zrange 0 nc (Z.to_nat c)) by lia. cbn [option_map]. eauto.
Qed.

(* after merging any list of pairwise disjoint, non-empty rectangles whose top-left lies in the table, the table's
   list of merge ranges is exactly the set of merged rectangles *)
Theorem merge_ranges_exact_lemma nr nc Rs tf :
  Forall nonempty Rs -> ForallOrdPairs disjoint Rs ->
  Forall (fun R => let '(r0, c0, _, _) := R in r0 < nr /\ c0 < nc) Rs ->
  merge_all (new_table nr nc) Rs = Ok tf ->
  forall q, In q (merge_ranges tf) <-> In q Rs.
Proof.
  intros HN Hpw Hin Hm q.
  destruct (merge_all_props Rs (new_table nr nc) tf HN (attrs_ok_new nr nc) Hm) as [Hattr Hkeep].
  assert (Hanch : anchors_are tf (rev Rs ++ [])).
  { apply (merge_all_anchors Rs (new_table nr nc) [] tf); try assumption; [constructor|intros; constructor|].
    intros r c h w. cbn. split; [discriminate|tauto]. }
  rewrite app_nil_r in Hanch.
  rewrite (merge_ranges_anchors tf q Hattr). split.
  - intros (r & c & x & h & w & Hr & Hc & Hg & Hmg & ->). apply in_rev. now apply Hanch.
  - intros HqR. destruct q as [[[r0 c0] r1] c1].
    pose proof (proj1 (Forall_forall _ _) HN _ HqR) as N. cbn in N.
    pose proof (proj1 (Forall_forall _ _) Hin _ HqR) as I. cbn in I.
    destruct (new_table_cell nr nc r0 c0 ltac:(lia) ltac:(lia)) as [x0 Hx0].
    destruct (Hkeep r0 c0 x0 ltac:(lia) ltac:(lia) Hx0) as [y Hy].
    exists r0, c0, y, (r1 - r0 + 1), (c1 - c0 + 1). repeat split; try lia; [assumption| |f_equal; [f_equal|]; lia].
    apply Hanch. apply in_rev in HqR. replace (r0 + (r1 - r0 + 1) - 1) with r1 by lia.
    replace (c0 + (c1 - c0 + 1) - 1) with c1 by lia. exact HqR.
Qed.

(* ---- a table that has just been created has no merged cell at all (add_table / add_sheet give such a table,
   whatever merges the document's other tables carry) ---- *)
Lemma flat_map_all_nil {A B} (f : A -> list B) (l : list A) : (forall x, In x l -> f x = []) -> flat_map f l = [].
Proof. induction l as [|a l IH]; cbn; intros H; [reflexivity|]. rewrite (H a) by now left. apply IH. intros; apply H; now right. Qed.

Lemma new_table_cells_plain nr nc row x : In row (data (new_table nr nc)) -> In x row ->
  cmerge x = MPlain /\ cplace x = false /\ cval x = None.
Proof.
  unfold new_table; cbn [data]. intros Hr Hx.
  apply in_map_iff in Hr. destruct Hr as [r [<- _]].
  apply in_map_iff in Hx. destruct Hx as [c [<- _]]. cbn. auto.
Qed.

Lemma new_table_no_merges_lemma nr nc : merge_ranges (new_table nr nc) = [] /\ merges (new_table nr nc) = [].
Proof.
  split; [|reflexivity]. unfold merge_ranges.
  apply flat_map_all_nil. intros p Hp.
  apply flat_map_all_nil. intros q Hq.
  destruct p as [r row]. destruct q as [c x]. cbn [fst snd] in *.
  apply in_combine_r in Hp. apply in_combine_r in Hq.
  destruct (new_table_cells_plain nr nc row x Hp Hq) as [E _]. now rewrite E.
Qed.
