(* Assoc: Python dicts as association lists, latest binding first (an assignment d[k] = v prepends).
   Shared by the C06 models (row storage map, object/file stores). *)
From Coq Require Import List Bool.
Import ListNotations.

Section Assoc.
  Variables K V : Type.
  Variable keqb : K -> K -> bool.

  Fixpoint aget (k : K) (m : list (K * V)) : option V :=
    match m with [] => None | (k', v) :: r => if keqb k k' then Some v else aget k r end.

  (* d = {}; for (k, v) in items: d[k] = v *)
  Definition of_items (items : list (K * V)) : list (K * V) := rev items.

  (* keys in first-insertion order (what iterating a Python dict yields) *)
  Fixpoint mem (k : K) (l : list K) : bool := match l with [] => false | x :: r => keqb k x || mem k r end.
  Fixpoint first_keys (seen : list K) (items : list (K * V)) : list K :=
    match items with
    | [] => []
    | (k, _) :: r => if mem k seen then first_keys seen r else k :: first_keys (k :: seen) r
    end.
End Assoc.
Arguments aget {K V}. Arguments of_items {K V}. Arguments mem {K}. Arguments first_keys {K V}.
