(* Expr: expression trees of Numbers formulas, their reference infix rendering
   [show] (token level) / [text] (character level), [compile] to the post-fix
   node array the way Numbers stores it (explicit LIST_NODEs for parentheses,
   EMPTY_ARGUMENT_NODEs, row-major ARRAY_NODEs), the precedence table of
   constants.OPERATOR_PRECEDENCE, the well-formedness predicate of stored
   expressions and a token-level precedence-climbing parser.
   Promoted from spikes/expr_full/Expr.v. *)
From Coq Require Import ZArith NArith List Bool Arith Lia.
From NP Require Import Model.PyBase Model.FormulaStack.
Import ListNotations.
Open Scope nat_scope.

(* ---------- operators ---------- *)
Inductive binop := Add | Sub | Mul | Div | Pow | Cat | Eq | Ne | Lt | Gt | Le | Ge.

Definition binop_eqb (a b : binop) : bool :=
  match a, b with
  | Add, Add | Sub, Sub | Mul, Mul | Div, Div | Pow, Pow | Cat, Cat
  | Eq, Eq | Ne, Ne | Lt, Lt | Gt, Gt | Le, Le | Ge, Ge => true
  | _, _ => false
  end.

(* the glyph the library prints *)
Definition glyph (o : binop) : str :=
  match o with
  | Add => g_plus | Sub => g_minus | Mul => g_times | Div => g_divide | Pow => g_power | Cat => g_amp
  | Eq => g_eq | Ne => g_ne | Lt => g_lt | Gt => g_gt | Le => g_le | Ge => g_ge
  end.

Definition binop_node (o : binop) : node :=
  match o with
  | Add => ADDITION_NODE | Sub => SUBTRACTION_NODE | Mul => MULTIPLICATION_NODE | Div => DIVISION_NODE
  | Pow => POWER_NODE | Cat => CONCATENATION_NODE | Eq => EQUAL_TO_NODE | Ne => NOT_EQUAL_TO_NODE
  | Lt => LESS_THAN_NODE | Gt => GREATER_THAN_NODE | Le => LESS_THAN_OR_EQUAL_TO_NODE
  | Ge => GREATER_THAN_OR_EQUAL_TO_NODE
  end.

(* constants.OPERATOR_PRECEDENCE, glyph -> level (tie: Gen/GenC08.v) *)
Definition OPERATOR_PRECEDENCE : list (str * N) :=
  [([37], 6); ([94], 5); ([215], 4); ([42], 4); ([47], 4); ([247], 4); ([43], 3); ([45], 3); ([38], 2)]%N.

Fixpoint assoc_str (k : str) (l : list (str * N)) : option N :=
  match l with [] => None | (k', v) :: r => if str_eqb k k' then Some v else assoc_str k r end.

(* comparison operators are not in the table: they bind loosest (level 1) *)
Definition prec_in (tab : list (str * N)) (o : binop) : nat :=
  match assoc_str (glyph o) tab with Some p => N.to_nat p | None => 1 end.
Definition prec_tab : binop -> nat := prec_in OPERATOR_PRECEDENCE.

(* ---------- literals and references ---------- *)
Inductive atom :=
| ANum (hi lo : N) (rep : str)      (* NUMBER_NODE: decimal128 halves, rep = repr(double) *)
| AStr (s : str)                    (* STRING_NODE *)
| ABool (b : bool)                  (* BOOLEAN_NODE *)
| ATok (b : bool)                   (* TOKEN_NODE carrying AST_token_node_boolean *)
| ADate (secs : Z)                  (* DATE_NODE *)
| ARef (tract : bool) (t : str).    (* CELL_REFERENCE_NODE / COLON_TRACT_NODE with its rendered reference (C09) *)

Definition atom_node (a : atom) : node :=
  match a with
  | ANum hi lo rep => NUMBER_NODE hi lo rep
  | AStr s => STRING_NODE s
  | ABool b => BOOLEAN_NODE None b
  | ATok b => TOKEN_NODE (Some b) false
  | ADate d => DATE_NODE d
  | ARef false t => CELL_REFERENCE_NODE t
  | ARef true t => COLON_TRACT_NODE t
  end.

Definition atom_text (a : atom) : result str :=
  match a with
  | ANum hi lo rep => number_text hi lo rep
  | AStr s => Ok (string_text s)
  | ABool b | ATok b => Ok (bool_text b)
  | ADate d => date_text d
  | ARef _ t => Ok t
  end.
Definition atom_str (a : atom) : str := match atom_text a with Ok s => s | Err _ => [] end.
Definition atom_ok (a : atom) : bool := match atom_text a with Ok _ => true | Err _ => false end.
Definition is_ref (a : atom) : bool := match a with ARef _ _ => true | _ => false end.

(* ---------- trees ---------- *)
Inductive expr :=
| EAtom (a : atom)
| EBin (o : binop) (l r : expr)
| ENeg (e : expr)
| EPct (e : expr)
| EParen (es : list expr)                  (* LIST_NODE: (a,b) *)
| EFun (f : N) (args : list (option expr)) (* F(a,,b); None = EMPTY_ARGUMENT_NODE *)
| EArr (rows : list (list expr)).          (* {a,b;c,d} *)

(* ---------- tokens, reference printer ---------- *)
Inductive tok := TAtom (a : atom) | TOp (o : binop) | TPct | TFun (f : N) | TL | TR | TComma | TSemi | TLB | TRB.

Definition sep_by {A} (sep : tok) (f : A -> list tok) : list A -> list tok :=
  fix go (l : list A) : list tok :=
  match l with [] => [] | x :: r => match r with [] => f x | _ => f x ++ sep :: go r end end.

Fixpoint show (e : expr) : list tok :=
  match e with
  | EAtom a => [TAtom a]
  | EBin o l r => show l ++ TOp o :: show r
  | ENeg e => TOp Sub :: show e
  | EPct e => show e ++ [TPct]
  | EParen es => TL :: sep_by TComma show es ++ [TR]
  | EFun f args => TFun f :: sep_by TComma (fun a => match a with Some e => show e | None => [] end) args ++ [TR]
  | EArr rows => TLB :: sep_by TSemi (fun row => sep_by TComma show row) rows ++ [TRB]
  end.

Section TEXT.
Variable fmap : N -> option str.

Definition tok_text (t : tok) : str :=
  match t with
  | TAtom a => atom_str a
  | TOp o => glyph o
  | TPct => g_pct
  | TFun f => func_name fmap f ++ g_lpar
  | TL => g_lpar | TR => g_rpar | TComma => g_comma | TSemi => g_semi | TLB => g_lbrace | TRB => g_rbrace
  end.
Definition text (ts : list tok) : str := flat_map tok_text ts.
End TEXT.

(* ---------- post-fix serialisation ---------- *)
Fixpoint compile (e : expr) : list node :=
  match e with
  | EAtom a => [atom_node a]
  | EBin o l r => compile l ++ compile r ++ [binop_node o]
  | ENeg e => compile e ++ [NEGATION_NODE]
  | EPct e => compile e ++ [PERCENT_NODE]
  | EParen es => flat_map compile es ++ [LIST_NODE (N.of_nat (length es))]
  | EFun f args =>
      flat_map (fun a => match a with Some e => compile e | None => [EMPTY_ARGUMENT_NODE] end) args
      ++ [FUNCTION_NODE f (N.of_nat (length args))]
  | EArr rows =>
      flat_map (fun row => flat_map compile row) rows
      ++ [ARRAY_NODE (N.of_nat (length rows)) (N.of_nat (length (hd [] rows)))]
  end.

(* what the stack holds after the nodes of e ran: the raw reference object for a bare reference *)
Section TOP.
Variable fmap : N -> option str.
Definition top_item (e : expr) : item :=
  match e with
  | EAtom (ARef _ t) => IRef t
  | _ => IStr (text fmap (show e))
  end.
End TOP.

(* renderable: every literal has a text (date in datetime's range, repr of the
   expected shape), arrays are rectangular and hold no bare reference *)
Definition bare_ref (e : expr) : bool := match e with EAtom a => is_ref a | _ => false end.
Fixpoint renderable (e : expr) : bool :=
  match e with
  | EAtom a => atom_ok a
  | EBin _ l r => renderable l && renderable r
  | ENeg e | EPct e => renderable e
  | EParen es => forallb renderable es
  | EFun _ args => forallb (fun a => match a with Some e => renderable e | None => true end) args
  | EArr rows =>
      let w := length (hd [] rows) in
      forallb (fun row => (length row =? w) && forallb (fun e => renderable e && negb (bare_ref e)) row) rows
  end.

Fixpoint size (e : expr) : nat :=
  match e with
  | EAtom _ => 1
  | EBin _ l r => 1 + size l + size r
  | ENeg e | EPct e => 1 + size e
  | EParen es => 1 + fold_right (fun e n => size e + n) 0 es
  | EFun _ args => 1 + fold_right (fun a n => match a with Some e => size e | None => 1 end + n) 0 args
  | EArr rows => 1 + fold_right (fun row n => 1 + fold_right (fun e m => size e + m) 0 row + n) 0 rows
  end.

(* ---------- parser: one fuelled mutual block ---------- *)
Fixpoint pct_loop (e : expr) (ts : list tok) : expr * list tok :=
  match ts with TPct :: r => pct_loop (EPct e) r | _ => (e, ts) end.

Section G.
Variable prec : binop -> nat.

(* conventions, all visible here:
   - binary operators are left-associative, [prec] gives their level;
   - unary minus binds tighter than every binary operator;
   - postfix % binds tighter than unary minus. *)
Fixpoint parse_ex (fuel : nat) (minp : nat) (ts : list tok) {struct fuel} : option (expr * list tok) :=
  match fuel with 0 => None | S f =>
    match parse_un f ts with
    | Some (lhs, r) => loop f minp lhs r
    | None => None end end
with parse_un (fuel : nat) (ts : list tok) {struct fuel} : option (expr * list tok) :=
  match fuel with 0 => None | S f =>
    match ts with
    | TOp o :: r => if binop_eqb o Sub then
                      match parse_un f r with Some (e, r') => Some (ENeg e, r') | None => None end
                    else None
    | TAtom a :: r => Some (pct_loop (EAtom a) r)
    | TL :: r => match parse_items f r with
                 | Some (es, TR :: r') => Some (pct_loop (EParen es) r')
                 | _ => None end
    | TFun g :: TR :: r => Some (pct_loop (EFun g []) r)
    | TFun g :: r => match parse_args f r with
                     | Some (args, r') => Some (pct_loop (EFun g args) r')
                     | None => None end
    | TLB :: r => match parse_rows f r with
                  | Some (rows, r') => Some (pct_loop (EArr rows) r')
                  | None => None end
    | _ => None
    end end
with loop (fuel : nat) (minp : nat) (lhs : expr) (ts : list tok) {struct fuel} : option (expr * list tok) :=
  match fuel with 0 => None | S f =>
    match ts with
    | TOp o :: r =>
        if minp <=? prec o then
          match parse_ex f (S (prec o)) r with
          | Some (rhs, r') => loop f minp (EBin o lhs rhs) r'
          | None => None end
        else Some (lhs, ts)
    | _ => Some (lhs, ts)
    end end
with parse_items (fuel : nat) (ts : list tok) {struct fuel} : option (list expr * list tok) :=
  match fuel with 0 => None | S f =>
    match parse_ex f 0 ts with
    | Some (e, TComma :: r) =>
        match parse_items f r with Some (es, r') => Some (e :: es, r') | None => None end
    | Some (e, r) => Some ([e], r)
    | None => None end end
with parse_args (fuel : nat) (ts : list tok) {struct fuel} : option (list (option expr) * list tok) :=
  match fuel with 0 => None | S f =>
    match ts with
    | TR :: r => Some ([None], r)
    | TComma :: r => match parse_args f r with Some (as_, r') => Some (None :: as_, r') | None => None end
    | _ => match parse_ex f 0 ts with
           | Some (e, TR :: r) => Some ([Some e], r)
           | Some (e, TComma :: r) => match parse_args f r with Some (as_, r') => Some (Some e :: as_, r') | None => None end
           | _ => None end
    end end
with parse_rows (fuel : nat) (ts : list tok) {struct fuel} : option (list (list expr) * list tok) :=
  match fuel with 0 => None | S f =>
    match parse_items f ts with
    | Some (row, TRB :: r) => Some ([row], r)
    | Some (row, TSemi :: r) => match parse_rows f r with Some (rows, r') => Some (row :: rows, r') | None => None end
    | _ => None end end.

Definition parse (ts : list tok) : option expr :=
  match parse_ex (2 * length ts + 2) 0 ts with Some (e, []) => Some e | _ => None end.

(* ---------- well-formedness: parenthesised the way Numbers stores it ---------- *)
Definition lvl_ge (e : expr) (p : nat) : Prop := match e with EBin o _ _ => p <= prec o | _ => True end.
Definition lvl_gt (e : expr) (p : nat) : Prop := match e with EBin o _ _ => p < prec o | _ => True end.
Definition unary_lvl (e : expr) : Prop := match e with EBin _ _ _ => False | _ => True end.
Definition postfix_lvl (e : expr) : Prop := match e with EBin _ _ _ | ENeg _ => False | _ => True end.
Definition primary (e : expr) : Prop := match e with EBin _ _ _ | ENeg _ | EPct _ => False | _ => True end.

(* - left operand of a binary operator: not a looser binary operator;
   - right operand: a strictly tighter binary operator or no binary operator
     (anything else is wrapped in EParen, i.e. a stored LIST_NODE);
   - operand of unary minus: not a binary operator; operand of %: neither binary nor negated;
   - lists, arrays and array rows are non-empty; F() is EFun f [], not EFun f [None]. *)
Fixpoint wf (e : expr) : Prop :=
  match e with
  | EAtom _ => True
  | EBin o l r => wf l /\ wf r /\ lvl_ge l (prec o) /\ lvl_gt r (prec o)
  | ENeg e => wf e /\ unary_lvl e
  | EPct e => wf e /\ postfix_lvl e
  | EParen es => es <> [] /\ (fix all (l : list expr) := match l with [] => True | x :: r => wf x /\ all r end) es
  | EFun _ args => args <> [None] /\
      (fix all (l : list (option expr)) := match l with [] => True | Some x :: r => wf x /\ all r | None :: r => all r end) args
  | EArr rows => rows <> [] /\
      (fix allr (l : list (list expr)) := match l with [] => True
         | row :: r => (row <> [] /\ (fix all (l : list expr) := match l with [] => True | x :: r => wf x /\ all r end) row) /\ allr r end) rows
  end.

(* the same predicate as a boolean function (executable: the harness asks the
   extracted model whether a generated tree satisfies the theorem's hypothesis) *)
Definition lvl_geb (e : expr) (p : nat) : bool := match e with EBin o _ _ => p <=? prec o | _ => true end.
Definition lvl_gtb (e : expr) (p : nat) : bool := match e with EBin o _ _ => p <? prec o | _ => true end.
Definition unary_lvlb (e : expr) : bool := match e with EBin _ _ _ => false | _ => true end.
Definition postfix_lvlb (e : expr) : bool := match e with EBin _ _ _ | ENeg _ => false | _ => true end.
Definition nonempty {A} (l : list A) : bool := match l with [] => false | _ => true end.

Fixpoint wfb (e : expr) : bool :=
  match e with
  | EAtom _ => true
  | EBin o l r => wfb l && wfb r && lvl_geb l (prec o) && lvl_gtb r (prec o)
  | ENeg e => wfb e && unary_lvlb e
  | EPct e => wfb e && postfix_lvlb e
  | EParen es => nonempty es && forallb wfb es
  | EFun _ args => match args with [None] => false | _ => true end
                   && forallb (fun a => match a with Some x => wfb x | None => true end) args
  | EArr rows => nonempty rows && forallb (fun row => nonempty row && forallb wfb row) rows
  end.
End G.
