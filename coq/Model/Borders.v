(* Borders (C15): cell borders in memory and as persisted stroke runs, for tables WITHOUT merged cells.

   Mirrors
     cell.py     CellBorder setters ("None or strictly greater _order wins")
     model.py    set_cell_border (both neighbours through cell_for_stroke), add_stroke (order stamp,
                 run patching, sort), extract_strokes / extract_strokes_in_layers (fixed side order)
     document.py Table.set_cell_border, Cell.border
   of the REPAIRED tree (fixes/C15-1-border-order-stamp.patch): the order stamp is assigned
   (add_stroke) BEFORE the cells are updated.  [Pinned.do_stroke] is the order of the pinned tree.

   Spec: an edge map under last-writer-wins over the stroke history.

   Border objects are Python objects shared by reference between the caller and every cell they
   were assigned to; add_stroke mutates their _order.  They live in a heap keyed by [oid]. *)
From Coq Require Import ZArith List Bool Lia.
From NP Require Import Model.PyBase.
Import ListNotations.
Local Open Scope Z_scope.

(* width / colour / pattern of a border: an opaque payload, only ever copied *)
Definition attrs := list N.

Inductive side : Type := STop | SRight | SBottom | SLeft.
Definition side_eqb (a b : side) : bool :=
  match a, b with STop, STop | SRight, SRight | SBottom, SBottom | SLeft, SLeft => true | _, _ => false end.

(* ---------- specification: edges, last writer wins ---------- *)
Inductive orient : Type := Hor | Ver.
(* (Hor, line, pos): the edge above row [line] at column [pos]; (Ver, line, pos): left of column [line] at row [pos] *)
Definition edge := (orient * Z * Z)%type.
Definition orient_eqb (a b : orient) : bool :=
  match a, b with Hor, Hor | Ver, Ver => true | _, _ => false end.
Definition edge_eqb (a b : edge) : bool :=
  let '(o1, l1, p1) := a in let '(o2, l2, p2) := b in orient_eqb o1 o2 && (l1 =? l2) && (p1 =? p2).

Definition key := (Z * Z * side)%type.     (* row, column, side of a cell *)
Definition key_eqb (a b : key) : bool :=
  let '(r1, c1, s1) := a in let '(r2, c2, s2) := b in (r1 =? r2) && (c1 =? c2) && side_eqb s1 s2.

Definition edge_of (k : key) : edge :=
  let '(r, c, s) := k in
  match s with
  | STop => (Hor, r, c)
  | SBottom => (Hor, r + 1, c)
  | SLeft => (Ver, c, r)
  | SRight => (Ver, c + 1, r)
  end.

Inductive oid : Type :=
| User (n : nat)        (* a Border object made by the caller *)
| FromRun (n : nat).    (* a Border object made by extract_strokes_in_layers for one run *)
Definition oid_eqb (a b : oid) : bool :=
  match a, b with
  | User x, User y => Nat.eqb x y
  | FromRun x, FromRun y => Nat.eqb x y
  | _, _ => false
  end.

Record stroke : Type := {
  s_side : side; s_row : Z; s_col : Z; s_len : Z;
  s_obj : nat           (* which of the caller's Border objects *)
}.

(* the line and the start position of a stroke in its own direction *)
Definition s_orient (s : stroke) : orient :=
  match s_side s with STop | SBottom => Hor | _ => Ver end.
Definition s_line (s : stroke) : Z :=
  match s_side s with STop => s_row s | SBottom => s_row s + 1 | SLeft => s_col s | SRight => s_col s + 1 end.
Definition s_origin (s : stroke) : Z :=
  match s_side s with STop | SBottom => s_col s | _ => s_row s end.

Definition covers_edge (s : stroke) (e : edge) : bool :=
  let '(o, l, p) := e in
  orient_eqb o (s_orient s) && (l =? s_line s) && (s_origin s <=? p) && (p <? s_origin s + s_len s).

(* Table.set_cell_border validates the start cell (_validate_cell_coords: IndexError) *)
Definition valid (nr nc : Z) (s : stroke) : bool :=
  (0 <=? s_row s) && (s_row s <? nr) && (0 <=? s_col s) && (s_col s <? nc).

Section WithObjects.
(* width / colour / pattern of the caller's n-th Border object (fixed when the object is made) *)
Variable objs : nat -> attrs.

Definition lww_step (nr nc : Z) (m : edge -> option attrs) (s : stroke) : edge -> option attrs :=
  if valid nr nc s then fun e => if covers_edge s e then Some (objs (s_obj s)) else m e else m.
Definition lww (nr nc : Z) (h : list stroke) : edge -> option attrs :=
  fold_left (lww_step nr nc) h (fun _ => None).
End WithObjects.

(* ---------- implementation state ---------- *)
Record border_obj : Type := { bo_attrs : attrs; bo_order : Z }.

Record run : Type := { r_origin : Z; r_length : Z; r_order : Z; r_attrs : attrs }.

Record mem : Type := {
  m_nr : Z; m_nc : Z;
  m_heap : oid -> option border_obj;
  m_cells : key -> option oid;          (* cell._border._top etc.: a reference to a Border object *)
  m_extracted : bool;                   (* @cache of extract_strokes *)
  m_nruns : nat;                        (* how many FromRun objects exist *)
  m_max : Z;                            (* StrokeSidecarArchive.max_order *)
  m_layers : side -> Z -> list run;     (* stroke layer of a side with row_column_index = line *)
  m_lorder : side -> list Z             (* the layers of a side in list order *)
}.

Definition in_table (st : mem) (r c : Z) : bool :=
  (0 <=? r) && (r <? m_nr st) && (0 <=? c) && (c <? m_nc st).

Definition order_of (heap : oid -> option border_obj) (o : oid) : Z :=
  match heap o with Some b => bo_order b | None => 0 end.

(* CellBorder.<side>.setter on the cell found by cell_for_stroke (plain cells: the cell itself
   when it is inside the table, else nothing) *)
Definition set_side (heap : oid -> option border_obj) (inb : Z -> Z -> bool)
           (cells : key -> option oid) (k : key) (v : oid) : key -> option oid :=
  let '(r, c, _) := k in
  if inb r c then
    match cells k with
    | None => fun k' => if key_eqb k' k then Some v else cells k'
    | Some cur => if order_of heap cur <? order_of heap v
                  then fun k' => if key_eqb k' k then Some v else cells k'
                  else cells
    end
  else cells.

(* model.set_cell_border(table, row, col, side, border) *)
Definition set_cell_border (heap : oid -> option border_obj) (inb : Z -> Z -> bool)
           (cells : key -> option oid) (r c : Z) (s : side) (v : oid) : key -> option oid :=
  match s with
  | STop => set_side heap inb (set_side heap inb cells (r, c, STop) v) (r - 1, c, SBottom) v
  | SRight => set_side heap inb (set_side heap inb cells (r, c, SRight) v) (r, c + 1, SLeft) v
  | SBottom => set_side heap inb (set_side heap inb cells (r, c, SBottom) v) (r + 1, c, STop) v
  | SLeft => set_side heap inb (set_side heap inb cells (r, c, SLeft) v) (r, c - 1, SRight) v
  end.

(* for i in range(n): set_cell_border at the i-th cell along the stroke *)
Fixpoint set_along (heap : oid -> option border_obj) (inb : Z -> Z -> bool)
         (cells : key -> option oid) (s : side) (r c : Z) (n : nat) (v : oid) : key -> option oid :=
  match n with
  | O => cells
  | S n' =>
      let cells' := set_cell_border heap inb cells r c s v in
      match s with
      | STop | SBottom => set_along heap inb cells' s r (c + 1) n' v
      | _ => set_along heap inb cells' s (r + 1) c n' v
      end
  end.

(* ---------- add_stroke: patching the runs of one layer ---------- *)
Definition in_range (x s e : Z) : bool := (s <=? x) && (x <? e).

(* one pass of "for stroke_run in stroke_layer.stroke_runs": (runs after in-place edits,
   runs appended at the end, stroke_patched) *)
Fixpoint patch_pass (newr : run) (rs : list run) : list run * list run * bool :=
  match rs with
  | [] => ([], [], false)
  | r :: rest =>
    let '(m, a, p) := patch_pass newr rest in
    let o := r_origin newr in let L := r_length newr in
    let s := r_origin r in let e := r_origin r + r_length r in
    if (o <=? s) && (e <=? o + L) then
      (* New stroke overwrites all of existing stroke: stroke_run.CopyFrom(new) *)
      (newr :: m, a, true)
    else if (o =? s) && (L <? r_length r) then
      (* New stroke writes to start of existing stroke *)
      ({| r_origin := o + L; r_length := r_length r - L; r_order := r_order r; r_attrs := r_attrs r |} :: m, a, p)
    else if in_range o s e && (o + L =? e) then
      (* New stroke writes to end of existing stroke *)
      ({| r_origin := s; r_length := r_length r - L; r_order := r_order r; r_attrs := r_attrs r |} :: m, a, p)
    else if in_range o s e && in_range (o + L) s e then
      (* New stroke in middle of existing stroke: shorten, append a copy for the tail *)
      ({| r_origin := s; r_length := o - s; r_order := r_order r; r_attrs := r_attrs r |} :: m,
       {| r_origin := o + L; r_length := e - o - L; r_order := r_order r; r_attrs := r_attrs r |} :: a, p)
    else (r :: m, a, p)
  end.

(* the loop also visits the runs it appended (protobuf containers iterate by index) *)
Fixpoint patch_loop (fuel : nat) (newr : run) (rs : list run) : list run * bool :=
  let '(m, a, p) := patch_pass newr rs in
  match a, fuel with
  | [], _ => (m, p)
  | _, O => (m ++ a, p)
  | _, S f => let '(m2, p2) := patch_loop f newr a in (m ++ m2, p || p2)
  end.

(* stroke_runs.sort(key=lambda x: x.origin): stable *)
Fixpoint insert_run (r : run) (rs : list run) : list run :=
  match rs with
  | [] => [r]
  | x :: rest => if r_origin r <=? r_origin x then r :: x :: rest else x :: insert_run r rest
  end.
Fixpoint sort_runs (rs : list run) : list run :=
  match rs with [] => [] | r :: rest => insert_run r (sort_runs rest) end.
(* inserting from the right end, before equal origins, keeps equal origins in their original order *)
Definition stable_sort (rs : list run) : list run := sort_runs rs.

Definition patch_layer (newr : run) (rs : list run) : list run :=
  let '(m, p) := patch_loop 2 newr rs in
  stable_sort (if p then m else m ++ [newr]).

(* the layer a stroke is filed under *)
Definition layer_line (s : stroke) : Z :=
  match s_side s with STop | SBottom => s_row s | _ => s_col s end.

Definition upd_layers (f : side -> Z -> list run) (sd : side) (ln : Z) (v : list run) : side -> Z -> list run :=
  fun sd' ln' => if side_eqb sd' sd && (ln' =? ln) then v else f sd' ln'.
Definition upd_lorder (f : side -> list Z) (sd : side) (v : list Z) : side -> list Z :=
  fun sd' => if side_eqb sd' sd then v else f sd'.
Definition has_layer (st : mem) (sd : side) (ln : Z) : bool :=
  existsb (fun x => x =? ln) (m_lorder st sd).

(* ---------- extract_strokes: runs -> cells ---------- *)
(* one run of a layer: a fresh Border object with the run's order, then set_cell_border along it *)
Definition apply_run (inb : Z -> Z -> bool) (sd : side) (ln : Z)
           (acc : (oid -> option border_obj) * (key -> option oid) * nat) (r : run)
  : (oid -> option border_obj) * (key -> option oid) * nat :=
  let '(heap, cells, n) := acc in
  let v := FromRun n in
  let heap' := fun o => if oid_eqb o v then Some {| bo_attrs := r_attrs r; bo_order := r_order r |} else heap o in
  let cells' :=
    match sd with
    | STop | SBottom => set_along heap' inb cells sd ln (r_origin r) (Z.to_nat (r_length r)) v
    | _ => set_along heap' inb cells sd (r_origin r) ln (Z.to_nat (r_length r)) v
    end in
  (heap', cells', S n).

Definition apply_layer (inb : Z -> Z -> bool) (layers : side -> Z -> list run) (sd : side)
           (acc : (oid -> option border_obj) * (key -> option oid) * nat) (ln : Z) :=
  fold_left (apply_run inb sd ln) (layers sd ln) acc.

Definition apply_side (inb : Z -> Z -> bool) (layers : side -> Z -> list run) (lorder : side -> list Z)
           (acc : (oid -> option border_obj) * (key -> option oid) * nat) (sd : side) :=
  fold_left (apply_layer inb layers sd) (lorder sd) acc.

(* extract_strokes: top, left, right, bottom - once per opened document *)
Definition ensure_extracted (st : mem) : mem :=
  if m_extracted st then st
  else
    let '(heap, cells, n) :=
      fold_left (apply_side (in_table st) (m_layers st) (m_lorder st))
                [STop; SLeft; SRight; SBottom] (m_heap st, m_cells st, m_nruns st) in
    {| m_nr := m_nr st; m_nc := m_nc st; m_heap := heap; m_cells := cells; m_extracted := true;
       m_nruns := n; m_max := m_max st; m_layers := m_layers st; m_lorder := m_lorder st |}.

(* ---------- Table.set_cell_border ---------- *)
Section WithObjects2.
Variable objs : nat -> attrs.

Definition stamp (heap : oid -> option border_obj) (s : stroke) (k : Z) : oid -> option border_obj :=
  fun o => if oid_eqb o (User (s_obj s))
           then Some {| bo_attrs := match heap o with Some b => bo_attrs b | None => objs (s_obj s) end; bo_order := k |}
           else heap o.

(* the caller's Border object: made with _order = 0 the first time it is seen *)
Definition with_obj (heap : oid -> option border_obj) (s : stroke) : oid -> option border_obj :=
  fun o => if oid_eqb o (User (s_obj s))
           then match heap o with Some b => Some b | None => Some {| bo_attrs := objs (s_obj s); bo_order := 0 |} end
           else heap o.

Definition new_run (s : stroke) (k : Z) (heap : oid -> option border_obj) : run :=
  {| r_origin := s_origin s; r_length := s_len s; r_order := k;
     r_attrs := match heap (User (s_obj s)) with Some b => bo_attrs b | None => objs (s_obj s) end |}.

(* model.add_stroke: stamp, then patch or create the layer *)
Definition add_stroke (s : stroke) (st : mem) : mem :=
  let k := m_max st + 1 in
  let heap := stamp (m_heap st) s k in
  let sd := s_side s in let ln := layer_line s in
  let nr_ := new_run s k heap in
  let present := has_layer st sd ln in
  {| m_nr := m_nr st; m_nc := m_nc st; m_heap := heap; m_cells := m_cells st;
     m_extracted := m_extracted st; m_nruns := m_nruns st; m_max := k;
     m_layers := upd_layers (m_layers st) sd ln
                   (if present then patch_layer nr_ (m_layers st sd ln) else [nr_]);
     m_lorder := if present then m_lorder st else upd_lorder (m_lorder st) sd (m_lorder st sd ++ [ln]) |}.

Definition update_cells (s : stroke) (st : mem) : mem :=
  {| m_nr := m_nr st; m_nc := m_nc st; m_heap := m_heap st;
     m_cells := set_along (m_heap st) (in_table st) (m_cells st) (s_side s) (s_row s) (s_col s)
                          (Z.to_nat (s_len s)) (User (s_obj s));
     m_extracted := m_extracted st; m_nruns := m_nruns st; m_max := m_max st;
     m_layers := m_layers st; m_lorder := m_lorder st |}.

Definition see_obj (s : stroke) (st : mem) : mem :=
  {| m_nr := m_nr st; m_nc := m_nc st; m_heap := with_obj (m_heap st) s; m_cells := m_cells st;
     m_extracted := m_extracted st; m_nruns := m_nruns st; m_max := m_max st;
     m_layers := m_layers st; m_lorder := m_lorder st |}.

(* repaired order: extract_strokes; add_stroke (stamp); then the cells *)
Definition do_stroke (s : stroke) (st : mem) : mem :=
  if valid (m_nr st) (m_nc st) s
  then update_cells s (add_stroke s (see_obj s (ensure_extracted st)))
  else st.

End WithObjects2.

(* Cell.border of every cell *)
Definition read_borders (st : mem) : mem := ensure_extracted st.

Definition view (st : mem) (k : key) : option attrs :=
  let st' := ensure_extracted st in
  match m_cells st' k with
  | Some o => match m_heap st' o with Some b => Some (bo_attrs b) | None => None end
  | None => None
  end.

(* what save writes of the borders: the sidecar *)
Definition persisted (st : mem) : Z * (side -> Z -> list run) * (side -> list Z) :=
  (m_max st, m_layers st, m_lorder st).

(* Document(path) on the saved file: no cell has a border object until extract_strokes runs;
   the caller's Border objects live on *)
Definition reopen (st : mem) : mem :=
  {| m_nr := m_nr st; m_nc := m_nc st; m_heap := m_heap st; m_cells := fun _ => None;
     m_extracted := false; m_nruns := m_nruns st; m_max := m_max st;
     m_layers := m_layers st; m_lorder := m_lorder st |}.

Definition empty_table (nr nc max0 : Z) : mem :=
  {| m_nr := nr; m_nc := nc; m_heap := fun _ => None; m_cells := fun _ => None;
     m_extracted := false; m_nruns := O; m_max := max0;
     m_layers := fun _ _ => []; m_lorder := fun _ => [] |}.

Inductive bop : Type :=
| BStroke (s : stroke)
| BRead          (* read every cell's border *)
| BReopen.       (* save and reopen *)

Definition bstep (objs : nat -> attrs) (st : mem) (o : bop) : mem :=
  match o with
  | BStroke s => do_stroke objs s st
  | BRead => read_borders st
  | BReopen => reopen st
  end.
Definition brun (objs : nat -> attrs) (ops : list bop) (st : mem) : mem := fold_left (bstep objs) ops st.

Fixpoint strokes_of (ops : list bop) : list stroke :=
  match ops with
  | [] => []
  | BStroke s :: r => s :: strokes_of r
  | _ :: r => strokes_of r
  end.

(* ---------- the pinned tree ---------- *)
Module Pinned.
  (* cells first - compared with the order the object happens to carry - then add_stroke *)
  Definition do_stroke (objs : nat -> attrs) (s : stroke) (st : mem) : mem :=
    if valid (m_nr st) (m_nc st) s
    then add_stroke objs s (update_cells s (see_obj objs s (ensure_extracted st)))
    else st.
  Definition bstep (objs : nat -> attrs) (st : mem) (o : bop) : mem :=
    match o with
    | BStroke s => do_stroke objs s st
    | BRead => read_borders st
    | BReopen => reopen st
    end.
  Definition brun (objs : nat -> attrs) (ops : list bop) (st : mem) : mem := fold_left (bstep objs) ops st.
End Pinned.
