(* Line protocol for the size / label model (C16).
     line <dflt> <bucket|-> <lo> <hi> <ops>      one row or column through a history
        rationals are  [-]p/q ;  ops are comma separated:
          s<int>  set size      o  observe      b<lo>;<hi>  borders changed
          v  save (stay open)   c  save and reopen
        -> <observations, comma separated> TAB <stored p/q> TAB <bucket p/q|->
     pin <r|c> <dflt> <bucket|-> <lo> <hi> <ops>  the same history on the PINNED code (rows / columns)
     ext <dflt> <bucket|->;<lo>;<hi> ...          Table.height / Table.width of fresh lines
     lab <num_rows> <num_cols> <sheet cps> <table cps> <name_en> <hr> <hc> <caption -|.|cps/cps..> <hidden> <x> <y> <ops>
        ops separated by ';':  C<cps> caption  E<0/1> caption_enabled  N<0/1> table_name_enabled
          T<cps> table name  S<cps> sheet name  R<n> header rows  K<n> header cols  y cycle  g observe
        -> observations separated by ';' (a refused setter prints !ValueError in place) *)
From Coq Require Import ZArith NArith QArith Qround Qreduction List Bool.
From NP Require Import Model.PyBase Model.Sizes.
Import ListNotations.
Open Scope N_scope.

Definition c_comma : chr := 44.
Definition c_semi : chr := 59.
Definition c_slash : chr := 47.
Definition c_bar : chr := 124.
Definition dash : str := [45].
Definition is_dash (s : str) : bool := match s with [45] => true | _ => false end.

Definition parse_Q (s : str) : Q :=
  match split_on_fast c_slash s [] with
  | [p; q] => Qmake (str_to_Z p) (Z.to_pos (str_to_Z q))
  | _ => Qmake (str_to_Z s) 1
  end.
Definition show_Q (q : Q) : str :=
  let r := Qred q in Z_to_str (Qnum r) ++ [c_slash] ++ Z_to_str (Zpos (Qden r)).
Definition parse_oQ (s : str) : option Q := if is_dash s then None else Some (parse_Q s).
Definition show_oQ (o : option Q) : str := match o with None => dash | Some q => show_Q q end.

Definition parse_op (s : str) : option op :=
  match s with
  | 115 :: r => Some (OSet (str_to_Z r))
  | [111] => Some OObserve
  | [118] => Some OSave
  | [99] => Some OCycle
  | 98 :: r => match split_on_fast c_semi r [] with
               | [a; b] => Some (OBorders (parse_Q a) (parse_Q b))
               | _ => None
               end
  | _ => None
  end.

Fixpoint parse_ops (l : list str) : list op :=
  match l with
  | [] => []
  | s :: r => match parse_op s with Some o => o :: parse_ops r | None => parse_ops r end
  end.

Definition mk_line (b lo hi : str) : line :=
  {| bucket := parse_oQ b; explicit := None; memo := None; b_lo := parse_Q lo; b_hi := parse_Q hi |}.

Definition show_run (r : list Z * line) : str :=
  join [c_comma] (map Z_to_str (fst r)) ++ [c_tab] ++ show_Q (stored (snd r)) ++ [c_tab] ++ show_oQ (bucket (snd r)).

(* the pinned code on the same histories *)
Fixpoint run_pinned (is_row : bool) (dflt : Q) (ops : list op) (l : line) : list Z * line :=
  match ops with
  | [] => ([], l)
  | OSet h :: r => run_pinned is_row dflt r (Pinned.set_size h l)
  | OObserve :: r =>
      let '(v, l1) := Pinned.observe dflt l in
      let '(vs, l2) := run_pinned is_row dflt r l1 in (v :: vs, l2)
  | OBorders lo hi :: r => run_pinned is_row dflt r (set_borders lo hi l)
  | OSave :: r => run_pinned is_row dflt r (if is_row then Pinned.save_row l else Pinned.save_col dflt l)
  | OCycle :: r => run_pinned is_row dflt r (if is_row then Pinned.cycle_row l else Pinned.cycle_col dflt l)
  end.
Definition show_run_pinned (r : list Z * line) : str :=
  join [c_comma] (map Z_to_str (fst r)) ++ [c_tab] ++ show_Q (Pinned.stored (snd r)).

Definition parse_fresh (s : str) : line :=
  match split_on_fast c_semi s [] with
  | [b; lo; hi] => mk_line b lo hi
  | _ => mk_line dash [48] [48]
  end.

(* ----- labels ----- *)
Definition parse_cps (s : str) : str :=
  match s with [] => [] | _ => map digits_to_N (split_on_fast c_comma s []) end.
Definition show_cps (s : str) : str := join [c_comma] (map N_to_str s).
Definition flag (s : str) : bool := match s with [49] => true | _ => false end.
Definition show_flag (b : bool) : str := if b then [49] else [48].

(* caption storage texts: "-" stand-in archive, "." empty text list, else items separated by '/'
   where an empty string is written "e" *)
Definition parse_item (s : str) : str := match s with [101] => [] | _ => parse_cps s end.
Definition parse_caption (s : str) : option (list str) :=
  if is_dash s then None
  else match s with
       | [46] => Some []
       | _ => Some (map parse_item (split_on_fast c_slash s []))
       end.

Definition show_labels (b : labels) : str :=
  join [c_bar] [show_cps (sheet_name b); show_cps (table_name b); show_flag (name_enabled b);
                Z_to_str (hdr_rows b); Z_to_str (hdr_cols b); show_cps (get_caption b);
                show_flag (get_caption_enabled b); show_Q (pos_x b); show_Q (pos_y b)].

Fixpoint run_labels (nr nc : Z) (ops : list str) (b : labels) : list str :=
  match ops with
  | [] => []
  | o :: r =>
    match o with
    | 67 :: t => run_labels nr nc r (set_caption (parse_cps t) b)
    | 69 :: t => run_labels nr nc r (set_caption_enabled (flag t) b)
    | 78 :: t => run_labels nr nc r (set_name_enabled (flag t) b)
    | 84 :: t => run_labels nr nc r (set_table_name (parse_cps t) b)
    | 83 :: t => run_labels nr nc r (set_sheet_name (parse_cps t) b)
    | 82 :: t => match set_hdr_rows nr (str_to_Z t) b with
                 | Ok b' => run_labels nr nc r b'
                 | Err e => show_err e :: run_labels nr nc r b
                 end
    | 75 :: t => match set_hdr_cols nc (str_to_Z t) b with
                 | Ok b' => run_labels nr nc r b'
                 | Err e => show_err e :: run_labels nr nc r b
                 end
    | [121] => run_labels nr nc r (cycle_labels b)
    | [103] => show_labels b :: run_labels nr nc r b
    | _ => run_labels nr nc r b
    end
  end.

Definition handle (ln : list N) : list N :=
  match fields_fast ln with
  | [[108;105;110;101]; d; b; lo; hi; ops] =>
      show_run (run (parse_Q d) (parse_ops (split_on_fast c_comma ops [])) (mk_line b lo hi))
  | [[112;105;110]; k; d; b; lo; hi; ops] =>
      show_run_pinned (run_pinned (match k with [114] => true | _ => false end) (parse_Q d)
                         (parse_ops (split_on_fast c_comma ops [])) (mk_line b lo hi))
  | [101;120;116] :: d :: ls => Z_to_str (table_extent (parse_Q d) (map parse_fresh ls))
  | [[108;97;98]; nr; nc; sn; tn; ne; hr; hc; cap; hid; x; y; ops] =>
      join [c_semi] (run_labels (str_to_Z nr) (str_to_Z nc) (split_on_fast c_semi ops [])
        {| sheet_name := parse_cps sn; table_name := parse_cps tn; name_enabled := flag ne;
           hdr_rows := str_to_Z hr; hdr_cols := str_to_Z hc; caption := parse_caption cap;
           cap_hidden := flag hid; pos_x := parse_Q x; pos_y := parse_Q y |})
  | _ => [63]
  end.
