(* Line protocol entry for the C10/C11 A1 model.  One request per line:
     r2c <row> <col> <row_abs 0/1> <col_abs 0/1>     xl_rowcol_to_cell
     c2n <col> <col_abs>                             xl_col_to_name
     c2r <text>                                      xl_cell_to_rowcol
     c2o <text>                                      xl_col_to_offset
     rng <r1> <c1> <r2> <c2>                         xl_range
     c2i <text>                                      tokenizer col_to_index
   fields are tab separated; text is raw (no tab/newline). *)
From Coq Require Import ZArith NArith List Bool.
From NP Require Import Model.PyBase Model.A1.
Import ListNotations.
Open Scope N_scope.

Definition flag (s : list N) : bool := match s with [49] => true | _ => false end.
Definition show_str (r : result (list N)) : list N :=
  match r with Ok s => s | Err e => show_err e end.
Definition show_Z (r : result Z) : list N :=
  match r with Ok z => Z_to_str z | Err e => show_err e end.
Definition show_ZZ (r : result (Z * Z)) : list N :=
  match r with Ok (a, b) => Z_to_str a ++ [c_tab] ++ Z_to_str b | Err e => show_err e end.

Definition handle (line : list N) : list N :=
  match fields line with
  | [[114;50;99]; r; c; ra; ca] => show_str (xl_rowcol_to_cell (str_to_Z r) (str_to_Z c) (flag ra) (flag ca))
  | [[99;50;110]; c; ca] => show_str (xl_col_to_name (str_to_Z c) (flag ca))
  | [[99;50;114]; t] => show_ZZ (xl_cell_to_rowcol t)
  | [[99;50;114]] => show_ZZ (xl_cell_to_rowcol [])
  | [[99;50;111]; t] => show_Z (xl_col_to_offset t)
  | [[99;50;111]] => show_Z (xl_col_to_offset [])
  | [[114;110;103]; r1; c1; r2; c2] => show_str (xl_range (str_to_Z r1) (str_to_Z c1) (str_to_Z r2) (str_to_Z c2))
  | [[99;50;105]; t] => Z_to_str (col_to_index t)
  | _ => [63]
  end.
