(* Styles (C15, small): the dirty-flag rule of Style.__setattr__ and the colour quantisation
   RGB component -> protobuf float32 -> RGB component.

   cell.py  Style._text_attrs / Style._cell_attrs / Style.__setattr__
   model.py add_paragraph_style / add_cell_style ("r": c.r / 255 into a float32 field),
            rgb() (round(obj.r * 255))
   Everything else about styles (which archive field carries which attribute) is exploration in
   harness/c15.py, not modelled. *)
From Coq Require Import ZArith NArith List Bool.
From NP Require Import Model.PyBase.
Import ListNotations.
Open Scope N_scope.

(* ---------- dirty flags ---------- *)
Definition text_attrs : list str := [
  [97;108;105;103;110;109;101;110;116];               (* alignment *)
  [98;111;108;100];                                   (* bold *)
  [102;105;114;115;116;95;105;110;100;101;110;116];   (* first_indent *)
  [102;111;110;116;95;99;111;108;111;114];            (* font_color *)
  [102;111;110;116;95;110;97;109;101];                (* font_name *)
  [102;111;110;116;95;115;105;122;101];               (* font_size *)
  [105;116;97;108;105;99];                            (* italic *)
  [108;101;102;116;95;105;110;100;101;110;116];       (* left_indent *)
  [110;97;109;101];                                   (* name *)
  [114;105;103;104;116;95;105;110;100;101;110;116];   (* right_indent *)
  [115;116;114;105;107;101;116;104;114;111;117;103;104]; (* strikethrough *)
  [116;101;120;116;95;105;110;115;101;116];           (* text_inset *)
  [117;110;100;101;114;108;105;110;101]               (* underline *)
].
Definition cell_attrs : list str := [
  [97;108;105;103;110;109;101;110;116];               (* alignment *)
  [98;103;95;99;111;108;111;114];                     (* bg_color *)
  [98;103;95;105;109;97;103;101];                     (* bg_image *)
  [102;105;114;115;116;95;105;110;100;101;110;116];   (* first_indent *)
  [108;101;102;116;95;105;110;100;101;110;116];       (* left_indent *)
  [114;105;103;104;116;95;105;110;100;101;110;116];   (* right_indent *)
  [116;101;120;116;95;105;110;115;101;116];           (* text_inset *)
  [116;101;120;116;95;119;114;97;112]                 (* text_wrap *)
].
Definition mem_str (a : str) (l : list str) : bool := existsb (str_eqb a) l.

(* Style.__setattr__(name, value): which of _update_text_style / _update_cell_style become True *)
Definition dirty_flags (name : str) : bool * bool := (mem_str name text_attrs, mem_str name cell_attrs).

Record flags : Type := { f_text : bool; f_cell : bool }.
Definition setattr (name : str) (f : flags) : flags :=
  let '(t, c) := dirty_flags name in {| f_text := f_text f || t; f_cell := f_cell f || c |}.

(* ---------- colour quantisation ---------- *)
(* round the positive rational n/d to p significant bits, ties to even: (mantissa, exponent) *)
Definition round_rat (p : Z) (n d : Z) : Z * Z :=
  let e0 := (Z.log2 n - Z.log2 d - (p - 1))%Z in
  let scaled (e : Z) : Z * Z :=      (* numerator, denominator of n/d / 2^e *)
    if (0 <=? e)%Z then (n, d * 2 ^ e)%Z else (n * 2 ^ (- e), d)%Z in
  let pick (e : Z) : Z :=
    let '(a, b) := scaled e in (a / b)%Z in
  let e := if (pick e0 <? 2 ^ (p - 1))%Z then (e0 - 1)%Z
           else if (2 ^ p <=? pick e0)%Z then (e0 + 1)%Z else e0 in
  let '(a, b) := scaled e in
  let q := (a / b)%Z in let r := (a mod b)%Z in
  let m := if (2 * r <? b)%Z then q
           else if (b <? 2 * r)%Z then (q + 1)%Z
           else if Z.even q then q else (q + 1)%Z in
  if (m =? 2 ^ p)%Z then (2 ^ (p - 1), e + 1)%Z else (m, e).

(* Python round() of the exact value m * 2^e, ties to even *)
Definition py_round_dyadic (m e : Z) : Z :=
  if (0 <=? e)%Z then (m * 2 ^ e)%Z
  else let b := (2 ^ (- e))%Z in
       let q := (m / b)%Z in let r := (m mod b)%Z in
       if (2 * r <? b)%Z then q else if (b <? 2 * r)%Z then (q + 1)%Z else if Z.even q then q else (q + 1)%Z.

(* v -> v / 255 (binary64) -> float32 field -> * 255 (binary64, exact: 24 x 8 bits) -> round() *)
Definition colour_roundtrip (v : N) : N :=
  match v with
  | 0 => 0
  | _ =>
    let '(m64, e64) := round_rat 53 (Z.of_N v) 255 in
    let '(m32, e32) :=
      if (0 <=? e64)%Z then round_rat 24 (m64 * 2 ^ e64)%Z 1 else round_rat 24 m64 (2 ^ (- e64))%Z in
    Z.to_N (py_round_dyadic (m32 * 255) e32)
  end.

(* the float32 the file holds for component v, as mantissa and exponent (for the correspondence) *)
Definition colour_f32 (v : N) : Z * Z :=
  match v with
  | 0 => (0, 0)%Z
  | _ =>
    let '(m64, e64) := round_rat 53 (Z.of_N v) 255 in
    if (0 <=? e64)%Z then round_rat 24 (m64 * 2 ^ e64)%Z 1 else round_rat 24 m64 (2 ^ (- e64))%Z
  end.

(* ---------- cell-style fingerprint (model.update_cell_styles) ---------- *)
(* the printed fields, in order: str(vertical), str(first_indent), str(left_indent), str(right_indent),
   str(text_inset), str(text_wrap) [, str(r), str(g), str(b)] [, image filename].
   Repaired code (fixes/C15-2-cell-style-fingerprint.patch): the key is the tuple of the fields.
   Pinned code: their concatenation without separators. *)
Definition fingerprint (fields : list str) : list str := fields.
Definition fingerprint_pinned (fields : list str) : str := concat fields.
