(* Grid: executable mirror of document.Table's in-memory state and editing methods
     _data / num_rows / num_cols, cell, _validate_cell_coords, write, add_row, add_column,
     delete_row, delete_column, iter_rows, iter_cols, merge_cells, merge_ranges
   and of model.MergeCells together with how merges are saved (recalculate_merged_cells)
   and reloaded (calculate_merge_cell_ranges + Table.__init__).
   Cell values are abstract (Z tokens); None is the value of empty cells and placeholders. *)
From Coq Require Import ZArith NArith List Bool Lia.
From NP Require Import Model.PyBase.
Import ListNotations.
Open Scope Z_scope.

Definition MAX_ROW_COUNT : Z := 1000000.   (* tied to Gen.GenConsts in Props *)
Definition MAX_COL_COUNT : Z := 1000.

(* what MergeCells._references holds *)
Inductive mref := RAnchor (h w : Z) | RRef (r0 c0 r1 c1 : Z).
(* the attributes Cell._set_merge leaves on a cell object *)
Inductive mattr := MPlain | MAnchor (h w : Z) | MRef (r0 c0 r1 c1 : Z).

Record cell := { crow : Z; ccol : Z; cval : option Z; cplace : bool (* MergedCell object *); cmerge : mattr }.

Definition mmap := list ((Z * Z) * mref).     (* dict in insertion order; update keeps the position *)
Fixpoint mget (m : mmap) (r c : Z) : option mref :=
  match m with
  | [] => None
  | ((r', c'), v) :: t => if (r =? r') && (c =? c') then Some v else mget t r c
  end.
Fixpoint mset (m : mmap) (r c : Z) (v : mref) : mmap :=
  match m with
  | [] => [((r, c), v)]
  | ((r', c'), v') :: t => if (r =? r') && (c =? c') then ((r', c'), v) :: t else ((r', c'), v') :: mset t r c v
  end.

Definition attr_of (o : option mref) : mattr :=
  match o with Some (RAnchor h w) => MAnchor h w | Some (RRef a b c d) => MRef a b c d | None => MPlain end.
Definition is_ref (m : mmap) (r c : Z) : bool := match mget m r c with Some (RRef _ _ _ _) => true | _ => false end.

Record table := { nrows : Z; ncols : Z; data : list (list cell); merges : mmap }.

Definition empty_cell (m : mmap) (r c : Z) : cell :=
  {| crow := r; ccol := c; cval := None; cplace := false; cmerge := attr_of (mget m r c) |}.
Definition merged_cell (m : mmap) (r c : Z) : cell :=
  {| crow := r; ccol := c; cval := None; cplace := true; cmerge := attr_of (mget m r c) |}.
Definition value_cell (m : mmap) (r c : Z) (v : Z) : cell :=
  {| crow := r; ccol := c; cval := Some v; cplace := false; cmerge := attr_of (mget m r c) |}.

Definition zrange (a b : Z) : list Z := map (fun i => a + Z.of_nat i) (seq 0 (Z.to_nat (b - a))).   (* range(a, b) *)

Definition new_table (nr nc : Z) : table :=
  {| nrows := nr; ncols := nc;
     data := map (fun r => map (fun c => empty_cell [] r c) (zrange 0 nc)) (zrange 0 nr); merges := [] |}.

(* ---- list helpers with Python slice semantics (indices already validated non-negative) ---- *)
Definition insert_at {A} (l : list A) (i : Z) (xs : list A) : list A :=
  firstn (Z.to_nat i) l ++ xs ++ skipn (Z.to_nat i) l.
Definition delete_at {A} (l : list A) (i n : Z) : list A :=
  firstn (Z.to_nat i) l ++ skipn (Z.to_nat (i + n)) l.
Definition delete_last {A} (l : list A) (n : Z) : list A :=        (* del l[-n:] *)
  firstn (length l - Z.to_nat n) l.
Fixpoint set_nth {A} (l : list A) (i : nat) (x : A) : list A :=
  match l, i with
  | [], _ => []
  | _ :: t, O => x :: t
  | h :: t, S i' => h :: set_nth t i' x
  end.
Definition set_cell (d : list (list cell)) (r c : Z) (x : cell) : list (list cell) :=
  match nth_error d (Z.to_nat r) with
  | Some row => set_nth d (Z.to_nat r) (set_nth row (Z.to_nat c) x)
  | None => d
  end.
Definition get_cell (d : list (list cell)) (r c : Z) : option cell :=
  match nth_error d (Z.to_nat r) with Some row => nth_error row (Z.to_nat c) | None => None end.

Definition renum_row (r : Z) (row : list cell) : list cell :=         (* .row = row; .col = col *)
  map (fun p => {| crow := r; ccol := fst p; cval := cval (snd p); cplace := cplace (snd p); cmerge := cmerge (snd p) |})
      (combine (zrange 0 (Z.of_nat (length row))) row).
Definition renum_cols (row : list cell) : list cell :=                (* .col = col only *)
  map (fun p => {| crow := crow (snd p); ccol := fst p; cval := cval (snd p); cplace := cplace (snd p); cmerge := cmerge (snd p) |})
      (combine (zrange 0 (Z.of_nat (length row))) row).
(* for row in range(start, num_rows): renumber *)
Definition renum_from (d : list (list cell)) (start : Z) : list (list cell) :=
  firstn (Z.to_nat start) d ++
  map (fun p => renum_row (fst p) (snd p))
      (combine (zrange start (Z.of_nat (length d))) (skipn (Z.to_nat start) d)).

(* ---- write of a value at a validated position: Cell._from_value + _set_merge ---- *)
Definition put (t : table) (r c v : Z) : table :=
  {| nrows := nrows t; ncols := ncols t; data := set_cell (data t) r c (value_cell (merges t) r c v); merges := merges t |}.

Fixpoint put_all (t : table) (ps : list (Z * Z)) (v : Z) : table :=
  match ps with [] => t | (r, c) :: rest => put_all (put t r c v) rest v end.

(* ---- add_row(num_rows, start_row, default) ---- *)
Definition add_row (t : table) (n : Z) (start : option Z) (default : option Z) : result table :=
  let bad := match start with Some s => (s <? 0) || (nrows t <=? s) | None => false end in
  if bad then Err IndexError else
  let s := match start with Some s => s | None => nrows t end in
  let nr := nrows t + n in
  let rows := map (fun r => map (fun c => empty_cell (merges t) r c) (zrange 0 (ncols t))) (zrange s (s + n)) in
  let d := renum_from (insert_at (data t) s rows) s in
  let t1 := {| nrows := nr; ncols := ncols t; data := d; merges := merges t |} in
  Ok (match default with
      | Some v => put_all t1 (flat_map (fun r => map (fun c => (r, c)) (zrange 0 (ncols t))) (zrange s (s + n))) v
      | None => t1
      end).

(* ---- add_column(num_cols, start_col, default) ---- *)
Definition add_column (t : table) (n : Z) (start : option Z) (default : option Z) : result table :=
  let bad := match start with Some s => (s <? 0) || (ncols t <=? s) | None => false end in
  if bad then Err IndexError else
  let s := match start with Some s => s | None => ncols t end in
  let nc := ncols t + n in
  (* per row: insert the empty cells, renumber columns, then write the default into the new cells *)
  let d := map (fun p =>
              let r := fst p in
              let row := renum_cols (insert_at (snd p) s (map (fun c => empty_cell (merges t) r (s + c)) (zrange 0 n))) in
              match default with
              | Some v => fold_left (fun rw c => set_nth rw (Z.to_nat c) (value_cell (merges t) r c v)) (zrange s (s + n)) row
              | None => row
              end)
            (combine (zrange 0 (nrows t)) (data t)) in
  Ok {| nrows := nrows t; ncols := nc; data := d; merges := merges t |}.

(* ---- delete_row / delete_column ---- *)
Definition delete_row (t : table) (n : Z) (start : option Z) : result table :=
  let bad := match start with Some s => (s <? 0) || (nrows t <=? s) | None => false end in
  if bad then Err IndexError else
  let nr := nrows t - n in
  let d := match start with
           | Some s => renum_from (delete_at (data t) s n) s
           | None => delete_last (data t) n
           end in
  Ok {| nrows := nr; ncols := ncols t; data := d; merges := merges t |}.

Definition delete_column (t : table) (n : Z) (start : option Z) : result table :=
  let bad := match start with Some s => (s <? 0) || (ncols t <=? s) | None => false end in
  if bad then Err IndexError else
  let d := map (fun row => renum_cols (match start with Some s => delete_at row s n | None => delete_last row n end)) (data t) in
  Ok {| nrows := nrows t; ncols := ncols t - n; data := d; merges := merges t |}.

(* ---- _validate_cell_coords: limits (repaired: negatives rejected), then growth by add_row()/add_column() ---- *)
Fixpoint grow_rows (k : nat) (t : table) : table :=
  match k with O => t | S k' => match add_row t 1 None None with Ok t' => grow_rows k' t' | Err _ => t end end.
Fixpoint grow_cols (k : nat) (t : table) : table :=
  match k with O => t | S k' => match add_column t 1 None None with Ok t' => grow_cols k' t' | Err _ => t end end.

Definition validate (t : table) (r c : Z) : result table :=
  if (r <? 0) || (c <? 0) then Err IndexError else
  if MAX_ROW_COUNT <=? r then Err IndexError else
  if MAX_COL_COUNT <=? c then Err IndexError else
  let t1 := grow_rows (Z.to_nat (r + 1 - nrows t)) t in
  Ok (grow_cols (Z.to_nat (c + 1 - ncols t)) t1).

Definition write (t : table) (r c v : Z) : result table :=
  match validate t r c with Ok t1 => Ok (put t1 r c v) | Err e => Err e end.

(* ---- cell(row, col) ---- *)
Definition read (t : table) (r c : Z) : result cell :=
  if (nrows t <=? r) || (r <? 0) then Err IndexError else
  if (ncols t <=? c) || (c <? 0) then Err IndexError else
  match get_cell (data t) r c with Some x => Ok x | None => Err PopEmpty end.

(* ---- iter_rows / iter_cols (repaired: None defaults, inclusive upper bounds checked with >=) ---- *)
Definition py_slice {A} (l : list A) (a b : Z) : list A :=     (* l[a:b] with 0 <= a *)
  firstn (Z.to_nat (b - a)) (skipn (Z.to_nat a) l).

(* repaired: every bound that is given must be a position of the table (a negative end was a Python slice end,
   a start at or past the edge silently gave nothing); bounds left out default to the table's first / last line *)
Definition bound_bad (o : option Z) (n : Z) : bool :=
  match o with Some x => (x <? 0) || (n <=? x) | None => false end.

Definition iter_rows (t : table) (min_row max_row min_col max_col : option Z) : result (list (list cell)) :=
  let r0 := match min_row with Some x => x | None => 0 end in
  let r1 := match max_row with Some x => x | None => nrows t - 1 end in
  let c0 := match min_col with Some x => x | None => 0 end in
  let c1 := match max_col with Some x => x | None => ncols t - 1 end in
  if bound_bad min_row (nrows t) || bound_bad max_row (nrows t) || bound_bad min_col (ncols t) || bound_bad max_col (ncols t)
  then Err IndexError else
  Ok (map (fun r => py_slice (nth (Z.to_nat r) (data t) []) c0 (c1 + 1)) (zrange r0 (r1 + 1))).

Definition iter_cols (t : table) (min_col max_col min_row max_row : option Z) : result (list (list cell)) :=
  let r0 := match min_row with Some x => x | None => 0 end in
  let r1 := match max_row with Some x => x | None => nrows t - 1 end in
  let c0 := match min_col with Some x => x | None => 0 end in
  let c1 := match max_col with Some x => x | None => ncols t - 1 end in
  if bound_bad min_row (nrows t) || bound_bad max_row (nrows t) || bound_bad min_col (ncols t) || bound_bad max_col (ncols t)
  then Err IndexError else
  Ok (map (fun c => flat_map (fun row => match nth_error row (Z.to_nat c) with Some x => [x] | None => [] end)
                             (py_slice (data t) r0 (r1 + 1)))
          (zrange c0 (c1 + 1))).

(* ---- merge_cells(range) with the corners already parsed: (r0,c0)-(r1,c1) ---- *)
Definition refresh (m : mmap) (d : list (list cell)) : list (list cell) :=   (* cell._set_merge(merge_cells.get((row, col))) by position *)
  map (fun p => let r := fst p in
        map (fun q => let c := fst q in let x := snd q in
               {| crow := crow x; ccol := ccol x; cval := cval x; cplace := cplace x; cmerge := attr_of (mget m r c) |})
            (combine (zrange 0 (Z.of_nat (length (snd p)))) (snd p)))
      (combine (zrange 0 (Z.of_nat (length d))) d).

Definition merge_cells (t : table) (r0 c0 r1 c1 : Z) : result table :=
  (* repaired: every cell of the rectangle except the anchor becomes a placeholder *)
  let m0 := mset (merges t) r0 c0 (RAnchor (r1 - r0 + 1) (c1 - c0 + 1)) in
  let cellsR := filter (fun p => negb ((fst p =? r0) && (snd p =? c0)))
                       (flat_map (fun r => map (fun c => (r, c)) (zrange c0 (c1 + 1))) (zrange r0 (r1 + 1))) in
  if existsb (fun p => match get_cell (data t) (fst p) (snd p) with None => true | Some _ => false end) cellsR
  then Err PopEmpty    (* self._data[row][col] beyond the table: IndexError from list indexing *)
  else
  let step (st : mmap * list (list cell)) (p : Z * Z) :=
      let '(r, c) := p in
      let m := fst st in
      (* Cell._merged_cell reads merge_cells.get before add_reference updates it *)
      let d := set_cell (snd st) r c (merged_cell m r c) in
      (mset m r c (RRef r0 c0 r1 c1), d) in
  let '(m1, d1) := fold_left step cellsR (m0, data t) in
  Ok {| nrows := nrows t; ncols := ncols t; data := refresh m1 d1; merges := m1 |}.

(* merge_ranges: anchors found by scanning the cells' own attributes at their current positions *)
Definition merge_ranges (t : table) : list (Z * Z * Z * Z) :=
  flat_map (fun p => let r := fst p in
     flat_map (fun q => let c := fst q in
        match cmerge (snd q) with MAnchor h w => [(r, c, r + h - 1, c + w - 1)] | _ => [] end)
        (combine (zrange 0 (Z.of_nat (length (snd p)))) (snd p)))
    (combine (zrange 0 (Z.of_nat (length (data t)))) (data t)).

(* ---- save + reopen ---- *)
(* recalculate_merged_cells: origin = col << 16 | row, size = ncols << 16 | nrows (uint32 fields);
   calculate_merge_cell_ranges unpacks with >> 16 and & 0xFFFF *)
Definition pack16 (hi lo : Z) : Z := Z.lor (Z.shiftl hi 16) lo.
Definition reload_merges (m : mmap) : mmap :=
  fold_left (fun acc e =>
      match e with
      | ((r, c), RAnchor h w) =>
        let o := pack16 c r in let s := pack16 w h in
        let c0 := Z.shiftr o 16 in let r0 := Z.land o 65535 in
        let nw := Z.shiftr s 16 in let nh := Z.land s 65535 in
        let r1 := r0 + nh - 1 in let c1 := c0 + nw - 1 in
        let acc1 := fold_left (fun a p => mset a (fst p) (snd p) (RRef r0 c0 r1 c1))
                              (flat_map (fun rr => map (fun cc => (rr, cc)) (zrange c0 (c1 + 1))) (zrange r0 (r1 + 1))) acc in
        mset acc1 r0 c0 (RAnchor nh nw)
      | _ => acc
      end) m [].

Definition reopen (t : table) : table :=
  let m := reload_merges (merges t) in
  let nr := Z.of_nat (length (data t)) in
  (* repaired (C03-5): a table without rows keeps its declared column count *)
  let nc := if nr =? 0 then ncols t else Z.of_nat (length (nth 0 (data t) [])) in
  {| nrows := nr; ncols := nc;
     data := map (fun p => let r := fst p in
               map (fun q => let c := fst q in let x := snd q in
                    if is_ref m r c then merged_cell m r c
                    else match cval x with
                         | Some v => if cplace x then empty_cell m r c else value_cell m r c v
                         | None => empty_cell m r c
                         end)
                   (combine (zrange 0 nc) (snd p)))
             (combine (zrange 0 nr) (data t));
     merges := m |}.
