(* DateFormat: executable mirror of the date/time display path of numbers_parser
     constants.py : DATETIME_FIELD_MAP, _days_occurred_in_month, _day_of_year, _week_of_month
     cell.py      : _decode_date_format_field, _decode_date_format, Formatting.__post_init__ (datetime branch)
   and of the parts of CPython's datetime / the C library's strftime they call:
     proleptic Gregorian ordinal (datetime._ymd2ord / _ord2ymd), weekday(), tm_yday,
     strftime conversions %p %A %a %Y %y %B %b %m %d %H %I %S %W with the glibc '-' flag (C locale).
   The documented meaning of each directive (docs/api/datetime.rst) is [spec_directive].

   The model mirrors the REPAIRED tree (fixes/C14-*.patch):
     k / kk            : str(x.hour or 24)          (pinned: str(x.hour).replace("0", "24"), kept as [pinned_k])
     doubled quote     : '' ends a directive run    (pinned: the run continued after the quote)
     letters           : only ASCII letters form directive runs (pinned: str.isalpha)
     validator         : quoted text is skipped     (pinned: letters inside quotes were validated as directives)
   Open findings stay as the code has them: `y` -> %Y, `ww` -> %W (zero padded). *)
From Coq Require Import ZArith NArith List Bool String Ascii.
From NP Require Import Model.PyBase Model.A1.
Import ListNotations.
Open Scope Z_scope.

(* string literals as code point lists *)
Definition L (s : string) : list N := List.map N_of_ascii (list_ascii_of_string s).

(* ------------------------------------------------------------------ *)
(* datetime value                                                      *)
(* ------------------------------------------------------------------ *)
Record dt := mkdt { year : Z; month : Z; day : Z; hour : Z; minute : Z; second : Z; micro : Z }.

(* ------------------------------------------------------------------ *)
(* proleptic Gregorian calendar (CPython datetime)                      *)
(* ------------------------------------------------------------------ *)
Definition is_leap (y : Z) : bool :=
  (y mod 4 =? 0) && (negb (y mod 100 =? 0) || (y mod 400 =? 0)).

(* _DAYS_IN_MONTH, with February adjusted *)
Definition days_in_month (y m : Z) : Z :=
  match m with
  | 1 => 31 | 2 => if is_leap y then 29 else 28 | 3 => 31 | 4 => 30 | 5 => 31 | 6 => 30
  | 7 => 31 | 8 => 31 | 9 => 30 | 10 => 31 | 11 => 30 | 12 => 31 | _ => 0
  end.

(* _DAYS_BEFORE_MONTH *)
Definition days_before_month_tbl (m : Z) : Z :=
  match m with
  | 1 => 0 | 2 => 31 | 3 => 59 | 4 => 90 | 5 => 120 | 6 => 151
  | 7 => 181 | 8 => 212 | 9 => 243 | 10 => 273 | 11 => 304 | 12 => 334 | _ => 0
  end.

(* _days_before_month(year, month) *)
Definition days_before_month (y m : Z) : Z :=
  days_before_month_tbl m + (if (2 <? m) && is_leap y then 1 else 0).

(* _days_before_year(year) *)
Definition days_before_year (y : Z) : Z :=
  let y1 := y - 1 in y1 * 365 + y1 / 4 - y1 / 100 + y1 / 400.

(* _ymd2ord / date.toordinal(): 0001-01-01 is day 1 *)
Definition days_from_civil (y m d : Z) : Z :=
  days_before_year y + days_before_month y m + d.

(* date.weekday(): Monday = 0 *)
Definition weekday (y m d : Z) : Z := (days_from_civil y m d + 6) mod 7.

(* timetuple().tm_yday *)
Definition day_of_year (y m d : Z) : Z := days_before_month y m + d.

(* _ord2ymd, second half: month and day from the zero based day of the year *)
Definition ord_month_day (leapyear : bool) (n : Z) : Z * Z :=
  let mo := (n + 50) / 32 in                                   (* (n + 50) >> 5 *)
  let preceding := days_before_month_tbl mo + (if (2 <? mo) && leapyear then 1 else 0) in
  if n <? preceding then
    let mo' := mo - 1 in
    let dim := match mo' with 2 => if leapyear then 29 else 28
               | 4 => 30 | 6 => 30 | 9 => 30 | 11 => 30 | _ => 31 end in
    (mo', n - (preceding - dim) + 1)
  else (mo, n - preceding + 1).

(* _ord2ymd *)
Definition civil_from_days (n0 : Z) : Z * Z * Z :=
  let n := n0 - 1 in
  let n400 := n / 146097 in let n := n mod 146097 in
  let n100 := n / 36524 in let n := n mod 36524 in
  let n4 := n / 1461 in let n := n mod 1461 in
  let n1 := n / 365 in let n := n mod 365 in
  let y := n400 * 400 + 1 + n100 * 100 + n4 * 4 + n1 in
  if (n1 =? 4) || (n100 =? 4) then (y - 1, 12, 31)
  else
    let leapyear := (n1 =? 3) && (negb (n4 =? 24) || (n100 =? 3)) in
    let '(mo, dd) := ord_month_day leapyear n in (y, mo, dd).

Definition valid_date (y m d : Z) : Prop :=
  1 <= y <= 9999 /\ 1 <= m <= 12 /\ 1 <= d <= days_in_month y m.

Definition valid_dt (t : dt) : Prop :=
  valid_date (year t) (month t) (day t) /\
  0 <= hour t < 24 /\ 0 <= minute t < 60 /\ 0 <= second t < 60 /\ 0 <= micro t < 1000000.

Definition valid_dtb (t : dt) : bool :=
  (1 <=? year t) && (year t <=? 9999) && (1 <=? month t) && (month t <=? 12) &&
  (1 <=? day t) && (day t <=? days_in_month (year t) (month t)) &&
  (0 <=? hour t) && (hour t <? 24) && (0 <=? minute t) && (minute t <? 60) &&
  (0 <=? second t) && (second t <? 60) && (0 <=? micro t) && (micro t <? 1000000).

(* ------------------------------------------------------------------ *)
(* Python string helpers                                               *)
(* ------------------------------------------------------------------ *)
(* str(n) for n >= 0 *)
Definition istr (z : Z) : str := py_str_N (Z.to_N z).
(* s.zfill(w) for unsigned s *)
Definition zfill (w : nat) (s : str) : str := repeat 48%N (w - List.length s)%nat ++ s.
Arguments zfill w%nat s.
(* s.lower() on ASCII *)
Definition lower (s : str) : str := List.map (fun c => if is_upper c then (c + 32)%N else c) s.
(* s.replace("0", "24") *)
Fixpoint replace_0_24 (s : str) : str :=
  match s with [] => [] | c :: r => if (c =? 48)%N then 50%N :: 52%N :: replace_0_24 r else c :: replace_0_24 r end.

(* ------------------------------------------------------------------ *)
(* strftime (glibc, C locale, as reached through datetime.strftime)     *)
(* ------------------------------------------------------------------ *)
Definition day_names : list str :=
  [L"Monday"; L"Tuesday"; L"Wednesday"; L"Thursday"; L"Friday"; L"Saturday"; L"Sunday"].
Definition day_abbrs : list str := [L"Mon"; L"Tue"; L"Wed"; L"Thu"; L"Fri"; L"Sat"; L"Sun"].
Definition month_names : list str :=
  [L"January"; L"February"; L"March"; L"April"; L"May"; L"June"; L"July"; L"August";
   L"September"; L"October"; L"November"; L"December"].
Definition month_abbrs : list str :=
  [L"Jan"; L"Feb"; L"Mar"; L"Apr"; L"May"; L"Jun"; L"Jul"; L"Aug"; L"Sep"; L"Oct"; L"Nov"; L"Dec"].
Definition ampm_names : list str := [L"AM"; L"PM"].

Definition nth_str (l : list str) (i : Z) : str := nth (Z.to_nat i) l [].

Definition hour12 (h : Z) : Z := let r := h mod 12 in if r =? 0 then 12 else r.

(* %W: (tm_yday + 7 - ((tm_wday - 1 + 7) % 7)) / 7 with tm_yday zero based and
   (tm_wday - 1 + 7) % 7 = Python's weekday() *)
Definition week_W (yday wd : Z) : Z := (yday - 1 + 7 - wd) / 7.

Definition strf_conv (minus : bool) (c : N) (t : dt) : option str :=
  let num (w : nat) (v : Z) := if minus then istr v else zfill w (istr v) in
  let wd := weekday (year t) (month t) (day t) in
  match c with
  | 112%N (* p *) => Some (nth_str ampm_names (if hour t <? 12 then 0 else 1))
  | 65%N  (* A *) => Some (nth_str day_names wd)
  | 97%N  (* a *) => Some (nth_str day_abbrs wd)
  | 89%N  (* Y *) => Some (istr (year t))          (* glibc: no padding of years < 1000 *)
  | 121%N (* y *) => Some (num 2%nat (year t mod 100))
  | 66%N  (* B *) => Some (nth_str month_names (month t - 1))
  | 98%N  (* b *) => Some (nth_str month_abbrs (month t - 1))
  | 109%N (* m *) => Some (num 2%nat (month t))
  | 100%N (* d *) => Some (num 2%nat (day t))
  | 72%N  (* H *) => Some (num 2%nat (hour t))
  | 73%N  (* I *) => Some (num 2%nat (hour12 (hour t)))
  | 83%N  (* S *) => Some (num 2%nat (second t))
  | 87%N  (* W *) => Some (num 2%nat (week_W (day_of_year (year t) (month t) (day t)) wd))
  | _ => None
  end.

Fixpoint strftime (fmt : str) (t : dt) : str :=
  match fmt with
  | [] => []
  | c :: rest =>
    if (c =? 37)%N then
      match rest with
      | c1 :: rest1 =>
        if (c1 =? 45)%N then
          match rest1 with
          | c2 :: rest2 =>
            match strf_conv true c2 t with
            | Some s => s ++ strftime rest2 t
            | None => c :: c1 :: c2 :: strftime rest2 t
            end
          | [] => [c; c1]
          end
        else
          match strf_conv false c1 t with
          | Some s => s ++ strftime rest1 t
          | None => c :: c1 :: strftime rest1 t
          end
      | [] => [c]
      end
    else c :: strftime rest t
  end.

(* ------------------------------------------------------------------ *)
(* constants.py helpers                                                *)
(* ------------------------------------------------------------------ *)
(* int((value - value.replace(day=1)).days / 7) + 1 *)
Definition days_occurred_in_month (t : dt) : Z :=
  (days_from_civil (year t) (month t) (day t) - days_from_civil (year t) (month t) 1) / 7 + 1.
(* value.timetuple().tm_yday *)
Definition py_day_of_year (t : dt) : Z := day_of_year (year t) (month t) (day t).
(* int(ceil((value.day + value.replace(day=1).weekday()) / 7.0)) *)
Definition week_of_month (t : dt) : Z := (day t + weekday (year t) (month t) 1 + 6) / 7.

(* ------------------------------------------------------------------ *)
(* DATETIME_FIELD_MAP                                                  *)
(* ------------------------------------------------------------------ *)
Inductive directive : Type :=
| D_a | D_EEEE | D_EEE | D_yyyy | D_yy | D_y | D_MMMM | D_MMM | D_MM | D_M | D_d | D_dd
| D_DDD | D_DD | D_D | D_HH | D_H | D_hh | D_h | D_k | D_kk | D_K | D_KK | D_mm | D_m
| D_ss | D_s | D_W | D_ww | D_G | D_F | D_S | D_SS | D_SSS | D_SSSS | D_SSSSS.

(* in the order of the OrderedDict *)
Definition all_directives : list directive :=
  [D_a; D_EEEE; D_EEE; D_yyyy; D_yy; D_y; D_MMMM; D_MMM; D_MM; D_M; D_d; D_dd;
   D_DDD; D_DD; D_D; D_HH; D_H; D_hh; D_h; D_k; D_kk; D_K; D_KK; D_mm; D_m;
   D_ss; D_s; D_W; D_ww; D_G; D_F; D_S; D_SS; D_SSS; D_SSSS; D_SSSSS].

Definition key (d : directive) : str :=
  match d with
  | D_a => L"a" | D_EEEE => L"EEEE" | D_EEE => L"EEE" | D_yyyy => L"yyyy" | D_yy => L"yy" | D_y => L"y"
  | D_MMMM => L"MMMM" | D_MMM => L"MMM" | D_MM => L"MM" | D_M => L"M" | D_d => L"d" | D_dd => L"dd"
  | D_DDD => L"DDD" | D_DD => L"DD" | D_D => L"D" | D_HH => L"HH" | D_H => L"H" | D_hh => L"hh" | D_h => L"h"
  | D_k => L"k" | D_kk => L"kk" | D_K => L"K" | D_KK => L"KK" | D_mm => L"mm" | D_m => L"m"
  | D_ss => L"ss" | D_s => L"s" | D_W => L"W" | D_ww => L"ww" | D_G => L"G" | D_F => L"F"
  | D_S => L"S" | D_SS => L"SS" | D_SSS => L"SSS" | D_SSSS => L"SSSS" | D_SSSSS => L"SSSSS"
  end.

(* a map entry is either a strftime format (plain string) or a lambda *)
Inductive entry := Strf (fmt : str) | Lam (src : str).

Definition entry_of (d : directive) : entry :=
  match d with
  | D_a => Lam (L"lambda x: x.strftime('%p').lower()")
  | D_EEEE => Strf (L"%A") | D_EEE => Strf (L"%a")
  | D_yyyy => Strf (L"%Y") | D_yy => Strf (L"%y") | D_y => Strf (L"%Y")
  | D_MMMM => Strf (L"%B") | D_MMM => Strf (L"%b") | D_MM => Strf (L"%m") | D_M => Strf (L"%-m")
  | D_d => Strf (L"%-d") | D_dd => Strf (L"%d")
  | D_DDD => Lam (L"lambda x: str(_day_of_year(x)).zfill(3)")
  | D_DD => Lam (L"lambda x: str(_day_of_year(x)).zfill(2)")
  | D_D => Lam (L"lambda x: str(_day_of_year(x)).zfill(1)")
  | D_HH => Strf (L"%H") | D_H => Strf (L"%-H") | D_hh => Strf (L"%I") | D_h => Strf (L"%-I")
  | D_k => Lam (L"lambda x: str(x.hour or 24)")
  | D_kk => Lam (L"lambda x: str(x.hour or 24).zfill(2)")
  | D_K => Lam (L"lambda x: str(x.hour % 12)")
  | D_KK => Lam (L"lambda x: str(x.hour % 12).zfill(2)")
  | D_mm => Lam (L"lambda x: str(x.minute).zfill(2)")
  | D_m => Lam (L"lambda x: str(x.minute)")
  | D_ss => Strf (L"%S")
  | D_s => Lam (L"lambda x: str(x.second)")
  | D_W => Lam (L"lambda x: str(_week_of_month(x) - 1)")
  | D_ww => Strf (L"%W")
  | D_G => Strf (L"AD")
  | D_F => Lam (L"lambda x: _days_occurred_in_month(x)")
  | D_S => Lam (L"lambda x: str(x.microsecond).zfill(6)[0]")
  | D_SS => Lam (L"lambda x: str(x.microsecond).zfill(6)[0:2]")
  | D_SSS => Lam (L"lambda x: str(x.microsecond).zfill(6)[0:3]")
  | D_SSSS => Lam (L"lambda x: str(x.microsecond).zfill(6)[0:4]")
  | D_SSSSS => Lam (L"lambda x: str(x.microsecond).zfill(6)[0:5]")
  end.

(* the source text of each entry as ast.unparse prints it: tied to /repo by Gen/GenC14.v *)
Definition entry_src (d : directive) : str :=
  match entry_of d with Strf f => [39%N] ++ f ++ [39%N] | Lam s => s end.
Definition modelled_field_map : list (str * str) :=
  List.map (fun d => (key d, entry_src d)) all_directives.
Definition modelled_helpers : list (str * str) :=
  [(L"_days_occurred_in_month", L"n_days = int((value - value.replace(day=1)).days / 7) + 1; return str(n_days)");
   (L"_day_of_year", L"return value.timetuple().tm_yday");
   (L"_week_of_month", L"return int(ceil((value.day + value.replace(day=1).weekday()) / 7.0))")].

(* the lambdas *)
Definition micro_prefix (n : nat) (t : dt) : str := firstn n (zfill 6 (istr (micro t))).
Arguments micro_prefix n%nat t.
Definition k_hour (t : dt) : Z := if hour t =? 0 then 24 else hour t.     (* x.hour or 24 *)

Definition lam (d : directive) (t : dt) : str :=
  match d with
  | D_a => lower (strftime (L"%p") t)
  | D_DDD => zfill 3 (istr (py_day_of_year t))
  | D_DD => zfill 2 (istr (py_day_of_year t))
  | D_D => zfill 1 (istr (py_day_of_year t))
  | D_k => istr (k_hour t)
  | D_kk => zfill 2 (istr (k_hour t))
  | D_K => istr (hour t mod 12)
  | D_KK => zfill 2 (istr (hour t mod 12))
  | D_mm => zfill 2 (istr (minute t))
  | D_m => istr (minute t)
  | D_s => istr (second t)
  | D_W => istr (week_of_month t - 1)
  | D_F => istr (days_occurred_in_month t)
  | D_S => micro_prefix 1 t
  | D_SS => micro_prefix 2 t
  | D_SSS => micro_prefix 3 t
  | D_SSSS => micro_prefix 4 t
  | D_SSSSS => micro_prefix 5 t
  | _ => []
  end.

(* the pinned tree's k / kk *)
Definition pinned_k (t : dt) : str := replace_0_24 (istr (hour t)).
Definition pinned_kk (t : dt) : str := zfill 2 (replace_0_24 (istr (hour t))).

(* DATETIME_FIELD_MAP[field] applied as _decode_date_format_field does *)
Definition render_directive (d : directive) (t : dt) : str :=
  match entry_of d with
  | Strf f => strftime f t
  | Lam _ => lam d t
  end.

Definition lookup (field : str) : option directive :=
  find (fun d => str_eqb (key d) field) all_directives.

(* _decode_date_format_field: unknown field -> warning + "" *)
Definition decode_field (t : dt) (field : str) : str :=
  match lookup field with Some d => render_directive d t | None => [] end.

(* ------------------------------------------------------------------ *)
(* the documented meaning (docs/api/datetime.rst)                      *)
(* ------------------------------------------------------------------ *)
(* number of k in lo..lo+n-1 with p k *)
Fixpoint count_from (p : Z -> bool) (lo : Z) (n : nat) : Z :=
  match n with O => 0 | S n' => (if p lo then 1 else 0) + count_from p (lo + 1) n' end.

(* day of the year: days of the preceding months plus the day *)
Fixpoint sum_months (y : Z) (m : Z) (n : nat) : Z :=
  match n with O => 0 | S n' => days_in_month y m + sum_months y (m + 1) n' end.
Definition doc_day_of_year (t : dt) : Z := sum_months (year t) 1 (Z.to_nat (month t - 1)) + day t.

(* "Week number in the month (first week is zero)": weeks start on Monday as for `ww`,
   so the number of Mondays after the 1st, up to and including the day *)
Definition doc_week_of_month (t : dt) : Z :=
  count_from (fun k => weekday (year t) (month t) k =? 0) 2 (Z.to_nat (day t - 1)).

(* "Week number of the year (Monday as the first day of the week)", 0 before the first Monday:
   the number of Mondays from 1 January up to and including the day *)
Definition doc_week_of_year (t : dt) : Z :=
  let j1 := days_from_civil (year t) 1 1 in
  count_from (fun n => (n + 6) mod 7 =? 0) j1 (Z.to_nat (days_from_civil (year t) (month t) (day t) - j1 + 1)).

(* "How many times the day of [the week] falls in the month" *)
Definition doc_nth_weekday (t : dt) : Z :=
  let w := weekday (year t) (month t) (day t) in
  count_from (fun k => weekday (year t) (month t) k =? w) 1 (Z.to_nat (day t)).

Inductive docform := Num (width : nat) (v : Z) | Name (s : str).
Arguments Num width%nat v%Z.

Definition doc_field (d : directive) (t : dt) : docform :=
  let wd := weekday (year t) (month t) (day t) in
  match d with
  | D_a => Name (if hour t <? 12 then L"am" else L"pm")
  | D_EEEE => Name (nth_str [L"Monday"; L"Tuesday"; L"Wednesday"; L"Thursday"; L"Friday"; L"Saturday"; L"Sunday"] wd)
  | D_EEE => Name (nth_str [L"Mon"; L"Tue"; L"Wed"; L"Thu"; L"Fri"; L"Sat"; L"Sun"] wd)
  | D_yyyy => Num 1 (year t)
  | D_yy => Num 2 (year t mod 100)
  | D_y => Num 1 (year t mod 100)
  | D_MMMM => Name (nth_str [L"January"; L"February"; L"March"; L"April"; L"May"; L"June"; L"July"; L"August";
                             L"September"; L"October"; L"November"; L"December"] (month t - 1))
  | D_MMM => Name (nth_str [L"Jan"; L"Feb"; L"Mar"; L"Apr"; L"May"; L"Jun"; L"Jul"; L"Aug"; L"Sep"; L"Oct"; L"Nov"; L"Dec"]
                           (month t - 1))
  | D_MM => Num 2 (month t) | D_M => Num 1 (month t)
  | D_d => Num 1 (day t) | D_dd => Num 2 (day t)
  | D_DDD => Num 3 (doc_day_of_year t) | D_DD => Num 2 (doc_day_of_year t) | D_D => Num 1 (doc_day_of_year t)
  | D_HH => Num 2 (hour t) | D_H => Num 1 (hour t)
  | D_hh => Num 2 ((hour t + 11) mod 12 + 1) | D_h => Num 1 ((hour t + 11) mod 12 + 1)
  | D_k => Num 1 ((hour t + 23) mod 24 + 1) | D_kk => Num 2 ((hour t + 23) mod 24 + 1)
  | D_K => Num 1 (if hour t <? 12 then hour t else hour t - 12)
  | D_KK => Num 2 (if hour t <? 12 then hour t else hour t - 12)
  | D_mm => Num 2 (minute t) | D_m => Num 1 (minute t)
  | D_ss => Num 2 (second t) | D_s => Num 1 (second t)
  | D_W => Num 1 (doc_week_of_month t)
  | D_ww => Num 1 (doc_week_of_year t)
  | D_G => Name (L"AD")
  | D_F => Num 1 (doc_nth_weekday t)
  | D_S => Num 1 (micro t / 100000)
  | D_SS => Num 2 (micro t / 10000)
  | D_SSS => Num 3 (micro t / 1000)
  | D_SSSS => Num 4 (micro t / 100)
  | D_SSSSS => Num 5 (micro t / 10)
  end.

(* documented range of the numeric directives (Example column) *)
Definition doc_range (d : directive) : option (Z * Z) :=
  match d with
  | D_a | D_EEEE | D_EEE | D_MMMM | D_MMM | D_G => None
  | D_yyyy => Some (1, 9999)
  | D_yy | D_y => Some (0, 99)
  | D_MM | D_M => Some (1, 12)
  | D_d | D_dd => Some (1, 31)
  | D_DDD | D_DD | D_D => Some (1, 366)
  | D_HH | D_H => Some (0, 23)
  | D_hh | D_h => Some (1, 12)
  | D_k | D_kk => Some (1, 24)
  | D_K | D_KK => Some (0, 11)
  | D_mm | D_m | D_ss | D_s => Some (0, 59)
  | D_W => Some (0, 5)
  | D_ww => Some (0, 53)
  | D_F => Some (1, 5)
  | D_S => Some (0, 9) | D_SS => Some (0, 99) | D_SSS => Some (0, 999)
  | D_SSSS => Some (0, 9999) | D_SSSSS => Some (0, 99999)
  end.

Definition spec_directive (d : directive) (t : dt) : str :=
  match doc_field d t with
  | Num w v => zfill w (istr v)
  | Name s => s
  end.

(* ------------------------------------------------------------------ *)
(* _decode_date_format                                                 *)
(* ------------------------------------------------------------------ *)
Definition is_alpha (c : chr) : bool := is_upper c || is_lower c.   (* isascii() and isalpha() *)
Definition c_quote : chr := 39%N.

(* what the scanner appends to `result`: a character, or the rendering of a field *)
Inductive item := Out (c : chr) | Field (f : str).

Definition flush (in_field : bool) (field : str) : list item :=
  if in_field then [Field field] else [].

(* one iteration of the while loop per character (two for a doubled quote);
   emits what the loop appends to `result`, in order *)
Fixpoint scan (cs : str) (in_string in_field : bool) (field : str) {struct cs} : list item :=
  match cs with
  | [] => flush in_field field
  | c :: rest =>
    if (c =? c_quote)%N then
      match rest with
      | [] => flush in_field field                        (* next_char is None: break *)
      | c2 :: rest2 =>
        if (c2 =? c_quote)%N then
          flush in_field field ++ Out c_quote :: scan rest2 in_string false []
        else if in_string then scan rest false in_field field
        else flush in_field field ++ scan rest true false []
      end
    else if in_string then Out c :: scan rest in_string in_field field
    else if negb (is_alpha c) then flush in_field field ++ Out c :: scan rest in_string false []
    else if in_field then scan rest in_string true (field ++ [c])
    else scan rest in_string true [c]
  end.

(* the pinned tree's scanner: a doubled quote does not end the directive run *)
Fixpoint scan_pinned (cs : str) (in_string in_field : bool) (field : str) {struct cs} : list item :=
  match cs with
  | [] => flush in_field field
  | c :: rest =>
    if (c =? c_quote)%N then
      match rest with
      | [] => flush in_field field
      | c2 :: rest2 =>
        if (c2 =? c_quote)%N then Out c_quote :: scan_pinned rest2 in_string in_field field
        else if in_string then scan_pinned rest false in_field field
        else flush in_field field ++ scan_pinned rest true false []
      end
    else if in_string then Out c :: scan_pinned rest in_string in_field field
    else if negb (is_alpha c) then flush in_field field ++ Out c :: scan_pinned rest in_string false []
    else if in_field then scan_pinned rest in_string true (field ++ [c])
    else scan_pinned rest in_string true [c]
  end.

Definition render_item (t : dt) (i : item) : str :=
  match i with Out c => [c] | Field f => decode_field t f end.
Definition render_items (t : dt) (l : list item) : str := flat_map (render_item t) l.

Definition decode_date_format (fmt : str) (t : dt) : str := render_items t (scan fmt false false []).
Definition decode_date_format_pinned (fmt : str) (t : dt) : str := render_items t (scan_pinned fmt false false []).

(* fields for which _decode_date_format_field warns "Unsupported field code" *)
Definition unsupported (l : list item) : list str :=
  flat_map (fun i => match i with Field f => match lookup f with None => [f] | Some _ => [] end | Out _ => [] end) l.

(* ------------------------------------------------------------------ *)
(* Formatting.__post_init__, datetime branch (repaired)                *)
(*   formats = re.sub(r"[^a-zA-Z\s]", " ", re.sub(r"'[^']*'", " ", fmt)).split()
     every element must be a key of DATETIME_FIELD_MAP                  *)
(* ------------------------------------------------------------------ *)
(* position of the next quote *)
Fixpoint until_quote (s : str) : option str :=      (* the text after the next quote *)
  match s with [] => None | c :: r => if (c =? c_quote)%N then Some r else until_quote r end.

(* re.sub(r"'[^']*'", " ", s): leftmost non-overlapping quoted stretches become one space *)
Fixpoint strip_quoted (fuel : nat) (s : str) : str :=
  match fuel with
  | O => s
  | S f =>
    match s with
    | [] => []
    | c :: r =>
      if (c =? c_quote)%N then
        match until_quote r with
        | Some after => 32%N :: strip_quoted f after
        | None => c :: strip_quoted f r
        end
      else c :: strip_quoted f r
    end
  end.

(* maximal runs of ASCII letters: what survives re.sub(r"[^a-zA-Z\s]", " ", .).split() *)
Fixpoint letter_runs (s : str) (cur : str) : list str :=
  match s with
  | [] => match cur with [] => [] | _ => [cur] end
  | c :: r => if is_alpha c then letter_runs r (cur ++ [c])
              else match cur with [] => letter_runs r [] | _ => cur :: letter_runs r [] end
  end.

Definition validate_format (fmt : str) : bool :=
  forallb (fun el => match lookup el with Some _ => true | None => false end)
          (letter_runs (strip_quoted (List.length fmt) fmt) []).

(* pinned validator: no quote handling *)
Definition validate_format_pinned (fmt : str) : bool :=
  forallb (fun el => match lookup el with Some _ => true | None => false end) (letter_runs fmt []).

(* ------------------------------------------------------------------ *)
(* formats as lists of parts (for format_concat)                       *)
(* ------------------------------------------------------------------ *)
Inductive part :=
| PDir (d : directive)        (* a directive *)
| PLit (s : str)              (* unquoted literal text: no ASCII letter, no quote *)
| PQuoted (s : str)           (* quoted text; quotes inside are doubled when written *)
| PQuote.                     (* '' outside quotes: a literal quote *)

Fixpoint escape_quotes (s : str) : str :=
  match s with [] => [] | c :: r => if (c =? c_quote)%N then c_quote :: c_quote :: escape_quotes r else c :: escape_quotes r end.

Definition unparse_part (p : part) : str :=
  match p with
  | PDir d => key d
  | PLit s => s
  | PQuoted s => c_quote :: escape_quotes s ++ [c_quote]
  | PQuote => [c_quote; c_quote]
  end.
Definition unparse (ps : list part) : str := flat_map unparse_part ps.

Definition render_part (t : dt) (p : part) : str :=
  match p with
  | PDir d => render_directive d t
  | PLit s => s
  | PQuoted s => s
  | PQuote => [c_quote]
  end.

(* what the scanner is expected to emit for a part *)
Definition items_of (p : part) : list item :=
  match p with
  | PDir d => [Field (key d)]
  | PLit s => List.map Out s
  | PQuoted s => List.map Out s
  | PQuote => [Out c_quote]
  end.

(* side conditions under which a list of parts can be told apart again in the written format:
   literal text has no ASCII letter and no quote; quoted text is non-empty and does not begin with a quote
   (''' would read as an escaped quote followed by an opening quote - the same text, but '''' would not);
   two directives are not adjacent (their letters would run together); quoted text is not followed by
   another quote ('a''b' is a'b, not ab). *)
Definition part_ok (p : part) : Prop :=
  match p with
  | PLit s => s <> [] /\ Forall (fun c => is_alpha c = false /\ c <> c_quote) s
  | PQuoted s => s <> [] /\ hd 0%N s <> c_quote
  | _ => True
  end.
Definition is_dir (p : part) : bool := match p with PDir _ => true | _ => false end.
Definition quote_head (p : part) : bool := match p with PQuoted _ | PQuote => true | _ => false end.
Fixpoint separable (ps : list part) : Prop :=
  match ps with
  | [] => True
  | p :: rest =>
    part_ok p /\
    match p, rest with
    | PDir _, q :: _ => is_dir q = false
    | PQuoted _, q :: _ => quote_head q = false
    | _, _ => True
    end /\ separable rest
  end.
