(* D128: executable mirror of cell._pack_decimal128 / _unpack_decimal128
   (16-byte decimal128-like layout used for number cells), exact integer arithmetic.
   The Python side obtains (sign, digits, exponent) from decimal.Decimal(str(value)).as_tuple();
   the model starts from that triple. *)
From Coq Require Import ZArith NArith List Bool Lia.
From NP Require Import Model.PyBase.
Import ListNotations.
Open Scope N_scope.

Definition BIAS : Z := 6176.   (* DECIMAL128_BIAS = 0x1820; tied to Gen.GenConsts *)

(* ---- bit layout ---- *)
(* bytes 0..13: mantissa little-endian; byte 14: bit0 = mantissa bit 112, bits 1..7 = low 7 exponent bits;
   byte 15: bits 0..6 = high exponent bits, bit 7 = sign *)
Definition pack_bits (neg : bool) (m : N) (e : N) : list N :=
  le_bytes 14 m ++ [ (e mod 128) * 2 ; e / 128 + (if neg then 128 else 0) ].

Definition unpack_bits (b : list N) : bool * N * Z :=
  let b14 := nth 14 b 0 in
  let b15 := nth 15 b 0 in
  let e := ((b15 mod 128) * 128 + b14 / 2) in
  let m := (b14 mod 2) * 256 ^ 14 + le_val (firstn 14 b) in
  (128 <=? b15, m, (Z.of_N e - BIAS)%Z).

(* ---- normalisation to 17 significant digits (what _pack_decimal128 does) ---- *)
(* input: digit value D, number of digits k (no leading zeros unless D = 0), decimal exponent x: value = D * 10^x *)
Definition normalise (D : N) (k : nat) (x : Z) : N * Z :=
  if D =? 0 then (0, (BIAS - 16)%Z)
  else if Nat.leb k 17 then (D * 10 ^ N.of_nat (17 - k), (x - Z.of_nat (17 - k) + BIAS)%Z)
  else (D / 10 ^ N.of_nat (k - 17), (x + Z.of_nat (k - 17) + BIAS)%Z).

Definition pack_decimal (neg : bool) (D : N) (k : nat) (x : Z) : list N :=
  let '(m, e) := normalise D k x in
  pack_bits neg m (Z.to_N e).

(* the decoded number as an exact decimal: (negative?, mantissa, exponent) meaning (-1)^s * m * 10^e;
   Python then rounds it once: m * 10**e for e >= 0 (int -> float), m / 10**-e otherwise (int / int),
   both correctly rounded by CPython *)
Definition unpack_decimal (b : list N) : bool * N * Z := unpack_bits b.
