(* Line protocol for the cell-record model (C04, also used by C01/C02).
     dec <hex>                                  -> type \t extras \t flags \t v0,...,v18   (hex or -)   | !Error
     enc <kind 0..7> <payload hex> <sidset 0/1> <12 ids or ->   -> hex
     ref <type> <extras> <21 values: hex or ->  -> hex       (reference encoder from the documented layout) *)
From Coq Require Import ZArith NArith List Bool.
From NP Require Import Model.PyBase Model.CellRecord.
Import ListNotations.
Open Scope N_scope.

Definition dash : list N := [45].
Definition is_dash (s : list N) : bool := match s with [45] => true | _ => false end.
Definition show_val (v : option (list N)) : list N := match v with Some b => hex_of_bytes b | None => dash end.
Definition parse_val (s : list N) : option (list N) := if is_dash s then None else Some (bytes_of_hex s).
Definition parse_id (s : list N) : option Z := if is_dash s then None else Some (str_to_Z s).
Definition comma : list N := [44].

Definition kind_of (n : N) : ckind :=
  match n with 0 => KNumber | 1 => KCurrency | 2 => KText | 3 => KDate | 4 => KBool
             | 5 => KDuration | 6 => KEmpty | _ => KRichText end.

Definition show_decoded (r : result decoded) : list N :=
  match r with
  | Err e => show_err e
  | Ok d => N_to_str (d_type d) ++ [c_tab] ++ N_to_str (d_extras d) ++ [c_tab] ++ Z_to_str (d_flags d)
            ++ [c_tab] ++ join comma (map show_val (d_vals d))
  end.

Definition handle (line : list N) : list N :=
  match fields_fast line with
  | [[100;101;99]; h] => show_decoded (decode (bytes_of_hex h))
  | [[100;101;99]] => show_decoded (decode [])
  | [[101;110;99]; k; p; sid; a; b; c; d; e; f; g; h; i; j; k2; l] =>
    hex_of_bytes (encode {| c_kind := kind_of (digits_to_N k); c_payload := bytes_of_hex p;
        c_string_id_set := match sid with [49] => true | _ => false end;
        c_rich := parse_id a; c_cell_style := parse_id b; c_text_style := parse_id c;
        c_formula := parse_id d; c_control := parse_id e; c_suggest := parse_id f;
        c_num_fmt := parse_id g; c_cur_fmt := parse_id h; c_date_fmt := parse_id i;
        c_dur_fmt := parse_id j; c_text_fmt := parse_id k2; c_bool_fmt := parse_id l |})
  | [114;101;102] :: t :: ex :: vs => hex_of_bytes (ref_encode (digits_to_N t) (digits_to_N ex) (map parse_val vs))
  | _ => [63]
  end.
