(* NumFormat: executable mirror of the number formatting paths of numbers_parser/cell.py
   (_format_decimal, _format_currency, _format_base, _twos_complement, _format_fraction,
   _float_to_fraction, _float_to_n_digit_fraction, _format_fraction_parts_to,
   _format_scientific, the star rating and percentage branches of Cell._custom_format)
   as they behave with the fix patches /verif/fixes/C13-*.patch applied.

   Input: a Python number given by the digits of str(value) - a [dec] - and whether it is an
   int or a float ([is_int]).  Where the code computes with the binary64 value (is_integer,
   int(), round(), the product in _float_to_fraction, Fraction.from_float, format(x, '.pE')),
   the model uses [value_rat]: the correctly rounded binary64 value of the decimal, as an exact
   rational.  Where the code works on the digit string (sigfig), the model works on the decimal.

   sigfig (1.3.19) as used here:
     round(x, sigfigs=15, type=str)   = digits of [round_sig 15], positional notation
     round(s, decimals=p, type=str)   = [rhu_at .. (-p)], exactly p decimals; the sign is dropped
                                        when a non-zero number rounds to zero
     spacer=',' spacing=3             = [group3] of the integer part (the commas sigfig puts in
                                        the fractional part are removed by the caller)
     str(round(x, sigfigs=15))        = repr(float(15-digit decimal)) = [repr_str] (the digits
                                        survive the float round trip because 15 <= DBL_DIG). *)
From Coq Require Import ZArith NArith List Bool Lia.
From NP Require Import Model.PyBase Model.Digits Model.C13Tables.
Import ListNotations.
Open Scope Z_scope.

Definition c_dot : N := 46%N.
Definition c_lpar : N := 40%N.
Definition c_rpar : N := 41%N.
Definition c_pct : N := 37%N.
Definition c_plus : N := 43%N.
Definition c_slash : N := 47%N.
Definition c_e : N := 101%N.
Definition c_E : N := 69%N.
Definition c_min : N := 45%N.
Definition c_sp : N := 32%N.
Definition c_ht : N := 9%N.

Definition AUTO : Z := decimal_places_auto.
Definition SIG : Z := max_significant_digits.

(* magnitude of the Python number as an exact rational N/D (D a power of two) *)
Definition value_rat (is_int : bool) (mant ex : Z) : Z * Z :=
  if mant <=? 0 then (0, 1)
  else if is_int then (mant * 10 ^ ex, 1)
  else rat_of_b64 (if 0 <=? ex then b64_of_rat (mant * 10 ^ ex) 1 else b64_of_rat mant (10 ^ (- ex))).

(* m units of 10^-p printed with exactly p decimals *)
Definition fixed_str (sep : bool) (m p : Z) : list N :=
  let ip := zstr (m / 10 ^ p) in
  (if sep then group3 ip else ip) ++ (if 0 <? p then c_dot :: digs (Z.to_nat p) m else []).

(* exponent part of repr / '%E': sign and at least two digits *)
Definition exp_str (x : Z) : list N :=
  (if x <? 0 then c_min else c_plus) :: (if Z.abs x <? 10 then 48%N :: zstr (Z.abs x) else zstr (Z.abs x)).

(* repr(float) of the float whose shortest digits are m * 10^e (m > 0):
   positional for -4 <= X < 16, else d.ddde-XX.  With [sep] the string is re-parsed by sigfig
   and always printed positionally, integer part grouped. *)
Definition repr_str (sep : bool) (m0 e0 : Z) : list N :=
  let '(m, e) := strip0 (Z.to_nat (ndig m0)) m0 e0 in
  let X := ndig m - 1 + e in
  if sep || ((-4 <=? X) && (X <? 16)) then
    if 0 <=? e then
      let ip := zstr (m * 10 ^ e) in (if sep then group3 ip else ip) ++ [c_dot; 48%N]
    else fixed_str sep m (- e)
  else
    match zstr m with
    | [] => []
    | d0 :: rest => d0 :: (match rest with [] => [] | _ => c_dot :: rest end) ++ c_e :: exp_str X
    end.

Definition is_neg (d : dec) : bool := dneg d && (0 <? dmant d).

(* _format_decimal(value, number_format, percent) *)
Definition format_decimal (is_int : bool) (d : dec) (places : Z) (sep : bool) (ns : Z) (percent : bool) : list N :=
  let acct := is_neg d && (2 <=? ns) in
  let neg := if is_neg d && (1 <=? ns) then false else dneg d in
  let '(vn, vd) := value_rat is_int (dmant d) (dexp d) in
  let body :=
    if (vn mod vd =? 0) && (AUTO <=? places) then
      let s := zstr (vn / vd) in
      (if neg && (0 <? vn) then [c_min] else []) ++ (if sep then group3 s else s)
    else
      let '(m1, e1) := round_sig SIG (dmant d) (dexp d) in
      if AUTO <=? places then
        (if neg then [c_min] else []) ++ repr_str sep m1 e1
      else
        let m2 := rhu_at m1 e1 (- places) in
        let neg2 := if m1 <=? 0 then neg else neg && (0 <? m2) in
        (if neg2 then [c_min] else []) ++ fixed_str sep m2 places in
  let body := if percent then body ++ [c_pct] else body in
  if acct then c_lpar :: body ++ [c_rpar] else body.

Fixpoint lookup (k : list N) (t : list (list N * list N)) : option (list N) :=
  match t with
  | [] => None
  | (k', v) :: r => if str_eqb k k' then Some v else lookup k r
  end.

Definition currency_symbol (code : list N) : list N :=
  match lookup code currency_symbols with Some s => s | None => code ++ [c_sp] end.

Definition dabs (d : dec) : dec := mkdec false (dmant d) (dexp d).

(* _format_currency(value, number_format) *)
Definition format_currency (is_int : bool) (d : dec) (places : Z) (sep : bool) (ns : Z) (acct : bool)
    (code : list N) : list N :=
  let sym := currency_symbol code in
  if acct && is_neg d then
    sym ++ [c_ht; c_lpar] ++ format_decimal is_int (dabs d) places sep ns false ++ [c_rpar]
  else if acct then sym ++ [c_ht] ++ format_decimal is_int d places sep ns false
  else sym ++ format_decimal is_int d places sep ns false.

(* Formatting.__post_init__: the currency code must be a known one *)
Definition format_currency_checked is_int d places sep ns acct code : result (list N) :=
  if existsb (str_eqb code) currencies then Ok (format_currency is_int d places sep ns acct code)
  else Err TypeError.

(* ---------- number bases ---------- *)
Definition twos_base (b : Z) : bool := (b =? 2) || (b =? 8) || (b =? 16).

(* _twos_complement(-v, base) for v > 0 *)
Definition twos_complement (v base : Z) : list N :=
  let nbits := Z.max 32 (Z.log2_up v + 1) in
  let t := 2 ^ nbits - v in
  if base =? 2 then rjust nbits 49%N (to_base 2 t) else to_base base t.

(* _format_base(value, number_format) *)
Definition format_base (is_int : bool) (d : dec) (base places : Z) (minus : bool) : list N :=
  let '(vn, vd) := value_rat is_int (dmant d) (dexp d) in
  let v := rne_div vn vd in
  if v <=? 0 then zfill places [48%N]
  else if negb minus && twos_base base then
    if dneg d then twos_complement v base else zfill places (to_base base v)
  else if dneg d then c_min :: zfill places (to_base base v)
  else zfill places (to_base base v).

(* Formatting.__post_init__ checks for base formats *)
Definition format_base_checked is_int d base places minus : result (list N) :=
  if negb minus && negb (twos_base base) then Err TypeError
  else if (base <? 2) || (max_base <? base) then Err TypeError
  else Ok (format_base is_int d base places minus).

(* ---------- fractions ---------- *)
(* _format_fraction_parts_to *)
Definition frac_parts (whole num den : Z) : list N :=
  if 0 <? whole then
    if num =? 0 then sstr whole
    else sstr whole ++ [c_sp] ++ sstr num ++ [c_slash] ++ sstr den
  else if num =? 0 then [48%N]
  else if num =? den then [49%N]
  else sstr num ++ [c_slash] ++ sstr den.

(* the loop of fractions.Fraction.limit_denominator *)
Fixpoint limit_loop (fuel : nat) (maxd p0 q0 p1 q1 n d : Z) : option (Z * Z * Z * Z * Z * Z) :=
  match fuel with
  | O => None
  | S f =>
    let a := n / d in
    let q2 := q0 + a * q1 in
    if maxd <? q2 then Some (p0, q0, p1, q1, n, d)
    else limit_loop f maxd p1 q1 (p0 + a * p1) q2 d (n - a * d)
  end.

(* Fraction(n0, d0).limit_denominator(maxd) for n0 >= 0, d0 > 0 *)
Definition limit_denominator (n0 d0 maxd : Z) : option (Z * Z) :=
  let g := Z.gcd n0 d0 in
  let n := n0 / g in
  let d := d0 / g in
  if d <=? maxd then Some (n, d)
  else
    match limit_loop (Z.to_nat (2 * maxd + 4)) maxd 0 1 1 0 n d with
    | None => None
    | Some (p0, q0, p1, q1, _, dd) =>
      let k := (maxd - q0) / q1 in
      if 2 * dd * (q0 + k * q1) <=? d then Some (p1, q1) else Some (p0 + k * p1, q0 + k * q1)
    end.

(* round(denominator * (value - whole)) of _float_to_fraction: the product is a binary64 product,
   round() is half-to-even on it *)
Definition fraction_numerator (acc vn vd : Z) : Z :=
  let fN := vn - (vn / vd) * vd in
  if fN <=? 0 then 0 else let '(pn, pd) := rat_of_b64 (b64_of_rat (acc * fN) vd) in rne_div pn pd.

(* _float_to_fraction / _float_to_n_digit_fraction on the magnitude *)
Definition fraction_abs (is_int : bool) (mant ex acc : Z) : result (list N) :=
  let '(vn, vd) := value_rat is_int mant ex in
  let whole := vn / vd in
  if negb (Z.land acc 4278190080 =? 0) then   (* accuracy & 0xFF000000 *)
    let maxd := 10 ^ (4294967296 - acc) - 1 in
    match limit_denominator vn vd maxd with
    | None => Err OutOfFuel
    | Some (n, dd) => Ok (frac_parts whole (n - whole * dd) dd)
    end
  else
    Ok (frac_parts whole (fraction_numerator acc vn vd) acc).

(* _format_fraction(value, number_format) *)
Definition format_fraction (is_int : bool) (d : dec) (acc : Z) : result (list N) :=
  do body <- fraction_abs is_int (dmant d) (dexp d) acc ;
  Ok (if is_neg d then (if str_eqb body [48%N] then body else c_min :: body) else body).

(* ---------- scientific ---------- *)
(* format(x, '.pE') for x = N/D >= 0: correctly rounded (half even on the exact value) *)
Definition sci_str (vn vd p : Z) : list N :=
  if vn <=? 0 then 48%N :: (if 0 <? p then c_dot :: zeros p else []) ++ c_E :: exp_str 0
  else
    let '(q, e) := round_float 10 (p + 1) vn vd in
    zstr (q / 10 ^ p) ++ (if 0 <? p then c_dot :: digs (Z.to_nat p) q else []) ++ c_E :: exp_str (e + p).

(* _format_scientific(value, number_format): sigfig to 15 digits, through a float, then '.pE' *)
Definition format_scientific (d : dec) (p : Z) : list N :=
  let '(m1, e1) := round_sig SIG (dmant d) (dexp d) in
  let '(vn, vd) := value_rat false m1 e1 in
  (if dneg d then [c_min] else []) ++ sci_str vn vd p.

(* ---------- star rating ---------- *)
Definition format_rating (is_int : bool) (d : dec) : list N :=
  let '(vn, vd) := value_rat is_int (dmant d) (dexp d) in
  if dneg d then [] else flat_map (fun _ => star_rating_value) (repeat tt (Z.to_nat (vn / vd))).

(* Formatting.__post_init__: decimal_places None -> 2 for currency, automatic otherwise *)
Definition resolve_places (currency : bool) (p : option Z) : Z :=
  match p with Some x => x | None => if currency then 2 else AUTO end.

(* ============================================================================
   Readers: the meaning of the displayed notations (used by the theorems and, through the
   entry, cross-checked against an independent Python reader on the implementation's output) *)

Definition is_dd (c : N) : bool := is_digit c || (c =? c_dot)%N.

(* decimal notation: (shown negative, mantissa, number of decimals)  value = mantissa / 10^decimals.
   Decoration (symbols, tab, commas, parentheses, %, sign) is skipped; a minus sign or an opening
   parenthesis marks a negative number. *)
Definition readback_decimal (s : list N) : option (bool * Z * Z) :=
  let neg := existsb (fun c => (c =? c_min)%N || (c =? c_lpar)%N) s in
  match split_on c_dot (filter is_dd s) [] with
  | [ip] => match ip with [] => None | _ => Some (neg, bval 10 ip, 0) end
  | [ip; fp] => match ip with [] => None | _ => Some (neg, bval 10 (ip ++ fp), zlen fp) end
  | _ => None
  end.

(* base notation with a minus sign *)
Definition readback_base (b : Z) (s : list N) : Z :=
  match s with
  | c :: r => if (c =? c_min)%N then - bval b r else bval b s
  | [] => 0
  end.
(* two's complement: the leading 1 bit of the printed number is the sign bit *)
Definition readback_twos (b : Z) (s : list N) : Z :=
  let u := bval b s in u - 2 ^ (Z.log2 u + 1).

Definition strip_minus (s : list N) : bool * list N :=
  match s with
  | c :: r => if (c =? c_min)%N then (true, r) else (false, s)
  | [] => (false, s)
  end.

(* fraction notation "w n/d", "n/d", "w", with optional leading '-': (negative, whole, num, den) *)
Definition readback_fraction (s : list N) : option (bool * Z * Z * Z) :=
  let (neg, r) := strip_minus s in
  match split_on c_sp r [] with
  | [w] =>
    match split_on c_slash w [] with
    | [a] => Some (neg, bval 10 a, 0, 1)
    | [a; b] => Some (neg, 0, bval 10 a, bval 10 b)
    | _ => None
    end
  | [w; f] =>
    match split_on c_slash f [] with
    | [a; b] => Some (neg, bval 10 w, bval 10 a, bval 10 b)
    | _ => None
    end
  | _ => None
  end.

(* scientific notation d.dddE+XX: (negative, mantissa digits as integer, decimals, exponent) *)
Definition readback_scientific (s : list N) : option (bool * Z * Z * Z) :=
  let (neg, r) := strip_minus s in
  match split_on c_E r [] with
  | [m; x] =>
    let xv := match x with
              | c :: xd => if (c =? c_min)%N then - bval 10 xd else if (c =? c_plus)%N then bval 10 xd else bval 10 x
              | [] => 0
              end in
    match split_on c_dot m [] with
    | [ip] => Some (neg, bval 10 ip, 0, xv)
    | [ip; fp] => Some (neg, bval 10 (ip ++ fp), zlen fp, xv)
    | _ => None
    end
  | _ => None
  end.

Definition readback_rating (s : list N) : Z := zlen (filter (fun c => (c =? 9733)%N) s).

(* ============================================================================
   Specification vocabulary used by the theorems of Props/C13.v *)

(* sign markers of the decimal notations *)
Definition is_sg (c : N) : bool := (c =? c_min)%N || (c =? c_lpar)%N.

(* whether a decimal format shows the number as negative (as text: the RED style shows the sign
   by colour only).  M is the rounded magnitude in units of the last displayed place. *)
Definition shown_negative (d : dec) (ns M : Z) : bool :=
  if is_neg d then (if 2 <=? ns then true else if 1 <=? ns then false else 0 <? M)
  else dneg d (* only the float -0.0 *).

(* accounting style: parentheses for every negative value *)
Definition shown_negative_currency (d : dec) (ns M : Z) (acct : bool) : bool :=
  if acct && is_neg d then true else shown_negative d ns M.

(* the digits and decimal point of a number with exactly p decimals, no decoration *)
Definition plain_digits (M p : Z) : list N :=
  zstr (M / 10 ^ p) ++ (if 0 <? p then c_dot :: digs (Z.to_nat p) M else []).

(* a text without digits, decimal points or sign markers: pure decoration *)
Definition decoration (s : list N) : bool := forallb (fun c => negb (is_dd c) && negb (is_sg c)) s.

(* q * b^e is a nearest P-digit number to vn/vd: | q * b^e - vn/vd | <= b^e / 2 *)
Definition nearest_scaled (b vn vd q e : Z) : Prop :=
  2 * Z.abs (q * scB b vd e - scA b vn e) <= scB b vd e.

(* automatic places: sign shown for an integer-valued number *)
Definition shown_negative_auto (d : dec) (ns M : Z) : bool :=
  if is_neg d then (if 2 <=? ns then true else if 1 <=? ns then false else 0 <? M) else false.

(* repr(float) uses positional notation for 1e-4 <= |x| < 1e16; with the thousands separator on, the text
   is re-parsed by sigfig and always positional.  m * 10^e: the digits without trailing zeros. *)
Definition positional (sep : bool) (m e : Z) : bool :=
  sep || ((-4 <=? ndig m - 1 + e) && (ndig m - 1 + e <? 16)).

(* ---------- _expand_quotes (custom format strings) ---------- *)
(* removes the quotes of quoted literals; '' is a literal quote; a trailing lone quote ends the scan.
   (the in_string flag of the code is toggled but never read) *)
Fixpoint expand_quotes (s : list N) (in_string : bool) : list N :=
  match s with
  | [] => []
  | c :: r =>
    if (c =? 39)%N then
      match r with
      | [] => []
      | c2 :: r2 => if (c2 =? 39)%N then 39%N :: expand_quotes r2 in_string else expand_quotes r (negb in_string)
      end
    else c :: expand_quotes r in_string
  end.
