(* Line protocol entry for the C17 models.
     blob <fix_iwa> <fix_store> <ends_iwa> <hex> <utab> <htab> <ptab> <ktab>
          IWA.store_blob with the external libraries given as recorded graphs:
            utab  snappy.uncompress          hexkey:hexvalue | hexkey:-
            htab  ArchiveInfo.FromString     hexkey:empty.merge.ident.t.l.b.t.l.b... | hexkey:-
            ptab  ID_NAME_MAP[t].FromString  hex(4-byte big-endian type ++ payload):1 | ...:-
            ktab  t in ID_NAME_MAP           decimal:1 | decimal:0
          answer: "iwa id,id,..." | "blob" | !Error
     load <fix_boundary> <fix_store> <script>
          Loader.object_store_init; script = site=answer;site=answer;...
          answer: b0 b1 | u | B | n<hexname>,<hexname>,.. | pD1 pD0 pDn pN | i<c.c.c/c.c> | r<code>
          result: "OK <objects> <unused answers>" | !Error *)
From Coq Require Import NArith List Bool.
From NP Require Import Model.PyBase Model.Varint Model.Wire Model.IWA Model.IWAIO Model.Loader.
Import ListNotations.
Open Scope N_scope.

Definition c_dot : chr := 46.
Definition c_eq : chr := 61.
Definition c_slash : chr := 47.

(* ---------- tables ---------- *)
Definition tab_uncompress (t : list (bytes * option bytes)) (k : bytes) : option bytes :=
  match lookup t k with Some v => v | None => Some unanswered end.

Fixpoint triples (l : list N) : list minfo :=
  match l with
  | t :: n :: b :: r => {| mi_type := t ; mi_length := n ; mi_base := b |} :: triples r
  | _ => []
  end.
Definition parse_view (s : str) : result hview :=
  match s with
  | [45] => Err DecodeError
  | _ =>
    match map digits_to_N (split_fast c_dot s) with
    | e :: m :: i :: r => Ok {| hv_empty := negb (e =? 0) ; hv_merge := negb (m =? 0) ; hv_ident := i ; hv_infos := triples r |}
    | _ => Err OutOfFuel
    end
  end.
Definition parse_htab (s : str) : list (bytes * result hview) :=
  match s with
  | [] => []
  | _ => map (fun e => match split_fast c_colon e with
                       | [k; v] => (unhex k, parse_view v)
                       | _ => ([], Err OutOfFuel)
                       end) (split_fast c_comma s)
  end.
(* a query the implementation never made is a desynchronisation, not a Python behaviour *)
Definition tab_header (t : list (bytes * result hview)) (k : bytes) : result hview :=
  match lookup t k with Some v => v | None => Err OutOfFuel end.

Definition be4 (n : N) : bytes := [(n / 16777216) mod 256; (n / 65536) mod 256; (n / 256) mod 256; n mod 256].
Definition tab_payload (t : list (bytes * option bytes)) (ty : N) (k : bytes) : result unit :=
  match lookup t (be4 ty ++ k) with
  | Some (Some _) => Ok tt
  | Some None => Err DecodeError
  | None => Err OutOfFuel
  end.
Definition parse_ktab (s : str) : list (N * bool) :=
  match s with
  | [] => []
  | _ => map (fun e => match split_fast c_colon e with
                       | [k; v] => (digits_to_N k, flag_of v)
                       | _ => (0, false)
                       end) (split_fast c_comma s)
  end.
Fixpoint tab_known (t : list (N * bool)) (ty : N) : bool :=
  match t with
  | [] => false
  | (k, v) :: r => if k =? ty then v else tab_known r ty
  end.

Definition show_store (r : result (option (list N))) : str :=
  match r with
  | Ok (Some ids) => [105;119;97;32] ++ join [c_comma] (map N_to_str ids)
  | Ok None => [98;108;111;98]
  | Err e => show_err e
  end.

(* ---------- scripts ---------- *)
Definition site_of (n : N) : site :=
  match n with
  | 1 => S_exists | 2 => S_suffix | 3 => S_is_dir | 4 => S_zipfile | 5 => S_filelist | 6 => S_zip_read
  | 7 => S_plist_loads | 8 => S_getinfo | 9 => S_namelist | 10 => S_iterdir | 11 => S_sub_is_dir
  | 12 => S_sub_open | 13 => S_fh_read | 14 => S_prop_exists | 15 => S_open | 16 => S_is_iwa | _ => S_from_buffer
  end.
Definition exn_of (n : N) : pyexn :=
  match n with
  | 1 => IndexError | 2 => TypeError | 3 => ValueError | 4 => KeyError | 5 => FileError | 6 => FileFormatError
  | 7 => UnsupportedError | 8 => StructError | 9 => BadZip | _ => OtherCrash n
  end.
Definition parse_chunk (s : str) : list N :=
  match s with [95] => [] | _ => map digits_to_N (split_fast c_dot s) end.
Definition parse_ans (s : str) : ans :=
  match s with
  | [98; 48] => ABool false
  | [98; 49] => ABool true
  | [117] => AUnit
  | [66] => ABlob
  | 110 :: r => ANames (match r with [] => [] | _ => map unhex (split_fast c_comma r) end)
  | [112; 68; 49] => APlist (PDict (Some true))
  | [112; 68; 48] => APlist (PDict (Some false))
  | [112; 68; 110] => APlist (PDict None)
  | [112; 78] => APlist PNotDict
  | 105 :: r => AIwa (match r with [] => [] | _ => map parse_chunk (split_fast c_slash r) end)
  | 114 :: r => ARaise (exn_of (digits_to_N r))
  | _ => ARaise OutOfFuel
  end.
Definition parse_script (s : str) : script :=
  match s with
  | [] => []
  | _ => map (fun e => match split_fast c_eq e with
                       | [k; v] => (site_of (digits_to_N k), parse_ans v)
                       | _ => (S_exists, ARaise OutOfFuel)
                       end) (split_fast c_semi s)
  end.

Definition handle (line : list N) : list N :=
  match fields_fast line with
  | [[98;108;111;98]; fi; fs; ei; h; ut; ht; pt; kt] =>
    let utab := parse_table ut in
    let htab := parse_htab ht in
    let ptab := parse_table pt in
    let ktab := parse_ktab kt in
    show_store (IWA.store_blob (tab_uncompress utab) (tab_header htab) (fun v => v) (tab_known ktab) (tab_payload ptab)
                           (flag_of fi) (flag_of fs) (flag_of ei) (unhex h))
  | [[108;111;97;100]; fb; fs; sc] =>
    match object_store_init (flag_of fb) (flag_of fs) (parse_script sc) with
    | Ok (cnt, rest) => [79;75;32] ++ N_to_str cnt ++ [c_space] ++ N_to_str (lenN rest)
    | Err e => show_err e
    end
  | _ => [63]
  end.
