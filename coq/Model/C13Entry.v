(* Line protocol entry for the C13 number-format model.  One request per line, tab separated:
     num <value> <places|a> <sep 0/1> <negative style 0..3>            number format
     pct <value*100> <places|a> <sep> <ns>                             percentage (the product is Python's)
     cur <value> <places|a> <sep> <ns> <accounting 0/1> <code>          currency
     sci <value> <places|a>                                            scientific
     bas <value> <base> <places> <use minus 0/1>                       number base
     fra <value> <fraction accuracy>                                   fraction
     rat <value>                                                       star rating
     b64 <value>                                                       binary64 value "m e" of a float literal
     exq <code points>                                                 _expand_quotes
     rbd/rbf/rbs <code points>                                         readers applied to a displayed text
     rbb <base> <code points> , rbt <base> <code points>               base readers
   <value> is Python's str(value) (int digits or float repr).  The answer is the displayed text
   (UTF-8 bytes), "!Name" for an exception, "?" for a malformed request. *)
From Coq Require Import ZArith NArith List Bool.
From NP Require Import Model.PyBase Model.Digits Model.C13Tables Model.NumFormat.
Import ListNotations.
Open Scope Z_scope.

Definition all_digits (s : list N) : bool := forallb is_digit s.

Definition parse_exp (s : list N) : option Z :=
  match s with
  | 45%N :: r => if all_digits r && negb (Nat.eqb (length r) 0) then Some (- bval 10 r) else None
  | 43%N :: r => if all_digits r && negb (Nat.eqb (length r) 0) then Some (bval 10 r) else None
  | _ => if all_digits s && negb (Nat.eqb (length s) 0) then Some (bval 10 s) else None
  end.

(* str(int) / repr(float) -> (is_int, decimal) *)
Definition parse_pynum (s0 : list N) : option (bool * dec) :=
  let (neg, s) := match s0 with 45%N :: r => (true, r) | _ => (false, s0) end in
  let with_exp (m : list N) (x : Z) (has_e : bool) :=
    match split_on c_dot m [] with
    | [ip] => if all_digits ip && negb (Nat.eqb (length ip) 0)
              then Some (negb has_e, mkdec neg (bval 10 ip) x) else None
    | [ip; fp] => if all_digits ip && all_digits fp && negb (Nat.eqb (length ip) 0)
                  then Some (false, mkdec neg (bval 10 (ip ++ fp)) (x - zlen fp)) else None
    | _ => None
    end in
  match split_on c_e s [] with
  | [m] => with_exp m 0 false
  | [m; x] => match parse_exp x with Some xv => with_exp m xv true | None => None end
  | _ => None
  end.

Definition utf8 (c : N) : list N :=
  (if c <? 128 then [c]
   else if c <? 2048 then [192 + c / 64; 128 + c mod 64]
   else if c <? 65536 then [224 + c / 4096; 128 + (c / 64) mod 64; 128 + c mod 64]
   else [240 + c / 262144; 128 + (c / 4096) mod 64; 128 + (c / 64) mod 64; 128 + c mod 64])%N.
Definition out (s : list N) : list N := flat_map utf8 s.
Definition out_r (r : result (list N)) : list N := match r with Ok s => out s | Err e => show_err e end.

Definition flag (s : list N) : bool := match s with [49%N] => true | _ => false end.
Definition places_of (s : list N) : option Z := match s with [97%N] => None | _ => Some (str_to_Z s) end.
Definition cps_of (s : list N) : list N :=
  match s with [] => [] | _ => map digits_to_N (split_on 44%N s []) end.

Definition show_opt3 (r : option (bool * Z * Z)) : list N :=
  match r with
  | Some (n, m, p) => (if n then [45%N] else [43%N]) ++ [c_tab] ++ Z_to_str m ++ [c_tab] ++ Z_to_str p
  | None => [63%N]
  end.
Definition show_opt4 (r : option (bool * Z * Z * Z)) : list N :=
  match r with
  | Some (n, a, b, c) => (if n then [45%N] else [43%N]) ++ [c_tab] ++ Z_to_str a ++ [c_tab] ++ Z_to_str b
                          ++ [c_tab] ++ Z_to_str c
  | None => [63%N]
  end.

Definition handle (line : list N) : list N :=
  match fields line with
  | [[110;117;109]%N; v; p; sep; ns] =>
    match parse_pynum v with
    | Some (i, d) => out (format_decimal i d (resolve_places false (places_of p)) (flag sep) (str_to_Z ns) false)
    | None => [63%N] end
  | [[112;99;116]%N; v; p; sep; ns] =>
    match parse_pynum v with
    | Some (i, d) => out (format_decimal i d (resolve_places false (places_of p)) (flag sep) (str_to_Z ns) true)
    | None => [63%N] end
  | [[99;117;114]%N; v; p; sep; ns; acct; code] =>
    match parse_pynum v with
    | Some (i, d) => out_r (format_currency_checked i d (resolve_places true (places_of p)) (flag sep) (str_to_Z ns)
                                                    (flag acct) code)
    | None => [63%N] end
  | [[115;99;105]%N; v; p] =>
    match parse_pynum v with
    | Some (_, d) => out (format_scientific d (resolve_places false (places_of p)))
    | None => [63%N] end
  | [[98;97;115]%N; v; b; p; minus] =>
    match parse_pynum v with
    | Some (i, d) => out_r (format_base_checked i d (str_to_Z b) (str_to_Z p) (flag minus))
    | None => [63%N] end
  | [[102;114;97]%N; v; acc] =>
    match parse_pynum v with
    | Some (i, d) => out_r (format_fraction i d (str_to_Z acc))
    | None => [63%N] end
  | [[114;97;116]%N; v] =>
    match parse_pynum v with
    | Some (i, d) => out (format_rating i d)
    | None => [63%N] end
  | [[98;54;52]%N; v] =>
    match parse_pynum v with
    | Some (_, d) =>
      if dmant d <=? 0 then [48%N]
      else let '(m, e) := if 0 <=? dexp d then b64_of_rat (dmant d * 10 ^ dexp d) 1
                          else b64_of_rat (dmant d) (10 ^ (- dexp d)) in
           Z_to_str m ++ [c_sp] ++ Z_to_str e
    | None => [63%N] end
  | [[101;120;113]%N; t] => out (expand_quotes (cps_of t) false)
  | [[101;120;113]%N] => []
  | [[114;98;100]%N; t] => show_opt3 (readback_decimal (cps_of t))
  | [[114;98;102]%N; t] => show_opt4 (readback_fraction (cps_of t))
  | [[114;98;115]%N; t] =>
    match readback_scientific (cps_of t) with
    | Some (n, m, p, x) => (if n then [45%N] else [43%N]) ++ [c_tab] ++ Z_to_str m ++ [c_tab] ++ Z_to_str p
                            ++ [c_tab] ++ Z_to_str x
    | None => [63%N] end
  | [[114;98;98]%N; b; t] => Z_to_str (readback_base (str_to_Z b) (cps_of t))
  | [[114;98;116]%N; b; t] => Z_to_str (readback_twos (str_to_Z b) (cps_of t))
  | _ => [63%N]
  end.
