(* Line protocol entry for the C05 model (Varint / Wire / IWA).
   Fields are tab separated; byte strings are lower-case hex; a snappy table is
   "hexkey:hexvalue,hexkey:-,..." ("-" = the call raised) and stands for the graph
   of the external function on the arguments the implementation passed to it
   (recorded by the harness from python-snappy).  A query outside the table
   answers the marker "unanswered" so that a desynchronised model is visible.
     vi <n>                       encode_varint
     vd <hex>                     decode_varint64:        value TAB resthex
     v32 <hex>                    decode_varint32
     wire <hex>                   ser_wire (parse_wire b)
     hdr <hex>                    wire_dec_header + wire_view: empty merge ident t:l:b,...
     dec <file> <utab>            decompress_all:         len:adler32
     segs <raw>                   segments of an uncompressed stream (digest)
     file <file> <utab>           IWAFile.from_buffer (digest)
     enc <hdr|p|p;hdr|p...>       concatenated IWAArchiveSegment.to_buffer (hex)
     chunks <raw> <ctab>          IWACompressedChunk.to_buffer framing (hex)
     rechunk <raw> <cuts> <modes> <ctab>   frame the pieces cut at the offsets, 's'tored or 'c'ompressed (hex)
     ok <file> <utab>             chunk_ok of every frame: 1/0 list
     isiwa <0/1 fixed> <hex>      is_iwa_file *)
From Coq Require Import NArith List Bool.
From NP Require Import Model.PyBase Model.Varint Model.Wire Model.IWA Model.IWAIO.
Import ListNotations.
Open Scope N_scope.

Definition show_hex (r : result bytes) : str :=
  match r with Ok b => hex b | Err e => show_err e end.

Definition tab_uncompress (t : list (bytes * option bytes)) (k : bytes) : option bytes :=
  match lookup t k with Some v => v | None => Some unanswered end.
Definition tab_compress (t : list (bytes * option bytes)) (k : bytes) : bytes :=
  match lookup t k with Some (Some v) => v | _ => unanswered end.

(* ---------- printing ---------- *)
Definition show_minfo (mi : minfo) : str :=
  N_to_str (mi_type mi) ++ [c_colon] ++ N_to_str (mi_length mi) ++ [c_colon] ++ N_to_str (mi_base mi).
Definition show_view (v : hview) : str :=
  show_bool (hv_empty v) ++ [c_space] ++ show_bool (hv_merge v) ++ [c_space] ++ N_to_str (hv_ident v) ++ [c_space] ++
  join [c_comma] (map show_minfo (hv_infos v)).

Definition show_seg (seg : wmsg * list bytes) : str :=
  digest (ser_wire (fst seg)) ++ [c_bar] ++ join [c_bar] (map digest (snd seg)).
Definition show_segs (r : result (list (wmsg * list bytes))) : str :=
  match r with Ok l => join [c_semi] (map show_seg l) | Err e => show_err e end.
Definition show_file (r : result (list (list (wmsg * list bytes)))) : str :=
  match r with
  | Ok l => N_to_str (lenN l) ++ [c_space] ++ join [c_space] (map (fun c => show_segs (Ok c)) l)
  | Err e => show_err e
  end.

Definition all_known (t : N) : bool := true.

(* ---------- segment specifications for enc ---------- *)
Definition parse_seg (s : str) : wmsg * list bytes :=
  match split_fast c_bar s with
  | h :: ps => (match parse_wire (unhex h) with Some m => m | None => [] end, map unhex ps)
  | [] => ([], [])
  end.
Definition parse_segs (s : str) : list (wmsg * list bytes) :=
  match s with [] => [] | _ => map parse_seg (split_fast c_semi s) end.

(* pieces cut at absolute offsets (ascending) *)
Fixpoint cut_at (d : bytes) (pos : N) (cuts : list N) : list bytes :=
  match cuts with
  | [] => [d]
  | c :: r => takeN (c - pos) d :: cut_at (dropN (c - pos) d) c r
  end.
Definition rechunk (compress : bytes -> bytes) (pieces : list bytes) (modes : str) : result bytes :=
  frames (map (fun pm => if snd pm =? 99 then compress (fst pm) else fst pm) (combine pieces modes)).

Definition handle (line : list N) : list N :=
  match fields_fast line with
  | [[118;105]; n] => hex (encode_varint (digits_to_N n))
  | [[118;100]; h] =>
    match decode_varint64 (unhex h) with
    | Ok (v, r) => N_to_str v ++ [c_tab] ++ hex r
    | Err e => show_err e
    end
  | [[118;51;50]; h] =>
    match decode_varint32 (unhex h) with
    | Ok (v, r) => N_to_str v ++ [c_tab] ++ hex r
    | Err e => show_err e
    end
  | [[119;105;114;101]; h] =>
    match parse_wire (unhex h) with
    | Some m => show_bool (wf_msgb m) ++ [c_space] ++ hex (ser_wire m)
    | None => [33]
    end
  | [[104;100;114]; h] =>
    match wire_dec_header (unhex h) with
    | Ok m => show_view (wire_view m)
    | Err e => show_err e
    end
  | [[100;101;99]; f; t] =>
    let tb := parse_table t in
    match decompress_all (tab_uncompress tb) (unhex f) with
    | Ok raw => digest raw
    | Err e => show_err e
    end
  | [[115;101;103;115]; raw] => show_segs (c05_segments all_known (unhex raw))
  | [[115;101;103;115]] => show_segs (c05_segments all_known [])
  | [[102;105;108;101]; f; t] =>
    let tb := parse_table t in
    show_file (c05_file_from_buffer (tab_uncompress tb) all_known (unhex f) false)
  | [[101;110;99]; s] => hex (concat (map segment_to_buffer (parse_segs s)))
  | [[99;104;117;110;107;115]; raw; t] =>
    let tb := parse_table t in show_hex (to_chunks (tab_compress tb) (unhex raw))
  | [[114;101;99;104;117;110;107]; raw; cuts; modes; t] =>
    let tb := parse_table t in
    show_hex (rechunk (tab_compress tb) (cut_at (unhex raw) 0 (parse_nums cuts)) modes)
  | [[111;107]; f; t] =>
    let tb := parse_table t in
    match split_frames (unhex f) with
    | Some l => map (fun fr => if chunk_ok (tab_uncompress tb) fr then 49 else 48) l
    | None => [33]
    end
  | [[105;115;105;119;97]; fx; h] =>
    match is_iwa_file (flag_of fx) (unhex h) with
    | Ok true => [84] | Ok false => [70] | Err e => show_err e
    end
  | _ => [63]
  end.
