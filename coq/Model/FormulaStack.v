(* FormulaStack: executable mirror of numbers_parser.formula
     - class Formula: _stack, pop/popn/push, one method per node handler
       (pop order and the text each pushes), __str__
     - NODE_FUNCTION_MAP dispatch and the loop of TableFormulas.formula
     - number_to_str
   Values on the Python stack are either str objects or the CellRange object
   pushed by Formula.xref (stringified lazily by f-strings / str(x)); the only
   place where the difference is observable is Formula.array, whose
   ",".join(...) raises TypeError on a CellRange.  [item] keeps that bit.
   The stack is a list whose HEAD is the TOP (Python: self._stack[-1]).
   External data carried by the nodes (not computed here):
     - NUMBER_NODE's [rep] = repr(AST_number_node_number)   (CPython float repr)
     - CELL_REFERENCE_NODE / COLON_TRACT_NODE [ref] = str(model.node_to_ref(...)) (property C09)
     - DATE_NODE's dateNum is an integral number of seconds (Z). *)
From Coq Require Import ZArith NArith List Bool Lia String.
From NP Require Import Model.PyBase.
Import ListNotations.
Open Scope N_scope.

(* ---------- stack ---------- *)
Inductive item := IStr (s : str) | IRef (s : str).
Definition str_of (x : item) : str := match x with IStr s => s | IRef s => s end.
Definition stack := list item.

(* list.pop() on an empty list raises IndexError (foreign crash) *)
Definition pop (st : stack) : result (item * stack) :=
  match st with [] => Err PopEmpty | x :: r => Ok (x, r) end.

(* popn: values in pop order (top first) *)
Fixpoint popn (n : nat) (st : stack) : result (list item * stack) :=
  match n with
  | O => Ok ([], st)
  | S k => do xr <- pop st ; do vr <- popn k (snd xr) ; Ok (fst xr :: fst vr, snd vr)
  end.

Definition push (v : str) (st : stack) : stack := IStr v :: st.

(* ---------- glyphs and fixed texts ---------- *)
Definition g_plus : str := [43].
Definition g_minus : str := [45].
Definition g_times : str := [215].     (* U+00D7 *)
Definition g_divide : str := [247].    (* U+00F7 *)
Definition g_power : str := [94].
Definition g_amp : str := [38].
Definition g_eq : str := [61].
Definition g_ne : str := [8800].       (* U+2260 *)
Definition g_lt : str := [60].
Definition g_gt : str := [62].
Definition g_le : str := [8804].       (* U+2264 *)
Definition g_ge : str := [8805].       (* U+2265 *)
Definition g_pct : str := [37].
Definition g_comma : str := [44].
Definition g_semi : str := [59].
Definition g_lpar : str := [40].
Definition g_rpar : str := [41].
Definition g_lbrace : str := [123].
Definition g_rbrace : str := [125].
Definition g_colon : str := [58].
Definition g_quote : str := [34].
Definition t_TRUE : str := [84;82;85;69].
Definition t_FALSE : str := [70;65;76;83;69].
Definition t_DATE_open : str := [68;65;84;69;40].                  (* "DATE(" *)
Definition t_UNDEFINED : str := [85;78;68;69;70;73;78;69;68;33].   (* "UNDEFINED!" *)
Definition t_REF_error : str := [35;82;69;70;33].                  (* "#REF!" *)
Definition t_zero_dot : str := [48;46].                            (* "0." *)

(* ---------- literals ---------- *)
(* value.replace(QUOTE, QUOTE QUOTE) wrapped in quotes *)
Fixpoint double_quotes (s : str) : str :=
  match s with [] => [] | c :: r => if c =? 34 then 34 :: 34 :: double_quotes r else c :: double_quotes r end.
Definition string_text (s : str) : str := g_quote ++ double_quotes s ++ g_quote.

(* the inverse direction, as Formula.text_archive does it: strip the outer
   quotes, value.replace(QUOTE QUOTE, QUOTE) *)
Fixpoint undouble_quotes (s : str) : str :=
  match s with
  | [] => []
  | c :: r =>
    match r with
    | d :: r' => if (c =? 34) && (d =? 34) then 34 :: undouble_quotes r' else c :: undouble_quotes r
    | [] => [c]
    end
  end.
Definition string_body (t : str) : str := removelast (tl t).   (* token.value[1:-1] *)

Definition bool_text (b : bool) : str := if b then t_TRUE else t_FALSE.   (* str(b).upper() *)

(* int(s) for an optional sign followed by ASCII digits; anything else ValueError *)
Definition py_int (s : str) : result Z :=
  let body := match s with c :: r => if (c =? 43) || (c =? 45) then r else s | [] => s end in
  match body with
  | [] => Err ValueError
  | _ => if forallb is_digit body
         then Ok (match s with 45 :: _ => Z.opp (Z.of_N (digits_to_N body)) | _ => Z.of_N (digits_to_N body) end)
         else Err ValueError
  end.

(* str.partition(".")[2] *)
Fixpoint after_dot (s : str) : str :=
  match s with [] => [] | c :: r => if c =? 46 then r else after_dot r end.

(* re.sub(r"[,-.]", "", number): the class is the RANGE ','..'.' = {',', '-', '.'} *)
Definition strip_punct (s : str) : str := filter (fun c => negb ((44 <=? c) && (c <=? 46))) s.

(* number_to_str(v) on rep = repr(v).  Faithful to the pinned code, including its
   defect for positive exponents: the number of zeroes appended is exp - 1 whatever
   the number of fraction digits (known finding C08 number-literal-positive-exponent). *)
Definition number_to_str (rep : str) : result str :=
  if existsb (N.eqb 101) rep then
    match split_on 101 rep [] with
    | [number; exp] =>
        let digits := strip_punct number in
        do e <- py_int exp ;
        let zeroes := repeat 48 (Z.to_nat (Z.abs e - 1)) in
        if (0 <? e)%Z
        then Ok (digits ++ zeroes)
        else Ok (t_zero_dot ++ zeroes ++ digits)
    | _ => Err ValueError          (* number, exp = v_str.split(e) *)
    end
  else Ok rep.

(* what a positional expansion of d.ddde+XX has to be (the proposed repair):
   the fraction digits use up part of the exponent *)
Definition number_to_str_repaired (rep : str) : result str :=
  if existsb (N.eqb 101) rep then
    match split_on 101 rep [] with
    | [number; exp] =>
        let num_dp := List.length (after_dot number) in
        let digits := strip_punct number in
        do e <- py_int exp ;
        if (0 <? e)%Z
        then Ok (digits ++ repeat 48 (Z.to_nat (e - Z.of_nat num_dp)))
        else Ok (t_zero_dot ++ repeat 48 (Z.to_nat (Z.abs e - 1)) ++ digits)
    | _ => Err ValueError
    end
  else Ok rep.

Definition DECIMAL_HIGH_INTEGER : N := 3476778912330022912.   (* 0x3040000000000000 *)

Definition number_text (hi lo : N) (rep : str) : result str :=
  if hi =? DECIMAL_HIGH_INTEGER then Ok (N_to_str lo) else number_to_str rep.

(* proleptic Gregorian calendar: days since 0000-03-01 -> (year, month, day) *)
Definition civil_from_days (z : Z) : Z * Z * Z :=
  (let era := z / 146097 in
   let doe := z mod 146097 in
   let yoe := (doe - doe / 1460 + doe / 36524 - doe / 146096) / 365 in
   let doy := doe - (365 * yoe + yoe / 4 - yoe / 100) in
   let mp := (5 * doy + 2) / 153 in
   let d := doy - (153 * mp + 2) / 5 + 1 in
   let m := if mp <? 10 then mp + 3 else mp - 9 in
   let y := yoe + era * 400 + (if m <=? 2 then 1 else 0) in
   (y, m, d))%Z.

Definition DAYS_0000_03_01_TO_2001_01_01 : Z := 730791.

(* datetime(2001, 1, 1) + timedelta(seconds=n): the date part; OverflowError outside years 1..9999 *)
Definition date_text (secs : Z) : result str :=
  let '(y, m, d) := civil_from_days (secs / 86400 + DAYS_0000_03_01_TO_2001_01_01)%Z in
  if ((1 <=? y) && (y <=? 9999))%Z
  then Ok (t_DATE_open ++ Z_to_str y ++ g_comma ++ Z_to_str m ++ g_comma ++ Z_to_str d ++ g_rpar)
  else Err (OtherCrash 1).

(* ---------- nodes ---------- *)
Inductive node :=
| ADDITION_NODE
| APPEND_WHITESPACE_NODE
| ARRAY_NODE (numRow numCol : N)
| BEGIN_EMBEDDED_NODE_ARRAY
| BOOLEAN_NODE (tokb : option bool) (b : bool)   (* HasField(AST_token_node_boolean)/value, AST_boolean_node_boolean *)
| CELL_REFERENCE_NODE (ref : str)
| COLON_NODE
| COLON_NODE_WITH_UIDS
| COLON_TRACT_NODE (ref : str)
| CONCATENATION_NODE
| DATE_NODE (dateNum : Z)
| DIVISION_NODE
| EMPTY_ARGUMENT_NODE
| END_THUNK_NODE
| EQUAL_TO_NODE
| FUNCTION_NODE (index numArgs : N)
| GREATER_THAN_NODE
| GREATER_THAN_OR_EQUAL_TO_NODE
| LESS_THAN_NODE
| LESS_THAN_OR_EQUAL_TO_NODE
| LIST_NODE (numArgs : N)
| MULTIPLICATION_NODE
| NEGATION_NODE
| NOT_EQUAL_TO_NODE
| NUMBER_NODE (hi lo : N) (rep : str)
| PERCENT_NODE
| POWER_NODE
| PREPEND_WHITESPACE_NODE
| STRING_NODE (s : str)
| SUBTRACTION_NODE
| TOKEN_NODE (tokb : option bool) (b : bool)
| REFERENCE_ERROR_WITH_UIDS                       (* handled before the dispatch: push "#REF!" *)
| OTHER_NODE.                                     (* any node type not in NODE_FUNCTION_MAP: warning, skipped *)

(* protobuf field access (defaults when the field is absent) *)
Definition f_numRow (n : node) : N := match n with ARRAY_NODE r _ => r | _ => 0 end.
Definition f_numCol (n : node) : N := match n with ARRAY_NODE _ c => c | _ => 0 end.
Definition f_tokb (n : node) : option bool := match n with BOOLEAN_NODE t _ | TOKEN_NODE t _ => t | _ => None end.
Definition f_bool (n : node) : bool := match n with BOOLEAN_NODE _ b | TOKEN_NODE _ b => b | _ => false end.
Definition f_dateNum (n : node) : Z := match n with DATE_NODE d => d | _ => 0%Z end.
Definition f_index (n : node) : N := match n with FUNCTION_NODE i _ => i | _ => 0 end.
Definition f_fnArgs (n : node) : N := match n with FUNCTION_NODE _ k => k | _ => 0 end.
Definition f_listArgs (n : node) : N := match n with LIST_NODE k => k | _ => 0 end.
Definition f_hi (n : node) : N := match n with NUMBER_NODE h _ _ => h | _ => 0 end.
Definition f_lo (n : node) : N := match n with NUMBER_NODE _ l _ => l | _ => 0 end.
Definition f_rep (n : node) : str := match n with NUMBER_NODE _ _ r => r | _ => [48;46;48] end.   (* repr(0.0) *)
Definition f_string (n : node) : str := match n with STRING_NODE s => s | _ => [] end.
Definition f_ref (n : node) : str := match n with CELL_REFERENCE_NODE r | COLON_TRACT_NODE r => r | _ => [] end.

(* ---------- the methods of class Formula ---------- *)
Inductive method :=
| m_add | m_array | m_boolean | m_concat | m_date | m_div | m_empty | m_equals | m_function
| m_greater_than | m_greater_than_or_equal | m_less_than | m_less_than_or_equal | m_list | m_mul
| m_negate | m_not_equals | m_number | m_percent | m_power | m_range | m_string | m_sub | m_xref.

(* arg2, arg1 = self.popn(2); self.push(f"{arg1}<glyph>{arg2}") *)
Definition binary (g : str) (st : stack) : result stack :=
  do vr <- popn 2 st ;
  match fst vr with
  | [arg2; arg1] => Ok (push (str_of arg1 ++ g ++ str_of arg2) (snd vr))
  | _ => Err (OtherCrash 0)
  end.

(* equals: arg1, arg2 = self.popn(2); self.push(f"{arg2}={arg1}") *)
Definition do_equals (st : stack) : result stack :=
  do vr <- popn 2 st ;
  match fst vr with
  | [arg1; arg2] => Ok (push (str_of arg2 ++ g_eq ++ str_of arg1) (snd vr))
  | _ => Err (OtherCrash 0)
  end.

(* ",".join(x) on raw stack values: a CellRange object raises TypeError *)
Fixpoint raw_strs (l : list item) : result (list str) :=
  match l with
  | [] => Ok []
  | IStr s :: r => do r' <- raw_strs r ; Ok (s :: r')
  | IRef _ :: _ => Err TypeError
  end.

Fixpoint array_rows (nrows ncols : nat) (st : stack) : result (list str * stack) :=
  match nrows with
  | O => Ok ([], st)
  | S k =>
    do vr <- popn ncols st ;
    do ss <- raw_strs (rev (fst vr)) ;
    do rr <- array_rows k ncols (snd vr) ;
    Ok (join g_comma ss :: fst rr, snd rr)
  end.

Definition do_array (num_rows num_cols : N) (st : stack) : result stack :=
  if num_rows =? 1 then
    do vr <- popn (N.to_nat num_cols) st ;
    do ss <- raw_strs (rev (fst vr)) ;
    Ok (push (g_lbrace ++ join g_comma ss ++ g_rbrace) (snd vr))
  else
    do rr <- array_rows (N.to_nat num_rows) (N.to_nat num_cols) st ;
    Ok (push (g_lbrace ++ join g_semi (rev (fst rr)) ++ g_rbrace) (snd rr)).

Definition do_boolean (n : node) (st : stack) : result stack :=
  match f_tokb n with
  | Some t => Ok (push (bool_text t) st)
  | None => Ok (push (bool_text (f_bool n)) st)
  end.

Section FMAP.
Variable fmap : N -> option str.     (* generated.functionmap.FUNCTION_MAP *)

Definition func_name (index : N) : str :=
  match fmap index with Some s => s | None => t_UNDEFINED end.

Definition do_function (index numArgs : N) (st : stack) : result stack :=
  let num_args := if (List.length st <? N.to_nat numArgs)%nat then List.length st else N.to_nat numArgs in
  do vr <- popn num_args st ;
  Ok (push (func_name index ++ g_lpar ++ join g_comma (rev (map str_of (fst vr))) ++ g_rpar) (snd vr)).

Definition do_list (numArgs : N) (st : stack) : result stack :=
  do vr <- popn (N.to_nat numArgs) st ;
  Ok (push (g_lpar ++ join g_comma (rev (map str_of (fst vr))) ++ g_rpar) (snd vr)).

Definition do_negate (st : stack) : result stack :=
  do xr <- pop st ; Ok (push (g_minus ++ str_of (fst xr)) (snd xr)).

Definition do_percent (st : stack) : result stack :=
  do xr <- pop st ; Ok (push (str_of (fst xr) ++ g_pct) (snd xr)).

(* str.split("::") *)
Fixpoint split_cc (s cur : str) : list str :=
  match s with
  | [] => [rev cur]
  | c :: r =>
    match r with
    | d :: r' => if (c =? 58) && (d =? 58) then rev cur :: split_cc r' [] else split_cc r (c :: cur)
    | [] => [rev (c :: cur)]
    end
  end.

Definition has_lpar (s : str) : bool := existsb (N.eqb 40) s.

Definition do_range (st : stack) : result stack :=
  do vr <- popn 2 st ;
  match map str_of (fst vr) with
  | [arg2; arg1] =>
    let func_range := has_lpar arg1 || has_lpar arg2 in
    let p1 := split_cc arg1 [] in
    if (1 <? List.length p1)%nat && negb func_range then
      let p2 := split_cc arg2 [] in
      match nth_error p1 1, nth_error p2 1 with
      | Some a, Some b => Ok (push (hd [] p1 ++ g_colon ++ g_colon ++ a ++ g_colon ++ b) (snd vr))
      | _, _ => Err PopEmpty                       (* arg2_parts[1]: IndexError *)
      end
    else Ok (push (arg1 ++ g_colon ++ arg2) (snd vr))
  | _ => Err (OtherCrash 0)
  end.

Definition call (m : method) (n : node) (st : stack) : result stack :=
  match m with
  | m_add => binary g_plus st
  | m_array => do_array (f_numRow n) (f_numCol n) st
  | m_boolean => do_boolean n st
  | m_concat => binary g_amp st
  | m_date => do t <- date_text (f_dateNum n) ; Ok (push t st)
  | m_div => binary g_divide st
  | m_empty => Ok (push [] st)
  | m_equals => do_equals st
  | m_function => do_function (f_index n) (f_fnArgs n) st
  | m_greater_than => binary g_gt st
  | m_greater_than_or_equal => binary g_ge st
  | m_less_than => binary g_lt st
  | m_less_than_or_equal => binary g_le st
  | m_list => do_list (f_listArgs n) st
  | m_mul => binary g_times st
  | m_negate => do_negate st
  | m_not_equals => binary g_ne st
  | m_number => do t <- number_text (f_hi n) (f_lo n) (f_rep n) ; Ok (push t st)
  | m_percent => do_percent st
  | m_power => binary g_power st
  | m_range => do_range st
  | m_string => Ok (push (string_text (f_string n)) st)
  | m_sub => binary g_minus st
  | m_xref => Ok (IRef (f_ref n) :: st)
  end.

(* NODE_FUNCTION_MAP: node type -> method (None: the entry is None, the node is ignored) *)
Definition method_of (n : node) : option method :=
  match n with
  | ADDITION_NODE => Some m_add
  | APPEND_WHITESPACE_NODE => None
  | ARRAY_NODE _ _ => Some m_array
  | BEGIN_EMBEDDED_NODE_ARRAY => None
  | BOOLEAN_NODE _ _ => Some m_boolean
  | CELL_REFERENCE_NODE _ => Some m_xref
  | COLON_NODE => Some m_range
  | COLON_NODE_WITH_UIDS => Some m_range
  | COLON_TRACT_NODE _ => Some m_xref
  | CONCATENATION_NODE => Some m_concat
  | DATE_NODE _ => Some m_date
  | DIVISION_NODE => Some m_div
  | EMPTY_ARGUMENT_NODE => Some m_empty
  | END_THUNK_NODE => None
  | EQUAL_TO_NODE => Some m_equals
  | FUNCTION_NODE _ _ => Some m_function
  | GREATER_THAN_NODE => Some m_greater_than
  | GREATER_THAN_OR_EQUAL_TO_NODE => Some m_greater_than_or_equal
  | LESS_THAN_NODE => Some m_less_than
  | LESS_THAN_OR_EQUAL_TO_NODE => Some m_less_than_or_equal
  | LIST_NODE _ => Some m_list
  | MULTIPLICATION_NODE => Some m_mul
  | NEGATION_NODE => Some m_negate
  | NOT_EQUAL_TO_NODE => Some m_not_equals
  | NUMBER_NODE _ _ _ => Some m_number
  | PERCENT_NODE => Some m_percent
  | POWER_NODE => Some m_power
  | PREPEND_WHITESPACE_NODE => None
  | STRING_NODE _ => Some m_string
  | SUBTRACTION_NODE => Some m_sub
  | TOKEN_NODE _ _ => Some m_boolean
  | REFERENCE_ERROR_WITH_UIDS => None
  | OTHER_NODE => None
  end.

(* one iteration of the loop in TableFormulas.formula *)
Definition step (n : node) (st : stack) : result stack :=
  match n with
  | REFERENCE_ERROR_WITH_UIDS => Ok (push t_REF_error st)
  | OTHER_NODE => Ok st
  | _ => match method_of n with None => Ok st | Some m => call m n st end
  end.

Fixpoint run (ns : list node) (st : stack) : result stack :=
  match ns with
  | [] => Ok st
  | n :: r => do st' <- step n st ; run r st'
  end.

(* Formula.__str__: "".join(reversed([str(x) for x in self._stack])) *)
Definition stack_text (st : stack) : str := List.concat (map str_of st).

(* TableFormulas.formula for a key that is present *)
Definition formula_text (ns : list node) : result str :=
  do st <- run ns [] ; Ok (stack_text st).
End FMAP.

(* ---------- names, for the tie with the regenerated NODE_FUNCTION_MAP ---------- *)
Open Scope string_scope.
Definition method_name (m : method) : string :=
  match m with
  | m_add => "add" | m_array => "array" | m_boolean => "boolean" | m_concat => "concat" | m_date => "date"
  | m_div => "div" | m_empty => "empty" | m_equals => "equals" | m_function => "function"
  | m_greater_than => "greater_than" | m_greater_than_or_equal => "greater_than_or_equal"
  | m_less_than => "less_than" | m_less_than_or_equal => "less_than_or_equal" | m_list => "list"
  | m_mul => "mul" | m_negate => "negate" | m_not_equals => "not_equals" | m_number => "number"
  | m_percent => "percent" | m_power => "power" | m_range => "range" | m_string => "string"
  | m_sub => "sub" | m_xref => "xref"
  end.

Definition node_type_name (n : node) : string :=
  match n with
  | ADDITION_NODE => "ADDITION_NODE"
  | APPEND_WHITESPACE_NODE => "APPEND_WHITESPACE_NODE"
  | ARRAY_NODE _ _ => "ARRAY_NODE"
  | BEGIN_EMBEDDED_NODE_ARRAY => "BEGIN_EMBEDDED_NODE_ARRAY"
  | BOOLEAN_NODE _ _ => "BOOLEAN_NODE"
  | CELL_REFERENCE_NODE _ => "CELL_REFERENCE_NODE"
  | COLON_NODE => "COLON_NODE"
  | COLON_NODE_WITH_UIDS => "COLON_NODE_WITH_UIDS"
  | COLON_TRACT_NODE _ => "COLON_TRACT_NODE"
  | CONCATENATION_NODE => "CONCATENATION_NODE"
  | DATE_NODE _ => "DATE_NODE"
  | DIVISION_NODE => "DIVISION_NODE"
  | EMPTY_ARGUMENT_NODE => "EMPTY_ARGUMENT_NODE"
  | END_THUNK_NODE => "END_THUNK_NODE"
  | EQUAL_TO_NODE => "EQUAL_TO_NODE"
  | FUNCTION_NODE _ _ => "FUNCTION_NODE"
  | GREATER_THAN_NODE => "GREATER_THAN_NODE"
  | GREATER_THAN_OR_EQUAL_TO_NODE => "GREATER_THAN_OR_EQUAL_TO_NODE"
  | LESS_THAN_NODE => "LESS_THAN_NODE"
  | LESS_THAN_OR_EQUAL_TO_NODE => "LESS_THAN_OR_EQUAL_TO_NODE"
  | LIST_NODE _ => "LIST_NODE"
  | MULTIPLICATION_NODE => "MULTIPLICATION_NODE"
  | NEGATION_NODE => "NEGATION_NODE"
  | NOT_EQUAL_TO_NODE => "NOT_EQUAL_TO_NODE"
  | NUMBER_NODE _ _ _ => "NUMBER_NODE"
  | PERCENT_NODE => "PERCENT_NODE"
  | POWER_NODE => "POWER_NODE"
  | PREPEND_WHITESPACE_NODE => "PREPEND_WHITESPACE_NODE"
  | STRING_NODE _ => "STRING_NODE"
  | SUBTRACTION_NODE => "SUBTRACTION_NODE"
  | TOKEN_NODE _ _ => "TOKEN_NODE"
  | REFERENCE_ERROR_WITH_UIDS => "REFERENCE_ERROR_WITH_UIDS"
  | OTHER_NODE => "OTHER"
  end.

(* one representative node per key of NODE_FUNCTION_MAP, in the source's (alphabetical) order *)
Definition map_keys : list node :=
  [ADDITION_NODE; APPEND_WHITESPACE_NODE; ARRAY_NODE 0 0; BEGIN_EMBEDDED_NODE_ARRAY; BOOLEAN_NODE None false;
   CELL_REFERENCE_NODE []; COLON_NODE; COLON_NODE_WITH_UIDS; COLON_TRACT_NODE []; CONCATENATION_NODE;
   DATE_NODE 0; DIVISION_NODE; EMPTY_ARGUMENT_NODE; END_THUNK_NODE; EQUAL_TO_NODE; FUNCTION_NODE 0 0;
   GREATER_THAN_NODE; GREATER_THAN_OR_EQUAL_TO_NODE; LESS_THAN_NODE; LESS_THAN_OR_EQUAL_TO_NODE; LIST_NODE 0;
   MULTIPLICATION_NODE; NEGATION_NODE; NOT_EQUAL_TO_NODE; NUMBER_NODE 0 0 []; PERCENT_NODE; POWER_NODE;
   PREPEND_WHITESPACE_NODE; STRING_NODE []; SUBTRACTION_NODE; TOKEN_NODE None false].

(* the model's dispatch table in the shape of the Python dict *)
Definition NODE_FUNCTION_MAP : list (string * option string) :=
  map (fun n => (node_type_name n, option_map method_name (method_of n))) map_keys.
