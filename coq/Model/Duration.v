(* Duration: executable mirror of cell.py : Cell._duration_format, _auto_units, _unit_format.
   The cell's duration is an exact number of milliseconds [ms : N]; the code holds it as a
   binary64 number of seconds (d = ms / 1000).  Every quotient `int(d / UNIT)` and remainder
   `d -= UNIT * dd` is modelled in exact integer arithmetic on milliseconds; that the float path
   agrees on millisecond-resolution durations is shown by the correspondence streams of harness/c14.py,
   not by a theorem.  `int(round(1000 * d))` is the remaining millisecond count. *)
From Coq Require Import ZArith NArith List Bool String Ascii.
From NP Require Import Model.PyBase Model.A1 Model.DateFormat.
Import ListNotations.
Open Scope N_scope.

(* DurationUnits *)
Definition U_WEEK : N := 1.
Definition U_DAY : N := 2.
Definition U_HOUR : N := 4.
Definition U_MINUTE : N := 8.
Definition U_SECOND : N := 16.
Definition U_MS : N := 32.
Definition all_units : list N := [U_WEEK; U_DAY; U_HOUR; U_MINUTE; U_SECOND; U_MS].

(* DurationStyle *)
Definition S_COMPACT : N := 0.
Definition S_SHORT : N := 1.
Definition S_LONG : N := 2.

(* SECONDS_IN_* in milliseconds *)
Definition MS_SECOND : N := 1000.
Definition MS_MINUTE : N := 60000.
Definition MS_HOUR : N := 3600000.
Definition MS_DAY : N := 86400000.
Definition MS_WEEK : N := 604800000.

Definition unit_ms (u : N) : N :=
  if u =? U_WEEK then MS_WEEK else if u =? U_DAY then MS_DAY else if u =? U_HOUR then MS_HOUR
  else if u =? U_MINUTE then MS_MINUTE else if u =? U_SECOND then MS_SECOND else 1.

Definition nstr (n : N) : str := py_str_N n.

(* _unit_format(unit, value, style, abbrev) *)
Definition unit_format (unit : str) (value : N) (style : N) (abbrev : option str) : str :=
  let plural := if value =? 1 then [] else [115] in
  let ab := match abbrev with Some a => a | None => firstn 1 unit end in
  if style =? S_COMPACT then []
  else if style =? S_SHORT then ab
  else 32 :: unit ++ plural.

Definition unit_in_range (largest smallest unit_type : N) : bool :=
  (largest <=? unit_type) && (unit_type <=? smallest).

(* pad_digits(d, largest, smallest, unit_type): True means NO leading zero is added *)
Definition pad_digits (d largest smallest unit_type : N) : bool :=
  ((largest =? unit_type) && (smallest =? unit_type)) || (10 <=? d).

(* the numeric decomposition: (unit, displayed value) from the largest to the smallest unit shown,
   following the chain of `if`s of _duration_format; [d] is the running remainder *)
Definition stage (cond sub : bool) (u : N) (st : N * list (N * N)) : N * list (N * N) :=
  let '(d, acc) := st in
  if cond then
    let dd := d / unit_ms u in
    ((if sub then d - unit_ms u * dd else d), acc ++ [(u, dd)])
  else st.

Definition duration_parts (ms largest smallest : N) : list (N * N) :=
  let st := (ms, []) in
  let st := stage (largest =? U_WEEK) (negb (smallest =? U_WEEK)) U_WEEK st in
  let st := stage (unit_in_range largest smallest U_DAY) (U_DAY <? smallest) U_DAY st in
  let st := stage (unit_in_range largest smallest U_HOUR) (U_HOUR <? smallest) U_HOUR st in
  let st := stage (unit_in_range largest smallest U_MINUTE) (U_MINUTE <? smallest) U_MINUTE st in
  let st := stage (unit_in_range largest smallest U_SECOND) (U_SECOND <? smallest) U_SECOND st in
  let st := stage (U_MS <=? smallest) false U_MS st in
  snd st.

(* how one component is printed *)
Definition show_part (style largest smallest : N) (p : N * N) : str :=
  let '(u, dd) := p in
  if u =? U_WEEK then nstr dd ++ unit_format (L"week") dd style None
  else if u =? U_DAY then nstr dd ++ unit_format (L"day") dd style None
  else if u =? U_HOUR then nstr dd ++ unit_format (L"hour") dd style None
  else if u =? U_MINUTE then
    if style =? S_COMPACT then (if pad_digits dd smallest largest U_MINUTE then [] else [48]) ++ nstr dd
    else nstr dd ++ unit_format (L"minute") dd style None
  else if u =? U_SECOND then
    if style =? S_COMPACT then (if pad_digits dd smallest largest U_SECOND then [] else [48]) ++ nstr dd
    else nstr dd ++ unit_format (L"second") dd style None
  else
    if style =? S_COMPACT then
      (if 100 <=? dd then [] else if 10 <=? dd then [48] else [48; 48]) ++ nstr dd
    else nstr dd ++ unit_format (L"millisecond") dd style (Some (L"ms")).

(* re.sub(r":(\d\d\d)$", r".\1", s) *)
Fixpoint colon_to_dot (s : str) : str :=
  match s with
  | [] => []
  | c :: r =>
    match r with
    | [a; b; d] => if (c =? 58) && is_digit a && is_digit b && is_digit d then 46 :: r else c :: colon_to_dot r
    | _ => c :: colon_to_dot r
    end
  end.

Definition duration_format (ms style largest smallest : N) : str :=
  let dstr := List.map (show_part style largest smallest) (duration_parts ms largest smallest) in
  let s := join (if style =? 0 then [58] else [32]) dstr in
  if style =? S_COMPACT then colon_to_dot s else s.

(* _auto_units(cell_value, number_format) -> (unit_smallest, unit_largest) *)
(* the `if cell_value >= SECONDS_IN_WEEK ... elif ...` chain *)
Definition auto_largest (ms : N) : N :=
  if MS_WEEK <=? ms then U_WEEK else if MS_DAY <=? ms then U_DAY else if MS_HOUR <=? ms then U_HOUR
  else if MS_MINUTE <=? ms then U_MINUTE else if MS_SECOND <=? ms then U_SECOND else U_MS.
(* the `if math.floor(cell_value) != cell_value ... elif cell_value % 60 ...` chain; a whole number of weeks
   keeps the stored smallest unit *)
Definition auto_smallest (ms stored_smallest : N) : N :=
  if negb (ms mod MS_SECOND =? 0) then U_MS
  else if negb (ms mod MS_MINUTE =? 0) then U_SECOND
  else if negb (ms mod MS_HOUR =? 0) then U_MINUTE
  else if negb (ms mod MS_DAY =? 0) then U_HOUR
  else if negb (ms mod MS_WEEK =? 0) then U_DAY
  else stored_smallest.
Definition auto_units (ms stored_largest stored_smallest : N) : N * N :=
  if ms =? 0 then (U_DAY, U_DAY)
  else (N.max (auto_smallest ms stored_smallest) (auto_largest ms), auto_largest ms).

(* Cell._duration_format with the format record's four fields *)
Definition duration_display (ms style largest smallest : N) (auto : bool) : str :=
  let '(s, l) := if auto then auto_units ms largest smallest else (smallest, largest) in
  duration_format ms style l s.

(* ---------- reading a displayed duration back ---------- *)
(* the maximal digit runs of a string, as numbers, left to right *)
Fixpoint digit_runs (s : str) (cur : option N) : list N :=
  match s with
  | [] => match cur with Some n => [n] | None => [] end
  | c :: r =>
    if is_digit c then digit_runs r (Some (match cur with Some n => n * 10 + (c - 48) | None => c - 48 end))
    else match cur with Some n => n :: digit_runs r None | None => digit_runs r None end
  end.
Definition readback (s : str) : list N := digit_runs s None.

(* the units shown for a (largest, smallest) pair, largest first *)
Definition units_shown (largest smallest : N) : list N :=
  filter (fun u => (largest <=? u) && (u <=? smallest)) all_units.

Fixpoint weighted_sum (us vs : list N) : N :=
  match us, vs with u :: us', v :: vs' => unit_ms u * v + weighted_sum us' vs' | _, _ => 0 end.

Definition is_unit (u : N) : bool := existsb (N.eqb u) all_units.
Definition valid_pair (largest smallest : N) : bool := is_unit largest && is_unit smallest && (largest <=? smallest).
