(* Line protocol entry for the C08 formula model.  Fields are tab separated.
   Text values travel as decimal code point lists prefixed with '=':  =65,66,8805

   expr <prefix-encoded tree>
        -> <wfb 0/1> <renderable 0/1> <parse-back 0/1> <show text> <formula_text (compile e)> <node>*
   run  <node>*
        -> formula_text of the node array (text or !Error)

   tree encoding (prefix, one field per symbol):
     n <hi> <lo> <rep>   s <text>   b <0/1>   k <0/1>   d <secs>   r <text>   t <text>     atoms
     B <op 0..11> e e    N e    P e    L <n> e*n    F <id> <n> a*n (a = e | _)    A <nrows> (R <ncols> e*ncols)*nrows
   node encoding: NODE_TYPE_NAME[:arg]*   (args: decimal numbers, texts as above, tokb as - / 0 / 1) *)
From Coq Require Import ZArith NArith List Bool Arith String Ascii.
From NP Require Import Model.PyBase Model.FormulaStack Model.Expr Gen.GenC08.
Import ListNotations.
Open Scope string_scope.
Open Scope nat_scope.
Open Scope list_scope.

Fixpoint s2l (s : string) : list N :=
  match s with EmptyString => [] | String a r => N_of_ascii a :: s2l r end.

(* ---------- text codec ---------- *)
Definition dec_cps (f : list N) : list N :=
  match f with
  | 61%N :: r => map digits_to_N (filter (fun x => negb (match x with [] => true | _ => false end)) (split_on 44 r []))
  | _ => []
  end.
Definition enc_cps (s : list N) : list N := 61%N :: join [44%N] (map N_to_str s).

Definition flag (s : list N) : bool := match s with [49%N] => true | _ => false end.
Definition enc_flag (b : bool) : list N := if b then [49%N] else [48%N].
Definition dec_tokb (s : list N) : option bool :=
  match s with [49%N] => Some true | [48%N] => Some false | _ => None end.
Definition enc_tokb (t : option bool) : list N :=
  match t with Some true => [49%N] | Some false => [48%N] | None => [45%N] end.

(* ---------- node codec ---------- *)
Definition nullary_nodes : list node :=
  [ADDITION_NODE; APPEND_WHITESPACE_NODE; BEGIN_EMBEDDED_NODE_ARRAY; COLON_NODE; COLON_NODE_WITH_UIDS;
   CONCATENATION_NODE; DIVISION_NODE; EMPTY_ARGUMENT_NODE; END_THUNK_NODE; EQUAL_TO_NODE; GREATER_THAN_NODE;
   GREATER_THAN_OR_EQUAL_TO_NODE; LESS_THAN_NODE; LESS_THAN_OR_EQUAL_TO_NODE; MULTIPLICATION_NODE;
   NEGATION_NODE; NOT_EQUAL_TO_NODE; PERCENT_NODE; POWER_NODE; PREPEND_WHITESPACE_NODE; SUBTRACTION_NODE;
   REFERENCE_ERROR_WITH_UIDS; OTHER_NODE].

Definition is_name (name : list N) (s : string) : bool := str_eqb name (s2l s).

Definition dec_node (f : list N) : option node :=
  match split_on 58 f [] with
  | [] => None
  | name :: args =>
    if is_name name "ARRAY_NODE" then
      match args with [r; c] => Some (ARRAY_NODE (digits_to_N r) (digits_to_N c)) | _ => None end
    else if is_name name "BOOLEAN_NODE" then
      match args with [t; b] => Some (BOOLEAN_NODE (dec_tokb t) (flag b)) | _ => None end
    else if is_name name "TOKEN_NODE" then
      match args with [t; b] => Some (TOKEN_NODE (dec_tokb t) (flag b)) | _ => None end
    else if is_name name "CELL_REFERENCE_NODE" then
      match args with [t] => Some (CELL_REFERENCE_NODE (dec_cps t)) | _ => None end
    else if is_name name "COLON_TRACT_NODE" then
      match args with [t] => Some (COLON_TRACT_NODE (dec_cps t)) | _ => None end
    else if is_name name "DATE_NODE" then
      match args with [d] => Some (DATE_NODE (str_to_Z d)) | _ => None end
    else if is_name name "FUNCTION_NODE" then
      match args with [i; k] => Some (FUNCTION_NODE (digits_to_N i) (digits_to_N k)) | _ => None end
    else if is_name name "LIST_NODE" then
      match args with [k] => Some (LIST_NODE (digits_to_N k)) | _ => None end
    else if is_name name "NUMBER_NODE" then
      match args with [h; l; r] => Some (NUMBER_NODE (digits_to_N h) (digits_to_N l) (dec_cps r)) | _ => None end
    else if is_name name "STRING_NODE" then
      match args with [t] => Some (STRING_NODE (dec_cps t)) | _ => None end
    else
      match args with
      | [] => find (fun n => is_name name (node_type_name n)) nullary_nodes
      | _ => None
      end
  end.

Definition colon : list N := [58%N].
Definition enc_node (n : node) : list N :=
  s2l (node_type_name n) ++
  match n with
  | ARRAY_NODE r c => colon ++ N_to_str r ++ colon ++ N_to_str c
  | BOOLEAN_NODE t b | TOKEN_NODE t b => colon ++ enc_tokb t ++ colon ++ enc_flag b
  | CELL_REFERENCE_NODE t | COLON_TRACT_NODE t | STRING_NODE t => colon ++ enc_cps t
  | DATE_NODE d => colon ++ Z_to_str d
  | FUNCTION_NODE i k => colon ++ N_to_str i ++ colon ++ N_to_str k
  | LIST_NODE k => colon ++ N_to_str k
  | NUMBER_NODE h l r => colon ++ N_to_str h ++ colon ++ N_to_str l ++ colon ++ enc_cps r
  | _ => []
  end.

Fixpoint dec_nodes (fs : list (list N)) : option (list node) :=
  match fs with
  | [] => Some []
  | f :: r => match dec_node f, dec_nodes r with Some n, Some ns => Some (n :: ns) | _, _ => None end
  end.

(* ---------- tree codec ---------- *)
Definition ops : list binop := [Add; Sub; Mul; Div; Pow; Cat; Eq; Ne; Lt; Gt; Le; Ge].
Definition dec_op (f : list N) : option binop := nth_error ops (N.to_nat (digits_to_N f)).
Definition op_index (o : binop) : N :=
  match o with Add => 0 | Sub => 1 | Mul => 2 | Div => 3 | Pow => 4 | Cat => 5
             | Eq => 6 | Ne => 7 | Lt => 8 | Gt => 9 | Le => 10 | Ge => 11 end%N.
Definition cnt (f : list N) : nat := N.to_nat (digits_to_N f).

Fixpoint dec_expr (fuel : nat) (fs : list (list N)) {struct fuel} : option (expr * list (list N)) :=
  match fuel with O => None | S f =>
    match fs with
    | [110%N] :: hi :: lo :: rep :: r => Some (EAtom (ANum (digits_to_N hi) (digits_to_N lo) (dec_cps rep)), r)
    | [115%N] :: t :: r => Some (EAtom (AStr (dec_cps t)), r)
    | [98%N] :: v :: r => Some (EAtom (ABool (flag v)), r)
    | [107%N] :: v :: r => Some (EAtom (ATok (flag v)), r)
    | [100%N] :: v :: r => Some (EAtom (ADate (str_to_Z v)), r)
    | [114%N] :: t :: r => Some (EAtom (ARef false (dec_cps t)), r)
    | [116%N] :: t :: r => Some (EAtom (ARef true (dec_cps t)), r)
    | [66%N] :: o :: r =>
        match dec_op o with
        | Some op =>
          match dec_expr f r with
          | Some (l, r1) => match dec_expr f r1 with Some (rr, r2) => Some (EBin op l rr, r2) | None => None end
          | None => None end
        | None => None end
    | [78%N] :: r => match dec_expr f r with Some (e, r1) => Some (ENeg e, r1) | None => None end
    | [80%N] :: r => match dec_expr f r with Some (e, r1) => Some (EPct e, r1) | None => None end
    | [76%N] :: n :: r => match dec_list f (cnt n) r with Some (es, r1) => Some (EParen es, r1) | None => None end
    | [70%N] :: id :: n :: r =>
        match dec_args f (cnt n) r with Some (args, r1) => Some (EFun (digits_to_N id) args, r1) | None => None end
    | [65%N] :: n :: r => match dec_rows f (cnt n) r with Some (rows, r1) => Some (EArr rows, r1) | None => None end
    | _ => None
    end end
with dec_list (fuel : nat) (n : nat) (fs : list (list N)) {struct fuel} : option (list expr * list (list N)) :=
  match fuel with O => None | S f =>
    match n with
    | O => Some ([], fs)
    | S n' => match dec_expr f fs with
              | Some (e, r) => match dec_list f n' r with Some (es, r1) => Some (e :: es, r1) | None => None end
              | None => None end
    end end
with dec_args (fuel : nat) (n : nat) (fs : list (list N)) {struct fuel} : option (list (option expr) * list (list N)) :=
  match fuel with O => None | S f =>
    match n with
    | O => Some ([], fs)
    | S n' =>
      match fs with
      | [95%N] :: r => match dec_args f n' r with Some (es, r1) => Some (None :: es, r1) | None => None end
      | _ => match dec_expr f fs with
             | Some (e, r) => match dec_args f n' r with Some (es, r1) => Some (Some e :: es, r1) | None => None end
             | None => None end
      end
    end end
with dec_rows (fuel : nat) (n : nat) (fs : list (list N)) {struct fuel} : option (list (list expr) * list (list N)) :=
  match fuel with O => None | S f =>
    match n with
    | O => Some ([], fs)
    | S n' =>
      match fs with
      | [82%N] :: c :: r =>
        match dec_list f (cnt c) r with
        | Some (row, r1) => match dec_rows f n' r1 with Some (rows, r2) => Some (row :: rows, r2) | None => None end
        | None => None end
      | _ => None
      end
    end end.

Definition nstr (n : nat) : list N := N_to_str (N.of_nat n).

Fixpoint enc_expr (e : expr) : list (list N) :=
  match e with
  | EAtom (ANum hi lo rep) => [[110%N]; N_to_str hi; N_to_str lo; enc_cps rep]
  | EAtom (AStr t) => [[115%N]; enc_cps t]
  | EAtom (ABool b) => [[98%N]; enc_flag b]
  | EAtom (ATok b) => [[107%N]; enc_flag b]
  | EAtom (ADate d) => [[100%N]; Z_to_str d]
  | EAtom (ARef false t) => [[114%N]; enc_cps t]
  | EAtom (ARef true t) => [[116%N]; enc_cps t]
  | EBin o l r => [66%N] :: N_to_str (op_index o) :: enc_expr l ++ enc_expr r
  | ENeg e => [78%N] :: enc_expr e
  | EPct e => [80%N] :: enc_expr e
  | EParen es => [76%N] :: nstr (List.length es) :: flat_map enc_expr es
  | EFun f args => [70%N] :: N_to_str f :: nstr (List.length args)
                   :: flat_map (fun a => match a with Some e => enc_expr e | None => [[95%N]] end) args
  | EArr rows => [65%N] :: nstr (List.length rows)
                 :: flat_map (fun row => [82%N] :: nstr (List.length row) :: flat_map enc_expr row) rows
  end.

Fixpoint fields_eqb (a b : list (list N)) : bool :=
  match a, b with
  | [], [] => true
  | x :: a', y :: b' => str_eqb x y && fields_eqb a' b'
  | _, _ => false
  end.

(* ---------- requests ---------- *)
Definition show_res (r : result (list N)) : list N :=
  match r with Ok s => enc_cps s | Err e => show_err e end.

Definition tab : list N := [c_tab].

Definition do_expr (fs : list (list N)) : list N :=
  match dec_expr (2 * List.length fs + 4) fs with
  | Some (e, []) =>
    let ts := show e in
    let back := match parse prec_tab ts with Some e' => fields_eqb (enc_expr e') (enc_expr e) | None => false end in
    enc_flag (wfb prec_tab e) ++ tab ++ enc_flag (renderable e) ++ tab ++ enc_flag back ++ tab
    ++ enc_cps (text function_map ts) ++ tab
    ++ show_res (formula_text function_map (compile e))
    ++ flat_map (fun n => tab ++ enc_node n) (compile e)
  | _ => [63%N]
  end.

Definition do_run (fs : list (list N)) : list N :=
  match dec_nodes fs with
  | Some ns => show_res (formula_text function_map ns)
  | None => [63%N]
  end.

Definition handle (line : list N) : list N :=
  match fields line with
  | [101%N; 120%N; 112%N; 114%N] :: fs => do_expr fs
  | [[114%N; 117%N; 110%N]] => do_run []
  | [114%N; 117%N; 110%N] :: fs => do_run fs
  | _ => [63%N]
  end.
