(* Loader: the call / handler skeleton of container loading
     containers.ObjectStore.__init__
     iwork.IWork.open, document_version, _open_zipfile,
     _read_objects_from_zipfile, _read_objects_from_package, _store_blob
   over abstract external calls.  The environment is a *script*: the sequence of
   answers the external call sites give, each either a value (only its shape, as far
   as the loader looks at it) or an arbitrary exception.  The loader is a program
   that consumes the script; an exhausted script or an answer for another call site
   than the one the loader is at is [Err OutOfFuel] (never a Python behaviour).
   The correspondence check records the script of a real run (with a fault injected
   at a chosen call) and replays it here, so the order and number of external calls
   is tied to the code as well.
   [fix_boundary] fixes/C17-loader-boundary.patch        (ObjectStore.__init__ translates)
   [fix_store]    fixes/C17-store-blob-empty-archive.patch (object loop inside the try) *)
From Coq Require Import NArith List Bool Lia.
From NP Require Import Model.PyBase.
Import ListNotations.
Open Scope N_scope.

(* exceptions the handlers distinguish, beyond PyBase's names *)
Definition OSErrorX : pyexn := OtherCrash 10.        (* OSError and subclasses *)
Definition InvalidPlist : pyexn := OtherCrash 30.    (* plistlib.InvalidFileException *)

Inductive site : Type :=
| S_exists | S_suffix | S_is_dir | S_zipfile | S_filelist | S_zip_read | S_plist_loads
| S_getinfo | S_namelist | S_iterdir | S_sub_is_dir | S_sub_open | S_fh_read
| S_prop_exists | S_open | S_is_iwa | S_from_buffer.

Definition site_id (s : site) : N :=
  match s with
  | S_exists => 1 | S_suffix => 2 | S_is_dir => 3 | S_zipfile => 4 | S_filelist => 5 | S_zip_read => 6
  | S_plist_loads => 7 | S_getinfo => 8 | S_namelist => 9 | S_iterdir => 10 | S_sub_is_dir => 11
  | S_sub_open => 12 | S_fh_read => 13 | S_prop_exists => 14 | S_open => 15 | S_is_iwa => 16 | S_from_buffer => 17
  end.
Definition site_eqb (a b : site) : bool := site_id a =? site_id b.

(* what plistlib.loads returned, as far as the loader looks *)
Inductive plist : Type :=
| PDict (version : option bool)   (* a dict; Some true: fileFormatVersion is a str, Some false: some other type, None: key missing *)
| PNotDict.

Inductive ans : Type :=
| ABool (b : bool)
| AUnit
| ANames (l : list str)
| ABlob
| APlist (p : plist)
| AIwa (chunks : list (list N))    (* IWAFile.from_buffer: per chunk, per archive, the number of objects *)
| ARaise (e : pyexn).

Definition script : Type := list (site * ans).

Definition next (s : site) (k : script) : result (ans * script) :=
  match k with
  | (s', a) :: k' => if site_eqb s s' then Ok (a, k') else Err OutOfFuel
  | [] => Err OutOfFuel
  end.

(* a call whose value must be a bool / unit / names / blob; any exception propagates *)
Definition call_bool (s : site) (k : script) : result (bool * script) :=
  do '(a, k') <- next s k ;
  match a with ABool b => Ok (b, k') | ARaise e => Err e | _ => Err OutOfFuel end.
Definition call_unit (s : site) (k : script) : result (unit * script) :=
  do '(a, k') <- next s k ;
  match a with AUnit => Ok (tt, k') | ARaise e => Err e | _ => Err OutOfFuel end.
Definition call_names (s : site) (k : script) : result (list str * script) :=
  do '(a, k') <- next s k ;
  match a with ANames l => Ok (l, k') | ARaise e => Err e | _ => Err OutOfFuel end.
Definition call_blob (s : site) (k : script) : result (unit * script) :=
  do '(a, k') <- next s k ;
  match a with ABlob => Ok (tt, k') | ARaise e => Err e | _ => Err OutOfFuel end.

(* ---------- strings ---------- *)
Definition lower_chr (c : chr) : chr := if is_upper c then c + 32 else c.
Definition lower (s : str) : str := map lower_chr s.
Fixpoint starts_with (s p : str) : bool :=
  match p, s with
  | [], _ => true
  | c :: p', d :: s' => (c =? d) && starts_with s' p'
  | _ :: _, [] => false
  end.
Definition ends_with (s suffix : str) : bool := starts_with (rev s) (rev suffix).
Definition s_iwa : str := [46;105;119;97].                                   (* ".iwa" *)
Definition s_index_zip : str := [105;110;100;101;120;46;122;105;112].        (* "index.zip" *)
Definition s_props : str := [77;101;116;97;100;97;116;97;47;80;114;111;112;101;114;116;105;101;115;46;112;108;105;115;116].
Definition s_build : str := [77;101;116;97;100;97;116;97;47;66;117;105;108;100;86;101;114;115;105;111;110;72;105;115;116;111;114;121;46;112;108;105;115;116].

(* ---------- _open_zipfile: BadZipFile -> FileFormatError, anything else propagates ---------- *)
Definition open_zipfile (k : script) : result (unit * script) :=
  do '(a, k') <- next S_zipfile k ;
  match a with
  | AUnit => Ok (tt, k')
  | ARaise BadZip => Err FileFormatError
  | ARaise e => Err e
  | _ => Err OutOfFuel
  end.

(* ---------- _store_blob; value = number of objects registered ---------- *)
Definition objects_of (chunks : list (list N)) : result N :=
  match chunks with
  | [] => Err IndexError                                        (* iwaf.chunks[0] *)
  | c :: _ => if existsb (fun n => n =? 0) c then Err IndexError  (* archive.objects[0] *)
              else Ok (N.of_nat (length c))
  end.

Definition store_blob (fix_store : bool) (filename : str) (k : script) : result (N * script) :=
  if ends_with filename s_iwa then
    do '(isiwa, k1) <- call_bool S_is_iwa k ;
    if isiwa then
      do '(a, k2) <- next S_from_buffer k1 ;
      match a with
      | ARaise OutOfFuel => Err OutOfFuel
      | ARaise _ => Err FileFormatError                          (* except Exception *)
      | AIwa chunks =>
        match objects_of chunks with
        | Ok n => Ok (n, k2)
        | Err e => Err (if fix_store then FileFormatError else e)
        end
      | _ => Err OutOfFuel
      end
    else Ok (0, k1)
  else Ok (0, k).

(* ---------- _read_objects_from_zipfile ----------
   [zip_members rec] is the `for filename in zipf.namelist()` loop; [rec] reads a nested
   Index.zip (the recursive call, on strictly less fuel) *)
Fixpoint zip_members (rec : script -> result (N * script)) (fix_store : bool)
         (names : list str) (k : script) (cnt : N) : result (N * script) :=
  match names with
  | [] => Ok (cnt, k)
  | name :: rest =>
    do '(_, ka) <- call_blob S_zip_read k ;
    if ends_with (lower name) s_index_zip then
      do '(_, kb) <- open_zipfile ka ;
      do '(c, kc) <- rec kb ;
      zip_members rec fix_store rest kc (cnt + c)
    else
      do '(c, kb) <- store_blob fix_store name ka ;
      zip_members rec fix_store rest kb (cnt + c)
  end.

Definition check_not_encrypted (a : ans) : result unit :=
  match a with
  | AUnit => Err UnsupportedError                      (* ".iwph" present: encrypted *)
  | ARaise KeyError => Ok tt
  | ARaise e => Err e
  | _ => Err OutOfFuel
  end.

Fixpoint read_zip (fix_store : bool) (fuel : nat) (k : script) : result (N * script) :=
  match fuel with
  | O => Err OutOfFuel
  | S f =>
    do '(a, k1) <- next S_getinfo k ;
    do _ <- check_not_encrypted a ;
    do '(names, k2) <- call_names S_namelist k1 ;
    zip_members (read_zip fix_store f) fix_store names k2 0
  end.

(* ---------- _read_objects_from_package ---------- *)
Fixpoint package_entries (rec : script -> result (N * script)) (fix_store : bool)
         (names : list str) (k : script) (cnt : N) : result (N * script) :=
  match names with
  | [] => Ok (cnt, k)
  | name :: rest =>
    do '(isdir, ka) <- call_bool S_sub_is_dir k ;
    if isdir then
      do '(c, kb) <- rec ka ;
      package_entries rec fix_store rest kb (cnt + c)
    else if str_eqb (lower name) s_index_zip then
      do '(_, kb) <- open_zipfile ka ;
      do '(c, kc) <- read_zip fix_store (S (length kb)) kb ;
      package_entries rec fix_store rest kc (cnt + c)
    else
      do '(_, kb) <- call_unit S_sub_open ka ;
      do '(_, kc) <- call_blob S_fh_read kb ;
      do '(c, kd) <- store_blob fix_store name kc ;
      package_entries rec fix_store rest kd (cnt + c)
  end.

Fixpoint read_package (fix_store : bool) (fuel : nat) (k : script) : result (N * script) :=
  match fuel with
  | O => Err OutOfFuel
  | S f =>
    do '(names, k1) <- call_names S_iterdir k ;
    package_entries (read_package fix_store f) fix_store names k1 0
  end.

(* ---------- document_version; value: is the version a str? ---------- *)
Definition is_invalid_plist (e : pyexn) : bool := match e with OtherCrash t => t =? 30 | _ => false end.
Definition read_plist (k : script) : result (bool * script) :=
  do '(a, k') <- next S_plist_loads k ;
  match a with
  | APlist (PDict (Some isstr)) => Ok (isstr, k')
  | APlist (PDict None) => Err KeyError                           (* doc_properties["fileFormatVersion"] *)
  | APlist PNotDict => Err TypeError
  | ARaise e => if is_invalid_plist e then Ok (true, k')          (* InvalidFileException: warn, version "" *)
                else Err e
  | _ => Err OutOfFuel
  end.

Definition is_metadata (name : str) : bool := ends_with name s_props || ends_with name s_build.

Definition document_version (is_package : bool) (k : script) : result (bool * script) :=
  if is_package then
    do '(e1, k1) <- call_bool S_prop_exists k ;
    do '(both, k2) <- (if e1 then call_bool S_prop_exists k1 else Ok (false, k1)) ;
    if negb both then Err FileFormatError else
    do '(_, k3) <- call_unit S_open k2 ;
    do '(_, k4) <- call_blob S_fh_read k3 ;
    read_plist k4
  else
    do '(names, k1) <- call_names S_filelist k ;
    if negb (Nat.eqb (length (filter is_metadata names)) 2) then Err FileFormatError else
    do '(_, k2) <- call_blob S_zip_read k1 ;
    read_plist k2.

(* ---------- IWork.open; value = number of objects registered ---------- *)
Definition iwork_open (fix_store : bool) (k : script) : result (N * script) :=
  do '(ex, k1) <- call_bool S_exists k ;
  if negb ex then Err FileError else
  do '(okfmt, k2) <- call_bool S_suffix k1 ;
  if negb okfmt then Err FileFormatError else
  do '(isdir, k3) <- call_bool S_is_dir k2 ;
  do '(_, k4) <- (if isdir then Ok (tt, k3) else open_zipfile k3) ;
  do '(isstr, k5) <- document_version isdir k4 ;
  (* allowed_version: re.sub on a non-str raises TypeError; the verdict only selects a warning *)
  if negb isstr then Err TypeError else
  do '(isdir2, k6) <- call_bool S_is_dir k5 ;
  if isdir2 then read_package fix_store (S (length k6)) k6 else read_zip fix_store (S (length k6)) k6.

(* ---------- ObjectStore.__init__ ---------- *)
Definition is_library_error (e : pyexn) : bool :=
  match e with FileError | FileFormatError | UnsupportedError => true | _ => false end.

Definition is_oserror (e : pyexn) : bool := match e with OtherCrash t => t =? 10 | _ => false end.

Definition translate (e : pyexn) : pyexn :=
  match e with
  | OutOfFuel => OutOfFuel
  | _ => if is_library_error e then e                 (* except (FileError, FileFormatError, UnsupportedError): raise *)
         else if is_oserror e then FileError          (* except OSError *)
         else FileFormatError                         (* except Exception *)
  end.

Definition object_store_init (fix_boundary fix_store : bool) (k : script) : result (N * script) :=
  let body :=
    do '(cnt, k') <- iwork_open fix_store k ;
    if cnt =? 0 then Err ValueError                               (* max() of an empty sequence *)
    else Ok (cnt, k') in
  match body with
  | Ok r => Ok r
  | Err e => Err (if fix_boundary then translate e else e)
  end.

(* ---------- the except clauses the model mirrors, per function, in source order;
   tied to the source by Props/C17.gen_handlers (tools/gen_c05.py reads them from the AST) ---------- *)
Definition modelled_handlers_pinned : list (str * list str) :=
  [([111;112;101;110], []);
   ([100;111;99;117;109;101;110;116;95;118;101;114;115;105;111;110], [[112;108;105;115;116;108;105;98;46;73;110;118;97;108;105;100;70;105;108;101;69;120;99;101;112;116;105;111;110]]);
   ([95;111;112;101;110;95;122;105;112;102;105;108;101], [[66;97;100;90;105;112;70;105;108;101]]);
   ([95;114;101;97;100;95;111;98;106;101;99;116;115;95;102;114;111;109;95;112;97;99;107;97;103;101], []);
   ([95;114;101;97;100;95;111;98;106;101;99;116;115;95;102;114;111;109;95;122;105;112;102;105;108;101], [[75;101;121;69;114;114;111;114]]);
   ([95;115;116;111;114;101;95;98;108;111;98], [[69;120;99;101;112;116;105;111;110]]);
   ([79;98;106;101;99;116;83;116;111;114;101;46;95;95;105;110;105;116;95;95], [])].
Definition modelled_handlers_repaired : list (str * list str) :=
  [([111;112;101;110], []);
   ([100;111;99;117;109;101;110;116;95;118;101;114;115;105;111;110], [[112;108;105;115;116;108;105;98;46;73;110;118;97;108;105;100;70;105;108;101;69;120;99;101;112;116;105;111;110]]);
   ([95;111;112;101;110;95;122;105;112;102;105;108;101], [[66;97;100;90;105;112;70;105;108;101]]);
   ([95;114;101;97;100;95;111;98;106;101;99;116;115;95;102;114;111;109;95;112;97;99;107;97;103;101], []);
   ([95;114;101;97;100;95;111;98;106;101;99;116;115;95;102;114;111;109;95;122;105;112;102;105;108;101], [[75;101;121;69;114;114;111;114]]);
   ([95;115;116;111;114;101;95;98;108;111;98], [[69;120;99;101;112;116;105;111;110]]);
   ([79;98;106;101;99;116;83;116;111;114;101;46;95;95;105;110;105;116;95;95], [[40;70;105;108;101;69;114;114;111;114;44;32;70;105;108;101;70;111;114;109;97;116;69;114;114;111;114;44;32;85;110;115;117;112;112;111;114;116;101;100;69;114;114;111;114;41]; [79;83;69;114;114;111;114]; [69;120;99;101;112;116;105;111;110]])].
Fixpoint strs_eqb (a b : list str) : bool :=
  match a, b with
  | [], [] => true
  | x :: a', y :: b' => str_eqb x y && strs_eqb a' b'
  | _, _ => false
  end.
Fixpoint handlers_eqb (a b : list (str * list str)) : bool :=
  match a, b with
  | [], [] => true
  | (f, h) :: a', (g, i) :: b' => str_eqb f g && strs_eqb h i && handlers_eqb a' b'
  | _, _ => false
  end.
Definition handlers_match (h : list (str * list str)) : bool :=
  handlers_eqb h modelled_handlers_pinned || handlers_eqb h modelled_handlers_repaired.
