(* Package: the ABSTRACT saved package of C07 and its verified checker.

   An abstract package is what harness/c07_abstract.py reads out of a saved .numbers zip by protobuf
   reflection: objects (identifier, member file, message type, TSP.Reference / TSP.DataReference values
   reachable in the message, the MessageInfo object_references / data_references), the zip member list,
   the PackageMetadata (components with locator / preferred_locator / external references / object uuid map
   entries, datas, last_object_identifier) and, per table, the declared size and the tiles with their
   row infos.  Flags [added]/[touched] come from the same abstraction of the SOURCE document
   (added = identifier absent there; touched = added or serialized archive changed), as do
   D / Dd = the (object, reference) pairs already unresolved in the source.

   [wf_package D Dd p] states property C07 on the abstraction; [validate D Dd p] is its executable
   checker (Proofs/PackageP.v: validate D Dd p = [] <-> wf_package D Dd p).

   The second half mirrors containers.ObjectStore's identifier allocation literally
   (__init__'s _max_id, new_message_id, create_object_from_dict). *)
From Coq Require Import ZArith NArith List Bool Lia Sorted MSets.MSetPositive.
From NP Require Import Model.PyBase Model.CellRecord Model.TileCodec.
Import ListNotations.
Open Scope N_scope.

(* ---------- identifier sets (executable side only; the specification speaks of lists) ---------- *)
Definition idset := PositiveSet.t.
Definition key (n : N) : positive := N.succ_pos n.
Definition smem (n : N) (s : idset) : bool := PositiveSet.mem (key n) s.
Definition sadd (n : N) (s : idset) : idset := PositiveSet.add (key n) s.
Definition set_of (l : list N) : idset := fold_left (fun s x => sadd x s) l PositiveSet.empty.
(* identifiers occurring at least twice *)
Fixpoint dups_acc (l : list N) (seen dup : idset) : idset :=
  match l with
  | [] => dup
  | x :: r => if smem x seen then dups_acc r seen (sadd x dup) else dups_acc r (sadd x seen) dup
  end.
Definition dups (l : list N) : idset := dups_acc l PositiveSet.empty PositiveSet.empty.

Definition pair_in (a b : N) (D : list (N * N)) : bool := existsb (fun p => (fst p =? a) && (snd p =? b)) D.
Definition name_in (n : str) (l : list str) : bool := existsb (str_eqb n) l.

(* ---------- the abstract package ---------- *)
Record obj := {
  o_id : N;
  o_file : N;                (* index of the zip member holding the archive *)
  o_type : N;                (* MessageInfo.type of the first message (diagnostics only) *)
  o_added : bool;            (* identifier absent from the source document *)
  o_touched : bool;          (* created, or its serialized archive differs from the source's *)
  o_refs : list N;           (* TSP.Reference identifiers reachable in the message(s) *)
  o_hrefs : list N;          (* MessageInfo.object_references *)
  o_drefs : list N;          (* TSP.DataReference identifiers reachable in the message(s) *)
  o_hdrefs : list N          (* MessageInfo.data_references *)
}.
Record member := { m_name : str; m_added : bool }.
Record extref := { x_comp : N; x_obj : option N; x_added : bool }.
Record component := {
  c_id : N; c_locator : str; c_preferred : str; c_added : bool;
  c_ext : list extref;               (* ComponentExternalReference *)
  c_uuid : list (N * bool)           (* ObjectUUIDMapEntry.identifier, added *)
}.
Record datainfo := { d_id : N; d_file : str; d_added : bool }.

Record prow := {
  r_index : N;               (* TileRowInfo.tile_row_index *)
  r_count : N;               (* cell_count *)
  r_wide : bool;             (* has_wide_offsets *)
  r_slen : N;                (* len(cell_storage_buffer) *)
  r_offs : list Z;           (* cell_offsets as signed 16-bit values *)
  r_flags : list N           (* flags word of the record at each non-negative offset, in column order *)
}.
Record ptile := { t_id : N; t_numrows : N; t_rows : list prow }.
Record ptable := { tb_id : N; tb_nrows : N; tb_ncols : N; tb_tiles : list ptile }.

Record package := {
  p_last : N;                (* PackageMetadata.last_object_identifier *)
  p_members : list member;
  p_components : list component;
  p_datas : list datainfo;
  p_objects : list obj;
  p_tables : list ptable
}.

Definition ids (p : package) : list N := map o_id (p_objects p).
Definition data_ids (p : package) : list N := map d_id (p_datas p).
Definition comp_ids (p : package) : list N := map c_id (p_components p).
Definition names (p : package) : list str := map m_name (p_members p).

(* "Index/" , ".iwa" , "Index/Metadata.iwa" , "Data/" *)
Definition index_prefix : str := [73;110;100;101;120;47].
Definition iwa_suffix : str := [46;105;119;97].
Definition metadata_member : str := index_prefix ++ [77;101;116;97;100;97;116;97] ++ iwa_suffix.
Definition data_prefix : str := [68;97;116;97;47].

Definition ends_with (suf s : str) : bool :=
  Nat.leb (length suf) (length s) && str_eqb suf (skipn (length s - length suf) s).
(* the member an archive component is stored in: Index/<locator or preferred_locator>.iwa *)
Definition comp_file (c : component) : str :=
  index_prefix ++ (match c_locator c with [] => c_preferred c | l => l end) ++ iwa_suffix.
Definition file_of (nm : list str) (o : obj) : option str := nth_error nm (N.to_nat (o_file o)).

(* ---------- cell records inside a row's storage buffer ---------- *)
(* length of a v5 record as announced by its own flags word: 12-byte header + the fields of doc_layout *)
Definition reclen (flags : N) : Z :=
  12 + fold_right (fun f acc => (if N.testbit flags (lbit f) then Z.of_nat (lwidth f) else 0) + acc)%Z 0%Z doc_layout.
Definition byte_off (wide : bool) (o : Z) : Z := if wide then (o * 4)%Z else o.
Definition present (wide : bool) (offs : list Z) : list Z := map (byte_off wide) (filter (fun o => (0 <=? o)%Z) offs).

(* ---------- specification ---------- *)
Definition resolves_in (l : list N) (D : list (N * N)) (o r : N) : Prop := In r l \/ In (o, r) D.

(* every object reference in an object the library created or rewrote resolves inside the package,
   unless that very reference was already unresolved in the source *)
Definition wf_obj_refs (D Dd : list (N * N)) (p : package) (o : obj) : Prop :=
  o_touched o = true ->
  Forall (resolves_in (ids p) D (o_id o)) (o_refs o) /\ Forall (resolves_in (ids p) D (o_id o)) (o_hrefs o) /\
  Forall (resolves_in (data_ids p) Dd (o_id o)) (o_drefs o) /\ Forall (resolves_in (data_ids p) Dd (o_id o)) (o_hdrefs o).
(* identifiers of added objects are unique in the package and not above the high-water mark *)
Definition wf_obj_id (p : package) (o : obj) : Prop :=
  o_added o = true -> count_occ N.eq_dec (ids p) (o_id o) = 1%nat /\ o_id o <= p_last p.
(* every archive file added is listed in the package metadata *)
Definition archive_added (m : member) : Prop :=
  m_added m = true /\ ends_with iwa_suffix (m_name m) = true /\ m_name m <> metadata_member.
Definition wf_member (p : package) (m : member) : Prop :=
  archive_added m -> exists c, In c (p_components p) /\ comp_file c = m_name m.
(* ... and conversely an added component names a member that holds its root object; external references and
   uuid map entries the library added resolve *)
Definition wf_component (p : package) (c : component) : Prop :=
  (c_added c = true ->
     In (comp_file c) (names p) /\
     exists o, In o (p_objects p) /\ o_id o = c_id c /\ file_of (names p) o = Some (comp_file c)) /\
  Forall (fun x => x_added x = true ->
            In (x_comp x) (comp_ids p) /\ forall y, x_obj x = Some y -> In y (ids p)) (c_ext c) /\
  Forall (fun u => snd u = true -> In (fst u) (ids p)) (c_uuid c).
Definition wf_data (p : package) (d : datainfo) : Prop :=
  d_added d = true -> count_occ N.eq_dec (data_ids p) (d_id d) = 1%nat /\ In (data_prefix ++ d_file d) (names p).

(* records: 4-byte aligned, inside the buffer, ordered by column and pairwise non-overlapping *)
Definition recs_wf (slen : Z) (l : list (Z * N)) : Prop :=
  Forall (fun x => (fst x mod 4 = 0 /\ 0 <= fst x /\ fst x + reclen (snd x) <= slen)%Z) l /\
  ForallOrdPairs (fun a b => (fst a + reclen (snd a) <= fst b)%Z) l.
Definition wf_row (ncols : N) (r : prow) : Prop :=
  N.of_nat (length (r_offs r)) = ncols /\
  Forall (fun o => (-1 <= o)%Z) (r_offs r) /\
  N.of_nat (length (present (r_wide r) (r_offs r))) = r_count r /\
  length (r_flags r) = length (present (r_wide r) (r_offs r)) /\
  recs_wf (Z.of_N (r_slen r)) (combine (present (r_wide r) (r_offs r)) (r_flags r)).
Definition wf_tile (ncols : N) (t : ptile) : Prop :=
  (length (t_rows t) <= 256)%nat /\
  N.of_nat (length (t_rows t)) = t_numrows t /\
  Forall (fun r => r_index r < 256) (t_rows t) /\
  StronglySorted N.lt (map r_index (t_rows t)) /\
  Forall (wf_row ncols) (t_rows t).
Definition global_rows (tiles : list ptile) : list N :=
  flat_map (fun t => map (fun r => t_id t * 256 + r_index r) (t_rows t)) tiles.
Definition total_rows (tiles : list ptile) : nat := length (flat_map t_rows tiles).
(* the tiles account for exactly the declared rows: row k of the table is the k-th stored row *)
Definition wf_table (t : ptable) : Prop :=
  N.of_nat (total_rows (tb_tiles t)) = tb_nrows t /\
  global_rows (tb_tiles t) = map N.of_nat (seq 0 (N.to_nat (tb_nrows t))) /\
  Forall (wf_tile (tb_ncols t)) (tb_tiles t).

Definition wf_package (D Dd : list (N * N)) (p : package) : Prop :=
  Forall (wf_obj_refs D Dd p) (p_objects p) /\
  Forall (wf_obj_id p) (p_objects p) /\
  Forall (wf_member p) (p_members p) /\
  Forall (wf_component p) (p_components p) /\
  Forall (wf_data p) (p_datas p) /\
  Forall wf_table (p_tables p).

(* ---------- the checker ---------- *)
Inductive defect : Type :=
| DRef (o r : N) | DHRef (o r : N) | DDRef (o r : N) | DHDRef (o r : N)
| DDupId (o : N) | DAbove (o : N)
| DUnlisted (i : N) | DNoFile (c : N) | DNoRoot (c : N)
| DExtComp (c x : N) | DExtObj (c o : N) | DUuid (c o : N)
| DDupData (d : N) | DNoData (d : N)
| TRows (t n : N) | TCover (t : N) | TTileBig (t k : N) | TNumRows (t k : N) | TRowIndex (t k : N)
| TOffsLen (t k i : N) | TOffNeg (t k i : N) | TCount (t k i : N) | TFlagsLen (t k i : N) | TRecords (t k i : N).

Definition when (ok : bool) (d : defect) : list defect := if ok then [] else [d].

Definition check_refs (ok : N -> bool) (D : list (N * N)) (mk : N -> N -> defect) (o : N) (rs : list N) : list defect :=
  flat_map (fun r => when (ok r || pair_in o r D) (mk o r)) rs.

Definition obj_ref_defects (idS dataS : idset) (D Dd : list (N * N)) (o : obj) : list defect :=
  if o_touched o then
    check_refs (fun r => smem r idS) D DRef (o_id o) (o_refs o) ++
    check_refs (fun r => smem r idS) D DHRef (o_id o) (o_hrefs o) ++
    check_refs (fun r => smem r dataS) Dd DDRef (o_id o) (o_drefs o) ++
    check_refs (fun r => smem r dataS) Dd DHDRef (o_id o) (o_hdrefs o)
  else [].

Definition obj_id_defects (dupS : idset) (last : N) (o : obj) : list defect :=
  if o_added o then when (negb (smem (o_id o) dupS)) (DDupId (o_id o)) ++ when (o_id o <=? last) (DAbove (o_id o))
  else [].

Fixpoint indexed {A} (k : N) (l : list A) : list (N * A) :=
  match l with [] => [] | x :: r => (k, x) :: indexed (k + 1) r end.

Definition archive_added_b (m : member) : bool :=
  m_added m && ends_with iwa_suffix (m_name m) && negb (str_eqb (m_name m) metadata_member).
Definition member_defects (files : list str) (im : N * member) : list defect :=
  when (negb (archive_added_b (snd im)) || name_in (m_name (snd im)) files) (DUnlisted (fst im)).

Definition has_root (nm : list str) (objs : list obj) (c : component) : bool :=
  existsb (fun o => (o_id o =? c_id c) &&
                    match file_of nm o with Some f => str_eqb f (comp_file c) | None => false end) objs.

Definition component_defects (nm : list str) (idS compS : idset) (objs : list obj) (c : component) : list defect :=
  (if c_added c then when (name_in (comp_file c) nm) (DNoFile (c_id c)) ++ when (has_root nm objs c) (DNoRoot (c_id c))
   else []) ++
  flat_map (fun x => if x_added x then
                       when (smem (x_comp x) compS) (DExtComp (c_id c) (x_comp x)) ++
                       match x_obj x with Some y => when (smem y idS) (DExtObj (c_id c) y) | None => [] end
                     else []) (c_ext c) ++
  flat_map (fun u : N * bool => if snd u then when (smem (fst u) idS) (DUuid (c_id c) (fst u)) else []) (c_uuid c).

Definition data_defects (nm : list str) (ddupS : idset) (d : datainfo) : list defect :=
  if d_added d then when (negb (smem (d_id d) ddupS)) (DDupData (d_id d)) ++
                    when (name_in (data_prefix ++ d_file d) nm) (DNoData (d_id d))
  else [].

Definition validate_pkg (D Dd : list (N * N)) (p : package) : list defect :=
  let idS := set_of (ids p) in
  let dataS := set_of (data_ids p) in
  let nm := names p in
  flat_map (obj_ref_defects idS dataS D Dd) (p_objects p) ++
  flat_map (obj_id_defects (dups (ids p)) (p_last p)) (p_objects p) ++
  flat_map (member_defects (map comp_file (p_components p))) (indexed 0 (p_members p)) ++
  flat_map (component_defects nm idS (set_of (comp_ids p)) (p_objects p)) (p_components p) ++
  flat_map (data_defects nm (dups (data_ids p))) (p_datas p).

Fixpoint recs_ok (slen : Z) (l : list (Z * N)) : bool :=
  match l with
  | [] => true
  | (o, f) :: r =>
    (o mod 4 =? 0)%Z && (0 <=? o)%Z && (o + reclen f <=? match r with [] => slen | (o', _) :: _ => o' end)%Z
    && recs_ok slen r
  end.

Definition row_defects (t k ncols : N) (r : prow) : list defect :=
  let pres := present (r_wide r) (r_offs r) in
  when (N.of_nat (length (r_offs r)) =? ncols) (TOffsLen t k (r_index r)) ++
  when (forallb (fun o => (-1 <=? o)%Z) (r_offs r)) (TOffNeg t k (r_index r)) ++
  when (N.of_nat (length pres) =? r_count r) (TCount t k (r_index r)) ++
  when (Nat.eqb (length (r_flags r)) (length pres)) (TFlagsLen t k (r_index r)) ++
  when (recs_ok (Z.of_N (r_slen r)) (combine pres (r_flags r))) (TRecords t k (r_index r)).

Fixpoint increasing (l : list N) : bool :=
  match l with
  | a :: r => match r with b :: _ => (a <? b) && increasing r | [] => true end
  | [] => true
  end.

Definition tile_defects (t ncols : N) (tl : ptile) : list defect :=
  let idx := map r_index (t_rows tl) in
  when (Nat.leb (length (t_rows tl)) 256) (TTileBig t (t_id tl)) ++
  when (N.of_nat (length (t_rows tl)) =? t_numrows tl) (TNumRows t (t_id tl)) ++
  when (forallb (fun i => i <? 256) idx && increasing idx) (TRowIndex t (t_id tl)) ++
  flat_map (row_defects t (t_id tl) ncols) (t_rows tl).

Fixpoint counts_from (k : N) (l : list N) : bool :=
  match l with [] => true | x :: r => (x =? k) && counts_from (k + 1) r end.

Definition validate_tbl (t : ptable) : list defect :=
  let g := global_rows (tb_tiles t) in
  when (N.of_nat (total_rows (tb_tiles t)) =? tb_nrows t) (TRows (tb_id t) (N.of_nat (total_rows (tb_tiles t)))) ++
  when (counts_from 0 g && (N.of_nat (length g) =? tb_nrows t)) (TCover (tb_id t)) ++
  flat_map (tile_defects (tb_id t) (tb_ncols t)) (tb_tiles t).

Definition validate (D Dd : list (N * N)) (p : package) : list defect :=
  validate_pkg D Dd p ++ flat_map validate_tbl (p_tables p).

(* ---------- abstraction of the tile codec's output (what the harness does to a saved tile) ---------- *)
(* flags word of the record starting at byte offset [off] of a row's storage buffer; 0 when the header is cut *)
Definition flags_at (st : list N) (off : Z) : N :=
  if (0 <=? off)%Z && (off + 12 <=? Z.of_nat (length st))%Z
  then le_val (slice st (Z.to_nat off + 8) (Z.to_nat off + 12)) else 0.
Definition abs_row (ri : rowinfo) : prow :=
  {| r_index := N.of_nat (tile_row_index ri); r_count := N.of_nat (cell_count ri); r_wide := true;
     r_slen := N.of_nat (length (r_storage ri)); r_offs := r_offsets ri;
     r_flags := map (flags_at (r_storage ri)) (present true (r_offsets ri)) |}.
Fixpoint abs_tiles (k : N) (tiles : list (list rowinfo)) : list ptile :=
  match tiles with
  | [] => []
  | t :: r => {| t_id := k; t_numrows := N.of_nat (length t); t_rows := map abs_row t |} :: abs_tiles (k + 1) r
  end.
Definition abs_table (id : N) (nrows ncols : nat) (tiles : list (list rowinfo)) : ptable :=
  {| tb_id := id; tb_nrows := N.of_nat nrows; tb_ncols := N.of_nat ncols; tb_tiles := abs_tiles 0 tiles |}.

(* ---------- containers.ObjectStore: identifier allocation ---------- *)
Definition PACKAGE_ID : N := 2.
Record store := {
  s_keys : list N;           (* keys of _objects, in insertion order *)
  s_max : N;                 (* _max_id *)
  s_last : N                 (* _objects[PACKAGE_ID].last_object_identifier *)
}.
Definition list_max (l : list N) : N := fold_right N.max 0 l.
(* math.ceil(m / 1000000) * 1000000 (exact below 2^52, see the harness' idalloc stream) *)
Definition ceil_million (m : N) : N := ((m + 999999) / 1000000) * 1000000.
(* __init__ after IWork.open filled _objects: max() of an empty dict raises ValueError, which __init__
   translates into FileFormatError (fix: translate foreign exceptions raised while loading a document) *)
Definition store_init (keys : list N) (last : N) : result store :=
  match keys with
  | [] => Err FileFormatError
  | _ => Ok {| s_keys := keys; s_max := ceil_million (list_max keys); s_last := last |}
  end.
Definition has_key (k : N) (s : store) : bool := existsb (N.eqb k) (s_keys s).
(* new_message_id: _max_id += 1; _objects[PACKAGE_ID].last_object_identifier = _max_id; return _max_id *)
Definition new_message_id (s : store) : result (N * store) :=
  let m := s_max s + 1 in
  if has_key PACKAGE_ID s then Ok (m, {| s_keys := s_keys s; s_max := m; s_last := m |})
  else Err KeyError.
(* create_object_from_dict: new_id = new_message_id(); ...; _objects[new_id] = the new object *)
Definition create_object (s : store) : result (N * store) :=
  do r <- new_message_id s ;
  let '(i, s') := r in
  Ok (i, {| s_keys := if has_key i s' then s_keys s' else s_keys s' ++ [i]; s_max := s_max s'; s_last := s_last s' |}).

Inductive idop := OpNewId | OpCreate.
(* a history of allocations: the identifiers handed out, in order, and the final state *)
Fixpoint run_ops (ops : list idop) (s : store) : result (list N * store) :=
  match ops with
  | [] => Ok ([], s)
  | op :: r =>
    do x <- (match op with OpNewId => new_message_id s | OpCreate => create_object s end) ;
    do y <- run_ops r (snd x) ;
    Ok (fst x :: fst y, snd y)
  end.
