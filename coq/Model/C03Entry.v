(* Line protocol for the table-grid model (C03, C11, C12): one request line = one history.
   ops are separated by '|', fields by ','; '-' stands for None:
     N,nr,nc               new table appended to the document
     W,t,r,c,v             write
     AR,t,n,start,default  add_row      AC,...  add_column
     DR,t,n,start          delete_row   DC,...  delete_column
     M,t,r0,c0,r1,c1       merge_cells
     RD,t,r,c              cell(r, c)
     IR,t,r0,r1,c0,c1      iter_rows(min_row,max_row,min_col,max_col)      IC,t,c0,c1,r0,r1   iter_cols
     RN,t,name             rename table t (no effect on any grid)
     D,t                   dump of table t           RO,t   dump of the table after save + reopen
   one result per op, joined by '|'. *)
From Coq Require Import ZArith NArith List Bool.
From NP Require Import Model.PyBase Model.Grid.
Import ListNotations.
Open Scope Z_scope.

Definition dot : list N := [46%N].
Definition zs (z : Z) : list N := Z_to_str z.
Definition oz (s : list N) : option Z := match s with [45%N] => None | _ => Some (str_to_Z s) end.

Definition show_attr (a : mattr) : list N :=
  match a with
  | MPlain => [80%N]
  | MAnchor h w => [65%N] ++ zs h ++ [120%N] ++ zs w
  | MRef a b c d => [82%N] ++ zs a ++ [95%N] ++ zs b ++ [95%N] ++ zs c ++ [95%N] ++ zs d
  end.
Definition show_cell (x : cell) : list N :=
  zs (crow x) ++ dot ++ zs (ccol x) ++ dot ++ (match cval x with Some v => zs v | None => [45%N] end)
  ++ dot ++ (if cplace x then [109%N] else [99%N]) ++ dot ++ show_attr (cmerge x).
Definition show_cells (l : list cell) : list N := join [47%N] (map show_cell l).
Definition show_range (q : Z * Z * Z * Z) : list N :=
  let '(a, b, c, d) := q in zs a ++ [95%N] ++ zs b ++ [95%N] ++ zs c ++ [95%N] ++ zs d.
Definition dump (t : table) : list N :=
  zs (nrows t) ++ [58%N] ++ zs (ncols t) ++ [58%N] ++ join [59%N] (map show_cells (data t))
  ++ [58%N] ++ join [59%N] (map show_range (merge_ranges t)).

Definition ok_s : list N := [111%N; 107%N].

Definition with_table (ts : list table) (i : Z) (f : table -> result table) : list table * list N :=
  match nth_error ts (Z.to_nat i) with
  | None => (ts, [63%N])
  | Some t => match f t with
              | Ok t' => (set_nth ts (Z.to_nat i) t', ok_s)
              | Err e => (ts, show_err e)
              end
  end.
Definition query (ts : list table) (i : Z) (f : table -> list N) : list table * list N :=
  match nth_error ts (Z.to_nat i) with None => (ts, [63%N]) | Some t => (ts, f t) end.

Definition show_rows (r : result (list (list cell))) : list N :=
  match r with Ok rows => join [59%N] (map show_cells rows) | Err e => show_err e end.

Definition step (ts : list table) (op : list (list N)) : list table * list N :=
  match op with
  | [[78%N]; nr; nc] => (ts ++ [new_table (str_to_Z nr) (str_to_Z nc)], ok_s)
  | [[87%N]; t; r; c; v] => with_table ts (str_to_Z t) (fun x => write x (str_to_Z r) (str_to_Z c) (str_to_Z v))
  | [[65%N; 82%N]; t; n; s; d] => with_table ts (str_to_Z t) (fun x => add_row x (str_to_Z n) (oz s) (oz d))
  | [[65%N; 67%N]; t; n; s; d] => with_table ts (str_to_Z t) (fun x => add_column x (str_to_Z n) (oz s) (oz d))
  | [[68%N; 82%N]; t; n; s] => with_table ts (str_to_Z t) (fun x => delete_row x (str_to_Z n) (oz s))
  | [[68%N; 67%N]; t; n; s] => with_table ts (str_to_Z t) (fun x => delete_column x (str_to_Z n) (oz s))
  | [[77%N]; t; a; b; c; d] => with_table ts (str_to_Z t) (fun x => merge_cells x (str_to_Z a) (str_to_Z b) (str_to_Z c) (str_to_Z d))
  | [[82%N; 68%N]; t; r; c] =>
      query ts (str_to_Z t) (fun x => match read x (str_to_Z r) (str_to_Z c) with Ok y => show_cell y | Err e => show_err e end)
  | [[73%N; 82%N]; t; a; b; c; d] => query ts (str_to_Z t) (fun x => show_rows (iter_rows x (oz a) (oz b) (oz c) (oz d)))
  | [[73%N; 67%N]; t; a; b; c; d] => query ts (str_to_Z t) (fun x => show_rows (iter_cols x (oz a) (oz b) (oz c) (oz d)))
  | [[82%N; 78%N]; _; _] => (ts, ok_s)          (* rename: names are not part of the grid; every table keeps its content *)
  | [[68%N]; t] => query ts (str_to_Z t) dump
  | [[82%N; 79%N]; t] => query ts (str_to_Z t) (fun x => dump (reopen x))
  | _ => (ts, [63%N])
  end.

Definition handle (line : list N) : list N :=
  let ops := map (fun o => split_on_fast 44 o []) (split_on_fast 124 line []) in
  let '(_, outs) := fold_left (fun st op => let '(ts, o) := step (fst st) op in (ts, o :: snd st)) ops ([], []) in
  join [124%N] (rev_append outs []).
