(* DataList: executable mirror of model.DataLists (per-table lookup lists: strings, formats, styles, formulas)
     add_table (index the entries read from the file), init, lookup_value, lookup_key
   and of the KeyError -> "" fallback of _NumbersModel.table_string.
   Python dicts are association lists with update-in-place semantics (latest binding wins on lookup). *)
From Coq Require Import ZArith NArith List Bool Lia.
From NP Require Import Model.PyBase.
Import ListNotations.

Section DL.
  Variable V : Type.
  Variable veqb : V -> V -> bool.

  Fixpoint zget (k : Z) (m : list (Z * V)) : option V :=
    match m with [] => None | (k', v) :: r => if (k =? k')%Z then Some v else zget k r end.
  Fixpoint vget (v : V) (m : list (V * Z)) : option Z :=
    match m with [] => None | (v', k) :: r => if veqb v v' then Some k else vget v r end.

  Record dl := { entries : list (Z * V); by_key : list (Z * V); by_value : list (V * Z); next_key : Z }.

  (* add_table: for i, entry in enumerate(datalist.entries): (repaired: every entry is indexed) *)
  Definition index_step (st : Z * list (Z * V) * list (V * Z)) (e : Z * V) :=
    let '(mx, bk, bv) := st in
    let '(k, v) := e in
    ((if (mx <? k)%Z then k else mx), (k, v) :: bk, (v, k) :: bv).
  Definition add_table (es : list (Z * V)) : dl :=
    let '(mx, bk, bv) := fold_left index_step es (0%Z, [], []) in
    {| entries := es; by_key := bk; by_value := bv; next_key := (mx + 1)%Z |}.

  (* the pinned code indexed an entry only when its key exceeded every earlier key *)
  Definition index_step_pinned (st : Z * list (Z * V) * list (V * Z)) (e : Z * V) :=
    let '(mx, bk, bv) := st in
    let '(k, v) := e in
    if (mx <? k)%Z then (k, (k, v) :: bk, (v, k) :: bv) else st.
  Definition add_table_pinned (es : list (Z * V)) : dl :=
    let '(mx, bk, bv) := fold_left index_step_pinned es (0%Z, [], []) in
    {| entries := es; by_key := bk; by_value := bv; next_key := (mx + 1)%Z |}.

  Definition init (d : dl) : dl := {| entries := []; by_key := []; by_value := []; next_key := 1 |}.

  (* lookup_value: self._datalists[table_id]["by_key"][key] -> KeyError when absent *)
  Definition lookup_value (d : dl) (k : Z) : result V :=
    match zget k (by_key d) with Some v => Ok v | None => Err KeyError end.

  Definition lookup_key (d : dl) (v : V) : Z * dl :=
    match vget v (by_value d) with
    | None =>
      let k := next_key d in
      (k, {| entries := entries d ++ [(k, v)]; by_key := (k, v) :: by_key d;
             by_value := (v, k) :: by_value d; next_key := (k + 1)%Z |})
    | Some k => (k, d)          (* refcount += 1: not part of what is read back *)
    end.

  (* table_string: KeyError -> "" (the silent fallback C06 forbids for valid files) *)
  Definition table_string (fallback : V) (d : dl) (k : Z) : V :=
    match lookup_value d k with Ok v => v | Err _ => fallback end.
End DL.
Arguments entries {V}. Arguments by_key {V}. Arguments by_value {V}. Arguments next_key {V}.
