(* Line protocol for the border / style model (C15).
     brd <nr> <nc> <max_order> <ops>        repaired code        pin ...   the same on the pinned order
        ops separated by ';':
          s,<t|r|b|l>,<row>,<col>,<len>,<obj>,<attrs>   Table.set_cell_border (attrs: letters/digits token)
          R   read every border      O   save and reopen      V   take a snapshot of every cell's four sides
        -> snapshots separated by '|' (cells row-major, sides t,r,b,l, comma separated, '-' = None)
           TAB  layers: <side><index>:<origin>.<length>.<order>.<attrs>/...  separated by ' '  TAB max_order
     lww <nr> <nc> <ops>                     the specification: last writer wins per edge, same snapshot format
     dty <attribute name>                    Style.__setattr__ dirty flags: <text 0/1><cell 0/1>
     col <v>                                 round(float32(v/255)*255) *)
From Coq Require Import ZArith NArith List Bool.
From NP Require Import Model.PyBase Model.Borders Model.Styles.
Import ListNotations.
Open Scope N_scope.

Definition c_comma : chr := 44.
Definition c_semi : chr := 59.
Definition c_bar : chr := 124.
Definition c_slash : chr := 47.
Definition c_dot : chr := 46.
Definition c_colon : chr := 58.
Definition dash : str := [45].

Definition parse_side (s : str) : side :=
  match s with [116] => STop | [114] => SRight | [98] => SBottom | _ => SLeft end.
Definition show_side (s : side) : str :=
  match s with STop => [116] | SRight => [114] | SBottom => [98] | SLeft => [108] end.

Definition parse_bop (s : str) : option bop :=
  match split_on_fast c_comma s [] with
  | [[115]; sd; r; c; l; o; a] =>
      Some (BStroke {| s_side := parse_side sd; s_row := str_to_Z r; s_col := str_to_Z c; s_len := str_to_Z l;
                       s_obj := N.to_nat (digits_to_N o) |})
  | [[82]] => Some BRead
  | [[79]] => Some BReopen
  | _ => None
  end.

(* the attributes of the caller's Border objects: those given where the object is first used *)
Fixpoint objs_of (ops : list str) (n : nat) : attrs :=
  match ops with
  | [] => []
  | o :: r => match split_on_fast c_comma o [] with
              | [[115]; _; _; _; _; oi; a] => if Nat.eqb (N.to_nat (digits_to_N oi)) n then a else objs_of r n
              | _ => objs_of r n
              end
  end.

Definition all_keys (nr nc : Z) : list key :=
  flat_map (fun r => flat_map (fun c => [(r, c, STop); (r, c, SRight); (r, c, SBottom); (r, c, SLeft)])
                              (map Z.of_nat (seq 0 (Z.to_nat nc))))
           (map Z.of_nat (seq 0 (Z.to_nat nr))).

Definition show_oattrs (o : option attrs) : str := match o with Some a => a | None => dash end.
Definition snapshot (st : mem) : str :=
  let st' := read_borders st in
  join [c_comma] (map (fun k => show_oattrs (view st' k)) (all_keys (m_nr st) (m_nc st))).

Definition show_run (r : run) : str :=
  Z_to_str (r_origin r) ++ [c_dot] ++ Z_to_str (r_length r) ++ [c_dot] ++ Z_to_str (r_order r) ++ [c_dot] ++ r_attrs r.
Definition show_layers (st : mem) : str :=
  join [c_space]
    (flat_map (fun sd => map (fun ln => show_side sd ++ Z_to_str ln ++ [c_colon] ++
                                        join [c_slash] (map show_run (m_layers st sd ln)))
                             (m_lorder st sd))
              [STop; SLeft; SRight; SBottom]).

(* run the ops; a snapshot reads the borders (as the harness does on the real document) *)
Fixpoint run_ops (step : mem -> bop -> mem) (ops : list str) (st : mem) (snaps : list str) : list str * mem :=
  match ops with
  | [] => (rev snaps, st)
  | o :: r =>
    match o with
    | [86] => let st' := read_borders st in run_ops step r st' (snapshot st' :: snaps)
    | _ => match parse_bop o with
           | Some b => run_ops step r (step st b) snaps
           | None => run_ops step r st snaps
           end
    end
  end.

Definition show_result (r : list str * mem) : str :=
  join [c_bar] (fst r) ++ [c_tab] ++ show_layers (snd r) ++ [c_tab] ++ Z_to_str (m_max (snd r)).

Fixpoint collect_strokes (ops : list str) : list stroke :=
  match ops with
  | [] => []
  | o :: r => match parse_bop o with
              | Some (BStroke s) => s :: collect_strokes r
              | _ => collect_strokes r
              end
  end.

Definition lww_snapshot (objs : nat -> attrs) (nr nc : Z) (h : list stroke) : str :=
  let m := lww objs nr nc h in
  join [c_comma] (map (fun k => show_oattrs (m (edge_of k))) (all_keys nr nc)).

Definition handle (ln : list N) : list N :=
  match fields_fast ln with
  | [[98;114;100]; nr; nc; mx; ops] =>
      show_result (run_ops (bstep (objs_of (split_on_fast c_semi ops []))) (split_on_fast c_semi ops []) (empty_table (str_to_Z nr) (str_to_Z nc) (str_to_Z mx)) [])
  | [[112;105;110]; nr; nc; mx; ops] =>
      show_result (run_ops (Pinned.bstep (objs_of (split_on_fast c_semi ops []))) (split_on_fast c_semi ops []) (empty_table (str_to_Z nr) (str_to_Z nc) (str_to_Z mx)) [])
  | [[108;119;119]; nr; nc; ops] =>
      lww_snapshot (objs_of (split_on_fast c_semi ops [])) (str_to_Z nr) (str_to_Z nc) (collect_strokes (split_on_fast c_semi ops []))
  | [[100;116;121]; a] => let '(t, c) := dirty_flags a in [if t then 49 else 48; if c then 49 else 48]
  | [[99;111;108]; v] => N_to_str (colour_roundtrip (digits_to_N v))
  | _ => [63]
  end.
