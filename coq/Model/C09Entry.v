(* Line protocol entry for the C09 reference model (Model/Refs.v).  Fields are tab
   separated.  A string is a comma separated list of decimal code points (may be empty).
     DOC    sheets separated by ';' ; a sheet is  name|table|table...  ; a table is
            name/nhr/nhc/rowlabels/collabels ; a label list is the labels each PRECEDED by '.'
     NODE   c/ROW/COL        ROW, COL = '-' (field absent) or  value:abs(0/1)
            t/bra/bca/era/eca/ABSROW/RELROW/ABSCOL/RELCOL   entry lists, each entry preceded by '.',
                             an entry is  begin  or  begin~end
   requests
     ref DOC hs ht ts tt ITEM...     ts = '-' : no cross-table info; ITEM = hostrow;hostcol;NODE
            -> one result per item, tab separated:  '=' cps(flat text)  |  !Error
     scp DOC                         -> row_ranges/col_ranges of every table:
            sheets ';' tables '|' rows '/' cols ; entries preceded by '.' : '-' or scope(1..4):cps(name)
     rst DOC hs ht n p1 p2           -> resolve_table for the n prefix parts: s.t joined by ','
     rsl DOC hs ht n p1 p2 body      -> decode_label body, resolve_label: abs(0/1)|s.t.axis(0 row/1 col).idx,...
     rss DOC hs ht n p1 p2 b1 b2     -> decode both bodies, resolve_span: abs1 abs2|s.t.axis.idx.axis.idx,... *)
From Coq Require Import ZArith NArith List Bool.
From NP Require Import Model.PyBase Model.A1 Model.Refs.
Import ListNotations.
Open Scope N_scope.

Definition parse_cps (t : list N) : list N :=
  match t with [] => [] | _ => map digits_to_N (split_on_fast 44 t []) end.
Definition show_cps (s : list N) : list N := join [44] (map N_to_str s).
Definition to_nat (s : list N) : nat := N.to_nat (digits_to_N s).
Definition flag (s : list N) : bool := match s with [49] => true | _ => false end.

(* "" -> [] ; ".a.b" -> [a; b] *)
Definition dotted (s : list N) : list (list N) :=
  match split_on_fast 46 s [] with _ :: r => r | [] => [] end.

Definition parse_tbl (s : list N) : tbl :=
  match split_on_fast 47 s [] with
  | [n; hr; hc; rl; cl] => mk_tbl (parse_cps n) (to_nat hr) (to_nat hc) (map parse_cps (dotted rl)) (map parse_cps (dotted cl))
  | _ => mk_tbl [] 0 0 [] []
  end.
Definition parse_sheet (s : list N) : sheet :=
  match split_on_fast 124 s [] with
  | n :: ts => (parse_cps n, map parse_tbl ts)
  | [] => ([], [])
  end.
Definition parse_doc (s : list N) : doc := map parse_sheet (split_on_fast 59 s []).

Definition parse_ise (s : list N) : ise :=
  match split_on_fast 126 s [] with
  | [b; e] => mk_ise (str_to_Z b) (Some (str_to_Z e))
  | [b] => mk_ise (str_to_Z b) None
  | _ => mk_ise 0%Z None
  end.
Definition parse_ises (s : list N) : list ise := map parse_ise (dotted s).
Definition parse_coord (s : list N) : option (Z * bool) :=
  match s with
  | [45] => None
  | _ => match split_on_fast 58 s [] with
         | [v; a] => Some (str_to_Z v, flag a)
         | _ => None
         end
  end.
Definition parse_node (s : list N) : node :=
  match split_on_fast 47 s [] with
  | [[99]; r; c] => NCell (parse_coord r) (parse_coord c)
  | [[116]; a; b; c; e; ar; rr; ac; rc] =>
    NTract (flag a) (flag b) (flag c) (flag e) (parse_ises ar) (parse_ises rr) (parse_ises ac) (parse_ises rc)
  | _ => NCell None None
  end.

Definition show_rtext (r : result rtext) : list N :=
  match r with
  | Ok t => 61 :: show_cps (flat t)
  | Err e => show_err e
  end.

Definition do_item (d : doc) (from : tid) (to : option tid) (s : list N) : list N :=
  match split_on_fast 59 s [] with
  | [hr; hc; n] => show_rtext (ref_text d from (str_to_Z hr) (str_to_Z hc) to (parse_node n))
  | _ => [63]
  end.

Definition scope_num (s : scope) : N :=
  match s with DOCUMENT => 49 | SHEET => 50 | TABLE => 51 | NONE => 52 end.
Definition show_entry (o : option sref) : list N :=
  46 :: match o with None => [45] | Some r => scope_num (s_scope r) :: 58 :: show_cps (s_name r) end.
Definition show_ranges (r : result (list (option sref))) : list N :=
  match r with Ok l => flat_map show_entry l | Err e => show_err e end.
Definition show_scopes (d : doc) : list N :=
  join [59] (map (fun si =>
    match nth_error d si with
    | Some s => join [124] (map (fun ti => show_ranges (ranges d (si, ti) ROW) ++ [47] ++ show_ranges (ranges d (si, ti) COL))
                                (seq 0 (length (snd s))))
    | None => []
    end) (seq 0 (length d))).

Definition show_nat (n : nat) : list N := N_to_str (N.of_nat n).
Definition show_tid (t : tid) : list N := show_nat (fst t) ++ [46] ++ show_nat (snd t).
Definition prefix_of (n p1 p2 : list N) : list (list N) :=
  match n with [49] => [parse_cps p1] | [50] => [parse_cps p1; parse_cps p2] | _ => [] end.
Definition show_hit (h : tid * (axis * nat)) : list N :=
  show_tid (fst h) ++ [46] ++ (match fst (snd h) with ROW => [48] | COL => [49] end) ++ [46] ++ show_nat (snd (snd h)).

Definition handle (line : list N) : list N :=
  match fields_fast line with
  | [114;101;102] :: ds :: hs :: ht :: ts :: tt_ :: items =>
    let d := parse_doc ds in
    let from := (to_nat hs, to_nat ht) in
    let to := match ts with [45] => None | _ => Some (to_nat ts, to_nat tt_) end in
    join [c_tab] (map (do_item d from to) items)
  | [[115;99;112]; ds] => show_scopes (parse_doc ds)
  | [[114;115;116]; ds; hs; ht; n; p1; p2] =>
    join [44] (map show_tid (resolve_table (parse_doc ds) (to_nat hs, to_nat ht) (prefix_of n p1 p2)))
  | [[114;115;108]; ds; hs; ht; n; p1; p2; body] =>
    let '(ab, name) := decode_label (parse_cps body) in
    (if ab then [49] else [48]) ++ [124] ++
    join [44] (map show_hit (resolve_label (parse_doc ds) (to_nat hs, to_nat ht) (prefix_of n p1 p2) name))
  | [[114;115;115]; ds; hs; ht; n; p1; p2; b1; b2] =>
    let '(ab1, n1) := decode_label (parse_cps b1) in
    let '(ab2, n2) := decode_label (parse_cps b2) in
    (if ab1 then [49] else [48]) ++ (if ab2 then [49] else [48]) ++ [124] ++
    join [44] (map (fun h : shit => show_hit (fst h, fst (snd h)) ++ [46] ++
                       (match fst (snd (snd h)) with ROW => [48] | COL => [49] end) ++ [46] ++ show_nat (snd (snd (snd h))))
                   (resolve_span (parse_doc ds) (to_nat hs, to_nat ht) (prefix_of n p1 p2) n1 n2))
  | _ => [63]
  end.
