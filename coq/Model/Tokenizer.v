(* Tokenizer: executable mirror of numbers_parser.tokenizer.Tokenizer / Token
   (src/numbers_parser/tokenizer.py).

   str = list of code points.  State of the Python object:
     items        -> [items]  (kept reversed: head = last appended token)
     token_stack  -> [stack]  (head = top)
     token        -> [tokbuf] (kept reversed: head = last appended character)
     offset       -> the remaining input (the suffix formula[offset:]); every
                     parse_* returns the number of characters it consumed.

   Two things are parameters of the model (Section variables, no hypotheses):
     isnum    the outcome of Python's float(value) in Token.make_operand; it only
              selects the subtype NUMBER/RANGE.  [py_float_ok] below is the
              concrete scanner used by the correspondence run.
     pop_exn  what parse_closer does on an empty token_stack.  The pinned tree
              calls list.pop() there (foreign IndexError = [PopEmpty]); the
              repaired tree raises TokenizerError.  [tokenize] is the repaired
              code, [tokenize_pinned] the pinned one.

   Regexes are deterministic scanners (their sources, as code points, are
   modelled_dq_regex / modelled_sq_regex / modelled_sn_regex at the end of the
   file and are compared with the source on every run, Gen/GenTok.v):
     STRING_REGEXES[double quote]  -> match_dq     doubled-quote strings, closing
                                      quote not followed by a quote
     STRING_REGEXES[single quote]  -> match_sq     quoted name with doubled quotes,
                                      then any number of  ws* colon ws* quoted-name
     SN_RE                         -> sn_match     digit 1-9, optional fraction, E
   Definitions only; proofs are in Proofs/TokenizerP.v. *)
From Coq Require Import List NArith Bool.
From NP Require Import Model.PyBase.
Import ListNotations.
Open Scope N_scope.

Inductive ty := OPERAND | FUNC | ARRAY | PAREN | SEP | OP_PRE | OP_IN | OP_POST.
Inductive sub := S_TEXT | S_NUMBER | S_LOGICAL | S_ERROR | S_RANGE | S_OPEN | S_CLOSE | S_ARG | S_ROW | S_NONE.
Record token := { tval : str; tty : ty; tsub : sub }.

Definition ty_eqb (a b : ty) : bool :=
  match a, b with
  | OPERAND, OPERAND | FUNC, FUNC | ARRAY, ARRAY | PAREN, PAREN | SEP, SEP
  | OP_PRE, OP_PRE | OP_IN, OP_IN | OP_POST, OP_POST => true
  | _, _ => false
  end.

Fixpoint mem (c : chr) (l : list chr) : bool :=
  match l with [] => false | x :: r => (c =? x) || mem c r end.
Fixpoint prefix (p s : str) : bool :=
  match p, s with
  | [], _ => true
  | x :: p', y :: s' => (x =? y) && prefix p' s'
  | _, _ => false
  end.
Fixpoint dropN (n : nat) (s : str) : str :=
  match n, s with O, _ => s | S k, _ :: r => dropN k r | S _, [] => [] end.

(* ---------- code points ---------- *)
Definition DQ : chr := 34.    Definition SQ : chr := 39.    Definition HASH : chr := 35.
Definition LP : chr := 40.    Definition RP : chr := 41.    Definition LB : chr := 123.
Definition RB : chr := 125.   Definition COMMA : chr := 44. Definition SEMI : chr := 59.
Definition COLON : chr := 58. Definition PLUS : chr := 43.  Definition MINUS : chr := 45.
Definition PCT : chr := 37.

(* TOKEN_ENDERS *)
Definition enders : list chr := [44;59;125;41;43;45;42;47;94;38;61;62;60;37;215;247;8805;8804;8800].
(* dispatcher key string of parse_operator *)
Definition operators : list chr := [43;45;42;47;94;38;61;62;60;37;215;247;8805;8804;8800].
(* parse_operator: the characters that are always infix *)
Definition infix_only : list chr := [42;47;94;38;61;62;60;215;247;8805;8804;8800].
(* the one-character members of the two-character operator tuple (>=, <=, <>, and the three glyphs):
   a slice formula[offset:offset+2] of length one can only equal one of these *)
Definition short_two : list chr := [8805;8804;8800].

(* \s of a str pattern = str.isspace() *)
Definition is_space (c : chr) : bool :=
  mem c [32;9;10;11;12;13;28;29;30;31;133;160;5760;8232;8233;8239;8287;12288] || ((8192 <=? c) && (c <=? 8202)).

(* ---------- STRING_REGEXES, double quote ---------- *)
(* body after the opening quote; n = characters matched so far.  A quote that is
   followed by a quote is a doubled quote (the only way the regex can get past
   it, given the negative look-ahead); otherwise it closes the string. *)
Fixpoint dq_body (s : str) (n : N) : option N :=
  match s with
  | [] => None
  | c :: r =>
    if c =? DQ then
      match r with
      | c2 :: r2 => if c2 =? DQ then dq_body r2 (n + 2) else Some (n + 1)
      | [] => Some (n + 1)
      end
    else dq_body r (n + 1)
  end.
Definition match_dq (s : str) : option N :=
  match s with c :: r => if c =? DQ then dq_body r 1 else None | [] => None end.

(* ---------- STRING_REGEXES, single quote ---------- *)
(* one quoted name: greedy over doubled quotes, backtracking to
   `this quote closes the name` when the longer alternative fails *)
Fixpoint sq_body (s : str) (n : N) : option N :=
  match s with
  | [] => None
  | c :: r =>
    if c =? SQ then
      match r with
      | c2 :: r2 =>
        if c2 =? SQ then
          match sq_body r2 (n + 2) with Some m => Some m | None => Some (n + 1) end
        else Some (n + 1)
      | [] => Some (n + 1)
      end
    else sq_body r (n + 1)
  end.
Definition match_name (s : str) : option N :=
  match s with c :: r => if c =? SQ then sq_body r 1 else None | [] => None end.
Fixpoint skip_ws (s : str) (n : N) : str * N :=
  match s with
  | c :: r => if is_space c then skip_ws r (n + 1) else (s, n)
  | [] => (s, n)
  end.
(* the continuation ( ws* colon ws* quoted-name )* ; fuel = an upper bound of length s *)
Fixpoint sq_cont (fuel : nat) (s : str) (n : N) : N :=
  match fuel with
  | O => n
  | S f =>
    let '(s1, n1) := skip_ws s n in
    match s1 with
    | c :: r =>
      if c =? COLON then
        let '(s2, n2) := skip_ws r (n1 + 1) in
        match match_name s2 with
        | Some m => sq_cont f (dropN (N.to_nat m) s2) (n2 + m)
        | None => n
        end
      else n
    | [] => n
    end
  end.
Definition match_sq (s : str) : option N :=
  match match_name s with
  | Some m => Some (sq_cont (length s) (dropN (N.to_nat m) s) m)
  | None => None
  end.

(* regex.match(formula[offset:]) for the delimiter at the head of [s] *)
Definition match_quoted (s : str) : option N :=
  match s with
  | c :: _ => if c =? DQ then match_dq s else if c =? SQ then match_sq s else None
  | [] => None
  end.

(* ---------- ERROR_CODES ---------- *)
Definition error_codes : list str :=
  [ [35;78;85;76;76;33]; [35;68;73;86;47;48;33]; [35;86;65;76;85;69;33]; [35;82;69;70;33];
    [35;78;65;77;69;63]; [35;78;85;77;33]; [35;78;47;65] ].

(* ---------- SN_RE  ^[1-9](\.[0-9]+)?E$  on the pending token ---------- *)
Fixpoint digits_then_E (s : str) (seen : bool) : bool :=
  match s with
  | [c] => seen && (c =? 69)
  | c :: r => is_digit c && digits_then_E r true
  | [] => false
  end.
Definition sn_match0 (t : str) : bool :=
  match t with
  | c :: r =>
    (49 <=? c) && (c <=? 57) &&
    match r with
    | [e] => e =? 69
    | d :: r2 => (d =? 46) && digits_then_E r2 false
    | [] => false
    end
  | [] => false
  end.
(* `$` also matches just before a trailing newline *)
Definition sn_match (t : str) : bool :=
  sn_match0 t || (match rev t with c :: r => (c =? 10) && sn_match0 (rev r) | [] => false end).

Definition s_TRUE : str := [84;82;85;69].
Definition s_FALSE : str := [70;65;76;83;69].

Record st := { items : list token (* reversed *); stack : list token; tokbuf : str (* reversed *) }.
Definition st0 : st := {| items := []; stack := []; tokbuf := [] |}.
Definition push_item (s : st) (t : token) : st :=
  {| items := t :: items s; stack := stack s; tokbuf := tokbuf s |}.

Section Tok.
  Variable isnum : str -> bool.      (* float(value) does not raise ValueError *)
  Variable pop_exn : pyexn.          (* parse_closer on an empty token_stack *)

  (* Token.make_operand *)
  Definition make_operand (v : str) : token :=
    match v with
    | c :: _ =>
      if c =? DQ then {| tval := v; tty := OPERAND; tsub := S_TEXT |}
      else if c =? HASH then {| tval := v; tty := OPERAND; tsub := S_ERROR |}
      else if str_eqb v s_TRUE || str_eqb v s_FALSE then {| tval := v; tty := OPERAND; tsub := S_LOGICAL |}
      else {| tval := v; tty := OPERAND; tsub := if isnum v then S_NUMBER else S_RANGE |}
    | [] => {| tval := v; tty := OPERAND; tsub := if isnum v then S_NUMBER else S_RANGE |}
    end.

  Definition save_token (s : st) : st :=
    match tokbuf s with
    | [] => s
    | _ => {| items := make_operand (rev (tokbuf s)) :: items s; stack := stack s; tokbuf := [] |}
    end.

  (* parse_operator's type for a one-character operator *)
  Definition op_type (s : st) (c : chr) : ty :=
    if c =? PCT then OP_POST
    else if mem c infix_only then OP_IN
    else match items s with
         | [] => OP_PRE
         | p :: _ =>
           if (match tsub p with S_CLOSE => true | _ => false end) || ty_eqb (tty p) OP_POST || ty_eqb (tty p) OPERAND
           then OP_IN else OP_PRE
         end.

  (* one iteration of the `while self.offset < len(self.formula)` loop on the
     non-empty remaining input; returns the new state and the offset advance *)
  Definition step (s : st) (inp : str) : result (st * N) :=
    match inp with
    | [] => Err (OtherCrash 0)      (* not reachable: the loop condition *)
    | c :: rest =>
      (* check_scientific_notation *)
      if (mem c [PLUS; MINUS]) && (match tokbuf s with [] => false | _ => true end) && sn_match (rev (tokbuf s))
      then Ok ({| items := items s; stack := stack s; tokbuf := c :: tokbuf s |}, 1)
      else
      let s := if mem c enders then save_token s else s in
      if (c =? DQ) || (c =? SQ) then                       (* parse_string *)
        match tokbuf s with
        | _ :: _ => Err TokenizerError                     (* assert_empty_token *)
        | [] =>
          match (if c =? DQ then match_dq inp else match_sq inp) with
          | None => Err TokenizerError
          | Some m => Ok (push_item s (make_operand (firstn (N.to_nat m) inp)), m)
          end
        end
      else if c =? HASH then                               (* parse_error *)
        match tokbuf s with
        | _ :: _ => Err TokenizerError
        | [] =>
          match find (fun e => prefix e inp) error_codes with
          | Some e => Ok (push_item s (make_operand e), N.of_nat (length e))
          | None => Err TokenizerError
          end
        end
      else if mem c operators then                         (* parse_operator *)
        match rest with
        | c2 :: _ =>
          if ((c =? 62) && (c2 =? 61)) || ((c =? 60) && (c2 =? 61)) || ((c =? 60) && (c2 =? 62))
          then Ok (push_item s {| tval := [c; c2]; tty := OP_IN; tsub := S_NONE |}, 2)
          else Ok (push_item s {| tval := [c]; tty := op_type s c; tsub := S_NONE |}, 1)
        | [] =>
          if mem c short_two
          then Ok (push_item s {| tval := [c]; tty := OP_IN; tsub := S_NONE |}, 2)   (* returns 2 past the end *)
          else Ok (push_item s {| tval := [c]; tty := op_type s c; tsub := S_NONE |}, 1)
        end
      else if c =? LB then                                 (* parse_opener, brace *)
        match tokbuf s with
        | _ :: _ => Err TokenizerError
        | [] =>
          let t := {| tval := [LB]; tty := ARRAY; tsub := S_OPEN |} in
          Ok ({| items := t :: items s; stack := t :: stack s; tokbuf := [] |}, 1)
        end
      else if c =? LP then                                 (* parse_opener, parenthesis *)
        let t := match tokbuf s with
                 | [] => {| tval := [LP]; tty := PAREN; tsub := S_OPEN |}
                 | b => {| tval := rev (LP :: b); tty := FUNC; tsub := S_OPEN |}
                 end in
        Ok ({| items := t :: items s; stack := t :: stack s; tokbuf := [] |}, 1)
      else if (c =? RP) || (c =? RB) then                  (* parse_closer *)
        match stack s with
        | [] => Err pop_exn
        | o :: stk =>
          let cl := match tty o with ARRAY => RB | _ => RP end in
          if cl =? c then
            Ok ({| items := {| tval := [cl]; tty := tty o; tsub := S_CLOSE |} :: items s; stack := stk; tokbuf := tokbuf s |}, 1)
          else Err TokenizerError
        end
      else if c =? SEMI then                               (* parse_separator *)
        Ok (push_item s {| tval := [SEMI]; tty := SEP; tsub := S_ROW |}, 1)
      else if c =? COMMA then
        let t := match stack s with
                 | [] => {| tval := [COMMA]; tty := OP_IN; tsub := S_NONE |}
                 | top :: _ =>
                   if ty_eqb (tty top) PAREN then {| tval := [COMMA]; tty := OP_IN; tsub := S_NONE |}
                   else {| tval := [COMMA]; tty := SEP; tsub := S_ARG |}
                 end in
        Ok (push_item s t, 1)
      else Ok ({| items := items s; stack := stack s; tokbuf := c :: tokbuf s |}, 1)
    end.

  Fixpoint run (fuel : nat) (s : st) (inp : str) : result (list token) :=
    match inp with
    | [] => Ok (rev (items (save_token s)))
    | _ =>
      match fuel with
      | O => Err OutOfFuel
      | S f =>
        match step s inp with
        | Ok (s', m) => run f s' (dropN (N.to_nat m) inp)
        | Err e => Err e
        end
      end
    end.

  Definition tokenize_gen (inp : str) : result (list token) := run (S (length inp)) st0 inp.
End Tok.

(* ---------- float(value) succeeds, for ASCII digits ---------- *)
(* whitespace float() strips: non-ASCII str.isspace() characters are mapped to
   ' ' first; ASCII 28..31 are str.isspace() but not stripped *)
Definition float_space (c : chr) : bool :=
  ((9 <=? c) && (c <=? 13)) || (c =? 32) || ((128 <=? c) && is_space c).
Fixpoint drop_while (p : chr -> bool) (s : str) : str :=
  match s with c :: r => if p c then drop_while p r else s | [] => [] end.
Definition lower (c : chr) : chr := if is_upper c then c + 32 else c.
Definition opt_sign (s : str) : str :=
  match s with c :: r => if (c =? PLUS) || (c =? MINUS) then r else s | [] => [] end.
(* underscores only between two digits *)
Fixpoint us_ok (prev : chr) (s : str) : bool :=
  match s with
  | [] => negb (prev =? 95)
  | c :: r => (if c =? 95 then is_digit prev else (negb (prev =? 95) || is_digit c)) && us_ok c r
  end.
Fixpoint span_digits (s : str) : nat * str :=
  match s with
  | c :: r => if is_digit c then let '(k, t) := span_digits r in (S k, t) else (O, s)
  | [] => (O, [])
  end.
Definition num_syntax (s : str) : bool :=
  let '(n1, s1) := span_digits s in
  let '(n2, s2) := match s1 with c :: r => if c =? 46 then span_digits r else (O, s1) | [] => (O, s1) end in
  match (n1 + n2)%nat with
  | O => false
  | _ =>
    match s2 with
    | [] => true
    | e :: r =>
      if (e =? 69) || (e =? 101) then
        let '(n3, s3) := span_digits (opt_sign r) in
        match n3, s3 with S _, [] => true | _, _ => false end
      else false
    end
  end.
Definition py_float_ok (v : str) : bool :=
  let s := rev (drop_while float_space (rev (drop_while float_space v))) in
  let b := opt_sign s in
  let lb := map lower b in
  if str_eqb lb [105;110;102] || str_eqb lb [105;110;102;105;110;105;116;121] || str_eqb lb [110;97;110] then true
  else us_ok 0 s && num_syntax (filter (fun c => negb (c =? 95)) b).

(* the repaired tokenizer and the pinned one *)
Definition tokenize (inp : str) : result (list token) := tokenize_gen py_float_ok TokenizerError inp.
Definition tokenize_pinned (inp : str) : result (list token) := tokenize_gen py_float_ok PopEmpty inp.

(* sources of the modelled regexes / tables (compared with Gen/GenTok.v) *)
Definition modelled_dq_regex : str :=
  [34;40;63;58;91;94;34;93;42;34;34;41;42;91;94;34;93;42;34;40;63;33;34;41].
Definition modelled_sq_regex : str :=
  [40;63;58;39;91;94;39;93;42;40;63;58;39;39;91;94;39;93;42;41;42;39;41;40;63;58;92;115;42;58;92;115;42;39;91;94;39;93;42;40;63;58;39;39;91;94;39;93;42;41;42;39;41;42].
Definition modelled_sn_regex : str :=
  [94;91;49;45;57;93;40;92;46;91;48;45;57;93;43;41;63;69;36].
