(* PyBase: shared vocabulary of the executable models.
   - Python str  = list of code points (N)
   - Python bytes = list of N (< 256 by the boolean predicate [is_bytes])
   - Python exceptions are explicit values of [result].
   - Line protocol helpers (tab separated fields, decimal integers, hex bytes);
     they are extracted with the models so that the OCaml driver only moves
     characters. *)
From Coq Require Import ZArith NArith List Bool Lia DecimalN.
Import ListNotations.
Open Scope N_scope.

Notation chr := N (only parsing).
Notation str := (list N) (only parsing).
Notation bytes := (list N) (only parsing).

Inductive pyexn : Type :=
| IndexError | TypeError | ValueError | KeyError
| FileError | FileFormatError | UnsupportedError | TokenizerError
| StructError         (* struct.error: foreign *)
| PopEmpty            (* IndexError raised by list.pop()/[] inside the library: foreign crash *)
| BadZip              (* zipfile.BadZipFile and friends: foreign *)
| OtherCrash (tag : N)
| OutOfFuel.          (* never a Python behaviour: excluded by every theorem *)

Inductive result (A : Type) : Type :=
| Ok (a : A)
| Err (e : pyexn).
Arguments Ok {A} a.
Arguments Err {A} e.

Definition bind {A B} (r : result A) (f : A -> result B) : result B :=
  match r with Ok a => f a | Err e => Err e end.
Notation "'do' x <- r ; k" := (bind r (fun x => k)) (at level 200, x name, r at level 100, k at level 200).
Notation "'do' ' p <- r ; k" := (bind r (fun x => let p := x in k)) (at level 200, p pattern, r at level 100, k at level 200).

Definition is_bytes (b : bytes) : bool := forallb (fun x => x <? 256) b.

(* ---------- characters ---------- *)
Definition c_tab : chr := 9.
Definition c_space : chr := 32.
Definition c_dollar : chr := 36.
Definition c_minus : chr := 45.
Definition c_colon : chr := 58.
Definition c_0 : chr := 48.
Definition c_A : chr := 65.

Definition is_digit (c : chr) : bool := (48 <=? c) && (c <=? 57).
Definition is_upper (c : chr) : bool := (65 <=? c) && (c <=? 90).
Definition is_lower (c : chr) : bool := (97 <=? c) && (c <=? 122).

Fixpoint str_eqb (a b : str) : bool :=
  match a, b with
  | [], [] => true
  | x :: a', y :: b' => (x =? y) && str_eqb a' b'
  | _, _ => false
  end.

(* ---------- decimal printing / parsing of naturals ---------- *)
Fixpoint uint_chars (u : Decimal.uint) : str :=
  match u with
  | Decimal.Nil => []
  | Decimal.D0 r => 48 :: uint_chars r | Decimal.D1 r => 49 :: uint_chars r
  | Decimal.D2 r => 50 :: uint_chars r | Decimal.D3 r => 51 :: uint_chars r
  | Decimal.D4 r => 52 :: uint_chars r | Decimal.D5 r => 53 :: uint_chars r
  | Decimal.D6 r => 54 :: uint_chars r | Decimal.D7 r => 55 :: uint_chars r
  | Decimal.D8 r => 56 :: uint_chars r | Decimal.D9 r => 57 :: uint_chars r
  end.

(* str(n) for n >= 0 *)
Definition N_to_str (n : N) : str := uint_chars (N.to_uint n).

(* int(s) for a string of ASCII digits: most significant first *)
Definition digits_to_N (s : str) : N :=
  fold_left (fun a c => a * 10 + (c - 48)) s 0.

Definition Z_to_str (z : Z) : str :=
  match z with
  | Z0 => [48]
  | Zpos p => N_to_str (Npos p)
  | Zneg p => c_minus :: N_to_str (Npos p)
  end.

Definition str_to_Z (s : str) : Z :=
  match s with
  | 45 :: r => Z.opp (Z.of_N (digits_to_N r))
  | _ => Z.of_N (digits_to_N s)
  end.

(* ---------- hex ---------- *)
Definition hex_digit (n : N) : chr := if n <? 10 then 48 + n else 87 + n.
Definition hex_val (c : chr) : N :=
  if is_digit c then c - 48 else if (97 <=? c) && (c <=? 102) then c - 87 else c - 55.
Fixpoint hex_of_bytes (b : bytes) : str :=
  match b with [] => [] | x :: r => hex_digit (x / 16) :: hex_digit (x mod 16) :: hex_of_bytes r end.
Fixpoint bytes_of_hex (s : str) : bytes :=
  match s with a :: b :: r => (hex_val a * 16 + hex_val b) :: bytes_of_hex r | _ => [] end.

(* ---------- field splitting ---------- *)
Fixpoint split_on (sep : chr) (s : str) (cur : str) : list str :=
  match s with
  | [] => [rev cur]
  | c :: r => if c =? sep then rev cur :: split_on sep r [] else split_on sep r (c :: cur)
  end.
Definition fields (s : str) : list str := split_on c_tab s [].

(* the same splitters with linear-time reversal (List.rev is quadratic once extracted): for long request lines *)
Fixpoint split_on_fast (sep : chr) (s : str) (cur : str) : list str :=
  match s with
  | [] => [rev_append cur []]
  | c :: r => if c =? sep then rev_append cur [] :: split_on_fast sep r [] else split_on_fast sep r (c :: cur)
  end.
Definition fields_fast (s : str) : list str := split_on_fast c_tab s [].

Fixpoint join (sep : str) (l : list str) : str :=
  match l with [] => [] | [x] => x | x :: r => x ++ sep ++ join sep r end.

Definition exn_name (e : pyexn) : str :=
  match e with
  | IndexError => [73;110;100;101;120;69;114;114;111;114]
  | TypeError => [84;121;112;101;69;114;114;111;114]
  | ValueError => [86;97;108;117;101;69;114;114;111;114]
  | KeyError => [75;101;121;69;114;114;111;114]
  | FileError => [70;105;108;101;69;114;114;111;114]
  | FileFormatError => [70;105;108;101;70;111;114;109;97;116;69;114;114;111;114]
  | UnsupportedError => [85;110;115;117;112;112;111;114;116;101;100;69;114;114;111;114]
  | TokenizerError => [84;111;107;101;110;105;122;101;114;69;114;114;111;114]
  | StructError => [67;82;65;83;72;58;115;116;114;117;99;116]
  | PopEmpty => [67;82;65;83;72;58;105;110;100;101;120]
  | BadZip => [67;82;65;83;72;58;122;105;112]
  | OtherCrash _ => [67;82;65;83;72]
  | OutOfFuel => [79;85;84;79;70;70;85;69;76]
  end.

(* "!Name" marks an exception on a result line *)
Definition show_err (e : pyexn) : str := 33 :: exn_name e.

(* bridge used by the OCaml driver to build N from an int's bits *)
Fixpoint N_of_bits (bs : list bool) : N :=
  match bs with [] => 0 | b :: r => (if b then 1 else 0) + 2 * N_of_bits r end.

(* little-endian integers *)
Fixpoint le_bytes (k : nat) (n : N) : bytes :=
  match k with O => [] | S k' => (n mod 256) :: le_bytes k' (n / 256) end.
Fixpoint le_val (b : bytes) : N :=
  match b with [] => 0 | x :: r => x + 256 * le_val r end.

(* Python slicing on lists with non-negative bounds *)
Definition slice {A} (l : list A) (i j : nat) : list A := firstn (j - i) (skipn i l).
