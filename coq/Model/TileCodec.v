(* TileCodec: executable mirror of
     _NumbersModel.recalculate_row_info      (row -> offsets table + storage buffer, wide offsets)
     get_storage_buffers_for_row             (offsets table + storage buffer -> per-cell slices)
     the 256-row tile split of recalculate_table_data and storage_buffers' concatenation of tiles. *)
From Coq Require Import ZArith NArith List Bool Lia.
From NP Require Import Model.PyBase.
Import ListNotations.

Definition cells := list (option (list N)).     (* None = the cell writes no record (merged placeholders) *)

(* ---- writer: offsets[col] = current_offset >> 2 ; -1 for absent ---- *)
Fixpoint row_offsets (cur : nat) (cs : cells) : list Z :=
  match cs with
  | [] => []
  | Some b :: r => Z.of_nat (cur / 4) :: row_offsets (cur + length b) r
  | None :: r => (-1)%Z :: row_offsets cur r
  end.
Fixpoint row_storage (cs : cells) : list N :=
  match cs with [] => [] | Some b :: r => b ++ row_storage r | None :: r => row_storage r end.

(* pack(f"<{n}h", *offsets) raises struct.error outside the signed 16-bit range *)
Definition h_ok (z : Z) : bool := ((-32768 <=? z) && (z <=? 32767))%Z.
Definition pack_row (cs : cells) : result (list Z * list N) :=
  let offs := row_offsets 0 cs in
  if forallb h_ok offs then Ok (offs, row_storage cs) else Err StructError.

(* ---- reader ---- *)
Fixpoint next_nonneg (offs : list Z) : option Z :=
  match offs with [] => None | o :: r => if (0 <=? o)%Z then Some o else next_nonneg r end.

Fixpoint split_from (storage : list N) (offs : list Z) (ncols : nat) : cells :=
  match ncols, offs with
  | O, _ => []
  | _, [] => []                              (* `if col >= len(offsets): break` *)
  | S n, o :: r =>
    (if (o <? 0)%Z then None
     else let e := match next_nonneg r with Some e => Z.to_nat e | None => length storage end in
          Some (slice storage (Z.to_nat o) e)) :: split_from storage r n
  end.

Definition split_row (wide : bool) (storage : list N) (offs : list Z) (ncols : nat) : cells :=
  split_from storage (if wide then map (fun o => (o * 4)%Z) offs else offs) ncols.

(* ---- tiles ---- *)
Record rowinfo := { tile_row_index : nat; r_offsets : list Z; r_storage : list N; cell_count : nat }.

Definition count_some (cs : cells) : nat := length (filter (fun c => match c with Some _ => true | None => false end) cs).

Fixpoint encode_rows (idx : nat) (rows : list cells) : result (list rowinfo) :=
  match rows with
  | [] => Ok []
  | cs :: r =>
    do p <- pack_row cs ;
    do rest <- encode_rows (S idx) r ;
    Ok ({| tile_row_index := idx; r_offsets := fst p; r_storage := snd p; cell_count := count_some cs |} :: rest)
  end.

(* while tile_idx <= len(data) >> 8: rows [256*i, 256*i+256) - including the empty trailing tile *)
Fixpoint chunks (fuel : nat) (rows : list cells) : list (list cells) :=
  match fuel with O => [] | S f => firstn 256 rows :: chunks f (skipn 256 rows) end.
Definition tiles_of (rows : list cells) : list (list cells) := chunks (S (length rows / 256)) rows.

Fixpoint encode_tiles (ts : list (list cells)) : result (list (list rowinfo)) :=
  match ts with
  | [] => Ok []
  | t :: r => do a <- encode_rows 0 t ; do b <- encode_tiles r ; Ok (a :: b)
  end.
Definition encode_table (rows : list cells) : result (list (list rowinfo)) := encode_tiles (tiles_of rows).

(* storage_buffers: every rowInfo of every tile, in order *)
Definition decode_table (ncols : nat) (tiles : list (list rowinfo)) : list cells :=
  concat (map (map (fun ri => split_row true (r_storage ri) (r_offsets ri) ncols)) tiles).
