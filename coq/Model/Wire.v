(* Wire: generic protobuf wire format, schema-free.
   A message is the list of its (field number, wire value) entries in stream
   order, so fields "the bundled schemas do not know" are ordinary entries.
   Groups (wire types 3/4, deprecated proto2) and the invalid wire types 6/7 are
   rejected by the parser; no fixture contains them (assumption recorded by the
   C05 check).  Acceptance rules follow the upb decoder the library runs on:
   a tag is a varint of at most 5 bytes below 2^32 with field number >= 1,
   a value varint has at most 10 bytes and is kept modulo 2^64, a
   length-delimited value must fit in the remaining input. *)
From Coq Require Import NArith List Bool Lia.
From NP Require Import Model.PyBase Model.Varint.
Import ListNotations.
Open Scope N_scope.

Inductive wval : Type :=
| WVarint (n : N)          (* wire type 0 *)
| WI64 (b : bytes)         (* wire type 1, 8 bytes *)
| WLen (b : bytes)         (* wire type 2 *)
| WI32 (b : bytes).        (* wire type 5, 4 bytes *)
Definition wfield : Type := (N * wval)%type.
Definition wmsg : Type := list wfield.

Definition wtype (v : wval) : N :=
  match v with WVarint _ => 0 | WI64 _ => 1 | WLen _ => 2 | WI32 _ => 5 end.

Definition ser_val (v : wval) : bytes :=
  match v with
  | WVarint n => encode_varint n
  | WI64 b => b
  | WLen b => encode_varint (lenN b) ++ b
  | WI32 b => b
  end.
Definition ser_field (f : wfield) : bytes :=
  encode_varint (fst f * 8 + wtype (snd f)) ++ ser_val (snd f).
Definition ser_wire (m : wmsg) : bytes := flat_map ser_field m.

(* exactly n bytes or failure *)
Definition take_exact (n : N) (b : bytes) : option (bytes * bytes) :=
  if lenN b <? n then None else Some (takeN n b, dropN n b).

Definition parse_val (wt : N) (r : bytes) : option (wval * bytes) :=
  match wt with
  | 0 => match decode_varint64 r with Ok (v, r') => Some (WVarint v, r') | Err _ => None end
  | 1 => match take_exact 8 r with Some (x, r') => Some (WI64 x, r') | None => None end
  | 2 => match decode_varint_raw r with
         | Ok (l, r1) => match take_exact l r1 with Some (x, r') => Some (WLen x, r') | None => None end
         | Err _ => None
         end
  | 5 => match take_exact 4 r with Some (x, r') => Some (WI32 x, r') | None => None end
  | _ => None
  end.

Definition parse_field (b : bytes) : option (wfield * bytes) :=
  match decode_varint_raw b with
  | Err _ => None
  | Ok (tag, r) =>
    if (tag <? 4294967296) && existsb (fun x => x <? 128) (firstn 5 b) && negb (tag / 8 =? 0) then
      match parse_val (tag mod 8) r with
      | Some (v, r') => Some ((tag / 8, v), r')
      | None => None
      end
    else None
  end.

Fixpoint parse_wire_f (fuel : nat) (b : bytes) : option wmsg :=
  match b with
  | [] => Some []
  | _ :: _ =>
    match fuel with
    | O => None
    | S f =>
      match parse_field b with
      | None => None
      | Some (fd, r) => match parse_wire_f f r with Some m => Some (fd :: m) | None => None end
      end
    end
  end.
(* every field consumes at least one byte *)
Definition parse_wire (b : bytes) : option wmsg := parse_wire_f (length b) b.

(* ---------- field access (protobuf "last one wins" for singular scalars) ---------- *)
Definition last_varint (k : N) (m : wmsg) : option N :=
  fold_left (fun acc f => match f with (k', WVarint n) => if k' =? k then Some n else acc | _ => acc end) m None.
Definition len_fields (k : N) (m : wmsg) : list bytes :=
  flat_map (fun f => match f with (k', WLen b) => if k' =? k then [b] else [] | _ => [] end) m.
Definition has_varint (k : N) (m : wmsg) : bool :=
  existsb (fun f => match f with (k', WVarint _) => k' =? k | _ => false end) m.

(* ---------- well-formedness of a message value (what a serialiser can emit) ---------- *)
Definition wf_val (v : wval) : Prop :=
  match v with
  | WVarint n => n < 18446744073709551616
  | WI64 b => length b = 8%nat
  | WLen b => lenN b < 4294967296
  | WI32 b => length b = 4%nat
  end.
Definition wf_field (f : wfield) : Prop := 1 <= fst f < 536870912 /\ wf_val (snd f).
Definition wf_msg (m : wmsg) : Prop := Forall wf_field m.

(* boolean version used by the entry points *)
Definition wf_valb (v : wval) : bool :=
  match v with
  | WVarint n => n <? 18446744073709551616
  | WI64 b => Nat.eqb (length b) 8
  | WLen b => lenN b <? 4294967296
  | WI32 b => Nat.eqb (length b) 4
  end.
Definition wf_fieldb (f : wfield) : bool := (1 <=? fst f) && (fst f <? 536870912) && wf_valb (snd f).
Definition wf_msgb (m : wmsg) : bool := forallb wf_fieldb m.
